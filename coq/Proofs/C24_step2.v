(* C24 — remove_subdomain: succeeds on a present subdomain, preserves the invariant and
   deletes exactly the subdomain, its interfaces and its boundary grid. *)
From Coq Require Import List Arith Bool Lia Permutation Sorted.
Import ListNotations.
From PP Require Import Model.C24 Model.C24_spec Proofs.C24_base Proofs.C24_sort Proofs.C24_inv
  Proofs.C24_step.

(* tch through the invariant *)
Lemma tch_spec g sp s i p :
  Inv g sp -> lookup i (pI sp) = Some p -> tch (i2s g) s i = touches s p.
Proof.
  intros HI Hl. pose proof (inv_rel _ _ HI i) as Hr. rewrite Hl in Hr. unfold tch.
  destruct (lookup i (i2s g)) as [q|]; [|contradiction]. cbn in Hr.
  symmetry. apply touches_unord; auto.
Qed.

Lemma tch_absent g sp s i :
  Inv g sp -> lookup i (pI sp) = None -> tch (i2s g) s i = false.
Proof.
  intros HI Hl. pose proof (inv_rel _ _ HI i) as Hr. rewrite Hl in Hr. unfold tch.
  destruct (lookup i (i2s g)); [contradiction | reflexivity].
Qed.

Lemma ddel_absent {V} (m : list (gid * V)) k : ~ In k (map fst m) -> ddel k m = m.
Proof.
  induction m as [|[k' v'] r IH]; cbn; intros H; auto.
  gcase k' k; [exfalso; apply H; auto|]. f_equal. apply IH. tauto.
Qed.

(* what remove_subdomain does to the five dictionaries *)
Definition removed_exactly (g g' : st) (s : gid) : Prop :=
  sds g' = filter (fun x => neqb x s) (sds g) /\
  intfs g' = filter (fun i => negb (tch (i2s g) s i)) (intfs g) /\
  (forall j, lookup j (i2s g') = if tch (i2s g) s j then None else lookup j (i2s g)) /\
  s2b g' = ddel s (s2b g) /\
  bgs g' = match lookup s (s2b g) with Some bg => kdel bg (bgs g) | None => bgs g end.

Lemma step_remove g sp s :
  Inv g sp -> okb sp (RemoveSd s) = true ->
  exists g', step g (RemoveSd s) = (g', Done) /\ Inv g' (sstep sp (RemoveSd s)) /\
             removed_exactly g g' s.
Proof.
  intros HI Hok. cbn [okb] in Hok. pose proof Hok as Hs. apply mem_In in Hs.
  assert (Hn : NoDup (sds g)) by (rewrite (inv_sds _ _ HI); apply (inv_nd _ _ HI)).
  assert (HnI : NoDup (intfs g)) by (rewrite (inv_intfs _ _ HI); apply (inv_ndI _ _ HI)).
  assert (Hs' : In s (sds g)) by (rewrite (inv_sds _ _ HI); auto).
  (* the listing of the interfaces (the subdomain is still present) *)
  destruct (argsort_gen (sds g) (intfs g) HnI) as (L & HL & HLn & HLin).
  { intros _ E. rewrite E in Hs'. destruct Hs'. }
  (* the interfaces found *)
  assert (Hcol : collect (i2s g) s L = Ok (filter (tch (i2s g) s) L)).
  { apply collect_spec. intros i Hi. rewrite (inv_keys _ _ HI). apply HLin in Hi. tauto. }
  set (rm := filter (tch (i2s g) s) L) in *.
  assert (Hrm : forall x, mem x rm = tch (i2s g) s x).
  { intros x. destruct (mem x rm) eqn:E1, (tch (i2s g) s x) eqn:E2; auto; exfalso.
    - apply mem_In in E1. unfold rm in E1. apply filter_In in E1. destruct E1; congruence.
    - apply mem_nIn in E1. apply E1. unfold rm. apply filter_In. split; auto. apply HLin.
      assert (Hx : In x (intfs g)).
      { rewrite <- (inv_keys _ _ HI). apply lookup_keys. unfold tch in E2.
        destruct (lookup x (i2s g)); [discriminate | discriminate]. }
      split; auto.
      destruct (stored_pair g sp x HI Hx) as (a & b & a' & b' & Hl & Hl' & Hu & Ha & Hb & Hda & Hdb).
      pose proof (dim_max_ge _ _ Ha). lia. }
  destruct (del_intfs_spec rm (intfs g) (i2s g) HnI (inv_keys _ _ HI)) as (Hd1 & Hd2 & Hd3).
  destruct (del_intfs rm (intfs g) (i2s g)) as [k' m'] eqn:Ed. cbn [fst snd] in Hd1, Hd2, Hd3.
  assert (Hk' : k' = filter (fun i => negb (tch (i2s g) s i)) (intfs g)).
  { rewrite Hd1. apply filter_ext. intros x. rewrite Hrm. reflexivity. }
  assert (Hm' : forall j, lookup j m' = if tch (i2s g) s j then None else lookup j (i2s g)).
  { intros j. rewrite Hd3, Hrm. reflexivity. }
  (* the invariant on the interface part, shared by both boundary-grid cases *)
  assert (Hspec_keys : k' = map fst (filter (fun e => negb (touches s (snd e))) (pI sp))).
  { rewrite Hk', (inv_intfs _ _ HI). symmetry. apply map_fst_filter.
    intros [i p] Hin. cbn [fst snd]. f_equal. symmetry. apply (tch_spec g sp s i p HI).
    apply In_lookup; auto. apply (inv_ndI _ _ HI). }
  assert (Hrel : forall j, orel (lookup j (filter (fun e => negb (touches s (snd e))) (pI sp)))
                                (lookup j m')).
  { intros j. rewrite lookup_filter by apply (inv_ndI _ _ HI). rewrite Hm'. cbn [snd].
    destruct (lookup j (pI sp)) as [p|] eqn:E.
    - rewrite (tch_spec g sp s j p HI E). pose proof (inv_rel _ _ HI j) as Hr. rewrite E in Hr.
      destruct (touches s p); cbn; auto.
    - rewrite (tch_absent g sp s j HI E). pose proof (inv_rel _ _ HI j) as Hr. rewrite E in Hr.
      exact Hr. }
  assert (Hwf : WfI (sstep sp (RemoveSd s))).
  { intros j a b. cbn [sstep pS pI]. rewrite lookup_filter by apply (inv_ndI _ _ HI).
    destruct (lookup j (pI sp)) as [p|] eqn:E; [|discriminate]. cbn [snd].
    destruct (touches s p) eqn:Et; cbn; [discriminate|]. intros Hp; inversion Hp; subst.
    destruct (inv_wf _ _ HI j a b E) as (H2 & H3 & H4 & H5 & H6).
    assert (Has : a <> s).
    { intros Heq; subst a. assert (touches s (s, b) = true) by (apply touches_iff; auto).
      congruence. }
    assert (Hbs : b <> s).
    { intros Heq; subst b. assert (touches s (a, s) = true) by (apply touches_iff; auto).
      congruence. }
    repeat split; auto; try (apply in_filter_neq; auto).
    intros k c d. rewrite lookup_filter by apply (inv_ndI _ _ HI).
    destruct (lookup k (pI sp)) as [q|] eqn:E'; [|discriminate]. cbn [snd].
    destruct (touches s q); cbn; [discriminate|]. intros Hq; inversion Hq; subst. eapply H6; eauto. }
  assert (Hok' : mem s (sds g) = true) by (rewrite (inv_sds _ _ HI); exact Hok).
  cbn [step]. unfold remove_subdomain, interfaces. cbn [dim_filter]. rewrite HL, Hcol, Hok'.
  cbn [negb sds intfs i2s s2b bgs nbg]. rewrite Ed.
  unfold gdim. destruct (0 <? fst s) eqn:Ed0.
  - apply Nat.ltb_lt in Ed0.
    assert (Hsk : In s (map fst (s2b g))).
    { apply (inv_bk _ _ HI). split; auto. }
    destruct (In_keys_lookup _ _ Hsk) as (bg & Hbg). rewrite Hbg.
    destruct (inv_bi _ _ HI) as (B1 & B2 & B3 & B4 & B5).
    assert (Hbm : mem bg (bgs g) = true).
    { apply mem_In. rewrite B2. apply lookup_In in Hbg. apply in_map_iff. exists (s, bg); auto. }
    rewrite Hbm. eexists; split; [reflexivity|]. split.
    + constructor; cbn [sds intfs i2s s2b bgs nbg sstep pS pI]; auto.
      * rewrite kdel_filter, (inv_sds _ _ HI) by auto. reflexivity.
      * apply NoDup_filter. apply (inv_nd _ _ HI).
      * rewrite <- Hspec_keys, Hk'. apply NoDup_filter; auto.
      * apply BI_del; auto. apply (inv_bi _ _ HI).
      * intros x. rewrite ddel_keys, kdel_In, kdel_In, (inv_bk _ _ HI x) by auto. tauto.
    + unfold removed_exactly. cbn [sds intfs i2s s2b bgs nbg]. rewrite Hbg.
      repeat split; auto. apply kdel_filter; auto.
  - apply Nat.ltb_ge in Ed0.
    assert (Hsk : ~ In s (map fst (s2b g))).
    { intros Hin. apply (inv_bk _ _ HI) in Hin. lia. }
    eexists; split; [reflexivity|]. split.
    + constructor; cbn [sds intfs i2s s2b bgs nbg sstep pS pI]; auto.
      * rewrite kdel_filter, (inv_sds _ _ HI) by auto. reflexivity.
      * apply NoDup_filter. apply (inv_nd _ _ HI).
      * rewrite <- Hspec_keys, Hk'. apply NoDup_filter; auto.
      * apply (inv_bi _ _ HI).
      * intros x. rewrite kdel_In, (inv_bk _ _ HI x) by auto. split; [|tauto].
        intros [H1 H2]. repeat split; auto. intros ->. lia.
    + unfold removed_exactly. cbn [sds intfs i2s s2b bgs nbg].
      assert (Hnone : lookup s (s2b g) = None) by (apply lookup_None; auto). rewrite Hnone.
      repeat split; auto; [apply kdel_filter; auto | symmetry; apply ddel_absent; auto].
Qed.
