(* C31 — point_in_polyhedron: the transcribed decision logic "degenerate w.r.t. ANY
   triangle => outside", and its refutation against the exact inside test. *)
From Coq Require Import List QArith Qabs Bool ZArith Arith Lia Lqa.
Import ListNotations.
From PP Require Import Model.C28 Model.C31 Proofs.C28.
Open Scope Q_scope.

Lemma volume_is_det : forall r0 r1 r2,
  dot3 r1 (crs3 (sub3 r0 r1) (sub3 r2 r1)) == - det3 r0 r1 r2.
Proof.
  intros [[a0 a1] a2] [[b0 b1] b2] [[c0 c1] c2]. unfold det3, dot3, crs3, sub3. ring.
Qed.

(* a test point in the supporting PLANE of any triangle of the surface is reported outside,
   wherever in that plane it lies *)
Lemma pih_coplanar_outside : forall tol tris p A B C,
  0 < tol -> In (A, B, C) tris ->
  det3 (sub3 A p) (sub3 B p) (sub3 C p) == 0 ->
  pih_decision tol tris p = Some false.
Proof.
  intros tol tris p A B C Ht Hin Hd. unfold pih_decision.
  assert (E : existsb (tri_raises tol p) tris = true).
  { apply existsb_exists. exists (A, B, C). split; [exact Hin|].
    unfold tri_raises. cbv zeta. apply orb_true_iff. right.
    apply qltb_true. rewrite volume_is_det, Hd. exact Ht. }
  rewrite E. reflexivity.
Qed.

(* the closed, conforming triangulation of the L-shaped prism
   L = (0,0)(4,0)(4,4)(2,4)(2,2)(0,2), 0 <= z <= 2 used by the tie *)
Definition quad_tris (a b c d : v3) : list tri3 := [(a, b, c); (a, c, d)].

Definition Lprism_tris : list tri3 :=
  let ring : list (Q * Q) := [(0, 0); (2, 0); (4, 0); (4, 2); (4, 4); (2, 4); (2, 2); (0, 2)] in
  let side (a b : Q * Q) :=
    quad_tris (fst a, snd a, 0) (fst b, snd b, 0) (fst b, snd b, 2) (fst a, snd a, 2) in
  let cap (z : Q) (o : Q * Q) :=
    quad_tris (fst o, snd o, z) (fst o + 2, snd o, z) (fst o + 2, snd o + 2, z) (fst o, snd o + 2, z) in
  flat_map (fun ab => side (fst ab) (snd ab)) (combine ring (roll1 ring))
  ++ flat_map (fun z => flat_map (cap z) [(0, 0); (2, 0); (2, 2)]) [0; 2].

(* strictly inside the prism: inside one of three open boxes whose union is its interior *)
Definition in_open_box (lo hi p : v3) : Prop :=
  let '(x, y, z) := p in let '(a, b, c) := lo in let '(d, e, f) := hi in
  a < x /\ x < d /\ b < y /\ y < e /\ c < z /\ z < f.

Definition Lprism_interior (p : v3) : Prop :=
  in_open_box (0, 0, 0) (4, 2, 2) p \/ in_open_box (2, 2, 0) (4, 4, 2) p \/
  in_open_box (2, 1, 0) (4, 3, 2) p.

Lemma pih_refuted :
  let p : v3 := (3, 2, 1) in
  Lprism_interior p /\ pih_ref Lprism_tris p = Some true /\
  pih_decision tol10 Lprism_tris p = Some false /\
  (* whereas a generic interior point is left to the solid-angle sum *)
  Lprism_interior (13 # 4, 9 # 4, 3 # 4) /\
  pih_decision tol10 Lprism_tris (13 # 4, 9 # 4, 3 # 4) = None /\
  pih_ref Lprism_tris (13 # 4, 9 # 4, 3 # 4) = Some true.
Proof.
  cbv zeta. split; [|split; [|split; [|split; [|split]]]].
  - right. right. unfold in_open_box. repeat split; reflexivity.
  - vm_compute. reflexivity.
  - vm_compute. reflexivity.
  - right. left. unfold in_open_box. repeat split; reflexivity.
  - vm_compute. reflexivity.
  - vm_compute. reflexivity.
Qed.
