(* C29 — proofs, part 2: the theorems about [split] under the guard. *)
From Coq Require Import List QArith Qabs Bool Arith ZArith Lia Lqa Permutation Sorted.
Import ListNotations.
From PP Require Import Model.C28 Proofs.C28 Model.C29 Proofs.C29.
Open Scope Q_scope.

Lemma sep2d_eq : forall tol a b c d, sep2d tol a b c d = separated tol a b c d.
Proof. reflexivity. Qed.

Definition same_geom (e1 e2 : edge) : Prop :=
  (peq (eA e1) (eA e2) /\ peq (eB e1) (eB e2)) \/ (peq (eA e1) (eB e2) /\ peq (eB e1) (eA e2)).

Lemma minmax_cases : forall a b : nat,
  (Nat.min a b = a /\ Nat.max a b = b) \/ (Nat.min a b = b /\ Nat.max a b = a).
Proof. intros a b. lia. Qed.

Lemma res_pts_common : forall a b c d r q,
  correct2 a b c d r -> In q (res_pts r) -> common q a b c d.
Proof.
  intros a b c d r q C H. destruct r as [|q0|q1 q2|er]; cbn in *; try contradiction.
  - destruct H as [<-|[]]. apply C. apply peq_refl.
  - destruct C as [_ C]. destruct H as [<-|[<-|[]]]; apply C; [apply on_seg_start|apply on_seg_end].
Qed.

Definition seg_same_geom (g1 g2 : seg) : Prop :=
  (peq (sS g1) (sS g2) /\ peq (sE g1) (sE g2)) \/ (peq (sS g1) (sE g2) /\ peq (sE g1) (sS g2)).

Lemma fop_indexed : forall (l : list seg) s,
  ForallOrdPairs (fun g1 g2 => ~ seg_same_geom g1 g2) l ->
  ForallOrdPairs (fun a b : nat * seg =>
     ~ same_geom (sS (snd a), sE (snd a), sT (snd a), fst a)
                 (sS (snd b), sE (snd b), sT (snd b), fst b)) (indexed_from s l).
Proof.
  intros l s H. revert s. induction H as [|x r F H IH]; intro s; cbn [indexed_from]; constructor.
  - rewrite Forall_forall in *. intros [k g] Hy. apply in_indexed_from in Hy.
    destruct Hy as [_ Hy]. apply nth_error_In in Hy. specialize (F g Hy).
    unfold same_geom, eA, eB. cbn [fst snd]. exact F.
  - apply IH.
Qed.

Section Main.
  Variables (tol : Q) (segs : list seg).
  Hypothesis G : guard tol segs = true.

  Lemma g_all : 0 < tol /\
    (forall g, In g segs -> ~ peq (sS g) (sE g)) /\
    (forall pr, In pr (cand_pairs tol segs) ->
       separated tol (sS (snd (fst pr))) (sE (snd (fst pr)))
                 (sS (snd (snd pr))) (sE (snd (snd pr))) = true) /\
    sep_pts tol (all_pt tol segs) = true.
  Proof.
    unfold guard in G. apply andb_true_iff in G. destruct G as [G1 G4].
    apply andb_true_iff in G1. destruct G1 as [G1 G3].
    apply andb_true_iff in G1. destruct G1 as [G1 G2].
    split; [apply qltb_true; exact G1|]. split; [|split; [|exact G4]].
    - intros g Hg P. rewrite forallb_forall in G2. specialize (G2 g Hg).
      apply peqb_iff in P. rewrite P in G2. discriminate.
    - intros pr Hpr. rewrite forallb_forall in G3. apply (G3 pr Hpr).
  Qed.

  Lemma g_tol : 0 < tol. Proof. apply g_all. Qed.
  Lemma g_sep : sep_pts tol (all_pt tol segs) = true. Proof. apply g_all. Qed.

  Lemma indexed_in_segs : forall k g, In (k, g) (indexed segs) -> In g segs.
  Proof. intros k g H. apply in_indexed in H. eapply nth_error_In. exact H. Qed.

  Lemma g_proper : forall k g, In (k, g) (indexed segs) -> ~ peq (sS g) (sE g).
  Proof. intros k g H. apply g_all. eapply indexed_in_segs. exact H. Qed.

  Lemma cand_in : forall ig jg, In (ig, jg) (cand_pairs tol segs) ->
    In ig (indexed segs) /\ In jg (indexed segs) /\ (fst ig < fst jg)%nat.
  Proof.
    intros ig jg H. unfold cand_pairs in H. apply in_flat_map in H.
    destruct H as [ig' [Hi H]]. unfold cands_of in H. apply in_map_iff in H.
    destruct H as [jg' [E H]]. inversion E; subst. apply filter_In in H. destruct H as [H _].
    unfold others in H. apply filter_In in H. destruct H as [Hj H].
    apply andb_true_iff in H. destruct H as [H _]. apply Nat.ltb_lt in H. tauto.
  Qed.

  Lemma cand_correct : forall i gi j gj, In ((i, gi), (j, gj)) (cand_pairs tol segs) ->
    correct2 (sS gi) (sE gi) (sS gj) (sE gj) (isect_of tol ((i, gi), (j, gj))).
  Proof.
    intros i gi j gj H. destruct (cand_in _ _ H) as [Hi [Hj _]].
    unfold isect_of. cbn [fst snd]. apply seg2d_correct_separated.
    - pose proof g_tol. lra.
    - eapply g_proper. exact Hi.
    - eapply g_proper. exact Hj.
    - destruct g_all as [_ [_ [S _]]]. apply (S _ H).
  Qed.

  Let hs := hits tol segs.
  Let U := uniqU tol (all_pt tol segs).

  Lemma hit_sound : forall k g q, In (k, g) (indexed segs) -> In q (isect_for k hs) ->
    on_seg q (sS g) (sE g).
  Proof.
    intros k g q Hk H. unfold isect_for, hs, hits in H. apply in_flat_map in H.
    destruct H as [h [Hh Hq]]. apply in_map_iff in Hh. destruct Hh as [pr [<- Hpr]].
    destruct pr as [[i gi] [j gj]]. cbn [fst snd] in Hq.
    destruct (cand_in _ _ Hpr) as [Hi [Hj _]].
    pose proof (cand_correct _ _ _ _ Hpr) as C.
    destruct (k =? i)%nat eqn:E1.
    - apply Nat.eqb_eq in E1. subst i. cbn [orb] in Hq.
      rewrite (indexed_fun _ _ _ _ Hk Hi). apply (res_pts_common _ _ _ _ _ _ C Hq).
    - cbn [orb] in Hq. destruct (k =? j)%nat eqn:E2; [|destruct Hq].
      apply Nat.eqb_eq in E2. subst j.
      rewrite (indexed_fun _ _ _ _ Hk Hj). apply (res_pts_common _ _ _ _ _ _ C Hq).
  Qed.

  Lemma isect_in_new : forall k q, In q (isect_for k hs) -> In q (new_pts hs).
  Proof.
    intros k q H. unfold isect_for in H. apply in_flat_map in H. destruct H as [h [Hh Hq]].
    unfold new_pts. apply in_flat_map. exists h. split; [exact Hh|].
    destruct ((k =? fst (fst h))%nat || (k =? snd (fst h))%nat); [exact Hq|destruct Hq].
  Qed.

  (* the points of segment k: all of them are handed to the uniquification and lie on k *)
  Lemma local_src : forall k g q, In (k, g) (indexed segs) ->
    In q (sS g :: sE g :: isect_for k hs) ->
    In q (all_pt tol segs) /\ on_seg q (sS g) (sE g).
  Proof.
    intros k g q Hk H. pose proof (indexed_in_segs _ _ Hk) as Hg.
    unfold all_pt. destruct H as [<-|[<-|H]].
    - split; [|apply on_seg_start]. apply in_or_app. left. unfold end_pts.
      apply in_flat_map. exists g. split; [exact Hg|left; reflexivity].
    - split; [|apply on_seg_end]. apply in_or_app. left. unfold end_pts.
      apply in_flat_map. exists g. split; [exact Hg|right; left; reflexivity].
    - split; [|eapply hit_sound; eassumption]. apply in_or_app. right.
      eapply isect_in_new. exact H.
  Qed.

  Lemma local_in : forall k g i, In i (local_inds tol U hs (k, g)) <->
    exists q, In q (sS g :: sE g :: isect_for k hs) /\ i = idx tol U q.
  Proof.
    intros k g i. unfold local_inds. cbn [fst snd]. rewrite qsort_in, usort_in, in_map_iff.
    split; intros [q [H1 H2]]; exists q; [split; [exact H2|symmetry; exact H1]|split; [symmetry; exact H2|exact H1]].
  Qed.

  Lemma local_on : forall k g i, In (k, g) (indexed segs) ->
    In i (local_inds tol U hs (k, g)) ->
    (i < length U)%nat /\ on_seg (upt U i) (sS g) (sE g).
  Proof.
    intros k g i Hk H. apply local_in in H. destruct H as [q [Hq ->]].
    destruct (local_src _ _ _ Hk Hq) as [Hall Hon].
    destruct (rep_peq tol g_tol (all_pt tol segs) g_sep q Hall) as [L P].
    split; [exact L|]. eapply on_seg_peq; [apply peq_sym; exact P|apply peq_refl|apply peq_refl|exact Hon].
  Qed.

  Lemma local_nodup : forall kg, NoDup (local_inds tol U hs kg).
  Proof.
    intros kg. unfold local_inds. eapply Permutation_NoDup.
    - apply Permutation_sym. apply qsort_perm.
    - apply ssorted_lt_nodup. apply usort_sorted.
  Qed.

  Let ch := all_children tol U hs segs.

  Lemma child_in : forall c, In c ch <->
    exists k g a b, In (k, g) (indexed segs) /\ In (a, b) (cpairs (local_inds tol U hs (k, g))) /\
                    c = (Nat.min a b, Nat.max a b, sT g, k).
  Proof.
    intros c. unfold ch, all_children. rewrite in_flat_map. split.
    - intros [[k g] [Hk H]]. unfold children_of in H. apply in_map_iff in H.
      destruct H as [[a b] [<- Hab]]. exists k, g, a, b. cbn [fst snd]. tauto.
    - intros [k [g [a [b [Hk [Hab ->]]]]]]. exists (k, g). split; [exact Hk|].
      unfold children_of. apply in_map_iff. exists (a, b). cbn [fst snd]. tauto.
  Qed.

  Lemma child_facts : forall c, In c ch -> (cA c < cB c)%nat /\ (cB c < length U)%nat.
  Proof.
    intros c H. apply child_in in H. destruct H as [k [g [a [b [Hk [Hab ->]]]]]].
    pose proof (cpairs_neq _ _ _ (local_nodup (k, g)) Hab) as N.
    destruct (cpairs_in _ _ _ Hab) as [Ha Hb].
    destruct (local_on _ _ _ Hk Ha) as [La _]. destruct (local_on _ _ _ Hk Hb) as [Lb _].
    unfold cA, cB. cbn [fst snd]. lia.
  Qed.

  Lemma split_cases : forall pre out, split tol segs = Edges pre out ->
    (new_pts hs = [] /\ pre = out /\
     out = map (fun kg => (sS (snd kg), sE (snd kg), sT (snd kg), fst kg)) (indexed segs)) \/
    (new_pts hs <> [] /\ pre = map (to_edge U) ch /\ out = map (to_edge U) (dedup ch)).
  Proof.
    intros pre out H. unfold split in H.
    destruct (first_err (map (isect_of tol) (cand_pairs tol segs))); [discriminate|].
    fold hs in H. destruct (new_pts hs) eqn:E.
    - left. inversion H; subst. auto.
    - right. inversion H; subst. split; [discriminate|]. split; reflexivity.
  Qed.

  (* under the guard the splitting does not raise *)
  Lemma no_raise : exists pre out, split tol segs = Edges pre out.
  Proof.
    unfold split.
    assert (E : first_err (map (isect_of tol) (cand_pairs tol segs)) = None).
    { assert (K : forall l, (forall pr, In pr l -> In pr (cand_pairs tol segs)) ->
                            first_err (map (isect_of tol) l) = None).
      { induction l as [|pr r IH]; intro Sub; [reflexivity|]. cbn [map first_err].
        pose proof (Sub pr (or_introl eq_refl)) as Hpr. destruct pr as [[i gi] [j gj]].
        pose proof (cand_correct _ _ _ _ Hpr) as C.
        destruct (isect_of tol (i, gi, (j, gj))); try (apply IH; intros; apply Sub; right; assumption).
        destruct C. }
      apply K. tauto. }
    rewrite E. destruct (new_pts (hits tol segs)); eexists; eexists; reflexivity.
  Qed.

  Section Out.
    Variables pre out : list edge.
    Hypothesis S : split tol segs = Edges pre out.

    (* ---------------- children inside their parent, with its tags *)
    Lemma inside : forall e, In e out ->
      exists g, nth_error segs (eP e) = Some g /\
                on_seg (eA e) (sS g) (sE g) /\ on_seg (eB e) (sS g) (sE g) /\ eT e = sT g.
    Proof.
      intros e He. destruct (split_cases _ _ S) as [[_ [_ O]]|[_ [_ O]]]; subst out.
      - apply in_map_iff in He. destruct He as [[k g] [<- Hk]]. cbn [fst snd].
        exists g. unfold eP, eA, eB, eT. cbn [fst snd].
        split; [apply in_indexed; exact Hk|]. split; [apply on_seg_start|]. split; [apply on_seg_end|reflexivity].
      - apply in_map_iff in He. destruct He as [c [<- Hc]]. apply dedup_in in Hc.
        apply child_in in Hc. destruct Hc as [k [g [a [b [Hk [Hab ->]]]]]].
        destruct (cpairs_in _ _ _ Hab) as [Ha Hb].
        destruct (local_on _ _ _ Hk Ha) as [_ Oa]. destruct (local_on _ _ _ Hk Hb) as [_ Ob].
        exists g. unfold to_edge, eP, eA, eB, eT, cA, cB, cT, cP. cbn [fst snd].
        split; [apply in_indexed; exact Hk|].
        destruct (minmax_cases a b) as [[-> ->]|[-> ->]]; tauto.
    Qed.

    (* ---------------- covering *)
    Lemma local_cover : forall k g p, In (k, g) (indexed segs) -> on_seg p (sS g) (sE g) ->
      exists a b, In (a, b) (cpairs (local_inds tol U hs (k, g))) /\
                  on_seg p (upt U a) (upt U b).
    Proof.
      intros k g p Hk [t [T0 [T1 [Px Py]]]].
      set (s := sS g) in *. set (e := sE g) in *.
      pose proof (g_proper _ _ Hk) as N. fold s e in N.
      pose proof (nrm2_pos s e N) as Npos.
      set (L := local_inds tol U hs (k, g)).
      set (tp := fun i => par s e (upt U i)).
      assert (Hat : forall i, In i L -> 0 <= tp i /\ tp i <= 1 /\ at_par s e (upt U i) (tp i)).
      { intros i Hi. destruct (local_on _ _ _ Hk Hi) as [_ On]. apply on_seg_par; assumption. }
      set (is_ := idx tol U s). set (ie := idx tol U e).
      assert (His : In is_ L) by (apply local_in; exists s; split; [left; reflexivity|reflexivity]).
      assert (Hie : In ie L) by (apply local_in; exists e; split; [right; left; reflexivity|reflexivity]).
      assert (Ps : peq (upt U is_) s).
      { apply (rep_peq tol g_tol (all_pt tol segs) g_sep s).
        apply (local_src k g s Hk). left. reflexivity. }
      assert (Pe : peq (upt U ie) e).
      { apply (rep_peq tol g_tol (all_pt tol segs) g_sep e).
        apply (local_src k g e Hk). right. left. reflexivity. }
      assert (T_s : tp is_ == 0).
      { unfold tp. rewrite (par_peq s e _ _ Ps). apply par_of_at; [exact N|]. split; ring. }
      assert (T_e : tp ie == 1).
      { unfold tp. rewrite (par_peq s e _ _ Pe). apply par_of_at; [exact N|]. split; ring. }
      assert (Srt : StronglySorted (kle tp) L).
      { unfold L, local_inds. cbn [fst snd]. fold s. fold is_.
        eapply ssorted_weaken_in; [apply qsort_sorted|].
        intros a b Ha Hb R. unfold kle in *.
        assert (Ha' : In a L) by exact Ha. assert (Hb' : In b L) by exact Hb.
        destruct (Hat a Ha') as [A0 [_ Aat]]. destruct (Hat b Hb') as [B0 [_ Bat]].
        rewrite (dist2_at s e _ _ _ Aat Ps), (dist2_at s e _ _ _ Bat Ps) in R.
        eapply sq_mono_inv; eassumption. }
      destruct L as [|x r] eqn:EL; [destruct His|].
      assert (Lx : tp x <= 0).
      { destruct His as [->|His]; [lra|]. inversion Srt as [|? ? _ F]; subst.
        rewrite Forall_forall in F. specialize (F _ His). unfold kle in F. lra. }
      assert (Hz : In ie r).
      { destruct Hie as [E|Hie]; [|exact Hie]. exfalso. subst x. lra. }
      destruct (chain_cover (upt U) tp s e p t (conj Px Py) r x) as [a [b [Hab On]]].
      - intros i Hi. apply Hat. exact Hi.
      - exact Srt.
      - lra.
      - exists ie. split; [exact Hz|lra].
      - exists a, b. split; assumption.
    Qed.

    Lemma cover_sup : forall k g p, nth_error segs k = Some g -> on_seg p (sS g) (sE g) ->
      exists e, In e out /\ on_seg p (eA e) (eB e).
    Proof.
      intros k g p Hk Hp. apply in_indexed in Hk.
      destruct (split_cases _ _ S) as [[_ [_ O]]|[_ [_ O]]]; subst out.
      - exists (sS g, sE g, sT g, k). split; [|exact Hp].
        apply in_map_iff. exists (k, g). split; [reflexivity|exact Hk].
      - destruct (local_cover k g p Hk Hp) as [a [b [Hab On]]].
        assert (Hc : In (Nat.min a b, Nat.max a b, sT g, k) ch).
        { apply child_in. exists k, g, a, b. tauto. }
        destruct (dedup_cover _ _ Hc) as [d [Hd K]]. apply same_key_iff in K.
        unfold cA, cB in K. cbn [fst snd] in K. destruct K as [KA KB].
        exists (to_edge U d). split; [apply in_map; exact Hd|].
        unfold to_edge, eA, eB. cbn [fst snd]. unfold cA, cB. rewrite KA, KB.
        destruct (minmax_cases a b) as [[-> ->]|[-> ->]]; [exact On|apply on_seg_rev; exact On].
    Qed.

    Lemma cover_sub : forall e p, In e out -> on_seg p (eA e) (eB e) ->
      exists g, nth_error segs (eP e) = Some g /\ on_seg p (sS g) (sE g).
    Proof.
      intros e p He Hp. destruct (inside e He) as [g [Hk [Oa [Ob _]]]].
      exists g. split; [exact Hk|]. apply (on_seg_convex p (eA e) (eB e)); assumption.
    Qed.

    (* ---------------- no duplicates, no zero-length edge (uniquification branch) *)
    Lemma proper_children : new_pts hs <> [] -> forall e, In e out -> ~ peq (eA e) (eB e).
    Proof.
      intros NE e He P. destruct (split_cases _ _ S) as [[E _]|[_ [_ O]]]; [contradiction|].
      subst out. apply in_map_iff in He. destruct He as [c [<- Hc]]. apply dedup_in in Hc.
      destruct (child_facts c Hc) as [L1 L2].
      unfold to_edge, eA, eB in P. cbn [fst snd] in P.
      apply (U_inj tol g_tol (all_pt tol segs)) in P; fold U; lia.
    Qed.

    Lemma no_dups : new_pts hs <> [] -> ForallOrdPairs (fun e1 e2 => ~ same_geom e1 e2) out.
    Proof.
      intros NE. destruct (split_cases _ _ S) as [[E _]|[_ [_ O]]]; [contradiction|].
      subst out. apply fop_map. eapply fop_impl_in; [apply dedup_distinct|].
      intros c d Hc Hd K SG. cbv beta in K. apply dedup_in in Hc, Hd.
      destruct (child_facts c Hc) as [C1 C2]. destruct (child_facts d Hd) as [D1 D2].
      assert (INJ : forall i j, (i < length U)%nat -> (j < length U)%nat ->
                                peq (upt U i) (upt U j) -> i = j)
        by (apply (U_inj tol g_tol (all_pt tol segs))).
      unfold same_geom, to_edge, eA, eB in SG. cbn [fst snd] in SG.
      destruct SG as [[P1 P2]|[P1 P2]]; apply INJ in P1; apply INJ in P2; try lia.
      assert (same_key c d = true) by (apply same_key_iff; split; assumption). congruence.
    Qed.

    (* ---------------- non-crossing (partial): ingredients *)
    Definition tpar (g : seg) (i : nat) : Q := par (sS g) (sE g) (upt U i).

    Lemma local_at : forall k g i, In (k, g) (indexed segs) ->
      In i (local_inds tol U hs (k, g)) ->
      0 <= tpar g i /\ tpar g i <= 1 /\ at_par (sS g) (sE g) (upt U i) (tpar g i).
    Proof.
      intros k g i Hk Hi. destruct (local_on _ _ _ Hk Hi) as [_ On].
      apply on_seg_par; [eapply g_proper; exact Hk|exact On].
    Qed.

    Lemma local_strict : forall k g, In (k, g) (indexed segs) ->
      StronglySorted (klt (tpar g)) (local_inds tol U hs (k, g)).
    Proof.
      intros k g Hk. pose proof (g_proper _ _ Hk) as N.
      pose proof (nrm2_pos _ _ N) as Npos.
      assert (Ps : peq (upt U (idx tol U (sS g))) (sS g)).
      { apply (rep_peq tol g_tol (all_pt tol segs) g_sep (sS g)).
        apply (local_src k g (sS g) Hk). left. reflexivity. }
      apply ssorted_strict.
      - assert (Hat := local_at k g).
        unfold local_inds in *. cbn [fst snd] in *.
        eapply ssorted_weaken_in; [apply qsort_sorted|].
        intros a b Ha Hb R. unfold kle in *.
        destruct (Hat a Hk Ha) as [A0 [_ Aat]]. destruct (Hat b Hk Hb) as [B0 [_ Bat]].
        rewrite (dist2_at _ _ _ _ _ Aat Ps), (dist2_at _ _ _ _ _ Bat Ps) in R.
        eapply sq_mono_inv; eassumption.
      - apply local_nodup.
      - intros a b Ha Hb Nab E. apply Nab.
        destruct (local_on _ _ _ Hk Ha) as [La _]. destruct (local_on _ _ _ Hk Hb) as [Lb _].
        apply (U_inj tol g_tol (all_pt tol segs)); [exact La|exact Lb|].
        destruct (local_at _ _ _ Hk Ha) as [_ [_ Aat]]. destruct (local_at _ _ _ Hk Hb) as [_ [_ Bat]].
        eapply at_par_peq; eassumption.
    Qed.

    Definition touch_ends (p : pt2) (e : edge) : Prop := peq p (eA e) \/ peq p (eB e).

    Lemma seg_minmax : forall p a b,
      on_seg p (upt U (Nat.min a b)) (upt U (Nat.max a b)) -> on_seg p (upt U a) (upt U b).
    Proof.
      intros p a b H. destruct (minmax_cases a b) as [[E1 E2]|[E1 E2]]; rewrite E1, E2 in H;
        [exact H|apply on_seg_rev; exact H].
    Qed.

    Lemma ends_minmax : forall p a b, peq p (upt U a) \/ peq p (upt U b) ->
      peq p (upt U (Nat.min a b)) \/ peq p (upt U (Nat.max a b)).
    Proof.
      intros p a b H. destruct (minmax_cases a b) as [[-> ->]|[-> ->]]; tauto.
    Qed.

    (* a point of the parent's line inside a child has its parameter inside the child's *)
    Lemma child_between : forall k g a b p, In (k, g) (indexed segs) ->
      In (a, b) (cpairs (local_inds tol U hs (k, g))) -> on_seg p (upt U a) (upt U b) ->
      exists t, at_par (sS g) (sE g) p t /\ tpar g a <= t /\ t <= tpar g b.
    Proof.
      intros k g a b p Hk Hab On. destruct (cpairs_in _ _ _ Hab) as [Ha Hb].
      destruct (local_at _ _ _ Hk Ha) as [_ [_ Aat]]. destruct (local_at _ _ _ Hk Hb) as [_ [_ Bat]].
      pose proof (cpairs_lt _ _ _ _ (local_strict k g Hk) Hab) as Lt. unfold klt in Lt.
      eapply on_seg_between; try eassumption. lra.
    Qed.

    (* a split point of the parent that lies in a child is an end of the child *)
    Lemma split_point_end : forall k g a b q p, In (k, g) (indexed segs) ->
      In (a, b) (cpairs (local_inds tol U hs (k, g))) ->
      In q (sS g :: sE g :: isect_for k hs) -> peq p q ->
      on_seg p (upt U a) (upt U b) -> peq p (upt U a) \/ peq p (upt U b).
    Proof.
      intros k g a b q p Hk Hab Hq Pq On. pose proof (g_proper _ _ Hk) as N.
      set (z := idx tol U q).
      assert (Hz : In z (local_inds tol U hs (k, g))) by (apply local_in; exists q; tauto).
      destruct (local_src _ _ _ Hk Hq) as [Hall _].
      destruct (rep_peq tol g_tol (all_pt tol segs) g_sep q Hall) as [_ Pz]. fold U in Pz. fold z in Pz.
      assert (Ppz : peq p (upt U z)) by (eapply peq_trans; [exact Pq|apply peq_sym; exact Pz]).
      destruct (child_between k g a b p Hk Hab On) as [t [Pat [L1 L2]]].
      destruct (local_at _ _ _ Hk Hz) as [_ [_ Zat]].
      assert (Et : t == tpar g z).
      { rewrite <- (par_of_at _ _ _ _ N Pat). unfold tpar. apply par_peq. exact Ppz. }
      destruct (chain_member_endpoint (tpar g) _ a b z (local_strict k g Hk) Hab Hz) as [E|E];
        try lra; subst; tauto.
    Qed.

    (* two different children of one parent meet at most in a common end *)
    Lemma same_parent_nc : forall k g a1 b1 a2 b2 p, In (k, g) (indexed segs) ->
      In (a1, b1) (cpairs (local_inds tol U hs (k, g))) ->
      In (a2, b2) (cpairs (local_inds tol U hs (k, g))) ->
      ~ (a1 = a2 /\ b1 = b2) ->
      on_seg p (upt U a1) (upt U b1) -> on_seg p (upt U a2) (upt U b2) ->
      (peq p (upt U a1) \/ peq p (upt U b1)) /\ (peq p (upt U a2) \/ peq p (upt U b2)).
    Proof.
      intros k g a1 b1 a2 b2 p Hk H1 H2 Ne O1 O2. pose proof (g_proper _ _ Hk) as N.
      destruct (child_between k g a1 b1 p Hk H1 O1) as [t1 [P1 [L1 L1']]].
      destruct (child_between k g a2 b2 p Hk H2 O2) as [t2 [P2 [L2 L2']]].
      assert (E : t1 == t2).
      { rewrite <- (par_of_at _ _ _ _ N P1), <- (par_of_at _ _ _ _ N P2). reflexivity. }
      destruct (cpairs_in _ _ _ H1) as [Ha1 Hb1]. destruct (cpairs_in _ _ _ H2) as [Ha2 Hb2].
      destruct (local_at _ _ _ Hk Ha1) as [_ [_ A1]]. destruct (local_at _ _ _ Hk Hb1) as [_ [_ B1]].
      destruct (local_at _ _ _ Hk Ha2) as [_ [_ A2]]. destruct (local_at _ _ _ Hk Hb2) as [_ [_ B2]].
      destruct (cpairs_sep (tpar g) _ a1 b1 a2 b2 (local_strict k g Hk) H1 H2) as [C|[C|C]];
        [contradiction| |].
      - split; [right|left]; eapply at_par_peq; try eassumption; lra.
      - split; [left|right]; eapply at_par_peq; try eassumption; lra.
    Qed.

    Lemma out_child : new_pts hs <> [] -> forall e, In e out ->
      exists k g a b, In (k, g) (indexed segs) /\
        In (a, b) (cpairs (local_inds tol U hs (k, g))) /\
        e = (upt U (Nat.min a b), upt U (Nat.max a b), sT g, k).
    Proof.
      intros NE e He. destruct (split_cases _ _ S) as [[E _]|[_ [_ O]]]; [contradiction|].
      subst out. apply in_map_iff in He. destruct He as [c [<- Hc]]. apply dedup_in in Hc.
      apply child_in in Hc. destruct Hc as [k [g [a [b [Hk [Hab ->]]]]]].
      exists k, g, a, b. split; [exact Hk|]. split; [exact Hab|]. reflexivity.
    Qed.

    (* (1) two different output edges mapped to the same parent *)
    Lemma nc_same_parent : new_pts hs <> [] ->
      ForallOrdPairs (fun e1 e2 => eP e1 = eP e2 -> forall p,
        on_seg p (eA e1) (eB e1) -> on_seg p (eA e2) (eB e2) ->
        touch_ends p e1 /\ touch_ends p e2) out.
    Proof.
      intros NE. eapply fop_impl_in; [apply (no_dups NE)|].
      intros e1 e2 H1 H2 ND EP p O1 O2.
      destruct (out_child NE e1 H1) as [k [g [a1 [b1 [Hk [Hab1 ->]]]]]].
      destruct (out_child NE e2 H2) as [k' [g' [a2 [b2 [Hk' [Hab2 ->]]]]]].
      unfold eP, eA, eB, touch_ends in *. cbn [fst snd] in *. subst k'.
      rewrite (indexed_fun _ _ _ _ Hk' Hk) in *.
      apply seg_minmax in O1. apply seg_minmax in O2.
      destruct (same_parent_nc k g a1 b1 a2 b2 p Hk Hab1 Hab2) as [E1 E2]; try assumption.
      - intros [-> ->]. apply ND. left. split; apply peq_refl.
      - split; apply ends_minmax; assumption.
    Qed.

    (* (2) edges of two parents that segments_2d examined and found to meet in one point *)
    Lemma nc_point_pair : forall i gi j gj q e1 e2 p,
      In ((i, gi), (j, gj)) (cand_pairs tol segs) ->
      isect_of tol ((i, gi), (j, gj)) = R2Pt q ->
      In e1 out -> In e2 out -> eP e1 = i -> eP e2 = j ->
      on_seg p (eA e1) (eB e1) -> on_seg p (eA e2) (eB e2) ->
      touch_ends p e1 /\ touch_ends p e2.
    Proof.
      intros i gi j gj q e1 e2 p Hpr Hq H1 H2 P1 P2 O1 O2.
      destruct (cand_in _ _ Hpr) as [Hi [Hj _]]. cbn [fst] in Hi, Hj.
      pose proof (cand_correct _ _ _ _ Hpr) as C. rewrite Hq in C. cbn in C.
      assert (Hh : In (i, j, [q]) hs).
      { unfold hs, hits. apply in_map_iff. exists ((i, gi), (j, gj)). cbn [fst snd].
        rewrite Hq. split; [reflexivity|exact Hpr]. }
      assert (NE : new_pts hs <> []).
      { intro E. assert (In q (new_pts hs)); [|rewrite E in H; destruct H].
        unfold new_pts. apply in_flat_map. exists (i, j, [q]). split; [exact Hh|left; reflexivity]. }
      assert (Qi : In q (isect_for i hs)).
      { unfold isect_for. apply in_flat_map. exists (i, j, [q]). split; [exact Hh|].
        cbn [fst snd]. rewrite Nat.eqb_refl. left. reflexivity. }
      assert (Qj : In q (isect_for j hs)).
      { unfold isect_for. apply in_flat_map. exists (i, j, [q]). split; [exact Hh|].
        cbn [fst snd]. rewrite Nat.eqb_refl, orb_true_r. left. reflexivity. }
      destruct (cover_sub e1 p H1 O1) as [g1 [K1 On1]]. rewrite P1 in K1.
      destruct (cover_sub e2 p H2 O2) as [g2 [K2 On2]]. rewrite P2 in K2.
      apply in_indexed in K1, K2.
      rewrite (indexed_fun _ _ _ _ K1 Hi) in On1. rewrite (indexed_fun _ _ _ _ K2 Hj) in On2.
      assert (Pq : peq p q) by (apply C; split; assumption).
      destruct (out_child NE e1 H1) as [k [g [a1 [b1 [Hk [Hab1 ->]]]]]].
      destruct (out_child NE e2 H2) as [k' [g' [a2 [b2 [Hk' [Hab2 ->]]]]]].
      unfold eP, eA, eB, touch_ends in *. cbn [fst snd] in *. subst k k'.
      apply seg_minmax in O1. apply seg_minmax in O2.
      split; apply ends_minmax.
      - apply (split_point_end i g a1 b1 q p Hk Hab1); [right; right; exact Qi|exact Pq|exact O1].
      - apply (split_point_end j g' a2 b2 q p Hk' Hab2); [right; right; exact Qj|exact Pq|exact O2].
    Qed.

    (* ---------------- no duplicates / no zero-length edge, both branches *)
    Lemma proper_out : forall e, In e out -> ~ peq (eA e) (eB e).
    Proof.
      intros e He. destruct (split_cases _ _ S) as [[_ [_ O]]|[NE _]].
      - subst out. apply in_map_iff in He. destruct He as [[k g] [<- Hk]].
        unfold eA, eB. cbn [fst snd]. eapply g_proper. exact Hk.
      - apply (proper_children NE e He).
    Qed.

    Lemma no_dups_gen :
      new_pts hs <> [] \/ ForallOrdPairs (fun g1 g2 => ~ seg_same_geom g1 g2) segs ->
      ForallOrdPairs (fun e1 e2 => ~ same_geom e1 e2) out.
    Proof.
      intros [NE|D]; [apply (no_dups NE)|].
      destruct (split_cases _ _ S) as [[_ [_ O]]|[NE _]]; [|apply (no_dups NE)].
      subst out. apply fop_map. unfold indexed. apply fop_indexed. exact D.
    Qed.
  End Out.
End Main.

(* ------------------------------------------------------------------ statements as used in Props *)
Lemma covering_thm :
  forall tol segs, guard tol segs = true -> forall pre out, split tol segs = Edges pre out ->
  (forall k g p, nth_error segs k = Some g -> on_seg p (sS g) (sE g) ->
     exists e, In e out /\ on_seg p (eA e) (eB e)) /\
  (forall e p, In e out -> on_seg p (eA e) (eB e) ->
     exists g, nth_error segs (eP e) = Some g /\ on_seg p (sS g) (sE g)).
Proof.
  intros tol segs G pre out S.
  split; [exact (cover_sup tol segs G pre out S)|exact (cover_sub tol segs G pre out S)].
Qed.

Lemma no_duplicates_thm :
  forall tol segs, guard tol segs = true -> forall pre out, split tol segs = Edges pre out ->
  (forall e, In e out -> ~ peq (eA e) (eB e)) /\
  (new_pts (hits tol segs) <> [] \/
   ForallOrdPairs (fun g1 g2 => ~ seg_same_geom g1 g2) segs ->
   ForallOrdPairs (fun e1 e2 => ~ same_geom e1 e2) out).
Proof.
  intros tol segs G pre out S.
  split; [exact (proper_out tol segs G pre out S)|exact (no_dups_gen tol segs G pre out S)].
Qed.

Lemma noncrossing_thm :
  forall tol segs, guard tol segs = true -> forall pre out, split tol segs = Edges pre out ->
  (new_pts (hits tol segs) <> [] ->
   ForallOrdPairs (fun e1 e2 => eP e1 = eP e2 -> forall p,
      on_seg p (eA e1) (eB e1) -> on_seg p (eA e2) (eB e2) ->
      touch_ends p e1 /\ touch_ends p e2) out) /\
  (forall i gi j gj q e1 e2 p,
      In ((i, gi), (j, gj)) (cand_pairs tol segs) ->
      isect_of tol ((i, gi), (j, gj)) = R2Pt q ->
      In e1 out -> In e2 out -> eP e1 = i -> eP e2 = j ->
      on_seg p (eA e1) (eB e1) -> on_seg p (eA e2) (eB e2) ->
      touch_ends p e1 /\ touch_ends p e2).
Proof.
  intros tol segs G pre out S.
  split; [exact (nc_same_parent tol segs G pre out S)|exact (nc_point_pair tol segs G pre out S)].
Qed.
