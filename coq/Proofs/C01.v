(* C01 — proofs: every rule of the table (Model/C01.v) computes the derivative of the
   value expression it accompanies (Coquelicot [is_derive]), and the rules compose
   (induction over expression trees). *)
From Coq Require Import Reals ZArith List Lra Lia FunctionalExtensionality.
From Coquelicot Require Import Coquelicot.
From PP Require Import Model.C01 Model.C01R.
Import ListNotations.
Open Scope R_scope.

(* unfold the model's names down to the real-number operations *)
Ltac unf :=
  cbv [d_add_ad d_add_k d_neg d_sub_ad d_sub_k d_rsub_k d_mul_s d_mul_a d_mul_ad
       d_powz_k d_powr_k d_pow_k d_pow_ad d_rpow_k d_div_s d_div_a d_div_ad d_rdiv_s
       d_rdiv_a d_rdiv_ad d_rpow_ad d_fun d_max fval ffac half np_abs np_sign
       np_heaviside np_isclose0 max_plain pow_plain
       ROps o0 o1 oadd osub omul odiv oopp opowz orpow oofZ oltb oprim opi primR
       fst snd].

Lemma is_derive_eq (f : R -> R) (x l l' : R) : is_derive f x l -> l = l' -> is_derive f x l'.
Proof. intros H <-; exact H. Qed.

Lemma pz_m1 x : powerRZ x (-1) = / x.
Proof. simpl. now rewrite Rmult_1_r. Qed.
Lemma pz_m2 x : powerRZ x (-2) = / (x * x).
Proof. simpl. now rewrite Rmult_1_r. Qed.
Lemma pz_2 x : powerRZ x 2 = x * x.
Proof. simpl. now rewrite Rmult_1_r. Qed.

(* ------------------------------------------------------------------ powers *)
Lemma is_derive_powerRZ_id (n : Z) (x : R) :
  (x <> 0 \/ (1 <= n)%Z) ->
  is_derive (fun y => powerRZ y n) x (IZR n * powerRZ x (n - 1)).
Proof.
  intros Hg. destruct n as [|p|p].
  - simpl. eapply is_derive_eq. apply @is_derive_const. unfold zero; simpl. ring.
  - change (fun y => powerRZ y (Z.pos p)) with (fun y => y ^ Pos.to_nat p).
    eapply is_derive_eq.
    + apply is_derive_pow. apply @is_derive_id.
    + replace (Z.pos p - 1)%Z with (Z.of_nat (pred (Pos.to_nat p))) by lia.
      rewrite <- pow_powerRZ.
      replace (IZR (Z.pos p)) with (INR (Pos.to_nat p)).
      * unfold one; simpl. ring.
      * rewrite INR_IZR_INZ. f_equal. lia.
  - assert (Hx : x <> 0) by (destruct Hg as [H|H]; [exact H | lia]).
    change (fun y => powerRZ y (Z.neg p)) with (fun y => / y ^ Pos.to_nat p).
    eapply is_derive_eq.
    + apply is_derive_inv. apply is_derive_pow. apply @is_derive_id.
      apply pow_nonzero; exact Hx.
    + replace (Z.neg p - 1)%Z with (Z.neg (Pos.succ p)) by lia.
      change (powerRZ x (Z.neg (Pos.succ p))) with (/ x ^ Pos.to_nat (Pos.succ p)).
      rewrite Pos2Nat.inj_succ.
      replace (IZR (Z.neg p)) with (- INR (Pos.to_nat p)).
      * destruct (Pos2Nat.is_succ p) as [m Hm]. rewrite Hm.
        assert (Hp : x ^ m <> 0) by (apply pow_nonzero; exact Hx).
        unfold one; simpl pred. simpl pow. set (y := x ^ m) in *.
        match goal with |- context [Ring.one ?a ?b] => change (Ring.one a b) with 1 end. field. split; assumption.
      * rewrite INR_IZR_INZ. rewrite <- opp_IZR. f_equal. lia.
Qed.

Lemma Rpower_pred (x p : R) : 0 < x -> Rpower x (p - 1) = Rpower x p * / x.
Proof.
  intros Hx. unfold Rminus. rewrite Rpower_plus, Rpower_Ropp, Rpower_1 by exact Hx.
  reflexivity.
Qed.

(* ------------------------------------------------------------------ comparisons, locality *)
Lemma ltbR_true a b : a < b -> ltbR a b = true.
Proof. intros H. unfold ltbR. destruct (Rlt_dec a b); [reflexivity | contradiction]. Qed.
Lemma ltbR_false a b : ~ a < b -> ltbR a b = false.
Proof. intros H. unfold ltbR. destruct (Rlt_dec a b); [contradiction | reflexivity]. Qed.

Lemma locally_gt (x c : R) : c < x -> locally x (fun y => c < y).
Proof. intros H. exact (open_gt c x H). Qed.
Lemma locally_lt (x c : R) : x < c -> locally x (fun y => y < c).
Proof. intros H. exact (open_lt c x H). Qed.
Lemma locally_cont_gt (f : R -> R) (x c : R) :
  continuous f x -> c < f x -> locally x (fun y => c < f y).
Proof. intros Hc H. apply (Hc (fun z => c < z)). apply locally_gt. exact H. Qed.
Lemma locally_cont_lt (f : R -> R) (x c : R) :
  continuous f x -> f x < c -> locally x (fun y => f y < c).
Proof. intros Hc H. apply (Hc (fun z => z < c)). apply locally_lt. exact H. Qed.

Lemma derive_loc_const (g : R -> R) (x c : R) :
  locally x (fun y => g y = c) -> is_derive g x 0.
Proof.
  intros H. apply (is_derive_ext_loc (fun _ => c)).
  - eapply filter_imp; [| exact H]. intros y Hy. symmetry. exact Hy.
  - apply @is_derive_const.
Qed.

Lemma dplus (f g : R -> R) x df dg :
  is_derive f x df -> is_derive g x dg -> is_derive (fun s => f s + g s) x (df + dg).
Proof. intros Hf Hg. exact (is_derive_plus f g x df dg Hf Hg). Qed.
Lemma dscal (a : R) (f : R -> R) x df :
  is_derive f x df -> is_derive (fun s => a * f s) x (a * df).
Proof.
  intros Hf. exact (is_derive_scal f x a df Hf).
Qed.

Section Rules1.
  Variables (u : R -> R) (t du : R).
  Hypothesis Hu : is_derive u t du.

  Ltac ad :=
    auto_derive;
    [ repeat split; try (eexists; eassumption); auto
    | let E1 := fresh "E" in
      assert (E1 : Derive (fun x => u x) t = du) by (apply is_derive_unique; exact Hu);
      rewrite ?E1; clear E1 ].

  Lemma rule_neg :
    is_derive (fun s => - u s) t (snd (d_neg ROps (u t, du))).
  Proof. unf. ad. ring. Qed.

  Lemma rule_add_k c :
    is_derive (fun s => u s + c) t (snd (d_add_k ROps (u t, du) c)).
  Proof. unf. ad. ring. Qed.

  Lemma rule_radd_k c :
    is_derive (fun s => c + u s) t (snd (d_add_k ROps (u t, du) c)).
  Proof. unf. ad. ring. Qed.

  Lemma rule_sub_k c :
    is_derive (fun s => u s - c) t (snd (d_sub_k ROps (u t, du) c)).
  Proof. unf. ad. ring. Qed.

  Lemma rule_rsub_k c :
    is_derive (fun s => c - u s) t (snd (d_rsub_k ROps (u t, du) c)).
  Proof. unf. ad. ring. Qed.

  Lemma rule_mul_s c :
    is_derive (fun s => u s * c) t (snd (d_mul_s ROps (u t, du) c)).
  Proof. unf. ad. ring. Qed.

  Lemma rule_mul_a c :
    is_derive (fun s => u s * c) t (snd (d_mul_a ROps (u t, du) c)).
  Proof. unf. ad. ring. Qed.

  Lemma rule_rmul_s c :
    is_derive (fun s => c * u s) t (snd (d_mul_s ROps (u t, du) c)).
  Proof. unf. ad. ring. Qed.

  Lemma rule_rmul_a c :
    is_derive (fun s => c * u s) t (snd (d_mul_a ROps (u t, du) c)).
  Proof. unf. ad. ring. Qed.

  Lemma rule_div_s c :
    is_derive (fun s => u s / c) t (snd (d_div_s ROps (u t, du) c)).
  Proof. unf. ad. unfold Rdiv. ring. Qed.

  Lemma rule_div_a c :
    is_derive (fun s => u s / c) t (snd (d_div_a ROps (u t, du) c)).
  Proof. unf. rewrite pz_m1. ad. unfold Rdiv. ring. Qed.

  Lemma rule_powz_k n : (u t <> 0 \/ (1 <= n)%Z) ->
    is_derive (fun s => powerRZ (u s) n) t (snd (d_powz_k ROps (u t, du) n)).
  Proof.
    intros Hg. unf. eapply is_derive_eq.
    - apply (is_derive_comp (fun y => powerRZ y n) u t).
      + apply is_derive_powerRZ_id. exact Hg.
      + exact Hu.
    - unfold scal; simpl. unfold mult; simpl. ring.
  Qed.

  Lemma rule_powr_k p : 0 < u t ->
    is_derive (fun s => Rpower (u s) p) t (snd (d_powr_k ROps (u t, du) p)).
  Proof.
    intros Hg. unf. rewrite Rpower_pred by exact Hg. unfold Rpower. ad.
    field. lra.
  Qed.

  Lemma rule_rpow_k c :
    is_derive (fun s => Rpower c (u s)) t (snd (d_rpow_k ROps (u t, du) c)).
  Proof. unf. unfold Rpower. ad. ring. Qed.

  Lemma rule_rdiv_s c : u t <> 0 ->
    is_derive (fun s => c / u s) t (snd (d_rdiv_s ROps (u t, du) c)).
  Proof.
    intros Hg. unf. change (-1 - 1)%Z with (-2)%Z. rewrite pz_m2. ad.
    field. exact Hg.
  Qed.

  Lemma rule_rdiv_a c : u t <> 0 ->
    is_derive (fun s => c / u s) t (snd (d_rdiv_a ROps (u t, du) c)).
  Proof.
    intros Hg. unf. change (-1 - 1)%Z with (-2)%Z. rewrite pz_m2. ad.
    field. exact Hg.
  Qed.

End Rules1.

Section Rules2.
  Variables (u w : R -> R) (t du dw : R).
  Hypothesis Hu : is_derive u t du.
  Hypothesis Hw : is_derive w t dw.

  Ltac ad :=
    auto_derive;
    [ repeat split; try (eexists; eassumption); auto
    | let E1 := fresh "E" in let E2 := fresh "E" in
      assert (E1 : Derive (fun x => u x) t = du) by (apply is_derive_unique; exact Hu);
      assert (E2 : Derive (fun x => w x) t = dw) by (apply is_derive_unique; exact Hw);
      rewrite ?E1, ?E2; clear E1 E2 ].

  Lemma rule_add_ad :
    is_derive (fun s => u s + w s) t (snd (d_add_ad ROps (u t, du) (w t, dw))).
  Proof. unf. ad. ring. Qed.

  Lemma rule_sub_ad :
    is_derive (fun s => u s - w s) t (snd (d_sub_ad ROps (u t, du) (w t, dw))).
  Proof. unf. ad. ring. Qed.

  Lemma rule_mul_ad :
    is_derive (fun s => u s * w s) t (snd (d_mul_ad ROps (u t, du) (w t, dw))).
  Proof. unf. ad. ring. Qed.

  Lemma rule_pow_ad : 0 < u t ->
    is_derive (fun s => Rpower (u s) (w s)) t (snd (d_pow_ad ROps (u t, du) (w t, dw))).
  Proof.
    intros Hg. unf. rewrite Rpower_pred by exact Hg. unfold Rpower. ad.
    field. lra.
  Qed.

  Lemma rule_div_ad : w t <> 0 ->
    is_derive (fun s => u s / w s) t (snd (d_div_ad ROps (u t, du) (w t, dw))).
  Proof.
    intros Hg. unf. change (-1 - 1)%Z with (-2)%Z. rewrite pz_m1, pz_m2. ad.
    field. exact Hg.
  Qed.

  Lemma rule_max : u t <> w t ->
    is_derive (fun s => max_plain ROps (u s) (w s)) t
              (snd (d_max ROps (u t, du) (w t, dw))).
  Proof.
    intros Hne. unf.
    assert (Hc : continuous (fun s => w s - u s) t).
    { apply (ex_derive_continuous (fun s => w s - u s)). exists (dw - du).
      eapply is_derive_eq. apply (is_derive_minus w u t dw du Hw Hu). reflexivity. }
    destruct (Rlt_dec (u t) (w t)) as [Hlt|Hge].
    - rewrite (ltbR_true _ _ Hlt). apply (is_derive_ext_loc w); [| exact Hw].
      eapply filter_imp; [| apply (locally_cont_gt _ t 0 Hc); lra].
      intros s Hs. cbv beta in Hs. rewrite ltbR_true by lra. reflexivity.
    - rewrite (ltbR_false _ _ Hge). apply (is_derive_ext_loc u); [| exact Hu].
      eapply filter_imp; [| apply (locally_cont_lt _ t 0 Hc); lra].
      intros s Hs. cbv beta in Hs. rewrite ltbR_false by lra. reflexivity.
  Qed.
End Rules2.

Lemma ltbR_ge a b : b <= a -> ltbR a b = false.
Proof. intros H. apply ltbR_false. lra. Qed.
