(* C31 — proofs about the predicate / ordering models. *)
From Coq Require Import List QArith Qabs Bool ZArith Arith Lia Lqa.
Import ListNotations.
From PP Require Import Model.C28 Model.C31 Proofs.C28.
Open Scope Q_scope.

(* ------------------------------------------------------------------ is_ccw_polygon *)
(* twice the signed area (shoelace), same cyclic indexing as the code *)
Fixpoint area2_sum (first : v2) (l : list v2) : Q :=
  match l with
  | [] => 0
  | p :: r =>
      let q := match r with [] => first | q :: _ => q end in
      (fst p * snd q - fst q * snd p) + area2_sum first r
  end.

Definition area2 (poly : list v2) : Q :=
  match poly with [] => 0 | p :: _ => area2_sum p poly end.

Lemma ccw_tele : forall first r p,
  ccw_sum first (p :: r) + area2_sum first (p :: r)
  == fst first * snd first - fst p * snd p.
Proof.
  intros first r. induction r as [|q r IH]; intro p.
  - cbn [ccw_sum area2_sum]. ring.
  - specialize (IH q).
    change (ccw_sum first (p :: q :: r))
      with ((snd q + snd p) * (fst q - fst p) + ccw_sum first (q :: r)).
    change (area2_sum first (p :: q :: r))
      with ((fst p * snd q - fst q * snd p) + area2_sum first (q :: r)).
    set (A := ccw_sum first (q :: r)) in *. set (B := area2_sum first (q :: r)) in *.
    assert (E : A == fst first * snd first - fst q * snd q - B) by lra.
    rewrite E. ring.
Qed.

Lemma ccw_value_area : forall poly, ccw_value poly == - area2 poly.
Proof.
  intros [|p r]; [reflexivity|]. unfold ccw_value, area2.
  pose proof (ccw_tele p r p) as H. lra.
Qed.

Lemma ccw_iff_area_positive : forall poly, is_ccw_polygon poly = true <-> 0 < area2 poly.
Proof.
  intro poly. unfold is_ccw_polygon. rewrite qltb_true, ccw_value_area. split; intro H; lra.
Qed.

(* ------------------------------------------------------------------ is_ccw_polyline *)
Lemma polyline_spec : forall tol default p1 p2 p3,
  0 <= tol ->
  (tol < cross3 p1 p2 p3 -> is_ccw_polyline tol default p1 p2 p3 = true) /\
  (cross3 p1 p2 p3 < - tol -> is_ccw_polyline tol default p1 p2 p3 = false) /\
  (Qabs (cross3 p1 p2 p3) <= tol -> is_ccw_polyline tol default p1 p2 p3 = default).
Proof.
  intros tol default p1 p2 p3 Ht. unfold is_ccw_polyline. cbv zeta.
  set (c := cross3 p1 p2 p3).
  destruct (qltb tol c) eqn:E1; destruct (qltb c (- tol)) eqn:E2;
    destruct (Qle_bool (Qabs c) tol) eqn:E3;
    try apply qltb_true in E1; try apply qltb_false in E1;
    try apply qltb_true in E2; try apply qltb_false in E2;
    try (apply Qle_bool_iff in E3; apply Qabs_Qle_condition in E3);
    repeat split; intros; try reflexivity; try lra;
    try (apply Qabs_Qle_condition in H; lra);
    try (exfalso; apply qleb_false in E3;
         assert (Qabs c <= tol) by (apply Qabs_Qle_condition; lra); lra).
Qed.

(* ------------------------------------------------------------------ half spaces *)
Lemma fold_count : forall {A} (f : A -> bool) l acc,
  fold_left (fun acc x => if f x then S acc else acc) l acc
  = (acc + length (filter f l))%nat.
Proof.
  intros A f l. induction l as [|x l IH]; intro acc; cbn [fold_left filter].
  - cbn. lia.
  - rewrite IH. destruct (f x); cbn [length]; lia.
Qed.

Lemma filter_len_le : forall {A} (f : A -> bool) l, (length (filter f l) <= length l)%nat.
Proof.
  intros A f l. induction l as [|x l IH]; cbn [filter length]; [lia|].
  destruct (f x); cbn [length]; lia.
Qed.

Lemma filter_all : forall {A} (f : A -> bool) l,
  length (filter f l) = length l <-> forallb f l = true.
Proof.
  intros A f l. induction l as [|x l IH]; cbn [filter forallb length].
  - tauto.
  - pose proof (filter_len_le f l) as Hle. destruct (f x); cbn [length andb].
    + rewrite <- IH. lia.
    + split; [lia|discriminate].
Qed.

Lemma half_space_spec : forall ns x0s pts,
  length ns = length x0s ->
  half_space_int ns x0s pts
  = HOk (map (fun p => forallb (fun nx => in_half (fst nx) (snd nx) p) (combine ns x0s)) pts).
Proof.
  intros ns x0s pts HL. unfold half_space_int. rewrite HL, Nat.eqb_refl. cbn [negb].
  f_equal. apply map_ext. intro p. rewrite fold_count. cbn [Nat.add].
  assert (LC : length (combine ns x0s) = length x0s) by (rewrite combine_length; lia).
  rewrite <- LC.
  destruct (forallb (fun nx => in_half (fst nx) (snd nx) p) (combine ns x0s)) eqn:E.
  - apply filter_all in E. rewrite E. apply Nat.eqb_refl.
  - apply Nat.eqb_neq. intro H. apply filter_all in H. congruence.
Qed.

Lemma half_space_member : forall ns x0s pts i p,
  length ns = length x0s -> nth_error pts i = Some p ->
  match half_space_int ns x0s pts with
  | HOk bs => nth_error bs i = Some true <->
              (forall n x0, In (n, x0) (combine ns x0s) -> dot3 (sub3 p x0) n <= 0)
  | HErr _ => False
  end.
Proof.
  intros ns x0s pts i p HL Hp. rewrite (half_space_spec ns x0s pts HL).
  rewrite nth_error_map, Hp. cbn [option_map]. split.
  - intros H n x0 Hin. injection H as H. rewrite forallb_forall in H.
    specialize (H (n, x0) Hin). cbn [fst snd] in H. apply Qle_bool_iff in H. exact H.
  - intro H. f_equal. apply forallb_forall. intros [n x0] Hin. cbn [fst snd].
    apply Qle_bool_iff. apply H. exact Hin.
Qed.

Lemma half_space_shape_error : forall ns x0s pts,
  length ns <> length x0s -> half_space_int ns x0s pts = HErr ValueErr.
Proof.
  intros ns x0s pts H. unfold half_space_int. apply Nat.eqb_neq in H. rewrite H. reflexivity.
Qed.

(* ------------------------------------------------------------------ collinear *)
Lemma qmax_ge_l : forall x y, x <= qmax x y.
Proof. intros x y. destruct (qmax_cases x y) as [[L ->] | [L ->]]; lra. Qed.

Lemma max_sqdist_from_ge : forall p l acc, acc <= max_sqdist_from p l acc.
Proof.
  intros p l. induction l as [|q r IH]; intro acc; cbn [max_sqdist_from]; [lra|].
  eapply Qle_trans; [apply (qmax_ge_l acc)|apply IH].
Qed.

Lemma max_sqdist_ge : forall l acc, acc <= max_sqdist l acc.
Proof.
  intro l. induction l as [|p r IH]; intro acc; cbn [max_sqdist]; [lra|].
  eapply Qle_trans; [apply (max_sqdist_from_ge p r acc)|apply IH].
Qed.

Definition zero3 (v : v3) : Prop := let '(a, b, c) := v in a == 0 /\ b == 0 /\ c == 0.

(* exactly collinear point sets are accepted for every tolerance; an accepted set has
   every tested cross product within the (squared) tolerance *)
Lemma collinear_spec : forall tol p0 p1 q rest,
  let pts := p0 :: p1 :: q :: rest in
  ((forall p, In p (q :: rest) -> zero3 (crs3 (sub3 p p0) (sub3 p1 p0))) ->
   points_are_collinear tol pts = true) /\
  (points_are_collinear tol pts = true ->
   forall p, In p (q :: rest) ->
     let c := crs3 (sub3 p p0) (sub3 p1 p0) in
     dot3 c c <= tol * tol * max_sqdist pts 1).
Proof.
  intros tol p0 p1 q rest pts. unfold points_are_collinear, pts.
  set (d2 := max_sqdist (p0 :: p1 :: q :: rest) 1).
  assert (D : 1 <= d2) by apply max_sqdist_ge.
  split.
  - intro H. apply forallb_forall. intros p Hin. specialize (H p Hin).
    apply Qle_bool_iff.
    destruct (crs3 (sub3 p p0) (sub3 p1 p0)) as [[a b] c]. cbn in H. destruct H as (Ha & Hb & Hc).
    unfold dot3. rewrite Ha, Hb, Hc. nra.
  - intros H p Hin. rewrite forallb_forall in H. specialize (H p Hin).
    apply Qle_bool_iff in H. exact H.
Qed.

Lemma collinear_few : forall tol pts, (length pts <= 2)%nat -> points_are_collinear tol pts = true.
Proof.
  intros tol [|a [|b [|c r]]] H; cbn in *; try reflexivity. lia.
Qed.

(* ------------------------------------------------------------------ point_in_polygon:
   finite-domain comparison with the even-odd crossing-number test *)
Fixpoint edges_from (first : v2) (l : list v2) : list (v2 * v2) :=
  match l with
  | [] => []
  | p :: r => (p, match r with [] => first | q :: _ => q end) :: edges_from first r
  end.
Definition edges (poly : list v2) : list (v2 * v2) :=
  match poly with [] => [] | p :: _ => edges_from p poly end.

(* p lies on the closed segment ab *)
Definition on_seg_b (p : v2) (e : v2 * v2) : bool :=
  let '(a, b) := e in
  Qeq_bool (cross3 a b p) 0
  && Qle_bool (qmin (fst a) (fst b)) (fst p) && Qle_bool (fst p) (qmax (fst a) (fst b))
  && Qle_bool (qmin (snd a) (snd b)) (snd p) && Qle_bool (snd p) (qmax (snd a) (snd b)).

(* the horizontal ray from p to +infinity crosses the edge (half-open rule) *)
Definition ray_crosses (p : v2) (e : v2 * v2) : bool :=
  let '(a, b) := e in
  negb (Bool.eqb (qltb (snd p) (snd a)) (qltb (snd p) (snd b)))
  && qltb (fst p) (fst a + (snd p - snd a) / (snd b - snd a) * (fst b - fst a)).

(* None: on the boundary; Some b: inside iff the number of crossings is odd *)
Definition pip_ref (poly : list v2) (p : v2) : option bool :=
  if existsb (on_seg_b p) (edges poly) then None
  else Some (fold_left (fun acc e => xorb acc (ray_crosses p e)) (edges poly) false).

Definition zrange (lo : Z) (n : nat) : list Z := map (fun i => (lo + Z.of_nat i)%Z) (seq 0 n).

Lemma in_zrange : forall lo n x, (lo <= x < lo + Z.of_nat n)%Z -> In x (zrange lo n).
Proof.
  intros lo n x H. unfold zrange. apply in_map_iff. exists (Z.to_nat (x - lo)). split; [lia|].
  apply in_seq. lia.
Qed.

Definition zq (xy : Z * Z) : v2 := (inject_Z (fst xy), inject_Z (snd xy)).

Definition pip_agrees (poly : list v2) (default : bool) (xy : Z * Z) : bool :=
  Bool.eqb (point_in_polygon default poly (zq xy))
           (match pip_ref poly (zq xy) with None => default | Some b => b end).

Definition pip_box_check (poly : list v2) : bool :=
  forallb (fun xy => pip_agrees poly true xy && pip_agrees poly false xy)
          (list_prod (zrange (-2) 11) (zrange (-2) 11)).

Lemma pip_box_lift : forall poly,
  pip_box_check poly = true ->
  forall (x y : Z) (default : bool), (-2 <= x <= 8)%Z -> (-2 <= y <= 8)%Z ->
    point_in_polygon default poly (inject_Z x, inject_Z y)
    = match pip_ref poly (inject_Z x, inject_Z y) with None => default | Some b => b end.
Proof.
  intros poly H x y default Hx Hy. unfold pip_box_check in H. rewrite forallb_forall in H.
  assert (Hin : In (x, y) (list_prod (zrange (-2) 11) (zrange (-2) 11))).
  { apply in_prod; apply in_zrange; lia. }
  specialize (H (x, y) Hin). apply andb_prop in H. destruct H as [H1 H2].
  unfold pip_agrees, zq in H1, H2. cbn [fst snd] in H1, H2.
  destruct default; apply eqb_prop; assumption.
Qed.

Definition poly_L : list v2 := [(0, 0); (4, 0); (4, 4); (2, 4); (2, 2); (0, 2)].
Definition poly_U : list v2 := [(0, 0); (6, 0); (6, 4); (4, 4); (4, 2); (2, 2); (2, 4); (0, 4)].
Definition poly_comb : list v2 :=
  [(0, 0); (6, 0); (6, 3); (5, 3); (5, 1); (4, 1); (4, 3); (3, 3); (3, 1); (2, 1); (2, 3); (0, 3)].
Definition poly_zig : list v2 := [(0, 0); (2, 2); (4, 0); (6, 2); (6, 4); (4, 2); (2, 4); (0, 2)].
Definition poly_arrow_cw : list v2 := [(3, 5); (6, 0); (3, 1); (0, 0)].

Lemma pip_boxes :
  pip_box_check poly_L = true /\ pip_box_check poly_U = true /\ pip_box_check poly_comb = true /\
  pip_box_check poly_zig = true /\ pip_box_check poly_arrow_cw = true.
Proof. repeat split; vm_compute; reflexivity. Qed.

Lemma pip_nonconvex_boxes : forall poly,
  In poly [poly_L; poly_U; poly_comb; poly_zig; poly_arrow_cw] ->
  forall (x y : Z) (default : bool), (-2 <= x <= 8)%Z -> (-2 <= y <= 8)%Z ->
    point_in_polygon default poly (inject_Z x, inject_Z y)
    = match pip_ref poly (inject_Z x, inject_Z y) with None => default | Some b => b end.
Proof.
  intros poly Hin. apply pip_box_lift.
  destruct pip_boxes as (H1 & H2 & H3 & H4 & H5).
  cbn [In] in Hin. destruct Hin as [<- | [<- | [<- | [<- | [<- | []]]]]]; assumption.
Qed.

(* the witness of the repaired defect: (3,2) is inside the L although it lies on the
   extension of the far edge (2,2)-(0,2) *)
Lemma pip_L_far_edge : point_in_polygon false poly_L (3, 2) = true /\ pip_ref poly_L (3, 2) = Some true.
Proof. split; vm_compute; reflexivity. Qed.
