(* C31 — proofs about the predicate / ordering models. *)
From Coq Require Import List QArith Qabs Bool ZArith Arith Lia Lqa.
Import ListNotations.
From PP Require Import Model.C28 Model.C31 Proofs.C28.
Open Scope Q_scope.

(* ------------------------------------------------------------------ is_ccw_polygon *)
(* twice the signed area (shoelace), same cyclic indexing as the code *)
Fixpoint area2_sum (first : v2) (l : list v2) : Q :=
  match l with
  | [] => 0
  | p :: r =>
      let q := match r with [] => first | q :: _ => q end in
      (fst p * snd q - fst q * snd p) + area2_sum first r
  end.

Definition area2 (poly : list v2) : Q :=
  match poly with [] => 0 | p :: _ => area2_sum p poly end.

Lemma ccw_tele : forall first r p,
  ccw_sum first (p :: r) + area2_sum first (p :: r)
  == fst first * snd first - fst p * snd p.
Proof.
  intros first r. induction r as [|q r IH]; intro p.
  - cbn [ccw_sum area2_sum]. ring.
  - specialize (IH q).
    change (ccw_sum first (p :: q :: r))
      with ((snd q + snd p) * (fst q - fst p) + ccw_sum first (q :: r)).
    change (area2_sum first (p :: q :: r))
      with ((fst p * snd q - fst q * snd p) + area2_sum first (q :: r)).
    set (A := ccw_sum first (q :: r)) in *. set (B := area2_sum first (q :: r)) in *.
    assert (E : A == fst first * snd first - fst q * snd q - B) by lra.
    rewrite E. ring.
Qed.

Lemma ccw_value_area : forall poly, ccw_value poly == - area2 poly.
Proof.
  intros [|p r]; [reflexivity|]. unfold ccw_value, area2.
  pose proof (ccw_tele p r p) as H. lra.
Qed.

Lemma ccw_iff_area_positive : forall poly, is_ccw_polygon poly = true <-> 0 < area2 poly.
Proof.
  intro poly. unfold is_ccw_polygon. rewrite qltb_true, ccw_value_area. split; intro H; lra.
Qed.

(* ------------------------------------------------------------------ is_ccw_polyline *)
Lemma polyline_spec : forall tol default p1 p2 p3,
  0 <= tol ->
  (tol < cross3 p1 p2 p3 -> is_ccw_polyline tol default p1 p2 p3 = true) /\
  (cross3 p1 p2 p3 < - tol -> is_ccw_polyline tol default p1 p2 p3 = false) /\
  (Qabs (cross3 p1 p2 p3) <= tol -> is_ccw_polyline tol default p1 p2 p3 = default).
Proof.
  intros tol default p1 p2 p3 Ht. unfold is_ccw_polyline. cbv zeta.
  set (c := cross3 p1 p2 p3).
  destruct (qltb tol c) eqn:E1; destruct (qltb c (- tol)) eqn:E2;
    destruct (Qle_bool (Qabs c) tol) eqn:E3;
    try apply qltb_true in E1; try apply qltb_false in E1;
    try apply qltb_true in E2; try apply qltb_false in E2;
    try (apply Qle_bool_iff in E3; apply Qabs_Qle_condition in E3);
    repeat split; intros; try reflexivity; try lra;
    try (apply Qabs_Qle_condition in H; lra);
    try (exfalso; apply qleb_false in E3;
         assert (Qabs c <= tol) by (apply Qabs_Qle_condition; lra); lra).
Qed.

(* ------------------------------------------------------------------ half spaces *)
Lemma fold_count : forall {A} (f : A -> bool) l acc,
  fold_left (fun acc x => if f x then S acc else acc) l acc
  = (acc + length (filter f l))%nat.
Proof.
  intros A f l. induction l as [|x l IH]; intro acc; cbn [fold_left filter].
  - cbn. lia.
  - rewrite IH. destruct (f x); cbn [length]; lia.
Qed.

Lemma filter_len_le : forall {A} (f : A -> bool) l, (length (filter f l) <= length l)%nat.
Proof.
  intros A f l. induction l as [|x l IH]; cbn [filter length]; [lia|].
  destruct (f x); cbn [length]; lia.
Qed.

Lemma filter_all : forall {A} (f : A -> bool) l,
  length (filter f l) = length l <-> forallb f l = true.
Proof.
  intros A f l. induction l as [|x l IH]; cbn [filter forallb length].
  - tauto.
  - pose proof (filter_len_le f l) as Hle. destruct (f x); cbn [length andb].
    + rewrite <- IH. lia.
    + split; [lia|discriminate].
Qed.

Lemma half_space_spec : forall ns x0s pts,
  length ns = length x0s ->
  half_space_int ns x0s pts
  = HOk (map (fun p => forallb (fun nx => in_half (fst nx) (snd nx) p) (combine ns x0s)) pts).
Proof.
  intros ns x0s pts HL. unfold half_space_int. rewrite HL, Nat.eqb_refl. cbn [negb].
  f_equal. apply map_ext. intro p. rewrite fold_count. cbn [Nat.add].
  assert (LC : length (combine ns x0s) = length x0s) by (rewrite combine_length; lia).
  rewrite <- LC.
  destruct (forallb (fun nx => in_half (fst nx) (snd nx) p) (combine ns x0s)) eqn:E.
  - apply filter_all in E. rewrite E. apply Nat.eqb_refl.
  - apply Nat.eqb_neq. intro H. apply filter_all in H. congruence.
Qed.

Lemma half_space_member : forall ns x0s pts i p,
  length ns = length x0s -> nth_error pts i = Some p ->
  match half_space_int ns x0s pts with
  | HOk bs => nth_error bs i = Some true <->
              (forall n x0, In (n, x0) (combine ns x0s) -> dot3 (sub3 p x0) n <= 0)
  | HErr _ => False
  end.
Proof.
  intros ns x0s pts i p HL Hp. rewrite (half_space_spec ns x0s pts HL).
  rewrite nth_error_map, Hp. cbn [option_map]. split.
  - intros H n x0 Hin. injection H as H. rewrite forallb_forall in H.
    specialize (H (n, x0) Hin). cbn [fst snd] in H. apply Qle_bool_iff in H. exact H.
  - intro H. f_equal. apply forallb_forall. intros [n x0] Hin. cbn [fst snd].
    apply Qle_bool_iff. apply H. exact Hin.
Qed.

Lemma half_space_shape_error : forall ns x0s pts,
  length ns <> length x0s -> half_space_int ns x0s pts = HErr ValueErr.
Proof.
  intros ns x0s pts H. unfold half_space_int. apply Nat.eqb_neq in H. rewrite H. reflexivity.
Qed.

(* ------------------------------------------------------------------ collinear *)
Lemma qmax_ge_l : forall x y, x <= qmax x y.
Proof. intros x y. destruct (qmax_cases x y) as [[L ->] | [L ->]]; lra. Qed.

Lemma max_sqdist_from_ge : forall p l acc, acc <= max_sqdist_from p l acc.
Proof.
  intros p l. induction l as [|q r IH]; intro acc; cbn [max_sqdist_from]; [lra|].
  eapply Qle_trans; [apply (qmax_ge_l acc)|apply IH].
Qed.

Lemma max_sqdist_ge : forall l acc, acc <= max_sqdist l acc.
Proof.
  intro l. induction l as [|p r IH]; intro acc; cbn [max_sqdist]; [lra|].
  eapply Qle_trans; [apply (max_sqdist_from_ge p r acc)|apply IH].
Qed.

Definition zero3 (v : v3) : Prop := let '(a, b, c) := v in a == 0 /\ b == 0 /\ c == 0.

(* exactly collinear point sets are accepted for every tolerance; an accepted set has
   every tested cross product within the (squared) tolerance *)
Lemma collinear_spec : forall tol p0 p1 q rest,
  let pts := p0 :: p1 :: q :: rest in
  ((forall p, In p (q :: rest) -> zero3 (crs3 (sub3 p p0) (sub3 p1 p0))) ->
   points_are_collinear tol pts = true) /\
  (points_are_collinear tol pts = true ->
   forall p, In p (q :: rest) ->
     let c := crs3 (sub3 p p0) (sub3 p1 p0) in
     dot3 c c <= tol * tol * max_sqdist pts 1).
Proof.
  intros tol p0 p1 q rest pts. unfold points_are_collinear, pts.
  set (d2 := max_sqdist (p0 :: p1 :: q :: rest) 1).
  assert (D : 1 <= d2) by apply max_sqdist_ge.
  split.
  - intro H. apply forallb_forall. intros p Hin. specialize (H p Hin).
    apply Qle_bool_iff.
    destruct (crs3 (sub3 p p0) (sub3 p1 p0)) as [[a b] c]. cbn in H. destruct H as (Ha & Hb & Hc).
    unfold dot3. rewrite Ha, Hb, Hc. nra.
  - intros H p Hin. rewrite forallb_forall in H. specialize (H p Hin).
    apply Qle_bool_iff in H. exact H.
Qed.

Lemma collinear_few : forall tol pts, (length pts <= 2)%nat -> points_are_collinear tol pts = true.
Proof.
  intros tol [|a [|b [|c r]]] H; cbn in *; try reflexivity. lia.
Qed.

(* ------------------------------------------------------------------ point_in_polygon:
   finite-domain comparison with the even-odd crossing-number test *)
Fixpoint edges_from (first : v2) (l : list v2) : list (v2 * v2) :=
  match l with
  | [] => []
  | p :: r => (p, match r with [] => first | q :: _ => q end) :: edges_from first r
  end.
Definition edges (poly : list v2) : list (v2 * v2) :=
  match poly with [] => [] | p :: _ => edges_from p poly end.

(* p lies on the closed segment ab *)
Definition on_seg_b (p : v2) (e : v2 * v2) : bool :=
  let '(a, b) := e in
  Qeq_bool (cross3 a b p) 0
  && Qle_bool (qmin (fst a) (fst b)) (fst p) && Qle_bool (fst p) (qmax (fst a) (fst b))
  && Qle_bool (qmin (snd a) (snd b)) (snd p) && Qle_bool (snd p) (qmax (snd a) (snd b)).

(* the horizontal ray from p to +infinity crosses the edge (half-open rule) *)
Definition ray_crosses (p : v2) (e : v2 * v2) : bool :=
  let '(a, b) := e in
  negb (Bool.eqb (qltb (snd p) (snd a)) (qltb (snd p) (snd b)))
  && qltb (fst p) (fst a + (snd p - snd a) / (snd b - snd a) * (fst b - fst a)).

(* None: on the boundary; Some b: inside iff the number of crossings is odd *)
Definition pip_ref (poly : list v2) (p : v2) : option bool :=
  if existsb (on_seg_b p) (edges poly) then None
  else Some (fold_left (fun acc e => xorb acc (ray_crosses p e)) (edges poly) false).

Definition zrange (lo : Z) (n : nat) : list Z := map (fun i => (lo + Z.of_nat i)%Z) (seq 0 n).

Lemma in_zrange : forall lo n x, (lo <= x < lo + Z.of_nat n)%Z -> In x (zrange lo n).
Proof.
  intros lo n x H. unfold zrange. apply in_map_iff. exists (Z.to_nat (x - lo)). split; [lia|].
  apply in_seq. lia.
Qed.

Definition zq (xy : Z * Z) : v2 := (inject_Z (fst xy), inject_Z (snd xy)).

Definition pip_agrees (poly : list v2) (default : bool) (xy : Z * Z) : bool :=
  Bool.eqb (point_in_polygon default poly (zq xy))
           (match pip_ref poly (zq xy) with None => default | Some b => b end).

Definition pip_box_check (poly : list v2) : bool :=
  forallb (fun xy => pip_agrees poly true xy && pip_agrees poly false xy)
          (list_prod (zrange (-2) 11) (zrange (-2) 11)).

Lemma pip_box_lift : forall poly,
  pip_box_check poly = true ->
  forall (x y : Z) (default : bool), (-2 <= x <= 8)%Z -> (-2 <= y <= 8)%Z ->
    point_in_polygon default poly (inject_Z x, inject_Z y)
    = match pip_ref poly (inject_Z x, inject_Z y) with None => default | Some b => b end.
Proof.
  intros poly H x y default Hx Hy. unfold pip_box_check in H. rewrite forallb_forall in H.
  assert (Hin : In (x, y) (list_prod (zrange (-2) 11) (zrange (-2) 11))).
  { apply in_prod; apply in_zrange; lia. }
  specialize (H (x, y) Hin). apply andb_prop in H. destruct H as [H1 H2].
  unfold pip_agrees, zq in H1, H2. cbn [fst snd] in H1, H2.
  destruct default; apply eqb_prop; assumption.
Qed.

Definition poly_L : list v2 := [(0, 0); (4, 0); (4, 4); (2, 4); (2, 2); (0, 2)].
Definition poly_U : list v2 := [(0, 0); (6, 0); (6, 4); (4, 4); (4, 2); (2, 2); (2, 4); (0, 4)].
Definition poly_comb : list v2 :=
  [(0, 0); (6, 0); (6, 3); (5, 3); (5, 1); (4, 1); (4, 3); (3, 3); (3, 1); (2, 1); (2, 3); (0, 3)].
Definition poly_zig : list v2 := [(0, 0); (2, 2); (4, 0); (6, 2); (6, 4); (4, 2); (2, 4); (0, 2)].
Definition poly_arrow_cw : list v2 := [(3, 5); (6, 0); (3, 1); (0, 0)].

Definition poly_spiral : list v2 :=
  [(0, 0); (8, 0); (8, 8); (0, 8); (0, 2); (5, 2); (5, 5); (3, 5); (3, 4); (4, 4); (4, 3); (1, 3);
   (1, 7); (7, 7); (7, 1); (0, 1)].
Definition poly_star : list v2 :=
  [(4, 8); (3, 5); (0, 5); (2, 3); (1, 0); (4, 2); (7, 0); (6, 3); (8, 5); (5, 5)].

Lemma pip_boxes2 : pip_box_check poly_spiral = true /\ pip_box_check poly_star = true.
Proof. split; vm_compute; reflexivity. Qed.

Lemma pip_boxes :
  pip_box_check poly_L = true /\ pip_box_check poly_U = true /\ pip_box_check poly_comb = true /\
  pip_box_check poly_zig = true /\ pip_box_check poly_arrow_cw = true.
Proof. repeat split; vm_compute; reflexivity. Qed.

Lemma pip_nonconvex_boxes : forall poly,
  In poly [poly_L; poly_U; poly_comb; poly_zig; poly_arrow_cw] ->
  forall (x y : Z) (default : bool), (-2 <= x <= 8)%Z -> (-2 <= y <= 8)%Z ->
    point_in_polygon default poly (inject_Z x, inject_Z y)
    = match pip_ref poly (inject_Z x, inject_Z y) with None => default | Some b => b end.
Proof.
  intros poly Hin. apply pip_box_lift.
  destruct pip_boxes as (H1 & H2 & H3 & H4 & H5).
  cbn [In] in Hin. destruct Hin as [<- | [<- | [<- | [<- | [<- | []]]]]]; assumption.
Qed.

(* the witness of the repaired defect: (3,2) is inside the L although it lies on the
   extension of the far edge (2,2)-(0,2) *)
Lemma pip_nonconvex_boxes2 : forall poly,
  In poly [poly_spiral; poly_star] ->
  forall (x y : Z) (default : bool), (-2 <= x <= 8)%Z -> (-2 <= y <= 8)%Z ->
    point_in_polygon default poly (inject_Z x, inject_Z y)
    = match pip_ref poly (inject_Z x, inject_Z y) with None => default | Some b => b end.
Proof.
  intros poly Hin. apply pip_box_lift. destruct pip_boxes2 as (H1 & H2).
  cbn [In] in Hin. destruct Hin as [<- | [<- | []]]; assumption.
Qed.

Lemma pip_L_far_edge : point_in_polygon false poly_L (3, 2) = true /\ pip_ref poly_L (3, 2) = Some true.
Proof. split; vm_compute; reflexivity. Qed.

(* ------------------------------------------------------------------ point_in_polygon:
   every point strictly to the left of all edges is reported inside *)
Definition Hp (v : v2) : Prop := 0 < fst v \/ (fst v == 0 /\ 0 < snd v).
Definition Hn (v : v2) : Prop := fst v < 0 \/ (fst v == 0 /\ snd v < 0).

Lemma qsgn_pos : forall x, qsgn x = 1%Z <-> 0 < x.
Proof.
  intro x. unfold qsgn. destruct (qltb 0 x) eqn:E1.
  - apply qltb_true in E1. tauto.
  - apply qltb_false in E1. destruct (qltb x 0) eqn:E2; split; intro H; try discriminate; lra.
Qed.

Lemma qsgn_neg : forall x, qsgn x = (-1)%Z <-> x < 0.
Proof.
  intro x. unfold qsgn. destruct (qltb 0 x) eqn:E1.
  - apply qltb_true in E1. split; intro H; [discriminate|lra].
  - apply qltb_false in E1. destruct (qltb x 0) eqn:E2.
    + apply qltb_true in E2. tauto.
    + apply qltb_false in E2. split; intro H; [discriminate|lra].
Qed.

Lemma qsgn_zero : forall x, qsgn x = 0%Z <-> x == 0.
Proof.
  intro x. unfold qsgn. destruct (qltb 0 x) eqn:E1.
  - apply qltb_true in E1. split; intro H; [discriminate|lra].
  - apply qltb_false in E1. destruct (qltb x 0) eqn:E2.
    + apply qltb_true in E2. split; intro H; [discriminate|lra].
    + apply qltb_false in E2. split; intro H; [lra|reflexivity].
Qed.

Lemma qsgn_cases : forall x, qsgn x = 1%Z \/ qsgn x = (-1)%Z \/ qsgn x = 0%Z.
Proof. intro x. unfold qsgn. destruct (qltb 0 x); destruct (qltb x 0); tauto. Qed.

Lemma vertex_sgn_pos : forall v, vertex_sgn v = 1%Z <-> Hp v.
Proof.
  intro v. unfold vertex_sgn, Hp.
  destruct (qsgn_cases (fst v)) as [E | [E | E]]; rewrite E; cbn [Z.eqb].
  - apply qsgn_pos in E. split; intro; [left; exact E|reflexivity].
  - apply qsgn_neg in E. split; intro H; [discriminate|]. destruct H as [H | [H _]]; lra.
  - apply qsgn_zero in E. rewrite qsgn_pos. split; intro H.
    + right. split; assumption.
    + destruct H as [H | [_ H]]; [lra|exact H].
Qed.

Lemma vertex_sgn_neg : forall v, vertex_sgn v = (-1)%Z <-> Hn v.
Proof.
  intro v. unfold vertex_sgn, Hn.
  destruct (qsgn_cases (fst v)) as [E | [E | E]]; rewrite E; cbn [Z.eqb].
  - apply qsgn_pos in E. split; intro H; [discriminate|]. destruct H as [H | [H _]]; lra.
  - apply qsgn_neg in E. split; intro; [left; exact E|reflexivity].
  - apply qsgn_zero in E. rewrite qsgn_neg. split; intro H.
    + right. split; assumption.
    + destruct H as [H | [_ H]]; [lra|exact H].
Qed.

Lemma vertex_sgn_cases : forall v,
  vertex_sgn v = 1%Z \/ vertex_sgn v = (-1)%Z \/ vertex_sgn v = 0%Z.
Proof.
  intro v. unfold vertex_sgn. destruct (qsgn_cases (fst v)) as [E | [E | E]]; rewrite E; cbn [Z.eqb];
    auto using qsgn_cases.
Qed.

(* within a lexicographic half-plane "strictly counter-clockwise of" is transitive *)
Lemma ccw_trans_pos : forall u v w,
  Hp u -> Hp v -> Hp w -> 0 < edge_cross u v -> 0 < edge_cross v w -> 0 < edge_cross u w.
Proof.
  intros [ux uy] [vx vy] [wx wy]. unfold Hp, edge_cross. cbn [fst snd].
  intros Hu Hv Hw C1 C2.
  assert (I : (ux * wy - uy * wx) * vx == (ux * vy - uy * vx) * wx + (vx * wy - vy * wx) * ux) by ring.
  destruct Hv as [Hv | [Hv0 Hv]].
  - destruct Hu as [Hu | [Hu0 Hu]]; destruct Hw as [Hw | [Hw0 Hw]]; nra.
  - destruct Hu as [Hu | [Hu0 Hu]]; destruct Hw as [Hw | [Hw0 Hw]]; nra.
Qed.

Lemma ccw_trans_neg : forall u v w,
  Hn u -> Hn v -> Hn w -> 0 < edge_cross u v -> 0 < edge_cross v w -> 0 < edge_cross u w.
Proof.
  intros [ux uy] [vx vy] [wx wy]. unfold Hn, edge_cross. cbn [fst snd].
  intros Hu Hv Hw C1 C2.
  assert (I : (ux * wy - uy * wx) * vx == (ux * vy - uy * vx) * wx + (vx * wy - vy * wx) * ux) by ring.
  destruct Hv as [Hv | [Hv0 Hv]].
  - destruct Hu as [Hu | [Hu0 Hu]]; destruct Hw as [Hw | [Hw0 Hw]]; nra.
  - destruct Hu as [Hu | [Hu0 Hu]]; destruct Hw as [Hw | [Hw0 Hw]]; nra.
Qed.

(* the pairs (v_i, v_{i+1}) the code looks at: combine rel (roll rel) *)
Fixpoint path_ok (P : v2 -> v2 -> Prop) (u : v2) (r : list v2) (first : v2) : Prop :=
  match r with
  | [] => P u first
  | v :: r' => P u v /\ path_ok P v r' first
  end.

Lemma path_of_pairs : forall (P : v2 -> v2 -> Prop) r u first,
  (forall v w, In (v, w) (combine (u :: r) (r ++ [first])) -> P v w) -> path_ok P u r first.
Proof.
  intros P r. induction r as [|v r IH]; intros u first H.
  - cbn. apply H. cbn. left. reflexivity.
  - cbn [path_ok]. split.
    + apply H. cbn. left. reflexivity.
    + apply IH. intros a b Hin. apply H. cbn [app combine]. right. exact Hin.
Qed.

Lemma no_turn_pos : forall r u first,
  Hp u ->
  path_ok (fun v w => 0 < edge_cross v w) u r first ->
  path_ok (fun v w => vertex_sgn w = vertex_sgn v) u r first ->
  Hp first /\ 0 < edge_cross u first.
Proof.
  intro r. induction r as [|v r IH]; intros u first Hu P1 P2; cbn [path_ok] in *.
  - split; [|exact P1]. apply vertex_sgn_pos. rewrite P2. apply vertex_sgn_pos. exact Hu.
  - destruct P1 as [C1 P1]. destruct P2 as [S1 P2].
    assert (Hv : Hp v) by (apply vertex_sgn_pos; rewrite S1; apply vertex_sgn_pos; exact Hu).
    destruct (IH v first Hv P1 P2) as [Hf C2].
    split; [exact Hf|]. exact (ccw_trans_pos u v first Hu Hv Hf C1 C2).
Qed.

Lemma no_turn_neg : forall r u first,
  Hn u ->
  path_ok (fun v w => 0 < edge_cross v w) u r first ->
  path_ok (fun v w => vertex_sgn w = vertex_sgn v) u r first ->
  Hn first /\ 0 < edge_cross u first.
Proof.
  intro r. induction r as [|v r IH]; intros u first Hu P1 P2; cbn [path_ok] in *.
  - split; [|exact P1]. apply vertex_sgn_neg. rewrite P2. apply vertex_sgn_neg. exact Hu.
  - destruct P1 as [C1 P1]. destruct P2 as [S1 P2].
    assert (Hv : Hn v) by (apply vertex_sgn_neg; rewrite S1; apply vertex_sgn_neg; exact Hu).
    destruct (IH v first Hv P1 P2) as [Hf C2].
    split; [exact Hf|]. exact (ccw_trans_neg u v first Hu Hv Hf C1 C2).
Qed.

Lemma edge_cross_self : forall u, edge_cross u u == 0.
Proof. intros [x y]. unfold edge_cross. cbn. ring. Qed.

(* wind2 / on_active_edge as folds over the pair list *)
Definition contrib (vw : v2 * v2) : Z :=
  if Z.eqb (vertex_sgn (snd vw) - vertex_sgn (fst vw)) 0 then 0%Z
  else qsgn (edge_cross (fst vw) (snd vw)).

Lemma wind2_pairs : forall vs ws,
  wind2 vs ws = fold_right (fun vw acc => (contrib vw + acc)%Z) 0%Z (combine vs ws).
Proof.
  induction vs as [|v vs IH]; intros [|w ws]; cbn [wind2 combine fold_right]; try reflexivity.
  rewrite IH. reflexivity.
Qed.

Lemma active_pairs : forall vs ws,
  on_active_edge vs ws
  = existsb (fun vw => Z.eqb (qsgn (edge_cross (fst vw) (snd vw))) 0
                       && negb (Z.eqb (vertex_sgn (snd vw) - vertex_sgn (fst vw)) 0))
            (combine vs ws).
Proof.
  induction vs as [|v vs IH]; intros [|w ws]; cbn [on_active_edge combine existsb]; try reflexivity.
  rewrite IH. reflexivity.
Qed.

Lemma sum_nonneg_zero : forall (l : list (v2 * v2)),
  (forall x, In x l -> (0 <= contrib x)%Z) ->
  fold_right (fun vw acc => (contrib vw + acc)%Z) 0%Z l = 0%Z ->
  forall x, In x l -> contrib x = 0%Z.
Proof.
  induction l as [|a l IH]; intros Hnn Hs x Hin; [contradiction|].
  cbn [fold_right] in Hs.
  assert (Ha := Hnn a (or_introl eq_refl)).
  assert (Hrest : (0 <= fold_right (fun vw acc => (contrib vw + acc)%Z) 0%Z l)%Z).
  { clear - Hnn. induction l as [|b l IH]; cbn [fold_right]; [lia|].
    assert (0 <= contrib b)%Z by (apply Hnn; right; left; reflexivity).
    assert (0 <= fold_right (fun vw acc => (contrib vw + acc)%Z) 0%Z l)%Z.
    { apply IH. intros y Hy. apply Hnn. destruct Hy as [-> | Hy]; [left; reflexivity|right; right; exact Hy]. }
    lia. }
  destruct Hin as [<- | Hin]; [lia|].
  apply IH; [intros y Hy; apply Hnn; right; exact Hy|lia|exact Hin].
Qed.

Lemma pip_all_left_rel : forall u r,
  (forall v w, In (v, w) (combine (u :: r) (r ++ [u])) -> 0 < edge_cross v w) ->
  existsb is_zero2 (u :: r) = false /\
  existsb is_zero2 (r ++ [u]) = false /\
  on_active_edge (u :: r) (r ++ [u]) = false /\
  wind2 (u :: r) (r ++ [u]) <> 0%Z.
Proof.
  intros u r H.
  assert (NZ : forall v, In v (u :: r) -> is_zero2 v = false).
  { intros v Hin.
    assert (Hex : exists w, In (v, w) (combine (u :: r) (r ++ [u]))).
    { assert (HL : length (u :: r) = length (r ++ [u])) by (rewrite app_length; cbn; lia).
      clear H. revert HL Hin. generalize (r ++ [u]) as ws. generalize (u :: r) as vs.
      induction vs as [|a vs IH]; intros [|b ws] HL Hin; cbn in *; try contradiction; try lia.
      destruct Hin as [-> | Hin]; [exists b; left; reflexivity|].
      destruct (IH ws ltac:(lia) Hin) as [w Hw]. exists w. right. exact Hw. }
    destruct Hex as [w Hw]. specialize (H v w Hw).
    unfold is_zero2. destruct (Qeq_bool (fst v) 0) eqn:E1; [|reflexivity].
    destruct (Qeq_bool (snd v) 0) eqn:E2; [|reflexivity].
    apply Qeq_bool_iff in E1, E2. unfold edge_cross in H. rewrite E1, E2 in H. lra. }
  split; [|split; [|split]].
  - destruct (existsb is_zero2 (u :: r)) eqn:E; [|reflexivity].
    apply existsb_exists in E. destruct E as [v [Hin Hz]]. rewrite (NZ v Hin) in Hz. discriminate.
  - destruct (existsb is_zero2 (r ++ [u])) eqn:E; [|reflexivity].
    apply existsb_exists in E. destruct E as [v [Hin Hz]].
    assert (Hin' : In v (u :: r)).
    { apply in_app_or in Hin. destruct Hin as [Hin | [<- | []]]; [right; exact Hin|left; reflexivity]. }
    rewrite (NZ v Hin') in Hz. discriminate.
  - rewrite active_pairs.
    destruct (existsb _ (combine (u :: r) (r ++ [u]))) eqn:E; [|reflexivity].
    apply existsb_exists in E. destruct E as [[v w] [Hin Hz]]. cbn [fst snd] in Hz.
    specialize (H v w Hin). apply qsgn_pos in H. rewrite H in Hz. cbn in Hz. discriminate.
  - rewrite wind2_pairs. intro Hs.
    assert (Hc : forall x, In x (combine (u :: r) (r ++ [u])) -> contrib x = 0%Z).
    { apply sum_nonneg_zero; [|exact Hs].
      intros [v w] Hin. unfold contrib. cbn [fst snd].
      destruct (Z.eqb (vertex_sgn w - vertex_sgn v) 0); [lia|].
      specialize (H v w Hin). apply qsgn_pos in H. rewrite H. lia. }
    assert (P1 := path_of_pairs (fun v w => 0 < edge_cross v w) r u u H).
    assert (P2 : path_ok (fun v w => vertex_sgn w = vertex_sgn v) u r u).
    { apply path_of_pairs. intros v w Hin. specialize (Hc (v, w) Hin). unfold contrib in Hc.
      cbn [fst snd] in Hc.
      destruct (Z.eqb (vertex_sgn w - vertex_sgn v) 0) eqn:E; [apply Z.eqb_eq in E; lia|].
      specialize (H v w Hin). apply qsgn_pos in H. rewrite H in Hc. discriminate. }
    pose proof (edge_cross_self u) as Z0.
    destruct (vertex_sgn_cases u) as [S | [S | S]].
    + apply vertex_sgn_pos in S. destruct (no_turn_pos r u u S P1 P2) as [_ C]. lra.
    + apply vertex_sgn_neg in S. destruct (no_turn_neg r u u S P1 P2) as [_ C]. lra.
    + (* u would be the zero vector *)
      assert (Hu : is_zero2 u = false) by (apply NZ; left; reflexivity).
      unfold vertex_sgn in S. unfold is_zero2 in Hu.
      destruct (Z.eqb (qsgn (fst u)) 0) eqn:E.
      * apply Z.eqb_eq in E. apply qsgn_zero in E, S. apply Qeq_bool_iff in E, S.
        rewrite E, S in Hu. discriminate.
      * apply Z.eqb_neq in E. contradiction.
Qed.

Lemma pip_decide : forall default (vs ws : list v2),
  existsb is_zero2 vs = false -> existsb is_zero2 ws = false ->
  on_active_edge vs ws = false -> wind2 vs ws <> 0%Z ->
  (if existsb is_zero2 vs || existsb is_zero2 ws then default
   else if on_active_edge vs ws then default else negb (wind2 vs ws =? 0)%Z) = true.
Proof.
  intros default vs ws Z1 Z2 A W. rewrite Z1, Z2, A. cbn [orb].
  apply negb_true_iff. apply Z.eqb_neq. exact W.
Qed.

(* every point strictly to the left of all (cyclically consecutive) edges — i.e. every
   point strictly inside a convex counter-clockwise polygon — is reported inside *)
Lemma pip_all_left : forall default poly p,
  poly <> [] ->
  (forall a b, In (a, b) (combine poly (roll1 poly)) -> 0 < cross3 a b p) ->
  point_in_polygon default poly p = true.
Proof.
  intros default poly p Hne H. unfold point_in_polygon. cbv zeta.
  set (f := fun v : Q * Q => (fst v - fst p, snd v - snd p)).
  destruct poly as [|a0 r0]; [contradiction|].
  assert (Hroll : roll1 (map f (a0 :: r0)) = map f r0 ++ [f a0]) by reflexivity.
  rewrite Hroll. cbn [map].
  assert (H' : forall v w, In (v, w) (combine (f a0 :: map f r0) (map f r0 ++ [f a0])) ->
                           0 < edge_cross v w).
  { intros v w Hin.
    assert (E : combine (f a0 :: map f r0) (map f r0 ++ [f a0])
                = map (fun ab => (f (fst ab), f (snd ab))) (combine (a0 :: r0) (r0 ++ [a0]))).
    { change (f a0 :: map f r0) with (map f (a0 :: r0)).
      replace (map f r0 ++ [f a0]) with (map f (r0 ++ [a0])) by (rewrite map_app; reflexivity).
      generalize (a0 :: r0) as xs. generalize (r0 ++ [a0]) as ys.
      intros ys xs. revert ys. induction xs as [|x xs IH]; intros [|y ys]; cbn; try reflexivity.
      rewrite IH. reflexivity. }
    rewrite E in Hin. apply in_map_iff in Hin. destruct Hin as [[a b] [Eab Hin]].
    cbn [fst snd] in Eab. injection Eab as <- <-.
    specialize (H a b Hin). unfold cross3 in H. unfold edge_cross, f. cbn [fst snd]. lra. }
  destruct (pip_all_left_rel (f a0) (map f r0) H') as (Z1 & Z2 & A & W).
  apply pip_decide; assumption.
Qed.

(* ------------------------------------------------------------------ sort_point_pairs:
   the link that one pass of the inner loop appends *)
Lemma scan_spec : forall lines found prev j0 j l np,
  scan lines found prev j0 = Some (j, l, np) ->
  exists k a b,
    j = (j0 + k)%nat /\ nth_error lines k = Some (a, b) /\ nth_error found k = Some false /\
    (l = (a, b) \/ l = (b, a)) /\ fst l = prev /\ np = snd l.
Proof.
  induction lines as [|[a b] lr IH]; intros found prev j0 j l np H; cbn [scan] in H;
    [discriminate|].
  destruct found as [|f fr]; [discriminate|].
  destruct (negb f && Z.eqb a prev) eqn:E1.
  - injection H as <- <- <-. apply andb_prop in E1. destruct E1 as [Ef Ea].
    apply negb_true_iff in Ef. apply Z.eqb_eq in Ea. subst f.
    exists 0%nat, a, b. cbn. repeat split; auto; lia.
  - destruct (negb f && Z.eqb b prev) eqn:E2.
    + injection H as <- <- <-. apply andb_prop in E2. destruct E2 as [Ef Eb].
      apply negb_true_iff in Ef. apply Z.eqb_eq in Eb. subst f.
      exists 0%nat, a, b. cbn. repeat split; auto; lia.
    + destruct (IH fr prev (S j0) j l np H) as (k & a' & b' & Hj & Hl & Hf & Hor & Hp & Hn).
      exists (S k), a', b'. cbn. repeat split; auto; lia.
Qed.

(* when the scan finds nothing, no unused pair touches prev *)
Lemma scan_none : forall lines found prev j0 k a b,
  scan lines found prev j0 = None ->
  nth_error lines k = Some (a, b) -> nth_error found k = Some false ->
  a <> prev /\ b <> prev.
Proof.
  induction lines as [|[a0 b0] lr IH]; intros found prev j0 k a b H Hl Hf.
  - destruct k; discriminate.
  - destruct found as [|f fr]; [destruct k; discriminate|]. cbn [scan] in H.
    destruct (negb f && Z.eqb a0 prev) eqn:E1; [discriminate|].
    destruct (negb f && Z.eqb b0 prev) eqn:E2; [discriminate|].
    destruct k as [|k].
    + cbn in Hl, Hf. injection Hl as -> ->. injection Hf as ->. cbn in E1, E2.
      apply Z.eqb_neq in E1, E2. split; assumption.
    + cbn in Hl, Hf. exact (IH fr prev (S j0) k a b H Hl Hf).
Qed.
