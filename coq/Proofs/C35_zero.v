(* C35 — zero_rows / zero_columns, the index expanders, rldecode with a short operand. *)
From Coq Require Import List ZArith Bool Arith Lia.
Import ListNotations.
From PP Require Import Lib.Csr Model.C35 Proofs.C35 Proofs.C35_rl Proofs.C35_csr.

(* ================================================================ generic tools *)

Lemma upd_length : forall {E} (l : list E) p v, length (upd l p v) = length l.
Proof. induction l as [|x l IH]; intros [|p] v; simpl; auto. Qed.

Lemma upd_nth : forall {E} (l : list E) p v k d,
  nth k (upd l p v) d = if (k =? p) && (k <? length l) then v else nth k l d.
Proof.
  induction l as [|x l IH]; intros p v k d.
  - simpl. destruct k; rewrite andb_false_r; reflexivity.
  - destruct p, k; simpl; try reflexivity.
    rewrite IH. reflexivity.
Qed.

Lemma scatter_length : forall {E} pos (base vals : list E), length (scatter base pos vals) = length base.
Proof.
  induction pos as [|p pos IH]; intros base [|v vals]; simpl; try reflexivity.
  rewrite IH. apply upd_length.
Qed.

(* writing one constant: positions hit get the constant, the others keep their value *)
Lemma scatter_const_nth : forall {E} pos (base : list E) v k d,
  nth k (scatter base pos (repeat v (length pos))) d
  = if existsb (Nat.eqb k) pos && (k <? length base) then v else nth k base d.
Proof.
  induction pos as [|p pos IH]; intros base v k d; [reflexivity|].
  cbn [length repeat scatter existsb]. rewrite IH, upd_length, upd_nth.
  destruct (k <? length base); rewrite ?andb_false_r, ?andb_true_r; [|reflexivity].
  destruct (existsb (Nat.eqb k) pos); rewrite ?orb_true_r; [reflexivity|].
  rewrite orb_false_r. reflexivity.
Qed.

Lemma list_eq_map_seq : forall {E} (l : list E) d, l = map (fun i => nth i l d) (seq 0 (length l)).
Proof.
  intros E l d. induction l as [|x l IH]; [reflexivity|].
  cbn [length seq map nth]. f_equal. rewrite <- seq_shift, map_map. exact IH.
Qed.

(* a segment whose elements are known pointwise *)
Lemma seg_pointwise : forall {E} (l l' : list E) a b (g : E -> E) d,
  a <= b -> b <= length l -> length l' = length l ->
  (forall k, a <= k < b -> nth k l' d = g (nth k l d)) ->
  seg a b l' = map g (seg a b l).
Proof.
  intros E l l' a b g d Hab Hb Hl H.
  replace b with (a + (b - a)) by lia.
  rewrite <- !(gather_seq d) by lia. unfold gather. rewrite map_map.
  apply map_ext_in. intros k Hk. apply in_seq in Hk. apply H. lia.
Qed.

Lemma mono_le : forall ip, monotone ip = true -> forall j i, i <= j -> j < length ip ->
  nth i ip 0 <= nth j ip 0.
Proof.
  intros ip M. induction j as [|j IH]; intros i Hi Hj.
  - replace i with 0 by lia. lia.
  - destruct (Nat.eq_dec i (S j)) as [->|Hne]; [lia|].
    pose proof (mono_step ip M j Hj). specialize (IH i). lia.
Qed.

(* a storage position inside line i belongs to the expanded positions of the lines [ind]
   exactly when i is one of them *)
Lemma position_in_lines : forall A ind i k, wfP A -> Forall (fun l => l < nmaj A) ind ->
  i < nmaj A -> nth i (indptr A) 0 <= k < nth (S i) (indptr A) 0 ->
  existsb (Nat.eqb k) (array_ind A ind) = existsb (Nat.eqb i) ind.
Proof.
  intros A ind i k W Hind Hi Hk. rewrite array_ind_spec.
  pose proof (wf_mono A W) as M. pose proof (wf_len A W) as L.
  destruct (existsb (Nat.eqb i) ind) eqn:E.
  - apply existsb_exists in E. destruct E as [i' [Hin Heq]]. apply Nat.eqb_eq in Heq. subst i'.
    apply existsb_exists. exists k. split; [|apply Nat.eqb_refl].
    apply in_flat_map. exists i. split; [exact Hin|]. apply in_seq. lia.
  - destruct (existsb (Nat.eqb k) (flat_map _ ind)) eqn:E'; [|reflexivity]. exfalso.
    apply existsb_exists in E'. destruct E' as [k' [Hin Heq]]. apply Nat.eqb_eq in Heq. subst k'.
    apply in_flat_map in Hin. destruct Hin as [i' [Hi' Hr]]. apply in_seq in Hr.
    rewrite Forall_forall in Hind. pose proof (Hind i' Hi') as Hlt.
    assert (i' <> i).
    { intros ->. assert (existsb (Nat.eqb i) ind = true)
        by (apply existsb_exists; exists i; split; [exact Hi'|apply Nat.eqb_refl]). congruence. }
    destruct (Nat.lt_ge_cases i' i).
    + pose proof (mono_le _ M i (S i') ltac:(lia) ltac:(lia)). lia.
    + pose proof (mono_le _ M i' (S i) ltac:(lia) ltac:(lia)). lia.
Qed.

(* ================================================================ zero_rows / zero_columns *)

Definition zero_entry (e : nat * Z) : nat * Z := (fst e, 0%Z).

Lemma zero_lines_nth : forall A ind i, wfP A -> Forall (fun l => l < nmaj A) ind -> i < nmaj A ->
  seg (nth i (indptr A) 0) (nth (S i) (indptr A) 0)
      (combine (indices A) (scatter (data A) (array_ind A ind) (repeat 0%Z (length (array_ind A ind)))))
  = if existsb (Nat.eqb i) ind then map zero_entry (nth i (rows A) [])
    else nth i (rows A) [].
Proof.
  intros A ind i W Hind Hi.
  destruct (line_bounds A i W Hi) as [H1 H2].
  unfold rows. rewrite rows_of_nth by (rewrite (wf_len A W); lia).
  set (g := fun e : nat * Z => if existsb (Nat.eqb i) ind then zero_entry e else e).
  rewrite (seg_pointwise (entries A) _ _ _ g (0, 0%Z)); try lia.
  - unfold g. destruct (existsb (Nat.eqb i) ind); [reflexivity|]. rewrite map_id. reflexivity.
  - unfold entries. rewrite !combine_length, scatter_length. reflexivity.
  - intros k Hk. unfold entries.
    rewrite !combine_nth by (rewrite ?scatter_length; symmetry; apply (wf_data A W)).
    rewrite scatter_const_nth, (position_in_lines A ind i k W Hind Hi Hk).
    rewrite (entries_length A W) in H2.
    replace (k <? length (data A)) with true by (symmetry; apply Nat.ltb_lt; rewrite (wf_data A W); lia).
    unfold g, zero_entry. destruct (existsb (Nat.eqb i) ind); reflexivity.
Qed.

Theorem zero_lines_rows : forall A ind, wf A = true -> Forall (fun l => l < nmaj A) ind ->
  exists Z0, zero_lines A ind = Ok Z0 /\
    nmaj Z0 = nmaj A /\ nmin Z0 = nmin A /\ indptr Z0 = indptr A /\ indices Z0 = indices A /\
    rows Z0 = map (fun i => if existsb (Nat.eqb i) ind then map zero_entry (nth i (rows A) [])
                            else nth i (rows A) []) (seq 0 (nmaj A)).
Proof.
  intros A ind Hwf Hind. pose proof (wf_wfP A Hwf) as W.
  unfold zero_lines. rewrite (proj2 (lines_ok_Forall A ind) Hind). cbn [negb].
  eexists. split; [reflexivity|]. cbn [nmaj nmin indptr indices].
  repeat (split; [reflexivity|]).
  unfold rows at 1, entries at 1. cbn [indptr indices data].
  match goal with |- ?X = _ => rewrite (list_eq_map_seq X []) end.
  rewrite rows_of_length, (wf_len A W). replace (S (nmaj A) - 1) with (nmaj A) by lia.
  apply map_ext_in. intros i Hi. apply in_seq in Hi.
  rewrite rows_of_nth by (rewrite (wf_len A W); lia).
  apply zero_lines_nth; [exact W|exact Hind|lia].
Qed.

Lemma entry_sum_zeroed : forall r j, entry_sum j (map zero_entry r) = 0%Z.
Proof.
  induction r as [|e r IH]; intros j; [reflexivity|]. simpl. rewrite IH.
  destruct (fst e =? j); reflexivity.
Qed.

Lemma dense_row_zeroed : forall n r, dense_row n (map zero_entry r) = repeat 0%Z n.
Proof.
  intros n r. unfold dense_row. rewrite (map_ext _ (fun _ => 0%Z)) by (intros; apply entry_sum_zeroed).
  generalize 0 at 1. induction n as [|n IH]; intros s; [reflexivity|]. simpl. f_equal. apply IH.
Qed.

(* dense semantics: the selected lines become zero lines, the others are untouched, and
   the sparsity structure (indptr, indices) is the one of A *)
Theorem zero_lines_dense : forall A ind, wf A = true -> Forall (fun l => l < nmaj A) ind ->
  exists Z0, zero_lines A ind = Ok Z0 /\ indptr Z0 = indptr A /\ indices Z0 = indices A /\
    to_dense Z0 = map (fun i => if existsb (Nat.eqb i) ind then repeat 0%Z (nmin A)
                                else nth i (to_dense A) []) (seq 0 (nmaj A)).
Proof.
  intros A ind Hwf Hind. pose proof (wf_wfP A Hwf) as W.
  destruct (zero_lines_rows A ind Hwf Hind) as [Z0 [E [_ [Hm [Hp [Hi Hr]]]]]].
  exists Z0. split; [exact E|split; [exact Hp|split; [exact Hi|]]].
  unfold to_dense. rewrite Hr, Hm, map_map. apply map_ext_in. intros i Hin. apply in_seq in Hin.
  destruct (existsb (Nat.eqb i) ind); [apply dense_row_zeroed|].
  rewrite (nth_indep _ [] (dense_row (nmin A) [])) by (rewrite map_length, (rows_length A W); lia).
  symmetry. apply (map_nth (dense_row (nmin A))).
Qed.

Lemma zero_lines_error : forall A ind, ~ Forall (fun l => l < nmaj A) ind ->
  zero_lines A ind = Err IndexErr.
Proof.
  intros A ind H. unfold zero_lines. destruct (lines_ok A ind) eqn:E; [|reflexivity].
  exfalso. apply H. apply lines_ok_Forall. exact E.
Qed.

(* ================================================================ expand_indices_* *)

Lemma ravel_f_rows : forall (h : nat -> Z -> Z) x n,
  ravel_f (length x) (map (fun k => map (h k) x) (seq 0 n))
  = flat_map (fun v => map (fun k => h k v) (seq 0 n)) x.
Proof.
  intros h x n. unfold ravel_f. induction x as [|v x IH]; [reflexivity|].
  cbn [length seq flat_map]. f_equal.
  - rewrite map_map. reflexivity.
  - rewrite <- IH, <- seq_shift, !flat_map_concat_map, map_map. f_equal.
    apply map_ext. intros j. rewrite !map_map. reflexivity.
Qed.

Lemma expand_indices_nd_F : forall ind nd,
  expand_indices_nd ind nd true
  = flat_map (fun i => map (fun d => (Z.of_nat nd * i + Z.of_nat d)%Z) (seq 0 nd)) ind.
Proof.
  intros ind nd. unfold expand_indices_nd. destruct (nd =? 1) eqn:E.
  - apply Nat.eqb_eq in E. subst nd. cbn [seq map].
    induction ind as [|i ind IH]; [reflexivity|]. cbn [flat_map app]. rewrite <- IH. f_equal. lia.
  - apply (ravel_f_rows (fun d i => (Z.of_nat nd * i + Z.of_nat d)%Z)).
Qed.

Lemma expand_indices_nd_C : forall ind nd,
  expand_indices_nd ind nd false
  = flat_map (fun d => map (fun i => (Z.of_nat nd * i + Z.of_nat d)%Z) ind) (seq 0 nd).
Proof.
  intros ind nd. unfold expand_indices_nd. destruct (nd =? 1) eqn:E.
  - apply Nat.eqb_eq in E. subst nd. cbn [seq flat_map]. rewrite app_nil_r.
    induction ind as [|i ind IH]; [reflexivity|]. cbn [map]. rewrite <- IH. f_equal. lia.
  - unfold ravel_c. rewrite flat_map_concat_map. reflexivity.
Qed.

Lemma expand_indices_add_increment_spec : forall x n incr,
  expand_indices_add_increment x n incr
  = flat_map (fun v => map (fun k => (v + incr * Z.of_nat k)%Z) (seq 0 n)) x.
Proof.
  intros x n incr. unfold expand_indices_add_increment.
  apply (ravel_f_rows (fun k v => (v + incr * Z.of_nat k)%Z)).
Qed.

(* ================================================================ rldecode, short operand *)

Definition nonpos (c : Z) : bool := (c <=? 0)%Z.

Definition decode_ix (s : nat) (m : list Z) : list nat :=
  flat_map (fun fc : nat * Z => repeat (fst fc) (Z.to_nat (snd fc)))
           (combine (argwhere_from s (map pos m)) (mask (map pos m) m)).

Lemma decode_ix_cons : forall s c m,
  decode_ix s (c :: m) = repeat s (Z.to_nat c) ++ decode_ix (S s) m.
Proof.
  intros s c m. unfold decode_ix. cbn [map mask argwhere_from].
  destruct (pos c) eqn:E; unfold pos in E.
  - reflexivity.
  - replace (Z.to_nat c) with 0 by lia. reflexivity.
Qed.

(* positions beyond the operand: fine as long as no positive count asks for them *)
Lemma gather_beyond : forall (T : Type) (pre : list T) m s, length pre <= s ->
  gather_opt pre (decode_ix s m) = if forallb nonpos m then Some [] else None.
Proof.
  intros T pre. induction m as [|c m IH]; intros s Hs; [reflexivity|].
  rewrite decode_ix_cons, gather_opt_app, IH by lia. cbn [forallb].
  destruct (nonpos c) eqn:E; unfold nonpos in E.
  - apply Z.leb_le in E. replace (Z.to_nat c) with 0 by lia. cbn [repeat gather_opt andb].
    destruct (forallb nonpos m); reflexivity.
  - apply Z.leb_gt in E. replace (Z.to_nat c) with (S (Z.to_nat (c - 1))) by lia.
    cbn [repeat gather_opt andb].
    replace (nth_error pre s) with (@None T); [reflexivity|].
    symmetry. apply nth_error_None. exact Hs.
Qed.

Lemma gather_positive_gen : forall (T : Type) (n : list Z) (A pre : list T),
  gather_opt (pre ++ A) (decode_ix (length pre) n)
  = if forallb nonpos (skipn (length A) n)
    then Some (flat_map (rep T) (combine A n)) else None.
Proof.
  intros T. induction n as [|c n IH]; intros A pre.
  - destruct A; reflexivity.
  - destruct A as [|a A].
    + rewrite app_nil_r. cbn [length skipn combine flat_map]. apply gather_beyond. lia.
    + rewrite decode_ix_cons, gather_opt_app.
      rewrite (gather_opt_repeat _ _ a) by apply nth_error_pre.
      replace (pre ++ a :: A) with ((pre ++ [a]) ++ A) by (rewrite <- app_assoc; reflexivity).
      specialize (IH A (pre ++ [a])). rewrite app_length in IH. cbn [length] in IH.
      replace (length pre + 1) with (S (length pre)) in IH by lia. rewrite IH.
      cbn [length skipn combine flat_map].
      destruct (forallb nonpos (skipn (length A) n)); reflexivity.
Qed.

(* rldecode for operands of ANY length: np.repeat over the common prefix when no positive
   count lies beyond the end of A, IndexError otherwise *)
Lemma rldecode_general : forall (T : Type) (A : list T) (n : list Z),
  rldecode A n
  = if forallb nonpos (skipn (length A) n)
    then Ok (flat_map (fun ac => repeat (fst ac) (Z.to_nat (snd ac))) (combine A n))
    else Err IndexErr.
Proof.
  intros T A n. unfold rldecode.
  change (fun c : Z => (0 <? c)%Z) with pos.
  rewrite (decode_positions nat (mask (map pos n) n) (argwhere_from 0 (map pos n)))
    by (try apply argwhere_mask_length; apply mask_positive).
  pose proof (gather_positive_gen T n A []) as G. cbn [app length] in G.
  unfold decode_ix, rep in *. rewrite G.
  destruct (forallb nonpos (skipn (length A) n)); reflexivity.
Qed.
