(* C38 — proofs. *)
From Coq Require Import List ZArith Bool Arith Lia Permutation Sorted.
Import ListNotations.
From PP Require Import Model.C38.

(* ------------------------------------------------------------------------------ *)
(* partition of a list by keys                                                    *)
(* ------------------------------------------------------------------------------ *)
Lemma filter_or_disjoint {B} (p q : B -> bool) (l : list B) :
  (forall x, In x l -> p x = true -> q x = false) ->
  Permutation (filter (fun x => p x || q x) l) (filter p l ++ filter q l).
Proof.
  induction l as [|x l IH]; intro H; [constructor|].
  assert (IH' := IH (fun y Hy => H y (or_intror Hy))).
  cbn [filter]. destruct (p x) eqn:Ep.
  - rewrite (H x (or_introl eq_refl) Ep). cbn [orb app]. constructor. exact IH'.
  - destruct (q x); cbn [orb]; [|exact IH'].
    apply Permutation_cons_app. exact IH'.
Qed.

Lemma partition_by_keys {B} (k : B -> Z) (l : list B) (ts : list Z) :
  NoDup ts ->
  Permutation (concat (map (fun t => filter (fun x => Z.eqb (k x) t) l) ts))
              (filter (fun x => existsb (Z.eqb (k x)) ts) l).
Proof.
  intro Hnd. induction Hnd as [|t ts Hnot Hnd IH].
  - cbn. induction l; [constructor|assumption].
  - cbn [map concat existsb].
    eapply Permutation_trans; [apply Permutation_app_head; exact IH|].
    apply Permutation_sym. apply filter_or_disjoint.
    intros x _ Hx. apply Z.eqb_eq in Hx.
    destruct (existsb (Z.eqb (k x)) ts) eqn:E; [|reflexivity].
    apply existsb_exists in E as (y & Hy & Hxy). apply Z.eqb_eq in Hxy.
    exfalso. apply Hnot. rewrite <- Hx, Hxy. exact Hy.
Qed.

Lemma filter_all {B} (p : B -> bool) (l : list B) :
  (forall x, In x l -> p x = true) -> filter p l = l.
Proof.
  induction l as [|x l IH]; intro H; [reflexivity|].
  cbn [filter]. rewrite (H x (or_introl eq_refl)). f_equal. apply IH.
  intros y Hy. apply H. right. exact Hy.
Qed.

(* ------------------------------------------------------------------------------ *)
(* np.unique                                                                      *)
(* ------------------------------------------------------------------------------ *)
Lemma ins_In t l x : In x (ins t l) <-> x = t \/ In x l.
Proof.
  induction l as [|y l IH]; cbn [ins].
  - cbn. intuition.
  - destruct (t <? y)%Z; [cbn; intuition|].
    destruct (t =? y)%Z eqn:E.
    + apply Z.eqb_eq in E. subst y. cbn. intuition.
    + cbn [In]. rewrite IH. intuition.
Qed.

Lemma ins_sorted t l : StronglySorted Z.lt l -> StronglySorted Z.lt (ins t l).
Proof.
  induction l as [|y l IH]; intro H; cbn [ins].
  - constructor; constructor.
  - inversion H as [|? ? Hs Hall]; subst.
    destruct (t <? y)%Z eqn:E1.
    + apply Z.ltb_lt in E1. constructor; [exact H|].
      constructor; [exact E1|]. eapply Forall_impl; [|exact Hall]. intros; lia.
    + destruct (t =? y)%Z eqn:E2; [exact H|].
      apply Z.ltb_ge in E1. apply Z.eqb_neq in E2.
      constructor; [apply IH; exact Hs|].
      apply Forall_forall. intros x Hx. apply ins_In in Hx as [->|Hx]; [lia|].
      rewrite Forall_forall in Hall. apply Hall. exact Hx.
Qed.

Lemma types_of_sorted g : StronglySorted Z.lt (types_of g).
Proof. induction g; cbn; [constructor|apply ins_sorted; assumption]. Qed.

Lemma types_of_In g t : In t (types_of g) <-> In t g.
Proof.
  induction g as [|x g IH]; cbn [types_of fold_right]; [reflexivity|].
  fold (types_of g). rewrite ins_In, IH. cbn. intuition.
Qed.

Lemma sorted_NoDup l : StronglySorted Z.lt l -> NoDup l.
Proof.
  induction 1 as [|x l Hs IH Hall]; constructor; [|exact IH].
  intro Hin. rewrite Forall_forall in Hall. specialize (Hall x Hin). lia.
Qed.

(* ------------------------------------------------------------------------------ *)
(* cell ids form a permutation of 0..N-1                                          *)
(* ------------------------------------------------------------------------------ *)
Definition ids_of (bl : list (Z * list nat)) : list nat := concat (map snd bl).

Lemma add_block_perm bl t cs : Permutation (ids_of (add_block bl t cs)) (ids_of bl ++ cs).
Proof.
  unfold ids_of. induction bl as [|[t' l] bl IH]; cbn [add_block].
  - cbn. rewrite app_nil_r. apply Permutation_refl.
  - destruct (Z.eqb t t'); cbn [map snd concat].
    + rewrite <- !app_assoc. apply Permutation_app_head. apply Permutation_app_comm.
    + rewrite <- app_assoc. apply Permutation_app_head. exact IH.
Qed.

Lemma add_types_perm g off ts : forall bl,
  Permutation
    (ids_of (fold_left (fun b t => add_block b t (cells_of_type g t off)) ts bl))
    (ids_of bl ++ concat (map (fun t => cells_of_type g t off) ts)).
Proof.
  induction ts as [|t ts IH]; intro bl; cbn [fold_left map concat].
  - rewrite app_nil_r. apply Permutation_refl.
  - eapply Permutation_trans; [apply IH|].
    rewrite app_assoc. apply Permutation_app_tail. apply add_block_perm.
Qed.

Lemma map_add_seq off n : map (fun i => i + off) (seq 0 n) = seq off n.
Proof.
  revert off. induction n as [|n IH]; intro off; [reflexivity|].
  cbn [seq map]. f_equal. rewrite <- seq_shift, map_map.
  rewrite <- (IH (S off)). apply map_ext. intro i. lia.
Qed.

Lemma concat_map_map {X Y Z'} (f : Y -> Z') (F : X -> list Y) (ts : list X) :
  concat (map (fun t => map f (F t)) ts) = map f (concat (map F ts)).
Proof.
  induction ts as [|t ts IH]; [reflexivity|].
  cbn [map concat]. rewrite map_app, IH. reflexivity.
Qed.

Lemma add_grid_perm bl g off :
  Permutation (ids_of (add_grid bl g off)) (ids_of bl ++ seq off (length g)).
Proof.
  unfold add_grid. eapply Permutation_trans; [apply add_types_perm|].
  apply Permutation_app_head. unfold cells_of_type.
  rewrite <- (map_add_seq off (length g)).
  rewrite (concat_map_map (fun i => i + off)
             (fun t => filter (fun i => Z.eqb (nth i g 0%Z) t) (seq 0 (length g)))).
  apply Permutation_map.
  eapply Permutation_trans.
  - apply (partition_by_keys (fun i => nth i g 0%Z)). apply sorted_NoDup, types_of_sorted.
  - rewrite filter_all; [apply Permutation_refl|].
    intros i Hi. apply in_seq in Hi. apply existsb_exists.
    exists (nth i g 0%Z). split; [|apply Z.eqb_refl].
    apply types_of_In. apply nth_In. lia.
Qed.

Definition total (grids : list (list Z)) : nat := length (concat grids).

Lemma cell_blocks_perm grids : forall bl off,
  Permutation (ids_of bl) (seq 0 off) ->
  Permutation (ids_of (cell_blocks bl grids off)) (seq 0 (off + total grids)).
Proof.
  induction grids as [|g grids IH]; intros bl off H; cbn [cell_blocks].
  - unfold total. cbn. rewrite Nat.add_0_r. exact H.
  - unfold total. cbn [concat]. rewrite app_length, Nat.add_assoc. apply IH.
    eapply Permutation_trans; [apply add_grid_perm|].
    rewrite seq_app. apply Permutation_app_tail. exact H.
Qed.

Lemma cell_ids_perm grids : Permutation (concat (cell_ids grids)) (seq 0 (total grids)).
Proof. apply (cell_blocks_perm grids [] 0). constructor. Qed.

(* 3-D polyhedral blocks: sorted by type, still a permutation *)
Lemma ins_block_perm b l : Permutation (ins_block b l) (b :: l).
Proof.
  induction l as [|x l IH]; cbn [ins_block]; [apply Permutation_refl|].
  destruct (fst b <=? fst x)%Z; [apply Permutation_refl|].
  eapply Permutation_trans; [apply perm_skip; exact IH|]. apply perm_swap.
Qed.

Lemma sort_blocks_perm l : Permutation (sort_blocks l) l.
Proof.
  induction l as [|b l IH]; [constructor|]. cbn [sort_blocks fold_right].
  eapply Permutation_trans; [apply ins_block_perm|]. apply perm_skip. exact IH.
Qed.

Lemma ids_of_perm a b : Permutation a b -> Permutation (ids_of a) (ids_of b).
Proof.
  unfold ids_of. induction 1 as [| x l l' H IH | x y l | l l' l'' H1 IH1 H2 IH2].
  - constructor.
  - cbn [map concat]. apply Permutation_app_head. exact IH.
  - cbn [map concat]. rewrite !app_assoc. apply Permutation_app_tail. apply Permutation_app_comm.
  - eapply Permutation_trans; eassumption.
Qed.

Lemma cell_ids_3d_perm grids : Permutation (concat (cell_ids_3d grids)) (seq 0 (total grids)).
Proof.
  eapply Permutation_trans; [|apply cell_ids_perm].
  apply (ids_of_perm _ _ (sort_blocks_perm (cell_blocks [] grids 0))).
Qed.

Lemma ins_block_sorted b l :
  StronglySorted (fun x y => (fst x <= fst y)%Z) l ->
  StronglySorted (fun x y => (fst x <= fst y)%Z) (ins_block b l).
Proof.
  induction l as [|x l IH]; intro H; cbn [ins_block]; [constructor; constructor|].
  inversion H as [|? ? Hs Hall]; subst. destruct (fst b <=? fst x)%Z eqn:E.
  - apply Z.leb_le in E. constructor; [exact H|]. constructor; [exact E|].
    eapply Forall_impl; [|exact Hall]. intros a Ha; cbn beta in *; lia.
  - apply Z.leb_gt in E. constructor; [apply IH; exact Hs|].
    apply Forall_forall. intros y Hy.
    apply (Permutation_in _ (ins_block_perm b l)) in Hy. destruct Hy as [<-|Hy]; [lia|].
    rewrite Forall_forall in Hall. apply Hall. exact Hy.
Qed.

Lemma cell_ids_3d_sorted grids :
  StronglySorted Z.le (map fst (sort_blocks (cell_blocks [] grids 0))).
Proof.
  assert (H : StronglySorted (fun x y => (fst x <= fst y)%Z)
                             (sort_blocks (cell_blocks [] grids 0))).
  { induction (cell_blocks [] grids 0) as [|b l IH]; [constructor|].
    cbn [sort_blocks fold_right]. apply ins_block_sorted. exact IH. }
  induction H as [|x l Hs IH Hall]; [constructor|]. cbn [map]. constructor; [exact IH|].
  rewrite Forall_map. exact Hall.
Qed.

Lemma poly3d_sorted_perm (grids : list (list Z)) :
  StronglySorted Z.le (map fst (sort_blocks (cell_blocks [] grids 0))) /\
  Permutation (concat (cell_ids_3d grids)) (seq 0 (total grids)).
Proof. split; [apply cell_ids_3d_sorted|apply cell_ids_3d_perm]. Qed.

(* ------------------------------------------------------------------------------ *)
(* scatter after gather                                                           *)
(* ------------------------------------------------------------------------------ *)
Section Field.
  Variable A : Type.
  Variable d : A.

  Lemma upd_length l i (v : A) : length (upd A l i v) = length l.
  Proof. revert i. induction l; intros [|i]; cbn; auto. Qed.

  Lemma upd_nth l i (v : A) k :
    nth k (upd A l i v) d = if (k =? i) && (i <? length l) then v else nth k l d.
  Proof.
    revert i k. induction l as [|x l IH]; intros i k.
    - cbn [upd length]. destruct i; rewrite andb_false_r; reflexivity.
    - destruct i as [|i]; destruct k as [|k]; cbn [upd nth length]; try reflexivity.
      rewrite IH. reflexivity.
  Qed.

  Lemma scatter_spec (data : list A) ids : forall acc,
    (forall i, In i ids -> i < length acc) ->
    let r := scatter A acc ids (map (fun i => nth i data d) ids) in
    length r = length acc /\
    forall k, nth k r d = if existsb (Nat.eqb k) ids then nth k data d else nth k acc d.
  Proof.
    unfold scatter. induction ids as [|i ids IH]; intros acc Hb; cbn [map combine fold_left].
    - split; [reflexivity|]. intro k. reflexivity.
    - cbn [fst snd]. destruct (IH (upd A acc i (nth i data d))) as [Hl Hn].
      { intros j Hj. rewrite upd_length. apply Hb. right. exact Hj. }
      rewrite upd_length in Hl. split; [exact Hl|].
      intro k. rewrite Hn. cbn [existsb].
      destruct (existsb (Nat.eqb k) ids); [rewrite orb_true_r; reflexivity|].
      rewrite orb_false_r. rewrite upd_nth.
      destruct (k =? i) eqn:E; [|reflexivity].
      apply Nat.eqb_eq in E. subst k.
      replace (i <? length acc) with true; [reflexivity|].
      symmetry. apply Nat.ltb_lt. apply Hb. left. reflexivity.
  Qed.

  Lemma concat_export ids (values : list A) :
    concat (export_blocks A d ids values) = map (fun i => nth i values d) (concat ids).
  Proof. unfold export_blocks. rewrite concat_map. reflexivity. Qed.

  Lemma chop_concat (ls : list (list A)) : chop A (map (@length A) ls) (concat ls) = ls.
  Proof.
    induction ls as [|a ls IH]; [reflexivity|].
    cbn [map concat chop]. rewrite firstn_app, Nat.sub_diag, firstn_all, firstn_O, app_nil_r.
    rewrite skipn_app, Nat.sub_diag, skipn_all. cbn [skipn app]. rewrite IH. reflexivity.
  Qed.

  (* gather through a permutation of 0..N-1, scatter back: the identity, whatever the
     uninitialised buffer held *)
  Lemma scatter_gather (values garbage : list A) (ids : list nat) :
    Permutation ids (seq 0 (length values)) -> length garbage = length values ->
    scatter A garbage ids (map (fun i => nth i values d) ids) = values.
  Proof.
    intros Hp Hg.
    destruct (scatter_spec values ids garbage) as [Hl Hn].
    { intros i Hi. rewrite Hg. apply (Permutation_in _ Hp) in Hi. apply in_seq in Hi. lia. }
    apply (nth_ext _ _ d d); [rewrite Hl; exact Hg|].
    intros k Hk. rewrite Hl, Hg in Hk. rewrite Hn.
    replace (existsb (Nat.eqb k) ids) with true; [reflexivity|].
    symmetry. apply existsb_exists. exists k. split; [|apply Nat.eqb_refl].
    apply (Permutation_in _ (Permutation_sym Hp)). apply in_seq. lia.
  Qed.

  Theorem roundtrip_ids_id (garbage : list A) (ids : list (list nat)) (per_entity : list (list A)) :
    Permutation (concat ids) (seq 0 (length (concat per_entity))) ->
    length garbage = length (concat per_entity) ->
    roundtrip_ids A d garbage ids per_entity = per_entity.
  Proof.
    intros Hp Hg. unfold roundtrip_ids, import_blocks. rewrite concat_export.
    rewrite scatter_gather by assumption. apply chop_concat.
  Qed.

  Theorem roundtrip_id (garbage : list A) (grids : list (list Z)) (per_entity : list (list A)) :
    length (concat per_entity) = total grids ->
    length garbage = total grids ->
    roundtrip A d garbage grids per_entity = per_entity.
  Proof.
    intros Hn Hg. apply roundtrip_ids_id; rewrite Hn; [apply cell_ids_perm|exact Hg].
  Qed.

  Theorem roundtrip_3d_id (garbage : list A) (grids : list (list Z)) (per_entity : list (list A)) :
    length (concat per_entity) = total grids ->
    length garbage = total grids ->
    roundtrip_3d A d garbage grids per_entity = per_entity.
  Proof.
    intros Hn Hg. apply roundtrip_ids_id; rewrite Hn; [apply cell_ids_3d_perm|exact Hg].
  Qed.
End Field.

(* ------------------------------------------------------------------------------ *)
(* pvd                                                                            *)
(* ------------------------------------------------------------------------------ *)
Lemma latest_spec l :
  match latest l with
  | None => l = []
  | Some m => In m l /\ Forall (fun x => (x <= m)%Z) l
  end.
Proof.
  induction l as [|x l IH]; cbn [latest]; [reflexivity|].
  destruct (latest l) as [m|].
  - destruct IH as [Hin Hall]. destruct (m <=? x)%Z eqn:E.
    + apply Z.leb_le in E. split; [left; reflexivity|].
      constructor; [lia|]. eapply Forall_impl; [|exact Hall]. intros a Ha; cbn beta in *; lia.
    + apply Z.leb_gt in E. split; [right; exact Hin|]. constructor; [lia|exact Hall].
  - subst l. split; [left; reflexivity|]. constructor; [lia|constructor].
Qed.

Lemma filter_same {F} (t : Z) (l : list F) :
  map snd (filter (fun e => Z.eqb (fst e) t) (map (fun g => (t, g)) l)) = l.
Proof.
  induction l as [|g l IH]; [reflexivity|].
  cbn [map filter fst]. rewrite Z.eqb_refl. cbn [map snd]. f_equal. exact IH.
Qed.

Definition max_suffix {F} (suffix : F -> Z) (fs : list F) : Z :=
  match fs with
  | f :: r => fold_right (fun g m => Z.max (suffix g) m) (suffix f) r
  | [] => 0%Z
  end.

Lemma max_suffix_same {F} (suffix : F -> Z) (k : Z) (f : F) (r : list F) :
  suffix f = k -> Forall (fun g => suffix g = k) r -> max_suffix suffix (f :: r) = k.
Proof.
  intros Hf Hr. cbn [max_suffix]. induction Hr as [|g r Hg Hr IH]; [exact Hf|].
  cbn [fold_right]. rewrite IH, Hg. apply Z.max_id.
Qed.

Theorem restart_latest {F} (suffix : F -> Z) (entries : list (Z * F)) :
  entries <> [] ->
  exists m,
    restart_files suffix entries
    = Some (max_suffix suffix (map snd (filter (fun e => Z.eqb (fst e) m) entries)),
            map snd (filter (fun e => Z.eqb (fst e) m) entries)) /\
    In m (map fst entries) /\ Forall (fun e => (fst e <= m)%Z) entries.
Proof.
  intro Hne. unfold restart_files. pose proof (latest_spec (map fst entries)) as H.
  destruct (latest (map fst entries)) as [m|].
  - destruct H as [Hin Hall]. exists m. split; [reflexivity|]. split; [exact Hin|].
    rewrite Forall_map in Hall. exact Hall.
  - destruct entries; [contradiction|discriminate].
Qed.

(* when the most recent export was written at a time larger than all earlier ones, the
   files imported are exactly its files and the index returned is their suffix, whatever
   the times are (they need not be the step indices) *)
Theorem restart_most_recent {F} (suffix : F -> Z) (older : list (Z * F)) (t : Z)
        (f : F) (last : list F) :
  Forall (fun e => (fst e < t)%Z) older ->
  restart_files suffix (older ++ map (fun g => (t, g)) (f :: last))
  = Some (max_suffix suffix (f :: last), f :: last).
Proof.
  intros Hold. set (entries := older ++ map (fun g => (t, g)) (f :: last)).
  destruct (restart_latest suffix entries) as (m & Hr & Hin & Hall).
  { unfold entries. destruct older; discriminate. }
  assert (Hm : m = t).
  { apply Z.le_antisymm.
    - unfold entries in Hin. rewrite map_app, map_map in Hin. cbn [fst] in Hin.
      apply in_app_or in Hin as [Hin|Hin].
      + apply in_map_iff in Hin as (e & <- & He). rewrite Forall_forall in Hold.
        specialize (Hold e He). lia.
      + apply in_map_iff in Hin as (g & <- & _). lia.
    - rewrite Forall_forall in Hall.
      apply (Hall (t, f)). unfold entries. apply in_or_app. right. left. reflexivity. }
  subst m. rewrite Hr.
  assert (Hfs : map snd (filter (fun e => Z.eqb (fst e) t) entries) = f :: last).
  { unfold entries. rewrite filter_app, map_app.
    replace (filter (fun e => Z.eqb (fst e) t) older) with (@nil (Z * F)).
    - cbn [app]. exact (filter_same t (f :: last)).
    - symmetry. clear -Hold. induction Hold as [|e older He Hold IH]; [reflexivity|].
      cbn [filter]. replace (Z.eqb (fst e) t) with false; [exact IH|].
      symmetry. apply Z.eqb_neq. lia. }
  rewrite Hfs. reflexivity.
Qed.

(* ------------------------------------------------------------------------------ *)
(* time information                                                               *)
(* ------------------------------------------------------------------------------ *)
Section Time.
  Variable V T : Type.
  Variable print : V -> T.
  Variable parse : T -> V.
  Variable v0 : V.
  Hypothesis parse_print : forall v, parse (print v) = v.

  Notation tm := (tm V).

  Definition wstep (sf : tm * option (list T * list T)) (th : V * V) :=
    (fst (write_time V T print (set_td V (fst sf) th)),
     Some (snd (write_time V T print (set_td V (fst sf) th)))).

  Lemma run_writes_spec steps : forall (s : tm) f0,
    exported_times (fst (fold_left wstep steps (s, f0))) = exported_times s ++ map fst steps /\
    exported_dt (fst (fold_left wstep steps (s, f0))) = exported_dt s ++ map snd steps /\
    (steps <> [] ->
     snd (fold_left wstep steps (s, f0))
     = Some (map print (exported_times (fst (fold_left wstep steps (s, f0)))),
             map print (exported_dt (fst (fold_left wstep steps (s, f0)))))).
  Proof.
    induction steps as [|[t h] steps IH]; intros s f0; cbn [fold_left map].
    - rewrite !app_nil_r. repeat split; try reflexivity. intro H; contradiction.
    - destruct (IH (fst (wstep (s, f0) (t, h))) (snd (wstep (s, f0) (t, h)))) as (H1 & H2 & H3).
      rewrite <- surjective_pairing in H1, H2, H3.
      split; [rewrite H1; cbn; rewrite <- app_assoc; reflexivity|].
      split; [rewrite H2; cbn; rewrite <- app_assoc; reflexivity|].
      intros _. destruct steps as [|st steps]; [reflexivity|]. apply H3. discriminate.
  Qed.

  Lemma map_parse_print l : map parse (map print l) = l.
  Proof. rewrite map_map. rewrite <- (map_id l) at 2. apply map_ext. exact parse_print. Qed.

  (* the file left on disk after any non-empty run of writes, loaded by a fresh time
     manager, gives back the whole history *)
  Theorem time_roundtrip (steps : list (V * V)) (s0 s1 : tm) :
    steps <> [] -> exported_times s0 = [] -> exported_dt s0 = [] ->
    exists file,
      snd (run_writes V T print s0 steps) = Some file /\
      exported_times (load_time V T parse s1 file) = map fst steps /\
      exported_dt (load_time V T parse s1 file) = map snd steps.
  Proof.
    intros Hne H0 H0'. unfold run_writes. fold wstep.
    destruct (run_writes_spec steps s0 None) as (H1 & H2 & H3).
    rewrite H0 in H1. rewrite H0' in H2. cbn [app] in *.
    eexists. split; [apply H3; exact Hne|].
    cbn [load_time exported_times exported_dt fst snd].
    rewrite H1, H2, !map_parse_print. split; reflexivity.
  Qed.

  (* restoring at index i (python indexing, -1 = most recent) *)
  Theorem time_restore (s : tm) (i : Z) :
    length (exported_times s) = length (exported_dt s) ->
    (- Z.of_nat (length (exported_times s)) <= i < Z.of_nat (length (exported_times s)))%Z ->
    let k := if (0 <=? i)%Z then Z.to_nat i
             else Z.to_nat (Z.of_nat (length (exported_times s)) + i) in
    exists s',
      set_from_exported V v0 s i = Some s' /\
      time s' = nth k (exported_times s) v0 /\ dt s' = nth k (exported_dt s) v0 /\
      exported_times s' = firstn k (exported_times s) /\
      exported_dt s' = firstn k (exported_dt s).
  Proof.
    intros Hlen Hi. unfold set_from_exported, py_index, py_upto. rewrite <- Hlen.
    destruct (0 <=? i)%Z eqn:E.
    - apply Z.leb_le in E.
      replace (i <? Z.of_nat (length (exported_times s)))%Z with true
        by (symmetry; apply Z.ltb_lt; lia).
      eexists. split; [reflexivity|]. cbn [time dt exported_times exported_dt].
      repeat split; reflexivity.
    - apply Z.leb_gt in E.
      replace (0 <=? Z.of_nat (length (exported_times s)) + i)%Z with true
        by (symmetry; apply Z.leb_le; lia).
      eexists. split; [reflexivity|]. cbn [time dt exported_times exported_dt].
      try rewrite <- Hlen. repeat split; reflexivity.
  Qed.
End Time.
