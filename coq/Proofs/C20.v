(* C20 — proofs: rigid motions commute with the geometry formulas.  Generic over a
   commutative ring with Leibniz equality (reals, Qc, Z, ... ). *)
From Coq Require Import List ZArith Arith Lia Ring.
Import ListNotations.
From PP Require Import Model.C20.

Section GenericProofs.
  Variable F : Type.
  Variables (f0 f1 : F) (fadd fmul fsub : F -> F -> F) (fopp : F -> F).
  Hypothesis Fth : ring_theory f0 f1 fadd fmul fsub fopp eq.
  Add Ring Fring : Fth.

  Local Infix "+" := fadd.  Local Infix "*" := fmul.  Local Infix "-" := fsub.

  Notation vec := (vec F).
  Notation mat := (mat F).
  Notation vzero := (vzero F f0).
  Notation vadd := (vadd F fadd).
  Notation vsub := (vsub F fsub).
  Notation vscale := (vscale F fmul).
  Notation dot := (dot F fadd fmul).
  Notation cross := (cross F fmul fsub).
  Notation vsum := (vsum F f0 fadd).
  Notation ssum := (ssum F f0 fadd).
  Notation mapply := (mapply F fadd fmul).
  Notation col1 := (col1 F).  Notation col2 := (col2 F).  Notation col3 := (col3 F).
  Notation det := (det F fadd fmul fsub).
  Notation cof := (cof F fmul fsub).
  Notation motion := (motion F fadd fmul).

  Ltac vdestruct :=
    repeat match goal with
           | v : Model.C20.vec F |- _ => destruct v as [[? ?] ?]
           | M : Model.C20.mat F |- _ => destruct M as [[? ?] ?]
           end.
  Ltac vring :=
    intros; vdestruct;
    unfold Model.C20.motion, Model.C20.mapply, Model.C20.cof, Model.C20.det,
           Model.C20.cross, Model.C20.dot, Model.C20.vadd, Model.C20.vsub,
           Model.C20.vscale, Model.C20.vzero, Model.C20.col1, Model.C20.col2,
           Model.C20.col3, row1, row2, row3, mkv, vx, vy, vz; cbn [fst snd];
    match goal with
    | |- (_, _, _) = (_, _, _) => f_equal; [f_equal|]; ring
    | |- _ => ring
    end.

  (* ------------------------------------------------------------- linear algebra *)
  Lemma mapply_vadd : forall M (u v : vec), mapply M (vadd u v) = vadd (mapply M u) (mapply M v).
  Proof. vring. Qed.
  Lemma mapply_vsub : forall M (u v : vec), mapply M (vsub u v) = vsub (mapply M u) (mapply M v).
  Proof. vring. Qed.
  Lemma mapply_vscale : forall M k (u : vec), mapply M (vscale k u) = vscale k (mapply M u).
  Proof. vring. Qed.
  Lemma mapply_vzero : forall M, mapply M vzero = vzero.
  Proof. vring. Qed.
  Lemma vadd_zero_r : forall u : vec, vadd u vzero = u.
  Proof. vring. Qed.

  (* (M u) x (M v) = cof(M) (u x v), for EVERY matrix M *)
  Lemma cross_cof : forall (M : mat) (u v : vec),
      cross (mapply M u) (mapply M v) = mapply (cof M) (cross u v).
  Proof. vring. Qed.

  (* proper rotation: M^T M = I (columns orthonormal) and det M = 1 *)
  Definition is_rotation (M : mat) : Prop :=
    dot (col1 M) (col1 M) = f1 /\ dot (col2 M) (col2 M) = f1 /\ dot (col3 M) (col3 M) = f1 /\
    dot (col1 M) (col2 M) = f0 /\ dot (col1 M) (col3 M) = f0 /\ dot (col2 M) (col3 M) = f0 /\
    det M = f1.

  Lemma dot_expand : forall (M : mat) (u v : vec),
      dot (mapply M u) (mapply M v)
      = dot (col1 M) (col1 M) * (vx u * vx v) + dot (col2 M) (col2 M) * (vy u * vy v)
        + dot (col3 M) (col3 M) * (vz u * vz v)
        + dot (col1 M) (col2 M) * (vx u * vy v + vy u * vx v)
        + dot (col1 M) (col3 M) * (vx u * vz v + vz u * vx v)
        + dot (col2 M) (col3 M) * (vy u * vz v + vz u * vy v).
  Proof. vring. Qed.

  Lemma dot_rotation : forall (M : mat) (u v : vec),
      is_rotation M -> dot (mapply M u) (mapply M v) = dot u v.
  Proof.
    intros M u v (H11 & H22 & H33 & H12 & H13 & H23 & _).
    rewrite dot_expand, H11, H22, H33, H12, H13, H23. vring.
  Qed.

  (* cof(M) (M^T M) = det(M) M, row by row and column by column, for every matrix *)
  Lemma cof_gram_1 : forall (M : mat) (r : vec),
      mkv (dot r (mkv (dot (col1 M) (col1 M)) (dot (col1 M) (col2 M)) (dot (col1 M) (col3 M))))
          (dot r (mkv (dot (col1 M) (col2 M)) (dot (col2 M) (col2 M)) (dot (col2 M) (col3 M))))
          (dot r (mkv (dot (col1 M) (col3 M)) (dot (col2 M) (col3 M)) (dot (col3 M) (col3 M))))
      = mapply (col1 M, col2 M, col3 M) (vadd (vadd (vscale (vx r) (col1 M)) (vscale (vy r) (col2 M)))
                                               (vscale (vz r) (col3 M))).
  Proof. vring. Qed.

  Lemma cof_rows : forall (M : mat),
      (* the rows of cof(M) applied to the Gram matrix give det * rows of M *)
      let G1 := mkv (dot (col1 M) (col1 M)) (dot (col1 M) (col2 M)) (dot (col1 M) (col3 M)) in
      let G2 := mkv (dot (col1 M) (col2 M)) (dot (col2 M) (col2 M)) (dot (col2 M) (col3 M)) in
      let G3 := mkv (dot (col1 M) (col3 M)) (dot (col2 M) (col3 M)) (dot (col3 M) (col3 M)) in
      forall i : vec -> vec -> vec -> vec,
        True ->
        mkv (dot (row1 (cof M)) G1) (dot (row1 (cof M)) G2) (dot (row1 (cof M)) G3)
        = vscale (det M) (row1 M) /\
        mkv (dot (row2 (cof M)) G1) (dot (row2 (cof M)) G2) (dot (row2 (cof M)) G3)
        = vscale (det M) (row2 M) /\
        mkv (dot (row3 (cof M)) G1) (dot (row3 (cof M)) G2) (dot (row3 (cof M)) G3)
        = vscale (det M) (row3 M).
  Proof. intros M G1 G2 G3 i _. subst G1 G2 G3. repeat split; vring. Qed.

  Lemma cof_rotation : forall M : mat, is_rotation M -> cof M = M.
  Proof.
    intros M (H11 & H22 & H33 & H12 & H13 & H23 & Hd).
    destruct (cof_rows M (fun a _ _ => a) I) as (E1 & E2 & E3).
    rewrite H11, H22, H33, H12, H13, H23, Hd in E1, E2, E3.
    assert (U : forall r : vec,
               mkv (dot r (mkv f1 f0 f0)) (dot r (mkv f0 f1 f0)) (dot r (mkv f0 f0 f1)) = r)
      by vring.
    assert (V : forall r : vec, vscale f1 r = r) by vring.
    rewrite U, V in E1, E2, E3.
    destruct M as [[r1 r2] r3]. unfold Model.C20.cof in *. cbn [row1 row2 row3 fst snd] in *.
    rewrite E1, E2, E3. reflexivity.
  Qed.

  Lemma cross_rotation : forall (M : mat) (u v : vec),
      is_rotation M -> cross (mapply M u) (mapply M v) = mapply M (cross u v).
  Proof. intros M u v H. rewrite cross_cof, (cof_rotation M H). reflexivity. Qed.

  Lemma motion_sub : forall M t (p q : vec),
      vsub (motion M t p) (motion M t q) = mapply M (vsub p q).
  Proof. vring. Qed.
  Lemma motion_shift : forall M t (p v : vec),
      vadd (motion M t p) (mapply M v) = motion M t (vadd p v).
  Proof. vring. Qed.
  Lemma motion_comb : forall M t w1 w2 (p q : vec),
      w1 + w2 = f1 ->
      vadd (vscale w1 (motion M t p)) (vscale w2 (motion M t q))
      = motion M t (vadd (vscale w1 p) (vscale w2 q)).
  Proof.
    intros M t w1 w2 p q H.
    assert (E : vadd (vscale w1 (motion M t p)) (vscale w2 (motion M t q))
                = vadd (mapply M (vadd (vscale w1 p) (vscale w2 q))) (vscale (w1 + w2) t)) by vring.
    rewrite E, H. vring.
  Qed.

  (* ------------------------------------------------------------- expressions *)
  Notation sexp := (sexp F).  Notation vexp := (vexp F).  Notation pexp := (pexp F).
  Notation seval := (seval F fadd fmul fsub).
  Notation veval := (veval F fadd fmul fsub).
  Notation peval := (peval F fadd fmul fsub).

  (* affine combinations must have weights summing to one *)
  Fixpoint swf (e : sexp) : Prop :=
    match e with
    | SConst _ => True
    | SDot a b => vwf a /\ vwf b
    | SAdd a b | SMul a b | SFun2 _ a b => swf a /\ swf b
    | SFun1 _ a => swf a
    end
  with vwf (e : vexp) : Prop :=
    match e with
    | VDiff p q => pwf p /\ pwf q
    | VCross a b | VAdd a b => vwf a /\ vwf b
    | VScale s a => swf s /\ vwf a
    end
  with pwf (e : pexp) : Prop :=
    match e with
    | PNode _ => True
    | PShift p v => pwf p /\ vwf v
    | PComb w1 w2 p q => w1 + w2 = f1 /\ pwf p /\ pwf q
    end.

  Scheme sexp_mut := Induction for Model.C20.sexp Sort Prop
    with vexp_mut := Induction for Model.C20.vexp Sort Prop
    with pexp_mut := Induction for Model.C20.pexp Sort Prop.
  Combined Scheme exp_mutind from sexp_mut, vexp_mut, pexp_mut.

  Lemma expr_equivariant : forall (M : mat) (t : vec) (nodes : nat -> vec),
      is_rotation M ->
      let moved := fun i => motion M t (nodes i) in
      (forall e : sexp, swf e -> seval moved e = seval nodes e) /\
      (forall e : vexp, vwf e -> veval moved e = mapply M (veval nodes e)) /\
      (forall e : pexp, pwf e -> peval moved e = motion M t (peval nodes e)).
  Proof.
    intros M t nodes HR moved.
    apply (exp_mutind F
             (fun e => swf e -> seval moved e = seval nodes e)
             (fun e => vwf e -> veval moved e = mapply M (veval nodes e))
             (fun e => pwf e -> peval moved e = motion M t (peval nodes e))).
    - reflexivity.
    - intros a IHa b IHb.
      change (vwf a /\ vwf b -> dot (veval moved a) (veval moved b)
                               = dot (veval nodes a) (veval nodes b)).
      intros [Ha Hb]. rewrite IHa, IHb by assumption. apply dot_rotation; exact HR.
    - intros a IHa b IHb.
      change (swf a /\ swf b -> seval moved a + seval moved b = seval nodes a + seval nodes b).
      intros [Ha Hb]. rewrite IHa, IHb by assumption. reflexivity.
    - intros a IHa b IHb.
      change (swf a /\ swf b -> seval moved a * seval moved b = seval nodes a * seval nodes b).
      intros [Ha Hb]. rewrite IHa, IHb by assumption. reflexivity.
    - intros f a IHa.
      change (swf a -> f (seval moved a) = f (seval nodes a)).
      intros Ha. rewrite IHa by assumption. reflexivity.
    - intros f a IHa b IHb.
      change (swf a /\ swf b -> f (seval moved a) (seval moved b)
                               = f (seval nodes a) (seval nodes b)).
      intros [Ha Hb]. rewrite IHa, IHb by assumption. reflexivity.
    - intros p IHp q IHq.
      change (pwf p /\ pwf q -> vsub (peval moved p) (peval moved q)
                               = mapply M (vsub (peval nodes p) (peval nodes q))).
      intros [Hp Hq]. rewrite IHp, IHq by assumption. apply motion_sub.
    - intros a IHa b IHb.
      change (vwf a /\ vwf b -> cross (veval moved a) (veval moved b)
                               = mapply M (cross (veval nodes a) (veval nodes b))).
      intros [Ha Hb]. rewrite IHa, IHb by assumption. apply cross_rotation; exact HR.
    - intros s IHs a IHa.
      change (swf s /\ vwf a -> vscale (seval moved s) (veval moved a)
                               = mapply M (vscale (seval nodes s) (veval nodes a))).
      intros [Hs Ha]. rewrite IHs, IHa by assumption. symmetry. apply mapply_vscale.
    - intros a IHa b IHb.
      change (vwf a /\ vwf b -> vadd (veval moved a) (veval moved b)
                               = mapply M (vadd (veval nodes a) (veval nodes b))).
      intros [Ha Hb]. rewrite IHa, IHb by assumption. symmetry. apply mapply_vadd.
    - intros i _. reflexivity.
    - intros p IHp v IHv.
      change (pwf p /\ vwf v -> vadd (peval moved p) (veval moved v)
                               = motion M t (vadd (peval nodes p) (veval nodes v))).
      intros [Hp Hv]. rewrite IHp, IHv by assumption. apply motion_shift.
    - intros w1 w2 p IHp q IHq.
      change (w1 + w2 = f1 /\ pwf p /\ pwf q ->
              vadd (vscale w1 (peval moved p)) (vscale w2 (peval moved q))
              = motion M t (vadd (vscale w1 (peval nodes p)) (vscale w2 (peval nodes q)))).
      intros [Hw [Hp Hq]]. rewrite IHp, IHq by assumption.
      apply motion_comb; exact Hw.
  Qed.

  (* ------------------------------------------------------------- sums *)
  Lemma vsum_rot : forall M (l : list vec), vsum (map (mapply M) l) = mapply M (vsum l).
  Proof.
    intros M l. induction l as [|x l IH]; cbn [map Model.C20.vsum fold_right].
    - symmetry. apply mapply_vzero.
    - fold (vsum (map (mapply M) l)). fold (vsum l). rewrite IH. symmetry. apply mapply_vadd.
  Qed.

  Fixpoint natF (n : nat) : F := match n with O => f0 | S k => f1 + natF k end.

  Lemma vsum_motion : forall M t (l : list vec),
      vsum (map (motion M t) l) = vadd (mapply M (vsum l)) (vscale (natF (length l)) t).
  Proof.
    intros M t l. induction l as [|x l IH]; cbn [map Model.C20.vsum fold_right length natF].
    - vring.
    - fold (vsum (map (motion M t) l)). fold (vsum l). rewrite IH.
      generalize (vsum l) (natF (length l)). vring.
  Qed.

  Lemma mean_motion : forall M t w (l : list vec),
      w * natF (length l) = f1 ->
      vscale w (vsum (map (motion M t) l)) = motion M t (vscale w (vsum l)).
  Proof.
    intros M t w l H. rewrite vsum_motion.
    assert (E : forall (s : vec) k, vscale w (vadd (mapply M s) (vscale k t))
                                    = vadd (mapply M (vscale w s)) (vscale (w * k) t)) by vring.
    rewrite E, H. vring.
  Qed.

  (* ------------------------------------------------------------- 2-D formula set *)
  Variables (half third : F).
  Hypothesis half_ok : half + half = f1.
  Hypothesis third_ok : third + third + third = f1.

  Notation edge := (edge F).
  Notation tangent := (tangent F fsub).
  Notation fcenter := (fcenter F fadd fmul half).
  Notation temp_center := (temp_center F f0 fadd fmul half).
  Notation subnormal := (subnormal F fadd fmul fsub half).
  Notation cell_normal_sum := (cell_normal_sum F f0 fadd fmul fsub half).
  Notation fnormal := (fnormal F fmul fsub).
  Notation subvol := (subvol F fadd fmul fsub half).
  Notation cell_volume := (cell_volume F f0 fadd fmul fsub half).
  Notation cell_moment := (cell_moment F f0 fadd fmul fsub half third).
  Notation sub_normal3 := (sub_normal3 F fmul fsub half).
  Notation face_normal3 := (face_normal3 F f0 fadd fmul fsub half).

  Definition move_edge (M : mat) (t : vec) (e : edge) : edge :=
    (motion M t (e_a e), motion M t (e_b e), e_s e).

  Lemma tangent_move : forall M t e, tangent (move_edge M t e) = mapply M (tangent e).
  Proof. intros M t [[a b] s]. unfold Model.C20.tangent, move_edge. cbn [e_a e_b fst snd]. apply motion_sub. Qed.

  Lemma fcenter_move : forall M t e, fcenter (move_edge M t e) = motion M t (fcenter e).
  Proof.
    intros M t [[a b] s]. unfold Model.C20.fcenter, move_edge. cbn [e_a e_b fst snd].
    assert (E : forall p q : vec, vscale half (vadd p q) = vadd (vscale half p) (vscale half q)) by vring.
    rewrite !E. apply motion_comb. exact half_ok.
  Qed.

  Lemma temp_center_move : forall M t w (es : list edge),
      w * natF (length es) = f1 ->
      temp_center w (map (move_edge M t) es) = motion M t (temp_center w es).
  Proof.
    intros M t w es H. unfold Model.C20.temp_center.
    rewrite map_map.
    rewrite (map_ext (fun e => fcenter (move_edge M t e)) (fun e => motion M t (fcenter e)))
      by (intros; apply fcenter_move).
    rewrite <- (map_map fcenter (motion M t)).
    apply mean_motion. rewrite map_length. exact H.
  Qed.

  Lemma subnormal_move : forall M t tc e,
      is_rotation M ->
      subnormal (motion M t tc) (move_edge M t e) = mapply M (subnormal tc e).
  Proof.
    intros M t tc e HR. unfold Model.C20.subnormal.
    rewrite fcenter_move, tangent_move, motion_sub.
    replace (e_s (move_edge M t e)) with (e_s e) by (destruct e as [[? ?] ?]; reflexivity).
    rewrite <- mapply_vscale, (cross_rotation M _ _ HR), <- mapply_vscale. reflexivity.
  Qed.

  Lemma cell_normal_sum_move : forall M t w (es : list edge),
      is_rotation M -> w * natF (length es) = f1 ->
      cell_normal_sum w (map (move_edge M t) es) = mapply M (cell_normal_sum w es).
  Proof.
    intros M t w es HR H. unfold Model.C20.cell_normal_sum.
    fold (temp_center w (map (move_edge M t) es)). fold (temp_center w es).
    rewrite (temp_center_move M t w es H), map_map.
    rewrite (map_ext (fun e => subnormal (motion M t (temp_center w es)) (move_edge M t e))
                     (fun e => mapply M (subnormal (temp_center w es) e)))
      by (intros; apply subnormal_move; exact HR).
    rewrite <- (map_map (subnormal (temp_center w es)) (mapply M)). apply vsum_rot.
  Qed.

  Lemma fnormal_move : forall M t n e,
      is_rotation M -> fnormal (mapply M n) (move_edge M t e) = mapply M (fnormal n e).
  Proof.
    intros M t n e HR. unfold Model.C20.fnormal. rewrite tangent_move.
    apply cross_rotation; exact HR.
  Qed.

  Lemma subvol_move : forall M t n tc e,
      is_rotation M ->
      subvol (mapply M n) (motion M t tc) (move_edge M t e) = subvol n tc e.
  Proof.
    intros M t n tc e HR. unfold Model.C20.subvol.
    fold (subnormal (motion M t tc) (move_edge M t e)). fold (subnormal tc e).
    rewrite (subnormal_move M t tc e HR). apply dot_rotation; exact HR.
  Qed.

  Lemma cell_volume_move : forall M t n w (es : list edge),
      is_rotation M -> w * natF (length es) = f1 ->
      cell_volume (mapply M n) w (map (move_edge M t) es) = cell_volume n w es.
  Proof.
    intros M t n w es HR H. unfold Model.C20.cell_volume.
    fold (temp_center w (map (move_edge M t) es)). fold (temp_center w es).
    rewrite (temp_center_move M t w es H), map_map. f_equal.
    apply map_ext. intros e.
    fold (subvol (mapply M n) (motion M t (temp_center w es)) (move_edge M t e)).
    fold (subvol n (temp_center w es) e). apply subvol_move; exact HR.
  Qed.

  Lemma weighted_motion_sum : forall M t (l : list (F * vec)),
      vsum (map (fun x => vscale (fst x) (motion M t (snd x))) l)
      = vadd (mapply M (vsum (map (fun x => vscale (fst x) (snd x)) l)))
             (vscale (ssum (map fst l)) t).
  Proof.
    intros M t l. induction l as [|[k p] l IH];
      cbn [map Model.C20.vsum Model.C20.ssum fold_right fst snd].
    - vring.
    - fold (vsum (map (fun x => vscale (fst x) (motion M t (snd x))) l)).
      fold (vsum (map (fun x => vscale (fst x) (snd x)) l)). fold (ssum (map fst l)).
      rewrite IH. generalize (vsum (map (fun x => vscale (fst x) (snd x)) l)) (ssum (map fst l)).
      vring.
  Qed.

  (* the centroid numerator moves like (volume-weighted) points *)
  Lemma cell_moment_move : forall M t n w (es : list edge),
      is_rotation M -> w * natF (length es) = f1 ->
      cell_moment (mapply M n) w (map (move_edge M t) es)
      = vadd (mapply M (cell_moment n w es)) (vscale (cell_volume n w es) t).
  Proof.
    intros M t n w es HR H. unfold Model.C20.cell_moment, Model.C20.cell_volume.
    fold (temp_center w (map (move_edge M t) es)). fold (temp_center w es).
    rewrite (temp_center_move M t w es H).
    set (tc := temp_center w es).
    set (pt := fun e : edge => vscale third (vadd tc (vadd (fcenter e) (fcenter e)))).
    rewrite map_map.
    rewrite (map_ext
               (fun e => vscale (Model.C20.subvol F fadd fmul fsub half (mapply M n) (motion M t tc)
                                                 (move_edge M t e))
                           (vscale third (vadd (motion M t tc)
                                               (vadd (fcenter (move_edge M t e))
                                                     (fcenter (move_edge M t e))))))
               (fun e => vscale (subvol n tc e) (motion M t (pt e)))).
    2:{ intros e. fold (subvol (mapply M n) (motion M t tc) (move_edge M t e)).
        rewrite (subvol_move M t n tc e HR), fcenter_move. f_equal. unfold pt.
        assert (E : forall a b : vec,
                   vscale third (vadd (motion M t a) (vadd (motion M t b) (motion M t b)))
                   = vadd (mapply M (vscale third (vadd a (vadd b b))))
                          (vscale (third + third + third) t)) by vring.
        rewrite E, third_ok. vring. }
    rewrite <- (map_map (fun e => (subvol n tc e, pt e))
                        (fun x => vscale (fst x) (motion M t (snd x)))).
    rewrite weighted_motion_sum, !map_map. cbn [fst snd]. reflexivity.
  Qed.

  (* hence the centroid itself moves with the grid, for ANY reciprocal r of the volume *)
  Lemma cell_center_move : forall M t n w (es : list edge) (r : F),
      is_rotation M -> w * natF (length es) = f1 -> r * cell_volume n w es = f1 ->
      vscale r (cell_moment (mapply M n) w (map (move_edge M t) es))
      = motion M t (vscale r (cell_moment n w es)).
  Proof.
    intros M t n w es r HR H Hr. rewrite (cell_moment_move M t n w es HR H).
    assert (E : forall (m : vec) v, vscale r (vadd (mapply M m) (vscale v t))
                                    = vadd (mapply M (vscale r m)) (vscale (r * v) t)) by vring.
    rewrite E, Hr. vring.
  Qed.

  (* ------------------------------------------------------------- 3-D face normals *)
  Definition move_pair (M : mat) (t : vec) (ab : vec * vec) : vec * vec :=
    (motion M t (fst ab), motion M t (snd ab)).

  Lemma sub_normal3_move : forall M t c ab,
      is_rotation M ->
      sub_normal3 (motion M t c) (move_pair M t ab) = mapply M (sub_normal3 c ab).
  Proof.
    intros M t c [a b] HR. unfold Model.C20.sub_normal3, move_pair. cbn [fst snd].
    rewrite !motion_sub, (cross_rotation M _ _ HR), <- mapply_vscale. reflexivity.
  Qed.

  Lemma face_normal3_move : forall M t w (loop : list (vec * vec)),
      is_rotation M -> w * natF (length loop) = f1 ->
      face_normal3 w (map (move_pair M t) loop) = mapply M (face_normal3 w loop).
  Proof.
    intros M t w loop HR H. unfold Model.C20.face_normal3. cbv zeta.
    rewrite !map_map. cbn [move_pair fst].
    rewrite <- (map_map fst (motion M t)).
    rewrite (mean_motion M t w (map fst loop)) by (rewrite map_length; exact H).
    rewrite (map_ext (fun x => sub_normal3 (motion M t (vscale w (vsum (map fst loop))))
                                           (move_pair M t x))
                     (fun x => mapply M (sub_normal3 (vscale w (vsum (map fst loop))) x)))
      by (intros; apply sub_normal3_move; exact HR).
    rewrite <- (map_map (sub_normal3 (vscale w (vsum (map fst loop)))) (mapply M)).
    apply vsum_rot.
  Qed.
End GenericProofs.
