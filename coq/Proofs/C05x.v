(* C05 — proofs about the extended model PP.Model.C05x. *)
From Coq Require Import List ZArith Bool Arith Lia Sorted Permutation.
Import ListNotations.
From PP Require Import Model.C05 Proofs.C05 Proofs.C05b Model.C05x.

(* ------------------------------------------------------------------------------------ *)
(* the operations on parsed ids are the base operations *)
Lemma set_values_ids_eq s r values w additive :
  set_values s r values w additive = set_values_ids s (parse s r) values w additive.
Proof. reflexivity. Qed.

Lemma get_values_ids_eq s r l : get_values s r l = get_values_ids s (parse s r) l.
Proof. reflexivity. Qed.

Lemma dofs_ids_eq s r : dofs_out s r = dofs_ids s (parse s r).
Proof. reflexivity. Qed.

Lemma projection_ids_eq s r : projection_to s r = projection_ids s (truthy r) (parse s r).
Proof. reflexivity. Qed.

(* ------------------------------------------------------------------------------------ *)
(* write/read round trip for ANY id list (whatever produced it: objects, names, md-variables,
   md_variable(), get_variables(), stale or repeated ids) *)
Definition need_ids (s : st) (ids : list nat) : nat :=
  length (concat (map (block_of s) (filter (fun id => memb id ids) (block_ids s)))).

Lemma need_ids_total g s ids : Inv g s -> need_ids s ids = total g ids (order g (vars s)).
Proof.
  intro HI. unfold need_ids, total, selv.
  rewrite (block_ids_order g s HI), filter_map, length_concat', !map_map.
  f_equal. apply map_ext_in. intros v Hv. apply filter_In in Hv. destruct Hv as [Hv _].
  apply in_order in Hv. destruct (layout g s HI) as [_ [_ [_ [_ [_ [_ H]]]]]].
  apply H. tauto.
Qed.

Lemma set_get_ids g s ids xs w :
  Inv g s -> NoDup (map vkey (vars s)) ->
  exists sto',
    set_values_ids s ids xs w false =
      (with_store s sto', if Nat.eqb (need_ids s ids) (length xs) then ODone else OErr AssertErr) /\
    forall l, In l (wlocs w) ->
      get_values_ids (with_store s sto') ids l = OVals (slice xs 0 (need_ids s ids)).
Proof.
  intros HI Hk.
  assert (Hnd : NoDup (map vkey (selv ids (order g (vars s))))).
  { unfold selv. apply NoDup_map_filter. apply order_keys_NoDup; auto. }
  destruct (set_get_loop g s ids xs w _ _ (items_rel g s HI) 0 (store s) Hnd)
    as [sto' [E [G _]]].
  exists sto'. unfold set_values_ids. rewrite E. cbn [Nat.add].
  rewrite (need_ids_total g s ids HI). split; auto.
  intros l Hl. unfold get_values_ids.
  change (numbers (with_store s sto')) with (numbers s).
  rewrite (G l Hl). reflexivity.
Qed.

(* ------------------------------------------------------------------------------------ *)
(* update_variable_num_dofs *)
Lemma set_nth_length : forall l k x, length (set_nth l k x) = length l.
Proof. induction l as [|y r IH]; intros [|k] x; cbn; auto. Qed.

Lemma set_nth_same : forall l k x, k < length l -> nth_error (set_nth l k x) k = Some x.
Proof.
  induction l as [|y r IH]; intros [|k] x H; cbn in *; try lia.
  - reflexivity.
  - apply IH. lia.
Qed.

Lemma set_nth_other : forall l k k' x, k' <> k -> nth_error (set_nth l k x) k' = nth_error l k'.
Proof.
  induction l as [|y r IH]; intros [|k] [|k'] x H; cbn; try reflexivity; try lia.
  apply IH. lia.
Qed.

Lemma update_loop_ok g nums : forall vs szs,
  (forall v, In v vs -> exists k, lookup nums (vid v) = Some k /\ k < length szs) ->
  exists szs', update_loop g vs nums szs = (szs', None) /\ length szs' = length szs /\
    (forall k, (forall v, In v vs -> lookup nums (vid v) <> Some k) ->
               nth_error szs' k = nth_error szs k) /\
    (NoDup (map (fun v => lookup nums (vid v)) vs) ->
     forall v k, In v vs -> lookup nums (vid v) = Some k ->
                 nth_error szs' k = Some (ndof g (vdom v) (vdof v))).
Proof.
  induction vs as [|v r IH]; intros szs H.
  - exists szs. cbn. repeat split; auto. intros _ v k [].
  - destruct (H v (or_introl eq_refl)) as [k [Hk Hlt]]. cbn [update_loop]. rewrite Hk.
    apply Nat.ltb_lt in Hlt. rewrite Hlt. apply Nat.ltb_lt in Hlt.
    set (x := ndof g (vdom v) (vdof v)).
    destruct (IH (set_nth szs k x)) as [szs' [E [Hl [HA HB]]]].
    { intros w Hw. destruct (H w (or_intror Hw)) as [kw [H1 H2]]. exists kw.
      rewrite set_nth_length. auto. }
    exists szs'. split; auto. split; [rewrite Hl; apply set_nth_length|]. split.
    + intros k' Hk'. rewrite HA by (intros w Hw; apply Hk'; right; auto).
      apply set_nth_other. intro Ek. subst k'. apply (Hk' v (or_introl eq_refl)). auto.
    + intros Hnd w kw [Ew|Hw] Hkw.
      * subst w. rewrite Hk in Hkw. inversion Hkw; subst kw.
        inversion Hnd as [|? ? Hn Hnd']; subst.
        rewrite HA.
        -- apply set_nth_same. auto.
        -- intros u Hu Eu. apply Hn. rewrite Hk, <- Eu. apply in_map_iff. exists u. auto.
      * inversion Hnd as [|? ? Hn Hnd']; subst. apply HB; auto.
Qed.

(* the md-grid keeps its lists of subdomains and interfaces, only their sizes change *)
Definition same_shape (g g' : mdgrid) : Prop :=
  length (sds g) = length (sds g') /\ length (intfs g) = length (intfs g').

Lemma order_same_shape g g' vs : same_shape g g' -> order g' vs = order g vs.
Proof. intros [H1 H2]. unfold order, grid_order. rewrite H1, H2. reflexivity. Qed.

Lemma update_Inv g g' s :
  Inv g s -> same_shape g g' ->
  exists s', update_num_dofs g' s = (s', ODone) /\ Inv g' s' /\
             vars s' = vars s /\ numbers s' = numbers s /\ store s' = store s /\
             next_id s' = next_id s.
Proof.
  intros HI Hsh. pose proof HI as [[Hn Hs] Hd Hso Hnx].
  assert (Hlen : length (sizes s) = length (order g (vars s))) by (apply (sizes_length g); auto).
  destruct (update_loop_ok g' (numbers s) (vars s) (sizes s)) as [szs' [E [Hl [HA HB]]]].
  { intros v Hv. destruct (order_nth g s v HI Hv) as [k [H1 [H2 H3]]]. exists k. split; auto.
    apply nth_error_Some. congruence. }
  unfold update_num_dofs. rewrite E. eexists. split; [reflexivity|].
  split; [|cbn; auto].
  assert (Hnd : NoDup (map (fun v => lookup (numbers s) (vid v)) (vars s))).
  { apply NoDup_map_of_inj; [apply (NoDup_map_inv vid); apply SS_lt_NoDup; auto|].
    intros a b Ha Hb Eab.
    destruct (order_nth g s a HI Ha) as [ka [Ha1 [Ha2 _]]].
    destruct (order_nth g s b HI Hb) as [kb [Hb1 [Hb2 _]]].
    rewrite Ha2, Hb2 in Eab. inversion Eab; subst kb. congruence. }
  constructor; cbn [vars numbers sizes next_id store]; auto.
  - unfold clustered. cbn [vars numbers sizes]. rewrite (order_same_shape g g' _ Hsh).
    split; auto. apply nth_error_ext. intro k.
    destruct (nth_error (order g (vars s)) k) as [v|] eqn:Hk.
    + rewrite (map_nth_error _ k _ Hk).
      assert (Hv : In v (vars s)).
      { apply nth_error_In in Hk. apply in_order in Hk. tauto. }
      destruct (order_nth g s v HI Hv) as [k' [H1 [H2 _]]].
      assert (k' = k).
      { pose proof (order_NoDup_ids g (vars s) Hso) as Hndi.
        apply (proj1 (NoDup_nth_error _) Hndi).
        - apply nth_error_Some. rewrite (map_nth_error vid k' _ H1). discriminate.
        - rewrite (map_nth_error vid k' _ H1), (map_nth_error vid k _ Hk). reflexivity. }
      subst k'. apply (HB Hnd v k Hv H2).
    + apply nth_error_None in Hk. rewrite (proj2 (nth_error_None _ _)).
      * symmetry. apply nth_error_None. rewrite map_length. auto.
      * rewrite Hl, Hlen. auto.
  - eapply Forall_impl; [|exact Hd]. intros v Hv. destruct Hsh as [H1 H2].
    unfold dom_ok in *. destruct (vdom v); lia.
Qed.

(* ------------------------------------------------------------------------------------ *)
(* x-histories in which every change of the grid sizes is followed by
   update_variable_num_dofs: the layout invariant holds w.r.t. the CURRENT grid sizes *)
Definition xwf (g : mdgrid) (o : xop) : Prop :=
  match o with
  | XBase o => wf_op g o
  | XRegrid _ => False
  | _ => True
  end.

Inductive synced : mdgrid -> list xop -> Prop :=
| synced_nil g : synced g []
| synced_op g o r : xwf g o -> synced g r -> synced g (o :: r)
| synced_regrid g g' r : same_shape g g' -> synced g' r ->
                         synced g (XRegrid g' :: XUpdate :: r).

Definition XInv (x : xst) : Prop := Inv2 (xg x) (xs x).

Lemma wf_op_same_shape g g' o : same_shape g g' -> wf_op g o -> wf_op g' o.
Proof. intros [H1 H2]. destruct o; cbn; auto. rewrite H1, H2. auto. Qed.

Lemma xstep_XInv x o : xwf (xg x) o -> XInv x ->
  XInv (fst (xstep x o)) /\ xg (fst (xstep x o)) = xg x.
Proof.
  intros Hw [HI Hk]. unfold XInv. destruct o; cbn [xstep xwf] in *.
  - destruct (step (xg x) (xs x) o) as [s' r] eqn:E. cbn.
    replace s' with (fst (step (xg x) (xs x) o)) by (rewrite E; reflexivity).
    split; auto. apply step_Inv2_wf; auto. split; auto.
  - destruct (xparse x r) as [[t ids]|e]; [|cbn; split; auto; split; auto].
    destruct (remove_loop (xg x) (xs x) ids) as [s' r'] eqn:E. cbn.
    replace s' with (fst (remove_loop (xg x) (xs x) ids)) by (rewrite E; reflexivity).
    split; auto. split; [apply remove_loop_Inv; auto|apply remove_loop_keys; auto].
  - destruct (xparse x r) as [[t ids]|e]; [|cbn; split; auto; split; auto].
    unfold set_values_ids.
    destruct (set_loop (xs x) (numbers (xs x)) ids values w additive 0 0 (store (xs x)))
      as [[sto de] [e|]]; cbn; (split; auto; split; [apply with_store_Inv; auto|exact Hk]).
  - destruct (xparse x r) as [[t ids]|e]; cbn; split; auto; split; auto.
  - destruct (xparse x r) as [[t ids]|e]; cbn; split; auto; split; auto.
  - destruct (xparse x r) as [[t ids]|e]; cbn; split; auto; split; auto.
  - cbn. split; auto. split; auto.
  - contradiction.
  - destruct (update_Inv (xg x) (xg x) (xs x) HI (conj eq_refl eq_refl))
      as [s' [E [HI' [Hv _]]]]. rewrite E. cbn [fst with_xs xg xs].
    split; [|reflexivity]. split; [exact HI'|].
    change (NoDup (map vkey (vars s'))). rewrite Hv. exact Hk.
Qed.

Lemma xrun_cons x o r : fst (xrun x (o :: r)) = fst (xrun (fst (xstep x o)) r).
Proof.
  cbn [xrun]. destruct (xstep x o) as [x' y]. cbn [fst].
  destruct (xrun x' r) as [x'' ys]. reflexivity.
Qed.

Lemma xrun_XInv : forall g ops, synced g ops -> forall x, xg x = g -> XInv x ->
  XInv (fst (xrun x ops)).
Proof.
  induction 1 as [g|g o r Hw Hs IH|g g' r Hsh Hs IH]; intros x Hg HX.
  - exact HX.
  - rewrite xrun_cons. subst g. destruct (xstep_XInv x o Hw HX) as [H1 H2]. apply IH; auto.
  - rewrite !xrun_cons. subst g. cbn [xstep fst].
    destruct HX as [HI Hk].
    destruct (update_Inv (xg x) g' (xs x) HI Hsh) as [s' [E [HI' [Hv _]]]].
    cbn [xg xs]. rewrite E. cbn [fst]. apply IH; [reflexivity|].
    split; cbn [xg xs with_xs]; [exact HI'|]. rewrite Hv. exact Hk.
Qed.

Theorem xfinal_Inv g ops : synced g ops ->
  let x := fst (xrun (xinit g) ops) in Inv (xg x) (xs x) /\ NoDup (map vkey (vars (xs x))).
Proof.
  intro H. apply (xrun_XInv g ops H (xinit g) eq_refl).
  split; [apply Inv_init|constructor].
Qed.

(* ------------------------------------------------------------------------------------ *)
(* statements *)
Definition layout_ok (g : mdgrid) (s : st) : Prop :=
  exists ord : list var,
    block_ids s = map vid ord /\
    map snd (numbers s) = seq 0 (length (numbers s)) /\
    (forall v, In v ord <-> In v (vars s)) /\
    NoDup (block_ids s) /\
    StronglySorted (lexlt g) ord /\
    StronglySorted lt (map vid (vars s)) /\
    concat (map (block_of s) (block_ids s)) = seq 0 (num_dofs s) /\
    (forall v, In v (vars s) ->
       find_var s (vid v) = Some v /\ length (block_of s (vid v)) = ndofv g v).

Lemma Inv_layout_ok g s : Inv g s -> layout_ok g s.
Proof.
  intro HI. destruct (layout g s HI) as [H1 [H2 [H3 [H4 [H5 [H6 H7]]]]]].
  exists (order g (vars s)).
  split; [exact H1|]. split; [exact H2|]. split; [exact H3|]. split; [exact H4|].
  split; [exact H5|]. split; [apply HI|]. split; [exact H6|exact H7].
Qed.

Lemma thm_update g g' ops :
  Forall (wf_op g) ops -> same_shape g g' ->
  let s := final g ops in
  exists s', update_num_dofs g' s = (s', ODone) /\
             vars s' = vars s /\ numbers s' = numbers s /\ store s' = store s /\
             layout_ok g' s'.
Proof.
  intros Hw Hsh s. destruct (update_Inv g g' s (final_Inv g ops Hw) Hsh)
    as [s' [E [HI [H1 [H2 [H3 _]]]]]].
  exists s'. repeat split; auto. apply Inv_layout_ok. auto.
Qed.

Lemma thm_xlayout g ops :
  synced g ops ->
  let x := fst (xrun (xinit g) ops) in
  layout_ok (xg x) (xs x) /\
  (forall i, i < num_dofs (xs x) ->
     exists v, In v (vars (xs x)) /\ identify_dof (xs x) (Z.of_nat i) = OVarId (vid v) /\
               In i (block_of (xs x) (vid v))).
Proof.
  intros H x. destruct (xfinal_Inv g ops H) as [HI _]. split.
  - apply Inv_layout_ok. exact HI.
  - intros i Hi. apply (identify_ok (xg x)); auto.
Qed.

Lemma thm_set_get_ids g ops ids xs w :
  synced g ops ->
  let s := C05x.xs (fst (xrun (xinit g) ops)) in
  length xs = need_ids s ids ->
  exists s', set_values_ids s ids xs w false = (s', ODone) /\
    vars s' = vars s /\ numbers s' = numbers s /\ sizes s' = sizes s /\
    forall l, In l (wlocs w) -> get_values_ids s' ids l = OVals xs.
Proof.
  intros H s Hlen. destruct (xfinal_Inv g ops H) as [HI Hk].
  destruct (set_get_ids _ s ids xs w HI Hk) as [sto' [E G]].
  exists (with_store s sto'). rewrite E, <- Hlen, Nat.eqb_refl. repeat split; auto.
  intros l Hl. rewrite (G l Hl), <- Hlen, slice_all. reflexivity.
Qed.
