(* C34 — proofs about the transcribed uniquify_point_set. *)
From Coq Require Import List ZArith Bool Arith Lia Permutation.
Import ListNotations.
From PP Require Import Model.C34.

Local Open Scope Z_scope.

(* ---------- Cauchy-Schwarz and the reverse triangle inequality, squared form ---------- *)
Fixpoint dot (a b : pt) : Z :=
  match a, b with x :: r, y :: s => x * y + dot r s | _, _ => 0 end.

Lemma norm2_nonneg a : 0 <= norm2 a.
Proof. induction a as [|x r IH]; cbn [norm2]; [lia|]. pose proof (Z.square_nonneg x). lia. Qed.

Lemma dist2_nonneg a : forall b, 0 <= dist2 a b.
Proof.
  induction a as [|x r IH]; intros [|y s]; cbn [dist2]; try lia. specialize (IH s).
  pose proof (Z.square_nonneg (x - y)). lia.
Qed.

Lemma dist2_sym a : forall b, dist2 a b = dist2 b a.
Proof. induction a as [|x r IH]; intros [|y s]; cbn [dist2]; try lia. rewrite (IH s). ring. Qed.

Lemma dist2_refl a : dist2 a a = 0.
Proof. induction a as [|x r IH]; cbn [dist2]; [reflexivity|]. rewrite IH. ring. Qed.

Lemma dist2_expand a : forall b, length a = length b ->
  dist2 a b = norm2 a + norm2 b - 2 * dot a b.
Proof.
  induction a as [|x r IH]; intros [|y s] H; cbn [length] in H; try discriminate;
    cbn [dist2 norm2 dot]; [reflexivity|]. rewrite (IH s) by lia. ring.
Qed.

Lemma cs_step x y s X Y :
  0 <= X -> 0 <= Y -> s * s <= X * Y ->
  (x * y + s) * (x * y + s) <= (x * x + X) * (y * y + Y).
Proof.
  intros HX HY Hs.
  assert (H : 2 * (x * y * s) <= x * x * Y + y * y * X).
  { destruct (Z.eq_dec Y 0) as [E|E].
    - subst Y. rewrite Z.mul_0_r in Hs. assert (s = 0) by nia. subst s.
      assert (0 <= y * y * X) by (apply Z.mul_nonneg_nonneg; [apply Z.square_nonneg|assumption]).
      rewrite !Z.mul_0_r. lia.
    - assert (HYp : 0 < Y) by lia.
      assert (H1 : 0 <= (x * Y - y * s) * (x * Y - y * s)) by apply Z.square_nonneg.
      assert (H2 : 0 <= y * y * (X * Y - s * s))
        by (apply Z.mul_nonneg_nonneg; [apply Z.square_nonneg|lia]).
      assert (H3 : 0 <= Y * (x * x * Y + y * y * X - 2 * (x * y * s))).
      { replace (Y * (x * x * Y + y * y * X - 2 * (x * y * s)))
          with ((x * Y - y * s) * (x * Y - y * s) + y * y * (X * Y - s * s)) by ring. lia. }
      apply (proj1 (Z.mul_nonneg_cancel_l _ _ HYp)) in H3. lia. }
  replace ((x * y + s) * (x * y + s)) with (x * x * (y * y) + 2 * (x * y * s) + s * s) by ring.
  replace ((x * x + X) * (y * y + Y)) with (x * x * (y * y) + (x * x * Y + y * y * X) + X * Y) by ring.
  lia.
Qed.

Lemma cauchy_schwarz a : forall b, dot a b * dot a b <= norm2 a * norm2 b.
Proof.
  induction a as [|x r IH]; intros [|y s]; cbn [dot norm2].
  - lia.
  - lia.
  - rewrite Z.mul_0_r. lia.
  - apply cs_step; [apply norm2_nonneg|apply norm2_nonneg|apply IH].
Qed.

(* two points on different sides of a norm-cluster boundary are at least t apart:
   | |x| - |y| | <= |x - y|, without square roots *)
Lemma break_separates t s1 s2 x y :
  0 <= t -> length x = length y -> brk t s1 s2 = true ->
  norm2 x <= s1 -> s2 <= norm2 y -> t * t <= dist2 x y.
Proof.
  intros Ht Hlen Hb Hx Hy. unfold brk in Hb. apply andb_true_iff in Hb.
  destruct Hb as [HL HL2]. apply Z.ltb_lt in HL, HL2.
  rewrite (dist2_expand x y Hlen).
  pose proof (cauchy_schwarz x y) as CS. pose proof (norm2_nonneg x) as Hx0.
  set (sx := norm2 x) in *. set (sy := norm2 y) in *. set (p := dot x y) in *.
  destruct (Z_lt_le_dec (sx + sy - 2 * p) (t * t)) as [Hlt|Hge]; [exfalso|exact Hge].
  set (L := s2 - s1 - t * t) in *. set (L' := sy - sx - t * t).
  assert (HL' : L <= L') by (unfold L, L'; lia).
  assert (Hp : L' + 2 * sx < 2 * p) by (unfold L'; lia).
  assert (Hp2 : (L' + 2 * sx) * (L' + 2 * sx) < 4 * (p * p)) by nia.
  assert (Hsy : sy = L' + sx + t * t) by (unfold L'; lia).
  assert (H4 : L' * L' < 4 * sx * (t * t)).
  { assert (4 * (p * p) <= 4 * (sx * sy)) by lia. rewrite Hsy in H. nia. }
  assert (H5 : L * L <= L' * L') by nia.
  assert (H6 : 4 * sx * (t * t) <= 4 * (t * t) * s1) by nia.
  lia.
Qed.

(* ---------- the norm clustering ---------- *)
Section Clustering.
  Variable t : Z.
  Variable key : nat -> Z.

  Lemma groups_nonempty c : forall l cn, groups c t key cn l <> [].
  Proof.
    induction l as [|x r IH]; intros cn; cbn [groups]; [discriminate|].
    destruct (brk t cn (key x)).
    - destruct (groups c t key (key x) r) eqn:E; [exfalso; exact (IH _ E)|discriminate].
    - destruct (groups c t key (if c then key x else cn) r) eqn:E;
        [exfalso; exact (IH _ E)|discriminate].
  Qed.

  (* the clusters are consecutive slices of the sorted index vector *)
  Lemma groups_concat c : forall l cn, concat (groups c t key cn l) = l.
  Proof.
    induction l as [|x r IH]; intros cn; cbn [groups]; [reflexivity|].
    destruct (brk t cn (key x)).
    - specialize (IH (key x)). destruct (groups c t key (key x) r) eqn:E.
      + exfalso. exact (groups_nonempty c r _ E).
      + cbn [concat app] in *. rewrite IH. reflexivity.
    - specialize (IH (if c then key x else cn)).
      destruct (groups c t key (if c then key x else cn) r) eqn:E.
      + exfalso. exact (groups_nonempty c r _ E).
      + cbn [concat app] in *. rewrite IH. reflexivity.
  Qed.

  Lemma groups_true_step cn x r :
    exists g' gs', groups true t key (key x) r = g' :: gs' /\
                   groups true t key cn (x :: r)
                   = if brk t cn (key x) then [] :: (x :: g') :: gs' else (x :: g') :: gs'.
  Proof.
    cbn [groups]. destruct (groups true t key (key x) r) as [|g' gs'] eqn:E.
    - exfalso. exact (groups_nonempty true r _ E).
    - exists g', gs'. split; [reflexivity|]. destruct (brk t cn (key x)); reflexivity.
  Qed.

  Fixpoint sorted_from (cn : Z) (l : list nat) : Prop :=
    match l with [] => True | x :: r => cn <= key x /\ sorted_from (key x) r end.

  Lemma sorted_from_le : forall l cn j, sorted_from cn l -> In j l -> cn <= key j.
  Proof.
    induction l as [|x r IH]; intros cn j Hs Hj; [contradiction|].
    destruct Hs as [Hx Hr]. destruct Hj as [<-|Hj]; [exact Hx|].
    specialize (IH _ _ Hr Hj). lia.
  Qed.

  (* cl = "closer than tol" on indices; all that is used: a norm boundary separates *)
  Variable cl : nat -> nat -> Prop.
  Hypothesis cl_sym : forall i j, cl i j -> cl j i.
  Hypothesis cl_break :
    forall i j a b, brk t a b = true -> key i <= a -> b <= key j -> ~ cl i j.

  (* chained clustering: everything after the head cluster lies beyond a boundary *)
  Lemma chained_boundary : forall l cn, sorted_from cn l ->
      forall g gs, groups true t key cn l = g :: gs ->
      forall j, In j (concat gs) -> exists a b, brk t a b = true /\ cn <= a /\ b <= key j.
  Proof.
    induction l as [|x r IH]; intros cn Hs g gs Hg j Hj.
    - cbn in Hg. injection Hg as <- <-. contradiction.
    - destruct Hs as [Hx Hr].
      destruct (groups_true_step cn x r) as [g' [gs' [Er El]]]. rewrite El in Hg.
      destruct (brk t cn (key x)) eqn:Eb.
      + injection Hg as <- <-. exists cn, (key x). split; [exact Eb|]. split; [lia|].
        assert (Hcat : g' ++ concat gs' = r)
          by (rewrite <- (groups_concat true r (key x)), Er; reflexivity).
        cbn [concat app] in Hj. rewrite Hcat in Hj.
        destruct Hj as [<-|Hj]; [lia|]. apply (sorted_from_le r _ j Hr Hj).
      + injection Hg as <- <-.
        destruct (IH (key x) Hr g' gs' Er j Hj) as [a [b [Hb [Ha Hbj]]]].
        exists a, b. split; [exact Hb|]. split; lia.
  Qed.

  (* the key lemma: chained norm clustering never separates two close points *)
  Lemma chained_same_group : forall l cn, sorted_from cn l ->
      forall i j, In i l -> In j l -> cl i j ->
      exists g, In g (groups true t key cn l) /\ In i g /\ In j g.
  Proof.
    induction l as [|x r IH]; intros cn Hs i j Hi Hj Hc; [contradiction|].
    destruct Hs as [Hx Hr].
    destruct (groups_true_step cn x r) as [g' [gs' [Er El]]].
    assert (Hin : In (x :: g') (groups true t key cn (x :: r))).
    { rewrite El. destruct (brk t cn (key x)); [right; left|left]; reflexivity. }
    assert (Hsub : forall g, In g gs' -> In g (groups true t key cn (x :: r))).
    { intros g Hg. rewrite El. destruct (brk t cn (key x)); [right; right|right]; exact Hg. }
    assert (Hhead : forall k, In k r -> cl x k -> In k g').
    { intros k Hk Hck. rewrite <- (groups_concat true r (key x)), Er in Hk.
      cbn [concat] in Hk. apply in_app_or in Hk. destruct Hk as [Hk|Hk]; [exact Hk|].
      exfalso. destruct (chained_boundary r (key x) Hr g' gs' Er k Hk) as [a [b [Hb [Ha Hbk]]]].
      exact (cl_break x k a b Hb Ha Hbk Hck). }
    destruct Hi as [<-|Hi], Hj as [<-|Hj].
    - exists (x :: g'). split; [exact Hin|]. split; left; reflexivity.
    - exists (x :: g'). split; [exact Hin|]. split; [left; reflexivity|right].
      apply Hhead; assumption.
    - exists (x :: g'). split; [exact Hin|]. split; [right|left; reflexivity].
      apply Hhead; [assumption|apply cl_sym, Hc].
    - destruct (IH (key x) Hr i j Hi Hj Hc) as [g [Hg [Hig Hjg]]]. rewrite Er in Hg.
      destruct Hg as [<-|Hg].
      + exists (x :: g'). split; [exact Hin|]. split; right; assumption.
      + exists g. split; [apply Hsub, Hg|]. split; assumption.
  Qed.
End Clustering.

(* ---------- the merge inside one norm cluster ---------- *)
Lemma replace_length {A} (v : A) : forall l k, length (replace k v l) = length l.
Proof. induction l as [|x r IH]; intros [|k]; cbn [replace length]; try reflexivity. now rewrite IH. Qed.

Lemma nth_replace_eq {A} (v d : A) : forall l k, (k < length l)%nat -> nth k (replace k v l) d = v.
Proof.
  induction l as [|x r IH]; intros [|k] H; cbn [length] in H; try lia; cbn [replace nth];
    [reflexivity|]. apply IH. lia.
Qed.

Lemma nth_replace_neq {A} (v d : A) : forall l k j, j <> k -> nth j (replace k v l) d = nth j l d.
Proof.
  induction l as [|x r IH]; intros [|k] [|j] H; cbn [replace nth]; try reflexivity; try congruence.
  apply IH. congruence.
Qed.

Section Inner.
  Variable t : Z.
  Variable pts : list pt.
  Definition P (i : nat) : pt := pnt pts i.
  Definition cl (i j : nat) : Prop := close t (P i) (P j) = true.
  Hypothesis cl_refl : forall i, cl i i.
  Hypothesis cl_sym : forall i j, cl i j -> cl j i.
  Hypothesis cl_trans : forall i j k, cl i j -> cl j k -> cl i k.

  Definition midx (reps : list (pt * nat)) (k : nat) : nat := snd (nth k reps dflt).
  Definition coords_ok (reps : list (pt * nat)) : Prop :=
    forall k, (k < length reps)%nat -> fst (nth k reps dflt) = P (midx reps k).

  Lemma find_close_spec i : forall reps, coords_ok reps ->
      match find_close t (P i) reps with
      | None => forall k, (k < length reps)%nat -> ~ cl i (midx reps k)
      | Some k => (k < length reps)%nat /\ cl i (midx reps k)
      end.
  Proof.
    induction reps as [|[c m] r IH]; intros Hok; cbn [find_close].
    - intros k Hk. cbn in Hk. lia.
    - assert (Hc : c = P m) by (apply (Hok 0%nat); cbn; lia).
      assert (Hr : coords_ok r).
      { intros k Hk. apply (Hok (S k)). cbn. lia. }
      destruct (close t (P i) c) eqn:Ec.
      + split; [cbn; lia|]. unfold cl, midx. cbn. rewrite <- Hc. exact Ec.
      + specialize (IH Hr). destruct (find_close t (P i) r) as [k|]; cbn [option_map].
        * destruct IH as [Hk Hcl]. split; [cbn; lia|exact Hcl].
        * intros [|k] Hk.
          -- unfold cl, midx. cbn. rewrite <- Hc, Ec. discriminate.
          -- apply (IH k). cbn in Hk. lia.
  Qed.

  Record IInv (done : list nat) (reps : list (pt * nat)) (o2n : list (nat * nat)) : Prop := {
    i_coords : coords_ok reps;
    i_sep : forall k1 k2, (k1 < length reps)%nat -> (k2 < length reps)%nat ->
                          cl (midx reps k1) (midx reps k2) -> k1 = k2;
    i_in : forall k, (k < length reps)%nat -> In (midx reps k) done;
    i_link : forall i, In i done ->
                       exists k, (k < length reps)%nat /\ In (i, k) o2n /\
                                 cl (midx reps k) i /\ (midx reps k <= i)%nat;
    i_keys : map fst o2n = done
  }.

  Lemma midx_app_l reps x k : (k < length reps)%nat -> midx (reps ++ [x]) k = midx reps k.
  Proof. intros H. unfold midx. rewrite app_nth1 by exact H. reflexivity. Qed.

  Lemma midx_app_r reps x : midx (reps ++ [x]) (length reps) = snd x.
  Proof. unfold midx. rewrite app_nth2 by lia. rewrite Nat.sub_diag. reflexivity. Qed.

  Lemma inner_step done reps o2n i :
    IInv done reps o2n ->
    let col := P i in
    let '(reps', o2n') :=
      match find_close t col reps with
      | None => (reps ++ [(col, i)], o2n ++ [(i, length reps)])
      | Some k => (if (i <? snd (nth k reps dflt))%nat then replace k (col, i) reps else reps,
                   o2n ++ [(i, k)])
      end in
    IInv (done ++ [i]) reps' o2n'.
  Proof.
    intros [Hco Hsep Hin Hlink Hkeys]. cbn zeta.
    pose proof (find_close_spec i reps Hco) as Hf.
    destruct (find_close t (P i) reps) as [k|].
    - destruct Hf as [Hk Hcl].
      destruct (i <? snd (nth k reps dflt))%nat eqn:Elt.
      + apply Nat.ltb_lt in Elt. fold (midx reps k) in Elt.
        assert (Hm : forall j, midx (replace k (P i, i) reps) j
                               = if (j =? k)%nat then i else midx reps j).
        { intros j. unfold midx. destruct (Nat.eqb_spec j k) as [->|Hn].
          - rewrite nth_replace_eq by exact Hk. reflexivity.
          - rewrite nth_replace_neq by exact Hn. reflexivity. }
        constructor.
        * intros j Hj. rewrite replace_length in Hj. rewrite Hm. unfold midx in *.
          destruct (Nat.eqb_spec j k) as [->|Hn].
          -- rewrite nth_replace_eq by exact Hk. reflexivity.
          -- rewrite nth_replace_neq by exact Hn. apply Hco, Hj.
        * intros k1 k2 H1 H2. rewrite replace_length in H1, H2. rewrite !Hm.
          destruct (Nat.eqb_spec k1 k) as [->|N1], (Nat.eqb_spec k2 k) as [->|N2]; intros Hc.
          -- reflexivity.
          -- exfalso. apply N2. symmetry. apply Hsep; try assumption.
             apply (cl_trans _ i); [apply cl_sym, Hcl|exact Hc].
          -- exfalso. apply N1. apply Hsep; try assumption.
             apply (cl_trans _ i); [exact Hc|exact Hcl].
          -- apply Hsep; assumption.
        * intros j Hj. rewrite replace_length in Hj. rewrite Hm. apply in_or_app.
          destruct (Nat.eqb_spec j k); [right; now left|left; apply Hin, Hj].
        * intros j Hj. apply in_app_or in Hj. destruct Hj as [Hj|[<-|[]]].
          -- destruct (Hlink j Hj) as [kj [Hkj [Hinj [Hclj Hle]]]].
             exists kj. rewrite replace_length, Hm. split; [exact Hkj|].
             split; [apply in_or_app; left; exact Hinj|].
             destruct (Nat.eqb_spec kj k) as [->|Hn]; [|split; assumption].
             split; [apply (cl_trans _ (midx reps k)); [exact Hcl|exact Hclj]|lia].
          -- exists k. rewrite replace_length, Hm, Nat.eqb_refl. split; [exact Hk|].
             split; [apply in_or_app; right; now left|]. split; [apply cl_refl|lia].
        * rewrite map_app, Hkeys. reflexivity.
      + apply Nat.ltb_ge in Elt. fold (midx reps k) in Elt. constructor.
        * exact Hco.
        * exact Hsep.
        * intros j Hj. apply in_or_app. left. apply Hin, Hj.
        * intros j Hj. apply in_app_or in Hj. destruct Hj as [Hj|[<-|[]]].
          -- destruct (Hlink j Hj) as [kj [Hkj [Hinj [Hclj Hle]]]].
             exists kj. split; [exact Hkj|]. split; [apply in_or_app; left; exact Hinj|].
             split; assumption.
          -- exists k. split; [exact Hk|]. split; [apply in_or_app; right; now left|].
             split; [apply cl_sym, Hcl|exact Elt].
        * rewrite map_app, Hkeys. reflexivity.
    - constructor.
      + intros j Hj. rewrite app_length in Hj. cbn [length] in Hj.
        destruct (Nat.eq_dec j (length reps)) as [->|Hn].
        * rewrite midx_app_r. unfold midx. rewrite app_nth2 by lia. rewrite Nat.sub_diag.
          reflexivity.
        * assert (Hj' : (j < length reps)%nat) by lia. rewrite midx_app_l by exact Hj'.
          unfold midx. rewrite app_nth1 by exact Hj'. apply Hco, Hj'.
      + intros k1 k2 H1 H2. rewrite app_length in H1, H2. cbn [length] in H1, H2.
        destruct (Nat.eq_dec k1 (length reps)) as [->|N1],
                 (Nat.eq_dec k2 (length reps)) as [->|N2]; intros Hc.
        * reflexivity.
        * exfalso. rewrite midx_app_r, midx_app_l in Hc by lia. cbn [snd] in Hc.
          apply (Hf k2); [lia|exact Hc].
        * exfalso. rewrite midx_app_r, midx_app_l in Hc by lia. cbn [snd] in Hc.
          apply (Hf k1); [lia|apply cl_sym, Hc].
        * rewrite !midx_app_l in Hc by lia. apply Hsep; [lia|lia|exact Hc].
      + intros j Hj. rewrite app_length in Hj. cbn [length] in Hj. apply in_or_app.
        destruct (Nat.eq_dec j (length reps)) as [->|Hn].
        * right. rewrite midx_app_r. now left.
        * left. rewrite midx_app_l by lia. apply Hin. lia.
      + intros j Hj. apply in_app_or in Hj. destruct Hj as [Hj|[<-|[]]].
        * destruct (Hlink j Hj) as [kj [Hkj [Hinj [Hclj Hle]]]].
          exists kj. rewrite app_length, midx_app_l by exact Hkj. cbn [length].
          split; [lia|]. split; [apply in_or_app; left; exact Hinj|]. split; assumption.
        * exists (length reps). rewrite app_length, midx_app_r. cbn [length snd].
          split; [lia|]. split; [apply in_or_app; right; now left|]. split; [apply cl_refl|lia].
      + rewrite map_app, Hkeys. reflexivity.
  Qed.

  Lemma inner_inv : forall g done reps o2n,
      IInv done reps o2n ->
      IInv (done ++ g) (fst (inner t pts g reps o2n)) (snd (inner t pts g reps o2n)).
  Proof.
    induction g as [|i g IH]; intros done reps o2n HI.
    - cbn [inner fst snd]. rewrite app_nil_r. exact HI.
    - pose proof (inner_step done reps o2n i HI) as Hs. cbn zeta in Hs.
      cbn [inner]. fold (P i).
      replace (done ++ i :: g) with ((done ++ [i]) ++ g) by (rewrite <- app_assoc; reflexivity).
      destruct (find_close t (P i) reps) as [k|]; apply IH; exact Hs.
  Qed.

  Lemma IInv_nil : IInv [] [] [].
  Proof.
    constructor.
    - intros k Hk. cbn in Hk. lia.
    - intros a b Ha. cbn in Ha. lia.
    - intros k Hk. cbn in Hk. lia.
    - intros i [].
    - reflexivity.
  Qed.

  (* ---------- the loop over the norm clusters ---------- *)
  Definition shift (n : nat) (p : nat * nat) : nat * nat := (fst p, (snd p + n)%nat).

  Lemma midx_app reps rg k :
    midx (reps ++ rg) k = if (k <? length reps)%nat then midx reps k
                          else midx rg (k - length reps).
  Proof.
    unfold midx. destruct (Nat.ltb_spec k (length reps)) as [H|H].
    - rewrite app_nth1 by exact H. reflexivity.
    - rewrite app_nth2 by exact H. reflexivity.
  Qed.

  Lemma merge_inv done reps o2n g rg og :
    IInv done reps o2n -> IInv g rg og ->
    (forall i j, In i done -> In j g -> ~ cl i j) ->
    IInv (done ++ g) (reps ++ rg) (o2n ++ map (shift (length reps)) og).
  Proof.
    intros [Hco Hsep Hin Hlink Hkeys] [Hco' Hsep' Hin' Hlink' Hkeys'] Hx.
    constructor.
    - intros k Hk. rewrite app_length in Hk. rewrite midx_app.
      destruct (Nat.ltb_spec k (length reps)) as [H|H].
      + rewrite app_nth1 by exact H. apply Hco, H.
      + rewrite app_nth2 by exact H. apply Hco'. lia.
    - intros k1 k2 H1 H2. rewrite app_length in H1, H2. rewrite !midx_app.
      destruct (Nat.ltb_spec k1 (length reps)) as [L1|L1],
               (Nat.ltb_spec k2 (length reps)) as [L2|L2]; intros Hc.
      + apply Hsep; assumption.
      + exfalso. apply (Hx (midx reps k1) (midx rg (k2 - length reps))); [apply Hin, L1| |exact Hc].
        apply Hin'. lia.
      + exfalso. apply (Hx (midx reps k2) (midx rg (k1 - length reps)));
          [apply Hin, L2| |apply cl_sym, Hc]. apply Hin'. lia.
      + assert (k1 - length reps = k2 - length reps)%nat by (apply Hsep'; [lia|lia|exact Hc]). lia.
    - intros k Hk. rewrite app_length in Hk. rewrite midx_app. apply in_or_app.
      destruct (Nat.ltb_spec k (length reps)) as [H|H]; [left; apply Hin, H|right; apply Hin'; lia].
    - intros i Hi. apply in_app_or in Hi. destruct Hi as [Hi|Hi].
      + destruct (Hlink i Hi) as [k [Hk [Hik [Hc Hle]]]]. exists k.
        rewrite app_length, midx_app. destruct (Nat.ltb_spec k (length reps)) as [H|H]; [|lia].
        split; [lia|]. split; [apply in_or_app; left; exact Hik|]. split; assumption.
      + destruct (Hlink' i Hi) as [k [Hk [Hik [Hc Hle]]]]. exists (k + length reps)%nat.
        rewrite app_length, midx_app.
        destruct (Nat.ltb_spec (k + length reps) (length reps)) as [H|H]; [lia|].
        replace (k + length reps - length reps)%nat with k by lia.
        split; [lia|]. split; [|split; assumption].
        apply in_or_app. right. apply in_map_iff. exists (i, k). split; [reflexivity|exact Hik].
    - rewrite map_app, map_map, Hkeys. f_equal. rewrite <- Hkeys'. apply map_ext. reflexivity.
  Qed.

  (* no pair closer than tol lies in two different norm clusters *)
  Fixpoint cross_free (done : list nat) (gs : list (list nat)) : Prop :=
    match gs with
    | [] => True
    | g :: r => (forall i j, In i done -> In j g -> ~ cl i j) /\ cross_free (done ++ g) r
    end.

  Lemma assemble_inv : forall gs done reps o2n,
      IInv done reps o2n -> cross_free done gs ->
      IInv (done ++ concat gs) (fst (assemble t pts gs reps o2n))
           (snd (assemble t pts gs reps o2n)).
  Proof.
    induction gs as [|g gs IH]; intros done reps o2n HI Hx.
    - cbn [assemble concat fst snd]. rewrite app_nil_r. exact HI.
    - destruct Hx as [Hx Hxr]. cbn [assemble concat].
      pose proof (inner_inv g [] [] [] IInv_nil) as Hg. cbn [app] in Hg.
      destruct (inner t pts g [] []) as [rg og]. cbn [fst snd] in Hg.
      rewrite app_assoc. apply IH; [|exact Hxr].
      apply (merge_inv done reps o2n g rg og HI Hg Hx).
  Qed.
End Inner.

(* ---------- the final reordering ---------- *)
From Coq Require Import Sorted.

Lemma ins_perm key i : forall l, Permutation (ins key i l) (i :: l).
Proof.
  induction l as [|j r IH]; cbn [ins]; [apply Permutation_refl|].
  destruct (key i <=? key j); [apply Permutation_refl|].
  eapply perm_trans; [apply perm_skip, IH|apply perm_swap].
Qed.

Lemma argsort_perm key : forall l, Permutation (argsort key l) l.
Proof.
  induction l as [|i r IH]; cbn [argsort]; [apply perm_nil|].
  eapply perm_trans; [apply ins_perm|apply perm_skip, IH].
Qed.

Lemma ins_sorted key i : forall l,
    StronglySorted (fun a b => key a <= key b) l ->
    StronglySorted (fun a b => key a <= key b) (ins key i l).
Proof.
  induction l as [|j r IH]; intros Hs; cbn [ins].
  - constructor; constructor.
  - inversion Hs as [|? ? Hr Hj]; subst. destruct (key i <=? key j) eqn:E.
    + apply Z.leb_le in E. constructor; [exact Hs|]. constructor; [exact E|].
      rewrite Forall_forall in *. intros x Hx. specialize (Hj x Hx). cbn in *. lia.
    + apply Z.leb_gt in E. constructor; [apply IH, Hr|].
      rewrite Forall_forall in *. intros x Hx.
      apply (Permutation_in _ (ins_perm key i r)) in Hx. destruct Hx as [<-|Hx]; [lia|].
      apply Hj, Hx.
Qed.

Lemma argsort_sorted key : forall l, StronglySorted (fun a b => key a <= key b) (argsort key l).
Proof.
  induction l as [|i r IH]; cbn [argsort]; [constructor|]. apply ins_sorted, IH.
Qed.

Lemma sorted_map_lt (f : nat -> nat) : forall l,
    StronglySorted (fun a b => Z.of_nat (f a) <= Z.of_nat (f b)) l ->
    NoDup (map f l) -> StronglySorted lt (map f l).
Proof.
  induction l as [|a r IH]; intros Hs Hnd; cbn [map]; [constructor|].
  inversion Hs as [|? ? Hr Ha]; subst. cbn [map] in Hnd. inversion Hnd as [|? ? Hna Hndr]; subst.
  constructor; [apply IH; assumption|].
  rewrite Forall_forall in *. intros y Hy. apply in_map_iff in Hy. destruct Hy as [x [<- Hx]].
  specialize (Ha x Hx). cbn in Ha.
  assert (f a <> f x) by (intros E; apply Hna; rewrite E; apply in_map, Hx). lia.
Qed.

Lemma index_of_lt v : forall l, In v l -> (index_of v l < length l)%nat.
Proof.
  induction l as [|x r IH]; intros H; [contradiction|]. cbn [index_of length].
  destruct (Nat.eqb_spec v x) as [E|E]; [lia|]. destruct H as [H|H]; [congruence|].
  specialize (IH H). lia.
Qed.

Lemma nth_index_of v d : forall l, In v l -> nth (index_of v l) l d = v.
Proof.
  induction l as [|x r IH]; intros H; [contradiction|]. cbn [index_of].
  destruct (Nat.eqb_spec v x) as [E|E]; [subst; reflexivity|].
  destruct H as [H|H]; [congruence|]. cbn [nth]. apply IH, H.
Qed.

Lemma assoc_in i k : forall l, NoDup (map fst l) -> In (i, k) l -> assoc i l = k.
Proof.
  induction l as [|[j kj] r IH]; intros Hnd Hin; [contradiction|].
  cbn [map fst] in Hnd. inversion Hnd as [|? ? Hj Hr]; subst. cbn [assoc].
  destruct Hin as [E|Hin].
  - injection E as -> ->. rewrite Nat.eqb_refl. reflexivity.
  - destruct (Nat.eqb_spec i j) as [->|Hn]; [|apply IH; assumption].
    exfalso. apply Hj. apply in_map_iff. exists (j, k). split; [reflexivity|exact Hin].
Qed.

Lemma nth_map_nat (f : nat -> nat) l i : (i < length l)%nat -> nth i (map f l) 0%nat = f (nth i l 0%nat).
Proof.
  intros H. rewrite (nth_indep _ 0%nat (f 0%nat)) by (rewrite map_length; exact H). apply map_nth.
Qed.

Lemma NoDup_map_inj_in (f : nat -> nat) : forall l,
    (forall a b, In a l -> In b l -> f a = f b -> a = b) -> NoDup l -> NoDup (map f l).
Proof.
  induction l as [|x r IH]; intros Hinj Hnd; cbn [map]; [constructor|].
  inversion Hnd as [|? ? Hx Hr]; subst. constructor.
  - intros H. apply in_map_iff in H. destruct H as [y [E Hy]].
    assert (y = x) by (apply Hinj; [now right|now left|exact E]). subst. contradiction.
  - apply IH; [|exact Hr]. intros a b Ha Hb. apply Hinj; now right.
Qed.

(* ---------- the whole function, for clusters that do not separate close points ---------- *)
Theorem uniquify_groups_correct t pts gs :
  0 < t ->
  (forall i j k, cl t pts i j -> cl t pts j k -> cl t pts i k) ->
  NoDup (concat gs) -> (forall i, In i (concat gs) <-> (i < length pts)%nat) ->
  cross_free t pts [] gs ->
  match uniquify_groups t pts gs with
  | (u, n2o, o2n) =>
      u = map (pnt pts) n2o /\
      StronglySorted lt n2o /\
      (forall m, In m n2o ->
                 (m < length pts)%nat /\
                 forall j, (j < length pts)%nat -> cl t pts j m -> (m <= j)%nat) /\
      length o2n = length pts /\
      (forall i, (i < length pts)%nat ->
                 (nth i o2n 0 < length n2o)%nat /\ cl t pts (nth (nth i o2n 0%nat) n2o 0%nat) i)
  end.
Proof.
  intros Ht Htr Hnd Hall Hx.
  assert (Hrefl : forall i, cl t pts i i).
  { intros i. unfold cl, close. rewrite dist2_refl. apply Z.ltb_lt. nia. }
  assert (Hsym : forall i j, cl t pts i j -> cl t pts j i).
  { intros i j. unfold cl, close. rewrite (dist2_sym (P pts i)). tauto. }
  pose proof (assemble_inv t pts Hrefl Hsym Htr gs [] [] [] (IInv_nil t pts) Hx) as HI.
  cbn [app] in HI. unfold uniquify_groups.
  destruct (assemble t pts gs [] []) as [reps o2n]. cbn [fst snd] in HI.
  destruct HI as [Hco Hsep Hin Hlink Hkeys].
  set (n := length reps) in *.
  set (ordering := argsort (fun k => Z.of_nat (snd (nth k reps dflt))) (seq 0 n)).
  assert (Hperm : Permutation ordering (seq 0 n)) by apply argsort_perm.
  assert (Hord : forall k, In k ordering <-> (k < n)%nat).
  { intros k. split; intros H.
    - apply (Permutation_in _ Hperm) in H. apply in_seq in H. lia.
    - apply (Permutation_in _ (Permutation_sym Hperm)). apply in_seq. lia. }
  assert (Hondup : NoDup ordering).
  { eapply Permutation_NoDup; [apply Permutation_sym, Hperm|apply seq_NoDup]. }
  assert (Hlen : length ordering = n).
  { rewrite (Permutation_length Hperm). apply seq_length. }
  fold (midx reps) in *.
  change (map (fun k => snd (nth k reps dflt)) ordering) with (map (midx reps) ordering).
  assert (Hn2o : NoDup (map (midx reps) ordering)).
  { apply NoDup_map_inj_in; [|exact Hondup].
    intros a b Ha Hb E. apply Hsep; [apply Hord, Ha|apply Hord, Hb|]. rewrite E. apply Hrefl. }
  split; [|split; [|split; [|split]]].
  - rewrite map_map. apply map_ext_in. intros k Hk. apply Hco, Hord, Hk.
  - apply sorted_map_lt; [apply argsort_sorted|exact Hn2o].
  - intros m Hm. apply in_map_iff in Hm. destruct Hm as [k [<- Hk]]. apply Hord in Hk.
    split; [apply Hall, Hin, Hk|]. intros j Hj Hc.
    destruct (Hlink j (proj2 (Hall j) Hj)) as [kj [Hkj [_ [Hcj Hle]]]].
    assert (kj = k) by (apply Hsep; [exact Hkj|exact Hk|apply (Htr _ j); assumption]).
    subst kj. exact Hle.
  - rewrite map_length, seq_length. reflexivity.
  - intros i Hi. rewrite map_length, Hlen.
    rewrite (nth_map_nat (fun i => index_of (assoc i o2n) ordering)) by (rewrite seq_length; exact Hi).
    rewrite seq_nth by exact Hi. cbn [plus].
    destruct (Hlink i (proj2 (Hall i) Hi)) as [k [Hk [Hik [Hc _]]]].
    rewrite (assoc_in i k o2n) by (try exact Hik; rewrite Hkeys; exact Hnd).
    assert (Hko : In k ordering) by (apply Hord, Hk).
    split; [rewrite <- Hlen; apply index_of_lt, Hko|].
    rewrite (nth_map_nat (midx reps)) by (apply index_of_lt, Hko).
    rewrite nth_index_of by exact Hko. exact Hc.
Qed.

(* ---------- from "close points share a cluster" to cross_free ---------- *)
Lemma NoDup_app_disjoint {A} (a b : list A) x : NoDup (a ++ b) -> In x a -> In x b -> False.
Proof.
  induction a as [|y r IH]; intros Hnd Ha Hb; [contradiction|].
  cbn [app] in Hnd. inversion Hnd as [|? ? Hy Hr]; subst. destruct Ha as [->|Ha].
  - apply Hy. apply in_or_app. now right.
  - exact (IH Hr Ha Hb).
Qed.

Lemma nosplit_cross_free t pts : forall gs' pre,
    NoDup (concat (pre ++ gs')) ->
    (forall i j, In i (concat (pre ++ gs')) -> In j (concat (pre ++ gs')) -> cl t pts i j ->
                 exists g, In g (pre ++ gs') /\ In i g /\ In j g) ->
    cross_free t pts (concat pre) gs'.
Proof.
  induction gs' as [|g r IH]; intros pre Hnd HK; [exact I|]. cbn [cross_free].
  assert (Hcat : concat (pre ++ g :: r) = concat pre ++ g ++ concat r)
    by (rewrite concat_app; reflexivity).
  split.
  - intros i j Hi Hj Hc.
    assert (Hi' : In i (concat (pre ++ g :: r))) by (rewrite Hcat; apply in_or_app; now left).
    assert (Hj' : In j (concat (pre ++ g :: r)))
      by (rewrite Hcat; apply in_or_app; right; apply in_or_app; now left).
    destruct (HK i j Hi' Hj' Hc) as [g0 [Hg0 [Hi0 Hj0]]].
    rewrite Hcat in Hnd. apply in_app_or in Hg0. destruct Hg0 as [Hp|[<-|Hr]].
    + apply (NoDup_app_disjoint _ _ j Hnd).
      * apply in_concat. exists g0. split; assumption.
      * apply in_or_app. now left.
    + apply (NoDup_app_disjoint _ _ i Hnd); [exact Hi|apply in_or_app; now left].
    + apply (NoDup_app_disjoint _ _ i Hnd); [exact Hi|]. apply in_or_app. right.
      apply in_concat. exists g0. split; assumption.
  - replace (concat pre ++ g) with (concat (pre ++ [g]))
      by (rewrite concat_app; cbn [concat]; rewrite app_nil_r; reflexivity).
    apply IH; rewrite <- app_assoc; cbn [app]; assumption.
Qed.

(* ---------- the theorems about uniquify_with ---------- *)
Definition keyn (pts : list pt) (i : nat) : Z := norm2 (pnt pts i).

Lemma perm_seq_facts (sidx : list nat) n :
  Permutation sidx (seq 0 n) -> NoDup sidx /\ forall i, In i sidx <-> (i < n)%nat.
Proof.
  intros Hp. split.
  - eapply Permutation_NoDup; [apply Permutation_sym, Hp|apply seq_NoDup].
  - intros i. split; intros H.
    + apply (Permutation_in _ Hp) in H. apply in_seq in H. lia.
    + apply (Permutation_in _ (Permutation_sym Hp)). apply in_seq. lia.
Qed.

Lemma norm_clusters_concat c t key sidx : concat (norm_clusters c t key sidx) = sidx.
Proof. destruct sidx as [|i0 r]; [reflexivity|]. apply groups_concat. Qed.

Definition result_ok (t : Z) (pts : list pt) (res : list pt * list nat * list nat) : Prop :=
  match res with
  | (u, n2o, o2n) =>
      u = map (pnt pts) n2o /\
      StronglySorted lt n2o /\
      (forall m, In m n2o ->
                 (m < length pts)%nat /\
                 forall j, (j < length pts)%nat -> cl t pts j m -> (m <= j)%nat) /\
      length o2n = length pts /\
      (forall i, (i < length pts)%nat ->
                 (nth i o2n 0 < length n2o)%nat /\ cl t pts (nth (nth i o2n 0%nat) n2o 0%nat) i)
  end.

Lemma pnt_clip pts i :
  pts <> [] -> pnt pts i = pnt pts (if (i <? length pts)%nat then i else 0%nat).
Proof.
  intros Hne. destruct (Nat.ltb_spec i (length pts)) as [H|H]; [reflexivity|].
  unfold pnt. rewrite nth_overflow by lia. destruct pts; [contradiction|reflexivity].
Qed.

Definition trans_in_range (t : Z) (pts : list pt) : Prop :=
  forall i j k, (i < length pts)%nat -> (j < length pts)%nat -> (k < length pts)%nat ->
                cl t pts i j -> cl t pts j k -> cl t pts i k.

Lemma trans_extend t pts :
  pts <> [] -> trans_in_range t pts ->
  forall i j k, cl t pts i j -> cl t pts j k -> cl t pts i k.
Proof.
  intros Hne Htr i j k. unfold cl, P.
  rewrite (pnt_clip pts i Hne), (pnt_clip pts j Hne), (pnt_clip pts k Hne).
  assert (Hpos : (0 < length pts)%nat) by (destruct pts; [contradiction|cbn; lia]).
  apply Htr; [destruct (Nat.ltb_spec i (length pts))|destruct (Nat.ltb_spec j (length pts))
             |destruct (Nat.ltb_spec k (length pts))]; lia.
Qed.

(* the code as it is: correct whenever no norm-cluster boundary separates close points *)
Theorem uniquify_guarded c t pts sidx :
  0 < t ->
  trans_in_range t pts ->
  Permutation sidx (seq 0 (length pts)) ->
  cross_free t pts [] (norm_clusters c t (keyn pts) sidx) ->
  result_ok t pts (uniquify_with c t pts sidx).
Proof.
  intros Ht Htr Hp Hx. destruct (perm_seq_facts sidx _ Hp) as [Hnd Hall].
  unfold uniquify_with. destruct pts as [|p0 pr] eqn:Ep.
  - cbn. split; [reflexivity|]. split; [apply SSorted_nil|]. split; [intros m []|].
    split; [reflexivity|]. intros i Hi. cbn in Hi. lia.
  - rewrite <- Ep in *. fold (keyn pts).
    assert (Hne : pts <> []) by (rewrite Ep; discriminate).
    apply uniquify_groups_correct; try assumption;
      [apply trans_extend; assumption|rewrite norm_clusters_concat; assumption
       |rewrite norm_clusters_concat; assumption].
Qed.

(* chained clustering: the guard always holds *)
Theorem uniquify_chained_correct t pts sidx d :
  0 < t ->
  Forall (fun p => length p = d) pts ->
  trans_in_range t pts ->
  Permutation sidx (seq 0 (length pts)) ->
  (match sidx with [] => True | i0 :: _ => sorted_from (keyn pts) (keyn pts i0) sidx end) ->
  result_ok t pts (uniquify_with true t pts sidx).
Proof.
  intros Ht Hd Htr Hp Hs. apply uniquify_guarded; try assumption.
  destruct (perm_seq_facts sidx _ Hp) as [Hnd Hall].
  apply (nosplit_cross_free t pts (norm_clusters true t (keyn pts) sidx) []).
  - cbn [app]. rewrite norm_clusters_concat. exact Hnd.
  - cbn [app]. rewrite norm_clusters_concat. intros i j Hi Hj Hc.
    destruct sidx as [|i0 r] eqn:Es; [contradiction|]. rewrite <- Es in *.
    unfold norm_clusters. rewrite Es. rewrite <- Es.
    set (cl' := fun a b => (a < length pts)%nat /\ (b < length pts)%nat /\ cl t pts a b).
    assert (Hlenp : forall a, (a < length pts)%nat -> length (pnt pts a) = d).
    { intros a Ha. rewrite Forall_forall in Hd. apply Hd. unfold pnt. apply nth_In, Ha. }
    apply (chained_same_group t (keyn pts) cl').
    + intros a b [Ha [Hb Hab]]. split; [exact Hb|]. split; [exact Ha|].
      unfold cl, close in *. rewrite dist2_sym. exact Hab.
    + intros a b x y Hb Hax Hyb [Ha [Hb' Hab]]. unfold cl, close in Hab.
      apply Z.ltb_lt in Hab.
      assert (t * t <= dist2 (P pts a) (P pts b)).
      { apply (break_separates t x y).
        - lia.
        - unfold P. transitivity d; [apply Hlenp, Ha|symmetry; apply Hlenp, Hb'].
        - exact Hb.
        - exact Hax.
        - exact Hyb. }
      lia.
    + exact Hs.
    + exact Hi.
    + exact Hj.
    + split; [apply Hall, Hi|]. split; [apply Hall, Hj|exact Hc].
Qed.

Lemma sort_by_norm_perm pts : Permutation (sort_by_norm pts) (seq 0 (length pts)).
Proof. apply argsort_perm. Qed.

(* ---------- the model's own stable argsort satisfies the hypotheses on sidx ---------- *)
Lemma SS_sorted_from key : forall l cn,
    (forall x, In x l -> cn <= key x) ->
    StronglySorted (fun a b => key a <= key b) l -> sorted_from key cn l.
Proof.
  induction l as [|x r IH]; intros cn Hcn Hs; [exact I|].
  inversion Hs as [|? ? Hr Hx]; subst. split; [apply Hcn; now left|].
  apply IH; [|exact Hr]. rewrite Forall_forall in Hx. exact Hx.
Qed.

Lemma sort_by_norm_sorted pts :
  match sort_by_norm pts with
  | [] => True
  | i0 :: _ => sorted_from (keyn pts) (keyn pts i0) (sort_by_norm pts)
  end.
Proof.
  unfold sort_by_norm. change (fun i : nat => norm2 (pnt pts i)) with (keyn pts).
  pose proof (argsort_sorted (keyn pts) (seq 0 (length pts))) as Hs.
  destruct (argsort (keyn pts) (seq 0 (length pts))) as [|i0 r]; [exact I|].
  apply SS_sorted_from; [|exact Hs]. intros x [<-|Hx]; [lia|].
  inversion Hs as [|? ? _ H0]; subst. rewrite Forall_forall in H0. apply H0, Hx.
Qed.

Theorem uniquify_model_guarded t pts :
  0 < t -> trans_in_range t pts ->
  cross_free t pts [] (norm_clusters false t (keyn pts) (sort_by_norm pts)) ->
  result_ok t pts (uniquify t pts).
Proof.
  intros Ht Htr Hx. apply uniquify_guarded; try assumption. apply sort_by_norm_perm.
Qed.

Theorem uniquify_model_chained t pts d :
  0 < t -> Forall (fun p => length p = d) pts -> trans_in_range t pts ->
  result_ok t pts (uniquify_with true t pts (sort_by_norm pts)).
Proof.
  intros Ht Hd Htr. apply (uniquify_chained_correct t pts _ d); try assumption.
  - apply sort_by_norm_perm.
  - apply sort_by_norm_sorted.
Qed.
