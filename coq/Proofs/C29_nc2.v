(* C29 — proofs, part 4: the two points of a collinear-overlap answer are end points of
   the input segments; an end point of a segment lying in a sub-segment is an end of it. *)
From Coq Require Import List QArith Qabs Bool Arith ZArith Lia Lqa Nsatz.
Import ListNotations.
From PP Require Import Model.C28 Proofs.C28 Model.C29 Proofs.C29 Proofs.C29_main Proofs.C29_nc.
Open Scope Q_scope.

Definition is_endpoint (q a b c d : pt2) : Prop := peq q a \/ peq q b \/ peq q c \/ peq q d.

Lemma seg_x_ends : forall a b c d q1 q2,
  ~ peq a b -> seg2d_x a b c d = R2Seg q1 q2 ->
  is_endpoint q1 a b c d /\ is_endpoint q2 a b c d.
Proof.
  intros [ax ay] [bx by_] [cx cy] [dx dy] q1 q2 Hab.
  unfold peq in Hab. cbn [fst snd] in Hab.
  unfold seg2d_x. cbn [fst snd]. cbv zeta.
  set (d1x := bx - ax). set (d1y := by_ - ay). set (d2x := dx - cx). set (d2y := dy - cy).
  set (dsx := cx - ax). set (dsy := cy - ay).
  set (discr := d1x * - d2y - d1y * - d2x).
  assert (Hd1 : ~ (bx - ax == 0 /\ by_ - ay == 0)).
  { intros [E1 E2]. apply Hab. split; lra. }
  destruct (Qeq_bool discr 0) eqn:ED.
  2:{ destruct (_ && _); discriminate. }
  apply Qeq_bool_iff in ED.
  destruct (Qeq_bool (dsx * d1y - dsy * d1x) 0) eqn:EC; [|discriminate].
  apply Qeq_bool_iff in EC.
  assert (ECc : (cx - ax) * d1y - (cy - ay) * d1x == 0) by exact EC.
  assert (ECd : (dx - ax) * d1y - (dy - ay) * d1x == 0).
  { unfold discr, dsx, dsy, d1x, d1y, d2x, d2y in *. clear - ED EC. nsatz. }
  set (tt := if Qeq_bool d1x 0
             then (dsy / d1y, (dy - ay) / d1y)
             else (dsx / d1x, (dx - ax) / d1x)).
  assert (P : cx == ax + (bx - ax) * fst tt /\ cy == ay + (by_ - ay) * fst tt /\
              dx == ax + (bx - ax) * snd tt /\ dy == ay + (by_ - ay) * snd tt).
  { unfold tt. destruct (Qeq_bool d1x 0) eqn:EX; cbn [fst snd].
    - apply Qeq_bool_iff in EX.
      assert (NY : ~ d1y == 0) by (intro E; apply Hd1; split; assumption).
      destruct (line_param_y ax ay d1x d1y cx cy EX NY ECc) as [A1 A2].
      destruct (line_param_y ax ay d1x d1y dx dy EX NY ECd) as [A3 A4].
      repeat split; assumption.
    - apply qeqb_false in EX.
      destruct (line_param_x ax ay d1x d1y cx cy EX ECc) as [A1 A2].
      destruct (line_param_x ax ay d1x d1y dx dy EX ECd) as [A3 A4].
      repeat split; assumption. }
  clearbody tt. destruct tt as [ts te]. cbn [fst snd] in *.
  destruct P as (P1 & P2 & P3 & P4).
  destruct (qltb ts 0 && qltb te 0); [discriminate|].
  destruct (qltb 1 ts && qltb 1 te); [discriminate|].
  destruct (Qle_bool (qmin (qmax ts te) 1) (qmax (qmin ts te) 0)); [discriminate|].
  intro H. injection H as <- <-.
  assert (K : forall t, t == 0 \/ t == 1 \/ t == ts \/ t == te ->
              is_endpoint (ax + d1x * t, ay + d1y * t) (ax, ay) (bx, by_) (cx, cy) (dx, dy)).
  { intros t [E|[E|[E|E]]]; unfold is_endpoint, peq; cbn [fst snd]; unfold d1x, d1y.
    - left. rewrite E. split; ring.
    - right; left. rewrite E. split; ring.
    - right; right; left. rewrite E, P1, P2. split; reflexivity.
    - right; right; right. rewrite E, P3, P4. split; reflexivity. }
  split; apply K.
  - destruct (qmax_cases (qmin ts te) 0) as [[_ ->]|[_ ->]]; [left; reflexivity|].
    destruct (qmin_cases ts te) as [[_ ->]|[_ ->]]; right; right; [right|left]; reflexivity.
  - destruct (qmin_cases (qmax ts te) 1) as [[_ ->]|[_ ->]]; [right; left; reflexivity|].
    destruct (qmax_cases ts te) as [[_ ->]|[_ ->]]; right; right; [right|left]; reflexivity.
Qed.

Lemma seg_ends : forall tol a b c d q1 q2,
  0 <= tol -> ~ peq a b -> separated tol a b c d = true ->
  seg2d tol a b c d = R2Seg q1 q2 ->
  is_endpoint q1 a b c d /\ is_endpoint q2 a b c d.
Proof.
  intros tol a b c d q1 q2 T N S H. rewrite (separated_exact tol a b c d T S) in H.
  apply (seg_x_ends a b c d q1 q2 N H).
Qed.

(* an end point of a segment that lies in a sub-segment [q1,q2] is q1 or q2 *)
Lemma start_in_sub : forall s e q1 q2, ~ peq s e ->
  on_seg q1 s e -> on_seg q2 s e -> on_seg s q1 q2 -> peq s q1 \/ peq s q2.
Proof.
  intros s e q1 q2 N [t1 [A0 [A1 [Ax Ay]]]] [t2 [B0 [B1 [Bx By]]]] [u [U0 [U1 [Sx Sy]]]].
  assert (Z : (t1 + u * (t2 - t1)) == 0).
  { rewrite <- (par_of_at s e s (t1 + u * (t2 - t1)) N).
    - apply par_of_at; [exact N|]. split; ring.
    - split; [rewrite Sx at 1; rewrite Ax, Bx|rewrite Sy at 1; rewrite Ay, By]; ring. }
  destruct (Qeq_dec t1 0) as [E|E].
  - left. split; [rewrite Ax|rewrite Ay]; rewrite E; ring.
  - right. assert (Eu : u == 1).
    { assert (0 < t1) by lra. destruct (Qlt_le_dec u 1) as [L|L]; [exfalso; nra|lra]. }
    assert (E2 : t2 == 0) by (rewrite Eu in Z; lra).
    split; [rewrite Bx|rewrite By]; rewrite E2; ring.
Qed.

Lemma endpoint_in_sub : forall s e q1 q2 r, ~ peq s e ->
  on_seg q1 s e -> on_seg q2 s e -> (peq r s \/ peq r e) -> on_seg r q1 q2 ->
  peq r q1 \/ peq r q2.
Proof.
  intros s e q1 q2 r N O1 O2 [P|P] Or.
  - destruct (start_in_sub s e q1 q2 N O1 O2) as [H|H].
    + eapply on_seg_peq; [exact P|apply peq_refl|apply peq_refl|exact Or].
    + left. eapply peq_trans; eassumption.
    + right. eapply peq_trans; eassumption.
  - assert (N' : ~ peq e s) by (intro H; apply N; apply peq_sym; exact H).
    destruct (start_in_sub e s q1 q2 N') as [H|H].
    + apply on_seg_rev. exact O1.
    + apply on_seg_rev. exact O2.
    + eapply on_seg_peq; [exact P|apply peq_refl|apply peq_refl|exact Or].
    + left. eapply peq_trans; eassumption.
    + right. eapply peq_trans; eassumption.
Qed.

(* ------------------------------------------------------------------ more geometry on a line *)
Lemma on_seg_between_any : forall s e a b p ta tb,
  at_par s e a ta -> at_par s e b tb -> on_seg p a b ->
  exists t, at_par s e p t /\ ((ta <= t /\ t <= tb) \/ (tb <= t /\ t <= ta)).
Proof.
  intros s e a b p ta tb A B O. destruct (Qlt_le_dec tb ta) as [L|L].
  - apply on_seg_rev in O. destruct (on_seg_between s e b a p tb ta B A ltac:(lra) O) as [t [P [L1 L2]]].
    exists t. split; [exact P|right; split; assumption].
  - destruct (on_seg_between s e a b p ta tb A B L O) as [t [P [L1 L2]]].
    exists t. split; [exact P|left; split; assumption].
Qed.

Lemma peq_dec : forall p q : pt2, {peq p q} + {~ peq p q}.
Proof.
  intros p q. destruct (peqb p q) eqn:E; [left; apply peqb_iff; exact E|right].
  intro H. apply peqb_iff in H. congruence.
Qed.

(* two sub-segments of one line that both contain r strictly inside share another point *)
Lemma two_overlaps_ordered : forall s e q1 q2 w1 w2 r tq1 tq2 tw1 tw2 tr,
  at_par s e q1 tq1 -> at_par s e q2 tq2 -> at_par s e w1 tw1 -> at_par s e w2 tw2 ->
  at_par s e r tr -> tq1 < tr -> tr < tq2 -> tw1 < tr -> tr < tw2 ->
  exists p' t', at_par s e p' t' /\ ~ t' == tr /\ on_seg p' q1 q2 /\ on_seg p' w1 w2.
Proof.
  intros s e q1 q2 w1 w2 r tq1 tq2 tw1 tw2 tr Q1 Q2 W1 W2 R L1 L2 L3 L4.
  set (h := qmin tq2 tw2).
  assert (Hh : tr < h /\ h <= tq2 /\ h <= tw2).
  { unfold h. destruct (qmin_cases tq2 tw2) as [[A ->]|[A ->]]; repeat split; lra. }
  set (t' := (tr + h) * (1 # 2)).
  set (p' := (fst s + t' * (fst e - fst s), snd s + t' * (snd e - snd s))).
  assert (P : at_par s e p' t') by (split; reflexivity).
  exists p', t'. split; [exact P|]. unfold t' in *. split; [lra|]. split.
  - apply (between_on_seg s e q1 q2 p' tq1 tq2 ((tr + h) * (1 # 2))); try assumption; lra.
  - apply (between_on_seg s e w1 w2 p' tw1 tw2 ((tr + h) * (1 # 2))); try assumption; lra.
Qed.

Lemma two_overlaps_share : forall s e q1 q2 w1 w2 r, ~ peq s e ->
  on_seg q1 s e -> on_seg q2 s e -> on_seg w1 s e -> on_seg w2 s e ->
  on_seg r q1 q2 -> on_seg r w1 w2 ->
  ~ peq r q1 -> ~ peq r q2 -> ~ peq r w1 -> ~ peq r w2 ->
  exists p', on_seg p' q1 q2 /\ on_seg p' w1 w2 /\ ~ peq p' r.
Proof.
  intros s e q1 q2 w1 w2 r N Oq1 Oq2 Ow1 Ow2 Rq Rw N1 N2 N3 N4.
  destruct (on_seg_par s e q1 N Oq1) as [_ [_ Q1]]. destruct (on_seg_par s e q2 N Oq2) as [_ [_ Q2]].
  destruct (on_seg_par s e w1 N Ow1) as [_ [_ W1]]. destruct (on_seg_par s e w2 N Ow2) as [_ [_ W2]].
  destruct (on_seg_between_any s e q1 q2 r _ _ Q1 Q2 Rq) as [tr [R Bq]].
  destruct (on_seg_between_any s e w1 w2 r _ _ W1 W2 Rw) as [tr' [R' Bw]].
  assert (Etr : tr' == tr).
  { rewrite <- (par_of_at s e r tr' N R'), <- (par_of_at s e r tr N R). reflexivity. }
  assert (S1 : ~ tr == par s e q1) by (intro E; apply N1; apply (at_par_peq s e r q1 tr _ R Q1 E)).
  assert (S2 : ~ tr == par s e q2) by (intro E; apply N2; apply (at_par_peq s e r q2 tr _ R Q2 E)).
  assert (S3 : ~ tr == par s e w1) by (intro E; apply N3; apply (at_par_peq s e r w1 tr _ R W1 E)).
  assert (S4 : ~ tr == par s e w2) by (intro E; apply N4; apply (at_par_peq s e r w2 tr _ R W2 E)).
  assert (K : forall p' t', at_par s e p' t' -> ~ t' == tr -> ~ peq p' r).
  { intros p' t' P' Ne E. apply Ne.
    rewrite <- (par_of_at s e p' t' N P'), <- (par_of_at s e r tr N R). apply par_peq. exact E. }
  destruct Bq as [[A1 A2]|[A1 A2]]; destruct Bw as [[B1 B2]|[B1 B2]].
  - destruct (two_overlaps_ordered s e q1 q2 w1 w2 r _ _ _ _ tr Q1 Q2 W1 W2 R) as [p' [t' [P' [Ne [O1 O2]]]]]; try lra.
    exists p'. split; [exact O1|]. split; [exact O2|]. eapply K; eassumption.
  - destruct (two_overlaps_ordered s e q1 q2 w2 w1 r _ _ _ _ tr Q1 Q2 W2 W1 R) as [p' [t' [P' [Ne [O1 O2]]]]]; try lra.
    exists p'. split; [exact O1|]. split; [apply on_seg_rev; exact O2|]. eapply K; eassumption.
  - destruct (two_overlaps_ordered s e q2 q1 w1 w2 r _ _ _ _ tr Q2 Q1 W1 W2 R) as [p' [t' [P' [Ne [O1 O2]]]]]; try lra.
    exists p'. split; [apply on_seg_rev; exact O1|]. split; [exact O2|]. eapply K; eassumption.
  - destruct (two_overlaps_ordered s e q2 q1 w2 w1 r _ _ _ _ tr Q2 Q1 W2 W1 R) as [p' [t' [P' [Ne [O1 O2]]]]]; try lra.
    exists p'. split; [apply on_seg_rev; exact O1|]. split; [apply on_seg_rev; exact O2|]. eapply K; eassumption.
Qed.

(* two segments of one line, each containing the other's end points, have the same ends *)
Lemma mutual_containment : forall a1 b1 a2 b2, ~ peq a2 b2 ->
  on_seg a1 a2 b2 -> on_seg b1 a2 b2 -> on_seg a2 a1 b1 -> on_seg b2 a1 b1 ->
  (peq a1 a2 /\ peq b1 b2) \/ (peq a1 b2 /\ peq b1 a2).
Proof.
  intros a1 b1 a2 b2 N O1 O2 O3 O4.
  destruct (on_seg_par a2 b2 a1 N O1) as [U0 [U1 A1]]. destruct (on_seg_par a2 b2 b1 N O2) as [V0 [V1 B1]].
  set (u := par a2 b2 a1) in *. set (v := par a2 b2 b1) in *.
  destruct O3 as [x [X0 [X1 [X3 X4]]]]. destruct O4 as [y [Y0 [Y1 [Y3 Y4]]]].
  assert (E0 : u + x * (v - u) == 0).
  { rewrite <- (par_of_at a2 b2 a2 (u + x * (v - u)) N).
    - apply par_of_at; [exact N|]. split; ring.
    - destruct A1 as [Ax Ay]. destruct B1 as [Bx By].
      split; [rewrite X3 at 1; rewrite Ax, Bx|rewrite X4 at 1; rewrite Ay, By]; ring. }
  assert (E1 : u + y * (v - u) == 1).
  { rewrite <- (par_of_at a2 b2 b2 (u + y * (v - u)) N).
    - apply par_of_at; [exact N|]. split; ring.
    - destruct A1 as [Ax Ay]. destruct B1 as [Bx By].
      split; [rewrite Y3 at 1; rewrite Ax, Bx|rewrite Y4 at 1; rewrite Ay, By]; ring. }
  assert (D : (y - x) * (v - u) == 1) by lra.
  destruct (Qlt_le_dec u v) as [L|L].
  - left. assert (u == 0 /\ v == 1) as [Eu Ev] by (split; nra).
    split; [apply (at_par_0 a2 b2)|apply (at_par_1 a2 b2)]; eapply at_par_eq; eassumption.
  - right. assert (u == 1 /\ v == 0) as [Eu Ev] by (split; nra).
    split; [apply (at_par_1 a2 b2)|apply (at_par_0 a2 b2)]; eapply at_par_eq; eassumption.
Qed.
