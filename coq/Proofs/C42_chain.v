(* C42 — chain rule for normalised fractions: the matrix is the Jacobian (Coquelicot). *)
From Coq Require Import List Reals Lra Lia Arith Bool.
From Coquelicot Require Import Coquelicot.
Import ListNotations.
From PP Require Import Model.C42 Proofs.C42.
Open Scope R_scope.


(* ------------------------------------------------------------ list indexing helpers *)
Lemma nth_map2_seq {A B} (g : nat -> A -> B) (l : list A) : forall a i d d', (i < length l)%nat ->
  nth i (map2 g (seq a (length l)) l) d' = g (a + i)%nat (nth i l d).
Proof.
  induction l as [|x l IH]; intros a i d d' Hi; [cbn in Hi; lia|].
  cbn [length seq map2]. destruct i as [|i]; cbn [nth].
  - f_equal. lia.
  - rewrite (IH (S a) i d d') by (cbn in Hi; lia). f_equal. lia.
Qed.

Lemma nth_map_seq {B} (h : nat -> B) n j d : (j < n)%nat -> nth j (map h (seq 0 n)) d = h j.
Proof.
  intros Hj. rewrite (nth_indep _ d (h 0%nat)) by (rewrite map_length, seq_length; lia).
  rewrite map_nth, seq_nth by lia. reflexivity.
Qed.

(* entries of the matrix the chain rule applies *)
Lemma dxn_entry x i j : (i < length x)%nat -> (j < length x)%nat ->
  nth j (nth i (dxnR x) []) 0 =
  (if Nat.eqb i j then 1 else 0) / rsum x - nth i x 0 / (rsum x * rsum x).
Proof.
  intros Hi Hj. unfold dxnR, dxn.
  rewrite (nth_map2_seq _ x 0%nat i 0 []) by exact Hi. cbn [plus].
  rewrite nth_map_seq by exact Hj. rewrite Rmult_1_r. reflexivity.
Qed.

(* x with e added to component j *)
Fixpoint add_at (j : nat) (e : R) (x : list R) : list R :=
  match x, j with
  | [], _ => []
  | a :: r, O => (a + e) :: r
  | a :: r, S j' => a :: add_at j' e r
  end.

Lemma add_at_sum x : forall j e, (j < length x)%nat -> rsum (add_at j e x) = rsum x + e.
Proof.
  induction x as [|a x IH]; intros j e Hj; [cbn in Hj; lia|].
  destruct j as [|j]; cbn [add_at tsum]; [ring|]. rewrite IH by (cbn in Hj; lia). ring.
Qed.

Lemma add_at_nth x : forall i j e, (j < length x)%nat ->
  nth i (add_at j e x) 0 = nth i x 0 + (if Nat.eqb i j then e else 0).
Proof.
  induction x as [|a x IH]; intros i j e Hj; [cbn in Hj; lia|].
  destruct j as [|j]; destruct i as [|i]; cbn [add_at nth Nat.eqb]; try ring.
  apply IH. cbn in Hj. lia.
Qed.

Lemma add_at_length x : forall j e, length (add_at j e x) = length x.
Proof. induction x as [|a x IH]; intros [|j] e; cbn; try reflexivity. rewrite IH. reflexivity. Qed.

Lemma normalize_nth l i : (i < length l)%nat -> nth i (normalizeR l) 0 = nth i l 0 / rsum l.
Proof.
  intros Hi. unfold normalizeR, normalize.
  rewrite (nth_indep _ 0 (0 / rsum l)) by (rewrite map_length; exact Hi).
  rewrite (map_nth (fun a => a / rsum l)). reflexivity.
Qed.

(* THEOREM 4a: entry (i,j) of the matrix is the partial derivative of the i-th normalised
   fraction with respect to the j-th extended fraction *)
Lemma dxn_is_jacobian x i j : (i < length x)%nat -> (j < length x)%nat -> rsum x <> 0 ->
  is_derive (fun e => nth i (normalizeR (add_at j e x)) 0) 0 (nth j (nth i (dxnR x) []) 0).
Proof.
  intros Hi Hj HS. rewrite (dxn_entry x i j Hi Hj).
  set (S := rsum x) in *. set (xi := nth i x 0).
  apply (is_derive_ext (fun e => (xi + (if Nat.eqb i j then e else 0)) / (S + e))).
  { intros e. rewrite normalize_nth by (rewrite add_at_length; exact Hi).
    rewrite add_at_nth, add_at_sum by exact Hj. reflexivity. }
  destruct (Nat.eqb i j).
  - auto_derive; [lra|field; lra].
  - auto_derive; [lra|field; lra].
Qed.

(* THEOREM 4b: what the code returns: leading derivatives untouched, the last n replaced by
   gradient x Jacobian, i.e. entry j = sum_i g_i * d(xn_i)/d(x_j) *)
Lemma chainrule_output df x : (length x <= length df)%nat ->
  let n := length x in let k := (length df - n)%nat in
  chainruleR df x =
  inr (firstn k df ++
       map (fun j => rsum (map2 (fun gi row => gi * nth j row 0) (skipn k df) (dxnR x))) (seq 0 n)).
Proof.
  intros H. cbn zeta. unfold chainruleR, chainrule.
  destruct (Nat.ltb_spec (length df) (length x)); [lia|]. reflexivity.
Qed.

Lemma chainrule_short df x : (length df < length x)%nat -> chainruleR df x = inl ValueErr.
Proof.
  intros H. unfold chainruleR, chainrule.
  destruct (Nat.ltb_spec (length df) (length x)); [reflexivity|lia].
Qed.
