(* C32 — proofs over the real instance of the model. *)
From Coq Require Import Reals Lra Nsatz List Bool Arith.
Import ListNotations.
From PP Require Import Model.C32.
Open Scope R_scope.

(* ---------------------------------------------------------------- R instance *)
Definition Rleb (x y : R) : bool := if Rle_dec x y then true else false.
Definition Rltb (x y : R) : bool := if Rlt_dec x y then true else false.

Definition RO : numops R := {|
  n_zero := 0; n_one := 1;
  n_add := Rplus; n_sub := Rminus; n_mul := Rmult; n_div := Rdiv; n_opp := Ropp;
  n_leb := Rleb; n_ltb := Rltb;
  n_sqrt := sqrt;
  n_atol := / 100000000;
  n_ofnat := INR |}.

Lemma Rleb_true x y : Rleb x y = true <-> x <= y.
Proof. unfold Rleb; destruct (Rle_dec x y); split; intros; try lra; congruence. Qed.
Lemma Rleb_false x y : Rleb x y = false <-> y < x.
Proof. unfold Rleb; destruct (Rle_dec x y); split; intros; try lra; congruence. Qed.
Lemma Rltb_true x y : Rltb x y = true <-> x < y.
Proof. unfold Rltb; destruct (Rlt_dec x y); split; intros; try lra; congruence. Qed.
Lemma Rltb_false x y : Rltb x y = false <-> y <= x.
Proof. unfold Rltb; destruct (Rlt_dec x y); split; intros; try lra; congruence. Qed.

Notation V := (v3 R).
Notation M := (m3 R).
Notation dotR := (dot R RO).
Notation crossR := (cross R RO).
Notation mvR := (mv R RO).
Notation mmR := (mm R RO).
Notation mTR := (mT R).
Notation detR := (det R RO).
Notation identR := (ident R RO).
Notation vsubR := (vsub R RO).
Notation vscaleR := (vscale R RO).
Notation vdivR := (vdiv R RO).
Notation normR := (norm R RO).
Notation normalizeR := (normalize R RO).
Notation normsqR := (normsq R RO).
Notation allclose0R := (allclose0 R RO).
Notation atolR := (n_atol R RO).

Ltac rsimp :=
  cbv [plane_matrix_normal line_matrix_tangent rod_unit normalize norm normsq
       madd mscale mm mv mT det ident col0 col1 col2 row0 row1 row2
       vadd vsub vscale vdiv cross dot zero3 vx vy vz
       n_zero n_one n_add n_sub n_mul n_div n_opp n_sqrt n_atol n_leb n_ltb n_ofnat RO
       fst snd] in *.

Lemma atol_pos : 0 < atolR.
Proof. cbn. lra. Qed.

Lemma nabs_Rabs x : nabs R RO x = Rabs x.
Proof.
  unfold nabs; cbn [n_ltb n_zero n_opp RO]. unfold Rltb, Rabs.
  destruct (Rlt_dec x 0), (Rcase_abs x); lra.
Qed.

Lemma nabs_le_sq x a : 0 <= a -> nabs R RO x <= a -> x * x <= a * a.
Proof.
  rewrite nabs_Rabs. intros Ha H. unfold Rabs in H. destruct (Rcase_abs x); nra.
Qed.

Lemma allclose0_true (v : V) :
  allclose0R v = true ->
  vx v * vx v <= atolR * atolR /\ vy v * vy v <= atolR * atolR /\ vz v * vz v <= atolR * atolR.
Proof.
  unfold allclose0. intros H.
  apply andb_true_iff in H as [H Hz]. apply andb_true_iff in H as [Hx Hy].
  cbn [n_leb RO] in *. apply Rleb_true in Hx, Hy, Hz.
  pose proof atol_pos.
  repeat split; apply nabs_le_sq; auto; lra.
Qed.

Lemma allclose0_false_pos (v : V) : allclose0R v = false -> 0 < dotR v v.
Proof.
  unfold allclose0. intros H. pose proof atol_pos as Ha.
  destruct v as [[x y] z]. rsimp.
  assert (Hx: forall t, Rleb (nabs R RO t) (/ 100000000) = false -> 0 < t * t).
  { intros t Ht. apply Rleb_false in Ht. rewrite nabs_Rabs in Ht.
    unfold Rabs in Ht. destruct (Rcase_abs t); nra. }
  apply andb_false_iff in H as [H | H]; [apply andb_false_iff in H as [H | H]|];
    apply Hx in H; nra.
Qed.

(* ------------------------------------------------------------ normalisation *)
Lemma sqrt_facts x : 0 < x -> 0 < sqrt x /\ sqrt x * sqrt x = x.
Proof. intros H. split; [apply sqrt_lt_R0; auto | apply sqrt_sqrt; lra]. Qed.

Lemma normalize_unit (v : V) : 0 < dotR v v -> dotR (normalizeR v) (normalizeR v) = 1.
Proof.
  intros H. destruct (sqrt_facts _ H) as [Hp Hs]. destruct v as [[x y] z]. rsimp.
  set (n := sqrt (x * x + y * y + z * z)) in *.
  replace (x / n * (x / n) + y / n * (y / n) + z / n * (z / n))
    with ((x * x + y * y + z * z) / (n * n)) by (field; lra).
  rewrite Hs. field. lra.
Qed.

Lemma normalize_of_unit (v : V) : dotR v v = 1 -> normalizeR v = v.
Proof.
  intros H. destruct v as [[x y] z]. rsimp. rewrite H, sqrt_1.
  repeat f_equal; field.
Qed.

Lemma m3_ext (a b c d e f g h i a' b' c' d' e' f' g' h' i' : R) :
  a = a' -> b = b' -> c = c' -> d = d' -> e = e' -> f = f' -> g = g' -> h = h' -> i = i' ->
  ((a, b, c), (d, e, f), (g, h, i)) = ((a', b', c'), (d', e', f'), (g', h', i')).
Proof. intros; subst; reflexivity. Qed.

Lemma v3_ext (a b c a' b' c' : R) : a = a' -> b = b' -> c = c' -> (a, b, c) = (a', b', c').
Proof. intros; subst; reflexivity. Qed.

(* --------------------------------------------------------------- Rodrigues *)
Lemma rod_unit_SO3 (sn cs : R) (k : V) :
  dotR k k = 1 -> sn * sn + cs * cs = 1 ->
  let Rm := rod_unit R RO sn cs k in
  mmR (mTR Rm) Rm = identR /\ detR Rm = 1.
Proof.
  destruct k as [[k0 k1] k2]. rsimp. intros Hk Hs.
  split; [apply m3_ext|]; nsatz.
Qed.

Lemma rod_unit_fixes_axis (sn cs t : R) (k : V) :
  mvR (rod_unit R RO sn cs k) (vscaleR t k) = vscaleR t k.
Proof. destruct k as [[k0 k1] k2]. rsimp. apply v3_ext; ring. Qed.

Lemma ident_SO3 : mmR (mTR identR) identR = identR /\ detR identR = 1.
Proof. rsimp. split; [apply m3_ext|]; ring. Qed.

Lemma rotation_matrix_SO3 (sn cs : R) (vect : V) :
  sn * sn + cs * cs = 1 ->
  let Rm := rotation_matrix R RO sn cs vect in
  mmR (mTR Rm) Rm = identR /\ detR Rm = 1.
Proof.
  intros Hs. unfold rotation_matrix. destruct (allclose0R vect) eqn:E.
  - apply ident_SO3.
  - apply rod_unit_SO3; auto.
    apply (normalize_unit vect). apply allclose0_false_pos; auto.
Qed.

Lemma rotation_matrix_fixes_axis (sn cs : R) (vect : V) :
  mvR (rotation_matrix R RO sn cs vect) vect = vect.
Proof.
  unfold rotation_matrix. destruct (allclose0R vect) eqn:E.
  - destruct vect as [[x y] z]. rsimp. apply v3_ext; ring.
  - apply allclose0_false_pos in E. destruct (sqrt_facts _ E) as [Hp _].
    assert (Hv : vect = vscaleR (normR vect) (vdivR vect (normR vect))).
    { destruct vect as [[x y] z]. rsimp. apply v3_ext; field; lra. }
    rewrite Hv at 3 4. apply rod_unit_fixes_axis.
Qed.

(* ------------------------------------------------- orthogonal maps: isometry *)
Lemma orth_dot (A : M) (a b : V) :
  mmR (mTR A) A = identR -> dotR (mvR A a) (mvR A b) = dotR a b.
Proof.
  destruct A as [[[[a00 a01] a02] [[a10 a11] a12]] [[a20 a21] a22]].
  destruct a as [[x0 x1] x2], b as [[y0 y1] y2]. rsimp. intros H.
  injection H as H00 H01 H02 H10 H11 H12 H20 H21 H22.
  transitivity
    (x0 * y0 * (a00 * a00 + a10 * a10 + a20 * a20) + x0 * y1 * (a00 * a01 + a10 * a11 + a20 * a21)
     + x0 * y2 * (a00 * a02 + a10 * a12 + a20 * a22)
     + x1 * y0 * (a01 * a00 + a11 * a10 + a21 * a20) + x1 * y1 * (a01 * a01 + a11 * a11 + a21 * a21)
     + x1 * y2 * (a01 * a02 + a11 * a12 + a21 * a22)
     + x2 * y0 * (a02 * a00 + a12 * a10 + a22 * a20) + x2 * y1 * (a02 * a01 + a12 * a11 + a22 * a21)
     + x2 * y2 * (a02 * a02 + a12 * a12 + a22 * a22)).
  - ring.
  - rewrite H00, H01, H02, H10, H11, H12, H20, H21, H22. ring.
Qed.

Lemma mv_sub (A : M) (a b : V) : vsubR (mvR A a) (mvR A b) = mvR A (vsubR a b).
Proof.
  destruct A as [[[[a00 a01] a02] [[a10 a11] a12]] [[a20 a21] a22]].
  destruct a as [[x0 x1] x2], b as [[y0 y1] y2]. rsimp. apply v3_ext; ring.
Qed.

Lemma isometry (A : M) (x y : V) :
  mmR (mTR A) A = identR ->
  normsqR (vsubR (mvR A x) (mvR A y)) = normsqR (vsubR x y).
Proof. intros H. unfold normsq. rewrite mv_sub. apply orth_dot; auto. Qed.

(* ---------------------------------------- project_plane_matrix / project_line_matrix *)
Lemma lagrange (u r : V) :
  dotR (crossR u r) (crossR u r) = dotR u u * dotR r r - dotR u r * dotR u r.
Proof. destruct u as [[u0 u1] u2], r as [[r0 r1] r2]. rsimp. ring. Qed.

(* sin(arccos d), cos(arccos d): the rewriting used by the model *)
Lemma trig_of_arccos d : -1 <= d <= 1 -> cos (acos d) = d /\ sin (acos d) = sqrt (1 - d * d).
Proof.
  intros H. split; [apply cos_acos; auto|].
  rewrite sin_acos by auto. unfold Rsqr. reflexivity.
Qed.

Lemma rod_maps (s d : R) (u r : V) :
  dotR u u = 1 -> dotR r r = 1 -> d = dotR u r -> 0 < s -> s * s = 1 - d * d ->
  mvR (rod_unit R RO s d (vdivR (crossR u r) s)) u = r.
Proof.
  destruct u as [[u0 u1] u2], r as [[r0 r1] r2]. rsimp. intros Hu Hr Hd Hs Hss.
  assert (Hs0 : s <> 0) by lra.
  assert (HVU : (u1*r2 - u2*r1)*u0 + (u2*r0 - u0*r2)*u1 + (u0*r1 - u1*r0)*u2 = 0) by ring.
  assert (HVV : (u1*r2 - u2*r1)*(u1*r2 - u2*r1) + (u2*r0 - u0*r2)*(u2*r0 - u0*r2)
                + (u0*r1 - u1*r0)*(u0*r1 - u1*r0) = s*s).
  { transitivity ((u0*u0+u1*u1+u2*u2)*(r0*r0+r1*r1+r2*r2)
                  - (u0*r0+u1*r1+u2*r2)*(u0*r0+u1*r1+u2*r2)); [ring|].
    rewrite Hu, Hr, <- Hd, Hss. ring. }
  assert (HX0 : (u2*r0 - u0*r2)*u2 - (u0*r1 - u1*r0)*u1 = r0 - u0*d).
  { transitivity (r0*(u0*u0+u1*u1+u2*u2) - u0*(u0*r0+u1*r1+u2*r2)); [ring|].
    rewrite Hu, <- Hd. ring. }
  assert (HX1 : (u0*r1 - u1*r0)*u0 - (u1*r2 - u2*r1)*u2 = r1 - u1*d).
  { transitivity (r1*(u0*u0+u1*u1+u2*u2) - u1*(u0*r0+u1*r1+u2*r2)); [ring|].
    rewrite Hu, <- Hd. ring. }
  assert (HX2 : (u1*r2 - u2*r1)*u1 - (u2*r0 - u0*r2)*u0 = r2 - u2*d).
  { transitivity (r2*(u0*u0+u1*u1+u2*u2) - u2*(u0*r0+u1*r1+u2*r2)); [ring|].
    rewrite Hu, <- Hd. ring. }
  remember (u1*r2 - u2*r1) as v0. remember (u2*r0 - u0*r2) as v1.
  remember (u0*r1 - u1*r0) as v2.
  apply v3_ext.
  - match goal with |- ?L = _ =>
      replace L with (u0 + (v1*u2 - v2*u1)
                      + (1-d)*((v0*(v0*u0+v1*u1+v2*u2) - u0*(v0*v0+v1*v1+v2*v2))/(s*s)))
        by (field; exact Hs0) end.
    rewrite HVU, HVV, HX0. field. exact Hs0.
  - match goal with |- ?L = _ =>
      replace L with (u1 + (v2*u0 - v0*u2)
                      + (1-d)*((v1*(v0*u0+v1*u1+v2*u2) - u1*(v0*v0+v1*v1+v2*v2))/(s*s)))
        by (field; exact Hs0) end.
    rewrite HVU, HVV, HX1. field. exact Hs0.
  - match goal with |- ?L = _ =>
      replace L with (u2 + (v0*u1 - v1*u0)
                      + (1-d)*((v2*(v0*u0+v1*u1+v2*u2) - u2*(v0*v0+v1*v1+v2*v2))/(s*s)))
        by (field; exact Hs0) end.
    rewrite HVU, HVV, HX2. field. exact Hs0.
Qed.

Lemma band_dist (u r : V) :
  dotR u u = 1 -> dotR r r = 1 ->
  normsqR (vsubR u (vscaleR (dotR u r) r)) = dotR (crossR u r) (crossR u r).
Proof.
  destruct u as [[u0 u1] u2], r as [[r0 r1] r2]. rsimp. intros Hu Hr.
  transitivity ((u0*u0+u1*u1+u2*u2) - 2 * (u0*r0+u1*r1+u2*r2) * (u0*r0+u1*r1+u2*r2)
                + (u0*r0+u1*r1+u2*r2) * (u0*r0+u1*r1+u2*r2) * (r0*r0+r1*r1+r2*r2)); [ring|].
  transitivity ((u0*u0+u1*u1+u2*u2) * (r0*r0+r1*r1+r2*r2)
                - (u0*r0+u1*r1+u2*r2) * (u0*r0+u1*r1+u2*r2)); [|ring].
  rewrite Hu, Hr. ring.
Qed.

Definition in_band (u r : V) : bool := allclose0R (crossR u r).

Lemma project_matrix_spec (u r : V) :
  dotR u u = 1 -> dotR r r = 1 ->
  exists Rm, project_matrix R RO u r = Ok Rm /\
    mmR (mTR Rm) Rm = identR /\ detR Rm = 1 /\
    (in_band u r = false -> mvR Rm u = r) /\
    (in_band u r = true ->
       Rm = identR /\
       normsqR (vsubR u (vscaleR (dotR u r) r)) <= 3 * (atolR * atolR)).
Proof.
  intros Hu Hr. unfold project_matrix, in_band.
  set (d := dotR u r). set (vect := crossR u r).
  pose proof (lagrange u r) as HL. fold vect in HL. rewrite Hu, Hr in HL. fold d in HL.
  assert (Hvv : 0 <= dotR vect vect).
  { destruct vect as [[a b] c]. rsimp. nra. }
  assert (Hd : d * d <= 1) by lra.
  cbn [n_ltb n_one n_mul n_sub n_sqrt RO].
  replace (Rltb 1 (d * d)) with false by (symmetry; apply Rltb_false; lra).
  eexists. split; [reflexivity|].
  assert (Hsq : sqrt (1 - d * d) * sqrt (1 - d * d) = 1 - d * d) by (apply sqrt_sqrt; lra).
  split; [|split].
  - apply rotation_matrix_SO3. lra.
  - apply rotation_matrix_SO3. lra.
  - unfold rotation_matrix. split; intros E; rewrite E.
    + apply allclose0_false_pos in E.
      unfold norm. cbn [n_sqrt RO]. replace (dotR vect vect) with (1 - d * d) by lra.
      apply rod_maps; auto.
      apply sqrt_lt_R0. lra.
    + split; [reflexivity|].
      apply allclose0_true in E. destruct E as (Ex & Ey & Ez).
      assert (Hn : normsqR (vsubR u (vscaleR d r)) = dotR vect vect).
      { apply band_dist; auto. }
      rewrite Hn. destruct vect as [[a b] c]. rsimp. lra.
Qed.

Lemma plane_matrix_normal_spec (normal r : V) :
  0 < dotR normal normal -> dotR r r = 1 ->
  let u := normalizeR normal in
  exists Rm, plane_matrix_normal R RO normal r = Ok Rm /\
    mmR (mTR Rm) Rm = identR /\ detR Rm = 1 /\
    (in_band u r = false -> mvR Rm u = r) /\
    (in_band u r = true ->
       Rm = identR /\
       normsqR (vsubR u (vscaleR (dotR u r) r)) <= 3 * (atolR * atolR)).
Proof.
  intros Hn Hr u. unfold plane_matrix_normal.
  apply project_matrix_spec; auto. apply normalize_unit; auto.
Qed.

Lemma line_matrix_tangent_spec (tangent r : V) :
  0 < dotR tangent tangent -> dotR r r = 1 ->
  let u := normalizeR tangent in
  exists Rm, line_matrix_tangent R RO tangent r = Ok Rm /\
    mmR (mTR Rm) Rm = identR /\ detR Rm = 1 /\
    (in_band u r = false -> mvR Rm u = r) /\
    (in_band u r = true ->
       Rm = identR /\
       normsqR (vsubR u (vscaleR (dotR u r) r)) <= 3 * (atolR * atolR)).
Proof. exact (plane_matrix_normal_spec tangent r). Qed.

(* ------------------------------------------------------------ point sets *)
Notation vsumR := (vsum R RO).
Notation meanR := (mean R RO).

Lemma dot_vadd (m a b : V) : dotR m (vadd R RO a b) = dotR m a + dotR m b.
Proof. destruct m as [[m0 m1] m2], a as [[a0 a1] a2], b as [[b0 b1] b2]. rsimp. ring. Qed.
Lemma dot_vsub (m a b : V) : dotR m (vsubR a b) = dotR m a - dotR m b.
Proof. destruct m as [[m0 m1] m2], a as [[a0 a1] a2], b as [[b0 b1] b2]. rsimp. ring. Qed.
Lemma dot_vdiv_l (a x : V) s : s <> 0 -> dotR (vdivR a s) x = dotR a x / s.
Proof. intros. destruct x as [[m0 m1] m2], a as [[a0 a1] a2]. rsimp. field; auto. Qed.
Lemma dot_vdiv_r (m a : V) s : s <> 0 -> dotR m (vdivR a s) = dotR m a / s.
Proof. intros. destruct m as [[m0 m1] m2], a as [[a0 a1] a2]. rsimp. field; auto. Qed.
Lemma dot_zero3_l (x : V) : dotR (zero3 R RO) x = 0.
Proof. destruct x as [[a b] c]. rsimp. ring. Qed.
Lemma dot_zero3_r (x : V) : dotR x (zero3 R RO) = 0.
Proof. destruct x as [[a b] c]. rsimp. ring. Qed.
Lemma dot_comm (a b : V) : dotR a b = dotR b a.
Proof. destruct a as [[a0 a1] a2], b as [[b0 b1] b2]. rsimp. ring. Qed.
Lemma dot_self_nonneg (a : V) : 0 <= dotR a a.
Proof. destruct a as [[a0 a1] a2]. rsimp. nra. Qed.

Lemma dot_vsum (m : V) d l :
  Forall (fun p => dotR m p = d) l -> dotR m (vsumR l) = INR (length l) * d.
Proof.
  induction 1 as [|p l Hp Hl IH].
  - cbn [vsum fold_right length INR]. rewrite dot_zero3_r. ring.
  - cbn [vsum fold_right]. fold (vsumR l). rewrite dot_vadd, IH, Hp.
    change (length (p :: l)) with (S (length l)). rewrite S_INR. ring.
Qed.

Lemma mean_on_plane (m : V) d l :
  l <> [] -> Forall (fun p => dotR m p = d) l -> dotR m (meanR l) = d.
Proof.
  intros Hne Hall. unfold mean. cbn [n_ofnat RO].
  assert (Hn : INR (length l) <> 0).
  { apply not_0_INR. destruct l; [congruence|cbn; discriminate]. }
  rewrite dot_vdiv_r by auto. rewrite (dot_vsum m d) by auto. field; auto.
Qed.

Lemma cross_perp (m a b x : V) :
  dotR m a = 0 -> dotR m b = 0 -> dotR m x = 0 -> 0 < dotR m m -> dotR (crossR a b) x = 0.
Proof.
  destruct m as [[m0 m1] m2], a as [[a0 a1] a2], b as [[b0 b1] b2], x as [[x0 x1] x2].
  rsimp. intros Ha Hb Hx Hm.
  assert (H : (m0*m0+m1*m1+m2*m2)
              * ((a1*b2-a2*b1)*x0 + (a2*b0-a0*b2)*x1 + (a0*b1-a1*b0)*x2) = 0).
  { transitivity
      ((m0*a0+m1*a1+m2*a2) * ((b1*x2-b2*x1)*m0 + (b2*x0-b0*x2)*m1 + (b0*x1-b1*x0)*m2)
       + (m0*b0+m1*b1+m2*b2) * ((x1*a2-x2*a1)*m0 + (x2*a0-x0*a2)*m1 + (x0*a1-x1*a0)*m2)
       + (m0*x0+m1*x1+m2*x2) * ((a1*b2-a2*b1)*m0 + (a2*b0-a0*b2)*m1 + (a0*b1-a1*b0)*m2));
      [ring|]. rewrite Ha, Hb, Hx. ring. }
  apply Rmult_integral in H as [H|H]; [lra|exact H].
Qed.

Lemma nth_centered_perp (m c : V) d pts i :
  Forall (fun p => dotR m p = d) pts -> dotR m c = d ->
  dotR m (nth i (map (fun p => vsubR p c) pts) (zero3 R RO)) = 0.
Proof.
  intros Hall Hc.
  destruct (nth_in_or_default i (map (fun p => vsubR p c) pts) (zero3 R RO)) as [Hin|He].
  - apply in_map_iff in Hin as (p & <- & Hp). rewrite dot_vsub.
    rewrite Forall_forall in Hall. rewrite (Hall p Hp), Hc. ring.
  - rewrite He. apply dot_zero3_r.
Qed.

Lemma nth_normsq_nonneg (l : list V) i : 0 <= nth i (map normsqR l) 0.
Proof.
  destruct (nth_in_or_default i (map normsqR l) 0) as [Hin|He].
  - apply in_map_iff in Hin as (p & <- & _). apply dot_self_nonneg.
  - rewrite He. lra.
Qed.

Lemma compute_normal_spec (pts : list V) (tol : R) (m : V) (d : R) (n : V) :
  0 < dotR m m -> Forall (fun p => dotR m p = d) pts ->
  compute_normal R RO pts tol = Ok n ->
  dotR n n = 1 /\
  (forall x, dotR m x = 0 -> dotR n x = 0) /\
  (forall p q, In p pts -> In q pts -> dotR n (vsubR p q) = 0).
Proof.
  intros Hm Hall. unfold compute_normal.
  destruct (Nat.leb (length pts) 2) eqn:EL; [discriminate|].
  assert (Hne : pts <> []) by (destruct pts; [discriminate|congruence]).
  pose proof (mean_on_plane m d pts Hne Hall) as Hc.
  cbv zeta.
  set (c := meanR pts) in *.
  set (v := map (fun p => vsubR p c) pts).
  set (i1 := argmax R RO (map normsqR v)).
  set (v1 := nth i1 v (zero3 R RO)).
  set (crs := map (fun w => crossR v1 w) v).
  set (ci := argmax R RO (map normsqR crs)).
  set (normal := nth ci crs (zero3 R RO)).
  set (a2 := n_mul R RO (n_mul R RO tol tol)
               (n_mul R RO (nth i1 (map normsqR v) (n_zero R RO))
                           (nth ci (map normsqR v) (n_zero R RO)))).
  assert (Ha2 : 0 <= a2).
  { subst a2. cbn [n_mul n_zero RO].
    pose proof (nth_normsq_nonneg v i1). pose proof (nth_normsq_nonneg v ci).
    assert (0 <= tol * tol) by nra. apply Rmult_le_pos; auto. apply Rmult_le_pos; auto. }
  assert (Hv1 : dotR m v1 = 0) by (apply (nth_centered_perp m c d); auto).
  assert (Hperp : forall x, dotR m x = 0 -> dotR normal x = 0).
  { intros x Hx. subst normal.
    destruct (nth_in_or_default ci crs (zero3 R RO)) as [Hin|He].
    - apply in_map_iff in Hin as (w & <- & Hw).
      apply (cross_perp m); auto.
      apply in_map_iff in Hw as (p & <- & Hp). rewrite dot_vsub.
      rewrite Forall_forall in Hall. rewrite (Hall p Hp), Hc. ring.
    - rewrite He. apply dot_zero3_l. }
  match goal with |- context [if ?b then _ else _] => destruct b eqn:EB end; [discriminate|].
  intros H. injection H as <-.
  assert (Hpos : 0 < dotR normal normal).
  { cbn [n_leb n_mul RO] in EB. destruct normal as [[x y] z]. rsimp.
    apply andb_false_iff in EB as [EB|EB]; [apply andb_false_iff in EB as [EB|EB]|];
      apply Rleb_false in EB; nra. }
  destruct (sqrt_facts _ Hpos) as [Hsp _].
  split; [apply (normalize_unit normal); auto|].
  assert (Hx : forall x, dotR m x = 0 -> dotR (vdivR normal (normR normal)) x = 0).
  { intros x Hx. unfold norm. cbn [n_sqrt RO]. rewrite dot_vdiv_l by lra.
    rewrite (Hperp x Hx). field. lra. }
  split; [exact Hx|].
  intros p q Hp Hq. apply Hx. rewrite dot_vsub.
  rewrite Forall_forall in Hall. rewrite (Hall p Hp), (Hall q Hq). ring.
Qed.

Lemma plane_matrix_pts_spec (pts : list V) (tol : R) (r m : V) (d : R) (Rm : M) :
  0 < dotR m m -> Forall (fun p => dotR m p = d) pts -> dotR r r = 1 ->
  plane_matrix_pts R RO pts tol r = Ok Rm ->
  exists n, compute_normal R RO pts tol = Ok n /\
    mmR (mTR Rm) Rm = identR /\ detR Rm = 1 /\
    (in_band n r = false ->
       mvR Rm n = r /\
       forall p q, In p pts -> In q pts -> dotR r (mvR Rm (vsubR p q)) = 0) /\
    (in_band n r = true ->
       Rm = identR /\ normsqR (vsubR n (vscaleR (dotR n r) r)) <= 3 * (atolR * atolR)).
Proof.
  intros Hm Hall Hr. unfold plane_matrix_pts.
  destruct (compute_normal R RO pts tol) as [n|e] eqn:EN; [|discriminate].
  destruct (points_are_planar R RO pts n tol); [|discriminate].
  intros H. destruct (compute_normal_spec pts tol m d n Hm Hall EN) as (Hu & Hx & Hpq).
  destruct (project_matrix_spec n r Hu Hr) as (Rm' & E & Ho & Hd & Hout & Hin).
  rewrite E in H. injection H as <-.
  exists n. split; [reflexivity|]. split; [exact Ho|]. split; [exact Hd|].
  split; [|exact Hin].
  intros Hb. split; [apply Hout; exact Hb|].
  intros p q Hp Hq. rewrite <- (Hout Hb) at 1. rewrite orth_dot by exact Ho.
  apply Hpq; auto.
Qed.

(* ------------------------------------------------ TangentialNormalProjection, 3-d *)
Definition tn3_good (b : V * V * V) : Prop :=
  let '(t1, t2, n) := b in
  dotR t1 t1 = 1 /\ dotR t2 t2 = 1 /\ dotR n n = 1 /\
  dotR t1 t2 = 0 /\ dotR t1 n = 0 /\ dotR t2 n = 0 /\
  detR (t1, t2, n) = 1 /\
  inv3 R RO (mTR (t1, t2, n)) = Ok (t1, t2, n) /\
  mvR (t1, t2, n) n = (0, 0, 1).

Lemma tn3_core (t1 n : V) :
  dotR t1 t1 = 1 -> dotR n n = 1 -> dotR t1 n = 0 ->
  tn3_good (t1, crossR n t1, n).
Proof.
  intros H1 Hn H1n. unfold tn3_good.
  assert (Hd : detR (mTR (t1, crossR n t1, n)) = 1).
  { destruct t1 as [[a0 a1] a2], n as [[n0 n1] n2]. rsimp. nsatz. }
  unfold inv3. cbv zeta. rewrite Hd.
  rewrite nabs_Rabs, Rabs_R1. cbn [n_leb n_zero RO].
  replace (Rleb 1 0) with false by (symmetry; apply Rleb_false; lra).
  destruct t1 as [[a0 a1] a2], n as [[n0 n1] n2]. rsimp.
  replace (1 / 1) with 1 by field.
  repeat split; try nsatz.
  - f_equal. apply m3_ext; nsatz.
  - apply v3_ext; nsatz.
Qed.

Lemma gs_lemma (raw n : V) :
  dotR n n = 1 ->
  let w := vsubR raw (vscaleR (dotR raw n) n) in
  0 < dotR w w ->
  let t1 := vdivR w (normR w) in
  tn3_good (t1, vdivR (crossR n t1) (normR (crossR n t1)), n).
Proof.
  intros Hn w Hw t1.
  assert (Hwn : dotR w n = 0).
  { subst t1. clear Hw. subst w. destruct raw as [[a0 a1] a2], n as [[n0 n1] n2]. rsimp. nsatz. }
  assert (H1 : dotR t1 t1 = 1) by (apply (normalize_unit w); auto).
  assert (H1n : dotR t1 n = 0).
  { subst t1. destruct (sqrt_facts _ Hw) as [Hp _]. unfold norm. cbn [n_sqrt RO].
    rewrite dot_vdiv_l by lra. rewrite Hwn. field. lra. }
  assert (Hc : dotR (crossR n t1) (crossR n t1) = 1).
  { rewrite lagrange, Hn, H1, (dot_comm n t1), H1n. ring. }
  change (vdivR (crossR n t1) (normR (crossR n t1))) with (normalizeR (crossR n t1)).
  rewrite (normalize_of_unit _ Hc). apply tn3_core; auto.
Qed.

Lemma gs_norm (raw n : V) :
  dotR n n = 1 ->
  dotR (vsubR raw (vscaleR (dotR raw n) n)) (vsubR raw (vscaleR (dotR raw n) n))
  = dotR raw raw - dotR raw n * dotR raw n.
Proof. destruct raw as [[a0 a1] a2], n as [[n0 n1] n2]. rsimp. intros. nsatz. Qed.

Definition tn3_good_basis (nrm : V) (b : V * V * V) : Prop :=
  snd b = normalizeR nrm /\ tn3_good b.

Lemma tn3_spec (nrm : V) :
  0 < dotR nrm nrm -> tn3_good_basis nrm (tn3_basis R RO nrm).
Proof.
  intros Hpos. unfold tn3_good_basis, tn3_basis.
  pose proof (normalize_unit nrm Hpos) as Hn.
  rewrite (normalize_of_unit _ Hn). set (n := normalizeR nrm) in *.
  cbv zeta. pose proof atol_pos as Ha.
  assert (Hcase : forall raw : V, 0 < dotR raw raw - dotR raw n * dotR raw n ->
     snd (let tc1 := vsubR raw (vscaleR (dotR raw n) n) in
          let tc2 := vdivR tc1 (normR tc1) in
          (tc2, vdivR (crossR n tc2) (normR (crossR n tc2)), n)) = n /\
     tn3_good (let tc1 := vsubR raw (vscaleR (dotR raw n) n) in
          let tc2 := vdivR tc1 (normR tc1) in
          (tc2, vdivR (crossR n tc2) (normR (crossR n tc2)), n))).
  { intros raw Hraw. cbv zeta. split; [reflexivity|]. apply gs_lemma; auto.
    rewrite gs_norm; auto. }
  destruct (argmax3 R RO n) as [|[|k]];
    match goal with |- context [if ?b then _ else _] => destruct b eqn:EB end;
    cbn [n_ltb n_mul n_add RO] in EB;
    [apply Rltb_true in EB | apply Rltb_false in EB | apply Rltb_true in EB
     | apply Rltb_false in EB | apply Rltb_true in EB | apply Rltb_false in EB];
    apply Hcase; clear Hcase; destruct n as [[a b] c]; rsimp.
  - assert (0 <= b * b) by nra. assert (0 <= c * c) by nra.
    assert (0 <= 4 - (1 + c) * (1 + c)) by nra. nra.
  - nra.
  - assert (0 <= a * a) by nra. assert (0 <= c * c) by nra.
    assert (0 <= 4 - (1 + c) * (1 + c)) by nra. nra.
  - nra.
  - assert (0 <= a * a) by nra. assert (0 <= b * b) by nra.
    assert (0 <= 4 - (1 + b) * (1 + b)) by nra. nra.
  - nra.
Qed.

(* ------------------------------------------------ TangentialNormalProjection, 2-d *)
Notation dot2R := (dot2 R RO).
Notation normalize2R := (normalize2 R RO).

Lemma normalize2_unit (a : v2 R) : 0 < dot2R a a -> dot2R (normalize2R a) (normalize2R a) = 1.
Proof.
  intros H. destruct (sqrt_facts _ H) as [Hp Hs]. destruct a as [x y].
  unfold normalize2, dot2 in *. cbn [fst snd n_mul n_add n_div n_sqrt RO] in *.
  set (n := sqrt (x * x + y * y)) in *.
  replace (x / n * (x / n) + y / n * (y / n)) with ((x * x + y * y) / (n * n)) by (field; lra).
  rewrite Hs. field. lra.
Qed.

Lemma normalize2_of_unit (a : v2 R) : dot2R a a = 1 -> normalize2R a = a.
Proof.
  intros H. destruct a as [x y]. unfold normalize2, dot2 in *.
  cbn [fst snd n_mul n_add n_div n_sqrt RO] in *. rewrite H, sqrt_1. f_equal; field.
Qed.

Lemma inv2_orth (t n : v2 R) :
  dot2R t t = 1 -> dot2R n n = 1 -> dot2R t n = 0 ->
  inv2 R RO ((fst t, fst n), (snd t, snd n)) = Ok (t, n).
Proof.
  destruct t as [tx ty], n as [nx ny]. unfold inv2, det2, dot2.
  cbn [fst snd n_mul n_sub n_add n_div n_opp n_leb n_zero RO]. intros Ht Hn Htn.
  set (d := tx * ny - nx * ty).
  assert (Hdd : d * d = 1) by (subst d; nsatz).
  assert (Hd0 : d <> 0) by nra.
  rewrite nabs_Rabs.
  replace (Rleb (Rabs d) 0) with false
    by (symmetry; apply Rleb_false; apply Rabs_pos_lt; auto).
  assert (Hinv : / d = d).
  { apply Rmult_eq_reg_l with d; [rewrite Rinv_r; lra | auto]. }
  unfold Rdiv. rewrite Hinv. subst d.
  assert (E1 : ny * (tx * ny - nx * ty) = tx) by nsatz.
  assert (E2 : - nx * (tx * ny - nx * ty) = ty) by nsatz.
  assert (E3 : - ty * (tx * ny - nx * ty) = nx) by nsatz.
  assert (E4 : tx * (tx * ny - nx * ty) = ny) by nsatz.
  rewrite E1, E2, E3, E4. reflexivity.
Qed.

Definition tn2_good (nrm : v2 R) (b : v2 R * v2 R) : Prop :=
  let '(t1, n) := b in
  n = normalize2R nrm /\
  dot2R t1 t1 = 1 /\ dot2R n n = 1 /\ dot2R t1 n = 0 /\
  tn2_projection R RO nrm = Ok (t1, n) /\
  (dot2R t1 n, dot2R n n) = (0, 1) /\
  det2 R RO (t1, n) * det2 R RO (t1, n) = 1 /\
  (det2 R RO (t1, n) = 1 <-> (0 < snd n \/ (snd n = 0 /\ fst n < 0))).

Lemma tn2_spec (nrm : v2 R) : 0 < dot2R nrm nrm -> tn2_good nrm (tn2_basis R RO nrm).
Proof.
  intros Hpos. unfold tn2_good, tn2_projection, tn2_basis.
  pose proof (normalize2_unit nrm Hpos) as Hn.
  rewrite (normalize2_of_unit _ Hn). remember (normalize2R nrm) as n eqn:En.
  cbv zeta. cbn [n_ltb n_zero n_opp n_one RO].
  destruct n as [a b]. unfold dot2, det2 in *. cbn [fst snd n_mul n_add n_sub RO] in *.
  destruct (Rltb b 0) eqn:E1; [apply Rltb_true in E1|apply Rltb_false in E1];
    [|destruct (Rltb 0 b) eqn:E2; [apply Rltb_true in E2|apply Rltb_false in E2]].
  all: cbn [fst snd].
  - split; [reflexivity|]. split; [nra|]. split; [auto|]. split; [nra|].
    split; [apply (inv2_orth (- b, a) (a, b)); unfold dot2; cbn [fst snd n_mul n_add RO]; nra|].
    split; [f_equal; nra|]. split; [nra|]. split; intros; [nra|lra].
  - split; [reflexivity|]. split; [nra|]. split; [auto|]. split; [nra|].
    split; [apply (inv2_orth (b, - a) (a, b)); unfold dot2; cbn [fst snd n_mul n_add RO]; nra|].
    split; [f_equal; nra|]. split; [nra|]. split; intros; [lra|nra].
  - assert (Hb : b = 0) by lra. subst b.
    assert (Ha : a = 1 \/ a = -1) by (assert ((a - 1) * (a + 1) = 0) by nra;
      apply Rmult_integral in H as [H|H]; [left|right]; lra).
    split; [reflexivity|]. split; [nra|]. split; [auto|]. split; [nra|].
    split; [apply (inv2_orth (0, 1) (a, 0)); unfold dot2; cbn [fst snd n_mul n_add RO]; nra|].
    split; [f_equal; nra|]. split; [nra|].
    split; intros; destruct Ha; subst; lra.
Qed.

(* ---------------------------------------------- collinear sets, tangents, 1-d normals *)
Lemma cross_vadd_l (a b t : V) : crossR (vadd R RO a b) t = vadd R RO (crossR a t) (crossR b t).
Proof. destruct a as [[a0 a1] a2], b as [[b0 b1] b2], t as [[t0 t1] t2]. rsimp. apply v3_ext; ring. Qed.
Lemma cross_vsub_l (a b t : V) : crossR (vsubR a b) t = vsubR (crossR a t) (crossR b t).
Proof. destruct a as [[a0 a1] a2], b as [[b0 b1] b2], t as [[t0 t1] t2]. rsimp. apply v3_ext; ring. Qed.
Lemma cross_vdiv_l (a t : V) s : crossR (vdivR a s) t = vdivR (crossR a t) s.
Proof. destruct a as [[a0 a1] a2], t as [[t0 t1] t2]. rsimp. unfold Rdiv. apply v3_ext; ring. Qed.
Lemma cross_zero3_l (t : V) : crossR (zero3 R RO) t = zero3 R RO.
Proof. destruct t as [[t0 t1] t2]. rsimp. apply v3_ext; ring. Qed.
Lemma vsub_self (a : V) : vsubR a a = zero3 R RO.
Proof. destruct a as [[a0 a1] a2]. rsimp. apply v3_ext; ring. Qed.

Lemma cross_vsum (t w : V) l :
  Forall (fun p => crossR p t = w) l -> crossR (vsumR l) t = vscaleR (INR (length l)) w.
Proof.
  induction 1 as [|p l Hp Hl IH].
  - cbn [vsum fold_right length INR]. rewrite cross_zero3_l.
    destruct w as [[a b] c]. rsimp. apply v3_ext; ring.
  - cbn [vsum fold_right]. fold (vsumR l). rewrite cross_vadd_l, IH, Hp.
    change (length (p :: l)) with (S (length l)). rewrite S_INR.
    destruct w as [[a b] c]. rsimp. apply v3_ext; ring.
Qed.

Lemma mean_on_line (t w : V) l :
  l <> [] -> Forall (fun p => crossR p t = w) l -> crossR (meanR l) t = w.
Proof.
  intros Hne Hall. unfold mean. cbn [n_ofnat RO].
  assert (Hn : INR (length l) <> 0).
  { apply not_0_INR. destruct l; [congruence|cbn; discriminate]. }
  rewrite cross_vdiv_l, (cross_vsum t w) by auto.
  destruct w as [[a b] c]. rsimp. apply v3_ext; field; auto.
Qed.

(* x and g both parallel to t <> 0, g a unit vector: x is a multiple of g *)
Lemma parallel_unit (x g t : V) :
  0 < dotR t t -> crossR x t = zero3 R RO -> crossR g t = zero3 R RO -> dotR g g = 1 ->
  x = vscaleR (dotR x g) g.
Proof.
  destruct x as [[x0 x1] x2], g as [[g0 g1] g2], t as [[t0 t1] t2]. rsimp.
  intros Ht Hx Hg Hgg. injection Hx as X0 X1 X2. injection Hg as G0 G1 G2.
  assert (Hc : forall P : R, (t0*t0+t1*t1+t2*t2) * ((t0*t0+t1*t1+t2*t2) * P) = 0 -> P = 0).
  { intros P HP. apply Rmult_integral in HP as [HP|HP]; [lra|].
    apply Rmult_integral in HP as [HP|HP]; [lra|exact HP]. }
  apply v3_ext; apply Rminus_diag_uniq; apply Hc; nsatz.
Qed.

Lemma compute_tangent_spec (pts : list V) (t w tg : V) :
  0 < dotR t t -> Forall (fun p => crossR p t = w) pts ->
  compute_tangent R RO pts = Ok tg ->
  dotR tg tg = 1 /\ crossR tg t = zero3 R RO /\
  forall p q, In p pts -> In q pts -> vsubR p q = vscaleR (dotR (vsubR p q) tg) tg.
Proof.
  intros Ht Hall. unfold compute_tangent.
  destruct pts as [|p0 pts0] eqn:Ep; [discriminate|]. rewrite <- Ep in *.
  assert (Hne : pts <> []) by (rewrite Ep; discriminate).
  cbv zeta. set (c := meanR pts).
  pose proof (mean_on_line t w pts Hne Hall) as Hc. fold c in Hc.
  set (tl := map (fun p => vsubR p c) pts).
  set (g := nth (argmax R RO (map normsqR tl)) tl (zero3 R RO)).
  assert (Hg : crossR g t = zero3 R RO).
  { subst g. destruct (nth_in_or_default (argmax R RO (map normsqR tl)) tl (zero3 R RO)) as [Hin|He].
    - apply in_map_iff in Hin as (p & <- & Hp). rewrite cross_vsub_l.
      rewrite Forall_forall in Hall. rewrite (Hall p Hp), Hc. apply vsub_self.
    - rewrite He. apply cross_zero3_l. }
  destruct (allclose0R g) eqn:EB; [discriminate|].
  intros H. injection H as <-.
  apply allclose0_false_pos in EB. destruct (sqrt_facts _ EB) as [Hp _].
  assert (Hu : dotR (vdivR g (normR g)) (vdivR g (normR g)) = 1) by (apply (normalize_unit g); auto).
  assert (Hgt : crossR (vdivR g (normR g)) t = zero3 R RO).
  { rewrite cross_vdiv_l, Hg. unfold norm. cbn [n_sqrt RO].
    rsimp. unfold Rdiv. apply v3_ext; ring. }
  split; [exact Hu|]. split; [exact Hgt|].
  intros p q Hpi Hqi. apply (parallel_unit _ _ t); auto.
  rewrite cross_vsub_l. rewrite Forall_forall in Hall.
  rewrite (Hall p Hpi), (Hall q Hqi). apply vsub_self.
Qed.

Lemma mv_vscale (A : M) s (x : V) : mvR A (vscaleR s x) = vscaleR s (mvR A x).
Proof.
  destruct A as [[[[a00 a01] a02] [[a10 a11] a12]] [[a20 a21] a22]], x as [[x0 x1] x2].
  rsimp. apply v3_ext; ring.
Qed.

Lemma line_matrix_pts_spec (pts : list V) (r t w : V) (Rm : M) :
  0 < dotR t t -> Forall (fun p => crossR p t = w) pts -> dotR r r = 1 ->
  line_matrix_pts R RO pts r = Ok Rm ->
  exists tg, compute_tangent R RO pts = Ok tg /\
    mmR (mTR Rm) Rm = identR /\ detR Rm = 1 /\
    (in_band tg r = false ->
       mvR Rm tg = r /\
       forall p q, In p pts -> In q pts ->
         mvR Rm (vsubR p q) = vscaleR (dotR (vsubR p q) tg) r) /\
    (in_band tg r = true ->
       Rm = identR /\ normsqR (vsubR tg (vscaleR (dotR tg r) r)) <= 3 * (atolR * atolR)).
Proof.
  intros Ht Hall Hr. unfold line_matrix_pts.
  destruct (compute_tangent R RO pts) as [tg|e] eqn:ET; [|discriminate].
  intros H. destruct (compute_tangent_spec pts t w tg Ht Hall ET) as (Hu & _ & Hpq).
  destruct (project_matrix_spec tg r Hu Hr) as (Rm' & E & Ho & Hd & Hout & Hin).
  rewrite E in H. injection H as <-.
  exists tg. split; [reflexivity|]. split; [exact Ho|]. split; [exact Hd|].
  split; [|exact Hin].
  intros Hb. split; [apply Hout; exact Hb|].
  intros p q Hp Hq. rewrite (Hpq p q Hp Hq) at 1. rewrite mv_vscale, (Hout Hb). reflexivity.
Qed.

Lemma unit_not_allclose0 (t : V) : dotR t t = 1 -> allclose0R t = false.
Proof.
  intros Ht. destruct (allclose0R t) eqn:E; [|reflexivity].
  apply allclose0_true in E. destruct E as (Ex & Ey & Ez).
  destruct t as [[a b] c]. rsimp. lra.
Qed.

Lemma normals_1d_spec (pts : list V) (n1 n2 : V) :
  compute_normals_1d R RO pts = Ok (n1, n2) ->
  exists tg, compute_tangent R RO pts = Ok tg /\
    (dotR tg tg = 1 ->
     dotR n1 n1 = 1 /\ dotR n2 n2 = 1 /\ dotR n1 n2 = 0 /\ dotR n1 tg = 0 /\ dotR n2 tg = 0).
Proof.
  unfold compute_normals_1d.
  destruct (compute_tangent R RO pts) as [tg|e] eqn:ET; [|discriminate].
  cbv zeta. match goal with |- context [if ?b then _ else _] => destruct b eqn:EB end;
    [discriminate|].
  intros H. injection H as <- <-. exists tg. split; [reflexivity|]. intros Hu.
  cbn [n_leb n_zero RO] in EB. apply Rleb_false in EB.
  unfold rotation_matrix. rewrite (unit_not_allclose0 tg Hu).
  change (vdivR tg (normR tg)) with (normalizeR tg). rewrite (normalize_of_unit tg Hu).
  destruct tg as [[a b] c]. rsimp.
  destruct (sqrt_facts _ EB) as [Hp Hs]. set (h := sqrt (a * a + b * b)) in *.
  assert (Hh : h <> 0) by lra.
  assert (Hi : / h * / h * (a * a + b * b) = 1) by (rewrite <- Hs; field; auto).
  unfold Rdiv. remember (/ h) as ih. clear Heqih Hp Hs Hh h EB.
  repeat split; nsatz.
Qed.
