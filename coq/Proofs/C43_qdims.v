(* C43 — soundness of the rational-exponent dimension normal form. *)
From Coq Require Import String Ascii List ZArith QArith Qabs Bool Reals Qreals Lra Lia.
Import ListNotations.
From PP Require Import Model.C43 Model.C43_qdims Proofs.C43.
Open Scope string_scope.
Open Scope R_scope.

Fixpoint qdims_val (xs : list R) (d : list Q) : R :=
  match xs, d with
  | x :: xs', k :: d' => Rpower x (Q2R k) * qdims_val xs' d'
  | _, _ => 1
  end.

Definition qeval (pi_ : R) (xs : list R) (m : qmono) : R :=
  Q2R (qcoef m) * powerRZ pi_ (qpi m) * qdims_val xs (qd m).

Lemma Some_inj : forall {A} (a b : A), Some a = Some b -> a = b.
Proof. intros A a b H. now injection H. Qed.

Lemma Rpower_one : forall q, Rpower 1 q = 1.
Proof. intros q. unfold Rpower. rewrite ln_1, Rmult_0_r. apply exp_0. Qed.

Lemma Q2R_inject_Z : forall k, Q2R (inject_Z k) = IZR k.
Proof. intros k. unfold Q2R, inject_Z; cbn. field. Qed.

Lemma qdims_val_pos : forall xs d, 0 < qdims_val xs d.
Proof.
  induction xs as [|x l IH]; intros d; cbn; [lra|]. destruct d; [lra|].
  apply Rmult_lt_0_compat; [unfold Rpower; apply exp_pos|apply IH].
Qed.

Lemma qdims_val_inject : forall xs, all_pos xs -> forall d,
  qdims_val xs (map inject_Z d) = dims_val xs d.
Proof.
  induction xs as [|x l IH]; intros Hp d; [destruct d; reflexivity|].
  inversion Hp as [|? ? Hx Hl]; subst. destruct d as [|k d]; cbn; [reflexivity|].
  rewrite (IH Hl), Q2R_inject_Z, <- powerRZ_Rpower by assumption. reflexivity.
Qed.

Lemma qdims_val_vadd : forall xs a b,
  qdims_val xs (qvadd a b) = qdims_val xs a * qdims_val xs b.
Proof.
  induction xs as [|x l IH]; intros a b.
  - destruct a, b; cbn; lra.
  - destruct a as [|p a], b as [|q b]; cbn [qdims_val qvadd]; try lra.
    rewrite IH, Q2R_Qred, Q2R_plus, Rpower_plus. ring.
Qed.

Lemma qdims_val_frac : forall xs, all_pos xs -> forall d q,
  qdims_val xs (map (fun k => Qred (inject_Z k * q)) d) = Rpower (dims_val xs d) (Q2R q).
Proof.
  induction xs as [|x l IH]; intros Hp d q.
  - destruct d; cbn; now rewrite Rpower_one.
  - inversion Hp as [|? ? Hx Hl]; subst.
    destruct d as [|k d]; cbn [qdims_val dims_val map]; [now rewrite Rpower_one|].
    rewrite (IH Hl), Q2R_Qred, Q2R_mult, Q2R_inject_Z.
    rewrite <- Rpower_mult_distr by (first [now apply powerRZ_lt | now apply dims_val_pos]).
    rewrite (powerRZ_Rpower x k Hx), Rpower_mult. reflexivity.
Qed.

Section QMono.
  Variable pi_ : R.
  Hypothesis pi_pos : 0 < pi_.
  Variable derived : list (string * uexpr).
  Variable other : list string.
  Hypothesis derived_pos : table_pos derived = true.
  Variable env : list (string * R).
  Hypothesis Henv : env_pos env.
  Hypothesis Hnd : nodupb (map fst env) = true.
  Notation ops := (ROps pi_).
  Notation bases := (map fst env).
  Notation xs := (map snd env).
  Notation ev := (eval_mono pi_ xs).
  Notation qev := (qeval pi_ xs).

  Let Hxs : all_pos xs := xs_pos env Henv.

  Lemma qev_of_mono : forall m, qev (of_mono m) = ev m.
  Proof.
    intros m. unfold qeval, eval_mono, of_mono; cbn [qcoef qpi qd].
    now rewrite qdims_val_inject.
  Qed.

  Lemma qev_pos : forall m, 0 < Q2R (qcoef m) -> 0 < qev m.
  Proof.
    intros m H. unfold qeval. apply Rmult_lt_0_compat; [apply Rmult_lt_0_compat|]; auto.
    - now apply powerRZ_lt.
    - apply qdims_val_pos.
  Qed.

  Lemma qev_mul : forall a b, qev (qmono_mul a b) = qev a * qev b.
  Proof.
    intros a b. unfold qeval, qmono_mul; cbn [qcoef qpi qd].
    rewrite Q2R_Qred, Q2R_mult, powerRZ_add, qdims_val_vadd by lra. ring.
  Qed.

  Definition qwf (m : qmono) : Prop := 0 < Q2R (qcoef m).

  Lemma qmono_of_sub_sound : forall sub m, qmono_of_sub bases derived sub = Some m ->
    sub_factor ops derived other env sub = Ok (qev m) /\ qwf m.
  Proof.
    intros sub m H. unfold qmono_of_sub in H. unfold sub_factor.
    destruct (tokenize sub) as [s|s p|]; [| |discriminate].
    - destruct (mono_of_name bases derived s) as [m0|] eqn:E0; [|discriminate].
      cbn in H. apply Some_inj in H; subst m.
      destruct (mono_of_name_sound pi_ pi_pos derived other env Henv Hnd _ _ E0) as [-> W0].
      rewrite qev_of_mono. split; [reflexivity|exact W0].
    - destruct (mono_of_name bases derived s) as [m0|] eqn:E0; [|discriminate].
      destruct (mono_of_name_sound pi_ pi_pos derived other env Henv Hnd _ _ E0) as [Eg W0].
      rewrite Eg. cbn [bind].
      destruct (parse_float p) as [q| |]; try discriminate.
      destruct (Pos.eqb (Qden (Qred q)) 1) eqn:Ed.
      + apply Some_inj in H; subst m. apply Pos.eqb_eq in Ed. cbn [tpowQ ROps].
        destruct (ev_pow pi_ pi_pos env Henv m0 (Qnum (Qred q)) W0) as [Ep W].
        rewrite qev_of_mono, Ep. split; [|exact W].
        f_equal. rewrite powerRZ_Rpower by (now apply ev_pos). f_equal.
        rewrite <- (Q2R_Qred q). unfold Q2R. rewrite Ed. cbn. field.
      + unfold qpow_frac in H.
        destruct (Qeq_bool (coef m0) 1 && Z.eqb (pi_exp m0) 0) eqn:Ec; [|discriminate].
        apply Some_inj in H; subst m. apply andb_true_iff in Ec as [Ec Ep].
        apply Qeq_bool_iff, Qeq_eqR in Ec. apply Z.eqb_eq in Ep.
        cbn [tpowQ ROps]. split.
        * f_equal. unfold qeval; cbn [qcoef qpi qd].
          rewrite qdims_val_frac by assumption.
          unfold eval_mono. rewrite Ec, Ep, Q2R_one. cbn [powerRZ].
          replace (1 * 1 * dims_val xs (dims m0)) with (dims_val xs (dims m0)) by ring. ring.
        * unfold qwf; cbn [qcoef]. rewrite Q2R_one. lra.
  Qed.

  Lemma qmono_of_subs_sound : forall subs m, qmono_of_subs bases derived subs = Some m ->
    exists fs, factors pi_ derived other env subs = Ok fs /\ prod fs = qev m /\ qwf m.
  Proof.
    induction subs as [|s r IH]; intros m H; cbn in H.
    - injection H as <-. exists []. destruct (ev_one pi_ env) as [E W].
      rewrite qev_of_mono. cbn [factors prod]. rewrite E. auto.
    - destruct (qmono_of_sub bases derived s) as [a|] eqn:Ea; [|discriminate].
      destruct (qmono_of_subs bases derived r) as [b|] eqn:Eb; [|discriminate].
      injection H as <-. destruct (qmono_of_sub_sound _ _ Ea) as [Es Wa].
      destruct (IH _ eq_refl) as (fs & Ef & Ep & Wb).
      exists (qev a :: fs). cbn [factors]. rewrite Es. cbn [bind]. rewrite Ef. cbn [bind prod].
      rewrite qev_mul, Ep. repeat split; auto.
      unfold qwf, qmono_mul; cbn [qcoef]. rewrite Q2R_Qred, Q2R_mult.
      now apply Rmult_lt_0_compat.
  Qed.

  Lemma qmono_of_units_sound : forall units m, qmono_of_units bases derived units = Some m ->
    exists fs, unit_factors pi_ derived other env units = Ok fs /\ prod fs = qev m /\ qwf m.
  Proof.
    intros units m H. unfold qmono_of_units in H. unfold unit_factors.
    destruct (is_marker (strip_spaces units)); [|now apply qmono_of_subs_sound].
    injection H as <-. exists []. destruct (ev_one pi_ env) as [E W].
    rewrite qev_of_mono. cbn [prod]. rewrite E. auto.
  Qed.

  Lemma qmono_eqb_sound : forall a b, qmono_eqb a b = true -> qev a = qev b.
  Proof.
    intros a b H. unfold qmono_eqb in H.
    apply andb_true_iff in H as [H Hd]. apply andb_true_iff in H as [Hc Hp].
    apply Qeq_bool_iff, Qeq_eqR in Hc. apply Z.eqb_eq in Hp.
    assert (forall xs', qdims_val xs' (qd a) = qdims_val xs' (qd b)) as Ed.
    { clear -Hd. revert Hd. generalize (qd a) (qd b).
      induction l as [|x l IH]; intros [|y l'] H xs'; cbn in H; try discriminate; auto.
      apply andb_true_iff in H as [Hx Hl]. apply Qeq_bool_iff, Qeq_eqR in Hx.
      destruct xs' as [|z xs']; cbn; [reflexivity|]. rewrite Hx, (IH _ Hl). reflexivity. }
    unfold qeval. now rewrite Hc, Hp, Ed.
  Qed.
End QMono.

From PP Require Import Gen.C43_tables.

(* unit strings with integer AND decimal powers: a string with a rational normal form never
   raises, scales by the positive value of the form; equal forms convert identically *)
Lemma qdimension_lemma : forall pi_ env u1 m1,
  0 < pi_ -> valid_env env ->
  qmono_of_units base_names derived_table u1 = Some m1 ->
  0 < qeval pi_ (map snd env) m1 /\
  (forall v ts, convert (ROps pi_) derived_table other_attrs env v u1 ts =
                Ok (apply_factor ts (qeval pi_ (map snd env) m1) v)) /\
  (forall u2 m2, qmono_of_units base_names derived_table u2 = Some m2 ->
     qmono_eqb m1 m2 = true ->
     forall v ts, convert (ROps pi_) derived_table other_attrs env v u1 ts =
                  convert (ROps pi_) derived_table other_attrs env v u2 ts).
Proof.
  intros pi_ env u1 m1 Hpi [Hk Hp] H1.
  assert (Hnd : nodupb (map fst env) = true) by (rewrite Hk; apply gen_bases_nodup).
  rewrite <- Hk in *.
  assert (forall u m, qmono_of_units (map fst env) derived_table u = Some m ->
            0 < qeval pi_ (map snd env) m /\
            forall v ts, convert (ROps pi_) derived_table other_attrs env v u ts =
                         Ok (apply_factor ts (qeval pi_ (map snd env) m) v)) as Hone.
  { intros u m Hm.
    destruct (qmono_of_units_sound pi_ Hpi derived_table other_attrs env Hp Hnd u m Hm)
      as (fs & Ef & Epr & W).
    split; [now apply qev_pos|].
    intros v ts. rewrite (convert_closed pi_ Hpi derived_table other_attrs gen_table_pos env Hp).
    rewrite Ef. cbn. now rewrite Epr. }
  destruct (Hone _ _ H1) as [P1 C1]. split; [exact P1|]. split; [exact C1|].
  intros u2 m2 H2 He v ts. destruct (Hone _ _ H2) as [P2 C2].
  rewrite C1, C2. now rewrite (qmono_eqb_sound pi_ env m1 m2 He).
Qed.

Definition real_power_spellings : list (string * string) :=
  [("Pa^0.5 * m^0.5", "kg^0.5 * s^-1"); ("J^1.5", "kg^1.5*m^3*s^-3");
   ("W^-0.25*W^0.25", "1"); ("m^0.5*m^0.5", "m"); ("N^2.5*m^-2.5", "Pa^2.5*m^2.5")].

Definition same_qmono (a b : string) : bool :=
  match qmono_of_units base_names derived_table a, qmono_of_units base_names derived_table b with
  | Some x, Some y => qmono_eqb x y
  | _, _ => false
  end.

Lemma real_spellings_lemma : forall pi_ env, 0 < pi_ -> valid_env env ->
  Forall (fun ab => forall v ts,
            convert (ROps pi_) derived_table other_attrs env v (fst ab) ts =
            convert (ROps pi_) derived_table other_attrs env v (snd ab) ts) real_power_spellings.
Proof.
  intros pi_ env Hpi Hv.
  assert (Hall : forallb (fun ab => same_qmono (fst ab) (snd ab)) real_power_spellings = true)
    by (vm_compute; reflexivity).
  rewrite forallb_forall in Hall. apply Forall_forall. intros [a b] Hin v ts.
  specialize (Hall _ Hin). unfold same_qmono in Hall. cbn [fst snd] in *.
  destruct (qmono_of_units base_names derived_table a) as [x|] eqn:Ea; [|discriminate].
  destruct (qmono_of_units base_names derived_table b) as [y|] eqn:Eb; [|discriminate].
  destruct (qdimension_lemma pi_ env a x Hpi Hv Ea) as (_ & _ & H). now apply (H b y).
Qed.
