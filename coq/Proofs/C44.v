(* C44 — proofs: Cyrus-Beck clipping is exact; the glue of lines_by_polygon keeps exactly
   the line pieces shapely reports that are not on the boundary. *)
From Coq Require Import List ZArith QArith Qabs Qminmax Bool Arith Lia Lqa Sorted.
Import ListNotations.
From PP Require Import Model.C44.
Open Scope Q_scope.

(* ---------------------------------------------------------------- Part 1 *)
Lemma hval_affine : forall h p0 p1 t,
    hval h (seg_pt p0 p1 t) == hval h p0 + (hval h p1 - hval h p0) * t.
Proof. intros h [x0 y0] [x1 y1] t. unfold hval, seg_pt, px, py. cbn [fst snd]. ring. Qed.

Definition in_state (st : option (Q * Q)) (t : Q) : Prop :=
  match st with Some (t0, t1) => t0 <= t /\ t <= t1 | None => False end.

Lemma bound_pos : forall a b t, 0 < b -> (t <= - a / b <-> a + b * t <= 0).
Proof.
  intros a b t Hb.
  assert (E : b * (- a / b) == - a) by (field; intro H; rewrite H in Hb; lra).
  split; intro H.
  - apply (proj2 (Qmult_le_l t (- a / b) b Hb)) in H. rewrite E in H. lra.
  - apply (proj1 (Qmult_le_l t (- a / b) b Hb)). rewrite E. lra.
Qed.

Lemma bound_neg : forall a b t, b < 0 -> (- a / b <= t <-> a + b * t <= 0).
Proof.
  intros a b t Hb.
  assert (Hc : 0 < - b) by lra.
  assert (E : (- b) * (- a / b) == a) by (field; intro H; rewrite H in Hb; lra).
  split; intro H.
  - apply (proj2 (Qmult_le_l (- a / b) t (- b) Hc)) in H. rewrite E in H.
    assert (E2 : - b * t == - (b * t)) by ring. rewrite E2 in H. lra.
  - apply (proj1 (Qmult_le_l (- a / b) t (- b) Hc)). rewrite E.
    assert (E2 : - b * t == - (b * t)) by ring. rewrite E2. lra.
Qed.

Lemma Qle_bool_false : forall a b, Qle_bool a b = false -> b < a.
Proof.
  intros a b H. apply Qnot_le_lt. intro H1. apply Qle_bool_iff in H1. congruence.
Qed.

Lemma step_spec : forall p0 p1 st h t,
    in_state (clip_step p0 p1 st h) t
    <-> in_state st t /\ hval h (seg_pt p0 p1 t) <= 0.
Proof.
  intros p0 p1 st h t. rewrite hval_affine.
  destruct st as [[t0 t1]|]; cbn [clip_step in_state]; [|tauto].
  generalize (hval h p0) (hval h p1 - hval h p0). intros a b.
  destruct (Qeq_bool b 0) eqn:Eb.
  - apply Qeq_bool_iff in Eb. rewrite Eb.
    destruct (Qle_bool a 0) eqn:Ea.
    + apply Qle_bool_iff in Ea. cbn [in_state]. split; [intros [A B]|intros [[A B] _]]; repeat split; lra.
    + apply Qle_bool_false in Ea. cbn [in_state]. split; [tauto|]. intros [_ H]. lra.
  - assert (Hb : ~ b == 0) by (intro H; apply Qeq_bool_iff in H; congruence).
    destruct (Qle_bool 0 b) eqn:Ep.
    + apply Qle_bool_iff in Ep.
      assert (Hpos : 0 < b) by (apply Qnot_le_lt; intro H; apply Hb; lra).
      destruct (Qle_bool t0 (Qmin t1 (- a / b))) eqn:E1; cbn [in_state].
      * rewrite Q.min_glb_iff, (bound_pos a b t Hpos). tauto.
      * apply Qle_bool_false in E1. split; [tauto|]. intros [[A B] C].
        apply (bound_pos a b t Hpos) in C.
        assert (D : t <= Qmin t1 (- a / b)) by (apply Q.min_glb_iff; split; assumption).
        lra.
    + apply Qle_bool_false in Ep.
      destruct (Qle_bool (Qmax t0 (- a / b)) t1) eqn:E1; cbn [in_state].
      * rewrite Q.max_lub_iff, (bound_neg a b t Ep). tauto.
      * apply Qle_bool_false in E1. split; [tauto|]. intros [[A B] C].
        apply (bound_neg a b t Ep) in C.
        assert (D : Qmax t0 (- a / b) <= t) by (apply Q.max_lub_iff; split; assumption).
        lra.
Qed.

Lemma fold_spec : forall p0 p1 hs st t,
    in_state (fold_left (clip_step p0 p1) hs st) t
    <-> in_state st t /\ (forall h, In h hs -> hval h (seg_pt p0 p1 t) <= 0).
Proof.
  intros p0 p1 hs. induction hs as [|h hs IH]; intros st t; cbn [fold_left].
  - split; [intro H; split; [exact H|intros h []]|tauto].
  - rewrite IH, step_spec. split.
    + intros [[A B] C]. split; [exact A|]. intros h' [E|E]; [subst; exact B|apply C; exact E].
    + intros [A C]. split; [split; [exact A|apply C; left; reflexivity]|].
      intros h' E. apply C. right. exact E.
Qed.

(* the point of the segment with parameter t (0 <= t <= 1) lies in all half-planes iff t is
   in the returned interval; no interval = no point of the segment inside *)
Lemma clip_spec : forall p0 p1 hs t,
    0 <= t -> t <= 1 ->
    ((forall h, In h hs -> hval h (seg_pt p0 p1 t) <= 0)
     <-> match clip p0 p1 hs with Some (t0, t1) => t0 <= t /\ t <= t1 | None => False end).
Proof.
  intros p0 p1 hs t H0 H1. unfold clip.
  pose proof (fold_spec p0 p1 hs (Some (0, 1)) t) as F. unfold in_state in F at 2.
  change (match fold_left (clip_step p0 p1) hs (Some (0, 1)) with
          | Some (t0, t1) => t0 <= t /\ t <= t1 | None => False end)
    with (in_state (fold_left (clip_step p0 p1) hs (Some (0, 1))) t).
  rewrite F. tauto.
Qed.

(* the returned interval is a sub-interval of [0, 1] *)
Lemma step_range : forall p0 p1 st h,
    (forall t, in_state st t -> 0 <= t /\ t <= 1) ->
    forall t, in_state (clip_step p0 p1 st h) t -> 0 <= t /\ t <= 1.
Proof. intros p0 p1 st h H t Ht. apply step_spec in Ht. apply H. tauto. Qed.

Lemma fold_range : forall p0 p1 hs st,
    (forall t, in_state st t -> 0 <= t /\ t <= 1) ->
    (match st with Some (a, b) => a <= b | None => True end) ->
    forall a b, fold_left (clip_step p0 p1) hs st = Some (a, b) ->
                0 <= a /\ a <= b /\ b <= 1.
Proof.
  intros p0 p1 hs. induction hs as [|h hs IH]; intros st Hr Hn a b E; cbn [fold_left] in E.
  - subst st. destruct (Hr a) as [A _]; [cbn; lra|]. destruct (Hr b) as [_ B]; [cbn; lra|]. lra.
  - apply (IH (clip_step p0 p1 st h)); [apply step_range; exact Hr| |exact E].
    destruct st as [[u v]|]; cbn [clip_step]; [|exact I].
    destruct (Qeq_bool _ 0); [destruct (Qle_bool _ 0); [exact Hn|exact I]|].
    destruct (Qle_bool 0 _).
    + destruct (Qle_bool u _) eqn:E1; [apply Qle_bool_iff in E1; exact E1|exact I].
    + destruct (Qle_bool _ v) eqn:E1; [apply Qle_bool_iff in E1; exact E1|exact I].
Qed.

Lemma clip_range : forall p0 p1 hs t0 t1,
    clip p0 p1 hs = Some (t0, t1) -> 0 <= t0 /\ t0 <= t1 /\ t1 <= 1.
Proof.
  intros p0 p1 hs t0 t1 H.
  apply (fold_range p0 p1 hs (Some (0, 1))); [cbn; intros; lra|lra|exact H].
Qed.

(* ---------------------------------------------------------------- Part 2 *)
Section GlueProofs.
  Variable piece : Type.
  Variable isect : nat -> geom piece.
  Variables nonempty touches poslen : piece -> bool.

  Notation lines_of := (lines_of piece).
  Notation keep := (keep piece nonempty touches poslen).
  Notation edge_result := (edge_result piece isect nonempty touches poslen).
  Notation result := (result piece isect nonempty touches poslen).
  Notation kept := (kept piece isect nonempty touches poslen).

  Lemma in_result : forall ne p ei,
      In (p, ei) (result ne)
      <-> (ei < ne)%nat /\ In p (lines_of (isect ei)) /\ keep p = true.
  Proof.
    intros ne p ei. unfold Model.C44.result, Model.C44.edge_result.
    rewrite in_flat_map. split.
    - intros [e [He H]]. apply in_map_iff in H. destruct H as [q [Eq Hq]].
      inversion Eq; subst. apply filter_In in Hq. apply in_seq in He. split; [lia|exact Hq].
    - intros [Hlt [Hin Hk]]. exists ei. split; [apply in_seq; lia|].
      apply in_map_iff. exists p. split; [reflexivity|]. apply filter_In. split; assumption.
  Qed.

  Lemma sorted_block : forall (s : nat) (l1 l2 : list nat),
      Forall (eq s) l1 -> Forall (le s) l2 -> StronglySorted le l2 ->
      StronglySorted le (l1 ++ l2).
  Proof.
    intros s l1 l2 H1 H2 H3. induction l1 as [|x l1 IH]; cbn [app]; [exact H3|].
    inversion H1 as [|y l Hx Hl]; subst. constructor; [apply IH; assumption|].
    apply Forall_app. split; [|exact H2].
    eapply Forall_impl; [|exact Hl]. intros a Ha. subst. apply le_n.
  Qed.

  Lemma kept_from : forall n s,
      StronglySorted le (map snd (flat_map edge_result (seq s n)))
      /\ Forall (le s) (map snd (flat_map edge_result (seq s n))).
  Proof.
    induction n as [|n IH]; intros s; cbn [seq flat_map map].
    - split; constructor.
    - destruct (IH (S s)) as [A B]. rewrite map_app.
      assert (E : Forall (eq s) (map snd (edge_result s))).
      { unfold Model.C44.edge_result. rewrite map_map. cbn [snd].
        apply Forall_forall. intros x Hx. apply in_map_iff in Hx. destruct Hx as [? [Hx _]]. auto. }
      assert (B' : Forall (le s) (map snd (flat_map edge_result (seq (S s) n)))).
      { eapply Forall_impl; [|exact B]. intros a Ha. lia. }
      split.
      + apply (sorted_block s); assumption.
      + apply Forall_app. split; [|exact B'].
        eapply Forall_impl; [|exact E]. intros a Ha. subst. apply le_n.
  Qed.

  (* the kept-edge indices come out in non-decreasing order (so the code's sort of
     edges_kept does not move anything and piece k carries the tags of edge kept[k]) *)
  Lemma kept_sorted : forall ne, StronglySorted le (kept ne).
  Proof. intros ne. unfold Model.C44.kept, Model.C44.result. apply (kept_from ne 0). Qed.

  Lemma tags_follow : forall (T : Type) (tag : nat -> T) ne,
      tags_out piece isect nonempty touches poslen tag ne = map (fun r => tag (snd r)) (result ne).
  Proof. intros T tag ne. unfold tags_out, Model.C44.kept. rewrite map_map. reflexivity. Qed.

  (* geometric reading, under shapely's contract *)
  Variable P : Type.
  Variable on_piece : piece -> P -> Prop.
  Variable on_seg : nat -> P -> Prop.
  Variables in_poly interior : P -> Prop.
  Variable isolated : nat -> P -> Prop.   (* x is a Point part of the intersection *)
  Hypothesis sh_inside : forall ei p x,
      In p (lines_of (isect ei)) -> on_piece p x -> on_seg ei x /\ in_poly x.
  Hypothesis sh_covers : forall ei x,
      on_seg ei x -> in_poly x ->
      (exists p, In p (lines_of (isect ei)) /\ on_piece p x) \/ isolated ei x.
  Hypothesis sh_isolated : forall ei x, isolated ei x -> ~ interior x.
  Hypothesis sh_touches : forall p x, touches p = true -> on_piece p x -> ~ interior x.
  Hypothesis sh_poslen : forall p x, poslen p = false -> on_piece p x -> ~ interior x.
  Hypothesis sh_nonempty : forall p x, on_piece p x -> nonempty p = true.
  Hypothesis interior_in : forall x, interior x -> in_poly x.

  Lemma glue_inside : forall ne p ei x,
      In (p, ei) (result ne) -> on_piece p x -> on_seg ei x /\ in_poly x.
  Proof.
    intros ne p ei x H Hx. apply in_result in H. destruct H as [_ [Hin _]].
    exact (sh_inside ei p x Hin Hx).
  Qed.

  Lemma glue_covers : forall ne ei x,
      (ei < ne)%nat -> on_seg ei x -> interior x ->
      exists p, In (p, ei) (result ne) /\ on_piece p x.
  Proof.
    intros ne ei x Hlt Hs Hi.
    destruct (sh_covers ei x Hs (interior_in x Hi)) as [[p [Hin Hx]]|Hiso].
    - exists p. split; [|exact Hx]. apply in_result. split; [exact Hlt|]. split; [exact Hin|].
      unfold Model.C44.keep. rewrite (sh_nonempty p x Hx).
      destruct (touches p) eqn:Et; [exfalso; exact (sh_touches p x Et Hx Hi)|].
      destruct (poslen p) eqn:El; [reflexivity|exfalso; exact (sh_poslen p x El Hx Hi)].
    - exfalso. exact (sh_isolated ei x Hiso Hi).
  Qed.
End GlueProofs.

Lemma clip_inside : forall p0 p1 hs t0 t1,
    clip p0 p1 hs = Some (t0, t1) ->
    0 <= t0 /\ t0 <= t1 /\ t1 <= 1 /\
    forall t, t0 <= t -> t <= t1 -> forall h, In h hs -> hval h (seg_pt p0 p1 t) <= 0.
Proof.
  intros p0 p1 hs t0 t1 H. destruct (clip_range p0 p1 hs t0 t1 H) as [A [B C]].
  repeat split; try assumption. intros t Ha Hb.
  assert (H0 : 0 <= t) by lra. assert (H1 : t <= 1) by lra.
  apply (clip_spec p0 p1 hs t H0 H1). rewrite H. split; assumption.
Qed.
