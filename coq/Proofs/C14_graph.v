(* C14 — graph lemmas on the incidence model: the family of subproblems built by
   _fvutils.subproblems satisfies the structural hypotheses of the gluing theorem for EVERY
   consistent grid and partition vector, and the stencils returned by
   cell_ind_for_partial_update contain the whole interaction region of every node of every
   active face. *)
From Coq Require Import List Arith Bool Lia.
Import ListNotations.
From PP Require Import Model.C14.

(* ================================================================ list helpers *)

Lemma memb_In : forall x l, memb x l = true <-> In x l.
Proof.
  intros x l. unfold memb. rewrite existsb_exists. split.
  - intros [y [Hy E]]. apply Nat.eqb_eq in E. subst. exact Hy.
  - intros H. exists x. split; [exact H|apply Nat.eqb_refl].
Qed.

Lemma where_from_spec : forall {E} (p : E -> bool) (l : list E) s i,
  In i (map fst (filter (fun ie => p (snd ie)) (combine (seq s (length l)) l))) <->
  exists k x, i = s + k /\ nth_error l k = Some x /\ p x = true.
Proof.
  intros E p. induction l as [|y l IH]; intros s i.
  - cbn. split; [contradiction|]. intros [k [x [_ [H _]]]]. destruct k; discriminate.
  - cbn [length seq combine filter snd]. destruct (p y) eqn:Py.
    + cbn [map fst In]. rewrite IH. split.
      * intros [H|[k [x [H1 [H2 H3]]]]].
        -- exists 0, y. repeat split; [lia|exact Py].
        -- exists (S k), x. repeat split; [lia|exact H2|exact H3].
      * intros [k [x [H1 [H2 H3]]]]. destruct k as [|k].
        -- left. lia.
        -- right. exists k, x. repeat split; [lia|exact H2|exact H3].
    + rewrite IH. split.
      * intros [k [x [H1 [H2 H3]]]]. exists (S k), x. repeat split; [lia|exact H2|exact H3].
      * intros [k [x [H1 [H2 H3]]]]. destruct k as [|k].
        -- cbn in H2. injection H2 as H2. subst. congruence.
        -- exists k, x. repeat split; [lia|exact H2|exact H3].
Qed.

Lemma where_spec : forall {E} (p : E -> bool) (l : list E) i,
  In i (where_ p l) <-> exists x, nth_error l i = Some x /\ p x = true.
Proof.
  intros E p l i. unfold where_. rewrite where_from_spec. split.
  - intros [k [x [H1 [H2 H3]]]]. cbn in H1. subst. exists x. auto.
  - intros [x [H2 H3]]. exists i, x. auto.
Qed.

Lemma nth_error_nth_lt : forall (l : list (list nat)) i x, nth_error l i = Some x -> nth i l [] = x /\ i < length l.
Proof.
  intros l i x H. split; [apply nth_error_nth; exact H|]. apply nth_error_Some. congruence.
Qed.

Lemma nth_error_of_nth : forall (l : list (list nat)) i, i < length l -> nth_error l i = Some (nth i l []).
Proof. intros l i H. apply nth_error_nth'. exact H. Qed.

Lemma meets_spec : forall a b, meets a b = true <-> exists x, In x a /\ In x b.
Proof.
  intros a b. unfold meets. rewrite existsb_exists. split.
  - intros [x [H1 H2]]. exists x. split; [exact H1|apply memb_In; exact H2].
  - intros [x [H1 H2]]. exists x. split; [exact H1|apply memb_In; exact H2].
Qed.

Lemma subset_spec : forall a b, subset a b = true <-> (forall x, In x a -> In x b).
Proof.
  intros a b. unfold subset. rewrite forallb_forall. split.
  - intros H x Hx. apply memb_In. apply H. exact Hx.
  - intros H x Hx. apply memb_In. apply H. exact Hx.
Qed.

Lemma union_sorted_spec : forall n a b x, In x (union_sorted n a b) <-> x < n /\ (In x a \/ In x b).
Proof.
  intros n a b x. unfold union_sorted. rewrite filter_In, in_seq, orb_true_iff, !memb_In. intuition lia.
Qed.

Lemma uniq_sorted_spec : forall n l x, In x (uniq_sorted n l) <-> x < n /\ In x l.
Proof. intros n l x. unfold uniq_sorted. rewrite filter_In, in_seq, memb_In. intuition lia. Qed.

Lemma nodupb_filter_seq : forall (p : nat -> bool) n, nodupb (filter p (seq 0 n)) = true.
Proof.
  intros p n. assert (H : NoDup (filter p (seq 0 n))) by (apply NoDup_filter, seq_NoDup).
  induction H as [|x l Hx H IH]; [reflexivity|]. cbn [nodupb]. rewrite IH, andb_true_r.
  apply negb_true_iff. destruct (memb x l) eqn:M; [|reflexivity]. apply memb_In in M. contradiction.
Qed.

(* ================================================================ consistent grids *)

Record grid_ok (g : grid) : Prop := {
  gk_cells : length (cell_faces g) = length (cell_nodes g);
  (* the nodes of a face of a cell are nodes of the cell; faces are numbered *)
  gk_face_in_cell : forall c f, c < length (cell_nodes g) -> In f (nth c (cell_faces g) []) ->
     f < length (face_nodes g) /\ forall v, In v (nth f (face_nodes g) []) -> In v (nth c (cell_nodes g) []);
  (* every face belongs to a cell and has a node *)
  gk_face_has_cell : forall f, f < length (face_nodes g) ->
     exists c, c < length (cell_nodes g) /\ In f (nth c (cell_faces g) []);
  gk_face_nonempty : forall f, f < length (face_nodes g) -> nth f (face_nodes g) [] <> [];
  gk_nodes : forall c v, c < length (cell_nodes g) -> In v (nth c (cell_nodes g) []) -> v < num_nodes g }.

Lemma grid_okb_sound : forall g, grid_okb g = true -> grid_ok g.
Proof.
  intros g H. unfold grid_okb in H.
  apply andb_true_iff in H. destruct H as [H H4]. apply andb_true_iff in H. destruct H as [H H3].
  apply andb_true_iff in H. destruct H as [H1 H2].
  rewrite forallb_forall in H2, H3, H4. constructor.
  - apply Nat.eqb_eq. exact H1.
  - intros c f Hc Hf. specialize (H2 c ltac:(apply in_seq; lia)). rewrite forallb_forall in H2.
    specialize (H2 f Hf). apply andb_true_iff in H2. destruct H2 as [A B].
    split; [apply Nat.ltb_lt; exact A|apply subset_spec; exact B].
  - intros f Hf. specialize (H3 f ltac:(apply in_seq; lia)). apply andb_true_iff in H3. destruct H3 as [A _].
    apply existsb_exists in A. destruct A as [c [Hc M]]. apply in_seq in Hc. exists c. split; [lia|apply memb_In; exact M].
  - intros f Hf E. specialize (H3 f ltac:(apply in_seq; lia)). apply andb_true_iff in H3. destruct H3 as [_ B].
    rewrite E in B. discriminate.
  - intros c v Hc Hv. specialize (H4 c ltac:(apply in_seq; lia)). rewrite forallb_forall in H4.
    apply Nat.ltb_lt. apply H4. exact Hv.
Qed.

(* ================================================================ stencil membership *)

Lemma cells_touching_spec : forall g N c,
  In c (cells_touching g N) <-> c < length (cell_nodes g) /\ exists v, In v (nth c (cell_nodes g) []) /\ In v N.
Proof.
  intros g N c. unfold cells_touching. rewrite where_spec. split.
  - intros [x [H1 H2]]. apply nth_error_nth_lt in H1. destruct H1 as [E L]. subst x.
    split; [exact L|apply meets_spec; exact H2].
  - intros [L H]. exists (nth c (cell_nodes g) []). split; [apply nth_error_of_nth; exact L|apply meets_spec; exact H].
Qed.

Lemma faces_inside_spec : forall g N f,
  In f (faces_inside g N) <-> f < length (face_nodes g) /\ forall v, In v (nth f (face_nodes g) []) -> In v N.
Proof.
  intros g N f. unfold faces_inside. rewrite where_spec. split.
  - intros [x [H1 H2]]. apply nth_error_nth_lt in H1. destruct H1 as [E L]. subst x.
    split; [exact L|apply subset_spec; exact H2].
  - intros [L H]. exists (nth f (face_nodes g) []). split; [apply nth_error_of_nth; exact L|apply subset_spec; exact H].
Qed.

Lemma faces_touching_spec : forall g N f,
  In f (faces_touching g N) <-> f < length (face_nodes g) /\ exists v, In v (nth f (face_nodes g) []) /\ In v N.
Proof.
  intros g N f. unfold faces_touching. rewrite where_spec. split.
  - intros [x [H1 H2]]. apply nth_error_nth_lt in H1. destruct H1 as [E L]. subst x.
    split; [exact L|apply meets_spec; exact H2].
  - intros [L H]. exists (nth f (face_nodes g) []). split; [apply nth_error_of_nth; exact L|apply meets_spec; exact H].
Qed.

Lemma nodes_of_cells_spec : forall g cells v,
  In v (nodes_of_cells g cells) <-> v < num_nodes g /\ exists c, In c cells /\ In v (nth c (cell_nodes g) []).
Proof.
  intros g cells v. unfold nodes_of_cells. rewrite filter_In, in_seq, existsb_exists. split.
  - intros [H [c [Hc M]]]. split; [lia|]. exists c. split; [exact Hc|apply memb_In; exact M].
  - intros [H [c [Hc M]]]. split; [lia|]. exists c. split; [exact Hc|apply memb_In; exact M].
Qed.

Lemma nodes_of_faces_spec : forall g faces v,
  In v (nodes_of_faces g faces) <-> v < num_nodes g /\ exists f, In f faces /\ In v (nth f (face_nodes g) []).
Proof.
  intros g faces v. unfold nodes_of_faces. rewrite filter_In, in_seq, existsb_exists. split.
  - intros [H [c [Hc M]]]. split; [lia|]. exists c. split; [exact Hc|apply memb_In; exact M].
  - intros [H [c [Hc M]]]. split; [lia|]. exists c. split; [exact Hc|apply memb_In; exact M].
Qed.

Lemma faces_of_cells_spec : forall g cells f,
  In f (faces_of_cells g cells) <-> f < length (face_nodes g) /\ exists c, In c cells /\ In f (nth c (cell_faces g) []).
Proof.
  intros g cells f. unfold faces_of_cells. rewrite filter_In, in_seq, existsb_exists. split.
  - intros [H [c [Hc M]]]. split; [lia|]. exists c. split; [exact Hc|apply memb_In; exact M].
  - intros [H [c [Hc M]]]. split; [lia|]. exists c. split; [exact Hc|apply memb_In; exact M].
Qed.

(* ================================================================ locality of the stencils *)

(* mode "nodes" (the one used for splitting): every cell around every node of an active
   face is in the cell stencil, and every face of such a cell is a face of the subgrid *)
Theorem locality_nodes : forall g N f v c,
  In f (snd (stencil_nodes g N)) -> In v (nth f (face_nodes g) []) ->
  c < length (cell_nodes g) -> In v (nth c (cell_nodes g) []) ->
  In c (fst (stencil_nodes g N)) /\
  (forall f', In f' (nth c (cell_faces g) []) -> f' < length (face_nodes g) ->
              In f' (faces_of_cells g (fst (stencil_nodes g N)))).
Proof.
  intros g N f v c Hf Hv Hc Hvc. cbn [stencil_nodes fst snd] in *.
  apply faces_inside_spec in Hf. destruct Hf as [Lf Sub].
  assert (Hin : In c (cells_touching g N)).
  { apply cells_touching_spec. split; [exact Hc|]. exists v. split; [exact Hvc|apply Sub; exact Hv]. }
  split; [exact Hin|]. intros f' Hf' Lf'. apply faces_of_cells_spec. split; [exact Lf'|].
  exists c. split; assumption.
Qed.

(* modes "cells" and "faces": likewise for every active face *)
Theorem locality_cells : forall g cells f v c, grid_ok g ->
  In f (snd (stencil_cells g cells)) -> In v (nth f (face_nodes g) []) ->
  c < length (cell_nodes g) -> In v (nth c (cell_nodes g) []) ->
  In c (fst (stencil_cells g cells)).
Proof.
  intros g cells f v c GK Hf Hv Hc Hvc. unfold stencil_cells in *. cbn [fst snd] in *.
  apply cells_touching_spec. split; [exact Hc|]. exists v. split; [exact Hvc|].
  apply union_sorted_spec. split; [apply (gk_nodes g GK c v Hc Hvc)|]. right.
  apply nodes_of_faces_spec. split; [apply (gk_nodes g GK c v Hc Hvc)|]. exists f. split; assumption.
Qed.

Theorem locality_faces : forall g prev faces f v c, grid_ok g ->
  In f (snd (stencil_faces g prev faces)) -> In v (nth f (face_nodes g) []) ->
  c < length (cell_nodes g) -> In v (nth c (cell_nodes g) []) ->
  In c (fst (stencil_faces g prev faces)).
Proof.
  intros g prev faces f v c GK Hf Hv Hc Hvc. unfold stencil_faces in *. cbn [fst snd] in *.
  apply cells_touching_spec. split; [exact Hc|]. exists v. split; [exact Hvc|].
  apply union_sorted_spec. split; [apply (gk_nodes g GK c v Hc Hvc)|]. left.
  apply nodes_of_faces_spec. split; [apply (gk_nodes g GK c v Hc Hvc)|]. exists f. split; assumption.
Qed.

(* ================================================================ the family of subproblems *)

Lemma NoDup_nodupb : forall l, NoDup l -> nodupb l = true.
Proof.
  intros l H. induction H as [|x l Hx H IH]; [reflexivity|]. cbn [nodupb]. rewrite IH, andb_true_r.
  apply negb_true_iff. destruct (Model.C14.memb x l) eqn:M; [|reflexivity]. apply memb_In in M. contradiction.
Qed.

Lemma cifpu_nodes_faces : forall g N f,
  In f (snd (cell_ind_for_partial_update g None None (Some N))) <->
  f < length (face_nodes g) /\ In f (faces_inside g N).
Proof.
  intros g N f. unfold cell_ind_for_partial_update. cbn [fst snd stencil_nodes].
  rewrite !union_sorted_spec. cbn [In]. intuition.
Qed.

Lemma cifpu_nodes_cells : forall g N c,
  In c (fst (cell_ind_for_partial_update g None None (Some N))) <->
  c < length (cell_nodes g) /\ In c (cells_touching g N).
Proof.
  intros g N c. unfold cell_ind_for_partial_update. cbn [fst snd stencil_nodes app].
  apply uniq_sorted_spec.
Qed.

Lemma max_ge : forall l x, In x l -> x <= fold_right Nat.max 0 l.
Proof.
  induction l as [|y l IH]; intros x H; [contradiction|]. cbn [fold_right].
  destruct H as [H|H]; [subst; lia|]. specialize (IH x H). lia.
Qed.

(* For every consistent grid, every number of parts and every partition vector, the
   family built by subproblems satisfies the certificate [family_ok]: injective
   local-to-global face maps, responsibility sets without repetition and inside the
   subgrid, and every face in the responsibility set of some subproblem. *)
Theorem subproblems_family_ok : forall g k part, grid_ok g ->
  length part = length (cell_nodes g) ->
  family_ok (length (face_nodes g)) (subproblems g k part) = true.
Proof.
  intros g k part GK LP. unfold family_ok, subproblems.
  destruct (k =? 1) eqn:K1.
  - cbn [forallb faces_in_subgrid l2g_faces]. rewrite !andb_true_r.
    apply andb_true_iff. split.
    + rewrite (NoDup_nodupb _ (seq_NoDup _ 0)). cbn [andb]. apply subset_spec. auto.
    + apply forallb_forall. intros f Hf. cbn [existsb faces_in_subgrid]. rewrite orb_false_r.
      apply memb_In. exact Hf.
  - apply andb_true_iff. split.
    + apply forallb_forall. intros s Hs. apply in_map_iff in Hs. destruct Hs as [p [E _]]. subst s.
      cbn [faces_in_subgrid l2g_faces].
      set (N := nodes_of_cells g (where_ (Nat.eqb p) part)).
      apply andb_true_iff. split; [apply andb_true_iff; split|].
      * unfold faces_of_cells. apply nodupb_filter_seq.
      * unfold cell_ind_for_partial_update. cbn [snd]. unfold union_sorted at 1. apply nodupb_filter_seq.
      * apply subset_spec. intros f Hf. apply cifpu_nodes_faces in Hf. destruct Hf as [Lf Hf].
        apply faces_inside_spec in Hf. destruct Hf as [_ Sub].
        destruct (gk_face_has_cell g GK f Lf) as [c [Lc Hc]].
        destruct (nth f (face_nodes g) []) as [|v vs] eqn:Ev; [exfalso; apply (gk_face_nonempty g GK f Lf Ev)|].
        assert (Hv : In v (nth f (face_nodes g) [])) by (rewrite Ev; left; reflexivity).
        apply faces_of_cells_spec. split; [exact Lf|]. exists c. split; [|exact Hc].
        apply cifpu_nodes_cells. split; [exact Lc|]. apply cells_touching_spec. split; [exact Lc|].
        exists v. split.
        -- apply (proj2 (gk_face_in_cell g GK c f Lc Hc)). exact Hv.
        -- apply Sub. left. reflexivity.
    + apply forallb_forall. intros f Hf. apply in_seq in Hf. destruct Hf as [_ Lf]. cbn in Lf.
      destruct (gk_face_has_cell g GK f Lf) as [c [Lc Hc]].
      set (p := nth c part 0).
      apply existsb_exists.
      assert (Hcp : nth_error part c = Some p) by (apply nth_error_nth'; lia).
      assert (Hp : In p part) by (eapply nth_error_In; exact Hcp).
      exists (let cip := where_ (Nat.eqb p) part in
              let nip := nodes_of_cells g cip in
              let st := cell_ind_for_partial_update g None None (Some nip) in
              mksub (snd st) cip (fst st) (faces_of_cells g (fst st))).
      split.
      * apply in_map_iff. exists p. split; [reflexivity|].
        apply uniq_sorted_spec. split; [|exact Hp]. pose proof (max_ge part p Hp). lia.
      * cbn [faces_in_subgrid]. apply memb_In. apply cifpu_nodes_faces. split; [exact Lf|].
        apply faces_inside_spec. split; [exact Lf|]. intros v Hv.
        assert (Hvc : In v (nth c (cell_nodes g) [])) by (apply (proj2 (gk_face_in_cell g GK c f Lc Hc)); exact Hv).
        apply nodes_of_cells_spec. split; [apply (gk_nodes g GK c v Lc Hvc)|].
        exists c. split; [|exact Hvc]. apply where_spec. exists p. split; [exact Hcp|apply Nat.eqb_refl].
Qed.
