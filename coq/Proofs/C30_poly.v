(* C30 — points_polygon (soundness; optimality relative to the plane / the boundary) and
   segment_set. *)
From Coq Require Import Reals Lra List Bool Arith Lia.
Import ListNotations.
From PP Require Import Model.C32 Model.C30 Proofs.C32 Proofs.C30 Proofs.C30_opt.
Open Scope R_scope.

Notation ezR := (ez R RO).

Lemma mv_mm (A B : M) (w : V) : mvR A (mvR B w) = mvR (mmR A B) w.
Proof.
  destruct A as [[[[a00 a01] a02] [[a10 a11] a12]] [[a20 a21] a22]].
  destruct B as [[[[b00 b01] b02] [[b10 b11] b12]] [[b20 b21] b22]].
  destruct w as [[w0 w1] w2]. rsimp. apply v3_ext; ring.
Qed.

Lemma mv_ident (w : V) : mvR identR w = w.
Proof. destruct w as [[w0 w1] w2]. rsimp. apply v3_ext; ring. Qed.

Lemma mT_ident : mTR identR = identR.
Proof. reflexivity. Qed.

(* m is a multiple of the unit normal n as soon as n is orthogonal to everything m is *)
Lemma normal_parallel (m n : V) :
  dotR n n = 1 -> (forall x, dotR m x = 0 -> dotR n x = 0) ->
  forall x, dotR n x = 0 -> dotR m x = 0.
Proof.
  intros Hn H x Hx.
  assert (Hm : m = vscaleR (dotR m n) n).
  { specialize (H (vsubR (vscaleR (dotR m m) n) (vscaleR (dotR m n) m))).
    destruct m as [[m0 m1] m2], n as [[n0 n1] n2]. rsimp.
    assert (H0 : m0 * (((m0*m0+m1*m1+m2*m2)) * n0 - (m0*n0+m1*n1+m2*n2) * m0)
                 + m1 * ((m0*m0+m1*m1+m2*m2) * n1 - (m0*n0+m1*n1+m2*n2) * m1)
                 + m2 * ((m0*m0+m1*m1+m2*m2) * n2 - (m0*n0+m1*n1+m2*n2) * m2) = 0) by ring.
    specialize (H H0).
    assert (Hs : (m0 - (m0*n0+m1*n1+m2*n2) * n0) * (m0 - (m0*n0+m1*n1+m2*n2) * n0)
                 + (m1 - (m0*n0+m1*n1+m2*n2) * n1) * (m1 - (m0*n0+m1*n1+m2*n2) * n1)
                 + (m2 - (m0*n0+m1*n1+m2*n2) * n2) * (m2 - (m0*n0+m1*n1+m2*n2) * n2) = 0).
    { transitivity ((m0*m0+m1*m1+m2*m2) - 2 * (m0*n0+m1*n1+m2*n2) * (m0*n0+m1*n1+m2*n2)
                    + (m0*n0+m1*n1+m2*n2) * (m0*n0+m1*n1+m2*n2) * (n0*n0+n1*n1+n2*n2)); [ring|].
      rewrite Hn.
      transitivity (n0 * ((m0*m0+m1*m1+m2*m2) * n0 - (m0*n0+m1*n1+m2*n2) * m0)
                    + n1 * ((m0*m0+m1*m1+m2*m2) * n1 - (m0*n0+m1*n1+m2*n2) * m1)
                    + n2 * ((m0*m0+m1*m1+m2*m2) * n2 - (m0*n0+m1*n1+m2*n2) * m2)
                    + (m0*m0+m1*m1+m2*m2) * (1 - (n0*n0+n1*n1+n2*n2))); [ring|].
      rewrite H, Hn. ring. }
    apply sum3sq_zero in Hs. destruct Hs as (E0 & E1 & E2).
    apply v3_ext; lra. }
  rewrite Hm. destruct m as [[m0 m1] m2], n as [[n0 n1] n2], x as [[x0 x1] x2]. rsimp.
  transitivity ((m0*n0+m1*n1+m2*n2) * (n0*x0+n1*x1+n2*x2)); [ring|]. rewrite Hx. ring.
Qed.

Definition plane_guard (n : V) : Prop := in_band n ezR = false \/ crossR n ezR = zero3 R RO.

(* R^T (x, y, 0), where (x, y, z) = R w, is the orthogonal projection of w along n *)
Lemma back_projection (Rm : M) (n w : V) :
  dotR n n = 1 -> mmR (mTR Rm) Rm = identR ->
  (in_band n ezR = false -> mvR Rm n = ezR) -> (in_band n ezR = true -> Rm = identR) ->
  plane_guard n ->
  let pr := mvR Rm w in
  vz pr * vz pr = dotR n w * dotR n w /\
  mvR (mTR Rm) (vx pr, vy pr, 0) = vsubR w (vscaleR (dotR n w) n).
Proof.
  intros Hn Ho Hout Hin G pr.
  destruct (in_band n ezR) eqn:EB.
  - (* identity; by the guard n = (0, 0, +-1) *)
    specialize (Hin eq_refl). destruct G as [G|G]; [congruence|].
    subst pr. rewrite Hin, mT_ident. rewrite !mv_ident.
    destruct n as [[n0 n1] n2], w as [[w0 w1] w2]. unfold ez in G. rsimp.
    injection G as G0 G1 _.
    assert (N0 : n0 = 0) by lra. assert (N1 : n1 = 0) by lra. subst n0 n1.
    assert (N2 : n2 * n2 = 1) by lra.
    split.
    + transitivity ((n2 * n2) * (w2 * w2)); [rewrite N2; ring | ring].
    + apply v3_ext; try ring.
      transitivity (w2 * (1 - n2 * n2)); [rewrite N2; ring | ring].
  - specialize (Hout eq_refl).
    assert (Hz : vz pr = dotR n w).
    { subst pr. rewrite <- (orth_dot Rm n w Ho). rewrite Hout.
      destruct (mvR Rm w) as [[x y] z]. unfold ez. rsimp. ring. }
    split; [rewrite Hz; reflexivity|].
    assert (Hback : mvR (mTR Rm) pr = w) by (subst pr; rewrite mv_mm, Ho; apply mv_ident).
    assert (Hn' : mvR (mTR Rm) ezR = n) by (rewrite <- Hout, mv_mm, Ho; apply mv_ident).
    assert (Hsplit : (vx pr, vy pr, 0) = vsubR pr (vscaleR (vz pr) ezR)).
    { destruct pr as [[x y] z]. unfold ez. rsimp. apply v3_ext; ring. }
    rewrite Hsplit, <- mv_sub, mv_vscale, Hback, Hn', Hz. reflexivity.
Qed.

Lemma argmin_ps_spec (l : list (res (R * V))) :
  forall best res, argmin_ps R RO l best = Ok res ->
    (res = best \/ In (Ok res) l) /\ fst res <= fst best /\
    (forall r', In (Ok r') l -> fst res <= fst r').
Proof.
  induction l as [|x l IH]; intros best res H.
  - cbn in H. injection H as <-. split; [left; reflexivity|]. split; [lra|]. intros r' [].
  - cbn [argmin_ps] in H. destruct x as [r|e]; [|discriminate].
    cbn [n_ltb RO] in H.
    destruct (Rltb (fst r) (fst best)) eqn:E;
      [apply Rltb_true in E | apply Rltb_false in E];
      destruct (IH _ _ H) as (H1 & H2 & H3).
    + split; [right; destruct H1 as [->|H1]; [left; reflexivity | right; exact H1]|].
      split; [lra|]. intros r' [Hr|Hr]; [injection Hr as <-; exact H2 | apply H3; exact Hr].
    + split; [destruct H1 as [->|H1]; [left; reflexivity | right; right; exact H1]|].
      split; [exact H2|]. intros r' [Hr|Hr]; [injection Hr as <-; lra | apply H3; exact Hr].
Qed.

Lemma argmin_ps_all_ok (l : list (res (R * V))) :
  forall best res, argmin_ps R RO l best = Ok res -> forall x, In x l -> exists r, x = Ok r.
Proof.
  induction l as [|x l IH]; intros best res H y Hy; [destruct Hy|].
  cbn [argmin_ps] in H. destruct x as [r|e]; [|discriminate].
  destruct Hy as [<-|Hy]; [eexists; reflexivity|]. eapply IH; eauto.
Qed.

Lemma in_roll1 {A} (x : A) l : In x (roll1 l) -> In x l.
Proof.
  destruct l as [|y l]; [intros []|]. cbn [roll1]. intros H. apply in_app_or in H as [H|[<-|[]]].
  - right; exact H.
  - left; reflexivity.
Qed.

Lemma on_plane_segment (m a b : V) dd s :
  dotR m a = dd -> dotR m b = dd -> dotR m (vaddR a (vscaleR s (vsubR b a))) = dd.
Proof.
  destruct m as [[m0 m1] m2], a as [[a0 a1] a2], b as [[b0 b1] b2]. rsimp30. intros Ha Hb.
  transitivity ((1 - s) * (m0 * a0 + m1 * a1 + m2 * a2) + s * (m0 * b0 + m1 * b1 + m2 * b2));
    [ring|]. rewrite Ha, Hb. ring.
Qed.

Lemma pythagoras (p cp y n : V) z :
  vsubR p cp = vscaleR z n -> dotR n (vsubR cp y) = 0 ->
  normsqR (vsubR p cp) <= normsqR (vsubR p y).
Proof.
  destruct p as [[p0 p1] p2], cp as [[c0 c1] c2], y as [[y0 y1] y2], n as [[n0 n1] n2].
  rsimp. intros H Hd. injection H as H0 H1 H2.
  assert (Hs : (p0 - y0) * (p0 - y0) + (p1 - y1) * (p1 - y1) + (p2 - y2) * (p2 - y2)
               = ((p0 - c0) * (p0 - c0) + (p1 - c1) * (p1 - c1) + (p2 - c2) * (p2 - c2))
                 + ((c0 - y0) * (c0 - y0) + (c1 - y1) * (c1 - y1) + (c2 - y2) * (c2 - y2))
                 + 2 * ((p0 - c0) * (c0 - y0) + (p1 - c1) * (c1 - y1) + (p2 - c2) * (c2 - y2)))
    by ring.
  rewrite Hs, H0, H1, H2.
  replace (z * n0 * (c0 - y0) + z * n1 * (c1 - y1) + z * n2 * (c2 - y2))
    with (z * (n0 * (c0 - y0) + n1 * (c1 - y1) + n2 * (c2 - y2))) by ring.
  rewrite Hd.
  pose proof (Rle_0_sqr (c0 - y0)). pose proof (Rle_0_sqr (c1 - y1)).
  pose proof (Rle_0_sqr (c2 - y2)). unfold Rsqr in *. lra.
Qed.

Theorem points_polygon_spec (ptol tol : R) (p : V) (poly : list V) (m : V) (dd : R)
        (d2 : R) (cp : V) (inp : bool) :
  0 < dotR m m -> Forall (fun v => dotR m v = dd) poly ->
  points_polygon R RO ptol tol p poly = Ok (d2, cp, inp) ->
  let center := meanR poly in
  exists n, compute_normal R RO (map (fun v => vsubR v center) poly) ptol = Ok n /\
    dotR n n = 1 /\ (forall x, dotR m x = 0 <-> dotR n x = 0) /\
    (inp = false ->
       dotR m cp = dd /\ d2 = normsqR (vsubR p cp) /\
       (exists e s, In e (edges R poly) /\ 0 <= s <= 1 /\
                    cp = vaddR (fst e) (vscaleR s (vsubR (snd e) (fst e)))) /\
       (forall e t, In e (edges R poly) -> 0 <= t <= 1 ->
          d2 <= normsqR (vsubR p (vaddR (fst e) (vscaleR t (vsubR (snd e) (fst e))))))) /\
    (inp = true -> plane_guard n ->
       dotR m cp = dd /\ d2 = normsqR (vsubR p cp) /\
       cp = vsubR p (vscaleR (dotR n (vsubR p center)) n) /\
       (forall y, dotR m y = dd -> d2 <= normsqR (vsubR p y))).
Proof.
  intros Hm Hall. unfold points_polygon. cbv zeta.
  set (center := meanR poly). set (polyc := map (fun v => vsubR v center) poly).
  destruct (plane_matrix_pts R RO polyc ptol ezR) as [rot|e] eqn:EP; [|discriminate].
  assert (Hne : poly <> []).
  { intros ->. cbn in EP. discriminate. }
  pose proof (mean_on_plane m dd poly Hne Hall) as Hc. fold center in Hc.
  assert (Hallc : Forall (fun v => dotR m v = 0) polyc).
  { subst polyc. apply Forall_forall. intros v Hv. apply in_map_iff in Hv as (u & <- & Hu).
    rewrite dot_vsub. rewrite Forall_forall in Hall. rewrite (Hall u Hu), Hc. ring. }
  assert (Hez : dotR ezR ezR = 1) by (unfold ez; rsimp; ring).
  destruct (plane_matrix_pts_spec polyc ptol ezR m 0 rot Hm Hallc Hez EP)
    as (n & EN & Ho & Hd & Hout & Hin).
  destruct (compute_normal_spec polyc ptol m 0 n Hm Hallc EN) as (Hn & Hx & _).
  match goal with |- context [if negb ?b then _ else _] => destruct b end; [|discriminate].
  cbn [negb]. intros HEQ.
  exists n. split; [exact EN|]. split; [exact Hn|].
  split; [intros x; split; [apply Hx | apply (normal_parallel m n Hn Hx)]|].
  match type of HEQ with context [if ?b then _ else _] => destruct b eqn:EPIP end.
  - (* inside: orthogonal projection *)
    assert (E : d2 = vz (mvR rot (vsubR p center)) * vz (mvR rot (vsubR p center)) /\
                cp = vaddR center (mvR (mTR rot) (vx (mvR rot (vsubR p center)),
                                                  vy (mvR rot (vsubR p center)), 0)) /\
                inp = true)
      by (injection HEQ; intros; subst; repeat split; reflexivity).
    clear HEQ. destruct E as (-> & -> & ->).
    split; [discriminate|]. intros _ G.
    destruct (back_projection rot n (vsubR p center) Hn Ho
                (fun Hb => proj1 (Hout Hb)) (fun Hb => proj1 (Hin Hb)) G) as [Hz Hb].
    rewrite Hb.
    set (z := dotR n (vsubR p center)) in *.
    assert (Hcp : vaddR center (vsubR (vsubR p center) (vscaleR z n)) = vsubR p (vscaleR z n)).
    { destruct center as [[c0 c1] c2], p as [[p0 p1] p2], n as [[n0 n1] n2]. rsimp.
      apply v3_ext; ring. }
    rewrite Hcp.
    assert (Hdiff : vsubR p (vsubR p (vscaleR z n)) = vscaleR z n).
    { destruct p as [[p0 p1] p2], n as [[n0 n1] n2]. rsimp. apply v3_ext; ring. }
    assert (Hplane : dotR m (vsubR p (vscaleR z n)) = dd).
    { assert (Hq : dotR n (vsubR (vsubR p center) (vscaleR z n)) = 0).
      { subst z. destruct (vsubR p center) as [[w0 w1] w2], n as [[n0 n1] n2]. rsimp.
        transitivity ((n0*w0+n1*w1+n2*w2) * (1 - (n0*n0+n1*n1+n2*n2))); [ring|].
        rewrite Hn. ring. }
      apply (normal_parallel m n Hn Hx) in Hq. rewrite <- Hcp, dot_vadd, Hq, Hc. ring. }
    split; [exact Hplane|]. split.
    + rewrite Hdiff. rewrite Hz. fold z.
      destruct n as [[n0 n1] n2]. rsimp.
      transitivity (z * z * (n0*n0+n1*n1+n2*n2)); [rewrite Hn; ring | ring].
    + split; [reflexivity|]. intros y Hy.
      rewrite Hz. fold z.
      assert (Hd2 : z * z = normsqR (vsubR p (vsubR p (vscaleR z n)))).
      { rewrite Hdiff. destruct n as [[n0 n1] n2]. rsimp.
        transitivity (z * z * (n0*n0+n1*n1+n2*n2)); [rewrite Hn; ring | ring]. }
      rewrite Hd2. apply (pythagoras _ _ _ n z Hdiff).
      apply Hx. rewrite dot_vsub, Hplane, Hy. ring.
  - (* outside: minimum over the edges *)
    destruct (map _ (edges R poly)) as [|x l] eqn:EM; [discriminate|].
    destruct x as [r|e]; [|discriminate].
    destruct (argmin_ps R RO l r) as [[d2' cp']|e] eqn:EA; [|discriminate].
    assert (E : d2 = d2' /\ cp = cp' /\ inp = false)
      by (injection HEQ; intros; subst; auto).
    clear HEQ. destruct E as (-> & -> & ->).
    split; [|discriminate]. intros _.
    destruct (argmin_ps_spec l r (d2', cp') EA) as (H1 & H2 & H3).
    assert (Hres : In (Ok (d2', cp')) (map (fun e => point_segment R RO p (fst e) (snd e))
                                            (edges R poly))).
    { rewrite EM. destruct H1 as [<-|H1]; [left; reflexivity | right; exact H1]. }
    apply in_map_iff in Hres as (e0 & He0 & Hin0).
    destruct (point_segment_spec p (fst e0) (snd e0) d2' cp' He0) as ((s & Hs & Hcp) & Hd2 & _).
    assert (Hedge : forall e, In e (edges R poly) ->
                              dotR m (fst e) = dd /\ dotR m (snd e) = dd).
    { intros [a b] He. unfold edges in He. rewrite Forall_forall in Hall.
      split; cbn [fst snd]; apply Hall.
      - eapply in_combine_l; eauto.
      - apply in_roll1. eapply in_combine_r; eauto. }
    split; [rewrite Hcp; apply on_plane_segment; apply (Hedge e0 Hin0)|].
    split; [exact Hd2|].
    split; [exists e0, s; auto|].
    intros e t He Ht.
    assert (Hin' : In (point_segment R RO p (fst e) (snd e))
                      (map (fun e => point_segment R RO p (fst e) (snd e)) (edges R poly)))
      by exact (in_map (fun e' => point_segment R RO p (fst e') (snd e')) _ _ He).
    rewrite EM in Hin'.
    assert (Hok : exists r', point_segment R RO p (fst e) (snd e) = Ok r').
    { destruct Hin' as [<-|Hin']; [eexists; reflexivity|].
      eapply argmin_ps_all_ok; eauto. }
    destruct Hok as ([d2e cpe] & Ee).
    destruct (point_segment_spec p (fst e) (snd e) d2e cpe Ee) as (_ & _ & Hopt).
    specialize (Hopt t Ht).
    assert (d2' <= d2e).
    { rewrite Ee in Hin'. destruct Hin' as [Hr|Hr].
      - injection Hr as Hr. subst r. exact H2.
      - exact (H3 (d2e, cpe) Hr). }
    lra.
Qed.

(* ------------------------------------------------------------------ segment_set *)
Lemma nth_error_skipn_add {A} (l : list A) k n : nth_error (skipn k l) n = nth_error l (k + n).
Proof.
  revert l. induction k as [|k IH]; intros l; [reflexivity|].
  destruct l as [|x l]; [cbn; destruct n; reflexivity|]. cbn [skipn plus nth_error]. apply IH.
Qed.

Lemma Forall_skipn {A} (P : A -> Prop) l k : Forall P l -> Forall P (skipn k l).
Proof.
  revert l. induction k as [|k IH]; intros l H; [exact H|].
  destruct l as [|x l]; [constructor|]. cbn [skipn]. apply IH. inversion H; assumption.
Qed.

Lemma upper_nth (segs : list (V * V)) : forall i si,
  nth_error segs i = Some si ->
  nth_error (segment_set_upper R RO segs) i
  = Some (seg_seg_set R RO (fst si) (snd si) (skipn (S i) segs)).
Proof.
  induction segs as [|s rest IH]; intros i si H; [destruct i; discriminate|].
  destruct i as [|i].
  - cbn in H. injection H as <-. reflexivity.
  - cbn [nth_error] in H. cbn [segment_set_upper nth_error]. rewrite (IH i si H). reflexivity.
Qed.

Theorem segment_set_spec (segs : list (V * V)) (i j : nat) (si sj : V * V) :
  Forall proper segs -> (i < j)%nat ->
  nth_error segs i = Some si -> nth_error segs j = Some sj ->
  exists d2 p q sc tc,
    sset_entry R RO segs i j = Ok (d2, p) /\ sset_entry R RO segs j i = Ok (d2, q) /\
    0 <= sc <= 1 /\ 0 <= tc <= 1 /\
    p = vaddR (fst si) (vscaleR sc (vsubR (snd si) (fst si))) /\
    q = vaddR (fst sj) (vscaleR tc (vsubR (snd sj) (fst sj))) /\
    d2 = normsqR (vsubR p q) /\
    (off_band R RO (fst si) (snd si) (fst sj) (snd sj) = true ->
     forall s t, 0 <= s <= 1 -> 0 <= t <= 1 ->
       d2 <= normsqR (vsubR (vaddR (fst si) (vscaleR s (vsubR (snd si) (fst si))))
                            (vaddR (fst sj) (vscaleR t (vsubR (snd sj) (fst sj)))))).
Proof.
  intros Hall Hij Hi Hj.
  assert (Hpi : proper si).
  { rewrite Forall_forall in Hall. apply Hall. eapply nth_error_In; eauto. }
  assert (Hpj : proper sj).
  { rewrite Forall_forall in Hall. apply Hall. eapply nth_error_In; eauto. }
  assert (Hrest : Forall proper (skipn (S i) segs)) by (apply Forall_skipn; exact Hall).
  assert (Hjn : nth_error (skipn (S i) segs) (j - i - 1) = Some sj).
  { rewrite nth_error_skipn_add. replace (S i + (j - i - 1))%nat with j by lia. exact Hj. }
  destruct (seg_seg_set_sound (fst si) (snd si) (skipn (S i) segs)) as [Eset Hs].
  { destruct si; exact Hpi. }
  { exact Hrest. }
  destruct (Hs sj (nth_error_In _ _ Hjn)) as (d2 & p & q & sc & tc & E & Hsc & Htc & Hp & Hq & Hd).
  assert (Hrow : nth_error (seg_seg_set R RO (fst si) (snd si) (skipn (S i) segs)) (j - i - 1)
                 = Some (Ok (d2, p, q, sc, tc))).
  { rewrite Eset. rewrite (map_nth_error _ _ _ Hjn). cbv beta. rewrite E. reflexivity. }
  exists d2, p, q, sc, tc.
  unfold sset_entry.
  replace (Nat.eqb i j) with false by (symmetry; apply Nat.eqb_neq; lia).
  replace (Nat.eqb j i) with false by (symmetry; apply Nat.eqb_neq; lia).
  replace (Nat.ltb i j) with true by (symmetry; apply Nat.ltb_lt; lia).
  replace (Nat.ltb j i) with false by (symmetry; apply Nat.ltb_ge; lia).
  rewrite (upper_nth segs i si Hi), Hrow.
  repeat split; try tauto; try lra.
  intros Hoff s t Hs01 Ht01.
  apply (seg_seg_optimal (fst si) (snd si) (fst sj) (snd sj) d2 p q sc tc); auto.
Qed.

Lemma segment_set_diag (segs : list (V * V)) (i : nat) (si : V * V) :
  nth_error segs i = Some si ->
  sset_entry R RO segs i i
  = Ok (0, vaddR (fst si) (vscaleR (1 / (1 + 1)) (vsubR (snd si) (fst si)))).
Proof. intros H. unfold sset_entry. rewrite Nat.eqb_refl, H. reflexivity. Qed.

Theorem seg_seg_set_optimal (a b : V) (set : list (V * V)) :
  proper (a, b) -> Forall proper set -> off_band_set R RO a b set = true ->
  forall s0, In s0 set ->
    forall dist2 cp1 cp2 sc tc,
      seg_seg R RO a b (fst s0) (snd s0) = Ok (dist2, cp1, cp2, sc, tc) ->
      forall s t, 0 <= s <= 1 -> 0 <= t <= 1 ->
        dist2 <= normsqR (vsubR (vaddR a (vscaleR s (vsubR b a)))
                                (vaddR (fst s0) (vscaleR t (vsubR (snd s0) (fst s0))))).
Proof.
  intros Ha Hall Hoff s0 Hs0 dist2 cp1 cp2 sc tc E.
  unfold off_band_set in Hoff. rewrite forallb_forall in Hoff.
  apply (seg_seg_optimal a b (fst s0) (snd s0) dist2 cp1 cp2 sc tc).
  - exact Ha.
  - rewrite Forall_forall in Hall. exact (Hall s0 Hs0).
  - exact (Hoff s0 Hs0).
  - exact E.
Qed.
