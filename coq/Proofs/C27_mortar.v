(* C27 — lemmas: MortarProjections._construct_projection places the per-interface matrices
   at the global offsets. *)
From Coq Require Import List ZArith QArith Bool Arith Lia Permutation.
Import ListNotations.
From PP Require Import Model.C27 Model.C27_spec Proofs.C27.
Local Open Scope nat_scope.

(* ------------------------------------------------------------------ products with one block *)
Lemma filter_eq_seq : forall s a c,
    a <= c < a + s -> filter (fun k => k =? c) (seq a s) = [c].
Proof.
  induction s as [|s IH]; intros a c H; [lia|].
  cbn [seq filter]. destruct (a =? c) eqn:E.
  - apply Nat.eqb_eq in E; subst. f_equal. apply filter_none.
    intros k Hk. apply in_seq in Hk. apply Nat.eqb_neq. lia.
  - apply Nat.eqb_neq in E. apply IH. lia.
Qed.

Lemma mul_rmat_r : forall L tot off s,
    nc L = s -> Forall (fun e => ecol e < s) (ents L) ->
    mul L (rmat tot off s)
    = Ok (mkM (nr L) tot (map (fun e => (erow e, off + ecol e, evl e)) (ents L))).
Proof.
  intros L tot off s Hnc Hcols. unfold mul. cbn [rmat nr nc ents].
  rewrite Hnc, Nat.eqb_refl. do 2 f_equal.
  rewrite <- (flat_map_single (fun e : entry => (erow e, off + ecol e, evl e)) (ents L)).
  apply flat_map_ext_in. intros a Ha.
  rewrite Forall_forall in Hcols. specialize (Hcols a Ha).
  rewrite filter_map_comm. cbn [erow fst].
  rewrite filter_eq_seq by lia. cbn [map ecol evl fst snd].
  now rewrite Qmult_1_r_eq.
Qed.

Lemma map_flat_map : forall {A B C} (h : B -> C) (f : A -> list B) l,
    map h (flat_map f l) = flat_map (fun x => map h (f x)) l.
Proof.
  intros A B C h f l; induction l as [|a l IH]; [reflexivity|].
  cbn [flat_map]. now rewrite map_app, IH.
Qed.

Lemma filter_all : forall {A} (p : A -> bool) l,
    (forall a, In a l -> p a = true) -> filter p l = l.
Proof.
  intros A p l; induction l as [|a l IH]; intros H; [reflexivity|].
  cbn [filter]. rewrite (H a (or_introl eq_refl)). f_equal. apply IH.
  intros b Hb. apply H. now right.
Qed.

Lemma filter_lt_split : forall (M : list entry) s,
    Permutation (filter (fun b => erow b <? s) M ++ filter (fun b => erow b =? s) M)
                (filter (fun b => erow b <? S s) M).
Proof.
  induction M as [|a M IH]; intros s; [constructor|].
  cbn [filter].
  destruct (Nat.ltb_spec (erow a) s) as [E1|E1];
    destruct (Nat.eqb_spec (erow a) s) as [E2|E2];
    destruct (Nat.ltb_spec (erow a) (S s)) as [E3|E3]; try lia.
  - cbn [app]. apply perm_skip. apply IH.
  - apply Permutation_sym, Permutation_cons_app, Permutation_sym, IH.
  - apply IH.
Qed.

Lemma bucket_perm_lt : forall (M : list entry) s,
    Permutation (flat_map (fun k => filter (fun b => erow b =? k) M) (seq 0 s))
                (filter (fun b => erow b <? s) M).
Proof.
  intros M s; induction s as [|s IH].
  - cbn [seq flat_map]. rewrite filter_none; [constructor|]. intros a _. reflexivity.
  - rewrite seq_S, flat_map_app. cbn [flat_map plus]. rewrite app_nil_r.
    eapply Permutation_trans; [|apply filter_lt_split].
    apply Permutation_app_tail. exact IH.
Qed.

Lemma bucket_perm : forall (M : list entry) s,
    Forall (fun e => erow e < s) M ->
    Permutation (flat_map (fun k => filter (fun b => erow b =? k) M) (seq 0 s)) M.
Proof.
  intros M s H. eapply Permutation_trans; [apply bucket_perm_lt|].
  rewrite filter_all; [apply Permutation_refl|].
  intros a Ha. rewrite Forall_forall in H. apply Nat.ltb_lt. now apply H.
Qed.

Lemma mul_pmat_l : forall L tot off s,
    nr L = s -> Forall (fun e => erow e < s) (ents L) ->
    exists es,
      mul (pmat tot off s) L = Ok (mkM tot (nc L) es) /\
      Permutation es (map (fun e => (off + erow e, ecol e, evl e)) (ents L)).
Proof.
  intros L tot off s Hnr Hrows. unfold mul. cbn [pmat nr nc ents].
  rewrite Hnr, Nat.eqb_refl. eexists. split; [reflexivity|].
  rewrite flat_map_map. cbn [erow ecol evl fst snd].
  eapply Permutation_trans;
    [|apply (Permutation_map (fun e => (off + erow e, ecol e, evl e))), (bucket_perm (ents L) s Hrows)].
  rewrite map_flat_map.
  erewrite flat_map_ext_in; [apply Permutation_refl|].
  intros k _. apply map_ext_in. intros b Hb. apply filter_In in Hb. destruct Hb as (_ & Hb).
  apply Nat.eqb_eq in Hb. rewrite Hb, Qmult_1_l_eq. reflexivity.
Qed.

(* ------------------------------------------------------------------ the blocks *)
Lemma mem_gid_in : forall k sds, mem_gid k sds = true -> exists g, In g sds /\ gid g = k.
Proof.
  intros k sds H. unfold mem_gid in H. apply existsb_exists in H.
  destruct H as (g & Hg & E). apply Nat.eqb_eq in E. now exists g.
Qed.

Definition blk_to (num : grid -> nat) (is_primary : bool) (sds : list grid) (nd tot : nat)
           (p : intf * mat) : mat :=
  if mem_gid (side_gid is_primary (fst p)) sds
  then mkM (imc (fst p) * nd) tot
           (map (fun e => (erow e, pre num sds (side_gid is_primary (fst p)) * nd + ecol e, evl e))
                (ents (snd p)))
  else zeros (imc (fst p) * nd) tot.

Lemma cp_blocks_to : forall num is_primary sds nd ifs locs,
    NoDup (map gid sds) ->
    locs_fit num true is_primary sds nd ifs locs ->
    let tot := total num sds nd in
    cp_blocks true is_primary sds nd tot (pdict_spec num tot nd sds 0 []) ifs locs
    = Ok (map (blk_to num is_primary sds nd tot) (combine ifs locs)).
Proof.
  intros num is_primary sds nd ifs; induction ifs as [|i ri IH]; intros locs Hnd Hfit tot; subst tot;
    set (tot := total num sds nd) in *.
  - destruct locs; [reflexivity|destruct Hfit].
  - destruct locs as [|L rl]; [destruct Hfit|]. destruct Hfit as (Hi & Hr).
    cbn [cp_blocks combine map].
    fold (side_gid is_primary i).
    assert (Hblk : (if mem_gid (side_gid is_primary i) sds
                    then bind (lookup (pdict_spec num tot nd sds 0 []) (side_gid is_primary i))
                              (fun P => mul L (transpose P))
                    else Ok (zeros (imc i * nd) tot))
                   = Ok (blk_to num is_primary sds nd tot (i, L))).
    { unfold blk_to. cbn [fst snd].
      destruct (mem_gid (side_gid is_primary i) sds) eqn:Em; [|reflexivity].
      destruct (mem_gid_in _ _ Em) as (g & Hg & Eg).
      destruct (Hi g Hg Eg) as (Hnr & Hnc & Hcols).
      rewrite <- Eg. rewrite lookup_pdict_in by assumption. cbn [bind plus].
      rewrite transpose_pmat, (mul_rmat_r L tot _ (num g * nd) Hnc Hcols), Hnr. reflexivity. }
    rewrite Hblk. cbn [bind]. rewrite (IH rl Hnd Hr). reflexivity.
Qed.

Lemma vstack_blk_to : forall num is_primary sds nd tot ifs locs a,
    length ifs = length locs ->
    vstack_ents (map (blk_to num is_primary sds nd tot) (combine ifs locs)) a
    = placed_to_mortar num is_primary sds nd ifs locs a.
Proof.
  intros num is_primary sds nd tot ifs; induction ifs as [|i ri IH]; intros [|L rl] a Hlen;
    try reflexivity; try discriminate.
  cbn [combine map vstack_ents placed_to_mortar].
  rewrite IH by (cbn in Hlen; lia). f_equal.
  - unfold blk_to. cbn [fst snd].
    destruct (mem_gid (side_gid is_primary i) sds); [|reflexivity].
    cbn [ents]. rewrite map_map. reflexivity.
  - unfold blk_to. cbn [fst snd].
    destruct (mem_gid (side_gid is_primary i) sds); reflexivity.
Qed.

Lemma blk_to_shapes : forall num is_primary sds nd tot ifs locs,
    length ifs = length locs ->
    forallb (fun B => nc B =? tot) (map (blk_to num is_primary sds nd tot) (combine ifs locs)) = true
    /\ sum_by nr (map (blk_to num is_primary sds nd tot) (combine ifs locs))
       = sum_by (fun i => imc i * nd) ifs.
Proof.
  intros num is_primary sds nd tot ifs; induction ifs as [|i ri IH]; intros [|L rl] Hlen;
    try (split; reflexivity); try discriminate.
  cbn [combine map forallb sum_by].
  destruct (IH rl) as (H1 & H2); [cbn in Hlen; lia|]. rewrite H1, H2.
  unfold blk_to. cbn [fst snd].
  destruct (mem_gid (side_gid is_primary i) sds); cbn [zeros nr nc]; rewrite Nat.eqb_refl; split; reflexivity.
Qed.

Lemma locs_fit_length : forall num tm is_primary sds nd ifs locs,
    locs_fit num tm is_primary sds nd ifs locs -> length ifs = length locs.
Proof.
  intros num tm is_primary sds nd ifs; induction ifs as [|i ri IH]; intros [|L rl] H;
    cbn [locs_fit] in H; try reflexivity; try contradiction.
  destruct H as (_ & H). cbn [length]. f_equal. now apply IH.
Qed.

Lemma uniq_const : forall c l, l <> [] -> Forall (fun x => x = c) l -> uniq l = [c].
Proof.
  intros c l; induction l as [|x l IH]; intros Hne H; [congruence|].
  inversion H as [|y ys Hx Hl]; subst. cbn [uniq].
  destruct l as [|y l]; [reflexivity|].
  rewrite IH; [|discriminate|exact Hl]. cbn [filter]. rewrite Nat.eqb_refl. reflexivity.
Qed.

Lemma side_projections : forall (faces : bool) sds nd,
    1 <= nd -> Forall wf_grid sds ->
    let num := if faces then nfaces else ncells in
    (if faces then face_projections sds nd else cell_projections sds nd)
    = Ok (pdict_spec num (total num sds nd) nd sds 0 []).
Proof.
  intros faces sds nd Hnd Hwf num. destruct faces.
  - exact (projections_spec Faces sds nd Hnd Hwf).
  - exact (projections_spec Cells sds nd Hnd Hwf).
Qed.

(* subdomains -> mortar *)
Lemma construct_to_mortar : forall sds ifs nd is_primary locs c,
    1 <= nd -> Forall wf_grid sds -> NoDup (map gid sds) ->
    ifs <> [] -> Forall (fun i => icodim i = c) ifs -> c = 1 \/ c = 2 ->
    let num := side_num is_primary c in
    locs_fit num true is_primary sds nd ifs locs ->
    construct_projection sds ifs nd true is_primary locs
    = Ok (mkM (sum_by (fun i => imc i * nd) ifs) (total num sds nd)
              (placed_to_mortar num is_primary sds nd ifs locs 0)).
Proof.
  intros sds ifs nd is_primary locs c Hnd Hwf Hnodup Hne Hcod Hc num Hfit.
  unfold construct_projection.
  destruct ifs as [|i0 r0] eqn:Eifs; [congruence|]. rewrite <- Eifs in *.
  rewrite (uniq_const c (map icodim ifs)).
  2:{ rewrite Eifs. discriminate. }
  2:{ apply Forall_forall. intros x Hx. apply in_map_iff in Hx. destruct Hx as (i & <- & Hi).
      rewrite Forall_forall in Hcod. now apply Hcod. }
  assert (Hcc : (c =? 1) || (c =? 2) = true).
  { destruct Hc as [-> | ->]; reflexivity. }
  rewrite Hcc.
  assert (Enum : (fun g => (if (c =? 1) && is_primary then nfaces else ncells) g) = num).
  { unfold num, side_num. reflexivity. }
  replace (nd * sum_by (if (c =? 1) && is_primary then nfaces else ncells) sds)
    with (total num sds nd) by (unfold total, num, side_num; lia).
  rewrite (side_projections ((c =? 1) && is_primary) sds nd Hnd Hwf).
  fold (side_num is_primary c). fold num. cbn [bind].
  rewrite (cp_blocks_to num is_primary sds nd ifs locs Hnodup Hfit). cbn [bind].
  pose proof (locs_fit_length _ _ _ _ _ _ _ Hfit) as Hlen.
  destruct (blk_to_shapes num is_primary sds nd (total num sds nd) ifs locs Hlen) as (H1 & H2).
  unfold vstack.
  destruct (map (blk_to num is_primary sds nd (total num sds nd)) (combine ifs locs))
    as [|B0 rb] eqn:Eb.
  { exfalso. rewrite Eifs in Eb, Hlen. destruct locs; [discriminate Hlen|discriminate Eb]. }
  assert (HB0 : nc B0 = total num sds nd).
  { pose proof H1 as H1'. cbn [forallb] in H1'. apply andb_prop in H1'. destruct H1' as (H1' & _).
    now apply Nat.eqb_eq in H1'. }
  rewrite HB0, H1, H2. rewrite <- Eb, vstack_blk_to by exact Hlen. reflexivity.
Qed.

(* ------------------------------------------------------------------ mortar -> subdomains *)
Definition blk_from_ok (num : grid -> nat) (is_primary : bool) (sds : list grid) (nd tot : nat)
           (i : intf) (L B : mat) : Prop :=
  nr B = tot /\ nc B = imc i * nd /\
  Permutation (ents B)
    (if mem_gid (side_gid is_primary i) sds
     then map (fun e => (pre num sds (side_gid is_primary i) * nd + erow e, ecol e, evl e)) (ents L)
     else []).

Lemma cp_blocks_from : forall num is_primary sds nd ifs locs,
    NoDup (map gid sds) ->
    locs_fit num false is_primary sds nd ifs locs ->
    let tot := total num sds nd in
    exists Bs,
      cp_blocks false is_primary sds nd tot (pdict_spec num tot nd sds 0 []) ifs locs = Ok Bs /\
      Forall2 (fun p B => blk_from_ok num is_primary sds nd tot (fst p) (snd p) B)
              (combine ifs locs) Bs.
Proof.
  intros num is_primary sds nd ifs; induction ifs as [|i ri IH]; intros locs Hnd Hfit tot; subst tot;
    set (tot := total num sds nd) in *.
  - destruct locs; [|destruct Hfit]. exists []. split; [reflexivity|constructor].
  - destruct locs as [|L rl]; [destruct Hfit|]. destruct Hfit as (Hi & Hr).
    cbn [cp_blocks combine].
    fold (side_gid is_primary i).
    assert (Hblk : exists B,
               (if mem_gid (side_gid is_primary i) sds
                then bind (lookup (pdict_spec num tot nd sds 0 []) (side_gid is_primary i))
                          (fun P => mul P L)
                else Ok (zeros tot (imc i * nd))) = Ok B
               /\ blk_from_ok num is_primary sds nd tot i L B).
    { unfold blk_from_ok.
      destruct (mem_gid (side_gid is_primary i) sds) eqn:Em.
      - destruct (mem_gid_in _ _ Em) as (g & Hg & Eg).
        destruct (Hi g Hg Eg) as (Hnc & Hnr & Hrows).
        rewrite <- Eg. rewrite lookup_pdict_in by assumption. cbn [bind plus].
        destruct (mul_pmat_l L tot (pre num sds (gid g) * nd) (num g * nd) Hnr Hrows)
          as (es & Hmul & Hperm).
        exists (mkM tot (nc L) es). split; [exact Hmul|]. cbn [nr nc ents].
        split; [reflexivity|]. split; [exact Hnc|exact Hperm].
      - exists (zeros tot (imc i * nd)). split; [reflexivity|]. cbn [zeros nr nc ents].
        split; [reflexivity|]. split; [reflexivity|constructor]. }
    destruct Hblk as (B & HB & HokB). rewrite HB. cbn [bind].
    destruct (IH rl Hnd Hr) as (Bs & HBs & Hall). rewrite HBs. cbn [bind].
    exists (B :: Bs). split; [reflexivity|]. constructor; [exact HokB|exact Hall].
Qed.

Lemma hstack_blk_from : forall num is_primary sds nd tot ifs locs Bs a,
    Forall2 (fun p B => blk_from_ok num is_primary sds nd tot (fst p) (snd p) B)
            (combine ifs locs) Bs ->
    length ifs = length locs ->
    Permutation (hstack_ents Bs a) (placed_from_mortar num is_primary sds nd ifs locs a)
    /\ forallb (fun B => nr B =? tot) Bs = true
    /\ sum_by nc Bs = sum_by (fun i => imc i * nd) ifs.
Proof.
  intros num is_primary sds nd tot ifs; induction ifs as [|i ri IH]; intros [|L rl] Bs a Hall Hlen;
    try discriminate.
  - cbn [combine] in Hall. inversion Hall; subst. cbn. repeat split; constructor.
  - cbn [combine] in Hall. inversion Hall as [|p B ps Bs' HB Hrest]; subst.
    destruct HB as (Hnr & Hnc & Hperm). cbn [fst snd] in *.
    destruct (IH rl Bs' (a + nc B) Hrest) as (Hp & Hf & Hs); [cbn in Hlen; lia|].
    cbn [hstack_ents placed_from_mortar forallb sum_by].
    rewrite Hnr, Nat.eqb_refl, Hf, Hs, Hnc. repeat split.
    apply Permutation_app.
    + apply (Permutation_map (shift_col a)) in Hperm.
      eapply Permutation_trans; [exact Hperm|].
      destruct (mem_gid (side_gid is_primary i) sds); [|constructor].
      rewrite map_map. apply Permutation_refl.
    + rewrite Hnc in Hp. exact Hp.
Qed.

Lemma construct_from_mortar : forall sds ifs nd is_primary locs c,
    1 <= nd -> Forall wf_grid sds -> NoDup (map gid sds) ->
    ifs <> [] -> Forall (fun i => icodim i = c) ifs -> c = 1 \/ c = 2 ->
    let num := side_num is_primary c in
    locs_fit num false is_primary sds nd ifs locs ->
    exists es,
      construct_projection sds ifs nd false is_primary locs
      = Ok (mkM (total num sds nd) (sum_by (fun i => imc i * nd) ifs) es) /\
      Permutation es (placed_from_mortar num is_primary sds nd ifs locs 0).
Proof.
  intros sds ifs nd is_primary locs c Hnd Hwf Hnodup Hne Hcod Hc num Hfit.
  unfold construct_projection.
  destruct ifs as [|i0 r0] eqn:Eifs; [congruence|]. rewrite <- Eifs in *.
  rewrite (uniq_const c (map icodim ifs)).
  2:{ rewrite Eifs. discriminate. }
  2:{ apply Forall_forall. intros x Hx. apply in_map_iff in Hx. destruct Hx as (i & <- & Hi).
      rewrite Forall_forall in Hcod. now apply Hcod. }
  assert (Hcc : (c =? 1) || (c =? 2) = true).
  { destruct Hc as [-> | ->]; reflexivity. }
  rewrite Hcc.
  replace (nd * sum_by (if (c =? 1) && is_primary then nfaces else ncells) sds)
    with (total num sds nd) by (unfold total, num, side_num; lia).
  rewrite (side_projections ((c =? 1) && is_primary) sds nd Hnd Hwf).
  fold (side_num is_primary c). fold num. cbn [bind].
  destruct (cp_blocks_from num is_primary sds nd ifs locs Hnodup Hfit) as (Bs & HBs & Hall).
  rewrite HBs. cbn [bind].
  pose proof (locs_fit_length _ _ _ _ _ _ _ Hfit) as Hlen.
  destruct (hstack_blk_from num is_primary sds nd (total num sds nd) ifs locs Bs 0 Hall Hlen)
    as (Hperm & Hf & Hs).
  unfold hstack. destruct Bs as [|B0 rb].
  { exfalso. rewrite Eifs in Hall, Hlen. destruct locs; [discriminate Hlen|]. cbn [combine] in Hall.
    inversion Hall. }
  assert (HB0 : nr B0 = total num sds nd).
  { pose proof Hf as Hf'. cbn [forallb] in Hf'. apply andb_prop in Hf'. destruct Hf' as (Hf' & _).
    now apply Nat.eqb_eq in Hf'. }
  rewrite HB0, Hf, Hs. eexists. split; [reflexivity|exact Hperm].
Qed.

(* no interfaces: zero matrices of the face-based (primary) / cell-based (secondary) size *)
Lemma construct_no_interfaces : forall sds nd to_mortar is_primary locs,
    construct_projection sds [] nd to_mortar is_primary locs
    = Ok (let n := nd * sum_by (if is_primary then nfaces else ncells) sds in
          if to_mortar then zeros 0 n else zeros n 0).
Proof. reflexivity. Qed.

(* mixed or unsupported codimensions are rejected *)
Lemma construct_mixed_codim : forall sds ifs nd to_mortar is_primary locs i j,
    In i ifs -> In j ifs -> icodim i <> icodim j ->
    construct_projection sds ifs nd to_mortar is_primary locs = Err ValueErr.
Proof.
  intros sds ifs nd to_mortar is_primary locs i j Hi Hj Hne.
  unfold construct_projection. destruct ifs as [|i0 r0] eqn:E; [destruct Hi|]. rewrite <- E in *.
  assert (Hu : forall l x y, In x l -> In y l -> x <> y -> exists a b t, uniq l = a :: b :: t).
  { clear. induction l as [|z l IH]; intros x y Hx Hy Hxy; [destruct Hx|].
    cbn [uniq].
    assert (Hin : forall w, In w l -> w <> z -> In w (filter (fun y0 => negb (y0 =? z)) (uniq l))).
    { intros w Hw Hwz. apply filter_In. split.
      - clear - Hw. induction l as [|q l IHl]; [destruct Hw|]. cbn [uniq].
        destruct Hw as [->|Hw]; [now left|].
        destruct (Nat.eq_dec w q) as [->|Hq]; [now left|]. right. apply filter_In. split.
        + now apply IHl.
        + apply negb_true_iff. now apply Nat.eqb_neq.
      - apply negb_true_iff. now apply Nat.eqb_neq. }
    destruct (Nat.eq_dec x z) as [->|Hxz].
    - destruct Hy as [->|Hy]; [congruence|].
      assert (Hyz : y <> z) by congruence.
      specialize (Hin y Hy Hyz).
      destruct (filter (fun y0 => negb (y0 =? z)) (uniq l)) as [|b t]; [destruct Hin|].
      now exists z, b, t.
    - destruct Hx as [->|Hx]; [congruence|].
      specialize (Hin x Hx Hxz).
      destruct (filter (fun y0 => negb (y0 =? z)) (uniq l)) as [|b t]; [destruct Hin|].
      now exists z, b, t. }
  destruct (Hu (map icodim ifs) (icodim i) (icodim j)) as (a & b & t & Eu);
    [now apply in_map|now apply in_map|exact Hne|].
  rewrite Eu. destruct ifs; reflexivity.
Qed.
