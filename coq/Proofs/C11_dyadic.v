(* C11 / C13 — the dyadic arithmetic the certificates are executed with is exact: the value
   map dy : dyad -> Q sends dadd, dmul, dopp, dsub, dabs to +, *, -, -, |.| of Q (up to Qeq),
   and dleb decides <=.  (Transfer of the field operations; the transfer of the whole
   polymorphic model functions from the dyadic instance to R is not proved.) *)
From Coq Require Import ZArith QArith Qabs Qpower Lia.
From PP Require Import Model.C11.
Local Open Scope Q_scope.

Definition two : Q := 2 # 1.
Lemma two_nz : ~ two == 0. Proof. unfold two. discriminate. Qed.

Lemma pow2_pos (e : Z) : (0 < 2 ^ e)%Z \/ (e < 0)%Z.
Proof. destruct (Z_lt_le_dec e 0); [right; assumption | left; apply Z.pow_pos_nonneg; lia]. Qed.

(* dy (m, e) = m * 2^e *)
Lemma dy_spec (m e : Z) : dy (m, e) == inject_Z m * two ^ e.
Proof.
  unfold dy. destruct (0 <=? e)%Z eqn:E.
  - apply Z.leb_le in E. rewrite inject_Z_mult. rewrite (Zpower_Qpower 2 e E). reflexivity.
  - apply Z.leb_gt in E. rewrite Qred_correct.
    assert (Hp : (0 < 2 ^ (- e))%Z) by (apply Z.pow_pos_nonneg; lia).
    rewrite Qmake_Qdiv. rewrite Z2Pos.id by exact Hp.
    rewrite (Zpower_Qpower 2 (- e)) by lia.
    assert (Hpow : two ^ e == / (two ^ (- e))).
    { rewrite <- (Qpower_opp two (- e)). rewrite Z.opp_involutive. reflexivity. }
    rewrite Hpow. change (inject_Z 2) with two. unfold Qdiv. reflexivity.
Qed.

Lemma shiftl_spec (m d : Z) : (0 <= d)%Z -> inject_Z (Z.shiftl m d) == inject_Z m * two ^ d.
Proof.
  intros Hd. rewrite Z.shiftl_mul_pow2 by exact Hd. rewrite inject_Z_mult.
  rewrite (Zpower_Qpower 2 d Hd). reflexivity.
Qed.

Lemma dy_dadd (a b : dyad) : dy (dadd a b) == dy a + dy b.
Proof.
  destruct a as [m1 x1], b as [m2 x2]. unfold dadd.
  destruct (x1 <=? x2)%Z eqn:E.
  - apply Z.leb_le in E. rewrite !dy_spec. rewrite inject_Z_plus, shiftl_spec by lia.
    replace x2 with ((x2 - x1) + x1)%Z at 2 by lia.
    rewrite (Qpower_plus two _ _ two_nz). ring.
  - apply Z.leb_gt in E. rewrite !dy_spec. rewrite inject_Z_plus, shiftl_spec by lia.
    replace x1 with ((x1 - x2) + x2)%Z at 2 by lia.
    rewrite (Qpower_plus two _ _ two_nz). ring.
Qed.

Lemma dy_dmul (a b : dyad) : dy (dmul a b) == dy a * dy b.
Proof.
  destruct a as [m1 x1], b as [m2 x2]. unfold dmul. rewrite !dy_spec.
  rewrite inject_Z_mult, (Qpower_plus two _ _ two_nz). ring.
Qed.

Lemma dy_dopp (a : dyad) : dy (dopp a) == - dy a.
Proof. destruct a as [m x]. unfold dopp. rewrite !dy_spec, inject_Z_opp. ring. Qed.

Lemma dy_dsub (a b : dyad) : dy (dsub a b) == dy a - dy b.
Proof. unfold dsub. rewrite dy_dadd, dy_dopp. ring. Qed.

Lemma dy_zero : dy (0, 0)%Z == 0. Proof. reflexivity. Qed.
Lemma dy_one : dy (1, 0)%Z == 1. Proof. reflexivity. Qed.

Lemma two_pow_nonneg (x : Z) : 0 <= two ^ x.
Proof. apply Qpower_pos. unfold two. discriminate. Qed.

Lemma dy_dabs (a : dyad) : dy (dabs a) == Qabs (dy a).
Proof.
  destruct a as [m x]. unfold dabs. rewrite !dy_spec. rewrite Qabs_Qmult.
  rewrite (Qabs_pos (two ^ x) (two_pow_nonneg x)). reflexivity.
Qed.

(* the executed ring operations, the unit and zero, subtraction and absolute value commute
   with the value map *)
Lemma dyadic_exact :
  (forall a b, dy (dadd a b) == dy a + dy b) /\
  (forall a b, dy (dmul a b) == dy a * dy b) /\
  (forall a, dy (dopp a) == - dy a) /\
  (forall a b, dy (dsub a b) == dy a - dy b) /\
  (forall a, dy (dabs a) == Qabs (dy a)) /\
  dy (o0 DO) == 0 /\ dy (o1 DO) == 1.
Proof.
  repeat split; [apply dy_dadd | apply dy_dmul | apply dy_dopp | apply dy_dsub | apply dy_dabs].
Qed.
