(* C11 — proofs about the MPFA interaction-region model and the matrix-level residual
   (PP.Model.C11) at the reals. *)
From Coq Require Import List ZArith Bool Arith Lia Reals Lra.
Import ListNotations.
From PP Require Import Model.C11.

Local Open Scope R_scope.

(* ---------------- the real instance of the model ---------------- *)
Definition RO : ops R :=
  {| o0 := 0; o1 := 1; oadd := Rplus; osub := Rminus; omul := Rmult; oopp := Ropp |}.

Notation rdotl := (dotl R RO).
Notation rvsubl := (vsubl R RO).
Notation rvoppl := (voppl R RO).
Notation rmvl := (mvl R RO).
Notation rnK := (nK R RO).
Notation rlhs := (lhs R RO).
Notation rcell_of := (cell_of R RO).
Notation rface_eqs := (face_eqs R RO).
Notation rlocal_system := (local_system R RO).
Notation rlhs_all := (lhs_all R RO).
Notation rrhs_all := (rhs_all R).
Notation rapply_inv := (apply_inv R RO).
Notation rsubflux := (subflux R RO).
Notation rsubpressure := (subpressure R RO).
Notation rlinl := (linl R RO).
Notation rcell_ok := (cell_ok R RO).
Notation rface_data_ok := (face_data_ok R RO).
Notation rface_wf := (face_wf R).

Notation rdot3 := (dot3 R RO).
Notation rmulmv3 := (mulmv3 R RO).
Notation rrow_apply := (row_apply R RO).
Notation rlin := (lin R RO).
Notation rexact := (exact R RO).
Notation rbdata := (bdata R RO).
Notation rpcell := (pcell R RO).
Notation rflux_of := (flux_of R RO).
Notation rfacep_of := (facep_of R RO).
Notation rres_flux := (res_flux R RO).
Notation rres_bp := (res_bp R RO).
Notation re0 := (e0 R RO).
Notation re1 := (e1 R RO).
Notation re2 := (e2 R RO).
Notation re3 := (e3 R RO).

Ltac ro := cbn [o0 o1 oadd osub omul oopp RO] in *.

(* ====================== Part A: list algebra ====================== *)
Lemma dotl_comm (u v : list R) : rdotl u v = rdotl v u.
Proof.
  revert v; induction u as [|a u IH]; intros [|b v]; cbn [dotl]; ro; try reflexivity.
  rewrite IH. ring.
Qed.

Lemma dotl_vsubl (u v a : list R) :
  length u = length v -> rdotl (rvsubl u v) a = rdotl u a - rdotl v a.
Proof.
  revert v a; induction u as [|x u IH]; intros [|y v] a Hl; cbn in Hl; try discriminate.
  - cbn [vsubl dotl]; ro. ring.
  - destruct a as [|z a]; cbn [vsubl dotl]; ro; [ring|].
    rewrite IH by (injection Hl; auto). ring.
Qed.

Lemma dotl_voppl (u a : list R) : rdotl (rvoppl u) a = - rdotl u a.
Proof.
  revert a; induction u as [|x u IH]; intros [|z a]; cbn [voppl map dotl]; ro; try ring.
  fold (rvoppl u). rewrite IH. ring.
Qed.

Lemma dotl_zeros_r (u : list R) (d : nat) : rdotl u (repeat 0 d) = 0.
Proof.
  revert d; induction u as [|x u IH]; intros [|d]; cbn [repeat dotl]; ro; try reflexivity.
  rewrite IH. ring.
Qed.

Lemma dotl_zeros_l (u : list R) (d : nat) : rdotl (repeat 0 d) u = 0.
Proof. rewrite dotl_comm. apply dotl_zeros_r. Qed.

Lemma nth_repeat_lt {A} (a dflt : A) (m k : nat) : (k < m)%nat -> nth k (repeat a m) dflt = a.
Proof.
  revert k; induction m as [|m IH]; intros k Hk; [lia|].
  destruct k as [|k]; cbn [repeat nth]; [reflexivity|]. apply IH. lia.
Qed.

Lemma cell_of_ok d K b a cells k :
  Forall (rcell_ok d K b a) cells -> (k < length cells)%nat -> rcell_ok d K b a (rcell_of cells k).
Proof.
  intros HF Hk. rewrite Forall_forall in HF. apply HF. unfold cell_of. apply nth_In. exact Hk.
Qed.

(* shape of a vector of gradients: m gradients of dimension d *)
Definition shape (d m : nat) (G : list (list R)) : Prop :=
  length G = m /\ Forall (fun g => length g = d) G.

Lemma shape_repeat d m (a : list R) : length a = d -> shape d m (repeat a m).
Proof.
  intros Ha. split; [apply repeat_length|].
  apply Forall_forall. intros g Hg. apply repeat_spec in Hg. subst g. exact Ha.
Qed.

(* --- the constant gradient a solves every local equation --- *)
Lemma linear_solves_local :
  forall (d m : nat) (K : list (list R)) (b : R) (a : list R)
         (cells : list (subcell R)) (faces : list (subface R)),
    length a = d -> length cells = m ->
    Forall (rcell_ok d K b a) cells ->
    Forall (rface_wf d m) faces ->
    Forall (rface_data_ok K b a) faces ->
    forall e, In e (rlocal_system cells faces) -> rlhs e (repeat a m) = rhs e.
Proof.
  intros d m K b a cells faces Ha Hm Hc Hw Hd e He.
  unfold local_system in He. apply in_flat_map in He. destruct He as [sf [Hsf He]].
  rewrite Forall_forall in Hw, Hd. specialize (Hw sf Hsf). specialize (Hd sf Hsf).
  destruct sf as [k1 k2 n xc | k n xc pD | k n q]; cbn [face_eqs face_wf face_data_ok] in *.
  - destruct Hw as [Hk1 [Hk2 [Hn Hxc]]].
    destruct (cell_of_ok d K b a cells k1 Hc ltac:(lia)) as [Hx1 [HK1 Hp1]].
    destruct (cell_of_ok d K b a cells k2 Hc ltac:(lia)) as [Hx2 [HK2 Hp2]].
    destruct He as [He | [He | []]]; subst e; unfold lhs, grad_of;
      cbn [terms rhs fold_right fst snd]; rewrite !nth_repeat_lt by assumption; ro.
    + rewrite HK1, HK2, dotl_voppl. ring.
    + rewrite dotl_voppl, !dotl_vsubl by congruence. rewrite Hp1, Hp2. unfold linl; ro.
      rewrite (dotl_comm a (sc_x (rcell_of cells k1))), (dotl_comm a (sc_x (rcell_of cells k2))).
      ring.
  - destruct Hw as [Hk [Hn Hxc]].
    destruct (cell_of_ok d K b a cells k Hc ltac:(lia)) as [Hx [HK Hp]].
    destruct He as [He | []]; subst e; unfold lhs, grad_of;
      cbn [terms rhs fold_right fst snd]; rewrite !nth_repeat_lt by assumption; ro.
    rewrite dotl_vsubl by congruence. rewrite Hp, Hd. unfold linl; ro.
    rewrite (dotl_comm a xc), (dotl_comm a (sc_x (rcell_of cells k))). ring.
  - destruct Hw as [Hk Hn].
    destruct (cell_of_ok d K b a cells k Hc ltac:(lia)) as [Hx [HK Hp]].
    destruct He as [He | []]; subst e; unfold lhs, grad_of;
      cbn [terms rhs fold_right fst snd]; rewrite !nth_repeat_lt by assumption; ro.
    rewrite dotl_voppl, HK, Hd. ring.
Qed.

Lemma lhs_all_linear :
  forall d m K b a cells faces,
    length a = d -> length cells = m ->
    Forall (rcell_ok d K b a) cells -> Forall (rface_wf d m) faces ->
    Forall (rface_data_ok K b a) faces ->
    rlhs_all (rlocal_system cells faces) (repeat a m) = rrhs_all (rlocal_system cells faces).
Proof.
  intros. unfold lhs_all, rhs_all. apply map_ext_in. intros e He.
  eapply linear_solves_local; eassumption.
Qed.

(* --- with a left inverse the computed gradients are a: exact flux and pressure --- *)
Lemma unique_exact :
  forall (d m : nat) (K : list (list R)) (b : R) (a : list R)
         (cells : list (subcell R)) (faces : list (subface R)) (Inv : list (list (list R))),
    length a = d -> length cells = m ->
    Forall (rcell_ok d K b a) cells ->
    Forall (rface_wf d m) faces ->
    Forall (rface_data_ok K b a) faces ->
    (forall G, shape d m G -> rapply_inv Inv (rlhs_all (rlocal_system cells faces) G) = G) ->
    let G := rapply_inv Inv (rrhs_all (rlocal_system cells faces)) in
    G = repeat a m /\
    (forall k n, (k < m)%nat -> rsubflux cells G k n = - rdotl (rnK n K) a) /\
    (forall k x, (k < m)%nat -> length x = d -> rsubpressure cells G k x = rlinl b a x).
Proof.
  intros d m K b a cells faces Inv Ha Hm Hc Hw Hd Hinv G.
  assert (HG : G = repeat a m).
  { unfold G. rewrite <- (lhs_all_linear d m K b a cells faces) by assumption.
    apply Hinv. apply shape_repeat. exact Ha. }
  split; [exact HG|]. rewrite HG. split.
  - intros k n Hk. unfold subflux, grad_of. rewrite nth_repeat_lt by assumption.
    destruct (cell_of_ok d K b a cells k Hc ltac:(lia)) as [Hx [HK Hp]]. rewrite HK. ro. reflexivity.
  - intros k x Hk Hx'. unfold subpressure, grad_of. rewrite nth_repeat_lt by assumption.
    destruct (cell_of_ok d K b a cells k Hc ltac:(lia)) as [Hx [HK Hp]].
    rewrite Hp, dotl_vsubl by congruence. unfold linl; ro.
    rewrite (dotl_comm a x), (dotl_comm a (sc_x (rcell_of cells k))). ring.
Qed.

(* --- constant pressure: zero flux --- *)
Definition cell_const (d : nat) (K : list (list R)) (b : R) (c : subcell R) : Prop :=
  length (sc_x c) = d /\ sc_K c = K /\ sc_p c = b.
Definition face_const (b : R) (sf : subface R) : Prop :=
  match sf with
  | Interior _ _ _ _ => True
  | DirichletF _ _ _ pD => pD = b
  | NeumannF _ _ q => q = 0
  end.

Lemma constant_zero :
  forall (d m : nat) (K : list (list R)) (b : R)
         (cells : list (subcell R)) (faces : list (subface R)) (Inv : list (list (list R))),
    length cells = m ->
    Forall (cell_const d K b) cells ->
    Forall (rface_wf d m) faces ->
    Forall (face_const b) faces ->
    (forall G, shape d m G -> rapply_inv Inv (rlhs_all (rlocal_system cells faces) G) = G) ->
    let G := rapply_inv Inv (rrhs_all (rlocal_system cells faces)) in
    forall k n, (k < m)%nat -> rsubflux cells G k n = 0.
Proof.
  intros d m K b cells faces Inv Hm Hc Hw Hd Hinv G k n Hk.
  assert (Hc' : Forall (rcell_ok d K b (repeat 0 d)) cells).
  { eapply Forall_impl; [|exact Hc]. intros c [H1 [H2 H3]]. repeat split; try assumption.
    unfold linl; ro. rewrite dotl_zeros_l, H3. ring. }
  assert (Hd' : Forall (rface_data_ok K b (repeat 0 d)) faces).
  { eapply Forall_impl; [|exact Hd]. intros [k1 k2 n' xc | k' n' xc pD | k' n' q] H;
      cbn [face_const face_data_ok] in *; [exact I | |].
    - unfold linl; ro. rewrite dotl_zeros_l, H. ring.
    - ro. rewrite dotl_zeros_r, H. ring. }
  destruct (unique_exact d m K b (repeat 0 d) cells faces Inv (repeat_length _ _) Hm Hc' Hw Hd' Hinv)
    as [_ [Hf _]].
  fold G in Hf. rewrite Hf by assumption. rewrite dotl_zeros_r. ring.
Qed.

(* ====================== Part B: matrix level ====================== *)
Lemma row_apply_ext (M : coo R) r (x y : nat -> R) :
  (forall k, x k = y k) -> rrow_apply M r x = rrow_apply M r y.
Proof.
  intros H. induction M as [|t M IH]; [reflexivity|]. cbn [row_apply fold_right].
  fold (rrow_apply M r x). fold (rrow_apply M r y). rewrite IH, H. reflexivity.
Qed.

Lemma row_apply_lin4 (M : coo R) r (c0 c1 c2 c3 : R) (x0 x1 x2 x3 : nat -> R) :
  rrow_apply M r (fun k => c0 * x0 k + c1 * x1 k + c2 * x2 k + c3 * x3 k) =
  c0 * rrow_apply M r x0 + c1 * rrow_apply M r x1 + c2 * rrow_apply M r x2 + c3 * rrow_apply M r x3.
Proof.
  induction M as [|t M IH]; [cbn; ro; ring|]. cbn [row_apply fold_right].
  fold (rrow_apply M r (fun k => c0 * x0 k + c1 * x1 k + c2 * x2 k + c3 * x3 k)).
  fold (rrow_apply M r x0). fold (rrow_apply M r x1). fold (rrow_apply M r x2). fold (rrow_apply M r x3).
  rewrite IH. destruct (fst (fst t) =? r)%nat; ro; ring.
Qed.

Section MatrixLevel.
  Variable I : inst R.

  Lemma lin_decomp b ax ay az (x : vec3 R) :
    rlin (b, (ax, ay, az)) x = b * rlin re0 x + ax * rlin re1 x + ay * rlin re2 x + az * rlin re3 x.
  Proof. destruct x as [[x y] z]. unfold lin, dot3, e0, e1, e2, e3; cbn [fst snd]; ro. ring. Qed.

  Lemma exact_decomp b ax ay az f :
    rexact I (b, (ax, ay, az)) f =
    b * rexact I re0 f + ax * rexact I re1 f + ay * rexact I re2 f + az * rexact I re3 f.
  Proof.
    unfold exact, mulmv3, dot3, e0, e1, e2, e3; cbn [fst snd].
    destruct (normal I f) as [[n1 n2] n3].
    destruct (perm I) as [[[[k11 k12] k13] [[k21 k22] k23]] [[k31 k32] k33]]. ro. ring.
  Qed.

  Lemma pcell_decomp b ax ay az k :
    rpcell I (b, (ax, ay, az)) k =
    b * rpcell I re0 k + ax * rpcell I re1 k + ay * rpcell I re2 k + az * rpcell I re3 k.
  Proof. unfold pcell. apply lin_decomp. Qed.

  Lemma bdata_decomp b ax ay az f :
    rbdata I (b, (ax, ay, az)) f =
    b * rbdata I re0 f + ax * rbdata I re1 f + ay * rbdata I re2 f + az * rbdata I re3 f.
  Proof.
    unfold bdata. destruct (btype I f).
    - ro. ring.
    - apply lin_decomp.
    - rewrite exact_decomp. ro. ring.
  Qed.

  Lemma flux_of_decomp b ax ay az f :
    rflux_of I (b, (ax, ay, az)) f =
    b * rflux_of I re0 f + ax * rflux_of I re1 f + ay * rflux_of I re2 f + az * rflux_of I re3 f.
  Proof.
    unfold flux_of. ro.
    rewrite (row_apply_ext (FL I) f _ _ (pcell_decomp b ax ay az)).
    rewrite (row_apply_ext (BF I) f _ _ (bdata_decomp b ax ay az)).
    rewrite !row_apply_lin4. ring.
  Qed.

  Lemma facep_of_decomp b ax ay az f :
    rfacep_of I (b, (ax, ay, az)) f =
    b * rfacep_of I re0 f + ax * rfacep_of I re1 f + ay * rfacep_of I re2 f + az * rfacep_of I re3 f.
  Proof.
    unfold facep_of. ro.
    rewrite (row_apply_ext (BPC I) f _ _ (pcell_decomp b ax ay az)).
    rewrite (row_apply_ext (BPF I) f _ _ (bdata_decomp b ax ay az)).
    rewrite !row_apply_lin4. ring.
  Qed.

  (* the residuals are linear in the coefficients of the field *)
  Lemma res_flux_decomp b ax ay az f :
    rres_flux I (b, (ax, ay, az)) f =
    b * rres_flux I re0 f + ax * rres_flux I re1 f + ay * rres_flux I re2 f + az * rres_flux I re3 f.
  Proof. unfold res_flux. rewrite flux_of_decomp, exact_decomp. ro. ring. Qed.

  Lemma res_bp_decomp b ax ay az f :
    rres_bp I (b, (ax, ay, az)) f =
    b * rres_bp I re0 f + ax * rres_bp I re1 f + ay * rres_bp I re2 f + az * rres_bp I re3 f.
  Proof. unfold res_bp. rewrite facep_of_decomp, (lin_decomp b ax ay az). ro. ring. Qed.

  Lemma comb_bound (b ax ay az r0 r1 r2 r3 t0 t1 t2 t3 : R) :
    Rabs r0 <= t0 -> Rabs r1 <= t1 -> Rabs r2 <= t2 -> Rabs r3 <= t3 ->
    Rabs (b * r0 + ax * r1 + ay * r2 + az * r3)
    <= Rabs b * t0 + Rabs ax * t1 + Rabs ay * t2 + Rabs az * t3.
  Proof.
    intros H0 H1 H2 H3.
    pose proof (Rabs_triang (b * r0 + ax * r1 + ay * r2) (az * r3)) as T1.
    pose proof (Rabs_triang (b * r0 + ax * r1) (ay * r2)) as T2.
    pose proof (Rabs_triang (b * r0) (ax * r1)) as T3.
    rewrite !Rabs_mult in *.
    pose proof (Rmult_le_compat_l _ _ _ (Rabs_pos b) H0).
    pose proof (Rmult_le_compat_l _ _ _ (Rabs_pos ax) H1).
    pose proof (Rmult_le_compat_l _ _ _ (Rabs_pos ay) H2).
    pose proof (Rmult_le_compat_l _ _ _ (Rabs_pos az) H3).
    lra.
  Qed.

  (* a bound established for the four basis fields extends to every linear field *)
  Lemma linear_extension_flux :
    forall (f : nat) (t0 t1 t2 t3 : R),
      Rabs (rres_flux I re0 f) <= t0 -> Rabs (rres_flux I re1 f) <= t1 ->
      Rabs (rres_flux I re2 f) <= t2 -> Rabs (rres_flux I re3 f) <= t3 ->
      forall b ax ay az : R,
        Rabs (rflux_of I (b, (ax, ay, az)) f - rexact I (b, (ax, ay, az)) f)
        <= Rabs b * t0 + Rabs ax * t1 + Rabs ay * t2 + Rabs az * t3.
  Proof.
    intros f t0 t1 t2 t3 H0 H1 H2 H3 b ax ay az.
    change (rflux_of I (b, (ax, ay, az)) f - rexact I (b, (ax, ay, az)) f)
      with (rres_flux I (b, (ax, ay, az)) f).
    rewrite res_flux_decomp. apply comb_bound; assumption.
  Qed.

  Lemma linear_extension_bp :
    forall (f : nat) (t0 t1 t2 t3 : R),
      Rabs (rres_bp I re0 f) <= t0 -> Rabs (rres_bp I re1 f) <= t1 ->
      Rabs (rres_bp I re2 f) <= t2 -> Rabs (rres_bp I re3 f) <= t3 ->
      forall b ax ay az : R,
        Rabs (rfacep_of I (b, (ax, ay, az)) f - rlin (b, (ax, ay, az)) (fcen I f))
        <= Rabs b * t0 + Rabs ax * t1 + Rabs ay * t2 + Rabs az * t3.
  Proof.
    intros f t0 t1 t2 t3 H0 H1 H2 H3 b ax ay az.
    change (rfacep_of I (b, (ax, ay, az)) f - rlin (b, (ax, ay, az)) (fcen I f))
      with (rres_bp I (b, (ax, ay, az)) f).
    rewrite res_bp_decomp. apply comb_bound; assumption.
  Qed.

  (* exact version: equality for the basis fields gives equality for every linear field *)
  Lemma linear_extension_exact :
    forall f : nat,
      rres_flux I re0 f = 0 -> rres_flux I re1 f = 0 -> rres_flux I re2 f = 0 ->
      rres_flux I re3 f = 0 ->
      forall b ax ay az : R, rflux_of I (b, (ax, ay, az)) f = rexact I (b, (ax, ay, az)) f.
  Proof.
    intros f H0 H1 H2 H3 b ax ay az.
    pose proof (res_flux_decomp b ax ay az f) as H. rewrite H0, H1, H2, H3 in H.
    unfold res_flux in H; ro. lra.
  Qed.

  Lemma linear_extension_bp_exact :
    forall f : nat,
      rres_bp I re0 f = 0 -> rres_bp I re1 f = 0 -> rres_bp I re2 f = 0 -> rres_bp I re3 f = 0 ->
      forall b ax ay az : R, rfacep_of I (b, (ax, ay, az)) f = rlin (b, (ax, ay, az)) (fcen I f).
  Proof.
    intros f H0 H1 H2 H3 b ax ay az.
    pose proof (res_bp_decomp b ax ay az f) as H. rewrite H0, H1, H2, H3 in H.
    unfold res_bp in H; ro. lra.
  Qed.

  (* certificate (ii): the residual of the captured local equations is linear in the field,
     too (LA = local matrix, nd = gradient components per sub-cell; the right-hand side
     matrices sit in the FL / BF slots of I) *)
  Lemma gstar_decomp b ax ay az nd col :
    gstar R (b, (ax, ay, az)) nd col =
    b * gstar R re0 nd col + ax * gstar R re1 nd col + ay * gstar R re2 nd col
    + az * gstar R re3 nd col.
  Proof.
    unfold gstar, comp3, e0, e1, e2, e3; cbn [fst snd].
    destruct (col mod nd)%nat as [|[|k]]; ro; ring.
  Qed.

  Lemma res_local_decomp (LA : coo R) nd b ax ay az r :
    res_local R RO I LA nd (b, (ax, ay, az)) r =
    b * res_local R RO I LA nd re0 r + ax * res_local R RO I LA nd re1 r
    + ay * res_local R RO I LA nd re2 r + az * res_local R RO I LA nd re3 r.
  Proof.
    unfold res_local. ro.
    rewrite (row_apply_ext LA r _ _ (fun col => gstar_decomp b ax ay az nd col)).
    rewrite row_apply_lin4, flux_of_decomp. ring.
  Qed.

  Lemma local_rows_linear_extension :
    forall (LA : coo R) (nd r : nat) (t0 t1 t2 t3 : R),
      Rabs (res_local R RO I LA nd re0 r) <= t0 -> Rabs (res_local R RO I LA nd re1 r) <= t1 ->
      Rabs (res_local R RO I LA nd re2 r) <= t2 -> Rabs (res_local R RO I LA nd re3 r) <= t3 ->
      forall b ax ay az : R,
        Rabs (rrow_apply LA r (gstar R (b, (ax, ay, az)) nd) - rflux_of I (b, (ax, ay, az)) r)
        <= Rabs b * t0 + Rabs ax * t1 + Rabs ay * t2 + Rabs az * t3.
  Proof.
    intros LA nd r t0 t1 t2 t3 H0 H1 H2 H3 b ax ay az.
    change (rrow_apply LA r (gstar R (b, (ax, ay, az)) nd) - rflux_of I (b, (ax, ay, az)) r)
      with (res_local R RO I LA nd (b, (ax, ay, az)) r).
    rewrite res_local_decomp. apply comb_bound; assumption.
  Qed.

  (* constant pressure: zero flux (up to the band of the constant basis field) *)
  Lemma constant_zero_matrix :
    forall (f : nat) (t0 : R),
      Rabs (rres_flux I re0 f) <= t0 ->
      forall b : R, Rabs (rflux_of I (b, (0, 0, 0)) f) <= Rabs b * t0.
  Proof.
    intros f t0 H0 b.
    assert (E : rflux_of I (b, (0, 0, 0)) f = b * rres_flux I re0 f).
    { pose proof (res_flux_decomp b 0 0 0 f) as H.
      assert (X : rexact I (b, (0, 0, 0)) f = 0).
      { unfold exact, mulmv3, dot3; cbn [fst snd].
        destruct (normal I f) as [[n1 n2] n3].
        destruct (perm I) as [[[[k11 k12] k13] [[k21 k22] k23]] [[k31 k32] k33]]. ro. ring. }
      unfold res_flux at 1 in H. rewrite X in H. ro. lra. }
    rewrite E, Rabs_mult. apply Rmult_le_compat_l; [apply Rabs_pos | exact H0].
  Qed.
End MatrixLevel.

(* ====================== non-vacuity witnesses ====================== *)
(* Interaction region at the boundary vertex (1,0) of a 2 x 1 Cartesian grid, K = [[2,1],[1,3]]:
   two sub-cells, one interior sub-face, one Dirichlet and one Neumann sub-face. *)
Definition exK : list (list R) := [[2; 1]; [1; 3]].
Definition exa : list R := [1; -2].
Definition exb : R := 3.
Definition excells : list (subcell R) :=
  [ {| sc_x := [1/2; 1/2]; sc_p := rlinl exb exa [1/2; 1/2]; sc_K := exK |};
    {| sc_x := [3/2; 1/2]; sc_p := rlinl exb exa [3/2; 1/2]; sc_K := exK |} ].
Definition exfaces : list (subface R) :=
  [ Interior 0 1 [1/2; 0] [1; 1/2];
    DirichletF 0 [0; -1/2] [1/2; 0] (rlinl exb exa [1/2; 0]);
    NeumannF 1 [0; -1/2] (- rdotl (rnK [0; -1/2] exK) exa) ].
Definition exInv : list (list (list R)) :=
  [ [ [6/11; 10/11; 6/11; 2/11]; [0; 0; -2; 0] ];
    [ [-6/11; 12/11; -6/11; -2/11]; [2/11; -4/11; 2/11; 8/11] ] ].

Lemma example_region :
  length exa = 2%nat /\ length excells = 2%nat /\
  Forall (rcell_ok 2 exK exb exa) excells /\
  Forall (rface_wf 2 2) exfaces /\
  Forall (rface_data_ok exK exb exa) exfaces /\
  (forall G, shape 2 2 G -> rapply_inv exInv (rlhs_all (rlocal_system excells exfaces) G) = G) /\
  exa <> repeat 0 2.
Proof.
  repeat split; try reflexivity.
  - repeat constructor.
  - repeat constructor.
  - repeat constructor.
  - intros G [HL HF].
    destruct G as [|g0 [|g1 [|g2 G]]]; cbn in HL; try discriminate.
    inversion HF as [|? ? H0 HF']; subst. inversion HF' as [|? ? H1 _]; subst.
    destruct g0 as [|a0 [|a1 [|a2 g0]]]; cbn in H0; try discriminate.
    destruct g1 as [|b0 [|b1 [|b2 g1]]]; cbn in H1; try discriminate.
    unfold apply_inv, lhs_all, local_system, exInv, exfaces, excells, exK, lhs, grad_of.
    cbn [flat_map face_eqs app map terms rhs fold_right fst snd cell_of nth sc_x sc_K sc_p
         nK mvl dotl vsubl voppl]; ro.
    repeat f_equal; field.
  - intros H. inversion H. lra.
Qed.

(* A two-cell instance with exact two-point matrices (cells [0,1] and [1,2] on the x axis,
   K = identity, face 0 Dirichlet, face 2 Neumann): all basis residuals vanish. *)
Definition exinst : inst R :=
  {| nf := 3;
     ccen := fun k => (INR k + 1/2, 0, 0);
     fcen := fun f => (INR f, 0, 0);
     normal := fun _ => (1, 0, 0);
     perm := ((1, 0, 0), (0, 1, 0), (0, 0, 1));
     btype := fun f => match f with O => BDir | 2%nat => BNeu | _ => BInt end;
     bsgn := fun f => match f with O => -1 | 2%nat => 1 | _ => 0 end;
     FL := [(0%nat, 0%nat, -2); (1%nat, 0%nat, 1); (1%nat, 1%nat, -1)];
     BF := [(0%nat, 0%nat, 2); (2%nat, 2%nat, 1)];
     BPC := [(2%nat, 1%nat, 1)];
     BPF := [(0%nat, 0%nat, 1); (2%nat, 2%nat, -1/2)] |}.

Lemma example_instance :
  forall f, (f < 3)%nat ->
    rres_flux exinst re0 f = 0 /\ rres_flux exinst re1 f = 0 /\
    rres_flux exinst re2 f = 0 /\ rres_flux exinst re3 f = 0 /\
    (f <> 1%nat ->
     rres_bp exinst re0 f = 0 /\ rres_bp exinst re1 f = 0 /\
     rres_bp exinst re2 f = 0 /\ rres_bp exinst re3 f = 0).
Proof.
  intros f Hf.
  destruct f as [|[|[|f]]]; [| | |lia];
    unfold res_flux, res_bp, flux_of, facep_of, bdata, exact, pcell, lin, mulmv3, dot3,
           e0, e1, e2, e3, row_apply, exinst;
    cbn [nf ccen fcen normal perm btype bsgn FL BF BPC BPF fold_right fst snd Nat.eqb INR]; ro;
    (repeat split; try lra); exfalso; match goal with Hne : _ <> _ |- _ => apply Hne; reflexivity end.
Qed.
