(* C10 — index sets in any order and with repetitions.  iterate_indices / time_step_indices
   are arbitrary lists whose SET is an initial segment 0..m-1 (the shift depth is the LENGTH
   of the list, as in the code).  Module G repeats Section Drive of Proofs/C10.v verbatim with
   the tail of the time-step history as a section variable (the proofs never look at it);
   the rest establishes the initial state for such index lists and restates the claims. *)
From Coq Require Import List ZArith Bool Arith Lia.
From Coq Require FinFun.
Import ListNotations.
From PP Require Model.C08 Model.C09 Proofs.C08.
From PP Require Import Model.C10 Proofs.C10.

Module G.
Section Drive.
  Variable V : Type.
  Variable vadd : V -> V -> V.
  Variable T : Type.
  Variable O : C09.numops T.
  Variables dI dT : nat.
  Hypothesis HdI : 1 <= dI.
  Hypothesis HdT : 1 <= dT.
  Variable maxit : Z.
  Variable c : C09.cfg T.
  Variable sched : list T.
  Variable v0 : V.

  Notation R := (C08.R V).
  Notation zI := (Z.of_nat dI).
  Notation zT := (Z.of_nat dT).

  (* iterate slot: index 0 holds [a] (and the slot is a window of depth dI) *)
  Definition WI (st : store V) (a : V) : Prop := exists r, R dI (its st) (a :: r).
  (* time-step slot: the window of depth dT over the accepted solutions [acc] (most recent
     first, initial values last) continued by [pad] *)
  Variable pad : list V.     (* what the time-step history holds beyond the accepted solutions *)
  Definition WT (st : store V) (acc : list V) : Prop := R dT (tss st) (acc ++ pad).

  Lemma after_iteration_ok st a inc : WI st a ->
    exists st', after_iteration V vadd zI st inc = (st', None) /\ tss st' = tss st /\
                WI st' (vadd a inc).
  Proof.
    intros [r HR]. unfold after_iteration.
    destruct (shift0 V vadd dI (its st) a r HdI HR) as [s1 [E1 R1]]. rewrite E1. cbn [oerr].
    destruct (add0 V vadd dI s1 a (a :: r) inc HdI R1) as [s2 [E2 R2]]. rewrite E2. cbn [oerr].
    eexists. split; [reflexivity|]. cbn [its tss]. split; [reflexivity|].
    exists (a :: r). exact R2.
  Qed.

  Lemma newton_ok inp : forall st k a, WI st a ->
    (forall e, n_res (newton V vadd maxit zI st k inp) <> NErr e) /\
    tss (n_store (newton V vadd maxit zI st k inp)) = tss st /\
    WI (n_store (newton V vadd maxit zI st k inp))
       (fold_left vadd (n_used (newton V vadd maxit zI st k inp)) a).
  Proof.
    induction inp as [|[[inc cv] dv] inp IH]; intros st k a HI.
    - cbn [newton]. destruct (k <=? maxit)%Z; cbn [n_res n_store n_used fold_left];
        (split; [intros e; discriminate|split; [reflexivity|exact HI]]).
    - cbn [newton]. destruct (k <=? maxit)%Z.
      2:{ cbn [n_res n_store n_used fold_left].
          split; [intros e; discriminate|split; [reflexivity|exact HI]]. }
      destruct (after_iteration_ok st a inc HI) as [st1 [E1 [Ht1 HI1]]]. rewrite E1.
      destruct dv; [|destruct cv].
      + cbn [n_res n_store n_used fold_left].
        split; [intros e; discriminate|split; [exact Ht1|exact HI1]].
      + cbn [n_res n_store n_used fold_left].
        split; [intros e; discriminate|split; [exact Ht1|exact HI1]].
      + cbn [n_res n_store n_used fold_left].
        destruct (IH st1 (k + 1)%Z (vadd a inc) HI1) as [H1 [H2 H3]].
        split; [exact H1|split; [rewrite H2; exact Ht1|exact H3]].
  Qed.

  Lemma after_convergence_ok s1 st k cur a acc : WI st cur -> WT st (a :: acc) ->
    (h_clock (after_convergence V vadd T O c sched zT s1 st k),
     h_out (after_convergence V vadd T O c sched zT s1 st k))
    = (if C09.constant c then (s1, C09.OUnit)
       else C09.compute_time_step T O c sched s1 (Some k) false) /\
    match h_out (after_convergence V vadd T O c sched zT s1 st k) with
    | C09.OErr e => h_exc (after_convergence V vadd T O c sched zT s1 st k) = Some (inl e) /\
                    h_store (after_convergence V vadd T O c sched zT s1 st k) = st
    | _ => h_exc (after_convergence V vadd T O c sched zT s1 st k) = None /\
           WI (h_store (after_convergence V vadd T O c sched zT s1 st k)) cur /\
           WT (h_store (after_convergence V vadd T O c sched zT s1 st k)) (cur :: a :: acc)
    end.
  Proof.
    intros [r HRi] HRt. unfold WT in HRt. cbn [app] in HRt.
    unfold after_convergence. rewrite (get0 V vadd dI (its st) cur r HdI HRi).
    destruct (if C09.constant c then (s1, C09.OUnit)
              else C09.compute_time_step T O c sched s1 (Some k) false) as [s2 o].
    destruct (shift0 V vadd dT (tss st) a (acc ++ pad) HdT HRt) as [t1 [E1 R1]].
    destruct (set0 V vadd dT t1 (a :: a :: acc ++ pad) cur HdT R1) as [t2 [E2 R2]].
    cbn [tl] in R2.
    destruct o; cbn [h_clock h_out h_exc h_store];
      try (rewrite E1; cbn [oerr]; rewrite E2; cbn [oerr h_clock h_out h_exc h_store];
           split; [reflexivity|];
           split; [reflexivity|split; [exists r; exact HRi|exact R2]]).
    split; [reflexivity|split; reflexivity].
  Qed.

  Lemma after_failure_ok s1 st cur a acc : WI st cur -> WT st (a :: acc) ->
    (h_clock (after_failure V vadd T O c sched s1 st),
     h_out (after_failure V vadd T O c sched s1 st))
    = (if C09.constant c then (s1, C09.OErr C09.E_not_converged)
       else C09.compute_time_step T O c sched s1 None true) /\
    tss (h_store (after_failure V vadd T O c sched s1 st)) = tss st /\
    match h_out (after_failure V vadd T O c sched s1 st) with
    | C09.OErr e => h_exc (after_failure V vadd T O c sched s1 st) = Some (inl e) /\
                    h_store (after_failure V vadd T O c sched s1 st) = st
    | _ => h_exc (after_failure V vadd T O c sched s1 st) = None /\
           WI (h_store (after_failure V vadd T O c sched s1 st)) a
    end.
  Proof.
    intros [r HRi] HRt. unfold WT in HRt. cbn [app] in HRt.
    unfold after_failure. destruct (C09.constant c).
    { cbn [h_clock h_out h_exc h_store]. repeat split. }
    destruct (C09.compute_time_step T O c sched s1 None true) as [s2 o].
    destruct (set0 V vadd dI (its st) (cur :: r) a HdI HRi) as [i1 [E1 R1]]. cbn [tl] in R1.
    destruct o; cbn [h_clock h_out h_exc h_store];
      try (rewrite (get0 V vadd dT (tss st) a (acc ++ pad) HdT HRt); rewrite E1;
           cbn [oerr h_clock h_out h_exc h_store tss its];
           split; [reflexivity|split; [reflexivity|split; [reflexivity|exists r; exact R1]]]).
    repeat split.
  Qed.

  (* ------------- the time loop ------------- *)
  Notation accept := (accept1 vadd (T := T)).

  (* what holds of one attempted time step, given the accepted solutions [acc] before it *)
  Definition entry_ok (acc : list V) (e : entry V T) : Prop :=
    (forall x, e_res e <> NErr x) /\ e_res e <> NOut /\
    WT (e_store e) (accept acc e) /\
    (no_exc e = true -> WI (e_store e) (hd v0 (accept acc e))).

  Fixpoint trace_ok (acc : list V) (tr : list (entry V T)) : Prop :=
    match tr with
    | [] => True
    | e :: r => entry_ok acc e /\ trace_ok (accept acc e) r
    end.

  Lemma drive_ok solves : forall s st a acc tr sp,
      WI st a -> WT st (a :: acc) ->
      drive V vadd T O maxit zI zT c sched s st solves = (tr, sp) ->
      (forall e, sp <> RaisedStore e) /\
      trace_ok (a :: acc) tr /\
      C09.drive T O c sched s (map ev_of tr) = (map clock_of tr, stop_of sp).
  Proof.
    induction solves as [|inp solves IH]; intros s st a acc tr sp HI HT Hd; cbn [drive] in Hd.
    - destruct (C09.final_time_reached T O c sched s) eqn:Efin; inversion Hd; subst;
        (split; [intros e; discriminate|split; [exact I|]]);
        cbn [map C09.drive stop_of]; rewrite Efin; reflexivity.
    - destruct (C09.final_time_reached T O c sched s) eqn:Efin.
      { inversion Hd; subst. split; [intros e; discriminate|split; [exact I|]].
        cbn [map C09.drive stop_of]. rewrite Efin. reflexivity. }
      pose proof HT as HT'. unfold WT in HT'. cbn [app] in HT'.
      rewrite (get0 V vadd dT (tss st) a (acc ++ pad) HdT HT') in Hd. cbn [snd oerr] in Hd.
      destruct (newton_ok inp st 0 a HI) as [Hne [Hts HIn]].
      set (n := newton V vadd maxit zI st 0 inp) in *.
      assert (HTn : WT (n_store n) (a :: acc)) by (unfold WT; rewrite Hts; exact HT).
      set (s1 := C09.increase_time_index T (C09.increase_time T O s)) in *.
      destruct (n_res n) as [k| | |e] eqn:Eres.
      + (* converged *)
        destruct (after_convergence_ok s1 (n_store n) k _ a acc HIn HTn) as [Hclk Hh].
        set (h := after_convergence V vadd T O c sched zT s1 (n_store n) k) in *.
        destruct (h_out h) as [| dt0 | b0 | | e] eqn:Eout.
        5:{ destruct Hh as [Hexc Hst]. rewrite Hexc in Hd. inversion Hd; subst. clear Hd.
            split; [intros x; discriminate|]. split.
            - cbn [trace_ok]. split; [|exact I]. unfold entry_ok, accept1, no_exc.
              cbn [e_res e_out e_store]. rewrite ?Eout.
              split; [intros x; discriminate|split; [discriminate|]].
              split; [rewrite Hst; exact HTn|discriminate].
            - cbn [map C09.drive stop_of]. rewrite Efin. unfold ev_of at 1. cbn [e_res].
              fold s1. rewrite <- Hclk. unfold clock_of, ev_of. cbn [e_res e_clock e_out].
              rewrite ?Eout. reflexivity. }
        all: destruct Hh as [Hexc [HIh HTh]]; rewrite Hexc in Hd;
          destruct (drive V vadd T O maxit zI zT c sched (h_clock h) (h_store h) solves)
            as [tr' sp'] eqn:Erec;
          inversion Hd; subst; clear Hd;
          destruct (IH _ _ _ _ _ _ HIh HTh Erec) as [IH1 [IH2 IH3]];
          (split; [exact IH1|]); split.
        all: try (cbn [trace_ok]; unfold entry_ok at 1; unfold accept1 at 1 2 3, no_exc;
                  cbn [e_res e_out e_store e_used hd]; rewrite ?Eout;
                  split; [split; [intros x; discriminate|split; [discriminate|]];
                          split; [exact HTh|intros _; exact HIh]|exact IH2]).
        all: cbn [map C09.drive]; rewrite Efin; unfold ev_of at 1; cbn [e_res];
          fold s1; rewrite <- Hclk; unfold clock_of at 1, ev_of at 1;
          cbn [e_res e_clock e_out]; rewrite ?Eout; fold (@ev_of V T); rewrite IH3; reflexivity.
      + (* failed *)
        destruct (after_failure_ok s1 (n_store n) _ a acc HIn HTn) as [Hclk [Htsf Hh]].
        set (h := after_failure V vadd T O c sched s1 (n_store n)) in *.
        assert (HTf : WT (h_store h) (a :: acc)) by (unfold WT; rewrite Htsf; exact HTn).
        destruct (h_out h) as [| dt0 | b0 | | e] eqn:Eout.
        5:{ destruct Hh as [Hexc Hst]. rewrite Hexc in Hd. inversion Hd; subst. clear Hd.
            split; [intros x; discriminate|]. split.
            - cbn [trace_ok]. split; [|exact I]. unfold entry_ok, accept1, no_exc.
              cbn [e_res e_out e_store]. rewrite ?Eout.
              split; [intros x; discriminate|split; [discriminate|]].
              split; [exact HTf|discriminate].
            - cbn [map C09.drive stop_of]. rewrite Efin. unfold ev_of at 1. cbn [e_res].
              fold s1. rewrite <- Hclk. unfold clock_of, ev_of. cbn [e_res e_clock e_out].
              rewrite ?Eout. reflexivity. }
        all: destruct Hh as [Hexc HIh]; rewrite Hexc in Hd;
          destruct (drive V vadd T O maxit zI zT c sched (h_clock h) (h_store h) solves)
            as [tr' sp'] eqn:Erec;
          inversion Hd; subst; clear Hd;
          destruct (IH _ _ _ _ _ _ HIh HTf Erec) as [IH1 [IH2 IH3]];
          (split; [exact IH1|]); split.
        all: try (cbn [trace_ok]; unfold entry_ok at 1; unfold accept1 at 1 2 3, no_exc;
                  cbn [e_res e_out e_store e_used hd]; rewrite ?Eout;
                  split; [split; [intros x; discriminate|split; [discriminate|]];
                          split; [exact HTf|intros _; exact HIh]|exact IH2]).
        all: cbn [map C09.drive]; rewrite Efin; unfold ev_of at 1; cbn [e_res];
          fold s1; rewrite <- Hclk; unfold clock_of at 1, ev_of at 1;
          cbn [e_res e_clock e_out]; rewrite ?Eout; fold (@ev_of V T); rewrite IH3; reflexivity.
      + (* the scripted inputs ran out *)
        inversion Hd; subst. split; [intros e; discriminate|split; [exact I|]].
        cbn [map C09.drive stop_of]. rewrite Efin. reflexivity.
      + exfalso. exact (Hne e eq_refl).
  Qed.

  Lemma final_store_WT tr : forall st acc,
      WT st acc -> trace_ok acc tr -> WT (final_store st tr) (fold_left accept tr acc).
  Proof.
    induction tr as [|e tr IH]; intros st acc HT Hok; [exact HT|].
    unfold final_store. cbn [map fold_left]. rewrite last_cons.
    cbn [trace_ok] in Hok. destruct Hok as [[_ [_ [HTe _]]] Hok].
    apply (IH (e_store e) _ HTe Hok).
  Qed.

  Lemma trace_ok_app pre : forall acc post,
      trace_ok acc (pre ++ post) -> trace_ok (fold_left accept pre acc) post.
  Proof.
    induction pre as [|e pre IH]; intros acc post H; [exact H|].
    cbn [app trace_ok fold_left] in *. apply IH. tauto.
  Qed.
End Drive.
End G.

(* ======================= index lists ======================= *)
(* [l] is a list of non-negative indices whose set is 0..m-1 (any order, repetitions) *)
Definition index_set (l : list Z) (m : nat) : Prop :=
  1 <= m /\ Forall (fun i => (0 <= i)%Z) l /\ forall j, In (Z.of_nat j) l <-> j < m.

Section Init.
  Variable V : Type.
  Variable vadd : V -> V -> V.
  Notation R := (C08.R V).

  Definition mem (l : list Z) (j : nat) : bool := existsb (fun i => Z.eqb i (Z.of_nat j)) l.

  Lemma mem_spec l j : mem l j = true <-> In (Z.of_nat j) l.
  Proof.
    unfold mem. rewrite existsb_exists. split.
    - intros [i [Hin E]]. apply Z.eqb_eq in E. subst i. exact Hin.
    - intros Hin. exists (Z.of_nat j). split; [exact Hin|apply Z.eqb_refl].
  Qed.

  (* the keys of the slot are exactly the j with [P j], all holding [v] *)
  Definition keyed (s : C08.st V) (P : nat -> bool) (v : V) : Prop :=
    match s with
    | Some dct => forall j, C08.lookup dct j = if P j then Some v else None
    | None => forall j, P j = false
    end.

  Lemma set_all_keys v : forall l s P,
      Forall (fun i => (0 <= i)%Z) l -> keyed s P v ->
      exists s', set_all V vadd s l v = (s', None) /\ keyed s' (fun j => mem l j || P j) v.
  Proof.
    induction l as [|i l IH]; intros s P Hl Hk.
    - exists s. split; [reflexivity|]. destruct s; cbn [keyed mem existsb orb] in *; exact Hk.
    - inversion Hl as [|i' l' Hi Hl']; subst. cbn [set_all].
      pose proof (C08.set_is_map_update V vadd s i v) as Hup.
      assert (Hout : snd (C08.step vadd s (C08.OpSet i v)) = C08.ODone).
      { cbn [C08.step]. destruct (i <? 0)%Z eqn:E; [apply Z.ltb_lt in E; lia|]. reflexivity. }
      destruct (C08.step vadd s (C08.OpSet i v)) as [s1 o] eqn:Es.
      cbn [fst snd] in *. subst o. cbn [oerr].
      destruct (IH s1 (fun j => Z.eqb i (Z.of_nat j) || P j) Hl') as [s' [Hrun Hk']].
      { destruct s1 as [d1|]; [|exfalso; exact (Hup 0%nat Hi)].
        cbn [keyed]. intros j. specialize (Hup j Hi). rewrite Hup.
        assert (E : Nat.eqb (Z.to_nat i) j = Z.eqb i (Z.of_nat j)).
        { destruct (Nat.eqb_spec (Z.to_nat i) j) as [E1|E1];
            destruct (Z.eqb_spec i (Z.of_nat j)) as [E2|E2]; try reflexivity; exfalso; lia. }
        rewrite E. destruct (Z.eqb i (Z.of_nat j)); cbn [orb]; [reflexivity|].
        destruct s as [d0|]; cbn [keyed] in Hk; [apply Hk|rewrite Hk; reflexivity]. }
      exists s'. split; [exact Hrun|].
      destruct s' as [d'|]; cbn [keyed] in *; intros j; specialize (Hk' j);
        cbn [mem existsb]; fold (mem l j).
      + rewrite Hk'. destruct (Z.eqb i (Z.of_nat j)), (mem l j), (P j); reflexivity.
      + destruct (Z.eqb i (Z.of_nat j)), (mem l j), (P j); cbn [orb] in *; congruence.
  Qed.

  Lemma keyed_R d m s P v :
    1 <= m -> m <= d -> (forall j, P j = (j <? m)) -> keyed s P v -> R d s (repeat v m).
  Proof.
    intros Hm Hmd HP Hk. destruct s as [dct|]; cbn [keyed C08.R] in *.
    - intros j. rewrite Hk, HP, C08.nth_error_firstn_if.
      destruct (j <? m) eqn:E1.
      + apply Nat.ltb_lt in E1. replace (j <? d) with true by (symmetry; apply Nat.ltb_lt; lia).
        symmetry. rewrite (nth_error_nth' _ v) by (rewrite repeat_length; lia).
        f_equal. apply nth_repeat.
      + apply Nat.ltb_ge in E1.
        assert (Hn : nth_error (repeat v m) j = None)
          by (apply nth_error_None; rewrite repeat_length; lia).
        rewrite Hn. destruct (j <? d); reflexivity.
    - specialize (Hk 0). rewrite HP in Hk. destruct m; [lia|discriminate].
  Qed.

  Lemma index_set_length l m : index_set l m -> m <= length l.
  Proof.
    intros (_ & _ & Hin).
    assert (Hnd : NoDup (map Z.of_nat (seq 0 m))).
    { apply FinFun.Injective_map_NoDup; [intros x y; apply Nat2Z.inj|apply seq_NoDup]. }
    assert (Hincl : incl (map Z.of_nat (seq 0 m)) l).
    { intros z Hz. apply in_map_iff in Hz. destruct Hz as [j [<- Hj]].
      apply Hin. apply in_seq in Hj. lia. }
    pose proof (NoDup_incl_length Hnd Hincl) as H. rewrite map_length, seq_length in H. exact H.
  Qed.

  Lemma init_general iti tsi mI mT v0 :
    index_set iti mI -> index_set tsi mT ->
    exists st, init V vadd iti tsi v0 = (st, None) /\
               R (length iti) (its st) (repeat v0 mI) /\ R (length tsi) (tss st) (repeat v0 mT).
  Proof.
    intros HI HT. pose proof (index_set_length _ _ HI) as HlI.
    pose proof (index_set_length _ _ HT) as HlT.
    destruct HI as (HmI & HnnI & HinI). destruct HT as (HmT & HnnT & HinT).
    unfold init.
    change (C08.step vadd None (C08.OpSet 0 v0)) with (Some [Some v0], @C08.ODone V).
    cbv beta iota.
    assert (E : C08.step vadd (Some [Some v0]) (C08.OpGet 0) = (Some [Some v0], C08.OVal v0))
      by reflexivity.
    rewrite E. clear E. cbv beta iota.
    destruct (set_all_keys v0 iti (Some [Some v0]) (fun j => Nat.eqb j 0) HnnI) as [s1 [H1 K1]].
    { cbn [keyed]. intros [|j]; [reflexivity|]. cbn [Nat.eqb]. rewrite C08.lookup_cons_S.
      apply C08.lookup_nil. }
    rewrite H1.
    destruct (set_all_keys v0 tsi None (fun _ => false) HnnT) as [s2 [H2 K2]].
    { cbn [keyed]. reflexivity. }
    rewrite H2. eexists. split; [reflexivity|]. cbn [its tss]. split.
    - apply (keyed_R _ mI _ _ _ HmI HlI) in K1; [exact K1|].
      intros j. cbv beta.
      destruct (j <? mI) eqn:E.
      + apply Nat.ltb_lt in E. apply orb_true_iff. left. apply mem_spec. apply HinI. exact E.
      + apply Nat.ltb_ge in E. apply orb_false_iff. split.
        * destruct (mem iti j) eqn:Em; [|reflexivity]. apply mem_spec, HinI in Em. lia.
        * apply Nat.eqb_neq. lia.
    - apply (keyed_R _ mT _ _ _ HmT HlT) in K2; [exact K2|].
      intros j. cbv beta. rewrite orb_false_r.
      destruct (j <? mT) eqn:E.
      + apply Nat.ltb_lt in E. apply mem_spec. apply HinT. exact E.
      + apply Nat.ltb_ge in E. destruct (mem tsi j) eqn:Em; [|reflexivity].
        apply mem_spec, HinT in Em. lia.
  Qed.
End Init.

(* ======================= the claims for index lists ======================= *)
Theorem index_lists_thm :
  forall (V : Type) (vadd : V -> V -> V) (T : Type) (O : C09.numops T)
         (iti tsi : list Z) (mI mT : nat),
    index_set iti mI -> index_set tsi mT ->
    forall (maxit : Z) (v0 : V) (a : C09.args T) (sched : list T)
           (solves : list (list (V * bool * bool)))
           (c : C09.cfg T) (st0 : store V) (tr : list (entry V T)) (sp : stop),
    simulate V vadd T O maxit a sched iti tsi v0 solves = inl (c, st0, (tr, sp)) ->
    (forall e, sp <> RaisedStore e) /\
    (forall pre e post, tr = pre ++ e :: post ->
       (forall x, e_res e <> NErr x) /\ e_res e <> NOut /\
       (forall i, slot_get (tss (e_store e)) i
                  = if i <? length tsi
                    then nth_error (accepted vadd v0 (pre ++ [e]) ++ repeat v0 (mT - 1)) i
                    else None) /\
       (no_exc e = true ->
          slot_get (its (e_store e)) 0 = Some (hd v0 (accepted vadd v0 (pre ++ [e]))))) /\
    (forall i, slot_get (tss (final_store st0 tr)) i
               = if i <? length tsi
                 then nth_error (accepted vadd v0 tr ++ repeat v0 (mT - 1)) i else None) /\
    C09.simulate T O a sched (map ev_of tr) = inl (c, (map clock_of tr, stop_of sp)).
Proof.
  intros V vadd T O iti tsi mI mT HI HT maxit v0 a sched solves c st0 tr sp H.
  pose proof (index_set_length _ _ HI) as HlI. pose proof (index_set_length _ _ HT) as HlT.
  assert (HdI : 1 <= length iti) by (destruct HI; lia).
  assert (HdT : 1 <= length tsi) by (destruct HT; lia).
  unfold simulate, C09.simulate in *.
  destruct (C09.construct T O a sched) as [c'|e]; [|discriminate].
  destruct (init_general V vadd iti tsi mI mT v0 HI HT) as [st [Ei [Ri Rt]]]. rewrite Ei in H.
  assert (Hc : c' = c) by congruence. assert (Hst : st = st0) by congruence.
  assert (Hd : drive V vadd T O maxit (Z.of_nat (length iti)) (Z.of_nat (length tsi)) c' sched
                     (C09.init_state T O c' sched) st solves = (tr, sp)) by congruence.
  subst c' st0. clear H.
  set (pad := repeat v0 (mT - 1)).
  assert (HWI : G.WI V (length iti) st v0).
  { destruct HI as (HmI & _). destruct mI as [|m]; [lia|]. exists (repeat v0 m). exact Ri. }
  assert (HWT : G.WT V (length tsi) pad st [v0]).
  { unfold G.WT, pad. destruct HT as (HmT & _). destruct mT as [|m]; [lia|].
    cbn [repeat] in Rt. replace (S m - 1) with m by lia. exact Rt. }
  destruct (G.drive_ok V vadd T O (length iti) (length tsi) HdI HdT maxit c sched v0 pad
                       solves _ _ _ _ _ _ HWI HWT Hd) as [H1 [H3 H4]].
  assert (Hget : forall st' acc, acc <> [] -> G.WT V (length tsi) pad st' acc -> forall i,
             slot_get (tss st') i
             = if i <? length tsi then nth_error (acc ++ pad) i else None).
  { intros st' acc Hne HW i. apply (R_get V (length tsi) (tss st') (acc ++ pad) i); [|exact HW].
    destruct acc; [congruence|discriminate]. }
  split; [exact H1|split; [|split]].
  - intros pre e post Htr. subst tr.
    apply (G.trace_ok_app V vadd T (length iti) (length tsi) v0 pad) in H3.
    cbn [G.trace_ok] in H3. destruct H3 as [[E1 [E2 [E3 E4]]] _].
    unfold accepted. rewrite fold_left_app. cbn [fold_left].
    split; [exact E1|split; [exact E2|split]].
    + apply Hget; [|exact E3]. apply accept_nonempty. apply accepts_nonempty. discriminate.
    + intros Hn. destruct (E4 Hn) as [r HR].
      assert (Hne : forall (x : V) l, x :: l <> []) by (intros; discriminate).
      rewrite (R_get V (length iti) _ _ 0 (Hne _ _) HR).
      destruct (length iti); [lia|]. reflexivity.
  - apply Hget; [apply accepts_nonempty; discriminate|].
    apply (G.final_store_WT V vadd T (length iti) (length tsi) v0 pad); assumption.
  - rewrite H4. reflexivity.
Qed.

Theorem index_lists_only_constructor_fails :
  forall (V : Type) (vadd : V -> V -> V) (T : Type) (O : C09.numops T)
         (iti tsi : list Z) (mI mT : nat),
    index_set iti mI -> index_set tsi mT ->
    forall (maxit : Z) (v0 : V) (a : C09.args T) (sched : list T)
           (solves : list (list (V * bool * bool))) (f : failure),
    simulate V vadd T O maxit a sched iti tsi v0 solves = inr f ->
    exists e, f = CtorErr e /\ C09.construct T O a sched = inr e.
Proof.
  intros V vadd T O iti tsi mI mT HI HT maxit v0 a sched solves f H. unfold simulate in H.
  destruct (C09.construct T O a sched) as [c'|e].
  - destruct (init_general V vadd iti tsi mI mT v0 HI HT) as [st [Ei _]]. rewrite Ei in H.
    discriminate.
  - inversion H. exists e. split; reflexivity.
Qed.
