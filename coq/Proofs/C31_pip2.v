(* C31 — point_in_polygon: points separated from the polygon by a line are reported
   outside (winding number 0); with C31.pip_all_left this settles convex polygons. *)
From Coq Require Import List QArith Qabs Bool ZArith Arith Lia Lqa.
Import ListNotations.
From PP Require Import Model.C28 Model.C31 Proofs.C28 Proofs.C31.
Open Scope Q_scope.

Definition lin (al be : Q) (v : v2) : Q := al * fst v + be * snd v.

Definition kappa (be : Q) : Z := if qltb 0 be then (-1)%Z else if qltb be 0 then 1%Z else 0%Z.

(* sign of the cross product of an edge that crosses the vertical line through the
   point, when both end points lie in the open half-plane lin > 0 *)
Lemma edge_sign_np : forall al be v w,
  0 < lin al be v -> 0 < lin al be w -> Hn v -> Hp w ->
  (0 < be -> edge_cross v w < 0) /\ (be < 0 -> 0 < edge_cross v w) /\ ~ be == 0.
Proof.
  intros al be [vx vy] [wx wy]. unfold lin, Hn, Hp, edge_cross. cbn [fst snd].
  intros Lv Lw Hv Hw.
  assert (I : be * (vx * wy - vy * wx) == vx * (al * wx + be * wy) - (al * vx + be * vy) * wx) by ring.
  set (lv := al * vx + be * vy) in *. set (lw := al * wx + be * wy) in *.
  set (c := vx * wy - vy * wx) in *.
  assert (S : vx * lw - lv * wx < 0).
  { destruct Hv as [Hv | [Hv0 Hv]]; destruct Hw as [Hw | [Hw0 Hw]].
    - assert (vx * lw < 0) by nra. assert (0 < lv * wx) by nra. lra.
    - assert (vx * lw < 0) by nra. assert (lv * wx == 0) by (rewrite Hw0; ring). lra.
    - assert (vx * lw == 0) by (rewrite Hv0; ring). assert (0 < lv * wx) by nra. lra.
    - exfalso. unfold lv, lw in *. rewrite Hv0 in Lv. rewrite Hw0 in Lw.
      assert (0 < be * vy) by lra. assert (0 < be * wy) by lra. nra. }
  assert (BC : be * c < 0) by lra.
  split; [|split].
  - intro B. nra.
  - intro B. nra.
  - intro B. rewrite B in BC. lra.
Qed.

Lemma edge_sign_pn : forall al be v w,
  0 < lin al be v -> 0 < lin al be w -> Hp v -> Hn w ->
  (0 < be -> 0 < edge_cross v w) /\ (be < 0 -> edge_cross v w < 0) /\ ~ be == 0.
Proof.
  intros al be v w Lv Lw Hv Hw.
  destruct (edge_sign_np al be w v Lw Lv Hw Hv) as (A & B & C).
  assert (E : edge_cross v w == - edge_cross w v).
  { destruct v, w. unfold edge_cross. cbn. ring. }
  split; [|split]; [intro H; specialize (A H); lra | intro H; specialize (B H); lra | exact C].
Qed.

Lemma lin_nonzero_sgn : forall al be v, 0 < lin al be v -> vertex_sgn v <> 0%Z.
Proof.
  intros al be v L E. unfold vertex_sgn in E.
  destruct (Z.eqb (qsgn (fst v)) 0) eqn:E0.
  - apply Z.eqb_eq in E0. apply qsgn_zero in E0, E. unfold lin in L. rewrite E0, E in L. lra.
  - apply Z.eqb_neq in E0. contradiction.
Qed.

Lemma kappa_pos : forall be, 0 < be -> kappa be = (-1)%Z.
Proof. intros be H. unfold kappa. apply qltb_true in H. rewrite H. reflexivity. Qed.

Lemma kappa_neg : forall be, be < 0 -> kappa be = 1%Z.
Proof.
  intros be H. unfold kappa.
  assert (E1 : qltb 0 be = false) by (apply qltb_false; lra).
  assert (E2 : qltb be 0 = true) by (apply qltb_true; exact H).
  rewrite E1, E2. reflexivity.
Qed.

(* every edge inside the half-plane contributes kappa * (sgn w - sgn v) / 2, and an
   active edge never has a vanishing cross product *)
Lemma pair_contrib : forall al be v w,
  0 < lin al be v -> 0 < lin al be w ->
  (2 * contrib (v, w) = kappa be * (vertex_sgn w - vertex_sgn v))%Z /\
  (Z.eqb (qsgn (edge_cross v w)) 0 && negb (Z.eqb (vertex_sgn w - vertex_sgn v) 0) = false).
Proof.
  intros al be v w Lv Lw.
  pose proof (lin_nonzero_sgn al be v Lv) as Nv. pose proof (lin_nonzero_sgn al be w Lw) as Nw.
  unfold contrib. cbn [fst snd].
  destruct (vertex_sgn_cases v) as [Sv | [Sv | Sv]]; [| |contradiction];
    destruct (vertex_sgn_cases w) as [Sw | [Sw | Sw]]; try contradiction; rewrite Sv, Sw; cbn [Z.sub Z.add Z.opp Z.eqb].
  - (* + + *) cbn. split; [lia|]. rewrite andb_false_r. reflexivity.
  - (* v +, w - *)
    apply vertex_sgn_pos in Sv. apply vertex_sgn_neg in Sw.
    destruct (edge_sign_pn al be v w Lv Lw Sv Sw) as (A & B & C).
    destruct (Q_dec be 0) as [[Hb | Hb] | Hb]; [| |contradiction].
    + specialize (B Hb). rewrite (kappa_neg be Hb).
      apply qsgn_neg in B. rewrite B. cbn. split; [lia|reflexivity].
    + specialize (A Hb). rewrite (kappa_pos be Hb).
      apply qsgn_pos in A. rewrite A. cbn. split; [lia|reflexivity].
  - (* v -, w + *)
    apply vertex_sgn_neg in Sv. apply vertex_sgn_pos in Sw.
    destruct (edge_sign_np al be v w Lv Lw Sv Sw) as (A & B & C).
    destruct (Q_dec be 0) as [[Hb | Hb] | Hb]; [| |contradiction].
    + specialize (B Hb). rewrite (kappa_neg be Hb).
      apply qsgn_pos in B. rewrite B. cbn. split; [lia|reflexivity].
    + specialize (A Hb). rewrite (kappa_pos be Hb).
      apply qsgn_neg in A. rewrite A. cbn. split; [lia|reflexivity].
  - (* - - *) cbn. split; [lia|]. rewrite andb_false_r. reflexivity.
Qed.

(* telescoping of sgn w - sgn v along the closed vertex path *)
Lemma tele_pairs : forall (g : v2 -> Z) r u f,
  fold_right (fun vw acc => (g (snd vw) - g (fst vw) + acc)%Z) 0%Z (combine (u :: r) (r ++ [f]))
  = (g f - g u)%Z.
Proof.
  intros g r. induction r as [|v r IH]; intros u f.
  - cbn. lia.
  - change (combine (u :: v :: r) ((v :: r) ++ [f])) with ((u, v) :: combine (v :: r) (r ++ [f])).
    cbn [fold_right fst snd]. rewrite IH. lia.
Qed.

Lemma sum_contrib_pairs : forall al be (l : list (v2 * v2)),
  (forall v w, In (v, w) l -> 0 < lin al be v /\ 0 < lin al be w) ->
  (2 * fold_right (fun vw acc => (contrib vw + acc)%Z) 0%Z l
   = kappa be * fold_right (fun vw acc => (vertex_sgn (snd vw) - vertex_sgn (fst vw) + acc)%Z) 0%Z l)%Z.
Proof.
  intros al be l. induction l as [|[v w] l IH]; intro H; cbn [fold_right fst snd]; [lia|].
  destruct (H v w (or_introl eq_refl)) as [Lv Lw].
  destruct (pair_contrib al be v w Lv Lw) as [E _].
  assert (IH' := IH (fun a b Hin => H a b (or_intror Hin))). lia.
Qed.

Lemma pip_separated_rel : forall al be u r,
  (forall v, In v (u :: r) -> 0 < lin al be v) ->
  existsb is_zero2 (u :: r) = false /\
  existsb is_zero2 (r ++ [u]) = false /\
  on_active_edge (u :: r) (r ++ [u]) = false /\
  wind2 (u :: r) (r ++ [u]) = 0%Z.
Proof.
  intros al be u r H.
  assert (NZ : forall v, In v (u :: r) -> is_zero2 v = false).
  { intros v Hin. specialize (H v Hin). unfold is_zero2.
    destruct (Qeq_bool (fst v) 0) eqn:E1; [|reflexivity].
    destruct (Qeq_bool (snd v) 0) eqn:E2; [|reflexivity].
    apply Qeq_bool_iff in E1, E2. unfold lin in H. rewrite E1, E2 in H. lra. }
  assert (HP : forall v w, In (v, w) (combine (u :: r) (r ++ [u])) ->
                           0 < lin al be v /\ 0 < lin al be w).
  { intros v w Hin. split.
    - apply H. exact (in_combine_l _ _ _ _ Hin).
    - apply H. apply in_combine_r in Hin. apply in_app_or in Hin.
      destruct Hin as [Hin | [<- | []]]; [right; exact Hin|left; reflexivity]. }
  split; [|split; [|split]].
  - destruct (existsb is_zero2 (u :: r)) eqn:E; [|reflexivity].
    apply existsb_exists in E. destruct E as [v [Hin Hz]]. rewrite (NZ v Hin) in Hz. discriminate.
  - destruct (existsb is_zero2 (r ++ [u])) eqn:E; [|reflexivity].
    apply existsb_exists in E. destruct E as [v [Hin Hz]].
    assert (Hin' : In v (u :: r)).
    { apply in_app_or in Hin. destruct Hin as [Hin | [<- | []]]; [right; exact Hin|left; reflexivity]. }
    rewrite (NZ v Hin') in Hz. discriminate.
  - rewrite active_pairs.
    destruct (existsb _ (combine (u :: r) (r ++ [u]))) eqn:E; [|reflexivity].
    apply existsb_exists in E. destruct E as [[v w] [Hin Hz]]. cbn [fst snd] in Hz.
    destruct (HP v w Hin) as [Lv Lw].
    destruct (pair_contrib al be v w Lv Lw) as [_ F]. rewrite F in Hz. discriminate.
  - rewrite wind2_pairs.
    pose proof (sum_contrib_pairs al be _ HP) as S.
    rewrite (tele_pairs vertex_sgn r u u) in S. lia.
Qed.

Lemma pip_decide_false : forall default (vs ws : list v2),
  existsb is_zero2 vs = false -> existsb is_zero2 ws = false ->
  on_active_edge vs ws = false -> wind2 vs ws = 0%Z ->
  (if existsb is_zero2 vs || existsb is_zero2 ws then default
   else if on_active_edge vs ws then default else negb (wind2 vs ws =? 0)%Z) = false.
Proof.
  intros default vs ws Z1 Z2 A W. rewrite Z1, Z2, A, W. reflexivity.
Qed.

(* a point separated from all vertices by a line through it is reported outside *)
Lemma pip_separated : forall default poly p al be,
  poly <> [] ->
  (forall a, In a poly -> 0 < al * (fst a - fst p) + be * (snd a - snd p)) ->
  point_in_polygon default poly p = false.
Proof.
  intros default poly p al be Hne H. unfold point_in_polygon. cbv zeta.
  set (f := fun v : Q * Q => (fst v - fst p, snd v - snd p)).
  destruct poly as [|a0 r0]; [contradiction|].
  assert (Hroll : roll1 (map f (a0 :: r0)) = map f r0 ++ [f a0]) by reflexivity.
  rewrite Hroll. cbn [map].
  assert (H' : forall v, In v (f a0 :: map f r0) -> 0 < lin al be v).
  { intros v Hin. change (f a0 :: map f r0) with (map f (a0 :: r0)) in Hin.
    apply in_map_iff in Hin. destruct Hin as [a [<- Hin]]. unfold lin, f. cbn [fst snd].
    apply H. exact Hin. }
  destruct (pip_separated_rel al be (f a0) (map f r0) H') as (Z1 & Z2 & A & W).
  apply pip_decide_false; assumption.
Qed.

(* convex formulation: some edge (a,b) has the point strictly on its right while every
   vertex is on its left or on its line *)
Lemma pip_convex_outside : forall default poly p a b,
  poly <> [] ->
  cross3 a b p < 0 ->
  (forall v, In v poly -> 0 <= cross3 a b v) ->
  point_in_polygon default poly p = false.
Proof.
  intros default poly p a b Hne Hp Hv.
  apply (pip_separated default poly p (- (snd b - snd a)) (fst b - fst a) Hne).
  intros v Hin. specialize (Hv v Hin). unfold cross3 in *. nra.
Qed.
