(* C24 — data dictionaries: after any history every present subdomain / interface has a
   dictionary of its own, created by the container, and replacement hands the old grid's
   dictionary on to the new grid. *)
From Coq Require Import List Arith Bool Lia Permutation Sorted.
Import ListNotations.
From PP Require Import Model.C24 Model.C24_spec Model.C24_data Proofs.C24_base Proofs.C24_sort
  Proofs.C24_inv Proofs.C24_step Proofs.C24_step2 Proofs.C24_step3 Proofs.C24.

(* every key has a dictionary created before [n]; no two keys share one *)
Definition tok_ok (keys : list gid) (m : list (gid * nat)) (n : nat) : Prop :=
  (forall k, In k keys -> exists t, lookup k m = Some t /\ t < n) /\
  (forall k k' t, In k keys -> In k' keys -> lookup k m = Some t -> lookup k' m = Some t -> k = k').

Definition DInv (d : dat) (sp : spec) : Prop :=
  tok_ok (pS sp) (vS d) (nd d) /\ tok_ok (map fst (pI sp)) (vI d) (nd d).

Lemma tok_ok_mono keys keys' m n n' :
  tok_ok keys m n -> n <= n' -> (forall k, In k keys' -> In k keys) -> tok_ok keys' m n'.
Proof.
  intros [H1 H2] Hn Hsub. split.
  - intros k Hk. destruct (H1 k (Hsub k Hk)) as (t & Ht & Hlt). exists t. split; auto. lia.
  - intros k k' t Hk Hk'. apply H2; auto.
Qed.

Lemma alloc_n ks : forall m n, snd (alloc ks m n) = n + length ks.
Proof. induction ks as [|k r IH]; intros m n; cbn; [lia|]. rewrite IH. lia. Qed.

Lemma alloc_spec ks : forall m n,
  NoDup ks ->
  (forall k, ~ In k ks -> lookup k (fst (alloc ks m n)) = lookup k m) /\
  (forall k, In k ks -> exists t, lookup k (fst (alloc ks m n)) = Some t /\
                                  n <= t < n + length ks) /\
  (forall k k' t, In k ks -> In k' ks -> lookup k (fst (alloc ks m n)) = Some t ->
                  lookup k' (fst (alloc ks m n)) = Some t -> k = k').
Proof.
  induction ks as [|k0 r IH]; intros m n Hn; cbn [alloc].
  - repeat split; auto; intros k []; contradiction.
  - inversion Hn as [|? ? Hk0 Hr]; subst.
    destruct (IH (dset k0 n m) (S n) Hr) as (I1 & I2 & I3).
    assert (Hk0' : lookup k0 (fst (alloc r (dset k0 n m) (S n))) = Some n).
    { rewrite I1 by auto. rewrite lookup_dset, geqb_refl. reflexivity. }
    repeat split.
    + intros k Hk. rewrite I1 by (intros ?; apply Hk; right; auto).
      rewrite lookup_dset. gcase k0 k; [exfalso; apply Hk; left; auto | reflexivity].
    + intros k [<-|Hk]; cbn [length].
      * exists n. split; auto. lia.
      * destruct (I2 k Hk) as (t & Ht & Hle). exists t. split; auto. lia.
    + intros k k' t [<-|Hk] [<-|Hk'] H1 H2; auto.
      * destruct (I2 k' Hk') as (t' & Ht' & Hle). rewrite Hk0' in H1. inversion H1; subst.
        rewrite H2 in Ht'. inversion Ht'; subst. lia.
      * destruct (I2 k Hk) as (t' & Ht' & Hle). rewrite Hk0' in H2. inversion H2; subst.
        rewrite H1 in Ht'. inversion Ht'; subst. lia.
      * eapply I3; eauto.
Qed.

(* fresh dictionaries for new keys *)
Lemma tok_ok_alloc keys ks m n n' :
  tok_ok keys m n -> NoDup ks -> (forall k, In k ks -> ~ In k keys) ->
  n + length ks <= n' -> tok_ok (keys ++ ks) (fst (alloc ks m n)) n'.
Proof.
  intros [H1 H2] Hn Hd Hle. destruct (alloc_spec ks m n Hn) as (A1 & A2 & A3).
  pose proof A2 as Hb.
  split.
  - intros k Hk. apply in_app_iff in Hk. destruct Hk as [Hk|Hk].
    + assert (Hnk : ~ In k ks) by (intros Hx; apply (Hd k Hx); auto).
      destruct (H1 k Hk) as (t & Ht & Hlt). exists t. rewrite A1 by auto. split; auto. lia.
    + destruct (Hb k Hk) as (t & Ht & Hr). exists t. split; auto. lia.
  - intros k k' t Hk Hk' L1 L2. apply in_app_iff in Hk. apply in_app_iff in Hk'.
    destruct Hk as [Hk|Hk], Hk' as [Hk'|Hk'].
    + assert (~ In k ks) by (intros Hx; apply (Hd k Hx); auto).
      assert (~ In k' ks) by (intros Hx; apply (Hd k' Hx); auto).
      rewrite A1 in L1, L2 by auto. eapply H2; eauto.
    + assert (~ In k ks) by (intros Hx; apply (Hd k Hx); auto).
      rewrite A1 in L1 by auto. destruct (H1 k Hk) as (t1 & Ht1 & Hlt).
      destruct (Hb k' Hk') as (t2 & Ht2 & Hr). rewrite L1 in Ht1. rewrite L2 in Ht2.
      inversion Ht1; inversion Ht2; subst. lia.
    + assert (~ In k' ks) by (intros Hx; apply (Hd k' Hx); auto).
      rewrite A1 in L2 by auto. destruct (H1 k' Hk') as (t1 & Ht1 & Hlt).
      destruct (Hb k Hk) as (t2 & Ht2 & Hr). rewrite L2 in Ht1. rewrite L1 in Ht2.
      inversion Ht1; inversion Ht2; subst. lia.
    + eapply A3; eauto.
Qed.

(* handing a dictionary on from o to a new key n, o leaving *)
Lemma tok_ok_copy keys m nn o n :
  tok_ok keys m nn -> In o keys -> ~ In n keys ->
  tok_ok (filter (fun x => neqb x o) keys ++ [n]) (copy o n m) nn /\
  lookup n (copy o n m) = lookup o m /\
  (forall k, k <> n -> lookup k (copy o n m) = lookup k m).
Proof.
  intros [H1 H2] Ho Hn. destruct (H1 o Ho) as (t & Ht & Hlt). unfold copy. rewrite Ht.
  assert (Hother : forall k, k <> n -> lookup k (dset n t m) = lookup k m).
  { intros k Hk. rewrite lookup_dset. gcase n k; [congruence | reflexivity]. }
  assert (Hnew : lookup n (dset n t m) = Some t) by (rewrite lookup_dset, geqb_refl; reflexivity).
  split; [|split; auto].
  assert (Hold : forall k, In k (filter (fun x => neqb x o) keys) -> In k keys /\ k <> o /\ k <> n).
  { intros k Hk. apply in_filter_neq in Hk. destruct Hk. repeat split; auto. intros ->. contradiction. }
  split.
  - intros k Hk. apply in_app_iff in Hk. destruct Hk as [Hk|[<-|[]]].
    + destruct (Hold k Hk) as (Hk1 & _ & Hk3). rewrite Hother by auto. apply H1; auto.
    + exists t. split; auto.
  - intros k k' t' Hk Hk' L1 L2. apply in_app_iff in Hk. apply in_app_iff in Hk'.
    destruct Hk as [Hk|[<-|[]]], Hk' as [Hk'|[<-|[]]]; auto.
    + destruct (Hold k Hk) as (? & ? & ?). destruct (Hold k' Hk') as (? & ? & ?).
      rewrite Hother in L1, L2 by auto. eapply H2; eauto.
    + destruct (Hold k Hk) as (? & Hko & ?). rewrite Hother in L1 by auto.
      rewrite Hnew in L2. inversion L2; subst. exfalso. apply Hko. eapply H2; eauto.
    + destruct (Hold k' Hk') as (? & Hko & ?). rewrite Hother in L2 by auto.
      rewrite Hnew in L1. inversion L1; subst. exfalso. apply Hko. eapply H2; eauto.
Qed.

(* ------------------------------------------------------------------ calls *)
Lemma replace_oneD_vS g d o n :
  mem o (sds g) = true ->
  vS (replace_oneD g d o n) = copy o n (vS d) /\ vI (replace_oneD g d o n) = vI d /\
  nd (replace_oneD g d o n) = nd d.
Proof.
  intros H. unfold replace_oneD. rewrite H. cbn [negb].
  destruct (replace_one g o n) as [g' [|e]]; [|cbn; repeat split; reflexivity].
  destruct (0 <? gdim o); [|cbn; repeat split; reflexivity].
  destruct (lookup o (s2b g)); cbn; repeat split; reflexivity.
Qed.

Lemma stepD_replace sm : forall g d sp,
  Inv g sp -> DInv d sp -> ok_replace (pS sp) sm = true ->
  DInv (replace_allD g d sm) (fold_left (fun sp e => s_replace1 sp (fst e) (snd e)) sm sp).
Proof.
  induction sm as [|[o n] r IH]; intros g d sp HI HD Hok; cbn [replace_allD fold_left]; auto.
  cbn [ok_replace] in Hok. rewrite !andb_true_iff in Hok.
  destruct Hok as (((H1 & H2) & H3) & H4).
  pose proof H1 as Hm. apply mem_In in H1. apply negb_true_iff in H2. apply mem_nIn in H2.
  apply Nat.eqb_eq in H3.
  destruct (step_replace_one g sp o n HI H1 H2 H3) as (g1 & Hs & HI1). rewrite Hs.
  cbn [fst snd]. apply IH; auto.
  assert (Hm' : mem o (sds g) = true) by (rewrite (inv_sds _ _ HI); auto).
  destruct (replace_oneD_vS g d o n Hm') as (E1 & E2 & E3).
  destruct HD as [DS DI]. unfold DInv. rewrite E1, E2, E3. cbn [s_replace1 pS pI]. split.
  - apply tok_ok_copy; auto.
  - eapply tok_ok_mono; [exact DI | lia |]. intros k Hk.
    rewrite map_map in Hk. erewrite map_ext in Hk; [exact Hk|]. intros e; reflexivity.
Qed.

Lemma stepD_ok g d sp o :
  Inv g sp -> DInv d sp -> okb sp o = true -> DInv (stepD g d o) (sstep sp o).
Proof.
  intros HI [DS DI] Hok. destruct o as [l|i a b|s|im sm].
  - destruct (step_add g sp l HI Hok) as (g' & Hs & _). unfold stepD. rewrite Hs.
    cbn [okb] in Hok. apply andb_true_iff in Hok. destruct Hok as [Hnd Hfr].
    apply nodupb_NoDup in Hnd. pose proof (forallb_fresh _ _ Hfr) as Hfresh.
    destruct (alloc l (vS d) (nd d)) as [m k] eqn:E1.
    destruct (alloc (new_bgs g' l) (vB d) k) as [mb k2] eqn:E2.
    assert (Hk : k = nd d + length l) by (pose proof (alloc_n l (vS d) (nd d)) as X; rewrite E1 in X; exact X).
    assert (Hk2 : k <= k2).
    { pose proof (alloc_n (new_bgs g' l) (vB d) k) as X. rewrite E2 in X. cbn in X. lia. }
    unfold DInv. cbn [vS vI nd sstep pS pI]. split.
    + replace m with (fst (alloc l (vS d) (nd d))) by (rewrite E1; reflexivity).
      apply tok_ok_alloc; auto. lia.
    + eapply tok_ok_mono; [exact DI | lia | auto].
  - destruct (step_intf g sp i a b HI Hok) as (g' & Hs & _). unfold stepD. rewrite Hs.
    cbn [okb] in Hok. rewrite !andb_true_iff in Hok.
    destruct Hok as ((((((Hi & _) & _) & _) & _) & _) & _).
    apply negb_true_iff in Hi. apply mem_nIn in Hi.
    unfold DInv. cbn [vS vI nd sstep pS pI]. split.
    + eapply tok_ok_mono; [exact DS | lia | auto].
    + rewrite map_app. cbn [map fst].
      change (dset i (nd d) (vI d)) with (fst (alloc [i] (vI d) (nd d))).
      apply tok_ok_alloc; auto.
      * constructor; [intros [] | constructor].
      * intros k [<-|[]]. exact Hi.
      * cbn. lia.
  - unfold stepD, DInv. cbn [sstep pS pI]. split.
    + eapply tok_ok_mono; [exact DS | lia |]. intros k Hk. apply in_filter_neq in Hk. tauto.
    + eapply tok_ok_mono; [exact DI | lia |]. intros k Hk. apply in_map_iff in Hk.
      destruct Hk as (e & <- & He). apply filter_In in He. apply in_map. tauto.
  - cbn [stepD sstep]. apply stepD_replace; auto. split; auto.
Qed.

Lemma stepD_rej g d sp o e :
  Inv g sp -> okb sp o = false -> rejb sp o = Some e -> stepD g d o = d.
Proof.
  intros HI Hok Hr. pose proof (step_rej g sp o e HI Hok Hr) as Hs.
  destruct o as [l|i a b|s|im sm]; unfold stepD; try rewrite Hs; auto.
  destruct sm as [|[o n] r]; [reflexivity|]. cbn [rejb] in Hr. cbn [replace_allD].
  cbn [step replace_all] in Hs.
  assert (Hm : mem o (sds g) = false).
  { rewrite (inv_sds _ _ HI). destruct (mem o (pS sp)); [discriminate | reflexivity]. }
  unfold replace_one, replace_oneD. rewrite Hm. reflexivity.
Qed.

Lemma runD_inv ops : forall g d sp,
  Inv g sp -> DInv d sp -> hist_ok sp ops = true ->
  fst (runD g d ops) = fst (run g ops) /\ DInv (snd (runD g d ops)) (srun sp ops).
Proof.
  induction ops as [|o r IH]; intros g d sp HI HD Hh; cbn [runD run srun hist_ok] in *.
  - split; auto.
  - destruct (okb sp o) eqn:Eok.
    + destruct (step_ok g sp o HI Eok) as (g' & Hs & HI'). rewrite Hs. cbn [fst].
      destruct (IH g' (stepD g d o) (sstep sp o) HI' (stepD_ok g d sp o HI HD Eok) Hh) as [H1 H2].
      split; auto. rewrite H1. destruct (run g' r); reflexivity.
    + destruct (rejb sp o) as [e|] eqn:Er; [|discriminate].
      rewrite (step_rej g sp o e HI Eok Er), (stepD_rej g d sp o e HI Eok Er). cbn [fst].
      destruct (IH g d sp HI HD Hh) as [H1 H2]. split; auto. rewrite H1.
      destruct (run g r); reflexivity.
Qed.

Lemma DInv_empty : DInv dempty sempty.
Proof. split; split; cbn; intros; contradiction. Qed.

(* ------------------------------------------------------------------ final forms *)
Definition final_data (ops : list op) : dat := snd (runD empty dempty ops).

Lemma thm_data ops :
  hist_ok sempty ops = true ->
  fst (runD empty dempty ops) = final ops /\
  tok_ok (pS (present ops)) (vS (final_data ops)) (nd (final_data ops)) /\
  tok_ok (map fst (pI (present ops))) (vI (final_data ops)) (nd (final_data ops)).
Proof.
  intros H. destruct (runD_inv ops empty dempty sempty Inv_empty DInv_empty H) as [H1 [H2 H3]].
  repeat split; auto; try apply H2; try apply H3.
Qed.

(* replacing o by n after any history: n gets o's dictionary, every other subdomain and
   every interface keeps its own; the dictionary of o's boundary grid is handed on to the
   boundary grid created for n (numbered nbg) *)
Lemma thm_data_replace ops o n :
  hist_ok sempty ops = true -> In o (pS (present ops)) -> ~ In n (pS (present ops)) ->
  fst n = fst o ->
  let g := final ops in let d := final_data ops in
  let d' := stepD g d (Replace [] [(o, n)]) in
  lookup n (vS d') = lookup o (vS d) /\
  (forall k, k <> n -> lookup k (vS d') = lookup k (vS d)) /\
  vI d' = vI d /\
  (forall bgo, 0 < fst o -> sd_to_bg g o = Some bgo ->
               vB d' = copy bgo (fst n - 1, nbg g) (vB d)) /\
  (fst o = 0 -> vB d' = vB d).
Proof.
  intros H Ho Hn Hdim. cbv zeta. set (g := final ops). set (d := final_data ops).
  set (d' := stepD g d (Replace [] [(o, n)])).
  pose proof (reach_inv ops H) as HI. change (Inv g (present ops)) in HI.
  assert (Hm : mem o (sds g) = true) by (apply mem_In; rewrite (inv_sds _ _ HI); auto).
  destruct (step_replace_one g _ o n HI Ho Hn Hdim) as (g1 & Hs & HI1).
  assert (Hd' : d' = replace_oneD g d o n).
  { unfold d'. cbn [stepD replace_allD]. rewrite Hs. reflexivity. }
  destruct (replace_oneD_vS g d o n Hm) as (E1 & E2 & E3).
  destruct (thm_data ops H) as (_ & DS & _). change (final_data ops) with d in DS.
  destruct (tok_ok_copy _ _ _ o n DS Ho Hn) as (_ & C2 & C3).
  rewrite Hd', E1, E2. repeat split; auto.
  - intros bgo Hpos Hbgo. unfold sd_to_bg in Hbgo. unfold replace_oneD. rewrite Hm, Hs.
    cbn [negb]. assert (E0 : (0 <? gdim o) = true) by (apply Nat.ltb_lt; exact Hpos).
    rewrite E0, Hbgo. reflexivity.
  - intros H0. unfold replace_oneD. rewrite Hm, Hs. cbn [negb].
    assert (E0 : (0 <? gdim o) = false) by (apply Nat.ltb_ge; unfold gdim; lia).
    rewrite E0. reflexivity.
Qed.
