(* C37 — permuted block-diagonal matrices: Q . B^-1 . P inverts A when P . A . Q = B;
   permutation matrices of mutually inverse index lists are mutually inverse; the row
   slicer is the product with a permutation matrix. *)
From Coq Require Import List Arith Bool Lia Ring.
Import ListNotations.
From PP Require Import Lib.Dense Proofs.C37_dense Model.C37.

Section PermAlg.
  Variable T : Type.
  Variables (zero one : T) (add mul sub : T -> T -> T) (opp : T -> T).
  Hypothesis Rth : ring_theory zero one add mul sub opp eq.

  Notation mm n := (mat_mul zero add mul n).
  Notation I n := (identity zero one n).
  Notation width := (width T).

  Definition sq (n : nat) (X : list (list T)) : Prop := length X = n /\ width n X.

  Lemma sq_mul : forall n X Y, sq n X -> sq n Y -> sq n (mm n X Y).
  Proof.
    intros n X Y [LX WX] [LY WY]. split.
    - unfold mat_mul. rewrite map_length. exact LX.
    - apply width_mat_mul. exact WY.
  Qed.

  Lemma sq_id : forall n, sq n (I n).
  Proof. intros n. split; [apply identity_length|apply width_identity]. Qed.

  Lemma mm_assoc : forall n X Y Z, sq n Y -> sq n Z -> mm n (mm n X Y) Z = mm n X (mm n Y Z).
  Proof. intros n X Y Z [_ WY] [_ WZ]. apply (mat_mul_assoc T zero one add mul sub opp Rth); assumption. Qed.

  Lemma mm_id_l : forall n X, sq n X -> mm n (I n) X = X.
  Proof. intros n X [L W]. rewrite <- L at 2. apply (mat_mul_identity_l T zero one add mul sub opp Rth). exact W. Qed.

  Lemma mm_id_r : forall n X, sq n X -> mm n X (I n) = X.
  Proof. intros n X [L W]. apply (mat_mul_identity_r T zero one add mul sub opp Rth). exact W. Qed.

  Lemma cancel : forall n X Y Y' Z, sq n Y -> sq n Y' -> sq n Z ->
    mm n Y' Y = I n -> mm n (mm n X Y') (mm n Y Z) = mm n X Z.
  Proof.
    intros n X Y Y' Z SY SY' SZ H.
    rewrite mm_assoc by (auto using sq_mul).
    rewrite <- (mm_assoc n Y' Y Z) by assumption.
    rewrite H, mm_id_l by assumption. reflexivity.
  Qed.

  (* Q . B^-1 . P is the two-sided inverse of A when P . A . Q = B and P, Q are invertible
     with inverses P', Q' (for permutation matrices: their transposes) *)
  Theorem perm_inverse : forall n A B Bi P P' Q Q',
    sq n A -> sq n B -> sq n Bi -> sq n P -> sq n P' -> sq n Q -> sq n Q' ->
    mm n P P' = I n -> mm n P' P = I n -> mm n Q Q' = I n -> mm n Q' Q = I n ->
    mm n B Bi = I n -> mm n Bi B = I n ->
    mm n (mm n P A) Q = B ->
    mm n A (mm n (mm n Q Bi) P) = I n /\ mm n (mm n (mm n Q Bi) P) A = I n.
  Proof.
    intros n A B Bi P P' Q Q' SA SB SBi SP SP' SQ SQ' PP' P'P QQ' Q'Q BBi BiB HB.
    assert (HA : A = mm n P' (mm n B Q')).
    { rewrite <- HB. rewrite (mm_assoc n (mm n P A) Q Q') by assumption.
      rewrite QQ', mm_id_r by (apply sq_mul; assumption).
      rewrite <- mm_assoc by assumption. rewrite P'P, mm_id_l by assumption. reflexivity. }
    rewrite HA. split.
    - rewrite (mm_assoc n Q Bi P) by assumption.
      rewrite <- (mm_assoc n P' B Q') by assumption.
      rewrite (cancel n (mm n P' B) Q Q' (mm n Bi P)) by (auto using sq_mul).
      rewrite (cancel n P' Bi B P) by assumption. exact P'P.
    - rewrite (cancel n (mm n Q Bi) P' P (mm n B Q')) by (auto using sq_mul).
      rewrite (cancel n Q B Bi Q') by assumption. exact QQ'.
  Qed.

  (* ------------------------------------------------------------ permutation matrices *)

  Notation pm n p := (perm_mat zero one n p).

  Lemma sq_perm_mat : forall n p, length p = n -> sq n (pm n p).
  Proof.
    intros n p L. split; [unfold perm_mat; rewrite map_length; exact L|].
    apply Forall_forall. intros r Hr. apply in_map_iff in Hr. destruct Hr as [x [E _]]. subst.
    apply unit_row_length.
  Qed.

  (* (perm_mat p) . A = A[p, :]  -- the "onto" ArraySlicer *)
  Lemma perm_mat_select : forall n w p A, length A = n -> width w A -> Forall (fun x => x < n) p ->
    mat_mul zero add mul w (pm n p) A = select_rows zero A p w.
  Proof.
    intros n w p A L W F. unfold mat_mul, perm_mat, select_rows. rewrite map_map.
    apply map_ext_in. intros x Hx. rewrite Forall_forall in F.
    apply (vecmat_unit_row T zero one add mul sub opp Rth); auto.
  Qed.

  Lemma perm_mat_compose : forall n p p', length p' = n -> Forall (fun x => x < n) p ->
    mm n (pm n p) (pm n p') = pm n (map (fun x => nth x p' 0) p).
  Proof.
    intros n p p' L F.
    rewrite (perm_mat_select n n p (pm n p')).
    - unfold select_rows, perm_mat. rewrite map_map. apply map_ext_in. intros x Hx.
      rewrite Forall_forall in F. specialize (F x Hx).
      rewrite (nth_indep _ (zeros zero n) (unit_row zero one n 0)) by (rewrite map_length; lia).
      apply map_nth.
    - unfold perm_mat. rewrite map_length. exact L.
    - apply (sq_perm_mat n p' L).
    - exact F.
  Qed.

  (* mutually inverse index lists give mutually inverse permutation matrices *)
  Theorem perm_mat_inverse : forall n p p', length p = n -> length p' = n ->
    Forall (fun x => x < n) p -> Forall (fun x => x < n) p' ->
    map (fun x => nth x p' 0) p = seq 0 n -> map (fun x => nth x p 0) p' = seq 0 n ->
    mm n (pm n p) (pm n p') = I n /\ mm n (pm n p') (pm n p) = I n.
  Proof.
    intros n p p' L L' F F' E E'. split.
    - rewrite perm_mat_compose by assumption. rewrite E. reflexivity.
    - rewrite perm_mat_compose by assumption. rewrite E'. reflexivity.
  Qed.
End PermAlg.
