(* C42 — the chain rule for the composed function f(normalize(x)) (Coquelicot). *)
From Coq Require Import List Reals Lra Lia Arith Bool.
From Coquelicot Require Import Coquelicot.
Import ListNotations.
From PP Require Import Model.C42 Proofs.C42 Proofs.C42_chain.
Open Scope R_scope.

(* f is differentiable at z with gradient g: it obeys the chain rule along every curve through
   z whose components are differentiable (every Frechet-differentiable f does; affine f
   below) *)
Definition differentiable_at (f : list R -> R) (z g : list R) : Prop :=
  forall (c : R -> list R) (c' : list R),
    c 0 = z -> length c' = length z -> (forall e, length (c e) = length z) ->
    (forall i, (i < length z)%nat -> is_derive (fun e => nth i (c e) 0) 0 (nth i c' 0)) ->
    is_derive (fun e => f (c e)) 0 (rsum (map2 Rmult g c')).

Lemma add_at_0 x : forall j, add_at j 0 x = x.
Proof.
  induction x as [|a x IH]; intros [|j]; cbn [add_at]; try reflexivity.
  - rewrite Rplus_0_r. reflexivity.
  - rewrite IH. reflexivity.
Qed.

Lemma map2_map_r {A B C D} (g : A -> C -> D) (h : B -> C) : forall (l : list A) (m : list B),
  map2 g l (map h m) = map2 (fun a b => g a (h b)) l m.
Proof. induction l as [|a l IH]; intros [|b m]; cbn [map2 map]; try reflexivity. rewrite IH. reflexivity. Qed.

Lemma dxn_length x : length (dxnR x) = length x.
Proof. unfold dxnR, dxn. apply map2_seq_length. Qed.

Lemma normalize_length x : length (normalizeR x) = length x.
Proof. unfold normalizeR, normalize. apply map_length. Qed.

(* THEOREM: for every outer function f differentiable at the normalised point with gradient g
   (with respect to the normalised fractions), the derivative of the composed function
   x |-> f(normalize(x)) in direction j is the j-th entry the code computes:
   sum_i g_i * dxn[i][j] *)
Lemma chainrule_composed f x g j : rsum x <> 0 -> (j < length x)%nat ->
  differentiable_at f (normalizeR x) g ->
  is_derive (fun e => f (normalizeR (add_at j e x))) 0
            (rsum (map2 (fun gi row => gi * nth j row 0) g (dxnR x))).
Proof.
  intros HS Hj Hf.
  rewrite <- (map2_map_r Rmult (fun row => nth j row 0) g (dxnR x)).
  apply (Hf (fun e => normalizeR (add_at j e x))).
  - rewrite add_at_0. reflexivity.
  - rewrite map_length, dxn_length, normalize_length. reflexivity.
  - intros e. rewrite !normalize_length, add_at_length. reflexivity.
  - intros i Hi. rewrite normalize_length in Hi.
    rewrite (nth_indep _ 0 ((fun row => nth j row 0) [])) by (rewrite map_length, dxn_length; exact Hi).
    rewrite (map_nth (fun row => nth j row 0)).
    apply dxn_is_jacobian; assumption.
Qed.

(* affine outer functions are differentiable in that sense (non-vacuity of the hypothesis) *)
Lemma is_derive_rsum (F : nat -> R -> R) (F' : nat -> R) (l : list nat) :
  (forall i, In i l -> is_derive (F i) 0 (F' i)) ->
  is_derive (fun e => rsum (map (fun i => F i e) l)) 0 (rsum (map F' l)).
Proof.
  induction l as [|i l IH]; intros H; cbn [map tsum].
  - exact (@is_derive_const R_AbsRing R_NormedModule 0 0).
  - apply (is_derive_plus (F i) (fun e => rsum (map (fun i0 => F i0 e) l))).
    + apply H. left. reflexivity.
    + apply IH. intros k Hk. apply H. right. exact Hk.
Qed.

Lemma dot_as_index_sum : forall g l a (G L : nat -> R),
  length l = length g ->
  (forall i, (i < length g)%nat -> G (a + i)%nat = nth i g 0 /\ L (a + i)%nat = nth i l 0) ->
  rsum (map2 Rmult g l) = rsum (map (fun i => G i * L i) (seq a (length g))).
Proof.
  induction g as [|x g IH]; intros [|y l] a G L Hl H; cbn in Hl; try lia; [reflexivity|].
  cbn [map2 tsum length seq map]. destruct (H 0%nat ltac:(cbn; lia)) as [H1 H2].
  rewrite Nat.add_0_r in H1, H2. cbn [nth] in H1, H2. rewrite H1, H2. f_equal.
  apply IH; [lia|]. intros i Hi. specialize (H (S i) ltac:(cbn; lia)). cbn [nth] in H.
  replace (S a + i)%nat with (a + S i)%nat by lia. exact H.
Qed.

Lemma affine_differentiable c0 g z : length g = length z ->
  differentiable_at (fun v => c0 + rsum (map2 Rmult g v)) z g.
Proof.
  intros Hl c c' Hc0 Hlc' Hlc Hd.
  apply (is_derive_ext (fun e => c0 + rsum (map (fun i => nth i g 0 * nth i (c e) 0) (seq 0 (length g))))).
  { intros e. f_equal. symmetry.
    apply (dot_as_index_sum g (c e) 0%nat (fun i => nth i g 0) (fun i => nth i (c e) 0)).
    - rewrite Hlc. lia.
    - intros i _. split; reflexivity. }
  rewrite (dot_as_index_sum g c' 0%nat (fun i => nth i g 0) (fun i => nth i c' 0))
    by (try lia; intros; split; reflexivity).
  replace (rsum (map (fun i => nth i g 0 * nth i c' 0) (seq 0 (length g))))
    with (0 + rsum (map (fun i => nth i g 0 * nth i c' 0) (seq 0 (length g)))) by ring.
  apply (is_derive_plus (fun _ => c0)); [exact (@is_derive_const R_AbsRing R_NormedModule c0 0)|].
  apply (is_derive_rsum (fun i e => nth i g 0 * nth i (c e) 0) (fun i => nth i g 0 * nth i c' 0)).
  intros i Hi. apply in_seq in Hi.
  apply (is_derive_scal (fun e => nth i (c e) 0) 0 (nth i g 0)).
  apply Hd. lia.
Qed.
