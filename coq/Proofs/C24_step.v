(* C24 — every well-formed call succeeds and preserves the invariant; rejected calls
   raise and leave the container untouched. *)
From Coq Require Import List Arith Bool Lia Permutation Sorted.
Import ListNotations.
From PP Require Import Model.C24 Model.C24_spec Proofs.C24_base Proofs.C24_sort Proofs.C24_inv.

Lemma Inv_empty : Inv empty sempty.
Proof.
  constructor; cbn.
  - reflexivity.
  - constructor.
  - reflexivity.
  - constructor.
  - reflexivity.
  - intros j. exact I.
  - intros j a b H; discriminate.
  - unfold BI; cbn. split; [constructor|]. split; [reflexivity|]. split; [constructor|].
    split; [intros x []|]. intros s v H; discriminate.
  - intros s. tauto.
Qed.

Lemma In_keys_lookup {V} (m : list (gid * V)) k :
  In k (map fst m) -> exists v, lookup k m = Some v.
Proof.
  intros H. apply lookup_keys in H. destruct (lookup k m) as [v|]; [eauto | congruence].
Qed.

(* facts about an interface that should be present, seen through the stored pair *)
Lemma stored_pair g sp i :
  Inv g sp -> In i (intfs g) ->
  exists a b a' b', lookup i (pI sp) = Some (a, b) /\ lookup i (i2s g) = Some (a', b') /\
                    unord (a, b) (a', b') /\ In a' (sds g) /\ In b' (sds g) /\
                    fst i <= fst a' /\ fst i <= fst b'.
Proof.
  intros HI Hi. rewrite (inv_intfs _ _ HI) in Hi.
  destruct (In_keys_lookup _ _ Hi) as ([a b] & Hl).
  pose proof (inv_rel _ _ HI i) as Hr. rewrite Hl in Hr.
  destruct (lookup i (i2s g)) as [[a' b']|] eqn:E; [|contradiction].
  destruct (inv_wf _ _ HI i a b Hl) as (Ha & Hb & Hda & Hdb & _).
  exists a, b, a', b'. rewrite (inv_sds _ _ HI). cbn in Hr. unfold unord in Hr. cbn [fst snd] in Hr.
  split; auto. split; auto. split; [exact Hr|].
  destruct Hr as [[-> ->]|[-> ->]]; repeat split; auto.
Qed.

(* ------------------------------------------------------------------ add_subdomains *)
Lemma fold_kadd l : forall S,
  NoDup l -> (forall x, In x l -> ~ In x S) -> fold_left (fun acc s => kadd s acc) l S = S ++ l.
Proof.
  induction l as [|x r IH]; intros S Hn Hd; cbn.
  - rewrite app_nil_r; reflexivity.
  - inversion Hn; subst. rewrite kadd_fresh by (apply Hd; left; auto).
    rewrite IH; auto.
    + rewrite <- app_assoc. reflexivity.
    + intros y Hy Hin. apply in_app_iff in Hin. destruct Hin as [Hin|[<-|[]]].
      * apply (Hd y); [right|]; auto.
      * contradiction.
Qed.

Lemma add_bgs_spec l : forall m b n,
  BI m b n -> NoDup l -> (forall x, In x l -> ~ In x (map fst m)) ->
  exists m' b' n', add_bgs l m b n = (m', b', n') /\ BI m' b' n' /\
    (forall s, In s (map fst m') <-> In s (map fst m) \/ (In s l /\ 0 < fst s)).
Proof.
  induction l as [|x r IH]; intros m b n HB Hn Hd; cbn [add_bgs].
  - exists m, b, n. split; [reflexivity|]. split; [exact HB|]. intros s. cbn [In]. tauto.
  - inversion Hn as [|? ? Hx Hr]; subst. unfold gdim. destruct (0 <? fst x) eqn:E.
    + apply Nat.ltb_lt in E.
      destruct (BI_add m b n x HB (Hd x (or_introl eq_refl))) as [HB' Hk'].
      destruct (IH _ _ _ HB' Hr) as (m' & b' & n' & He & HB'' & Hiff).
      * intros y Hy Hin0. apply Hk' in Hin0.
        destruct Hin0 as [Hin| ->]; [apply (Hd y); [right|]; auto | contradiction].
      * exists m', b', n'. split; auto. split; auto. intros s. rewrite Hiff. split.
        -- intros [Hs|[? ?]]; [apply Hk' in Hs; destruct Hs as [?| ->]|]; cbn [In]; auto.
        -- intros [?|[[<-|?] ?]]; auto; left; apply Hk'; auto.
    + apply Nat.ltb_ge in E.
      destruct (IH m b n HB Hr) as (m' & b' & n' & He & HB'' & Hiff).
      * intros y Hy. apply Hd; right; auto.
      * exists m', b', n'. split; auto. split; auto. intros s. rewrite Hiff. cbn. split.
        -- intros [?|[? ?]]; auto.
        -- intros [?|[[<-|?] ?]]; auto. lia.
Qed.

Lemma forallb_fresh l S :
  forallb (fun x => negb (mem x S)) l = true -> forall x, In x l -> ~ In x S.
Proof.
  intros H x Hx. rewrite forallb_forall in H. specialize (H x Hx).
  apply negb_true_iff in H. apply mem_nIn; auto.
Qed.

Lemma dupfree_nodupb l : dupfree l = nodupb l.
Proof. induction l as [|x r IH]; cbn; congruence. Qed.

Lemma step_add g sp l :
  Inv g sp -> okb sp (AddSd l) = true ->
  exists g', step g (AddSd l) = (g', Done) /\ Inv g' (sstep sp (AddSd l)).
Proof.
  intros HI Hok. cbn in Hok. apply andb_true_iff in Hok. destruct Hok as [Hnd Hfr].
  assert (Hdf : negb (dupfree l) = false) by (rewrite dupfree_nodupb, Hnd; reflexivity).
  apply nodupb_NoDup in Hnd. pose proof (forallb_fresh _ _ Hfr) as Hfresh.
  cbn [step]. unfold add_subdomains.
  assert (Hex : existsb (fun s => mem s (sds g)) l = false).
  { destruct (existsb _ l) eqn:E; auto. apply existsb_exists in E. destruct E as (x & Hx & Hm).
    apply mem_In in Hm. rewrite (inv_sds _ _ HI) in Hm. exfalso. eapply Hfresh; eauto. }
  rewrite Hex, Hdf.
  destruct (add_bgs_spec l (s2b g) (bgs g) (nbg g) (inv_bi _ _ HI) Hnd) as (m' & b' & n' & He & HB & Hiff).
  { intros x Hx Hin. apply (inv_bk _ _ HI) in Hin. destruct Hin as [Hin _].
    rewrite (inv_sds _ _ HI) in Hin. eapply Hfresh; eauto. }
  rewrite He. eexists; split; [reflexivity|].
  rewrite fold_kadd; auto; [|rewrite (inv_sds _ _ HI); auto].
  constructor; cbn [sds intfs i2s s2b bgs nbg sstep pS pI].
  - rewrite (inv_sds _ _ HI); reflexivity.
  - apply nodup_app; auto; [apply (inv_nd _ _ HI)|]. intros x Hx Hl. eapply Hfresh; eauto.
  - apply (inv_intfs _ _ HI).
  - apply (inv_ndI _ _ HI).
  - apply (inv_keys _ _ HI).
  - apply (inv_rel _ _ HI).
  - intros i a b Hl. destruct (inv_wf _ _ HI i a b Hl) as (H2 & H3 & H4 & H5 & H6).
    cbn [pS pI]. repeat split; auto; apply in_app_iff; auto.
  - exact HB.
  - intros s. rewrite Hiff, (inv_bk _ _ HI s), in_app_iff. tauto.
Qed.

(* ------------------------------------------------------------------ add_interface *)
Lemma joined_false a b I :
  joined a b I = false ->
  forall j c d, In (j, (c, d)) I -> ~ unord (a, b) (c, d).
Proof.
  intros H j c d Hin Hu. unfold joined in H.
  assert (existsb (fun e => pair_eqb (snd e) (a, b) || pair_eqb (snd e) (b, a)) I = true);
    [|congruence].
  apply existsb_exists. exists (j, (c, d)). split; auto. cbn [snd]. unfold pair_eqb. cbn [fst snd].
  unfold unord in Hu. cbn [fst snd] in Hu. destruct Hu as [[-> ->]|[-> ->]];
    rewrite !geqb_refl; cbn; auto. apply orb_true_r.
Qed.

Lemma step_intf g sp i a b :
  Inv g sp -> okb sp (AddIntf i a b) = true ->
  exists g', step g (AddIntf i a b) = (g', Done) /\ Inv g' (sstep sp (AddIntf i a b)).
Proof.
  intros HI Hok. cbn [okb] in Hok. rewrite !andb_true_iff in Hok.
  destruct Hok as ((((((Hi & Ha) & Hb) & Hda) & Hdb) & Hco) & Hj).
  apply negb_true_iff in Hi. apply mem_In in Ha. apply mem_In in Hb.
  apply Nat.leb_le in Hda. apply Nat.leb_le in Hdb. apply negb_true_iff in Hj.
  cbn [step]. unfold add_interface. unfold gdim.
  rewrite (inv_intfs _ _ HI), Hi, Hco, (inv_sds _ _ HI).
  destruct (sort_tuple_gen (pS sp) a b Ha Hb) as (x & y & Hst & Hlt & Hor). rewrite Hst.
  eexists; split; [reflexivity|].
  assert (Hni : ~ In i (map fst (pI sp))) by (apply mem_nIn; auto).
  assert (Hni2 : ~ In i (map fst (i2s g))).
  { rewrite (inv_keys _ _ HI), (inv_intfs _ _ HI); auto. }
  assert (Hu : unord (a, b) (x, y)).
  { unfold unord; cbn [fst snd]. destruct Hor as [E|E]; inversion E; subst; auto. }
  constructor; cbn [sds intfs i2s s2b bgs nbg sstep pS pI].
  - reflexivity.
  - apply (inv_nd _ _ HI).
  - rewrite kadd_fresh, map_app by auto. reflexivity.
  - rewrite map_app. cbn. apply nodup_app; auto; [apply (inv_ndI _ _ HI) | constructor; [intros []|constructor] |].
    intros z Hz [<-|[]]. contradiction.
  - rewrite dset_fresh, map_app, kadd_fresh, (inv_keys _ _ HI), (inv_intfs _ _ HI) by auto.
    reflexivity.
  - intros j. rewrite dset_fresh by auto. rewrite !lookup_app.
    pose proof (inv_rel _ _ HI j) as Hr.
    destruct (lookup j (pI sp)) as [p|], (lookup j (i2s g)) as [q|]; cbn in Hr |- *; try contradiction; auto.
    gcase i j; cbn; auto.
  - intros j c d. cbn [pS pI]. rewrite lookup_app. destruct (lookup j (pI sp)) as [p|] eqn:E.
    + intros Hp; inversion Hp; subst.
      destruct (inv_wf _ _ HI j c d E) as (H2 & H3 & H4 & H5 & H6).
      repeat split; auto. intros k e f. rewrite lookup_app.
      destruct (lookup k (pI sp)) as [p'|] eqn:E'.
      * intros Hp' Hu'; inversion Hp'; subst. eapply H6; eauto.
      * gcase i k; [|discriminate]. intros Hp' Hu'; inversion Hp'; subst.
        exfalso. apply lookup_In in E. eapply (joined_false _ _ _ Hj); eauto.
        apply unord_sym; auto.
    + gcase i j; [|discriminate]. intros Hp; inversion Hp; subst.
      repeat split; auto. intros k e f. rewrite lookup_app.
      destruct (lookup k (pI sp)) as [p'|] eqn:E'.
      * intros Hp' Hu'; inversion Hp'; subst.
        exfalso. apply lookup_In in E'. eapply (joined_false _ _ _ Hj); eauto.
      * gcase j k; [auto|discriminate].
  - apply (inv_bi _ _ HI).
  - intros s. rewrite <- (inv_sds _ _ HI). apply (inv_bk _ _ HI).
Qed.
