(* C02 — values with and without derivative agree (theorem about the parser model). *)
From Coq Require Import List ZArith QArith Qabs Qcanon Bool Arith Lia.
Import ListNotations.
From PP Require Import Model.C02 Proofs.C02.
Local Open Scope Qc_scope.

(* forgetting the Jacobian *)
Definition strip (a : value) : value := match a with VAd v _ => VVec v | _ => a end.

(* AdArray invariant (checked by its constructor): one Jacobian row per value *)
Definition wf (a : value) : Prop := match a with VAd v j => length v = length j | _ => True end.

Definition is_ad (a : value) : bool := match a with VAd _ _ => true | _ => false end.

(* ---------------------------------------------------------------------------------- *)
(* list facts                                                                           *)
(* ---------------------------------------------------------------------------------- *)
Lemma map2_length : forall (A B C : Type) (f : A -> B -> C) a b,
    length a = length b -> length (map2 f a b) = length a.
Proof.
  intros A B C f; induction a as [| x a IH]; intros [| y b] H; cbn in *; try discriminate; auto.
Qed.

Lemma same_len_true : forall (A B : Type) (a : list A) (b : list B),
    same_len a b = true -> length a = length b.
Proof. intros A B a b H; unfold same_len in H; now apply Nat.eqb_eq in H. Qed.

Lemma map_plus_repeat : forall v c, map (fun x => x + c) v = vadd v (repeat c (length v)).
Proof. induction v as [| x v IH]; intros c; cbn; [reflexivity | now rewrite <- IH]. Qed.

Lemma map_plus_repeat_l : forall v c, map (fun x => x + c) v = vadd (repeat c (length v)) v.
Proof. intros; rewrite vadd_comm; apply map_plus_repeat. Qed.

Lemma map_mult_repeat : forall v c, map (fun x => x * c) v = vmul v (repeat c (length v)).
Proof. induction v as [| x v IH]; intros c; cbn; [reflexivity | now rewrite <- IH]. Qed.

Lemma map_div_repeat : forall v c, map (fun x => x / c) v = map2 Qcdiv v (repeat c (length v)).
Proof. induction v as [| x v IH]; intros c; cbn; [reflexivity | now rewrite <- IH]. Qed.

Lemma vadd_vneg : forall v w, vadd v (vneg w) = vsub v w.
Proof. induction v as [| x v IH]; intros [| y w]; cbn; try reflexivity. now rewrite IH. Qed.

Lemma vneg_repeat : forall c n, vneg (repeat c n) = repeat (- c) n.
Proof. intros c n; induction n; cbn; [reflexivity | now rewrite <- IHn]. Qed.

Lemma vsub_repeat_neg : forall v c n, vadd v (repeat (- c) n) = vsub v (repeat c n).
Proof. intros v c n. rewrite <- vneg_repeat. apply vadd_vneg. Qed.

Lemma has_zero_repeat : forall c n, is_zero c = false -> has_zero (repeat c n) = false.
Proof. intros c n H; induction n; cbn; [reflexivity | now rewrite H]. Qed.

Lemma vmul_inv_div : forall v w, vmul v (map (fun x => qpowz x (-1)) w) = map2 Qcdiv v w.
Proof.
  induction v as [| x v IH]; intros [| y w]; cbn [vmul map map2]; try reflexivity.
  unfold vmul in IH. rewrite IH. now rewrite qpowz_m1.
Qed.

Lemma vmul_inv_div' : forall v w, vmul (map (fun x => qpowz x (-1)) w) v = map2 Qcdiv v w.
Proof. intros; rewrite vmul_comm; apply vmul_inv_div. Qed.

Lemma map_inv_mult : forall v c,
    map (fun x => x * c) (map (fun x => qpowz x (-1)) v) = map2 Qcdiv (repeat c (length v)) v.
Proof.
  induction v as [| x v IH]; intros c; cbn [map length repeat map2]; [reflexivity|].
  rewrite IH, qpowz_m1. f_equal. unfold Qcdiv. ring.
Qed.

Lemma scatter_length : forall (A : Type) (rng : list nat) (vals out : list A),
    length (scatter out rng vals) = length out.
Proof.
  intros A. assert (forall (out : list A) i a, length (update out i a) = length out) as U.
  { induction out as [| x out IH]; intros [| i] a; cbn; auto. }
  induction rng as [| i rng IH]; intros [| a vals] out; cbn; auto. now rewrite IH, U.
Qed.

(* ---------------------------------------------------------------------------------- *)
(* AdArray methods: the value part is the numpy operation on the values                 *)
(* ---------------------------------------------------------------------------------- *)
Ltac inv_ok H := first [discriminate H | injection H as <-].

Lemma ad_add_strip : forall v j o r, ad_add v j o = Ok r ->
    pyop Add (VVec v) (strip o) = Ok (strip r) /\ (length v = length j -> wf o -> wf r).
Proof.
  intros v j o r H. destruct o as [c | w | nc m | w k | s | l]; cbn [ad_add] in H; try discriminate H.
  - injection H as <-. cbn [strip pyop]. unfold vec_op. rewrite same_len_repeat'. cbn [negb].
    split; [now rewrite map_plus_repeat|]. cbn [wf]. intros; now rewrite map_length.
  - destruct (same_len v w) eqn:E; inv_ok H. cbn [strip pyop]. unfold vec_op. rewrite E. cbn [negb].
    split; [reflexivity|]. cbn [wf]. intros Hl _. apply same_len_true in E. unfold vadd. now rewrite map2_length.
  - destruct (same_len v w && same_len j k) eqn:E; inv_ok H. apply andb_true_iff in E as [E1 E2].
    cbn [strip pyop]. unfold vec_op. rewrite E1. cbn [negb]. split; [reflexivity|]. cbn [wf].
    intros Hl _. apply same_len_true in E1, E2. unfold vadd, madd. rewrite !map2_length; auto.
Qed.

Lemma neg_strip : forall o r, neg o = Ok r -> neg (strip o) = Ok (strip r) /\ (wf o -> wf r).
Proof.
  intros o r H; destruct o; cbn [neg] in H; inv_ok H; cbn [strip neg wf]; split; auto.
  unfold vneg, mneg. intros; now rewrite !map_length.
Qed.

Lemma pyop_sub_as_add_neg : forall v o o',
    neg o = Ok o' -> is_ad o = false ->
    pyop Sub (VVec v) o = pyop Add (VVec v) o' \/ True.
Proof. auto. Qed.

Lemma ad_sub_strip : forall v j o r, ad_sub v j o = Ok r ->
    pyop Sub (VVec v) (strip o) = Ok (strip r) /\ (length v = length j -> wf o -> wf r).
Proof.
  intros v j o r H. unfold ad_sub in H.
  destruct o as [c | w | nc m | w k | s | l]; cbn [neg bind ad_add] in H; try discriminate H.
  - cbn [ad_add] in H. injection H as <-. cbn [strip pyop]. unfold vec_op. rewrite same_len_repeat'.
    cbn [negb]. split.
    + f_equal. f_equal. rewrite map_plus_repeat. symmetry. apply vsub_repeat_neg.
    + cbn [wf]. intros; now rewrite map_length.
  - cbn [ad_add] in H. rewrite same_len_vneg in H. destruct (same_len v w) eqn:E; inv_ok H.
    cbn [strip pyop]. unfold vec_op. rewrite E. cbn [negb]. rewrite vadd_vneg. split; [reflexivity|].
    cbn [wf]. intros Hl _. apply same_len_true in E. unfold vsub. now rewrite map2_length.
  - cbn [ad_add] in H. rewrite same_len_vneg in H.
    assert (same_len j (mneg k) = same_len j k) as Ek by (unfold same_len, mneg; now rewrite map_length).
    rewrite Ek in H. destruct (same_len v w && same_len j k) eqn:E; inv_ok H.
    apply andb_true_iff in E as [E1 E2]. cbn [strip pyop]. unfold vec_op. rewrite E1. cbn [negb].
    rewrite vadd_vneg. split; [reflexivity|]. cbn [wf]. intros Hl _.
    apply same_len_true in E1, E2. unfold vsub, madd, mneg. rewrite !map2_length; rewrite ?map_length; auto.
Qed.

Lemma scale_rows_length : forall d j, length d = length j -> length (scale_rows d j) = length d.
Proof. intros; unfold scale_rows; now apply map2_length. Qed.

Lemma ad_mul_strip : forall v j o r, ad_mul v j o = Ok r ->
    pyop Mul (VVec v) (strip o) = Ok (strip r) /\ (length v = length j -> wf o -> wf r).
Proof.
  intros v j o r H. destruct o as [c | w | nc m | w k | s | l]; cbn [ad_mul] in H; try discriminate H.
  - injection H as <-. cbn [strip pyop]. unfold vec_op. rewrite same_len_repeat'. cbn [negb].
    split; [now rewrite map_mult_repeat|]. cbn [wf]. intros; now rewrite !map_length.
  - destruct (same_len v w) eqn:E; inv_ok H. cbn [strip pyop]. unfold vec_op. rewrite E. cbn [negb].
    split; [reflexivity|]. cbn [wf]. intros Hl _. apply same_len_true in E.
    unfold vmul. rewrite map2_length by auto. rewrite scale_rows_length; congruence.
  - destruct (same_len v w && same_len j k) eqn:E; inv_ok H. apply andb_true_iff in E as [E1 E2].
    cbn [strip pyop]. unfold vec_op. rewrite E1. cbn [negb]. split; [reflexivity|]. cbn [wf].
    intros Hl Hw. apply same_len_true in E1, E2. unfold vmul, madd.
    rewrite !map2_length; rewrite ?scale_rows_length; congruence.
Qed.

Lemma pow_guard : forall z hz, Z.ltb z 1 && hz = false -> Z.ltb z 0 && hz = false.
Proof.
  intros z hz H. destruct hz; [| now rewrite !andb_false_r].
  rewrite andb_true_r in *. apply Z.ltb_ge in H. apply Z.ltb_ge. lia.
Qed.

Lemma ad_pow_strip : forall v j o r, ad_pow v j o = Ok r ->
    pyop Pow (VVec v) (strip o) = Ok (strip r) /\ (length v = length j -> wf r).
Proof.
  intros v j o r H. destruct o as [c | w | nc m | w k | s | l]; cbn [ad_pow] in H; try discriminate H.
  destruct (as_int c) as [z |] eqn:Ez; [| discriminate H].
  destruct (Z.ltb z 1 && has_zero v) eqn:G; inv_ok H.
  cbn [strip pyop]. rewrite Ez, (pow_guard _ _ G). split; [reflexivity|]. cbn [wf].
  intros Hl. rewrite map_length, scale_rows_length; rewrite ?map_length; auto.
Qed.

Lemma ad_pow_m1 : forall v j r, ad_pow v j (VNum (Q2Qc (-1))) = Ok r ->
    has_zero v = false /\
    r = VAd (map (fun x => qpowz x (-1)) v)
            (scale_rows (map (fun x => Q2Qc (-1) * qpowz x (-1 - 1)) v) j).
Proof.
  intros v j r H. cbn [ad_pow] in H. rewrite as_int_minus_one in H.
  change (Z.ltb (-1) 1) with true in H. cbn [andb] in H.
  destruct (has_zero v); inv_ok H. auto.
Qed.

Lemma ad_truediv_strip : forall v j o r, ad_truediv v j o = Ok r ->
    pyop Div (VVec v) (strip o) = Ok (strip r) /\ (length v = length j -> wf o -> wf r).
Proof.
  intros v j o r H. destruct o as [c | w | nc m | w k | s | l]; cbn [ad_truediv] in H; try discriminate H.
  - destruct (is_zero c) eqn:Ec; inv_ok H. cbn [strip pyop]. unfold vec_op.
    rewrite same_len_repeat', (has_zero_repeat _ _ Ec). cbn [negb].
    split; [now rewrite map_div_repeat|]. cbn [wf]. intros; now rewrite !map_length.
  - destruct (has_zero w) eqn:Hz; [discriminate H|]. destruct (same_len v w) eqn:E; inv_ok H.
    cbn [strip pyop]. unfold vec_op. rewrite E, Hz. cbn [negb]. split; [now rewrite vmul_inv_div|].
    cbn [wf]. intros Hl _. apply same_len_true in E. unfold vmul.
    rewrite map2_length by (now rewrite map_length). rewrite scale_rows_length; rewrite ?map_length; congruence.
  - destruct (same_len v w && same_len j k) eqn:E; [| discriminate H].
    apply andb_true_iff in E as [E1 E2].
    destruct (ad_pow w k (VNum (Q2Qc (-1)))) as [p |] eqn:Ep; [| discriminate H]. cbn [bind] in H.
    apply ad_pow_m1 in Ep as [Hz ->]. cbn [ad_mul] in H.
    match type of H with (if ?c then _ else _) = _ => destruct c eqn:E3; inv_ok H end.
    apply andb_true_iff in E3 as [E3 E4].
    cbn [strip pyop]. unfold vec_op. rewrite E1, Hz. cbn [negb]. split; [now rewrite vmul_inv_div|].
    cbn [wf]. intros Hl Hw. apply same_len_true in E1, E2, E3, E4. unfold vmul, madd.
    rewrite !map2_length; rewrite ?scale_rows_length; rewrite ?map_length; try congruence.
    all: rewrite ?scale_rows_length; rewrite ?map_length; try congruence.
Qed.

(* number (op) AdArray: python calls the reflected AdArray method *)
Lemma vneg_map_plus : forall v c,
    vneg (map (fun x => x + - c) v) = vsub (repeat c (length v)) v.
Proof.
  induction v as [| x v IH]; intros c; cbn; [reflexivity|]. rewrite IH. f_equal. ring.
Qed.

Lemma num_ad_strip : forall o c v j r,
    is_rop o = false -> length v = length j -> pyop o (VNum c) (VAd v j) = Ok r ->
    pyop o (VNum c) (VVec v) = Ok (strip r) /\ wf r.
Proof.
  intros o c v j r Ho Hl H. destruct o; try discriminate Ho; cbn [pyop] in H; try discriminate H.
  - (* Add *) cbn [ad_add] in H. injection H as <-. cbn [strip pyop]. unfold vec_op.
    rewrite same_len_repeat. cbn [negb]. split; [now rewrite map_plus_repeat_l|].
    cbn [wf]. now rewrite map_length.
  - (* Sub *) unfold ad_rsub, ad_sub in H. cbn [neg bind ad_add] in H. injection H as <-.
    cbn [strip pyop]. unfold vec_op. rewrite same_len_repeat. cbn [negb].
    split; [now rewrite vneg_map_plus|]. cbn [wf]. unfold vneg, mneg. now rewrite !map_length.
  - (* Mul *) cbn [ad_mul] in H. injection H as <-. cbn [strip pyop]. unfold vec_op.
    rewrite same_len_repeat. cbn [negb]. split; [now rewrite vmul_comm, map_mult_repeat|].
    cbn [wf]. now rewrite !map_length.
  - (* Div *) unfold ad_rtruediv in H.
    destruct (ad_pow v j (VNum (Q2Qc (-1)))) as [p |] eqn:Ep; [| discriminate H]. cbn [bind] in H.
    apply ad_pow_m1 in Ep as [Hz ->]. cbn [ad_mul] in H. injection H as <-.
    cbn [strip pyop]. unfold vec_op. rewrite same_len_repeat, Hz. cbn [negb].
    split; [now rewrite map_inv_mult|]. cbn [wf].
    rewrite !map_length. rewrite scale_rows_length; now rewrite ?map_length.
Qed.

(* numpy array (op) AdArray: the dual-number formulas *)
Lemma vec_ad_strip : forall o w v j r,
    is_rop o = false -> length v = length j -> math_node o (VVec w) (VAd v j) = Ok r ->
    pyop o (VVec w) (VVec v) = Ok (strip r) /\ wf r.
Proof.
  intros o w v j r Ho Hl H. destruct o; try discriminate Ho; cbn [math_node] in H; try discriminate H.
  - destruct (same_len v w) eqn:E; inv_ok H. cbn [strip pyop]. unfold vec_op.
    rewrite (same_len_sym _ _ w v), E. cbn [negb]. split; [reflexivity|]. cbn [wf].
    apply same_len_true in E. unfold vadd. rewrite map2_length; congruence.
  - destruct (same_len v w) eqn:E; inv_ok H. cbn [strip pyop]. unfold vec_op.
    rewrite (same_len_sym _ _ w v), E. cbn [negb]. split; [reflexivity|]. cbn [wf].
    apply same_len_true in E. unfold vsub, mneg. rewrite map2_length, map_length; congruence.
  - destruct (same_len v w) eqn:E; inv_ok H. cbn [strip pyop]. unfold vec_op.
    rewrite (same_len_sym _ _ w v), E. cbn [negb]. split; [reflexivity|]. cbn [wf].
    apply same_len_true in E. unfold vmul. rewrite map2_length, scale_rows_length; congruence.
  - destruct (has_zero v) eqn:Hz; [discriminate H|]. destruct (same_len v w) eqn:E; inv_ok H.
    cbn [strip pyop]. unfold vec_op. rewrite (same_len_sym _ _ w v), E, Hz. cbn [negb].
    split; [reflexivity|]. cbn [wf]. apply same_len_true in E.
    rewrite map2_length by congruence. rewrite scale_rows_length; rewrite ?map2_length; congruence.
Qed.

(* ---------------------------------------------------------------------------------- *)
(* operations without AdArray operands never produce an AdArray                          *)
(* ---------------------------------------------------------------------------------- *)
Lemma vec_op_nonad : forall o a b r, vec_op o a b = Ok r -> is_ad r = false.
Proof.
  intros o a b r H. unfold vec_op in H.
  repeat match type of H with
         | (if ?c then _ else _) = _ => destruct c
         | match ?x with _ => _ end = _ => destruct x
         end; inv_ok H; reflexivity.
Qed.

Lemma slicer_matmul_nonad : forall s b r, is_ad b = false -> slicer_matmul s b = Ok r -> is_ad r = false.
Proof. intros s b r Hb H; destruct b; try discriminate Hb; cbn in H; inv_ok H; reflexivity. Qed.

Lemma pyop_nonad : forall o a b r,
    is_ad a = false -> is_ad b = false -> pyop o a b = Ok r -> is_ad r = false.
Proof.
  intros o a b r Ha Hb H.
  destruct a as [x | u | nc m | v j | s | l]; try discriminate Ha;
    destruct b as [y | w | nc' m' | v' j' | s' | l']; try discriminate Hb;
    cbn [pyop] in H;
    try (destruct o; try discriminate H;
         first [ eapply vec_op_nonad; exact H
               | eapply slicer_matmul_nonad; [| exact H]; reflexivity
               | idtac ]);
    repeat match type of H with
           | (if ?c then _ else _) = _ => destruct c
           | match ?x with _ => _ end = _ => destruct x eqn:?
           end; try inv_ok H; try reflexivity; try discriminate.
Qed.

Lemma strip_nonad : forall a, is_ad a = false -> strip a = a.
Proof. intros a H; destruct a; try discriminate H; reflexivity. Qed.

Lemma nonad_wf : forall a, is_ad a = false -> wf a.
Proof. intros a H; destruct a; try discriminate H; exact I. Qed.

Lemma strip_is_nonad : forall a, is_ad (strip a) = false.
Proof. intros a; destruct a; reflexivity. Qed.

(* ---------------------------------------------------------------------------------- *)
(* projections                                                                          *)
(* ---------------------------------------------------------------------------------- *)
Lemma slicer_matmul_strip : forall s b r, slicer_matmul s b = Ok r ->
    slicer_matmul s (strip b) = Ok (strip r) /\ wf r.
Proof.
  intros s b r H. destruct b; cbn [slicer_matmul] in H; inv_ok H; cbn [strip slicer_matmul wf];
    split; auto.
  unfold slice_vec, slice_rows. rewrite !scatter_length. unfold zeros, zero_mat.
  now rewrite !repeat_length.
Qed.

Lemma nonad_case : forall o a b r,
    is_ad a = false -> is_ad b = false -> pyop o a b = Ok r ->
    pyop o (strip a) (strip b) = Ok (strip r) /\ wf r.
Proof.
  intros o a b r Ha Hb H. assert (is_ad r = false) as Hr by exact (pyop_nonad o a b r Ha Hb H).
  rewrite !strip_nonad by assumption. split; [exact H | now apply nonad_wf].
Qed.

Lemma ad_rmatmul_strip : forall v j nc m r,
    length v = length j -> ad_rmatmul v j (VMat nc m) = Ok r ->
    pyop Matmul (VMat nc m) (VVec v) = Ok (strip r) /\ wf r.
Proof.
  intros v j nc m r Hl H. cbn [ad_rmatmul] in H. destruct (Nat.eqb (length j) nc) eqn:E; inv_ok H.
  cbn [pyop strip]. apply Nat.eqb_eq in E. rewrite <- E, <- Hl, Nat.eqb_refl.
  split; [reflexivity|]. cbn [wf]. unfold mat_vec, mat_mat. now rewrite !map_length.
Qed.

(* python's  a <op> b : the value part does not depend on the Jacobians *)
Lemma pyop_strip : forall o a b r,
    is_rop o = false -> wf a -> wf b -> pyop o a b = Ok r ->
    pyop o (strip a) (strip b) = Ok (strip r) /\ wf r.
Proof.
  intros o a b r Ho Wa Wb H.
  destruct a as [c | w | nc m | v j | s | l].
  - destruct (is_ad b) eqn:Eb; [| now apply nonad_case].
    destruct b; try discriminate Eb. cbn [strip]. cbn [wf] in Wb. now apply (num_ad_strip o c v j r).
  - destruct (is_ad b) eqn:Eb; [| now apply nonad_case].
    destruct b; try discriminate Eb. cbn [pyop] in H. discriminate H.
  - destruct (is_ad b) eqn:Eb; [| now apply nonad_case].
    destruct b; try discriminate Eb. cbn [pyop] in H. cbn [wf] in Wb.
    destruct o; try discriminate H; cbn [strip].
    now apply (ad_rmatmul_strip v j nc m r).
  - cbn [wf] in Wa. cbn [pyop] in H. cbn [strip].
    assert (forall x, is_ad (strip x) = false) as SN by apply strip_is_nonad.
    destruct o; try discriminate Ho; try discriminate H.
    + destruct (ad_add_strip v j b r H) as [E W]. split; [| now apply W].
      destruct (strip b) eqn:Sb; try (specialize (SN b); rewrite Sb in SN; discriminate SN); exact E.
    + destruct (ad_sub_strip v j b r H) as [E W]. split; [| now apply W].
      destruct (strip b) eqn:Sb; try (specialize (SN b); rewrite Sb in SN; discriminate SN); exact E.
    + destruct (ad_mul_strip v j b r H) as [E W]. split; [| now apply W].
      destruct (strip b) eqn:Sb; try (specialize (SN b); rewrite Sb in SN; discriminate SN); exact E.
    + destruct (ad_truediv_strip v j b r H) as [E W]. split; [| now apply W].
      destruct (strip b) eqn:Sb; try (specialize (SN b); rewrite Sb in SN; discriminate SN); exact E.
    + destruct (ad_pow_strip v j b r H) as [E W]. split; [| now apply W].
      destruct (strip b) eqn:Sb; try (specialize (SN b); rewrite Sb in SN; discriminate SN); exact E.
  - destruct (is_ad b) eqn:Eb; [| now apply nonad_case].
    destruct b; try discriminate Eb. cbn [pyop] in H. destruct o; try discriminate H.
    cbn [strip pyop]. exact (slicer_matmul_strip s (VAd v j) r H).
  - destruct (is_ad b) eqn:Eb; [| now apply nonad_case].
    destruct b; try discriminate Eb. cbn [pyop] in H. discriminate H.
Qed.

Lemma sum_slices_strip : forall l x r, wf x -> sum_slices l x = Ok r ->
    sum_slices l (strip x) = Ok (strip r) /\ wf r.
Proof.
  intros l x r Wx. unfold sum_slices.
  set (step := fun y (acc : res value) (s : slicer) =>
                 bind acc (fun a => bind (slicer_matmul s y) (fun z => pyop Add a z))).
  change (fold_left (step x) l (Ok (VNum 0)) = Ok r ->
          fold_left (step (strip x)) l (Ok (VNum 0)) = Ok (strip r) /\ wf r).
  assert (forall acc, wf acc -> forall r, fold_left (step x) l (Ok acc) = Ok r ->
            fold_left (step (strip x)) l (Ok (strip acc)) = Ok (strip r) /\ wf r) as G.
  { induction l as [| s l IH]; intros acc Wacc r0 H; cbn [fold_left] in *.
    - injection H as <-. auto.
    - unfold step at 2 in H. cbn [bind] in H.
      destruct (slicer_matmul s x) as [z |] eqn:Ez.
      + cbn [bind] in H. destruct (pyop Add acc z) as [a' |] eqn:Ea.
        * destruct (slicer_matmul_strip s x z Ez) as [Ez' Wz].
          destruct (pyop_strip Add acc z a' eq_refl Wacc Wz Ea) as [Ea' Wa'].
          unfold step at 2. cbn [bind]. rewrite Ez'. cbn [bind]. rewrite Ea'.
          apply IH; assumption.
        * exfalso. clear -H. induction l as [| s' l IHl]; cbn [fold_left] in H; [discriminate H|].
          apply IHl. exact H.
      + cbn [bind] in H. exfalso. clear -H.
        induction l as [| s' l IHl]; cbn [fold_left] in H; [discriminate H|]. apply IHl. exact H. }
  intros H. apply (G (VNum 0) I r H).
Qed.

(* the node semantics: value part independent of the Jacobians *)
Lemma math_node_strip : forall o a b r,
    is_rop o = false -> wf a -> wf b -> math_node o a b = Ok r ->
    math_node o (strip a) (strip b) = Ok (strip r) /\ wf r.
Proof.
  intros o a b r Ho Wa Wb H.
  assert (forall x y, is_ad y = false -> (forall l, x <> VSlList l) ->
                      math_node o x y = pyop o x y) as MN.
  { intros x y Hy Hx. destruct x; destruct y; try discriminate Hy; try reflexivity;
      exfalso; eapply Hx; reflexivity. }
  destruct a as [c | w | nc m | v j | s | l].
  - rewrite MN by (try apply strip_is_nonad; intros; discriminate).
    assert (math_node o (VNum c) b = pyop o (VNum c) b) as E by (destruct b; reflexivity).
    rewrite E in H. now apply pyop_strip.
  - destruct b as [c' | u | nc' m' | v j | s' | l'];
      try match type of H with
          | math_node _ _ ?y = _ => exact (nonad_case o (VVec w) y r eq_refl eq_refl H)
          end.
    cbn [strip].
    cbn [wf] in Wb. change (math_node o (VVec w) (VVec v)) with (pyop o (VVec w) (VVec v)).
    now apply (vec_ad_strip o w v j r).
  - rewrite MN by (try apply strip_is_nonad; intros; discriminate).
    assert (math_node o (VMat nc m) b = pyop o (VMat nc m) b) as E by (destruct b; reflexivity).
    rewrite E in H. now apply pyop_strip.
  - cbn [strip]. rewrite MN by (try apply strip_is_nonad; intros; discriminate).
    assert (math_node o (VAd v j) b = pyop o (VAd v j) b) as E by (destruct b; reflexivity).
    rewrite E in H. exact (pyop_strip o (VAd v j) b r Ho Wa Wb H).
  - rewrite MN by (try apply strip_is_nonad; intros; discriminate).
    assert (math_node o (VSl s) b = pyop o (VSl s) b) as E by (destruct b; reflexivity).
    rewrite E in H. now apply pyop_strip.
  - destruct o; try discriminate Ho;
      destruct b as [c' | u | nc' m' | v j | s' | l']; try discriminate H;
      exact (sum_slices_strip l _ r Wb H).
Qed.

(* ---------------------------------------------------------------------------------- *)
(* trees                                                                                *)
(* ---------------------------------------------------------------------------------- *)
Definition with_deriv (d : bool) (e : env) : env :=
  {| state := state e; deriv := d; ts := ts e; its := its e; src_it0 := src_it0 e;
     src_ts := src_ts e |}.

Lemma take_length : forall (A : Type) (d : A) x idx, length (take d x idx) = length idx.
Proof. intros; unfold take; apply map_length. Qed.

Lemma parse_leaf_strip : forall l e r,
    parse_leaf l (with_deriv true e) = Ok r ->
    parse_leaf l (with_deriv false e) = Ok (strip r) /\ wf r.
Proof.
  intros l e r H. destruct l; cbn [parse_leaf] in *; try (injection H as <-; cbn; auto; fail).
  - cbn [ts its with_deriv] in *. destruct (Z.leb 0 t).
    + destruct (lookup (ts e) t); cbn [bind] in *; inv_ok H. cbn; auto.
    + destruct (Z.leb 0 i).
      * destruct (lookup (its e) i); cbn [bind] in *; inv_ok H. cbn; auto.
      * unfold ad_base in *. cbn [deriv state with_deriv] in *. cbn [getitem] in *.
        injection H as <-. cbn [strip wf]. split; [reflexivity|]. now rewrite !take_length.
  - cbn [src_ts src_it0 with_deriv] in *. destruct (Z.leb 0 t).
    + destruct (lookup (src_ts e) t); cbn [bind] in *; inv_ok H. cbn; auto.
    + injection H as <-. cbn; auto.
Qed.

Lemma direct_strip : forall t e r,
    no_rops t = true -> direct t (with_deriv true e) = Ok r ->
    direct t (with_deriv false e) = Ok (strip r) /\ wf r.
Proof.
  induction t as [l | o a IHa b IHb]; intros e r Hn H.
  - cbn [direct] in *. now apply parse_leaf_strip.
  - cbn [no_rops] in Hn. apply andb_true_iff in Hn as [Hn Hb]. apply andb_true_iff in Hn as [Ho Ha].
    apply negb_true_iff in Ho. cbn [direct] in *.
    destruct (direct a (with_deriv true e)) as [va |] eqn:Ea; [| discriminate H]. cbn [bind] in H.
    destruct (direct b (with_deriv true e)) as [vb |] eqn:Eb; [| discriminate H]. cbn [bind] in H.
    destruct (IHa e va Ha Ea) as [Ea' Wa]. destruct (IHb e vb Hb Eb) as [Eb' Wb].
    rewrite Ea', Eb'. cbn [bind].
    assert (direct_node o va vb = math_node o va vb) as E1 by (destruct o; try discriminate Ho; reflexivity).
    assert (direct_node o (strip va) (strip vb) = math_node o (strip va) (strip vb)) as E2
        by (destruct o; try discriminate Ho; reflexivity).
    rewrite E1 in H. rewrite E2. now apply math_node_strip.
Qed.

(* the value an evaluation result carries *)
Definition val_of (r : value) : option vec :=
  match r with VNum x => Some [x] | VVec v => Some v | VAd v _ => Some v | _ => None end.

Lemma value_agrees : forall t e r,
    no_rops t = true -> parse t (with_deriv true e) = Ok r ->
    parse t (with_deriv false e) = Ok (strip r).
Proof.
  intros t e r Hn H. rewrite (refines t _ Hn) in H. rewrite (refines t _ Hn).
  destruct (direct_strip t e r Hn H) as [E _]. exact E.
Qed.

Lemma evaluate_value_agrees : forall t e r1,
    no_rops t = true -> evaluate t (with_deriv true e) = Ok r1 ->
    exists r0, evaluate t (with_deriv false e) = Ok r0 /\ val_of r0 = val_of r1.
Proof.
  intros t e r1 Hn H. unfold evaluate in *.
  destruct (parse t (with_deriv true e)) as [r |] eqn:P; [| discriminate H]. cbn [bind] in H.
  rewrite (value_agrees t e r Hn P). cbn [bind]. unfold finish in *. cbn [deriv with_deriv] in *.
  exists (strip r). split; [reflexivity|].
  destruct r; cbn [strip val_of] in *; inv_ok H; reflexivity.
Qed.
