(* C01 — proofs for safe_power and row assignment. *)
From Coq Require Import Reals ZArith List Lra Lia.
From Coquelicot Require Import Coquelicot.
From PP Require Import Model.C01 Model.C01R Model.C01X Proofs.C01 Proofs.C01_fun Proofs.C01_comp.
Import ListNotations.
Open Scope R_scope.

(* safe_power away from its switch |x| = tol (tol >= 0); where the power is taken the
   usual domain of the power applies (non-integer powers: positive argument) *)
Definition sp_smooth (p : pexp R) (tol x : R) : Prop :=
  0 <= tol /\ Rabs x <> tol /\
  (tol < Rabs x -> match p with PZ _ => True | PR _ => 0 < x end).

Lemma sp_rule (p : pexp R) (zv tol x : R) :
  sp_smooth p tol x ->
  is_derive (sp_val ROps p zv tol) x (sp_fac ROps p tol x).
Proof.
  intros [Ht [Hne Hd]]. unfold sp_val, sp_fac.
  destruct (Rlt_dec tol (Rabs x)) as [Hlt|Hge].
  - rewrite np_abs_Rabs. cbn [oltb ROps]. rewrite (ltbR_true _ _ Hlt).
    assert (Hx0 : x <> 0) by (intros E; rewrite E, Rabs_R0 in Hlt; lra).
    set (g := fun y : R => pow_plain ROps y p).
    apply (is_derive_ext_loc g).
    + eapply filter_imp;
        [| apply (locally_cont_gt Rabs x tol (continuous_Rabs x) Hlt)].
      intros y Hy. cbv beta in Hy. rewrite np_abs_Rabs. cbn [oltb ROps].
      rewrite (ltbR_true _ _ Hy). reflexivity.
    + unfold g. destruct p as [n|q]; unf.
      * apply is_derive_powerRZ_id. left. exact Hx0.
      * specialize (Hd Hlt). cbn in Hd.
        eapply is_derive_eq.
        -- apply (rule_powr_k (fun y => y) x 1 (is_derive_id x) q Hd).
        -- unf. ring.
  - assert (Hlt : Rabs x < tol) by lra.
    rewrite np_abs_Rabs. cbn [oltb ROps]. rewrite (ltbR_false _ _ Hge).
    apply (derive_loc_const _ x zv).
    eapply filter_imp;
      [| apply (locally_cont_lt Rabs x tol (continuous_Rabs x) Hlt)].
    intros y Hy. cbv beta in Hy. rewrite np_abs_Rabs. cbn [oltb ROps].
    rewrite ltbR_false by lra. reflexivity.
Qed.

Lemma rule_safe_power (p : pexp R) (zv tol : R) (u : R -> R) (t du : R) :
  is_derive u t du -> sp_smooth p tol (u t) ->
  is_derive (fun s => sp_val ROps p zv tol (u s)) t
            (snd (d_safe_power ROps p zv tol (u t, du))).
Proof.
  intros Hu Hs. eapply is_derive_eq.
  - apply (is_derive_comp (sp_val ROps p zv tol) u t).
    + apply sp_rule. exact Hs.
    + exact Hu.
  - unfold d_safe_power, scal; simpl. unfold mult; simpl. ring.
Qed.

(* row assignment: every entry of the result is the corresponding entry of b (if its row
   was assigned) or of a, value and derivative alike *)
Lemma set_rows_cases {A} (idx : list nat) (a b : nat -> A) (i : nat) :
  (exists k, set_rows idx a b i = b k /\ nth_error idx k = Some i) \/
  (set_rows idx a b i = a i /\ ~ In i idx).
Proof.
  unfold set_rows.
  assert (G : forall idx k0 acc,
             match find_last idx i k0 acc with
             | Some k => (acc = Some k /\ True) \/ (k0 <= k /\ nth_error idx (k - k0) = Some i)%nat
             | None => acc = None /\ ~ In i idx
             end).
  { clear idx. induction idx as [|j r IH]; intros k0 acc; cbn [find_last].
    - destruct acc; [left; split; auto | split; auto].
    - destruct (Nat.eqb j i) eqn:E.
      + apply Nat.eqb_eq in E. subst j.
        specialize (IH (S k0) (Some k0)).
        destruct (find_last r i (S k0) (Some k0)) as [k|].
        * destruct IH as [[E1 _]|[Hle Hn]].
          -- inversion E1; subst k. right. split; [lia|]. rewrite Nat.sub_diag. reflexivity.
          -- right. split; [lia|]. replace (k - k0)%nat with (S (k - S k0)) by lia. exact Hn.
        * destruct IH as [E1 _]. discriminate.
      + apply Nat.eqb_neq in E.
        specialize (IH (S k0) acc).
        destruct (find_last r i (S k0) acc) as [k|].
        * destruct IH as [[E1 _]|[Hle Hn]].
          -- left. split; auto.
          -- right. split; [lia|]. replace (k - k0)%nat with (S (k - S k0)) by lia. exact Hn.
        * destruct IH as [E1 Hn]. split; [exact E1|]. intros [H|H]; [congruence|auto]. }
  specialize (G idx 0%nat None).
  destruct (find_last idx i 0 None) as [k|].
  - left. exists k. split; [reflexivity|].
    destruct G as [[E _]|[_ Hn]]; [discriminate|]. rewrite Nat.sub_0_r in Hn. exact Hn.
  - right. destruct G as [_ Hn]. split; [reflexivity| exact Hn].
Qed.
