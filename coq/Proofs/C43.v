(* C43 — proofs about the model PP.Model.C43 (unit conversion). *)
From Coq Require Import String Ascii List ZArith QArith Qabs Bool Reals Qreals Lra Lia.
Import ListNotations.
From PP Require Import Model.C43.
Open Scope string_scope.

(* ------------------------------------------------------------------------------------ *)
(* A. strings; composition (any number type)                                              *)
(* ------------------------------------------------------------------------------------ *)
Lemma strip_app : forall a b, strip_spaces (a ++ b) = strip_spaces a ++ strip_spaces b.
Proof.
  induction a as [|c a IH]; intros b; cbn; [reflexivity|].
  destruct (Ascii.eqb c " "); cbn; now rewrite IH.
Qed.

Lemma split_on_nonempty : forall sep s, split_on sep s <> [].
Proof.
  intros sep s; destruct s as [|c r]; cbn; [discriminate|].
  destruct (Ascii.eqb c sep); [discriminate|].
  destruct (split_on sep r); discriminate.
Qed.

Lemma split_on_app : forall sep a b,
  split_on sep (a ++ String sep b) = (split_on sep a ++ split_on sep b)%list.
Proof.
  intros sep; induction a as [|c a IH]; intros b; cbn.
  - now rewrite Ascii.eqb_refl.
  - destruct (Ascii.eqb c sep); [now rewrite IH|].
    rewrite IH. destruct (split_on sep a) as [|h t] eqn:E.
    + now apply split_on_nonempty in E.
    + reflexivity.
Qed.

Lemma append_cons_not_empty : forall a c b, String.eqb (a ++ String c b) "" = false.
Proof. destruct a; reflexivity. Qed.

Lemma marker_app_star : forall a b, is_marker (a ++ String "*" b) = false.
Proof.
  intros a b. unfold is_marker.
  destruct a as [|c a]; [reflexivity|].
  cbn [append]. cbn [String.eqb].
  destruct (Ascii.eqb c "1"); destruct (Ascii.eqb c "-"); cbn;
    rewrite ?append_cons_not_empty; reflexivity.
Qed.

Section Generic.
  Context {T : Type} (ops : numops T).
  Variable derived : list (string * uexpr).
  Variable other : list string.
  Variable env : list (string * T).

  Lemma convert_loop_app : forall l1 l2 ts v,
    convert_loop ops derived other env (l1 ++ l2)%list ts v =
    bind (convert_loop ops derived other env l1 ts v)
         (convert_loop ops derived other env l2 ts).
  Proof.
    induction l1 as [|s l1 IH]; intros l2 ts v; cbn; [reflexivity|].
    destruct (sub_factor ops derived other env s); cbn; [apply IH|reflexivity|reflexivity].
  Qed.

  (* converting with "a*b" = converting with a, then with b (same direction); the first
     exception (or unmodelled input) of the sequence is the outcome *)
  Lemma compose_lemma : forall a b ts v,
    is_marker (strip_spaces a) = false -> is_marker (strip_spaces b) = false ->
    convert ops derived other env v (a ++ "*" ++ b) ts =
    bind (convert ops derived other env v a ts)
         (fun w => convert ops derived other env w b ts).
  Proof.
    intros a b ts v Ha Hb. unfold convert.
    change (a ++ "*" ++ b) with (a ++ String "*" b).
    rewrite strip_app. cbn [strip_spaces]. cbn [Ascii.eqb Bool.eqb].
    change (if Ascii.eqb "*" " " then strip_spaces b else String "*" (strip_spaces b))
      with (String "*" (strip_spaces b)).
    rewrite marker_app_star, Ha, split_on_app, convert_loop_app.
    destruct (convert_loop ops derived other env (split_on "*" (strip_spaces a)) ts v);
      cbn; [now rewrite Hb|reflexivity|reflexivity].
  Qed.
End Generic.

(* ------------------------------------------------------------------------------------ *)
(* B. the real-number instance; positivity; closed form of the loop; round trip           *)
(* ------------------------------------------------------------------------------------ *)
Open Scope R_scope.

(* x ** float(p) on positive reals is the real power; pi_ stands for the constant np.pi *)
Definition ROps (pi_ : R) : numops R := {|
  tmul := Rmult; tdiv := Rdiv; tpowZ := powerRZ;
  tpowQ := fun x q => Some (Rpower x (Q2R q));
  tofQ := Q2R; tpi := pi_ |}.

Definition env_pos (env : list (string * R)) : Prop := Forall (fun p => 0 < snd p) env.

(* all numeric literals of a property body are positive *)
Fixpoint expr_pos (e : uexpr) : bool :=
  match e with
  | UBase _ | UPi => true
  | UConst q => (0 <? Qnum q)%Z
  | UMul a b | UDiv a b => expr_pos a && expr_pos b
  | UPow a _ => expr_pos a
  end.

Definition table_pos (derived : list (string * uexpr)) : bool :=
  forallb (fun p => expr_pos (snd p)) derived.

Lemma Q2R_pos : forall q, (0 < Qnum q)%Z -> 0 < Q2R q.
Proof.
  intros [n d] H; unfold Q2R; cbn in *.
  apply Rmult_lt_0_compat; [now apply IZR_lt|].
  apply Rinv_0_lt_compat. apply IZR_lt. lia.
Qed.

Lemma assoc_pos : forall env k x, env_pos env -> assoc k env = Some x -> 0 < x.
Proof.
  induction env as [|[k' v] env IH]; intros k x Hp H; cbn in H; [discriminate|].
  inversion Hp as [|? ? Hv Hr]; subst.
  destruct (String.eqb k k'); [injection H as <-; exact Hv|eauto].
Qed.

Lemma assoc_In : forall {A} k (l : list (string * A)) v, assoc k l = Some v -> In (k, v) l.
Proof.
  induction l as [|[k' v'] l IH]; intros v H; cbn in H; [discriminate|].
  destruct (String.eqb k k') eqn:E.
  - apply String.eqb_eq in E; subst. injection H as <-. now left.
  - right; auto.
Qed.

Section Real.
  Variable pi_ : R.
  Hypothesis pi_pos : 0 < pi_.
  Variable derived : list (string * uexpr).
  Variable other : list string.
  Hypothesis derived_pos : table_pos derived = true.
  Variable env : list (string * R).
  Hypothesis Henv : env_pos env.

  Notation ops := (ROps pi_).

  Lemma eval_pos : forall e x, expr_pos e = true -> eval ops env e = Ok x -> 0 < x.
  Proof.
    induction e as [b|q| |a IHa b IHb|a IHa b IHb|a IHa n]; intros x Hp H; cbn in *.
    - destruct (assoc b env) eqn:E; [|discriminate]. injection H as <-.
      eapply assoc_pos; eauto.
    - injection H as <-. apply Q2R_pos. now apply Z.ltb_lt.
    - injection H as <-. exact pi_pos.
    - apply andb_true_iff in Hp as [Ha Hb].
      destruct (eval ops env a) as [xa| |]; cbn in H; try discriminate.
      destruct (eval ops env b) as [xb| |]; cbn in H; try discriminate.
      injection H as <-. apply Rmult_lt_0_compat; auto.
    - apply andb_true_iff in Hp as [Ha Hb].
      destruct (eval ops env a) as [xa| |]; cbn in H; try discriminate.
      destruct (eval ops env b) as [xb| |]; cbn in H; try discriminate.
      injection H as <-. apply Rdiv_lt_0_compat; auto.
    - destruct (eval ops env a) as [xa| |]; cbn in H; try discriminate.
      injection H as <-. apply powerRZ_lt; auto.
  Qed.

  Lemma getattr_pos : forall name x, getattr ops derived other env name = Ok x -> 0 < x.
  Proof.
    intros name x H. unfold getattr in H.
    destruct (assoc name env) eqn:E.
    - injection H as <-. eapply assoc_pos; eauto.
    - destruct (assoc name derived) as [e|] eqn:Ed.
      + apply eval_pos with (e := e); auto.
        apply assoc_In in Ed. unfold table_pos in derived_pos.
        rewrite forallb_forall in derived_pos. exact (derived_pos _ Ed).
      + destruct (mem name other); [discriminate|].
        destruct name as [|c r]; [discriminate|].
        destruct (Ascii.eqb c "_") eqn:Ec.
        * apply Ascii.eqb_eq in Ec; subst; discriminate.
        * destruct c as [[] [] [] [] [] [] [] []]; discriminate.
  Qed.

  Lemma sub_factor_pos : forall sub f, sub_factor ops derived other env sub = Ok f -> 0 < f.
  Proof.
    intros sub f H. unfold sub_factor in H.
    destruct (tokenize sub) as [s|s p|]; [eapply getattr_pos; eauto| |discriminate].
    destruct (getattr ops derived other env s) as [x| |] eqn:E; cbn in H; try discriminate.
    destruct (parse_float p); try discriminate. cbn in H. injection H as <-.
    unfold Rpower. apply exp_pos.
  Qed.

  (* the list of factors of the "*"-split, first failure wins *)
  Fixpoint factors (subs : list string) : res (list R) :=
    match subs with
    | [] => Ok []
    | s :: r => bind (sub_factor ops derived other env s)
                     (fun f => bind (factors r) (fun fs => Ok (f :: fs)))
    end.

  Fixpoint prod (l : list R) : R := match l with [] => 1 | x :: r => x * prod r end.

  Definition apply_factor (ts : bool) (P : R) (v : list R) : list R :=
    map (fun x => if ts then x * P else x / P) v.

  Lemma factors_pos : forall subs fs, factors subs = Ok fs -> 0 < prod fs.
  Proof.
    induction subs as [|s r IH]; intros fs H; cbn in H.
    - injection H as <-. cbn. lra.
    - destruct (sub_factor ops derived other env s) as [f| |] eqn:E; cbn in H; try discriminate.
      destruct (factors r) as [fr| |]; cbn in H; try discriminate.
      injection H as <-. cbn. apply Rmult_lt_0_compat; [eapply sub_factor_pos; eauto|auto].
  Qed.

  (* closed form of the loop: every value is multiplied / divided by the product of the
     factors; exceptions do not depend on the value nor on the direction *)
  Lemma loop_closed : forall subs ts v,
    convert_loop ops derived other env subs ts v =
    bind (factors subs) (fun fs => Ok (apply_factor ts (prod fs) v)).
  Proof.
    induction subs as [|s r IH]; intros ts v; cbn.
    - unfold apply_factor. f_equal. rewrite <- (map_id v) at 1. apply map_ext.
      intros x; destruct ts; field.
    - destruct (sub_factor ops derived other env s) as [f| |] eqn:E; cbn; try reflexivity.
      rewrite IH. destruct (factors r) as [fr| |] eqn:Er; cbn; try reflexivity.
      f_equal. unfold apply_factor. rewrite map_map. apply map_ext. intros x.
      assert (0 < f) by (eapply sub_factor_pos; eauto).
      assert (0 < prod fr) by (eapply factors_pos; eauto).
      unfold scale; destruct ts; cbn; field; split; lra.
  Qed.

  Definition unit_factors (units : string) : res (list R) :=
    let u := strip_spaces units in
    if is_marker u then Ok [] else factors (split_on "*" u).

  Lemma convert_closed : forall v units ts,
    convert ops derived other env v units ts =
    bind (unit_factors units) (fun fs => Ok (apply_factor ts (prod fs) v)).
  Proof.
    intros v units ts. unfold convert, unit_factors.
    destruct (is_marker (strip_spaces units)); [|apply loop_closed].
    cbn. unfold apply_factor. f_equal. rewrite <- (map_id v) at 1. apply map_ext.
    intros x; destruct ts; field.
  Qed.

  Lemma unit_factors_pos : forall units fs, unit_factors units = Ok fs -> 0 < prod fs.
  Proof.
    intros units fs H. unfold unit_factors in H.
    destruct (is_marker (strip_spaces units)); [injection H as <-; cbn; lra|].
    eapply factors_pos; eauto.
  Qed.

  Lemma apply_inverse : forall ts P v, 0 < P ->
    apply_factor (negb ts) P (apply_factor ts P v) = v.
  Proof.
    intros ts P v HP. unfold apply_factor. rewrite map_map.
    rewrite <- (map_id v) at 2. apply map_ext. intros x. destruct ts; cbn; field; lra.
  Qed.

  (* ROUND TRIP, both directions, any value list, any unit string (any power the model
     parses, integer or decimal); the outcome class does not depend on value/direction *)
  Lemma roundtrip_lemma : forall v units ts,
    (forall w, convert ops derived other env v units ts = Ok w ->
               convert ops derived other env w units (negb ts) = Ok v) /\
    (forall e v', convert ops derived other env v units ts = Err e ->
                  convert ops derived other env v' units (negb ts) = Err e) /\
    (forall w, convert ops derived other env v units ts = Ok w -> length w = length v).
  Proof.
    intros v units ts. repeat split.
    - intros w H. rewrite convert_closed in *.
      destruct (unit_factors units) as [fs| |] eqn:E; cbn in *; try discriminate.
      injection H as <-. f_equal. apply apply_inverse. eapply unit_factors_pos; eauto.
    - intros e v' H. rewrite convert_closed in *.
      destruct (unit_factors units) as [fs| |] eqn:E; cbn in *; try discriminate. exact H.
    - intros w H. rewrite convert_closed in H.
      destruct (unit_factors units) as [fs| |] eqn:E; cbn in *; try discriminate.
      injection H as <-. unfold apply_factor. now rewrite map_length.
  Qed.
End Real.

(* ------------------------------------------------------------------------------------ *)
(* C. material constants                                                                  *)
(* ------------------------------------------------------------------------------------ *)
Section Material.
  Variable pi_ : R.
  Hypothesis pi_pos : 0 < pi_.
  Variable derived : list (string * uexpr).
  Variable other : list string.
  Hypothesis derived_pos : table_pos derived = true.
  Notation ops := (ROps pi_).

  Lemma constants_back : forall env si cs cs', env_pos env ->
    convert_constants ops derived other env si cs false = Ok cs' ->
    convert_constants ops derived other env si cs' true = Ok cs.
  Proof.
    intros env si cs cs' Henv. revert cs'.
    induction cs as [|[k v] r IH]; intros cs' H; cbn in H.
    - injection H as <-. reflexivity.
    - destruct (assoc k si) as [u|] eqn:Eu; [|discriminate].
      destruct (convert ops derived other env [v] u false) as [w| |] eqn:Ec; cbn in H;
        try discriminate.
      destruct (convert_constants ops derived other env si r false) as [r'| |] eqn:Er;
        cbn in H; try discriminate.
      injection H as <-. cbn. rewrite Eu.
      pose proof (roundtrip_lemma pi_ pi_pos derived other derived_pos env Henv [v] u false)
        as (Hrt & _ & Hlen).
      specialize (Hlen _ Ec). destruct w as [|w0 [|]]; cbn in Hlen; try discriminate.
      cbn [hd]. specialize (Hrt _ Ec). cbn [negb] in Hrt. rewrite Hrt. cbn. rewrite (IH _ eq_refl). reflexivity.
  Qed.

  (* constants built in ANY unit system keep their SI values (constants_in_SI) and every
     attribute converts back to its SI value; the same holds after to_units to any other
     unit system, and to_units does not depend on the units the object had before *)
  Lemma material_lemma : forall env env' si cs c,
    env_pos env -> env_pos env' ->
    make_constants ops derived other env si cs = Ok c ->
    in_SI c = cs /\
    convert_constants ops derived other env si (attrs c) true = Ok cs /\
    (forall c', to_units ops derived other env' si c = Ok c' ->
       in_SI c' = cs /\
       convert_constants ops derived other env' si (attrs c') true = Ok cs /\
       forall env'', to_units ops derived other env'' si c' =
                     to_units ops derived other env'' si c).
  Proof.
    intros env env' si cs c He He' H. unfold make_constants in H.
    destruct (convert_constants ops derived other env si cs false) as [a| |] eqn:E;
      cbn in H; try discriminate.
    injection H as <-. cbn. split; [reflexivity|]. split; [now apply constants_back|].
    intros c' H'. unfold to_units, make_constants in H'. cbn in H'.
    destruct (convert_constants ops derived other env' si cs false) as [a'| |] eqn:E';
      cbn in H'; try discriminate.
    injection H' as <-. cbn. split; [reflexivity|]. split; [now apply constants_back|].
    reflexivity.
  Qed.
End Material.

(* ------------------------------------------------------------------------------------ *)
(* D. dimension bookkeeping: the normal form is sound                                     *)
(* ------------------------------------------------------------------------------------ *)
Fixpoint dims_val (xs : list R) (d : list Z) : R :=
  match xs, d with
  | x :: xs', k :: d' => powerRZ x k * dims_val xs' d'
  | _, _ => 1
  end.

Definition eval_mono (pi_ : R) (xs : list R) (m : mono) : R :=
  Q2R (coef m) * powerRZ pi_ (pi_exp m) * dims_val xs (dims m).

Lemma powerRZ_powerRZ : forall x m n, 0 < x -> powerRZ (powerRZ x m) n = powerRZ x (m * n).
Proof.
  intros x m n Hx.
  rewrite (powerRZ_Rpower (powerRZ x m)) by (now apply powerRZ_lt).
  rewrite (powerRZ_Rpower x m) by assumption.
  rewrite Rpower_mult, <- mult_IZR. symmetry. now apply powerRZ_Rpower.
Qed.

Lemma powerRZ_one : forall x, powerRZ x 1 = x.
Proof. intros x; unfold powerRZ; simpl; ring. Qed.

Lemma Q2R_Qred : forall q, Q2R (Qred q) = Q2R q.
Proof. intros q. apply Qeq_eqR. apply Qred_correct. Qed.

Lemma Q2R_one : Q2R 1 = 1.
Proof. unfold Q2R; cbn. lra. Qed.

Lemma Q2R_pos_nonzero : forall q, 0 < Q2R q -> ~ (q == 0)%Q.
Proof.
  intros q H E. apply Qeq_eqR in E. rewrite E in H. unfold Q2R in H; cbn in H. lra.
Qed.

Definition all_pos (xs : list R) : Prop := Forall (fun x => 0 < x) xs.

Lemma dims_val_pos : forall xs, all_pos xs -> forall d, 0 < dims_val xs d.
Proof.
  induction xs as [|x l IH]; intros Hp d; cbn; [lra|].
  inversion Hp as [|? ? Hx Hl]; subst.
  destruct d; [lra|]. apply Rmult_lt_0_compat; [now apply powerRZ_lt|now apply IH].
Qed.

Lemma dims_val_vadd : forall xs, all_pos xs ->
  forall a b, dims_val xs (vadd a b) = dims_val xs a * dims_val xs b.
Proof.
  induction xs as [|x l IH]; intros Hp a b.
  - destruct a, b; cbn; lra.
  - inversion Hp as [|? ? Hx Hl]; subst.
    destruct a as [|p a], b as [|q b]; cbn; try lra.
    rewrite (IH Hl), powerRZ_add by lra. ring.
Qed.

Lemma dims_val_scale : forall xs, all_pos xs -> forall d n,
  dims_val xs (map (fun m => (m * n)%Z) d) = powerRZ (dims_val xs d) n.
Proof.
  induction xs as [|x l IH]; intros Hp d n.
  - destruct d; cbn; now rewrite powerRZ_R1.
  - inversion Hp as [|? ? Hx Hl]; subst.
    destruct d as [|k d]; cbn; [now rewrite powerRZ_R1|].
    rewrite (IH Hl), powerRZ_mult, powerRZ_powerRZ by assumption. reflexivity.
Qed.

Lemma dims_val_zero : forall xs (A : Type) (l : list A),
  dims_val xs (map (fun _ => 0%Z) l) = 1.
Proof.
  induction xs as [|x l' IH]; intros A l.
  - destruct l; reflexivity.
  - destruct l as [|a l]; cbn; [reflexivity|]. rewrite IH. lra.
Qed.

Lemma dims_val_vunit_absent : forall env b,
  mem b (map fst env) = false -> dims_val (map snd env) (vunit (map fst env) b) = 1.
Proof.
  unfold vunit.
  induction env as [|[k v] env IH]; intros b H; cbn in *; [reflexivity|].
  apply orb_false_iff in H as [Hk Hr]. rewrite Hk. cbn. rewrite (IH _ Hr). lra.
Qed.

Lemma dims_val_vunit : forall (env : list (string * R)) b x,
  nodupb (map fst env) = true -> assoc b env = Some x ->
  dims_val (map snd env) (vunit (map fst env) b) = x.
Proof.
  induction env as [|[k v] env IH]; intros b x Hnd H; [discriminate|].
  pose proof dims_val_vunit_absent as Habs.
  unfold vunit in *. cbn in *.
  apply andb_true_iff in Hnd as [Hk Hr].
  destruct (String.eqb b k) eqn:E.
  - injection H as <-. apply String.eqb_eq in E; subst k.
    rewrite Habs by (now apply negb_true_iff). rewrite powerRZ_one. lra.
  - rewrite (IH _ _ Hr H). cbn. lra.
Qed.

Lemma mem_assoc : forall {A} (env : list (string * A)) b,
  mem b (map fst env) = true -> exists x, assoc b env = Some x.
Proof.
  induction env as [|[k v] env IH]; intros b H; cbn in *; [discriminate|].
  destruct (String.eqb b k); [eauto|]. cbn in H. auto.
Qed.

Lemma not_mem_assoc : forall {A} (env : list (string * A)) b,
  mem b (map fst env) = false -> assoc b env = None.
Proof.
  induction env as [|[k v] env IH]; intros b H; cbn in *; [reflexivity|].
  apply orb_false_iff in H as [Hk Hr]. rewrite Hk. auto.
Qed.

Section Mono.
  Variable pi_ : R.
  Hypothesis pi_pos : 0 < pi_.
  Variable derived : list (string * uexpr).
  Variable other : list string.
  Variable env : list (string * R).
  Hypothesis Henv : env_pos env.
  Hypothesis Hnd : nodupb (map fst env) = true.
  Notation ops := (ROps pi_).
  Notation bases := (map fst env).
  Notation xs := (map snd env).
  Notation ev := (eval_mono pi_ xs).

  Definition wf (m : mono) : Prop := 0 < Q2R (coef m).

  Lemma xs_pos : all_pos xs.
  Proof.
    unfold all_pos. clear Hnd. induction env as [|p l IH]; cbn; constructor;
      inversion Henv; subst; auto.
  Qed.

  Lemma ev_pos : forall m, wf m -> 0 < ev m.
  Proof.
    intros m H. unfold eval_mono. apply Rmult_lt_0_compat; [apply Rmult_lt_0_compat|].
    - exact H.
    - now apply powerRZ_lt.
    - apply dims_val_pos. apply xs_pos.
  Qed.

  Lemma ev_mul : forall a b, wf a -> wf b ->
    ev (mono_mul a b) = ev a * ev b /\ wf (mono_mul a b).
  Proof.
    intros a b Ha Hb. unfold eval_mono, wf, mono_mul; cbn [coef pi_exp dims].
    rewrite Q2R_Qred, Q2R_mult, powerRZ_add by lra.
    rewrite dims_val_vadd by apply xs_pos. split; [ring|].
    now apply Rmult_lt_0_compat.
  Qed.

  Lemma ev_pow : forall a n, wf a -> ev (mono_pow a n) = powerRZ (ev a) n /\ wf (mono_pow a n).
  Proof.
    intros a n Ha. unfold eval_mono, wf, mono_pow; cbn [coef pi_exp dims].
    rewrite Q2R_Qred, RMicromega.Q2RpowerRZ by (left; now apply Q2R_pos_nonzero).
    split; [|now apply powerRZ_lt].
    rewrite dims_val_scale by apply xs_pos.
    rewrite !powerRZ_mult, powerRZ_powerRZ by assumption. reflexivity.
  Qed.

  Lemma ev_one : ev (mono_one bases) = 1 /\ wf (mono_one bases).
  Proof.
    unfold eval_mono, wf, mono_one, vzero; cbn [coef pi_exp dims].
    rewrite dims_val_zero. rewrite Q2R_one. cbn [powerRZ]. split; lra.
  Qed.

  Lemma ev_base : forall b x, assoc b env = Some x ->
    ev (mono_base bases b) = x /\ wf (mono_base bases b).
  Proof.
    intros b x H. unfold eval_mono, wf, mono_base; cbn [coef pi_exp dims].
    rewrite (dims_val_vunit env b x Hnd H), Q2R_one. cbn [powerRZ]. split; lra.
  Qed.

  Lemma mono_of_sound : forall e m, mono_of bases e = Some m ->
    eval ops env e = Ok (ev m) /\ wf m.
  Proof.
    induction e as [b|q| |a IHa b IHb|a IHa b IHb|a IHa n]; intros m H; cbn in H.
    - destruct (mem b bases) eqn:Eb; [|discriminate]. injection H as <-.
      destruct (mem_assoc env b Eb) as [x Hx]. cbn. rewrite Hx.
      destruct (ev_base b x Hx) as [-> W]. auto.
    - destruct (0 <? Qnum q)%Z eqn:Eq; [|discriminate]. injection H as <-.
      apply Z.ltb_lt in Eq. unfold eval_mono, wf, vzero; cbn [coef pi_exp dims].
      rewrite dims_val_zero. rewrite Q2R_Qred. cbn [eval tofQ ROps powerRZ].
      split; [f_equal; ring|now apply Q2R_pos].
    - injection H as <-. unfold eval_mono, wf, vzero; cbn [coef pi_exp dims].
      rewrite dims_val_zero. rewrite Q2R_one, powerRZ_one. cbn [eval tpi ROps].
      split; [f_equal; ring|lra].
    - destruct (mono_of bases a) as [x|]; [|discriminate].
      destruct (mono_of bases b) as [y|]; [|discriminate]. injection H as <-.
      destruct (IHa _ eq_refl) as [Ea Wa]. destruct (IHb _ eq_refl) as [Eb Wb].
      cbn. rewrite Ea, Eb. cbn. destruct (ev_mul x y Wa Wb) as [-> W]. auto.
    - destruct (mono_of bases a) as [x|]; [|discriminate].
      destruct (mono_of bases b) as [y|]; [|discriminate]. injection H as <-.
      destruct (IHa _ eq_refl) as [Ea Wa]. destruct (IHb _ eq_refl) as [Eb Wb].
      cbn. rewrite Ea, Eb. cbn.
      destruct (ev_pow y (-1) Wb) as [Ep Wp].
      destruct (ev_mul x (mono_pow y (-1)) Wa Wp) as [-> W]. split; [|exact W].
      rewrite Ep. f_equal. pose proof (ev_pos y Wb) as Hy.
      remember (ev y) as ey. remember (ev x) as ex. unfold powerRZ. simpl. field. lra.
    - destruct (mono_of bases a) as [x|]; [|discriminate]. injection H as <-.
      destruct (IHa _ eq_refl) as [Ea Wa]. cbn. rewrite Ea. cbn.
      destruct (ev_pow x n Wa) as [-> W]. auto.
  Qed.

  Lemma mono_of_name_sound : forall name m, mono_of_name bases derived name = Some m ->
    getattr ops derived other env name = Ok (ev m) /\ wf m.
  Proof.
    intros name m H. unfold mono_of_name in H. unfold getattr.
    destruct (mem name bases) eqn:Eb.
    - injection H as <-. destruct (mem_assoc env name Eb) as [x Hx]. rewrite Hx.
      destruct (ev_base name x Hx) as [-> W]. auto.
    - rewrite (not_mem_assoc env name Eb).
      destruct (assoc name derived) as [e|]; [|discriminate]. now apply mono_of_sound.
  Qed.

  Lemma mono_of_sub_sound : forall sub m, mono_of_sub bases derived sub = Some m ->
    sub_factor ops derived other env sub = Ok (ev m) /\ wf m.
  Proof.
    intros sub m H. unfold mono_of_sub in H. unfold sub_factor.
    destruct (tokenize sub) as [s|s p|]; [now apply mono_of_name_sound| |discriminate].
    destruct (mono_of_name bases derived s) as [m0|] eqn:E0; [|discriminate].
    destruct (mono_of_name_sound _ _ E0) as [-> W0]. cbn.
    destruct (parse_float p) as [q| |]; try discriminate.
    destruct (Pos.eqb (Qden (Qred q)) 1) eqn:Ed; [|discriminate]. injection H as <-.
    apply Pos.eqb_eq in Ed. cbn.
    destruct (ev_pow m0 (Qnum (Qred q)) W0) as [-> W]. split; [|exact W].
    f_equal. rewrite powerRZ_Rpower by (now apply ev_pos). f_equal.
    rewrite <- (Q2R_Qred q). unfold Q2R. rewrite Ed. cbn. field.
  Qed.

  Lemma mono_of_subs_sound : forall subs m, mono_of_subs bases derived subs = Some m ->
    exists fs, factors pi_ derived other env subs = Ok fs /\ prod fs = ev m /\ wf m.
  Proof.
    induction subs as [|s r IH]; intros m H; cbn in H.
    - injection H as <-. exists []. destruct ev_one as [E W]. cbn. rewrite E. auto.
    - destruct (mono_of_sub bases derived s) as [a|] eqn:Ea; [|discriminate].
      destruct (mono_of_subs bases derived r) as [b|] eqn:Eb; [|discriminate].
      injection H as <-. destruct (mono_of_sub_sound _ _ Ea) as [Es Wa].
      destruct (IH _ eq_refl) as (fs & Ef & Ep & Wb).
      exists (ev a :: fs). cbn. rewrite Es. cbn. rewrite Ef. cbn.
      destruct (ev_mul a b Wa Wb) as [-> W]. rewrite Ep. auto.
  Qed.

  Lemma mono_of_units_sound : forall units m, mono_of_units bases derived units = Some m ->
    exists fs, unit_factors pi_ derived other env units = Ok fs /\ prod fs = ev m /\ wf m.
  Proof.
    intros units m H. unfold mono_of_units in H. unfold unit_factors.
    destruct (is_marker (strip_spaces units)); [|now apply mono_of_subs_sound].
    injection H as <-. exists []. destruct ev_one as [E W]. cbn. rewrite E. auto.
  Qed.

  Lemma mono_eqb_sound : forall a b, mono_eqb a b = true -> ev a = ev b.
  Proof.
    intros a b H. unfold mono_eqb in H.
    apply andb_true_iff in H as [H Hd]. apply andb_true_iff in H as [Hc Hp].
    apply Qeq_bool_iff, Qeq_eqR in Hc. apply Z.eqb_eq in Hp.
    assert (dims a = dims b) as Ed.
    { clear -Hd. revert Hd. generalize (dims a) (dims b).
      induction l as [|x l IH]; intros [|y l'] H; cbn in H; try discriminate; auto.
      apply andb_true_iff in H as [Hx Hl]. apply Z.eqb_eq in Hx. f_equal; auto. }
    unfold eval_mono. now rewrite Hc, Hp, Ed.
  Qed.
End Mono.

(* ------------------------------------------------------------------------------------ *)
(* E. the statements about the GENERATED tables (Gen/C43_tables.v, regenerated from        *)
(*    units.py / materials.py on every run)                                               *)
(* ------------------------------------------------------------------------------------ *)
From PP Require Import Gen.C43_tables.

(* a Units object as the theorems see it: one positive real per base unit *)
Definition valid_env (env : list (string * R)) : Prop :=
  map fst env = base_names /\ env_pos env.

Lemma gen_table_pos : table_pos derived_table = true.
Proof. vm_compute. reflexivity. Qed.

Lemma gen_bases_nodup : nodupb base_names = true.
Proof. vm_compute. reflexivity. Qed.

Lemma roundtrip_gen : forall pi_ env v units ts,
  0 < pi_ -> env_pos env ->
  (forall w, convert (ROps pi_) derived_table other_attrs env v units ts = Ok w ->
             convert (ROps pi_) derived_table other_attrs env w units (negb ts) = Ok v) /\
  (forall e v', convert (ROps pi_) derived_table other_attrs env v units ts = Err e ->
                convert (ROps pi_) derived_table other_attrs env v' units (negb ts) = Err e) /\
  (forall w, convert (ROps pi_) derived_table other_attrs env v units ts = Ok w ->
             length w = length v).
Proof.
  intros pi_ env v units ts Hpi Hp.
  exact (roundtrip_lemma pi_ Hpi derived_table other_attrs gen_table_pos env Hp v units ts).
Qed.

(* a unit string with a normal form never raises; it scales by the value of the normal
   form; two strings with the same normal form convert identically *)
Lemma dimension_lemma : forall pi_ env u1 m1,
  0 < pi_ -> valid_env env ->
  mono_of_units base_names derived_table u1 = Some m1 ->
  0 < eval_mono pi_ (map snd env) m1 /\
  (forall v ts, convert (ROps pi_) derived_table other_attrs env v u1 ts =
                Ok (apply_factor ts (eval_mono pi_ (map snd env) m1) v)) /\
  (forall u2 m2, mono_of_units base_names derived_table u2 = Some m2 ->
     mono_eqb m1 m2 = true ->
     forall v ts, convert (ROps pi_) derived_table other_attrs env v u1 ts =
                  convert (ROps pi_) derived_table other_attrs env v u2 ts).
Proof.
  intros pi_ env u1 m1 Hpi [Hk Hp] H1.
  assert (Hnd : nodupb (map fst env) = true) by (rewrite Hk; apply gen_bases_nodup).
  rewrite <- Hk in *.
  assert (forall u m, mono_of_units (map fst env) derived_table u = Some m ->
            0 < eval_mono pi_ (map snd env) m /\
            forall v ts, convert (ROps pi_) derived_table other_attrs env v u ts =
                         Ok (apply_factor ts (eval_mono pi_ (map snd env) m) v)) as Hone.
  { intros u m Hm.
    destruct (mono_of_units_sound pi_ Hpi derived_table other_attrs env Hp Hnd u m Hm)
      as (fs & Ef & Epr & W).
    split; [now apply ev_pos|].
    intros v ts. rewrite (convert_closed pi_ Hpi derived_table other_attrs gen_table_pos env Hp).
    rewrite Ef. cbn. now rewrite Epr. }
  destruct (Hone _ _ H1) as [P1 C1]. split; [exact P1|]. split; [exact C1|].
  intros u2 m2 H2 He v ts. destruct (Hone _ _ H2) as [P2 C2].
  rewrite C1, C2. now rewrite (mono_eqb_sound pi_ env m1 m2 He).
Qed.

(* value of a base unit in a Units object *)
Definition g (env : list (string * R)) (b : string) : R :=
  match assoc b env with Some x => x | None => 0 end.

Ltac split_env env Hk :=
  unfold base_names, base_units in Hk; cbn in Hk;
  repeat (destruct env as [|[? ?] env]; [discriminate Hk|]; cbn in Hk;
          injection Hk as ? Hk; subst);
  destruct env; [|discriminate Hk].

(* the derived units equal their base-unit expressions *)
Lemma derived_lemma : forall pi_ env, 0 < pi_ -> valid_env env ->
  let ga := getattr (ROps pi_) derived_table other_attrs env in
  ga "Pa" = Ok (g env "kg" / (g env "m" * (g env "s") ^ 2)) /\
  ga "J" = Ok (g env "kg" * (g env "m") ^ 2 / (g env "s") ^ 2) /\
  ga "N" = Ok (g env "kg" * g env "m" / (g env "s") ^ 2) /\
  ga "W" = Ok (g env "kg" * (g env "m") ^ 2 / (g env "s") ^ 3) /\
  ga "degree" = Ok (g env "rad" * 180 / pi_) /\
  (forall b, mem b base_names = true -> ga b = Ok (g env b)).
Proof.
  intros pi_ env Hpi [Hk Hp].
  assert (Hb : forall b, mem b base_names = true ->
             getattr (ROps pi_) derived_table other_attrs env b = Ok (g env b)).
  { intros b Hb. rewrite <- Hk in Hb. destruct (mem_assoc env b Hb) as [x Hx].
    unfold getattr, g. now rewrite Hx. }
  split_env env Hk.
  repeat match goal with H : env_pos (_ :: _) |- _ =>
    let a := fresh in let b := fresh in inversion H as [|? ? a b]; subst; clear H; cbn in a end.
  cbn. unfold g; cbn. unfold Q2R; cbn.
  repeat split; try (f_equal; field; lra). exact Hb.
Qed.

(* the unit strings that spell a derived unit over base units (and over each other)
   convert exactly as the derived unit does *)
Definition derived_spellings : list (string * string) :=
  [("Pa", "kg*m^-1*s^-2"); ("J", "kg*m^2*s^-2"); ("N", "kg*m*s^-2"); ("W", "kg*m^2*s^-3");
   ("Pa", "N * m^-2"); ("J", "N*m"); ("W", "J*s^-1"); ("Pa^-1", "m*s^2*kg^-1");
   ("J * kg^-1 * K^-1", "m^2*s^-2*K^-1"); ("W * m^-1 * K^-1", "kg*m*s^-3*K^-1")].

Definition same_mono (a b : string) : bool :=
  match mono_of_units base_names derived_table a, mono_of_units base_names derived_table b with
  | Some x, Some y => mono_eqb x y
  | _, _ => false
  end.

Lemma spellings_lemma : forall pi_ env, 0 < pi_ -> valid_env env ->
  Forall (fun ab => forall v ts,
            convert (ROps pi_) derived_table other_attrs env v (fst ab) ts =
            convert (ROps pi_) derived_table other_attrs env v (snd ab) ts) derived_spellings.
Proof.
  intros pi_ env Hpi Hv.
  assert (Hall : forallb (fun ab => same_mono (fst ab) (snd ab)) derived_spellings = true)
    by (vm_compute; reflexivity).
  rewrite forallb_forall in Hall. apply Forall_forall. intros [a b] Hin v ts.
  specialize (Hall _ Hin). unfold same_mono in Hall. cbn [fst snd] in *.
  destruct (mono_of_units base_names derived_table a) as [x|] eqn:Ea; [|discriminate].
  destruct (mono_of_units base_names derived_table b) as [y|] eqn:Eb; [|discriminate].
  destruct (dimension_lemma pi_ env a x Hpi Hv Ea) as (_ & _ & H). now apply (H b y).
Qed.

(* every entry of every generated SI_units table is a well-formed unit string: it has a
   normal form, hence (dimension_lemma) converting with it never raises *)
Lemma si_tables_lemma :
  forallb (fun ct => si_table_ok base_names derived_table (snd ct)) si_tables = true /\
  forallb (fun ne => match mono_of base_names (snd ne) with Some _ => true | None => false end)
          derived_table = true.
Proof. split; vm_compute; reflexivity. Qed.

Definition fields_declared (tab : list (string * string)) (cs : list (string * R)) : Prop :=
  Forall (fun kv => assoc (fst kv) tab <> None) cs.

Lemma constants_total : forall pi_ env tab cs ts, 0 < pi_ -> valid_env env ->
  si_table_ok base_names derived_table tab = true -> fields_declared tab cs ->
  exists cs', convert_constants (ROps pi_) derived_table other_attrs env tab cs ts = Ok cs'.
Proof.
  intros pi_ env tab cs ts Hpi Hv Hok. induction cs as [|[k v] r IH]; intros Hd.
  - exists []. reflexivity.
  - inversion Hd as [|? ? Hk Hr]; subst. cbn in Hk. cbn.
    destruct (assoc k tab) as [u|] eqn:Eu; [|congruence].
    unfold si_table_ok in Hok. rewrite forallb_forall in Hok.
    specialize (Hok _ (assoc_In _ _ _ Eu)). cbv beta iota in Hok.
    destruct (mono_of_units base_names derived_table u) as [m|] eqn:Em; [|discriminate].
    destruct (dimension_lemma pi_ env u m Hpi Hv Em) as (_ & Hc & _).
    rewrite Hc. cbn. destruct (IH Hr) as [r' ->]. cbn. eauto.
Qed.

(* material constants of every class of materials.py: construction in any unit system
   succeeds, keeps the SI values, and every attribute converts back to its SI value; the
   same after to_units to any other unit system *)
Lemma material_gen : forall pi_ env env' cls tab cs,
  0 < pi_ -> valid_env env -> valid_env env' ->
  In (cls, tab) si_tables -> fields_declared tab cs ->
  exists c c',
    make_constants (ROps pi_) derived_table other_attrs env tab cs = Ok c /\
    to_units (ROps pi_) derived_table other_attrs env' tab c = Ok c' /\
    in_SI c = cs /\ in_SI c' = cs /\
    convert_constants (ROps pi_) derived_table other_attrs env tab (attrs c) true = Ok cs /\
    convert_constants (ROps pi_) derived_table other_attrs env' tab (attrs c') true = Ok cs.
Proof.
  intros pi_ env env' cls tab cs Hpi Hv Hv' Hin Hd.
  destruct si_tables_lemma as [Hall _]. rewrite forallb_forall in Hall.
  specialize (Hall _ Hin). cbn in Hall.
  destruct (constants_total pi_ env tab cs false Hpi Hv Hall Hd) as [a Ea].
  destruct (constants_total pi_ env' tab cs false Hpi Hv' Hall Hd) as [a' Ea'].
  exists {| in_SI := cs; attrs := a |}, {| in_SI := cs; attrs := a' |}.
  unfold to_units, make_constants. cbn. rewrite Ea, Ea'. cbn.
  destruct Hv as [_ Hp], Hv' as [_ Hp'].
  repeat split; try reflexivity.
  - exact (constants_back pi_ Hpi derived_table other_attrs gen_table_pos env tab cs a Hp Ea).
  - exact (constants_back pi_ Hpi derived_table other_attrs gen_table_pos env' tab cs a' Hp' Ea').
Qed.
