(* C41 — proofs about the interpolation-table model (PP.Model.C41). *)
From Coq Require Import List ZArith QArith Qround Bool Lia Lqa.
Import ListNotations.
From PP Require Import Model.C41.
Open Scope Q_scope.


(* ------------------------------------------------------------ sums over Q *)
Lemma qsum_app l m : qsum (l ++ m) == qsum l + qsum m.
Proof. induction l as [|a l IH]; cbn [qsum app]; [ring | rewrite IH; ring]. Qed.

Lemma qsum_map_ext {A} (g g' : A -> Q) l :
  (forall a, In a l -> g a == g' a) -> qsum (map g l) == qsum (map g' l).
Proof.
  induction l as [|a l IH]; intros H; cbn [qsum map]; [reflexivity|].
  rewrite (H a (or_introl eq_refl)), IH; [reflexivity|]. intros; apply H; right; assumption.
Qed.

Lemma qsum_map_scale {A} (c : Q) (g : A -> Q) l :
  qsum (map (fun a => c * g a) l) == c * qsum (map g l).
Proof. induction l as [|a l IH]; cbn [qsum map]; [ring | rewrite IH; ring]. Qed.

(* ------------------------------------------------------------ generalized vertex sums *)
Definition pick (p : Q * Q) (i : Z) : Q := if (i =? 0)%Z then fst p else snd p.
Definition wprod (ws : list (Q * Q)) (inc : list Z) : Q := qprod (map2 pick ws inc).
Definition vert (lr : list (Q * Q)) (inc : list Z) : list Q := map2 pick lr inc.
Definition vsum (ws lr : list (Q * Q)) (g : list Q -> Q) : Q :=
  qsum (map (fun inc => wprod ws inc * g (vert lr inc)) (incrs (length ws))).

Lemma vsum_nil g : vsum [] [] g == g [].
Proof. unfold vsum, wprod, vert. cbn. ring. Qed.

Lemma vsum_cons w ws p lr g :
  vsum (w :: ws) (p :: lr) g ==
  fst w * vsum ws lr (fun v => g (fst p :: v)) + snd w * vsum ws lr (fun v => g (snd p :: v)).
Proof.
  unfold vsum. cbn [length incrs]. rewrite map_app, qsum_app, !map_map.
  rewrite <- !qsum_map_scale.
  apply Qplus_comp; apply qsum_map_ext; intros inc _; unfold wprod, vert; cbn [map2 qprod pick Z.eqb];
    ring.
Qed.

Lemma vsum_ext ws lr g g' : (forall v, g v == g' v) -> vsum ws lr g == vsum ws lr g'.
Proof. intros H. unfold vsum. apply qsum_map_ext. intros inc _. rewrite H. reflexivity. Qed.

(* f is affine in each variable separately (this also makes f respect == in each variable) *)
Definition sep_affine (f : list Q -> Q) : Prop :=
  forall pre post a b t x, x == (1 - t) * a + t * b ->
    f (pre ++ x :: post) == (1 - t) * f (pre ++ a :: post) + t * f (pre ++ b :: post).

(* per-axis interpolation data: weights (1-t, t), vertices (L, R), x = (1-t) L + t R *)
Inductive interp_ax : list (Q * Q) -> list (Q * Q) -> list Q -> Prop :=
| ia_nil : interp_ax [] [] []
| ia_cons w p x ws lr xs :
    fst w == 1 - snd w -> x == (1 - snd w) * fst p + snd w * snd p ->
    interp_ax ws lr xs -> interp_ax (w :: ws) (p :: lr) (x :: xs).

Lemma app_cons_assoc {A} (pre : list A) a v : pre ++ a :: v = (pre ++ [a]) ++ v.
Proof. rewrite <- app_assoc. reflexivity. Qed.

Lemma vsum_interp f : sep_affine f ->
  forall ws lr xs, interp_ax ws lr xs ->
  forall pre, vsum ws lr (fun v => f (pre ++ v)) == f (pre ++ xs).
Proof.
  intros Hf ws lr xs H. induction H as [|w p x ws lr xs Hw Hx _ IH]; intros pre.
  - apply vsum_nil.
  - rewrite vsum_cons.
    rewrite (vsum_ext ws lr (fun v => f (pre ++ fst p :: v)) (fun v => f ((pre ++ [fst p]) ++ v)))
      by (intros; rewrite app_cons_assoc; reflexivity).
    rewrite (vsum_ext ws lr (fun v => f (pre ++ snd p :: v)) (fun v => f ((pre ++ [snd p]) ++ v)))
      by (intros; rewrite app_cons_assoc; reflexivity).
    rewrite !IH, <- !app_cons_assoc, Hw. symmetry. apply Hf. exact Hx.
Qed.


(* ------------------------------------------------------------ column-major indexing *)
Lemma nth_error_block {X T Y} (g : X -> T -> Y) (a : list X) (tails : list T) k t xk tl :
  nth_error a k = Some xk -> nth_error tails t = Some tl ->
  nth_error (flat_map (fun tail => map (fun x => g x tail) a) tails) (k + length a * t)%nat
  = Some (g xk tl).
Proof.
  revert t. induction tails as [|t0 tails IH]; intros t Hk Ht.
  - destruct t; discriminate.
  - cbn [flat_map]. destruct t as [|t].
    + cbn in Ht. injection Ht as <-. rewrite Nat.mul_0_r, Nat.add_0_r.
      rewrite nth_error_app1.
      * rewrite nth_error_map, Hk. reflexivity.
      * rewrite map_length. apply nth_error_Some. congruence.
    + cbn in Ht. rewrite nth_error_app2; rewrite map_length; [|nia].
      replace (k + length a * S t - length a)%nat with (k + length a * t)%nat by nia.
      apply IH; assumption.
Qed.

Lemma length_flat_block {X T Y} (g : X -> T -> Y) (a : list X) (tails : list T) :
  length (flat_map (fun tail => map (fun x => g x tail) a) tails) = (length a * length tails)%nat.
Proof.
  induction tails as [|t0 tails IH]; cbn [flat_map length]; [lia|].
  rewrite app_length, map_length, IH. nia.
Qed.

Lemma zsum_strides_scale v : forall npt acc,
  zsum (map2 Z.mul v (strides_from acc npt)) = (acc * zsum (map2 Z.mul v (strides_from 1 npt)))%Z.
Proof.
  induction v as [|k v IH]; intros npt acc; [cbn; lia|].
  destruct npt as [|n npt]; [cbn; lia|].
  cbn [strides_from map2 zsum]. rewrite (IH npt (acc * n)%Z), (IH npt (1 * n)%Z). lia.
Qed.

(* vertex v of the grid (multi-index), its coordinates pt *)
Inductive vertex_at : list (list Q) -> list Z -> list Z -> list Q -> Prop :=
| va_nil : vertex_at [] [] [] []
| va_cons a axes n npt k v p pt :
    (0 <= k)%Z -> length a = Z.to_nat n -> nth_error a (Z.to_nat k) = Some p ->
    vertex_at axes npt v pt -> vertex_at (a :: axes) (n :: npt) (k :: v) (p :: pt).

Lemma vertex_index axes npt v pt : vertex_at axes npt v pt ->
  let idx := zsum (map2 Z.mul v (strides_from 1 npt)) in
  (0 <= idx)%Z /\ nth_error (fpoints axes) (Z.to_nat idx) = Some pt.
Proof.
  intros H. induction H as [|a axes n npt k v p pt Hk Hlen Hnth _ IH]; cbn zeta in *.
  - cbn. split; [lia|reflexivity].
  - destruct IH as [IH0 IH1].
    cbn [strides_from map2 zsum fpoints]. rewrite zsum_strides_scale.
    set (T := zsum (map2 Z.mul v (strides_from 1 npt))) in *.
    assert (Hn : (0 <= n)%Z).
    { destruct (Z_le_gt_dec 0 n) as [|Hneg]; [assumption|].
      assert (Hz : Z.to_nat n = 0%nat) by lia. rewrite Hz in Hlen. destruct a; [destruct (Z.to_nat k); discriminate|discriminate]. }
    split; [nia|].
    replace (Z.to_nat (k * 1 + 1 * n * T)) with (Z.to_nat k + length a * Z.to_nat T)%nat.
    + apply (nth_error_block (fun x tail => x :: tail)); assumption.
    + rewrite Hlen. rewrite <- Z2Nat.inj_mul, <- Z2Nat.inj_add by nia. f_equal. lia.
Qed.

Lemma length_fpoints axes npt v pt : vertex_at axes npt v pt ->
  (zsum (map2 Z.mul v (strides_from 1 npt)) < Z.of_nat (length (fpoints axes)))%Z.
Proof.
  intros H. pose proof (vertex_index _ _ _ _ H) as [H0 H1]. cbn zeta in *.
  assert (Hlt : (Z.to_nat (zsum (map2 Z.mul v (strides_from 1 npt))) < length (fpoints axes))%nat)
    by (apply nth_error_Some; congruence).
  lia.
Qed.

(* ------------------------------------------------------------ increments *)
Definition bit (i : Z) : Prop := i = 0%Z \/ i = 1%Z.

Lemma incrs_spec d inc : In inc (incrs d) -> length inc = d /\ Forall bit inc.
Proof.
  revert inc. induction d as [|d IH]; intros inc H; cbn [incrs] in H.
  - destruct H as [<-|[]]. split; [reflexivity|constructor].
  - apply in_app_or in H. destruct H as [H|H]; apply in_map_iff in H; destruct H as [i0 [<- H]];
      destruct (IH _ H) as [Hl Hb]; (split; [cbn; lia|constructor; [unfold bit; lia|assumption]]).
Qed.

Definition mkw (r : Q) : Q * Q := (1 - r, r).

Lemma axis_weight_pick r i : bit i -> axis_weight r i == pick (mkw r) i.
Proof. intros [->| ->]; unfold axis_weight, pick, mkw; cbn; ring. Qed.

Lemma qprod_weights rw : forall inc, Forall bit inc ->
  qprod (map2 axis_weight rw inc) == wprod (map mkw rw) inc.
Proof.
  induction rw as [|r rw IH]; intros inc Hb; [reflexivity|].
  destruct inc as [|i inc]; [reflexivity|]. inversion Hb as [|? ? Hi Hb']; subst.
  unfold wprod in *. cbn [map map2 qprod]. rewrite (IH inc Hb'), (axis_weight_pick r i Hi). reflexivity.
Qed.



(* ------------------------------------------------------------ loops as sums *)
Lemma pyget_some {A} (l : list A) i v : (0 <= i)%Z -> nth_error l (Z.to_nat i) = Some v -> pyget l i = ok v.
Proof. intros H0 H. unfold pyget. destruct (Z.ltb_spec i 0); [lia|]. rewrite H. reflexivity. Qed.

Lemma interp_loop_sum vals rw base strides (valof : list Z -> Q) incs :
  (forall inc, In inc incs ->
     let idx := lin_index base inc strides in
     (0 <= idx < Z.of_nat (length vals))%Z /\
     exists v, nth_error vals (Z.to_nat idx) = Some v /\ v == valof inc) ->
  forall acc, exists r, interp_loop vals rw base strides incs acc = inr r /\
    r == acc + qsum (map (fun inc => qprod (map2 axis_weight rw inc) * valof inc) incs).
Proof.
  induction incs as [|inc incs IH]; intros H acc.
  - exists acc. split; [reflexivity|cbn; ring].
  - destruct (H inc (or_introl eq_refl)) as [[H0 H1] [v [Hv Hvv]]]. cbn zeta in *.
    cbn [interp_loop]. destruct (Z.ltb_spec (lin_index base inc strides) (Z.of_nat (length vals))); [|lia].
    rewrite (pyget_some _ _ _ H0 Hv). cbn [bind].
    destruct (IH (fun i Hi => H i (or_intror Hi))
                 (Qred (acc + qprod (map2 axis_weight rw inc) * v))) as [r [Hr Hrr]].
    exists r. split; [exact Hr|]. rewrite Hrr, Qred_correct, Hvv. cbn [map qsum]. ring.
Qed.

Lemma grad_loop_sum vals rw base strides axis (valof : list Z -> Q) incs :
  (forall inc, In inc incs ->
     let idx := lin_index base inc strides in
     (0 <= idx)%Z /\ exists v, nth_error vals (Z.to_nat idx) = Some v /\ v == valof inc) ->
  forall acc, exists r, grad_loop vals rw base strides axis incs acc = inr r /\
    r == acc + qsum (map (fun inc =>
           qprod (set_nth axis (2 * inject_Z (nth axis inc 0%Z) - 1) (map2 axis_weight rw inc))
           * valof inc) incs).
Proof.
  induction incs as [|inc incs IH]; intros H acc.
  - exists acc. split; [reflexivity|cbn; ring].
  - destruct (H inc (or_introl eq_refl)) as [H0 [v [Hv Hvv]]]. cbn zeta in *.
    cbn [grad_loop]. rewrite (pyget_some _ _ _ H0 Hv). cbn [bind].
    destruct (IH (fun i Hi => H i (or_intror Hi))
      (Qred (acc + qprod (set_nth axis (2 * inject_Z (nth axis inc 0%Z) - 1) (map2 axis_weight rw inc)) * v)))
      as [r [Hr Hrr]].
    exists r. split; [exact Hr|]. rewrite Hrr, Qred_correct, Hvv. cbn [map qsum]. ring.
Qed.

(* ------------------------------------------------------------ the box and its cells *)
Inductive box : list Q -> list Q -> list Z -> list Q -> Prop :=
| box_nil : box [] [] [] []
| box_cons lo hi n x los his npt xs :
    lo < hi -> (2 <= n)%Z -> lo <= x -> x <= hi -> box los his npt xs ->
    box (lo :: los) (hi :: his) (n :: npt) (x :: xs).

Definition Lr (lo hi : Q) (n b : Z) : Q * Q :=
  (lo + inject_Z b * hstep lo hi n, lo + inject_Z (b + 1) * hstep lo hi n).

Fixpoint LRs (los his : list Q) (npt bs : list Z) : list (Q * Q) :=
  match los, his, npt, bs with
  | lo :: los', hi :: his', n :: npt', b :: bs' => Lr lo hi n b :: LRs los' his' npt' bs'
  | _, _, _, _ => []
  end.

Inductive cells : list Q -> list Q -> list Z -> list Q -> list Z -> Prop :=
| cells_nil : cells [] [] [] [] []
| cells_cons lo hi n x b los his npt xs bs :
    lo < hi -> (2 <= n)%Z -> (0 <= b <= n - 2)%Z ->
    fst (Lr lo hi n b) <= x -> x <= snd (Lr lo hi n b) ->
    cells los his npt xs bs ->
    cells (lo :: los) (hi :: his) (n :: npt) (x :: xs) (b :: bs).

Lemma hstep_pos lo hi n : lo < hi -> (2 <= n)%Z -> 0 < hstep lo hi n /\ inject_Z (n - 1) * hstep lo hi n == hi - lo.
Proof.
  intros Hlh Hn. unfold hstep.
  assert (Hp : 0 < inject_Z (n - 1)) by (rewrite <- (Zlt_Qlt 0); lia).
  split.
  - apply Qlt_shift_div_l; [assumption|]. lra.
  - field. intro H. rewrite H in Hp. apply (Qlt_irrefl 0). exact Hp.
Qed.

Lemma Qltb_false a b : b <= a -> Qltb a b = false.
Proof. intros H. unfold Qltb. apply Qle_bool_iff in H. rewrite H. reflexivity. Qed.

Lemma base_axis_ok x lo hi n : lo < hi -> (2 <= n)%Z -> lo <= x -> x <= hi ->
  exists b, base_axis x (hstep lo hi n) lo hi n = ok b /\ (0 <= b <= n - 2)%Z /\
            fst (Lr lo hi n b) <= x /\ x <= snd (Lr lo hi n b).
Proof.
  intros Hlh Hn Hl Hu. destruct (hstep_pos lo hi n Hlh Hn) as [Hh Hnh].
  set (h := hstep lo hi n) in *.
  unfold base_axis. rewrite (Qltb_false x lo Hl), (Qltb_false hi x Hu). cbn [orb].
  set (q := (x - lo) / h).
  assert (Hq : q * h == x - lo) by (unfold q; field; lra).
  assert (Hq0 : 0 <= q) by (unfold q; apply Qle_shift_div_l; [assumption|lra]).
  pose proof (Qfloor_le q) as Hf1. pose proof (Qlt_floor q) as Hf2.
  assert (Hfl0 : (0 <= Qfloor q)%Z).
  { change 0%Z with (Qfloor 0). apply Qfloor_resp_le. exact Hq0. }
  eexists. split; [reflexivity|]. unfold Lr. fold h. cbn [fst snd].
  rewrite inject_Z_plus. change (inject_Z 1) with 1.
  destruct (Z.min_spec (Qfloor q) (n - 2)) as [[Hlt ->]|[Hge ->]].
  - split; [lia|]. rewrite inject_Z_plus in Hf2. change (inject_Z 1) with 1 in Hf2.
    set (fq := inject_Z (Qfloor q)) in *. split; nra.
  - split; [lia|].
    assert (Hle : inject_Z (n - 2) <= inject_Z (Qfloor q)) by (rewrite <- Zle_Qle; lia).
    assert (Hn1 : inject_Z (n - 1) == inject_Z (n - 2) + 1).
    { replace (n - 1)%Z with ((n - 2) + 1)%Z by lia. rewrite inject_Z_plus. reflexivity. }
    rewrite Hn1 in Hnh.
    set (fq := inject_Z (Qfloor q)) in *. set (m := inject_Z (n - 2)) in *. split; nra.
Qed.

Lemma find_base_cells los his npt xs : box los his npt xs ->
  exists bs, find_base xs (map3 hstep los his npt) los his npt = ok bs /\ cells los his npt xs bs.
Proof.
  intros H. induction H as [|lo hi n x los his npt xs Hlh Hn Hl Hu _ [bs [Hbs Hc]]].
  - exists []. split; [reflexivity|constructor].
  - destruct (base_axis_ok x lo hi n Hlh Hn Hl Hu) as [b [Hb [Hb1 [Hb2 Hb3]]]].
    exists (b :: bs). split.
    + cbn [map3 find_base]. rewrite Hb. cbn [bind ok]. rewrite Hbs. reflexivity.
    + constructor; assumption.
Qed.

Lemma cells_length los his npt xs bs : cells los his npt xs bs ->
  length los = length xs /\ length bs = length xs.
Proof. induction 1; cbn; [split; reflexivity | lia]. Qed.

(* ------------------------------------------------------------ linspace *)
Lemma nth_error_seq s m j : (j < m)%nat -> nth_error (seq s m) j = Some (s + j)%nat.
Proof.
  revert s j. induction m as [|m IH]; intros s j Hj; [lia|].
  destruct j as [|j]; cbn [seq nth_error]; [f_equal; lia|]. rewrite IH by lia. f_equal. lia.
Qed.

Lemma linspace_nth lo hi n k : (0 <= k < n)%Z ->
  nth_error (linspace lo hi n) (Z.to_nat k) = Some (lo + inject_Z k * hstep lo hi n).
Proof.
  intros Hk. unfold linspace. rewrite nth_error_map, nth_error_seq by lia. cbn [option_map plus].
  rewrite Z2Nat.id by lia. reflexivity.
Qed.

Lemma linspace_length lo hi n : length (linspace lo hi n) = Z.to_nat n.
Proof. unfold linspace. rewrite map_length, seq_length. reflexivity. Qed.

(* ------------------------------------------------------------ weights *)
Lemma weight_band r : 0 <= r -> r <= 1 -> Qle_bool (- tol13) r && Qle_bool r (1 + tol13) = true.
Proof.
  intros H0 H1. apply andb_true_intro. split; apply Qle_bool_iff; unfold tol13.
  - apply Qle_trans with 0; [discriminate|assumption].
  - apply Qle_trans with 1; [assumption|discriminate].
Qed.

Lemma right_weights_cells los his npt xs bs : cells los his npt xs bs ->
  exists rws, right_weights xs (map3 linspace los his npt) (map3 hstep los his npt) bs = ok rws /\
    weights_ok rws = true /\ length rws = length xs /\
    interp_ax (map mkw rws) (LRs los his npt bs) xs.
Proof.
  intros H. induction H as [|lo hi n x b los his npt xs bs Hlh Hn Hb HL HR _ [rws [Hr [Hok [Hlen Hia]]]]].
  - exists []. repeat split; constructor.
  - destruct (hstep_pos lo hi n Hlh Hn) as [Hh Hnh].
    eexists. split; [|split; [|split]].
    + cbn [map3 right_weights]. rewrite (pyget_some _ b _ (proj1 Hb) (linspace_nth lo hi n b ltac:(lia))).
      cbn [bind ok]. rewrite Hr. reflexivity.
    + unfold Lr in HL, HR. cbn [fst snd] in HL, HR.
      rewrite inject_Z_plus in HR. change (inject_Z 1) with 1 in HR.
      cbn [weights_ok forallb]. fold (weights_ok rws). rewrite Hok, andb_true_r.
      set (h := hstep lo hi n) in *. set (bq := inject_Z b) in *.
      assert (Hrw : Qred ((x - (lo + bq * h)) / h) * h == x - (lo + bq * h))
        by (rewrite Qred_correct; field; lra).
      apply weight_band; set (r := Qred ((x - (lo + bq * h)) / h)) in *; nra.
    + cbn [length]. rewrite Hlen. reflexivity.
    + cbn [map LRs]. constructor; [reflexivity| |exact Hia].
      unfold mkw, Lr. cbn [fst snd]. rewrite Qred_correct, inject_Z_plus. change (inject_Z 1) with 1.
      field. lra.
Qed.

(* every corner of the cell is a grid vertex whose coordinates are the picked L/R *)
Lemma vertex_cells los his npt xs bs : cells los his npt xs bs ->
  forall inc, length inc = length xs -> Forall bit inc ->
  vertex_at (map3 linspace los his npt) npt (map2 Z.add bs inc) (vert (LRs los his npt bs) inc).
Proof.
  intros H. induction H as [|lo hi n x b los his npt xs bs Hlh Hn Hb HL HR _ IH]; intros inc Hl Hbit.
  - destruct inc; [constructor|discriminate].
  - destruct inc as [|i inc]; [discriminate|]. inversion Hbit as [|? ? Hi Hbit']; subst.
    cbn [map3 map2 LRs]. unfold vert. cbn [map2]. fold (vert (LRs los his npt bs) inc).
    constructor.
    + destruct Hi; lia.
    + apply linspace_length.
    + rewrite linspace_nth by (destruct Hi; lia).
      destruct Hi as [-> | ->]; unfold pick, Lr; cbn [Z.eqb fst snd]; [rewrite Z.add_0_r|]; reflexivity.
    + apply IH; [cbn in Hl; lia|assumption].
Qed.

(* values stored at the corners of the cell *)
Lemma table_corner f los his npt xs bs : cells los his npt xs bs ->
  forall inc, In inc (incrs (length los)) ->
  let t := mk_table los his npt f in
  let idx := lin_index bs inc (t_strides t) in
  (0 <= idx < Z.of_nat (length (t_vals t)))%Z /\
  exists v, nth_error (t_vals t) (Z.to_nat idx) = Some v /\ v == f (vert (LRs los his npt bs) inc).
Proof.
  intros Hc inc Hin. destruct (cells_length _ _ _ _ _ Hc) as [Hl1 Hl2].
  destruct (incrs_spec _ _ Hin) as [Hli Hbi]. rewrite Hl1 in Hli.
  pose proof (vertex_cells _ _ _ _ _ Hc inc Hli Hbi) as Hv.
  pose proof (vertex_index _ _ _ _ Hv) as [H0 Hn]. pose proof (length_fpoints _ _ _ _ Hv) as Hlt.
  cbn zeta in *. unfold mk_table, lin_index. cbn [t_strides t_vals]. rewrite map_length.
  split; [lia|].
  eexists. split; [rewrite nth_error_map, Hn; reflexivity|]. apply Qred_correct.
Qed.

Lemma interpolate_vsum f los his npt xs : box los his npt xs ->
  exists bs rws r, cells los his npt xs bs /\
    find_base xs (map3 hstep los his npt) los his npt = ok bs /\
    right_weights xs (map3 linspace los his npt) (map3 hstep los his npt) bs = ok rws /\
    interp_ax (map mkw rws) (LRs los his npt bs) xs /\
    interpolate (mk_table los his npt f) xs = inr r /\
    r == vsum (map mkw rws) (LRs los his npt bs) f.
Proof.
  intros Hbox. destruct (find_base_cells _ _ _ _ Hbox) as [bs [Hfb Hc]].
  destruct (right_weights_cells _ _ _ _ _ Hc) as [rws [Hrw [Hok [Hlen Hia]]]].
  destruct (cells_length _ _ _ _ _ Hc) as [Hl1 Hl2].
  destruct (interp_loop_sum (t_vals (mk_table los his npt f)) rws bs
              (t_strides (mk_table los his npt f))
              (fun inc => f (vert (LRs los his npt bs) inc)) (incrs (length los))
              (table_corner f _ _ _ _ _ Hc) 0) as [r [Hr Hrr]].
  exists bs, rws, r. split; [exact Hc|]. split; [exact Hfb|]. split; [exact Hrw|]. split; [exact Hia|]. split.
  - unfold interpolate, mk_table. cbn [t_h t_low t_high t_npt t_axes t_vals t_strides]. unfold mk_table in Hr. cbn [t_vals t_strides] in Hr.
    rewrite Hfb. cbn [bind ok]. rewrite Hrw. cbn [bind ok]. rewrite Hok. exact Hr.
  - rewrite Hrr, Qplus_0_l. unfold vsum. rewrite map_length, Hlen, <- Hl1.
    apply qsum_map_ext. intros inc Hin. destruct (incrs_spec _ _ Hin) as [_ Hb].
    rewrite (qprod_weights rws inc Hb). reflexivity.
Qed.

(* THEOREM 1: exact reproduction of functions affine in each variable, on the closed box *)
Lemma interpolate_exact f los his npt xs : sep_affine f -> box los his npt xs ->
  exists r, interpolate (mk_table los his npt f) xs = inr r /\ r == f xs.
Proof.
  intros Hf Hbox. destruct (interpolate_vsum f _ _ _ _ Hbox) as [bs [rws [r [Hc [_ [_ [Hia [Hr Hrr]]]]]]]].
  exists r. split; [exact Hr|]. rewrite Hrr. apply (vsum_interp f Hf _ _ _ Hia []).
Qed.

(* ------------------------------------------------------------ gradient *)
Lemma qprod_grad_weights rw : forall axis inc, Forall bit inc -> length inc = length rw ->
  (axis < length rw)%nat ->
  qprod (set_nth axis (2 * inject_Z (nth axis inc 0%Z) - 1) (map2 axis_weight rw inc))
  == wprod (set_nth axis (-(1), 1) (map mkw rw)) inc.
Proof.
  induction rw as [|r rw IH]; intros axis inc Hb Hl Ha; [cbn in Ha; lia|].
  destruct inc as [|i inc]; [discriminate|]. inversion Hb as [|? ? Hi Hb']; subst.
  destruct axis as [|axis].
  - cbn [map map2 set_nth nth]. unfold wprod. cbn [map2 qprod].
    fold (wprod (map mkw rw) inc). rewrite (qprod_weights rw inc Hb').
    destruct Hi as [-> | ->]; unfold pick, inject_Z; cbn [Z.eqb fst snd]; ring.
  - cbn [map map2 set_nth nth]. unfold wprod. cbn [map2 qprod].
    fold (wprod (set_nth axis (-(1), 1) (map mkw rw)) inc).
    rewrite <- (IH axis inc Hb') by (cbn in Hl, Ha; lia).
    rewrite (axis_weight_pick r i Hi). reflexivity.
Qed.

Lemma set_nth_length {A} (l : list A) : forall k v, length (set_nth k v l) = length l.
Proof. induction l as [|a l IH]; intros [|k] v; cbn; try reflexivity. rewrite IH. reflexivity. Qed.

Lemma vsum_grad f : sep_affine f ->
  forall ws lr xs, interp_ax ws lr xs ->
  forall axis pre dflt, (axis < length xs)%nat ->
    vsum (set_nth axis (-(1), 1) ws) lr (fun v => f (pre ++ v)) ==
    f (pre ++ set_nth axis (snd (nth axis lr dflt)) xs) - f (pre ++ set_nth axis (fst (nth axis lr dflt)) xs).
Proof.
  intros Hf ws lr xs H. induction H as [|w p x ws lr xs Hw Hx Hia IH]; intros axis pre dflt Ha;
    [cbn in Ha; lia|].
  destruct axis as [|axis]; cbn [set_nth nth]; rewrite vsum_cons; cbn [fst snd].
  - rewrite (vsum_ext ws lr (fun v => f (pre ++ fst p :: v)) (fun v => f ((pre ++ [fst p]) ++ v)))
      by (intros; rewrite app_cons_assoc; reflexivity).
    rewrite (vsum_ext ws lr (fun v => f (pre ++ snd p :: v)) (fun v => f ((pre ++ [snd p]) ++ v)))
      by (intros; rewrite app_cons_assoc; reflexivity).
    rewrite !(vsum_interp f Hf ws lr xs Hia), <- !app_cons_assoc. ring.
  - rewrite (vsum_ext _ lr (fun v => f (pre ++ fst p :: v)) (fun v => f ((pre ++ [fst p]) ++ v)))
      by (intros; rewrite app_cons_assoc; reflexivity).
    rewrite (vsum_ext _ lr (fun v => f (pre ++ snd p :: v)) (fun v => f ((pre ++ [snd p]) ++ v)))
      by (intros; rewrite app_cons_assoc; reflexivity).
    rewrite !(IH axis _ dflt ltac:(cbn in Ha; lia)), <- !app_cons_assoc.
    rewrite (Hf pre (set_nth axis (snd (nth axis lr dflt)) xs) (fst p) (snd p) (snd w) x Hx).
    rewrite (Hf pre (set_nth axis (fst (nth axis lr dflt)) xs) (fst p) (snd p) (snd w) x Hx).
    rewrite Hw. ring.
Qed.

Lemma cells_axis los his npt xs bs : cells los his npt xs bs ->
  forall axis dflt, (axis < length xs)%nat ->
  exists lo hi n b,
    nth_error los axis = Some lo /\ nth_error his axis = Some hi /\ nth_error npt axis = Some n /\
    lo < hi /\ (2 <= n)%Z /\ (0 <= b <= n - 2)%Z /\
    nth axis (LRs los his npt bs) dflt = Lr lo hi n b /\
    nth_error (map3 hstep los his npt) axis = Some (hstep lo hi n).
Proof.
  intros H. induction H as [|lo hi n x b los his npt xs bs Hlh Hn Hb HL HR _ IH]; intros axis dflt Ha;
    [cbn in Ha; lia|].
  destruct axis as [|axis].
  - exists lo, hi, n, b. repeat split; try reflexivity; try assumption; lia.
  - destruct (IH axis dflt ltac:(cbn in Ha; lia)) as [lo' [hi' [n' [b' H']]]].
    exists lo', hi', n', b'. exact H'.
Qed.

Lemma gradient_vsum f los his npt xs axis : box los his npt xs -> (axis < length xs)%nat ->
  exists bs rws s ha, cells los his npt xs bs /\
    find_base xs (map3 hstep los his npt) los his npt = ok bs /\
    right_weights xs (map3 linspace los his npt) (map3 hstep los his npt) bs = ok rws /\
    interp_ax (map mkw rws) (LRs los his npt bs) xs /\
    nth_error (map3 hstep los his npt) axis = Some ha /\
    gradient (mk_table los his npt f) xs axis = inr (s / ha) /\
    s == vsum (set_nth axis (-(1), 1) (map mkw rws)) (LRs los his npt bs) f.
Proof.
  intros Hbox Ha. destruct (find_base_cells _ _ _ _ Hbox) as [bs [Hfb Hc]].
  destruct (right_weights_cells _ _ _ _ _ Hc) as [rws [Hrw [Hok [Hlen Hia]]]].
  destruct (cells_length _ _ _ _ _ Hc) as [Hl1 Hl2].
  destruct (cells_axis _ _ _ _ _ Hc axis (0, 0) Ha) as [lo [hi [n [b [E1 [E2 [E3 [Hlh [Hn [Hb [ELr Eh]]]]]]]]]]].
  destruct (grad_loop_sum (t_vals (mk_table los his npt f)) rws bs
              (t_strides (mk_table los his npt f)) axis
              (fun inc => f (vert (LRs los his npt bs) inc)) (incrs (length los))) with (acc := 0)
    as [s [Hs Hss]].
  { intros inc Hin. destruct (table_corner f _ _ _ _ _ Hc inc Hin) as [[H0 _] Hv]. split; assumption. }
  exists bs, rws, s, (hstep lo hi n).
  split; [exact Hc|]. split; [exact Hfb|]. split; [exact Hrw|]. split; [exact Hia|]. split; [exact Eh|]. split.
  - unfold gradient, mk_table. cbn [t_h t_low t_high t_npt t_axes t_vals t_strides].
    unfold mk_table in Hs. cbn [t_vals t_strides] in Hs.
    rewrite Hfb. cbn [bind ok]. rewrite Hrw. cbn [bind ok]. rewrite Hok, Hs. cbn [bind ok].
    rewrite Eh. reflexivity.
  - rewrite Hss, Qplus_0_l.
    unfold vsum. rewrite set_nth_length, map_length, Hlen, <- Hl1.
    apply qsum_map_ext. intros inc Hin. destruct (incrs_spec _ _ Hin) as [Hli Hbi].
    rewrite (qprod_grad_weights rws axis inc Hbi) by lia. reflexivity.
Qed.

(* the gradient is the difference quotient of f over the cell along the axis *)
Lemma gradient_cell f los his npt xs axis : sep_affine f -> box los his npt xs ->
  (axis < length xs)%nat ->
  exists g lo hi n b,
    gradient (mk_table los his npt f) xs axis = inr g /\
    nth_error los axis = Some lo /\ nth_error his axis = Some hi /\ nth_error npt axis = Some n /\
    lo < hi /\ (2 <= n)%Z /\
    g == (f (set_nth axis (snd (Lr lo hi n b)) xs) - f (set_nth axis (fst (Lr lo hi n b)) xs))
         / hstep lo hi n.
Proof.
  intros Hf Hbox Ha.
  destruct (gradient_vsum f _ _ _ _ axis Hbox Ha) as [bs [rws [s [ha [Hc [_ [_ [Hia [Eh' [Hg Hs]]]]]]]]]].
  destruct (cells_axis _ _ _ _ _ Hc axis (0, 0) Ha) as [lo [hi [n [b [E1 [E2 [E3 [Hlh [Hn [Hb [ELr Eh]]]]]]]]]]].
  rewrite Eh in Eh'. injection Eh' as <-.
  exists (s / hstep lo hi n), lo, hi, n, b.
  split; [exact Hg|repeat split; try assumption].
  apply Qdiv_comp; [|reflexivity]. rewrite Hs, <- ELr.
  rewrite <- (vsum_grad f Hf _ _ _ Hia axis [] (0, 0) Ha). cbn [app]. reflexivity.
Qed.

Lemma set_nth_split {A} (l : list A) : forall k, (k < length l)%nat ->
  exists pre post, forall v, set_nth k v l = pre ++ v :: post.
Proof.
  induction l as [|a l IH]; intros k Hk; [cbn in Hk; lia|].
  destruct k as [|k]; [exists [], l; reflexivity|].
  destruct (IH k ltac:(cbn in Hk; lia)) as [pre [post H]].
  exists (a :: pre), post. intros v. cbn [set_nth app]. rewrite H. reflexivity.
Qed.

(* THEOREM 2: for f affine in each variable the gradient is the exact partial derivative:
   the difference quotient of f along the axis between ANY two abscissae *)
Lemma gradient_exact f los his npt xs axis : sep_affine f -> box los his npt xs ->
  (axis < length xs)%nat ->
  exists g, gradient (mk_table los his npt f) xs axis = inr g /\
    forall a c, ~ a == c -> g == (f (set_nth axis c xs) - f (set_nth axis a xs)) / (c - a).
Proof.
  intros Hf Hbox Ha.
  destruct (gradient_cell f _ _ _ _ axis Hf Hbox Ha) as [g [lo [hi [n [b [Hg [_ [_ [_ [Hlh [Hn Hgg]]]]]]]]]]].
  exists g. split; [exact Hg|]. intros a c Hac.
  destruct (hstep_pos lo hi n Hlh Hn) as [Hh _].
  destruct (set_nth_split xs axis Ha) as [pre [post Hsp]].
  rewrite Hgg, !Hsp. unfold Lr. cbn [fst snd]. rewrite inject_Z_plus. change (inject_Z 1) with 1.
  set (h := hstep lo hi n) in *. set (L := lo + inject_Z b * h).
  assert (Hca : ~ c - a == 0) by (intro E; apply Hac; lra).
  rewrite (Hf pre post a c ((L - a) / (c - a)) L) by (field; exact Hca).
  rewrite (Hf pre post a c ((L + h - a) / (c - a)) (lo + (inject_Z b + 1) * h))
    by (unfold L; field; exact Hca).
  field. split; [exact Hca|lra].
Qed.

(* ------------------------------------------------------------ the lazily filled store *)
Lemma list_Zeqb_eq a : forall b, list_Zeqb a b = true -> a = b.
Proof.
  unfold list_Zeqb. induction a as [|x a IH]; intros [|y b] H; cbn in H; try reflexivity; try discriminate.
  apply andb_prop in H. destruct H as [Hl H]. apply andb_prop in H. destruct H as [Hxy H].
  apply Z.eqb_eq in Hxy. subst. f_equal. apply IH. rewrite Hl, H. reflexivity.
Qed.

Lemma list_Zeqb_refl a : list_Zeqb a a = true.
Proof.
  unfold list_Zeqb. induction a as [|x a IH]; [reflexivity|]. cbn.
  apply andb_prop in IH. destruct IH as [Hl H]. cbn in Hl. rewrite Hl, Z.eqb_refl, H. reflexivity.
Qed.

Definition Inv (f : list Q -> Q) (h base : list Q) (s : list entry) : Prop :=
  forall k e, lookup s k = Some e ->
    e_idx e = k /\ e_pt e = vertex_coord h base k /\ e_val e = Qred (f (vertex_coord h base k)).

Lemma lookup_app s e k :
  lookup (s ++ [e]) k =
  match lookup s k with Some x => Some x | None => if list_Zeqb (e_idx e) k then Some e else None end.
Proof.
  induction s as [|e0 s IH]; cbn [app lookup]; [reflexivity|].
  destruct (list_Zeqb (e_idx e0) k); [reflexivity|exact IH].
Qed.

Lemma fill_loop_spec f h base b incs : forall s, Inv f h base s ->
  let s' := fill_loop f h base b incs s in
  Inv f h base s' /\
  (forall k e, lookup s k = Some e -> lookup s' k = Some e) /\
  (forall inc, In inc incs -> exists e, lookup s' (map2 Z.add b inc) = Some e).
Proof.
  induction incs as [|inc0 incs IH]; intros s HI; cbn zeta.
  - cbn [fill_loop]. split; [exact HI|]. split; [auto|]. intros inc [].
  - cbn [fill_loop]. destruct (lookup s (map2 Z.add b inc0)) as [e0|] eqn:E0.
    + destruct (IH s HI) as [I1 [I2 I3]]. split; [exact I1|]. split; [exact I2|].
      intros inc [<-|Hin]; [exists e0; apply I2; exact E0|apply I3; exact Hin].
    + set (k0 := map2 Z.add b inc0) in *.
      set (new := {| e_idx := k0; e_pt := vertex_coord h base k0; e_val := Qred (f (vertex_coord h base k0)) |}).
      assert (HI1 : Inv f h base (s ++ [new])).
      { intros k e Hk. rewrite lookup_app in Hk. destruct (lookup s k) as [x|] eqn:Ek.
        - injection Hk as <-. apply HI. exact Ek.
        - destruct (list_Zeqb (e_idx new) k) eqn:Eq; [|discriminate]. injection Hk as <-.
          apply list_Zeqb_eq in Eq. cbn [e_idx new] in Eq. subst k. repeat split. }
      destruct (IH (s ++ [new]) HI1) as [I1 [I2 I3]]. split; [exact I1|]. split.
      * intros k e Hk. apply I2. rewrite lookup_app, Hk. reflexivity.
      * intros inc [<-|Hin]; [|apply I3; exact Hin]. exists new. apply I2.
        rewrite lookup_app. fold k0. rewrite E0. cbn [e_idx new]. rewrite list_Zeqb_refl. reflexivity.
Qed.

Lemma ainterp_loop_sum s rw b axis (valof : list Z -> Q) incs :
  (forall inc, In inc incs -> exists e, lookup s (map2 Z.add b inc) = Some e /\ e_val e == valof inc) ->
  forall acc, exists r, ainterp_loop s rw b axis incs acc = inr r /\
    r == acc + qsum (map (fun inc =>
           qprod (match axis with
                  | None => map2 axis_weight rw inc
                  | Some ax => set_nth ax (2 * inject_Z (nth ax inc 0%Z) - 1) (map2 axis_weight rw inc)
                  end) * valof inc) incs).
Proof.
  induction incs as [|inc incs IH]; intros H acc.
  - exists acc. split; [reflexivity|cbn; ring].
  - destruct (H inc (or_introl eq_refl)) as [e [He Hv]].
    cbn [ainterp_loop]. rewrite He.
    match goal with |- exists r, ainterp_loop _ _ _ _ _ ?A = _ /\ _ =>
      destruct (IH (fun i Hi => H i (or_intror Hi)) A) as [r [Hr Hrr]] end.
    exists r. split; [exact Hr|]. rewrite Hrr, Qred_correct, Hv. cbn [map qsum]. ring.
Qed.

(* ------------------------------------------------------------ per-axis data of the adaptive table *)
Inductive acells : list Q -> list Q -> list Q -> Prop :=
| ac_nil : acells [] [] []
| ac_cons x h base xs hs bases : 0 < h -> acells xs hs bases -> acells (x :: xs) (h :: hs) (base :: bases).

Definition LRA (h base : list Q) (b : list Z) : list (Q * Q) :=
  map3 (fun hi bi ki => (bi + hi * inject_Z ki, bi + hi * inject_Z (ki + 1))) h base b.

Lemma acells_length xs hs bases : acells xs hs bases -> length hs = length xs /\ length bases = length xs.
Proof. induction 1; cbn; [split; reflexivity|lia]. Qed.

Lemma aweights_spec xs hs bases : acells xs hs bases ->
  let b := afind_base xs hs bases in
  let rws := map3 (fun xi pi hi => Qred ((xi - pi) / hi)) xs (vertex_coord hs bases b) hs in
  length b = length xs /\ length rws = length xs /\ weights_ok rws = true /\
  interp_ax (map mkw rws) (LRA hs bases b) xs.
Proof.
  intros H. induction H as [|x h base xs hs bases Hh _ IH]; cbn zeta in *.
  - repeat split; constructor.
  - destruct IH as [L1 [L2 [Hok Hia]]].
    unfold afind_base, vertex_coord, LRA. cbn [map3 map length].
    fold (afind_base xs hs bases). fold (vertex_coord hs bases (afind_base xs hs bases)).
    fold (LRA hs bases (afind_base xs hs bases)).
    set (q := (x - base) / h).
    assert (Hq : q * h == x - base) by (unfold q; field; lra).
    pose proof (Qfloor_le q) as Hf1. pose proof (Qlt_floor q) as Hf2.
    rewrite inject_Z_plus in Hf2. change (inject_Z 1) with 1 in Hf2.
    set (fq := inject_Z (Qfloor q)) in *.
    assert (Hr : Qred ((x - (base + h * fq)) / h) * h == x - (base + h * fq))
      by (rewrite Qred_correct; field; lra).
    split; [lia|]. split; [lia|]. split.
    + cbn [weights_ok forallb]. fold (weights_ok (map3 (fun xi pi hi => Qred ((xi - pi) / hi)) xs
         (vertex_coord hs bases (afind_base xs hs bases)) hs)). rewrite Hok, andb_true_r.
      apply weight_band; set (r := Qred ((x - (base + h * fq)) / h)) in *; nra.
    + constructor; [reflexivity| |exact Hia].
      unfold mkw. cbn [fst snd]. rewrite Qred_correct, inject_Z_plus. change (inject_Z 1) with 1.
      fold fq. field. lra.
Qed.

Lemma vertex_coord_vert hs : forall bases b inc,
  length b = length hs -> length bases = length hs -> length inc = length hs -> Forall bit inc ->
  vertex_coord hs bases (map2 Z.add b inc) = vert (LRA hs bases b) inc.
Proof.
  induction hs as [|h hs IH]; intros bases b inc L1 L2 L3 Hb.
  - destruct b; [|discriminate]. reflexivity.
  - destruct b as [|k b]; [discriminate|]. destruct bases as [|base bases]; [discriminate|].
    destruct inc as [|i inc]; [discriminate|]. inversion Hb as [|? ? Hi Hb']; subst.
    unfold vertex_coord, LRA, vert. cbn [map2 map3].
    fold (vertex_coord hs bases (map2 Z.add b inc)). fold (LRA hs bases b). fold (vert (LRA hs bases b) inc).
    rewrite (IH bases b inc) by (cbn in *; try assumption; lia).
    destruct Hi as [-> | ->]; unfold pick; cbn [Z.eqb fst snd]; [rewrite Z.add_0_r|]; reflexivity.
Qed.

Lemma zeros_in_incrs d : In (repeat 0%Z d) (incrs d).
Proof.
  induction d as [|d IH]; [left; reflexivity|]. cbn [incrs repeat]. apply in_or_app. left.
  apply in_map. exact IH.
Qed.

Lemma add_zeros b : map2 Z.add b (repeat 0%Z (length b)) = b.
Proof. induction b as [|k b IH]; [reflexivity|]. cbn [length repeat map2]. rewrite IH, Z.add_0_r. reflexivity. Qed.

(* the loop of one adaptive query from any state satisfying the invariant, after the fill *)
Definition gw (axis : option nat) (ws : list (Q * Q)) : list (Q * Q) :=
  match axis with None => ws | Some ax => set_nth ax (-(1), 1) ws end.

Lemma afill_inv f t x : Inv f (a_h t) (a_base t) (a_store t) ->
  Inv f (a_h t) (a_base t) (a_store (afill f t x)).
Proof. intros HI. unfold afill. cbn [a_store]. apply fill_loop_spec. exact HI. Qed.

Lemma aquery_vsum f t x axis :
  Inv f (a_h t) (a_base t) (a_store t) -> acells x (a_h t) (a_base t) ->
  match axis with None => True | Some ax => (ax < length x)%nat end ->
  let t' := afill f t x in
  let b := afind_base x (a_h t) (a_base t) in
  exists rws s,
    rws = map3 (fun xi pi hi => Qred ((xi - pi) / hi)) x (vertex_coord (a_h t) (a_base t) b) (a_h t) /\
    aright_weights t' x b = ok rws /\ weights_ok rws = true /\
    interp_ax (map mkw rws) (LRA (a_h t) (a_base t) b) x /\ length rws = length x /\
    ainterp_loop (a_store t') rws b axis (incrs (length (a_h t))) 0 = inr s /\
    s == vsum (gw axis (map mkw rws)) (LRA (a_h t) (a_base t) b) f.
Proof.
  intros HI Hac Hax. cbn zeta.
  destruct (fill_loop_spec f (a_h t) (a_base t) (afind_base x (a_h t) (a_base t))
              (incrs (length (a_h t))) (a_store t) HI) as [I1 [I2 I3]]. cbn zeta in *.
  destruct (aweights_spec _ _ _ Hac) as [Lb [Lr_ [Hok Hia]]]. cbn zeta in *.
  destruct (acells_length _ _ _ Hac) as [Lh Lbase].
  unfold afill. cbn [a_store a_h a_base].
  set (b := afind_base x (a_h t) (a_base t)) in *.
  set (s' := fill_loop f (a_h t) (a_base t) b (incrs (length (a_h t))) (a_store t)) in *.
  set (rws := map3 (fun xi pi hi => Qred ((xi - pi) / hi)) x (vertex_coord (a_h t) (a_base t) b) (a_h t)) in *.
  destruct (I3 (repeat 0%Z (length (a_h t))) (zeros_in_incrs _)) as [e0 He0].
  assert (Hbz : map2 Z.add b (repeat 0%Z (length (a_h t))) = b)
    by (rewrite <- (add_zeros b) at 2; rewrite Lb, Lh; reflexivity).
  rewrite Hbz in He0. destruct (I1 _ _ He0) as [_ [Hpt0 _]].
  destruct (ainterp_loop_sum s' rws b axis (fun inc => f (vert (LRA (a_h t) (a_base t) b) inc))
              (incrs (length (a_h t)))) with (acc := 0) as [r [Hr Hrr]].
  { intros inc Hin. destruct (I3 inc Hin) as [e He]. exists e. split; [exact He|].
    destruct (I1 _ _ He) as [_ [_ Hv]]. rewrite Hv, Qred_correct.
    destruct (incrs_spec _ _ Hin) as [Hli Hbi].
    rewrite (vertex_coord_vert (a_h t) (a_base t) b inc) by (try assumption; lia). reflexivity. }
  exists rws, r. split; [reflexivity|]. split; [|split; [exact Hok|split; [exact Hia|split; [exact Lr_|split; [exact Hr|]]]]].
  - unfold aright_weights. cbn [a_store a_h]. fold s'. rewrite He0, Hpt0. reflexivity.
  - rewrite Hrr, Qplus_0_l. unfold vsum.
    assert (Hlen : length (gw axis (map mkw rws)) = length (a_h t)).
    { destruct axis; cbn [gw]; [rewrite set_nth_length|]; rewrite map_length; lia. }
    rewrite Hlen. apply qsum_map_ext. intros inc Hin. destruct (incrs_spec _ _ Hin) as [Hli Hbi].
    destruct axis as [ax|]; cbn [gw].
    + rewrite (qprod_grad_weights rws ax inc Hbi) by lia. reflexivity.
    + rewrite (qprod_weights rws inc Hbi). reflexivity.
Qed.

(* the invariant holds after any history of queries whatsoever *)
Lemma arun_inv f qs : forall t, Inv f (a_h t) (a_base t) (a_store t) ->
  let t' := snd (arun f t qs) in
  a_h t' = a_h t /\ a_base t' = a_base t /\ Inv f (a_h t) (a_base t) (a_store t').
Proof.
  induction qs as [|[x [ax|]] qs IH]; intros t HI; cbn zeta.
  - cbn [arun snd]. split; [reflexivity|split; [reflexivity|exact HI]].
  - cbn [arun]. unfold agradient.
    destruct (arun f (afill f t x) qs) as [vs t''] eqn:E. cbn [snd].
    pose proof (IH (afill f t x) (afill_inv f t x HI)) as H. rewrite E in H. exact H.
  - cbn [arun]. unfold ainterpolate.
    destruct (arun f (afill f t x) qs) as [vs t''] eqn:E. cbn [snd].
    pose proof (IH (afill f t x) (afill_inv f t x HI)) as H. rewrite E in H. exact H.
Qed.

(* f respects equality of rationals (==) argument-wise *)
Definition respects (f : list Q -> Q) : Prop := forall l l', Forall2 Qeq l l' -> f l == f l'.

Lemma Forall2_Qeq_refl l : Forall2 Qeq l l.
Proof. induction l; constructor; [reflexivity|assumption]. Qed.

Lemma sep_affine_respects f : sep_affine f -> respects f.
Proof.
  intros Hf l l' H.
  assert (G : forall pre, f (pre ++ l) == f (pre ++ l')).
  { induction H as [|x y l l' Hxy _ IH]; intros pre; [reflexivity|].
    rewrite (Hf pre l y y 0 x) by (rewrite Hxy; ring).
    rewrite (app_cons_assoc pre y l), (app_cons_assoc pre y l'), IH. ring. }
  exact (G []).
Qed.

(* per-axis relation between two sets of interpolation data giving the same vertex sum:
   flag false: same weights and vertices; flag true: the point is the right vertex of one
   cell (weights 0,1) and the left vertex of the other (weights 1,0) *)
Inductive axeq : list bool -> list (Q * Q) -> list (Q * Q) -> list (Q * Q) -> list (Q * Q) -> Prop :=
| axeq_nil : axeq [] [] [] [] []
| axeq_same w p w' p' fl ws lr ws' lr' :
    fst w == fst w' -> snd w == snd w' -> fst p == fst p' -> snd p == snd p' ->
    axeq fl ws lr ws' lr' -> axeq (false :: fl) (w :: ws) (p :: lr) (w' :: ws') (p' :: lr')
| axeq_edge w p w' p' fl ws lr ws' lr' :
    fst w == 1 -> snd w == 0 -> fst w' == 0 -> snd w' == 1 -> fst p == snd p' ->
    axeq fl ws lr ws' lr' -> axeq (true :: fl) (w :: ws) (p :: lr) (w' :: ws') (p' :: lr').

Lemma Forall2_snoc pre pre' a a' : Forall2 Qeq pre pre' -> a == a' -> Forall2 Qeq (pre ++ [a]) (pre' ++ [a']).
Proof. intros H Ha. apply Forall2_app; [assumption|constructor; [assumption|constructor]]. Qed.

Lemma vsum_axeq f : respects f -> forall fl ws lr ws' lr', axeq fl ws lr ws' lr' ->
  forall pre pre', Forall2 Qeq pre pre' ->
  vsum ws lr (fun v => f (pre ++ v)) == vsum ws' lr' (fun v => f (pre' ++ v)).
Proof.
  intros Hf fl ws lr ws' lr' H.
  induction H as [|w p w' p' fl ws lr ws' lr' H1 H2 H3 H4 _ IH|w p w' p' fl ws lr ws' lr' H1 H2 H3 H4 H5 _ IH];
    intros pre pre' Hp.
  - rewrite !vsum_nil. apply Hf. apply Forall2_app; [assumption|constructor].
  - rewrite !vsum_cons.
    rewrite (vsum_ext ws lr (fun v => f (pre ++ fst p :: v)) (fun v => f ((pre ++ [fst p]) ++ v)))
      by (intros; rewrite app_cons_assoc; reflexivity).
    rewrite (vsum_ext ws lr (fun v => f (pre ++ snd p :: v)) (fun v => f ((pre ++ [snd p]) ++ v)))
      by (intros; rewrite app_cons_assoc; reflexivity).
    rewrite (vsum_ext ws' lr' (fun v => f (pre' ++ fst p' :: v)) (fun v => f ((pre' ++ [fst p']) ++ v)))
      by (intros; rewrite app_cons_assoc; reflexivity).
    rewrite (vsum_ext ws' lr' (fun v => f (pre' ++ snd p' :: v)) (fun v => f ((pre' ++ [snd p']) ++ v)))
      by (intros; rewrite app_cons_assoc; reflexivity).
    rewrite (IH _ _ (Forall2_snoc _ _ _ _ Hp H3)), (IH _ _ (Forall2_snoc _ _ _ _ Hp H4)), H1, H2.
    reflexivity.
  - rewrite !vsum_cons.
    rewrite (vsum_ext ws lr (fun v => f (pre ++ fst p :: v)) (fun v => f ((pre ++ [fst p]) ++ v)))
      by (intros; rewrite app_cons_assoc; reflexivity).
    rewrite (vsum_ext ws' lr' (fun v => f (pre' ++ snd p' :: v)) (fun v => f ((pre' ++ [snd p']) ++ v)))
      by (intros; rewrite app_cons_assoc; reflexivity).
    rewrite (IH _ _ (Forall2_snoc _ _ _ _ Hp H5)), H1, H2, H3, H4. ring.
Qed.

Lemma axeq_set fl ws lr ws' lr' : axeq fl ws lr ws' lr' ->
  forall ax v, nth ax fl false = false ->
  axeq fl (set_nth ax v ws) lr (set_nth ax v ws') lr'.
Proof.
  intros H. induction H as [|w p w' p' fl ws lr ws' lr' H1 H2 H3 H4 H IH|w p w' p' fl ws lr ws' lr' H1 H2 H3 H4 H5 H IH];
    intros ax v Hfl.
  - destruct ax; constructor.
  - destruct ax as [|ax]; cbn [set_nth].
    + apply axeq_same; try assumption; reflexivity.
    + apply axeq_same; try assumption. apply IH. exact Hfl.
  - destruct ax as [|ax]; cbn [set_nth]; [discriminate|].
    apply axeq_edge; try assumption. apply IH. exact Hfl.
Qed.

(* ------------------------------------------------------------ standard vs adaptive data on the box *)
Lemma box_acells los his npt xs : box los his npt xs -> acells xs (map3 hstep los his npt) los.
Proof.
  induction 1 as [|lo hi n x los his npt xs Hlh Hn Hl Hu _ IH]; cbn [map3]; constructor; [|exact IH].
  apply hstep_pos; assumption.
Qed.

Lemma S_A_axeq los his npt xs : box los his npt xs ->
  let hs := map3 hstep los his npt in
  let bA := afind_base xs hs los in
  let rwsA := map3 (fun xi pi hi => Qred ((xi - pi) / hi)) xs (vertex_coord hs los bA) hs in
  exists bs rws fl,
    find_base xs hs los his npt = ok bs /\
    right_weights xs (map3 linspace los his npt) hs bs = ok rws /\
    axeq fl (map mkw rwsA) (LRA hs los bA) (map mkw rws) (LRs los his npt bs) /\
    (forall ax x hi, nth_error xs ax = Some x -> nth_error his ax = Some hi -> x < hi ->
                     nth ax fl false = false).
Proof.
  intros H. induction H as [|lo hi n x los his npt xs Hlh Hn Hl Hu _ IH]; cbn zeta in *.
  - exists [], [], []. repeat split; try constructor. intros [|ax]; discriminate.
  - destruct IH as [bs [rws [fl [Hfb [Hrw [Hax Hfl]]]]]].
    destruct (hstep_pos lo hi n Hlh Hn) as [Hh Hnh].
    destruct (base_axis_ok x lo hi n Hlh Hn Hl Hu) as [b [Hb [Hbr [HbL HbR]]]].
    assert (Hbdef : b = Z.min (Qfloor ((x - lo) / hstep lo hi n)) (n - 2)).
    { unfold base_axis in Hb. rewrite (Qltb_false x lo Hl), (Qltb_false hi x Hu) in Hb.
      cbn [orb] in Hb. injection Hb as <-. reflexivity. }
    set (h := hstep lo hi n) in *.
    set (q := (x - lo) / h) in *.
    assert (Hq : q * h == x - lo) by (unfold q; field; lra).
    pose proof (Qfloor_le q) as Hf1. pose proof (Qlt_floor q) as Hf2.
    rewrite inject_Z_plus in Hf2. change (inject_Z 1) with 1 in Hf2.
    assert (Hn1 : inject_Z (n - 1) == inject_Z (n - 2) + 1).
    { replace (n - 1)%Z with ((n - 2) + 1)%Z by lia. rewrite inject_Z_plus. reflexivity. }
    rewrite Hn1 in Hnh.
    assert (Hcase : (Qfloor q <= n - 2)%Z \/ (Qfloor q = n - 1)%Z /\ x == hi).
    { destruct (Z_le_gt_dec (Qfloor q) (n - 2)) as [Hle|Hgt]; [left; exact Hle|right].
      assert (Hge : inject_Z (n - 2) + 1 <= inject_Z (Qfloor q)).
      { change 1 with (inject_Z 1). rewrite <- (inject_Z_plus (n - 2) 1), <- Zle_Qle. lia. }
      assert (Hxh : x == hi).
      { set (fq := inject_Z (Qfloor q)) in *. set (m := inject_Z (n - 2)) in *. nra. }
      split; [|exact Hxh].
      assert (Hlt : inject_Z (Qfloor q) < inject_Z (n - 2) + 1 + 1).
      { set (fq := inject_Z (Qfloor q)) in *. set (m := inject_Z (n - 2)) in *. nra. }
      change 1 with (inject_Z 1) in Hlt. rewrite <- !(inject_Z_plus), <- Zlt_Qlt in Hlt. lia. }
    exists (b :: bs), (Qred ((x - (lo + inject_Z b * h)) / h) :: rws).
    exists ((negb (Qfloor q <=? n - 2)%Z) :: fl).
    split; [|split; [|split]].
    + cbn [map3 find_base]. fold h. rewrite Hb. cbn [bind ok]. rewrite Hfb. reflexivity.
    + cbn [map3 right_weights]. fold h.
      rewrite (pyget_some _ b _ (proj1 Hbr) (linspace_nth lo hi n b ltac:(lia))). fold h.
      cbn [bind ok]. rewrite Hrw. reflexivity.
    + unfold afind_base, vertex_coord, LRA. cbn [map3 map LRs]. fold h. fold q.
      fold (afind_base xs (map3 hstep los his npt) los).
      fold (vertex_coord (map3 hstep los his npt) los (afind_base xs (map3 hstep los his npt) los)).
      fold (LRA (map3 hstep los his npt) los (afind_base xs (map3 hstep los his npt) los)).
      destruct Hcase as [Hle|[Heq Hxh]].
      * replace (Qfloor q <=? n - 2)%Z with true by (symmetry; apply Z.leb_le; exact Hle). cbn [negb].
        assert (Hbq : b = Qfloor q) by lia. rewrite Hbq.
        apply axeq_same; [| | | |exact Hax]; unfold mkw, Lr; cbn [fst snd]; fold h;
          rewrite ?Qred_correct; try (field; lra); ring.
      * replace (Qfloor q <=? n - 2)%Z with false by (symmetry; apply Z.leb_gt; lia). cbn [negb].
        assert (Hbq : b = (n - 2)%Z) by lia. rewrite Hbq, Heq.
        assert (HnumA : x - (lo + h * inject_Z (n - 1)) == 0).
        { rewrite Hn1. set (m := inject_Z (n - 2)) in *. nra. }
        assert (HnumS : x - (lo + inject_Z (n - 2) * h) == h).
        { set (m := inject_Z (n - 2)) in *. nra. }
        assert (HA : Qred ((x - (lo + h * inject_Z (n - 1))) / h) == 0).
        { rewrite Qred_correct, HnumA. unfold Qdiv. ring. }
        assert (HS : Qred ((x - (lo + inject_Z (n - 2) * h)) / h) == 1).
        { rewrite Qred_correct, HnumS. field. lra. }
        apply axeq_edge; [| | | | |exact Hax]; unfold mkw, Lr; cbn [fst snd]; fold h.
        -- rewrite HA. ring.
        -- exact HA.
        -- rewrite HS. ring.
        -- exact HS.
        -- replace (n - 2 + 1)%Z with (n - 1)%Z by lia. ring.
    + intros [|ax] x0 hi0 Hx0 Hhi0 Hlt; cbn in Hx0, Hhi0.
      * injection Hx0 as <-. injection Hhi0 as <-. cbn [nth].
        destruct Hcase as [Hle|[_ Hxh]]; [|lra].
        replace (Qfloor q <=? n - 2)%Z with true by (symmetry; apply Z.leb_le; exact Hle). reflexivity.
      * cbn [nth]. apply (Hfl ax x0 hi0); assumption.
Qed.

Lemma Inv_empty f h base : Inv f h base [].
Proof. intros k e H. discriminate. Qed.

Lemma ok_inj {A} (a b : A) : @ok A a = ok b -> a = b.
Proof. intros H. injection H as ->. reflexivity. Qed.

(* state of the adaptive table after any history, in normal form *)
Lemma arun_state f los his npt qs :
  exists ts, snd (arun f (mk_atable los his npt) qs)
             = {| a_h := map3 hstep los his npt; a_base := los; a_store := ts |} /\
             Inv f (map3 hstep los his npt) los ts.
Proof.
  destruct (arun_inv f qs (mk_atable los his npt) (Inv_empty f _ _)) as [E1 [E2 HI]].
  cbn zeta in *. destruct (snd (arun f (mk_atable los his npt) qs)) as [th tb ts].
  cbn [a_h a_base a_store mk_atable] in *. subst. exists ts. split; [reflexivity|exact HI].
Qed.

(* THEOREM 3a: interpolate of the adaptive table = interpolate of the standard table, for
   every f, every point of the closed box, after every history of adaptive queries *)
Lemma adaptive_interp_agrees f los his npt xs qs : respects f -> box los his npt xs ->
  exists r r', interpolate (mk_table los his npt f) xs = inr r /\
    fst (ainterpolate f (snd (arun f (mk_atable los his npt) qs)) xs) = inr r' /\ r == r'.
Proof.
  intros Hf Hbox. destruct (arun_state f los his npt qs) as [ts [-> HI]].
  set (T := {| a_h := map3 hstep los his npt; a_base := los; a_store := ts |}).
  destruct (interpolate_vsum f _ _ _ _ Hbox) as [bs [rws [r [Hc [Hfb [Hrw [Hia [Hr Hrr]]]]]]]].
  destruct (S_A_axeq _ _ _ _ Hbox) as [bs' [rws' [fl [Hfb' [Hrw' [Hax _]]]]]]. cbn zeta in Hax.
  rewrite Hfb in Hfb'. apply ok_inj in Hfb'. subst bs'.
  rewrite Hrw in Hrw'. apply ok_inj in Hrw'. subst rws'.
  destruct (aquery_vsum f T xs None HI (box_acells _ _ _ _ Hbox) I)
    as [rwsA [s [ErA [HarA [HokA [_ [_ [Hloop Hs]]]]]]]]. cbn zeta in *.
  exists r, s. split; [exact Hr|]. split.
  - unfold ainterpolate. cbn [fst].
    change (a_h (afill f T xs)) with (a_h T). change (a_base (afill f T xs)) with (a_base T).
    rewrite HarA. cbn [bind ok]. rewrite HokA. exact Hloop.
  - rewrite Hrr, Hs. cbn [gw]. rewrite ErA. cbn [T a_h a_base]. symmetry.
    exact (vsum_axeq f Hf _ _ _ _ _ Hax [] [] (Forall2_nil _)).
Qed.

(* THEOREM 3b: the gradients agree for every f when the point is not on the upper face of
   the differentiated axis *)
Lemma adaptive_grad_agrees f los his npt xs qs ax x hi : respects f -> box los his npt xs ->
  nth_error xs ax = Some x -> nth_error his ax = Some hi -> x < hi ->
  exists g g', gradient (mk_table los his npt f) xs ax = inr g /\
    fst (agradient f (snd (arun f (mk_atable los his npt) qs)) xs ax) = inr g' /\ g == g'.
Proof.
  intros Hf Hbox Hx Hhi Hlt. destruct (arun_state f los his npt qs) as [ts [-> HI]].
  set (T := {| a_h := map3 hstep los his npt; a_base := los; a_store := ts |}).
  assert (Ha : (ax < length xs)%nat) by (apply nth_error_Some; congruence).
  destruct (gradient_vsum f _ _ _ _ ax Hbox Ha) as [bs [rws [s [ha [Hc [Hfb [Hrw [Hia [Eh [Hg Hs]]]]]]]]]].
  destruct (S_A_axeq _ _ _ _ Hbox) as [bs' [rws' [fl [Hfb' [Hrw' [Hax Hfl]]]]]]. cbn zeta in Hax.
  rewrite Hfb in Hfb'. apply ok_inj in Hfb'. subst bs'.
  rewrite Hrw in Hrw'. apply ok_inj in Hrw'. subst rws'.
  destruct (aquery_vsum f T xs (Some ax) HI (box_acells _ _ _ _ Hbox) Ha)
    as [rwsA [sA [ErA [HarA [HokA [_ [_ [Hloop HsA]]]]]]]]. cbn zeta in *.
  exists (s / ha), (sA / ha). split; [exact Hg|]. split.
  - unfold agradient. cbn [fst].
    change (a_h (afill f T xs)) with (a_h T). change (a_base (afill f T xs)) with (a_base T).
    rewrite HarA. cbn [bind ok]. rewrite HokA, Hloop. cbn [bind ok T a_h]. rewrite Eh. reflexivity.
  - apply Qdiv_comp; [|reflexivity]. rewrite Hs, HsA. cbn [gw]. rewrite ErA. cbn [T a_h a_base].
    symmetry.
    exact (vsum_axeq f Hf _ _ _ _ _ (axeq_set _ _ _ _ _ Hax ax (-(1), 1) (Hfl ax x hi Hx Hhi Hlt))
             [] [] (Forall2_nil _)).
Qed.

Lemma acells_axis xs hs bases : acells xs hs bases -> forall ax dflt, (ax < length xs)%nat ->
  exists hh bb k, nth_error hs ax = Some hh /\ 0 < hh /\
    nth ax (LRA hs bases (afind_base xs hs bases)) dflt
    = (bb + hh * inject_Z k, bb + hh * inject_Z (k + 1)).
Proof.
  intros H. induction H as [|x h base xs hs bases Hh _ IH]; intros ax dflt Ha; [cbn in Ha; lia|].
  destruct ax as [|ax].
  - exists h, base, (Qfloor ((x - base) / h)). repeat split; assumption.
  - destruct (IH ax dflt ltac:(cbn in Ha; lia)) as [hh [bb [k H']]]. exists hh, bb, k. exact H'.
Qed.

(* THEOREM 3c: for f affine in each variable the adaptive gradient is the exact partial
   derivative everywhere in the closed box (hence equal to the standard one) *)
Lemma adaptive_grad_exact f los his npt xs qs ax : sep_affine f -> box los his npt xs ->
  (ax < length xs)%nat ->
  exists g', fst (agradient f (snd (arun f (mk_atable los his npt) qs)) xs ax) = inr g' /\
    forall a c, ~ a == c -> g' == (f (set_nth ax c xs) - f (set_nth ax a xs)) / (c - a).
Proof.
  intros Hf Hbox Ha. destruct (arun_state f los his npt qs) as [ts [-> HI]].
  set (T := {| a_h := map3 hstep los his npt; a_base := los; a_store := ts |}).
  pose proof (box_acells _ _ _ _ Hbox) as Hac.
  destruct (aquery_vsum f T xs (Some ax) HI Hac Ha)
    as [rwsA [sA [ErA [HarA [HokA [HiaA [_ [Hloop HsA]]]]]]]]. cbn zeta in *.
  destruct (acells_axis _ _ _ Hac ax (0, 0) Ha) as [hh [bb [k [Eh [Hh ELr]]]]].
  exists (sA / hh). split.
  - unfold agradient. cbn [fst].
    change (a_h (afill f T xs)) with (a_h T). change (a_base (afill f T xs)) with (a_base T).
    rewrite HarA. cbn [bind ok]. rewrite HokA, Hloop. cbn [bind ok T a_h]. rewrite Eh. reflexivity.
  - intros a c Hac'. rewrite HsA. cbn [gw].
    pose proof (vsum_grad f Hf _ _ _ HiaA ax [] (0, 0) Ha) as Hv. cbn [app] in Hv.
    rewrite Hv. cbn [T a_h a_base]. rewrite ELr. cbn [fst snd].
    destruct (set_nth_split xs ax Ha) as [pre [post Hsp]]. rewrite !Hsp.
    rewrite inject_Z_plus. change (inject_Z 1) with 1.
    set (L := bb + hh * inject_Z k).
    assert (Hca : ~ c - a == 0) by (intro E; apply Hac'; lra).
    rewrite (Hf pre post a c ((L - a) / (c - a)) L) by (field; exact Hca).
    rewrite (Hf pre post a c ((L + hh - a) / (c - a)) (bb + hh * (inject_Z k + 1)))
      by (unfold L; field; exact Hca).
    field. split; [exact Hca|lra].
Qed.

(* ------------------------------------------------------------ affine and multilinear functions *)
Lemma qsum_affine_sep post a b t x : x == (1 - t) * a + t * b ->
  forall pre cs,
  qsum (map2 Qmult cs (pre ++ x :: post)) ==
  (1 - t) * qsum (map2 Qmult cs (pre ++ a :: post)) + t * qsum (map2 Qmult cs (pre ++ b :: post)).
Proof.
  intros Hx. induction pre as [|p pre IH]; intros [|c cs]; cbn [app map2 qsum]; try ring.
  - rewrite Hx. ring.
  - rewrite IH. ring.
Qed.

Lemma affine_sep c0 cs : sep_affine (affine c0 cs).
Proof.
  intros pre post a b t x Hx. unfold affine. rewrite (qsum_affine_sep post a b t x Hx). ring.
Qed.

Lemma affine_diff c0 cs : forall ax xs, length cs = length xs -> (ax < length xs)%nat ->
  affine c0 cs (set_nth ax 1 xs) - affine c0 cs (set_nth ax 0 xs) == nth ax cs 0.
Proof.
  unfold affine. induction cs as [|c cs IH]; intros ax [|x xs] Hl Ha; cbn in Hl, Ha; try lia.
  destruct ax as [|ax]; cbn [set_nth map2 qsum nth].
  - ring.
  - rewrite <- (IH ax xs) by lia. ring.
Qed.

Lemma mlin_sep d : forall cs, sep_affine (mlin d cs).
Proof.
  induction d as [|d IH]; intros cs pre post a b t x Hx.
  - cbn [mlin]. ring.
  - destruct pre as [|p pre]; cbn [app mlin].
    + rewrite Hx. ring.
    + rewrite (IH _ pre post a b t x Hx), (IH _ pre post a b t x Hx). ring.
Qed.
(* ------------------------------------------------------------ corollaries *)
(* gradient of an affine function c0 + sum c_i x_i is c_axis *)
Lemma gradient_affine c0 cs los his npt xs ax : box los his npt xs ->
  length cs = length xs -> (ax < length xs)%nat ->
  exists g, gradient (mk_table los his npt (affine c0 cs)) xs ax = inr g /\ g == nth ax cs 0.
Proof.
  intros Hbox Hl Ha.
  destruct (gradient_exact (affine c0 cs) _ _ _ _ ax (affine_sep c0 cs) Hbox Ha) as [g [Hg Hq]].
  exists g. split; [exact Hg|]. rewrite (Hq 0 1) by discriminate.
  rewrite (affine_diff c0 cs ax xs Hl Ha). field.
Qed.

(* error branch: a point outside the box on some axis raises ValueError *)
Inductive outside : list Q -> list Q -> list Z -> list Q -> Prop :=
| out_here lo hi n x los his npt xs : x < lo \/ hi < x -> outside (lo :: los) (hi :: his) (n :: npt) (x :: xs)
| out_there lo hi n x los his npt xs : outside los his npt xs ->
    outside (lo :: los) (hi :: his) (n :: npt) (x :: xs).

Lemma Qltb_true a b : a < b -> Qltb a b = true.
Proof.
  intros H. unfold Qltb. destruct (Qle_bool b a) eqn:E; [|reflexivity].
  apply Qle_bool_iff in E. exfalso. apply (Qlt_not_le _ _ H E).
Qed.

Lemma find_base_outside los his npt xs : outside los his npt xs ->
  find_base xs (map3 hstep los his npt) los his npt = inl ValueErr.
Proof.
  induction 1 as [lo hi n x los his npt xs Hout|lo hi n x los his npt xs _ IH]; cbn [map3 find_base].
  - unfold base_axis. destruct Hout as [H|H]; rewrite (Qltb_true _ _ H), ?orb_true_r; reflexivity.
  - unfold base_axis. destruct (Qltb x lo || Qltb hi x); [reflexivity|]. cbn [bind ok]. rewrite IH. reflexivity.
Qed.

Lemma outside_value_error f los his npt xs ax : outside los his npt xs ->
  interpolate (mk_table los his npt f) xs = inl ValueErr /\
  gradient (mk_table los his npt f) xs ax = inl ValueErr.
Proof.
  intros H. unfold interpolate, gradient, mk_table. cbn [t_h t_low t_high t_npt].
  rewrite (find_base_outside _ _ _ _ H). split; reflexivity.
Qed.

(* batch calls on points of the box *)
Lemma mapM_ok {A B} (g : A -> res B) (P : A -> B -> Prop) l :
  (forall a, In a l -> exists b, g a = inr b /\ P a b) ->
  exists bs, mapM g l = inr bs /\ Forall2 P l bs.
Proof.
  induction l as [|a l IH]; intros H.
  - exists []. split; [reflexivity|constructor].
  - destruct (H a (or_introl eq_refl)) as [b [Hb HP]].
    destruct (IH (fun a' Hin => H a' (or_intror Hin))) as [bs [Hbs HF]].
    exists (b :: bs). split; [cbn [mapM]; rewrite Hb; cbn [bind]; rewrite Hbs; reflexivity|].
    constructor; assumption.
Qed.

Lemma interpolate_batch_exact f los his npt pts : sep_affine f ->
  (forall x, In x pts -> box los his npt x) ->
  exists rs, interpolate_batch (mk_table los his npt f) pts = inr rs /\
             Forall2 (fun x r => r == f x) pts rs.
Proof.
  intros Hf Hb. unfold interpolate_batch.
  destruct (mapM_ok (fun x => find_base x (t_h (mk_table los his npt f)) (t_low (mk_table los his npt f))
                        (t_high (mk_table los his npt f)) (t_npt (mk_table los his npt f)))
              (fun _ _ => True) pts) as [bs [Hbs _]].
  { intros x Hin. destruct (find_base_cells _ _ _ _ (Hb x Hin)) as [b [Hfb _]].
    exists b. split; [exact Hfb|exact I]. }
  rewrite Hbs. cbn [bind].
  apply mapM_ok. intros x Hin. apply (interpolate_exact f _ _ _ _ Hf (Hb x Hin)).
Qed.
