(* C19 (3-D part) — proofs about PP.Model.C19_3d. *)
From Coq Require Import List ZArith QArith Qabs Qfield Bool Arith Lia Lqa Permutation.
Import ListNotations.
From PP Require Import Model.C19 Model.C19_3d Proofs.C19.
Open Scope Q_scope.

(* component-wise equality of vectors *)
Definition veq (a b : v3) : Prop := vx a == vx b /\ vy a == vy b /\ vz a == vz b.

Ltac vnorm :=
  unfold vdot, vcross, vsub, vadd, vscale, mk3, vx, vy, vz, v0 in *; cbn [fst snd] in *;
  rewrite ?Qred_correct in *.

(* the Qred normalisations are invisible up to == *)
Lemma vx_vadd a b : vx (vadd a b) == vx a + vx b.  Proof. vnorm. reflexivity. Qed.
Lemma vy_vadd a b : vy (vadd a b) == vy a + vy b.  Proof. vnorm. reflexivity. Qed.
Lemma vz_vadd a b : vz (vadd a b) == vz a + vz b.  Proof. vnorm. reflexivity. Qed.

Lemma sumQr_sumQ l : sumQr l == sumQ l.
Proof.
  induction l as [|a l IH]; [reflexivity|]. cbn [sumQr fold_right].
  rewrite Qred_correct. fold (sumQr l). rewrite IH. reflexivity.
Qed.

Lemma vx_vsum l : vx (vsum l) == sumQ (map vx l).
Proof.
  induction l as [|a l IH]; [reflexivity|]. cbn [vsum fold_right map]. fold (vsum l).
  rewrite vx_vadd, IH. reflexivity.
Qed.
Lemma vy_vsum l : vy (vsum l) == sumQ (map vy l).
Proof.
  induction l as [|a l IH]; [reflexivity|]. cbn [vsum fold_right map]. fold (vsum l).
  rewrite vy_vadd, IH. reflexivity.
Qed.
Lemma vz_vsum l : vz (vsum l) == sumQ (map vz l).
Proof.
  induction l as [|a l IH]; [reflexivity|]. cbn [vsum fold_right map]. fold (vsum l).
  rewrite vz_vadd, IH. reflexivity.
Qed.

Lemma sumQ_map_add {A} (f g : A -> Q) l :
  sumQ (map (fun x => f x + g x) l) == sumQ (map f l) + sumQ (map g l).
Proof.
  induction l as [|a l IH]; cbn [map]; rewrite ?sumQ_cons; [cbn; ring|]. rewrite IH. ring.
Qed.

Lemma sumQ_flat_map {A B} (g : B -> Q) (h : A -> list B) l :
  sumQ (map g (flat_map h l)) == sumQ (map (fun x => sumQ (map g (h x))) l).
Proof.
  induction l as [|a l IH]; [reflexivity|]. cbn [flat_map map]. rewrite map_app.
  rewrite sumQ_cons, <- IH. clear IH. induction (map g (h a)) as [|y r IHr]; cbn [app].
  - cbn. ring.
  - rewrite !sumQ_cons, IHr. ring.
Qed.

(* telescoping over a closed set of directed edges *)
Lemma tele3 (Phi : v3 -> Q) (es : list (v3 * v3)) :
  Permutation (map fst es) (map snd es) ->
  sumQ (map (fun e => Phi (snd e) - Phi (fst e)) es) == 0.
Proof.
  intro HP. rewrite (sumQ_map_sub (fun e => Phi (snd e)) (fun e => Phi (fst e))).
  rewrite <- (map_map snd Phi), <- (map_map fst Phi).
  rewrite (sumQ_perm _ _ (Permutation_map Phi HP)). ring.
Qed.

(* a node loop is closed *)
Lemma rot_length {A} (l : list A) : length (rot l) = length l.
Proof. destruct l as [|a l]; [reflexivity|]. unfold rot. rewrite app_length. cbn [length]. lia. Qed.

Lemma map_fst_combine3 {A B} (a : list A) : forall (b : list B), length a = length b ->
  map fst (combine a b) = a.
Proof. induction a; intros [|y b] H; cbn in *; try discriminate H; auto. f_equal. apply IHa. lia. Qed.
Lemma map_snd_combine3 {A B} (a : list A) : forall (b : list B), length a = length b ->
  map snd (combine a b) = b.
Proof. induction a; intros [|y b] H; cbn in *; try discriminate H; auto. f_equal. apply IHa. lia. Qed.

Lemma loop_closed ps : Permutation (map fst (loop_edges ps)) (map snd (loop_edges ps)).
Proof.
  unfold loop_edges.
  assert (length ps = length (rot ps)) as L by (symmetry; apply rot_length).
  rewrite (map_fst_combine3 _ _ L), (map_snd_combine3 _ _ L).
  destruct ps; cbn; [constructor|apply Permutation_cons_append].
Qed.

(* ------------------------------------------------------------------------------------ *)
(* F1: the face normal is the vector area of the node loop, whatever the temporary centre *)
Definition crossx (e : v3 * v3) : Q := vy (fst e) * vz (snd e) - vz (fst e) * vy (snd e).
Definition crossy (e : v3 * v3) : Q := vz (fst e) * vx (snd e) - vx (fst e) * vz (snd e).
Definition crossz (e : v3 * v3) : Q := vx (fst e) * vy (snd e) - vy (fst e) * vx (snd e).

Lemma sub_normal_x c e : vx (sub_normal c e) ==
  (1 # 2) * crossx e + ((1 # 2) * (vy (snd e) * vz c - vz (snd e) * vy c)
                        - (1 # 2) * (vy (fst e) * vz c - vz (fst e) * vy c)).
Proof. destruct e as [[[a1 a2] a3] [[b1 b2] b3]]. destruct c as [[c1 c2] c3].
       unfold sub_normal, crossx. vnorm. ring. Qed.
Lemma sub_normal_y c e : vy (sub_normal c e) ==
  (1 # 2) * crossy e + ((1 # 2) * (vz (snd e) * vx c - vx (snd e) * vz c)
                        - (1 # 2) * (vz (fst e) * vx c - vx (fst e) * vz c)).
Proof. destruct e as [[[a1 a2] a3] [[b1 b2] b3]]. destruct c as [[c1 c2] c3].
       unfold sub_normal, crossy. vnorm. ring. Qed.
Lemma sub_normal_z c e : vz (sub_normal c e) ==
  (1 # 2) * crossz e + ((1 # 2) * (vx (snd e) * vy c - vy (snd e) * vx c)
                        - (1 # 2) * (vx (fst e) * vy c - vy (fst e) * vx c)).
Proof. destruct e as [[[a1 a2] a3] [[b1 b2] b3]]. destruct c as [[c1 c2] c3].
       unfold sub_normal, crossz. vnorm. ring. Qed.

Lemma closed_normal_x c es : Permutation (map fst es) (map snd es) ->
  vx (vsum (map (sub_normal c) es)) == (1 # 2) * sumQ (map crossx es).
Proof.
  intro HP. rewrite vx_vsum, map_map.
  rewrite (sumQ_map_ext _ _ es (fun e _ => sub_normal_x c e)).
  rewrite (sumQ_map_add (fun e => (1 # 2) * crossx e)
             (fun e => (1 # 2) * (vy (snd e) * vz c - vz (snd e) * vy c)
                       - (1 # 2) * (vy (fst e) * vz c - vz (fst e) * vy c))).
  rewrite (tele3 (fun r => (1 # 2) * (vy r * vz c - vz r * vy c)) es HP).
  rewrite (sumQ_map_scale (1 # 2) crossx). ring.
Qed.
Lemma closed_normal_y c es : Permutation (map fst es) (map snd es) ->
  vy (vsum (map (sub_normal c) es)) == (1 # 2) * sumQ (map crossy es).
Proof.
  intro HP. rewrite vy_vsum, map_map.
  rewrite (sumQ_map_ext _ _ es (fun e _ => sub_normal_y c e)).
  rewrite (sumQ_map_add (fun e => (1 # 2) * crossy e)
             (fun e => (1 # 2) * (vz (snd e) * vx c - vx (snd e) * vz c)
                       - (1 # 2) * (vz (fst e) * vx c - vx (fst e) * vz c))).
  rewrite (tele3 (fun r => (1 # 2) * (vz r * vx c - vx r * vz c)) es HP).
  rewrite (sumQ_map_scale (1 # 2) crossy). ring.
Qed.
Lemma closed_normal_z c es : Permutation (map fst es) (map snd es) ->
  vz (vsum (map (sub_normal c) es)) == (1 # 2) * sumQ (map crossz es).
Proof.
  intro HP. rewrite vz_vsum, map_map.
  rewrite (sumQ_map_ext _ _ es (fun e _ => sub_normal_z c e)).
  rewrite (sumQ_map_add (fun e => (1 # 2) * crossz e)
             (fun e => (1 # 2) * (vx (snd e) * vy c - vy (snd e) * vx c)
                       - (1 # 2) * (vx (fst e) * vy c - vy (fst e) * vx c))).
  rewrite (tele3 (fun r => (1 # 2) * (vx r * vy c - vy r * vx c)) es HP).
  rewrite (sumQ_map_scale (1 # 2) crossz). ring.
Qed.

Definition vector_area (ps : list v3) : v3 :=
  mk3 ((1 # 2) * sumQ (map crossx (loop_edges ps))) ((1 # 2) * sumQ (map crossy (loop_edges ps)))
      ((1 # 2) * sumQ (map crossz (loop_edges ps))).

Lemma face_normal_vector_area c ps : veq (face_normal_c c ps) (vector_area ps).
Proof.
  unfold face_normal_c, vector_area, veq. pose proof (loop_closed ps) as HP.
  repeat split; [rewrite closed_normal_x|rewrite closed_normal_y|rewrite closed_normal_z]; auto;
    unfold mk3, vx, vy, vz; cbn [fst snd]; reflexivity.
Qed.

(* ------------------------------------------------------------------------------------ *)
(* F2: the signed face normals of a watertight cell sum to zero *)
Definition swap (e : v3 * v3) : v3 * v3 := (snd e, fst e).
Definition cface := (list v3 * Z)%type.          (* node loop, cell_faces sign *)
Definition oedges (f : cface) : list (v3 * v3) :=
  if (snd f =? 1)%Z then loop_edges (fst f) else map swap (loop_edges (fst f)).
Definition cell_edges3 (fs : list cface) : list (v3 * v3) := flat_map oedges fs.
(* every directed edge of the oriented faces occurs as often as its reverse *)
Definition watertight (fs : list cface) : Prop :=
  Permutation (cell_edges3 fs) (map swap (cell_edges3 fs)).
Definition signs3_ok (fs : list cface) : Prop :=
  forall f, In f fs -> snd f = 1%Z \/ snd f = (-1)%Z.

Lemma crossx_swap e : crossx (swap e) == - crossx e.
Proof. unfold crossx, swap. cbn [fst snd]. ring. Qed.
Lemma crossy_swap e : crossy (swap e) == - crossy e.
Proof. unfold crossy, swap. cbn [fst snd]. ring. Qed.
Lemma crossz_swap e : crossz (swap e) == - crossz e.
Proof. unfold crossz, swap. cbn [fst snd]. ring. Qed.

Lemma antisym_sum_zero (g : v3 * v3 -> Q) E :
  (forall e, g (swap e) == - g e) -> Permutation E (map swap E) -> sumQ (map g E) == 0.
Proof.
  intros Hg HP.
  assert (sumQ (map g E) == sumQ (map g (map swap E))) as H1
      by (apply sumQ_perm; apply Permutation_map; exact HP).
  rewrite map_map in H1.
  rewrite (sumQ_map_ext (fun e => g (swap e)) (fun e => (-1) * g e)) in H1
    by (intros e _; rewrite Hg; ring).
  rewrite (sumQ_map_scale (-1) g) in H1. lra.
Qed.

Lemma face_signed_normal (g : v3 * v3 -> Q) (comp : v3 -> Q) f :
  (forall e, g (swap e) == - g e) ->
  (snd f = 1%Z \/ snd f = (-1)%Z) ->
  comp (face_normal (fst f)) == (1 # 2) * sumQ (map g (loop_edges (fst f))) ->
  inject_Z (snd f) * comp (face_normal (fst f)) == (1 # 2) * sumQ (map g (oedges f)).
Proof.
  intros Hg Hs Hn. unfold oedges. destruct Hs as [-> | ->]; cbn [Z.eqb Pos.eqb].
  - rewrite Hn. unfold inject_Z. ring.
  - rewrite map_map.
    rewrite (sumQ_map_ext (fun e => g (swap e)) (fun e => (-1) * g e)) by (intros e _; rewrite Hg; ring).
    rewrite (sumQ_map_scale (-1) g). rewrite Hn. unfold inject_Z. ring.
Qed.

Lemma normals_sum_zero_comp (g : v3 * v3 -> Q) (comp : v3 -> Q) fs :
  (forall e, g (swap e) == - g e) ->
  (forall ps, comp (face_normal ps) == (1 # 2) * sumQ (map g (loop_edges ps))) ->
  signs3_ok fs -> watertight fs ->
  sumQ (map (fun f => inject_Z (snd f) * comp (face_normal (fst f))) fs) == 0.
Proof.
  intros Hg Hn Hs Hw.
  rewrite (sumQ_map_ext _ (fun f => (1 # 2) * sumQ (map g (oedges f))))
    by (intros f Hf; apply face_signed_normal; auto).
  rewrite (sumQ_map_scale (1 # 2) (fun f => sumQ (map g (oedges f)))).
  rewrite <- (sumQ_flat_map g oedges fs). fold (cell_edges3 fs).
  rewrite (antisym_sum_zero g _ Hg Hw). ring.
Qed.

Lemma normals_sum_zero_3d fs : signs3_ok fs -> watertight fs ->
  sumQ (map (fun f => inject_Z (snd f) * vx (face_normal (fst f))) fs) == 0 /\
  sumQ (map (fun f => inject_Z (snd f) * vy (face_normal (fst f))) fs) == 0 /\
  sumQ (map (fun f => inject_Z (snd f) * vz (face_normal (fst f))) fs) == 0.
Proof.
  intros Hs Hw. repeat split.
  - apply (normals_sum_zero_comp crossx vx); auto using crossx_swap.
    intro ps. apply closed_normal_x. apply loop_closed.
  - apply (normals_sum_zero_comp crossy vy); auto using crossy_swap.
    intro ps. apply closed_normal_y. apply loop_closed.
  - apply (normals_sum_zero_comp crossz vz); auto using crossz_swap.
    intro ps. apply closed_normal_z. apply loop_closed.
Qed.

(* ------------------------------------------------------------------------------------ *)
(* F3: the cell volume does not depend on the temporary centre when the outer sub-normals
   sum to zero *)
Lemma tet_volume_eq t0 t : tet_volume t0 t ==
  ((vx (st_c t) - vx t0) * vx (outer t) + (vy (st_c t) - vy t0) * vy (outer t)
   + (vz (st_c t) - vz t0) * vz (outer t)) / 3.
Proof.
  unfold tet_volume. rewrite Qred_correct. destruct (st_c t) as [[c1 c2] c3], t0 as [[a1 a2] a3].
  destruct (outer t) as [[o1 o2] o3]. vnorm. reflexivity.
Qed.

Definition osum (comp : v3 -> Q) (ts : list subtri) : Q := sumQ (map (fun t => comp (outer t)) ts).

Lemma volume_shift t0 t1 ts :
  cell_volume3 t0 ts - cell_volume3 t1 ts ==
  ((vx t1 - vx t0) * osum vx ts + (vy t1 - vy t0) * osum vy ts + (vz t1 - vz t0) * osum vz ts) / 3.
Proof.
  unfold cell_volume3, osum. rewrite !sumQr_sumQ.
  induction ts as [|t ts IH]; cbn [map]; rewrite ?sumQ_cons.
  - cbn. field.
  - rewrite !tet_volume_eq.
    assert (forall a b c d : Q, a + b - (c + d) == (a - c) + (b - d)) as E by (intros; ring).
    rewrite E, IH. field.
Qed.

Lemma volume_indep_3d t0 t1 ts :
  osum vx ts == 0 -> osum vy ts == 0 -> osum vz ts == 0 ->
  cell_volume3 t0 ts == cell_volume3 t1 ts.
Proof.
  intros Hx Hy Hz. pose proof (volume_shift t0 t1 ts) as H. rewrite Hx, Hy, Hz in H.
  assert (cell_volume3 t0 ts - cell_volume3 t1 ts == 0) as H0 by (rewrite H; field). lra.
Qed.

(* ------------------------------------------------------------------------------------ *)
(* cells of the model: faces (node loop, sign) -> sub-triangles *)
Definition cell_ts (fs : list cface) : list subtri :=
  flat_map (fun f => face_subtris (fst f) (snd f)) fs.
(* all sub-triangles of all faces are oriented like their face (faces star-shaped w.r.t.
   their node mean; in particular convex planar faces) *)
Definition star_faces (fs : list cface) : Prop := forall t, In t (cell_ts fs) -> st_sgn t = 1.

Lemma vx_vscale k a : vx (vscale k a) == k * vx a.  Proof. vnorm. reflexivity. Qed.
Lemma vy_vscale k a : vy (vscale k a) == k * vy a.  Proof. vnorm. reflexivity. Qed.
Lemma vz_vscale k a : vz (vscale k a) == k * vz a.  Proof. vnorm. reflexivity. Qed.

Lemma face_outer_sum (comp : v3 -> Q) f :
  (forall k a, comp (vscale k a) == k * comp a) ->
  (forall l, comp (vsum l) == sumQ (map comp l)) ->
  (forall t, In t (face_subtris (fst f) (snd f)) -> st_sgn t = 1) ->
  osum comp (face_subtris (fst f) (snd f)) == inject_Z (snd f) * comp (face_normal (fst f)).
Proof.
  intros Hsc Hsum Hsg. unfold osum.
  rewrite (sumQ_map_ext _ (fun t => inject_Z (snd f) * comp (st_n t))).
  - rewrite (sumQ_map_scale (inject_Z (snd f)) (fun t => comp (st_n t))).
    unfold face_subtris. rewrite map_map. cbn [st_n].
    unfold face_normal, face_normal_c. rewrite Hsum, map_map. reflexivity.
  - intros t Ht. unfold outer. rewrite Hsc, Qred_correct, (Hsg t Ht).
    unfold face_subtris in Ht. apply in_map_iff in Ht. destruct Ht as (e & <- & _). cbn [st_s st_n]. ring.
Qed.

Lemma cell_outer_sum (g : v3 * v3 -> Q) (comp : v3 -> Q) fs :
  (forall k a, comp (vscale k a) == k * comp a) ->
  (forall l, comp (vsum l) == sumQ (map comp l)) ->
  (forall e, g (swap e) == - g e) ->
  (forall ps, comp (face_normal ps) == (1 # 2) * sumQ (map g (loop_edges ps))) ->
  signs3_ok fs -> watertight fs -> star_faces fs ->
  osum comp (cell_ts fs) == 0.
Proof.
  intros Hsc Hsum Hg Hn Hs Hw Hst. unfold osum, cell_ts.
  rewrite (sumQ_flat_map (fun t => comp (outer t)) (fun f => face_subtris (fst f) (snd f)) fs).
  rewrite (sumQ_map_ext _ (fun f => inject_Z (snd f) * comp (face_normal (fst f)))).
  - apply (normals_sum_zero_comp g comp); auto.
  - intros f Hf. apply (face_outer_sum comp f Hsc Hsum).
    intros t Ht. apply Hst. unfold cell_ts. apply in_flat_map. exists f. auto.
Qed.

Lemma cell_outer_sums fs : signs3_ok fs -> watertight fs -> star_faces fs ->
  osum vx (cell_ts fs) == 0 /\ osum vy (cell_ts fs) == 0 /\ osum vz (cell_ts fs) == 0.
Proof.
  intros Hs Hw Hst. repeat split.
  - apply (cell_outer_sum crossx vx); auto using vx_vscale, vx_vsum, crossx_swap.
    intro ps. apply closed_normal_x. apply loop_closed.
  - apply (cell_outer_sum crossy vy); auto using vy_vscale, vy_vsum, crossy_swap.
    intro ps. apply closed_normal_y. apply loop_closed.
  - apply (cell_outer_sum crossz vz); auto using vz_vscale, vz_vsum, crossz_swap.
    intro ps. apply closed_normal_z. apply loop_closed.
Qed.

Lemma volume_indep_cell fs t0 t1 : signs3_ok fs -> watertight fs -> star_faces fs ->
  cell_volume3 t0 (cell_ts fs) == cell_volume3 t1 (cell_ts fs).
Proof.
  intros Hs Hw Hst. destruct (cell_outer_sums fs Hs Hw Hst) as (Hx & Hy & Hz).
  apply volume_indep_3d; assumption.
Qed.

(* ------------------------------------------------------------------------------------ *)
(* F4: Gauss identity with the code's face centres (planar faces) *)
Lemma vdot_eq a b : vdot a b == vx a * vx b + vy a * vy b + vz a * vz b.
Proof. unfold vdot. apply Qred_correct. Qed.

Lemma vdot_vscale k a b : vdot (vscale k a) b == k * vdot a b.
Proof. rewrite !vdot_eq, vx_vscale, vy_vscale, vz_vscale. ring. Qed.

Lemma vdot_vsum l b : vdot (vsum l) b == sumQ (map (fun a => vdot a b) l).
Proof.
  induction l as [|a l IH].
  - cbn [vsum fold_right map]. rewrite vdot_eq. cbn. ring.
  - cbn [vsum fold_right map]. fold (vsum l). rewrite sumQ_cons, <- IH.
    rewrite !vdot_eq, vx_vadd, vy_vadd, vz_vadd. ring.
Qed.

(* a x N = 0  ->  (s . a) (N . N) = (a . N) (s . N) *)
Lemma parallel_dot s a N : veq (vcross a N) v0 ->
  vdot s a * vdot N N == vdot a N * vdot s N.
Proof.
  intros (Hx & Hy & Hz). rewrite !vdot_eq.
  destruct s as [[s1 s2] s3], a as [[a1 a2] a3], N as [[n1 n2] n3]. vnorm.
  assert ((s1 * a1 + s2 * a2 + s3 * a3) * (n1 * n1 + n2 * n2 + n3 * n3)
          - (a1 * n1 + a2 * n2 + a3 * n3) * (s1 * n1 + s2 * n2 + s3 * n3)
          == s1 * (n2 * (a1 * n2 - a2 * n1) - n3 * (a3 * n1 - a1 * n3))
             + s2 * (n3 * (a2 * n3 - a3 * n2) - n1 * (a1 * n2 - a2 * n1))
             + s3 * (n1 * (a3 * n1 - a1 * n3) - n2 * (a2 * n3 - a3 * n2))) as E by ring.
  rewrite Hx, Hy, Hz in E. lra.
Qed.

Definition planar_star (ps : list v3) : Prop :=
  let c := mean3 ps in let N := face_normal ps in
  (forall e, In e (loop_edges ps) ->
     veq (vcross (sub_normal c e) N) v0 /\ 0 <= vdot (sub_normal c e) N) /\
  0 < vdot N N.

Lemma face_gauss ps : planar_star ps ->
  vdot (face_center ps) (face_normal ps)
  == sumQ (map (fun e => vdot (sub_centroid (mean3 ps) e) (sub_normal (mean3 ps) e)) (loop_edges ps)).
Proof.
  unfold planar_star. cbn zeta. intros [Hall HN].
  set (c := mean3 ps) in *. set (N := face_normal ps) in *. set (es := loop_edges ps) in *.
  assert (sumQr (map (sub_weight c N) es) == vdot N N) as HW.
  { rewrite sumQr_sumQ.
    rewrite (sumQ_map_ext _ (fun e => vdot (sub_normal c e) N)).
    - rewrite <- (map_map (sub_normal c) (fun a => vdot a N)), <- vdot_vsum. reflexivity.
    - intros e He. unfold sub_weight. apply Qabs_pos. apply Hall. exact He. }
  unfold face_center. fold c N es. rewrite vdot_vscale, vdot_vsum, map_map, HW.
  rewrite (sumQ_map_ext (fun e => vdot (vscale (sub_weight c N e) (sub_centroid c e)) N)
             (fun e => vdot N N * vdot (sub_centroid c e) (sub_normal c e))).
  - rewrite (sumQ_map_scale (vdot N N) (fun e => vdot (sub_centroid c e) (sub_normal c e))).
    field. lra.
  - intros e He. destruct (Hall e He) as [Hp Hpos]. rewrite vdot_vscale.
    unfold sub_weight. rewrite (Qabs_pos _ Hpos).
    rewrite (Qmult_comm (vdot N N)). rewrite (parallel_dot _ _ _ Hp). reflexivity.
Qed.

Definition scdot (c : v3) (e : v3 * v3) : Q := vdot (sub_centroid c e) (sub_normal c e).

Lemma tet_volume_at_origin t : 3 * tet_volume v0 t == vdot (st_c t) (outer t).
Proof.
  rewrite tet_volume_eq, vdot_eq. unfold v0, vx, vy, vz. cbn [fst snd]. field.
Qed.

Lemma gauss_3d fs t0 : signs3_ok fs -> watertight fs -> star_faces fs ->
  (forall f, In f fs -> planar_star (fst f)) ->
  sumQ (map (fun f => inject_Z (snd f) * vdot (face_center (fst f)) (face_normal (fst f))) fs)
  == 3 * cell_volume3 t0 (cell_ts fs).
Proof.
  intros Hs Hw Hst Hpl.
  rewrite (volume_indep_cell fs t0 v0 Hs Hw Hst).
  unfold cell_volume3. rewrite sumQr_sumQ.
  rewrite <- (sumQ_map_scale 3 (tet_volume v0)).
  rewrite (sumQ_map_ext (fun t => 3 * tet_volume v0 t) (fun t => vdot (st_c t) (outer t)))
    by (intros; apply tet_volume_at_origin).
  unfold cell_ts.
  rewrite (sumQ_flat_map (fun t => vdot (st_c t) (outer t)) (fun f => face_subtris (fst f) (snd f)) fs).
  apply sumQ_map_ext. intros f Hf.
  rewrite (face_gauss _ (Hpl f Hf)).
  rewrite <- (sumQ_map_scale (inject_Z (snd f))
               (fun e => vdot (sub_centroid (mean3 (fst f)) e) (sub_normal (mean3 (fst f)) e))).
  unfold face_subtris. rewrite map_map. apply sumQ_map_ext. intros e He.
  cbn [st_c]. unfold outer. cbn [st_s st_sgn st_n].
  assert (qsign (vdot (sub_normal (mean3 (fst f)) e) (face_normal (fst f))) = 1) as Hsg.
  { apply (Hst {| st_n := sub_normal (mean3 (fst f)) e;
                  st_sgn := qsign (vdot (sub_normal (mean3 (fst f)) e) (face_normal (fst f)));
                  st_c := sub_centroid (mean3 (fst f)) e; st_fc := face_center (fst f);
                  st_s := inject_Z (snd f) |}).
    unfold cell_ts. apply in_flat_map. exists f. split; auto.
    unfold face_subtris. apply in_map_iff. exists e. auto. }
  rewrite Hsg. rewrite !vdot_eq, vx_vscale, vy_vscale, vz_vscale, Qred_correct. ring.
Qed.

(* ------------------------------------------------------------------------------------ *)
(* soundness of the executable hypothesis checkers evaluated by the tie *)
Definition pair_dec : forall a b : nat * nat, {a = b} + {a <> b}.
Proof. decide equality; apply Nat.eq_dec. Defined.

Lemma pair_eqb_eq a b : pair_eqb a b = true <-> a = b.
Proof.
  unfold pair_eqb. destruct a as [a1 a2], b as [b1 b2]. cbn [fst snd].
  rewrite andb_true_iff, !Nat.eqb_eq. split; [intros [-> ->]; reflexivity|intro H; inversion H; auto].
Qed.

Lemma countp_count_occ l x : countp l x = count_occ pair_dec l x.
Proof.
  unfold countp. induction l as [|a l IH]; [reflexivity|]. cbn [filter count_occ].
  destruct (pair_dec a x) as [->|Hne].
  - assert (pair_eqb x x = true) as -> by (apply pair_eqb_eq; reflexivity). cbn [length]. rewrite IH. reflexivity.
  - assert (pair_eqb x a = false) as ->.
    { destruct (pair_eqb x a) eqn:E; auto. apply pair_eqb_eq in E. congruence. }
    exact IH.
Qed.

Lemma swapi_invol e : swapi (swapi e) = e.
Proof. destruct e; reflexivity. Qed.

Lemma count_occ_map_swapi l x : count_occ pair_dec (map swapi l) x = count_occ pair_dec l (swapi x).
Proof.
  induction l as [|a l IH]; [reflexivity|]. cbn [map count_occ].
  destruct (pair_dec (swapi a) x) as [E|E]; destruct (pair_dec a (swapi x)) as [E'|E']; rewrite ?IH; auto.
  - exfalso. apply E'. rewrite <- E. symmetry. apply swapi_invol.
  - exfalso. apply E. rewrite E'. apply swapi_invol.
Qed.

Lemma counts_reverse_perm E :
  forallb (fun e => Nat.eqb (countp E e) (countp E (swapi e))) E = true ->
  Permutation E (map swapi E).
Proof.
  intro H. rewrite forallb_forall in H.
  assert (forall e, In e E -> count_occ pair_dec E e = count_occ pair_dec E (swapi e)) as Hin.
  { intros e He. specialize (H e He). apply Nat.eqb_eq in H. rewrite !countp_count_occ in H. exact H. }
  apply (Permutation_count_occ pair_dec). intro x. rewrite count_occ_map_swapi.
  destruct (in_dec pair_dec x E) as [Hx|Hx]; [apply Hin; exact Hx|].
  destruct (in_dec pair_dec (swapi x) E) as [Hs|Hs].
  - specialize (Hin _ Hs). rewrite swapi_invol in Hin. symmetry. exact Hin.
  - apply (count_occ_not_In pair_dec) in Hx. apply (count_occ_not_In pair_dec) in Hs. congruence.
Qed.

(* from node numbers to coordinates *)
Definition xnode (g : grid3) (i : nat) : v3 := nth i (k_nodes g) v0.
Definition coord2 (g : grid3) (e : nat * nat) : v3 * v3 := (xnode g (fst e), xnode g (snd e)).
Definition cell_cfaces (g : grid3) (c : nat) : list cface :=
  map (fun x => (face_pts g (fst (fst x)), snd x)) (cell_entries3 g c).

Lemma rot_map {A B} (f : A -> B) l : rot (map f l) = map f (rot l).
Proof. destruct l as [|a l]; [reflexivity|]. cbn [rot map]. rewrite map_app. reflexivity. Qed.

Lemma combine_map2 {A B} (f : A -> B) : forall l l' : list A,
  combine (map f l) (map f l') = map (fun e => (f (fst e), f (snd e))) (combine l l').
Proof. induction l as [|a l IH]; intros [|b l']; cbn; auto. rewrite IH. reflexivity. Qed.

Lemma loop_edges_map g l : loop_edges (map (xnode g) l) = map (coord2 g) (iloop l).
Proof. unfold loop_edges, iloop. rewrite rot_map, combine_map2. reflexivity. Qed.

Lemma cell_subtris_ts g c : cell_subtris g c = cell_ts (cell_cfaces g c).
Proof.
  unfold cell_subtris, cell_ts, cell_cfaces, cell_entries3.
  induction (filter (fun x => Nat.eqb (snd (fst x)) c) (k_cf g)) as [|x l IH]; [reflexivity|].
  cbn [flat_map map fst snd]. rewrite IH. reflexivity.
Qed.

Lemma cell_edges_coord g c : cell_edges3 (cell_cfaces g c) = map (coord2 g) (cell_iedges g c).
Proof.
  unfold cell_edges3, cell_cfaces, cell_iedges.
  induction (cell_entries3 g c) as [|x l IH]; [reflexivity|].
  cbn [flat_map map]. rewrite map_app, IH. f_equal.
  unfold oedges. cbn [fst snd]. unfold face_pts. fold (xnode g). rewrite loop_edges_map.
  destruct (snd x =? 1)%Z; [reflexivity|]. rewrite !map_map. apply map_ext. intros [a b]. reflexivity.
Qed.

Lemma watertight_b_sound g c : watertight_b g c = true ->
  signs3_ok (cell_cfaces g c) /\ watertight (cell_cfaces g c).
Proof.
  unfold watertight_b. intro H. apply andb_true_iff in H. destruct H as [HE HS]. split.
  - intros f Hf. unfold cell_cfaces in Hf. apply in_map_iff in Hf. destruct Hf as (x & <- & Hx).
    rewrite forallb_forall in HS. specialize (HS x Hx). cbn [snd].
    apply orb_true_iff in HS. destruct HS as [E|E]; apply Z.eqb_eq in E; auto.
  - unfold watertight. rewrite cell_edges_coord. apply counts_reverse_perm in HE.
    apply (Permutation_map (coord2 g)) in HE. rewrite !map_map in *.
    erewrite (map_ext (fun x => swap (coord2 g x)) (fun x => coord2 g (swapi x))); [exact HE|].
    intros [a b]. reflexivity.
Qed.

Lemma is_zero3_veq a : is_zero3 a = true -> veq a v0.
Proof.
  unfold is_zero3. intro H. apply andb_true_iff in H. destruct H as [H Hz].
  apply andb_true_iff in H. destruct H as [Hx Hy].
  apply Qeq_bool_iff in Hx, Hy, Hz. unfold veq, v0, vx, vy, vz in *. cbn [fst snd] in *. auto.
Qed.

Lemma qsign_pos x : 0 < x -> qsign x = 1.
Proof. intro H. unfold qsign. destruct (Qlt_le_dec 0 x); [reflexivity|lra]. Qed.

Lemma star_planar_b_sound ps s : star_planar_b ps = true ->
  planar_star ps /\ forall t, In t (face_subtris ps s) -> st_sgn t = 1.
Proof.
  unfold star_planar_b. cbn zeta. intro H. apply andb_true_iff in H. destruct H as [H HN].
  apply andb_true_iff in H. destruct H as [Hpl Hpos].
  unfold planar in Hpl. rewrite forallb_forall in Hpl, Hpos.
  assert (forall e, In e (loop_edges ps) -> 0 < vdot (sub_normal (mean3 ps) e) (face_normal ps)) as Hp.
  { intros e He. specialize (Hpos e He). destruct (Qlt_le_dec 0 _); [assumption|discriminate]. }
  split.
  - unfold planar_star. cbn zeta. split.
    + intros e He. split; [apply is_zero3_veq; apply Hpl; exact He|]. apply Qlt_le_weak. apply Hp. exact He.
    + destruct (Qlt_le_dec 0 _); [assumption|discriminate].
  - intros t Ht. unfold face_subtris in Ht. apply in_map_iff in Ht. destruct Ht as (e & <- & He).
    cbn [st_sgn]. apply qsign_pos. apply Hp. exact He.
Qed.

Lemma cell_hyps_b_sound g c : cell_hyps_b g c = true ->
  signs3_ok (cell_cfaces g c) /\ watertight (cell_cfaces g c) /\ star_faces (cell_cfaces g c) /\
  (forall f, In f (cell_cfaces g c) -> planar_star (fst f)).
Proof.
  unfold cell_hyps_b. intro H. apply andb_true_iff in H. destruct H as [Hw Hs].
  destruct (watertight_b_sound g c Hw) as [H1 H2]. rewrite forallb_forall in Hs.
  split; [exact H1|]. split; [exact H2|]. split.
  - intros t Ht. unfold cell_ts in Ht. apply in_flat_map in Ht. destruct Ht as (f & Hf & Ht).
    unfold cell_cfaces in Hf. apply in_map_iff in Hf. destruct Hf as (x & <- & Hx). cbn [fst snd] in Ht.
    exact (proj2 (star_planar_b_sound _ (snd x) (Hs x Hx)) t Ht).
  - intros f Hf. unfold cell_cfaces in Hf. apply in_map_iff in Hf. destruct Hf as (x & <- & Hx). cbn [fst].
    exact (proj1 (star_planar_b_sound _ 1%Z (Hs x Hx))).
Qed.

(* the three statements for a cell of the model *)
Lemma cell_theorem_3d g c : cell_hyps_b g c = true ->
  let fs := cell_cfaces g c in
  (sumQ (map (fun f => inject_Z (snd f) * vx (face_normal (fst f))) fs) == 0 /\
   sumQ (map (fun f => inject_Z (snd f) * vy (face_normal (fst f))) fs) == 0 /\
   sumQ (map (fun f => inject_Z (snd f) * vz (face_normal (fst f))) fs) == 0) /\
  (forall t0 t1, cell_volume3 t0 (cell_subtris g c) == cell_volume3 t1 (cell_subtris g c)) /\
  (forall t0, sumQ (map (fun f => inject_Z (snd f) * vdot (face_center (fst f)) (face_normal (fst f))) fs)
              == 3 * cell_volume3 t0 (cell_subtris g c)).
Proof.
  intro H. cbn zeta. destruct (cell_hyps_b_sound g c H) as (H1 & H2 & H3 & H4).
  rewrite cell_subtris_ts. split; [apply normals_sum_zero_3d; assumption|]. split.
  - intros t0 t1. apply volume_indep_cell; assumption.
  - intro t0. apply gauss_3d; assumption.
Qed.

Lemma existsb_false_in {A} (f : A -> bool) l : existsb f l = false ->
  forall x, In x l -> f x = false.
Proof.
  induction l as [|a l IH]; intros H x []; cbn in H; apply orb_false_iff in H; destruct H; subst; auto.
Qed.

(* what geometry3 returns *)
Lemma geometry3_ok g r : geometry3 g = G3Ok r ->
  let fs := map (face_pts g) (seq 0 (length (k_faces g))) in
  let cells := map (cell_subtris g) (seq 0 (k_nc g)) in
  q_fn r = map face_normal fs /\ q_fc r = map face_center fs /\ q_area2 r = map face_area2 fs /\
  q_vol r = map (fun ts => cell_volume3 (tmp_center ts) ts) cells /\
  q_cc r = map (fun ts => cell_center3 (tmp_center ts) ts) cells /\
  (forall ts t, In ts cells -> In t ts -> - (1 # 1000000000000) < tet_volume (tmp_center ts) t).
Proof.
  unfold geometry3. destruct (forallb planar _); cbn [negb]; [|discriminate].
  destruct (existsb _ _) eqn:EV; [discriminate|]. intro E. injection E as <-.
  cbn [q_fn q_fc q_area2 q_vol q_cc]. repeat (split; [reflexivity|]).
  intros ts t Hts Ht.
  pose proof (existsb_false_in _ _ EV ts Hts) as H1. cbn zeta in H1.
  pose proof (existsb_false_in _ _ H1 t Ht) as H2. cbn beta in H2.
  destruct (Qlt_le_dec (- (1 # 1000000000000)) (tet_volume (tmp_center ts) t)) as [L|L]; [exact L|].
  exfalso. apply Qle_bool_iff in L. congruence.
Qed.
