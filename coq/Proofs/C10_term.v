(* C10 — the time loop of the product run terminates: the number of attempted time steps of
   ANY run is bounded by a number that depends only on the TimeManager configuration
   (exact real arithmetic, C09_main's hypotheses).  Uses the potential argument of
   Proofs/C10_term09.v through the clock projection Proofs.C10.simulate_ok. *)
From Coq Require Import List ZArith Bool Arith Lia Reals Lra.
Import ListNotations.
From PP Require Model.C08 Model.C09 Proofs.C09 Proofs.C10_term09.
From PP Require Import Model.C10 Model.C10_ext Proofs.C10.

Local Open Scope R_scope.

Lemma count_conv_clock (V : Type) (tr : list (entry V R)) :
  C10_term09.count_conv (map clock_of tr) = n_converged tr.
Proof.
  unfold n_converged. induction tr as [|e tr IH]; [reflexivity|].
  cbn [map filter]. unfold clock_of at 1, ev_of at 1, is_conv at 1.
  destruct (e_res e); cbn [C10_term09.count_conv length]; rewrite IH; reflexivity.
Qed.

Lemma count_fail_clock (V : Type) (tr : list (entry V R)) :
  C10_term09.count_fail (map clock_of tr) = n_failed tr.
Proof.
  unfold n_failed. induction tr as [|e tr IH]; [reflexivity|].
  cbn [map filter]. unfold clock_of at 1, ev_of at 1, is_conv at 1.
  destruct (e_res e); cbn [C10_term09.count_fail length negb]; rewrite IH; reflexivity.
Qed.

Lemma count_total (V T : Type) (tr : list (entry V T)) :
  length tr = (n_converged tr + n_failed tr)%nat.
Proof.
  unfold n_converged, n_failed. induction tr as [|e tr IH]; [reflexivity|].
  cbn [filter length]. destruct (is_conv e); cbn [negb length]; lia.
Qed.

Theorem terminates :
  forall (V : Type) (vadd : V -> V -> V) (dI dT : nat) (maxit : Z)
         (a : C09.args R) (sched : list R) (v0 : V) (solves : list (list (V * bool * bool)))
         (c : C09.cfg R) (st0 : store V) (tr : list (entry V R)) (sp : stop),
    (1 <= dI)%nat -> (1 <= dT)%nat ->
    simulate V vadd R C09.ROps maxit a sched (map Z.of_nat (seq 0 dI)) (map Z.of_nat (seq 0 dT))
             v0 solves = inl (c, st0, (tr, sp)) ->
    C09.a_constant a = false ->
    0 < C09.dt_min c -> 0 <= C09.a_rtol a -> 0 <= C09.a_atol a ->
    C09.well_separated (C09.a_rtol a) (C09.a_atol a) sched ->
    C09.a_dt_init a <= nth 1 sched 0 - nth 0 sched 0 ->
    INR (n_converged tr) * C09.dt_min c
      <= (last sched 0 - nth 0 sched 0) + INR (length sched - 1) * C09.dt_min c /\
    (Z.of_nat (n_failed tr) <= (Z.of_nat (n_converged tr) + 1) * C09.recomp_max c + 1)%Z /\
    length tr = (n_converged tr + n_failed tr)%nat.
Proof.
  intros V vadd dI dT maxit a sched v0 solves c st0 tr sp HdI HdT Hs Hc Hmin Hrt Hat Hsep Hinit.
  destruct (simulate_ok V vadd R C09.ROps dI dT HdI HdT maxit v0 _ _ _ _ _ _ _ Hs)
    as [_ [_ [_ [_ H09]]]].
  split; [|split; [|apply count_total]].
  all: unfold C09.simulate in H09;
    destruct (C09.construct R C09.ROps a sched) as [c'|e] eqn:Ec; [|discriminate];
    assert (Hcc : c' = c) by congruence; subst c';
    assert (Hd : C09.drive R C09.ROps c sched (C09.init_state R C09.ROps c sched)
                           (map ev_of tr) = (map clock_of tr, stop_of sp)) by congruence;
    clear H09;
    destruct (C09.construct_ok a sched c Ec Hc)
      as (Kc & Kdt & Krt & Kat & Klen & Knn & Kpos & Klo & Khi & _ & _ & _ & _ & _ & _ & Krm &
          _ & _ & _ & _ & _ & _ & _ & Krmpos);
    assert (Hminmax : C09.dt_min c <= C09.dt_max c) by lra;
    assert (Hrtol : 0 <= C09.rtol c) by (rewrite Krt; exact Hrt);
    assert (Hatol : 0 <= C09.atol c) by (rewrite Kat; exact Hat);
    assert (Hnn : 0 <= C09.s sched 0) by exact Knn;
    assert (Hsep' : forall j, (S j <= C09.n sched)%nat ->
              C09.s sched j + C09.tol c (C09.s sched (S j)) < C09.s sched (S j))
      by (intros j Hj; unfold C09.s, C09.tol; rewrite Krt, Kat; apply Hsep;
          unfold C09.n in Hj; lia);
    set (x0 := C09.init_state R C09.ROps c sched) in *;
    assert (HI : C09.Inv c sched x0 1)
      by (unfold C09.Inv, x0, C09.init_state; cbn [C09.time C09.dt C09.idx C09.about]; C09.rops;
          assert (Hhd : hd 0 sched = nth 0 sched 0) by (destruct sched; reflexivity);
          rewrite Hhd; unfold C09.s, C09.n; rewrite Kdt in *;
          repeat split; try lia; try lra; try discriminate);
    assert (Hrc : (0 <= C09.recomp x0 <= C09.recomp_max c)%Z)
      by (unfold x0, C09.init_state; cbn [C09.recomp]; lia);
    destruct (C10_term09.bound c sched Kc Hmin Hminmax Hrtol Hatol Klen Hnn Hsep'
                               (map ev_of tr) x0 1 HI Hrc) as [B1 B2];
    rewrite Hd in B1, B2; cbn [fst] in B1, B2;
    rewrite count_conv_clock in B1, B2; rewrite count_fail_clock in B2.
  - unfold C10_term09.phi in B1.
    assert (Ht0 : C09.time x0 = nth 0 sched 0).
    { unfold x0, C09.init_state; cbn [C09.time]; C09.rops. destruct sched; reflexivity. }
    rewrite Ht0 in B1. rewrite (C09.last_nth_R sched 0).
    change (C09.s sched (C09.n sched)) with (nth (length sched - 1) sched 0) in B1.
    change (C09.n sched) with (length sched - 1)%nat in B1.
    change (INR 1) with 1 in B1. lra.
  - unfold x0, C09.init_state in B2; cbn [C09.recomp] in B2. nia.
Qed.

(* ---------------- the loop is never starved by sufficient inputs ---------------- *)
Section Starved.
  Variable V : Type.
  Variable vadd : V -> V -> V.
  Variable T : Type.
  Variable O : C09.numops T.
  Variables maxit dI dT : Z.
  Variable c : C09.cfg T.
  Variable sched : list T.

  Lemma newton_out inp : forall st k,
      n_res (newton V vadd maxit dI st k inp) = NOut ->
      (Z.of_nat (length inp) + k <= maxit)%Z.
  Proof.
    induction inp as [|[[inc cv] dv] inp IH]; intros st k H; cbn [newton] in H.
    - destruct (k <=? maxit)%Z eqn:E; [|discriminate]. apply Z.leb_le in E. cbn [length]. lia.
    - destruct (k <=? maxit)%Z eqn:E; [|discriminate].
      destruct (after_iteration V vadd dI st inc) as [st1 [e|]]; [discriminate|].
      destruct dv; [discriminate|]. destruct cv; [discriminate|].
      cbn [n_res] in H. apply IH in H. cbn [length]. lia.
  Qed.

  Lemma drive_out : forall solves s st tr,
      drive V vadd T O maxit dI dT c sched s st solves = (tr, OutOfEvents) ->
      length tr = length solves \/
      exists inp, nth_error solves (length tr) = Some inp /\
                  (Z.of_nat (length inp) <= maxit)%Z.
  Proof.
    induction solves as [|inp solves IH]; intros s st tr H; cbn [drive] in H.
    - destruct (C09.final_time_reached T O c sched s); inversion H. left. reflexivity.
    - destruct (C09.final_time_reached T O c sched s); [discriminate|].
      destruct (oerr V (snd (C08.step vadd (tss st) (C08.OpGet 0)))); [discriminate|].
      destruct (n_res (newton V vadd maxit dI st 0 inp)) as [k| | |e] eqn:Eres.
      + set (h := after_convergence V vadd T O c sched dT _ _ k) in H.
        destruct (h_exc h) as [[e|e]|]; try discriminate.
        destruct (drive V vadd T O maxit dI dT c sched (h_clock h) (h_store h) solves)
          as [tr' sp'] eqn:Erec.
        inversion H; subst. destruct (IH _ _ _ Erec) as [Hl | [i [Hn Hi]]].
        * left. cbn [length]. lia.
        * right. exists i. split; [exact Hn|exact Hi].
      + set (h := after_failure V vadd T O c sched _ _) in H.
        destruct (h_exc h) as [[e|e]|]; try discriminate.
        destruct (drive V vadd T O maxit dI dT c sched (h_clock h) (h_store h) solves)
          as [tr' sp'] eqn:Erec.
        inversion H; subst. destruct (IH _ _ _ Erec) as [Hl | [i [Hn Hi]]].
        * left. cbn [length]. lia.
        * right. exists i. split; [exact Hn|exact Hi].
      + inversion H; subst. right. exists inp. split; [reflexivity|].
        apply newton_out in Eres. lia.
      + discriminate.
  Qed.
End Starved.

(* If the run stopped because the scripted inputs ran out, then either every scripted solve
   was consumed or the solve that was cut short had fewer inputs than the iteration budget. *)
Theorem never_starved :
  forall (V : Type) (vadd : V -> V -> V) (T : Type) (O : C09.numops T) (maxit : Z)
         (a : C09.args T) (sched : list T) (iti tsi : list Z) (v0 : V)
         (solves : list (list (V * bool * bool)))
         (c : C09.cfg T) (st0 : store V) (tr : list (entry V T)),
    simulate V vadd T O maxit a sched iti tsi v0 solves = inl (c, st0, (tr, OutOfEvents)) ->
    length tr = length solves \/
    exists inp, nth_error solves (length tr) = Some inp /\
                (Z.of_nat (length inp) <= maxit)%Z.
Proof.
  intros V vadd T O maxit a sched iti tsi v0 solves c st0 tr H. unfold simulate in H.
  destruct (C09.construct T O a sched) as [c'|e]; [|discriminate].
  destruct (init V vadd iti tsi v0) as [st [e|]]; [discriminate|].
  assert (Hd : drive V vadd T O maxit (Z.of_nat (length iti)) (Z.of_nat (length tsi)) c' sched
                     (C09.init_state T O c' sched) st solves = (tr, OutOfEvents)) by congruence.
  exact (drive_out V vadd T O maxit _ _ c' sched solves _ _ _ Hd).
Qed.
