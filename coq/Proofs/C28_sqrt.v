(* C28 — the squared forms of the tolerance tests used in Model/C28.v are equivalent to
   the sqrt forms of the code (over R, for tol >= 0 and squared lengths n >= 0). *)
From Coq Require Import Reals Lra.
Open Scope R_scope.

Lemma abs_lt_sq : forall x y, 0 <= y -> (Rabs x < y <-> x * x < y * y).
Proof.
  intros x y Hy. split; intro H.
  - assert (Ha := Rabs_pos x).
    replace (x * x) with (Rabs x * Rabs x).
    + apply Rmult_le_0_lt_compat; lra.
    + unfold Rabs. destruct (Rcase_abs x); ring.
  - destruct (Rlt_le_dec (Rabs x) y) as [L | L]; [exact L|].
    exfalso.
    assert (y * y <= Rabs x * Rabs x) by (apply Rmult_le_compat; lra).
    replace (Rabs x * Rabs x) with (x * x) in H0.
    + lra.
    + unfold Rabs. destruct (Rcase_abs x); ring.
Qed.

Lemma abs_gt_sq : forall x y, 0 <= y -> (Rabs x > y <-> x * x > y * y).
Proof.
  intros x y Hy. split; intro H.
  - assert (y * y < Rabs x * Rabs x) by (apply Rmult_le_0_lt_compat; lra).
    replace (Rabs x * Rabs x) with (x * x) in H0; [lra|].
    unfold Rabs. destruct (Rcase_abs x); ring.
  - destruct (Rlt_le_dec y (Rabs x)) as [L | L]; [exact L|].
    exfalso. assert (Ha := Rabs_pos x).
    assert (Rabs x * Rabs x <= y * y) by (apply Rmult_le_compat; lra).
    replace (Rabs x * Rabs x) with (x * x) in H0; [lra|].
    unfold Rabs. destruct (Rcase_abs x); ring.
Qed.

(* |discr| < tol * length_1 * length_2 *)
Lemma parallel_test_squared : forall tol discr n1 n2,
  0 <= tol -> 0 <= n1 -> 0 <= n2 ->
  (Rabs discr < tol * sqrt n1 * sqrt n2 <-> discr * discr < tol * tol * (n1 * n2)).
Proof.
  intros tol x n1 n2 Ht H1 H2.
  assert (S1 := sqrt_pos n1). assert (S2 := sqrt_pos n2).
  assert (Hy : 0 <= tol * sqrt n1 * sqrt n2).
  { repeat apply Rmult_le_pos; assumption. }
  rewrite (abs_lt_sq x _ Hy).
  replace (tol * sqrt n1 * sqrt n2 * (tol * sqrt n1 * sqrt n2))
    with (tol * tol * ((sqrt n1 * sqrt n1) * (sqrt n2 * sqrt n2))) by ring.
  rewrite (sqrt_sqrt n1 H1), (sqrt_sqrt n2 H2). tauto.
Qed.

(* |start_cross_line| < tol * max(length_1, length_2) *)
Lemma colinear_test_squared : forall tol x n1 n2,
  0 <= tol -> 0 <= n1 -> 0 <= n2 ->
  (Rabs x < tol * Rmax (sqrt n1) (sqrt n2) <-> x * x < tol * tol * Rmax n1 n2).
Proof.
  intros tol x n1 n2 Ht H1 H2.
  assert (E : Rmax (sqrt n1) (sqrt n2) = sqrt (Rmax n1 n2)).
  { unfold Rmax. destruct (Rle_dec n1 n2) as [L | L];
      destruct (Rle_dec (sqrt n1) (sqrt n2)) as [L' | L']; try reflexivity.
    - exfalso. apply L'. apply sqrt_le_1; lra.
    - assert (n2 <= n1) by lra. apply Rle_antisym; [apply sqrt_le_1; lra|assumption]. }
  rewrite E.
  assert (Hm : 0 <= Rmax n1 n2) by (unfold Rmax; destruct (Rle_dec n1 n2); lra).
  assert (S := sqrt_pos (Rmax n1 n2)).
  assert (Hy : 0 <= tol * sqrt (Rmax n1 n2)) by (apply Rmult_le_pos; assumption).
  rewrite (abs_lt_sq x _ Hy).
  replace (tol * sqrt (Rmax n1 n2) * (tol * sqrt (Rmax n1 n2)))
    with (tol * tol * (sqrt (Rmax n1 n2) * sqrt (Rmax n1 n2))) by ring.
  rewrite (sqrt_sqrt _ Hm). tauto.
Qed.

(* |d| > tol * length *)
Lemma axis_test_squared : forall tol x n,
  0 <= tol -> 0 <= n -> (Rabs x > tol * sqrt n <-> x * x > tol * tol * n).
Proof.
  intros tol x n Ht Hn. assert (S := sqrt_pos n).
  assert (Hy : 0 <= tol * sqrt n) by (apply Rmult_le_pos; assumption).
  rewrite (abs_gt_sq x _ Hy).
  replace (tol * sqrt n * (tol * sqrt n)) with (tol * tol * (sqrt n * sqrt n)) by ring.
  rewrite (sqrt_sqrt _ Hn). tauto.
Qed.
