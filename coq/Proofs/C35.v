(* C35 — lemmas and proofs about PP.Model.C35 / PP.Lib.Csr. *)
From Coq Require Import List ZArith Bool Arith Lia.
Import ListNotations.
From PP Require Import Lib.Csr Model.C35.

(* ================================================================ generic list facts *)

Lemma upd_app_len : forall {E} (pre : list E) x r p v,
  length pre = p -> upd (pre ++ x :: r) p v = pre ++ v :: r.
Proof.
  induction pre as [|a pre IH]; intros x r p v H; simpl in *; subst; [reflexivity|].
  simpl. f_equal. apply IH. reflexivity.
Qed.

Lemma cumsum_acc_app : forall l1 l2 a,
  cumsum_acc a (l1 ++ l2) = cumsum_acc a l1 ++ cumsum_acc (a + sumZ l1)%Z l2.
Proof.
  induction l1 as [|x l1 IH]; intros l2 a; simpl.
  - f_equal. lia.
  - f_equal. rewrite IH. f_equal. f_equal. lia.
Qed.

Lemma sumZ_repeat : forall v n, sumZ (repeat v n) = (v * Z.of_nat n)%Z.
Proof. induction n as [|n IH]; simpl; [lia|]. rewrite IH. lia. Qed.

Lemma cumsum_acc_ones : forall n a,
  cumsum_acc a (repeat 1%Z n) = map (fun k => (a + 1 + Z.of_nat k)%Z) (seq 0 n).
Proof.
  induction n as [|n IH]; intros a; simpl; [reflexivity|].
  f_equal; [lia|]. rewrite IH, <- seq_shift, map_map. apply map_ext. intros k. lia.
Qed.

Lemma cumsum_acc_zeros : forall n a, cumsum_acc a (repeat 0%Z n) = repeat a n.
Proof.
  induction n as [|n IH]; intros a; simpl; [reflexivity|].
  replace (a + 0)%Z with a by lia. f_equal. apply IH.
Qed.

Lemma combine_map_same : forall {A B C} (f : A -> B) (g : A -> C) l,
  combine (map f l) (map g l) = map (fun x => (f x, g x)) l.
Proof. induction l; simpl; congruence. Qed.

Lemma combine_fst_snd : forall {A B} (l : list (A * B)), combine (map fst l) (map snd l) = l.
Proof. induction l as [|[a b] l IH]; simpl; congruence. Qed.

Lemma mask_fst : forall {A B} (f : A * B -> bool) (l1 : list A) (l2 : list B),
  length l1 = length l2 ->
  mask (map f (combine l1 l2)) l1 = map fst (filter f (combine l1 l2)).
Proof.
  induction l1 as [|a l1 IH]; intros [|b l2] H; simpl in *; try discriminate; try reflexivity.
  destruct (f (a, b)); simpl; rewrite IH by lia; reflexivity.
Qed.

Lemma mask_snd : forall {A B} (f : A * B -> bool) (l1 : list A) (l2 : list B),
  length l1 = length l2 ->
  mask (map f (combine l1 l2)) l2 = map snd (filter f (combine l1 l2)).
Proof.
  induction l1 as [|a l1 IH]; intros [|b l2] H; simpl in *; try discriminate; try reflexivity.
  destruct (f (a, b)); simpl; rewrite IH by lia; reflexivity.
Qed.

Lemma existsb_map_filter : forall {A} (f : A -> bool) l,
  existsb (fun b => b) (map f l) = false -> filter f l = [].
Proof.
  induction l as [|a l IH]; simpl; [reflexivity|]. intros H.
  apply orb_false_iff in H. destruct H as [H1 H2]. rewrite H1. auto.
Qed.

(* ================================================================ expand_index_pointers *)

Definition posb (p : Z * Z) : bool := (fst p + 1 <=? snd p)%Z.
Definition len (q : Z * Z) : Z := (snd q - fst q)%Z.
Definition positive (q : Z * Z) : Prop := (fst q + 1 <= snd q)%Z.

Lemma zrange_empty : forall l h, (h <= l)%Z -> zrange l h = [].
Proof. intros l h H. unfold zrange. replace (Z.to_nat (h - l)) with 0 by lia. reflexivity. Qed.

Lemma zrange_cons : forall l h, (l < h)%Z ->
  zrange l h = l :: map (fun k => (l + 1 + Z.of_nat k)%Z) (seq 0 (Z.to_nat (h - l - 1))).
Proof.
  intros l h H. unfold zrange.
  replace (Z.to_nat (h - l)) with (S (Z.to_nat (h - l - 1))) by lia.
  simpl. f_equal; [lia|]. rewrite <- seq_shift, map_map. apply map_ext. intros k. lia.
Qed.

Lemma flat_map_filter_pos : forall ps,
  flat_map (fun p => zrange (fst p) (snd p)) (filter posb ps)
  = flat_map (fun p => zrange (fst p) (snd p)) ps.
Proof.
  induction ps as [|p ps IH]; simpl; [reflexivity|].
  destruct (posb p) eqn:E; simpl; rewrite IH; [reflexivity|].
  rewrite zrange_empty; [reflexivity|]. unfold posb in E. lia.
Qed.

Lemma filter_positive : forall ps, Forall positive (filter posb ps).
Proof.
  intros ps. apply Forall_forall. intros q Hq. apply filter_In in Hq.
  destruct Hq as [_ Hq]. unfold posb in Hq. unfold positive. lia.
Qed.

Lemma sumZ_len_nonneg : forall r, Forall positive r -> (0 <= sumZ (map len r))%Z.
Proof.
  induction 1 as [|q r Hq _ IH]; simpl; [lia|]. unfold positive, len in *. lia.
Qed.

(* positions and values of the scattered interval starts *)
Fixpoint pv (acc prevh : Z) (r : list (Z * Z)) : list (Z * Z) :=
  match r with
  | [] => []
  | q :: r' => (acc, (fst q - prevh)%Z) :: pv (acc + len q)%Z (snd q - 1)%Z r'
  end.

(* the array x before the final cumsum *)
Fixpoint blocks (prevh : Z) (r : list (Z * Z)) : list Z :=
  match r with
  | [] => []
  | q :: r' => (fst q - prevh)%Z :: repeat 1%Z (Z.to_nat (len q - 1)) ++ blocks (snd q - 1)%Z r'
  end.

Lemma pos_pv : forall r a n0 h,
  cumsum_acc a (removelast (n0 :: map len r)) = map fst (pv (a + n0)%Z h r).
Proof.
  induction r as [|q r IH]; intros a n0 h; [reflexivity|].
  change (removelast (n0 :: map len (q :: r))) with (n0 :: removelast (len q :: map len r)).
  simpl cumsum_acc. simpl pv. simpl map. f_equal. apply IH.
Qed.

Lemma val_pv : forall r h0 a,
  map (fun p => (fst p - snd p)%Z)
      (combine (map fst r) (removelast (h0 :: map (fun q => (snd q - 1)%Z) r)))
  = map snd (pv a h0 r).
Proof.
  induction r as [|q r IH]; intros h0 a; [reflexivity|].
  change (removelast (h0 :: map (fun q0 => (snd q0 - 1)%Z) (q :: r)))
    with (h0 :: removelast ((snd q - 1)%Z :: map (fun q0 => (snd q0 - 1)%Z) r)).
  simpl. f_equal. apply IH.
Qed.

Lemma scatter_pv : forall r pre prevh, Forall positive r ->
  scatter (pre ++ repeat 1%Z (Z.to_nat (sumZ (map len r))))
          (map Z.to_nat (map fst (pv (Z.of_nat (length pre)) prevh r)))
          (map snd (pv (Z.of_nat (length pre)) prevh r))
  = pre ++ blocks prevh r.
Proof.
  induction r as [|q r IH]; intros pre prevh H; [reflexivity|].
  inversion H as [|q' r' Hq Hr]; subst.
  pose proof (sumZ_len_nonneg r Hr) as Hs.
  assert (Hl : (1 <= len q)%Z) by (unfold positive, len in *; lia).
  simpl pv. simpl map. simpl scatter. rewrite Nat2Z.id.
  replace (Z.to_nat (len q + sumZ (map len r)))
    with (S (Z.to_nat (len q - 1)) + Z.to_nat (sumZ (map len r))) by lia.
  rewrite repeat_app. simpl repeat. simpl app.
  rewrite upd_app_len by reflexivity.
  set (v := (fst q - prevh)%Z).
  set (pre' := pre ++ v :: repeat 1%Z (Z.to_nat (len q - 1))).
  replace (Z.of_nat (length pre) + len q)%Z with (Z.of_nat (length pre')).
  2:{ unfold pre'. rewrite app_length. simpl. rewrite repeat_length. lia. }
  replace (pre ++ v :: repeat 1%Z (Z.to_nat (len q - 1)) ++ repeat 1%Z (Z.to_nat (sumZ (map len r))))
    with (pre' ++ repeat 1%Z (Z.to_nat (sumZ (map len r)))).
  2:{ unfold pre'. rewrite <- app_assoc. reflexivity. }
  rewrite IH by assumption. unfold pre'. rewrite <- app_assoc. reflexivity.
Qed.

Lemma cumsum_blocks : forall r prev, Forall positive r ->
  cumsum_acc prev (blocks prev r) = flat_map (fun q => zrange (fst q) (snd q)) r.
Proof.
  induction r as [|q r IH]; intros prev H; [reflexivity|].
  inversion H as [|q' r' Hq Hr]; subst.
  assert (Hl : (1 <= len q)%Z) by (unfold positive, len in *; lia).
  simpl blocks. simpl cumsum_acc. simpl flat_map.
  rewrite cumsum_acc_app, cumsum_acc_ones, sumZ_repeat, Z.mul_1_l.
  unfold len in *. rewrite (zrange_cons (fst q) (snd q)) by lia. simpl.
  f_equal; [lia|]. f_equal.
  - replace (snd q - fst q - 1)%Z with (snd q - fst q - 1)%Z by lia.
    apply map_ext. intros k. lia.
  - rewrite <- (IH (snd q - 1)%Z) by assumption. f_equal. lia.
Qed.

Lemma bc_id : forall (lo hi : list Z), length lo = length hi ->
  (if length lo =? 1 then repeat (hd 0%Z lo) (length hi) else lo) = lo.
Proof.
  intros lo hi H. destruct (length lo =? 1) eqn:E; [|reflexivity].
  apply Nat.eqb_eq in E. rewrite <- H, E. destruct lo as [|a [|b lo]]; simpl in *; try discriminate.
  reflexivity.
Qed.

Lemma expand_main : forall lo hi, length lo = length hi ->
  expand_index_pointers lo hi
  = Ok (flat_map (fun p => zrange (fst p) (snd p)) (combine lo hi)).
Proof.
  intros lo hi H. unfold expand_index_pointers.
  rewrite (bc_id lo hi H). rewrite (bc_id hi lo (eq_sym H)).
  rewrite H, Nat.eqb_refl. simpl negb. cbv iota.
  change (fun p : Z * Z => (fst p + 1 <=? snd p)%Z) with posb.
  rewrite <- flat_map_filter_pos.
  destruct (existsb (fun b => b) (map posb (combine lo hi))) eqn:Ex.
  2:{ simpl. rewrite (existsb_map_filter _ _ Ex). reflexivity. }
  simpl negb. cbv iota.
  rewrite (mask_fst posb lo hi H), (mask_snd posb lo hi H).
  pose proof (filter_positive (combine lo hi)) as Hpos.
  destruct (filter posb (combine lo hi)) as [|q0 rest] eqn:Eq.
  { (* impossible: some interval is non-empty *)
    exfalso. apply existsb_exists in Ex. destruct Ex as [b [Hb Hb']]. subst b.
    apply in_map_iff in Hb. destruct Hb as [p [Hp Hin]].
    assert (In p (filter posb (combine lo hi))) by (apply filter_In; auto).
    rewrite Eq in H0. contradiction. }
  f_equal. rewrite map_map.
  rewrite (combine_map_same fst (fun q => (snd q - 1)%Z)). rewrite map_map.
  rewrite (map_ext (fun x : Z * Z => (snd (fst x, (snd x - 1)%Z) - fst (fst x, (snd x - 1)%Z) + 1)%Z) len)
    by (intros x; unfold len; simpl; lia).
  inversion Hpos as [|q' r' Hq0 Hrest]; subst.
  pose proof (sumZ_len_nonneg rest Hrest) as Hs.
  assert (Hl : (1 <= len q0)%Z) by (unfold positive, len in *; lia).
  cbn [map hd tl]. change (sumZ (len q0 :: map len rest)) with (len q0 + sumZ (map len rest))%Z.
  replace (Z.to_nat (len q0 + sumZ (map len rest)))
    with (S (Z.to_nat (len q0 - 1)) + Z.to_nat (sumZ (map len rest))) by lia.
  rewrite repeat_app. simpl repeat. simpl app. simpl upd.
  unfold cumsum at 2. rewrite (pos_pv rest 0%Z (len q0) (snd q0 - 1)%Z).
  rewrite (val_pv rest (snd q0 - 1)%Z (0 + len q0)%Z).
  set (pre := fst q0 :: repeat 1%Z (Z.to_nat (len q0 - 1))).
  replace (0 + len q0)%Z with (Z.of_nat (length pre)).
  2:{ unfold pre. simpl. rewrite repeat_length. lia. }
  change (fst q0 :: repeat 1%Z (Z.to_nat (len q0 - 1)) ++ repeat 1%Z (Z.to_nat (sumZ (map len rest))))
    with (pre ++ repeat 1%Z (Z.to_nat (sumZ (map len rest)))).
  rewrite scatter_pv by assumption.
  unfold cumsum. rewrite <- (cumsum_blocks (q0 :: rest) 0%Z Hpos).
  simpl blocks. unfold pre. simpl. rewrite Z.sub_0_r. reflexivity.
Qed.

(* ---- broadcasting of a single bound, and the error branch *)

Lemma flat_map_combine_repeat_l : forall {A B C} (f : A * B -> list C) a (l : list B),
  flat_map f (combine (repeat a (length l)) l) = flat_map (fun h => f (a, h)) l.
Proof. induction l as [|x l IH]; simpl; congruence. Qed.

Lemma flat_map_combine_repeat_r : forall {A B C} (f : A * B -> list C) b (l : list A),
  flat_map f (combine l (repeat b (length l))) = flat_map (fun x => f (x, b)) l.
Proof. induction l as [|x l IH]; simpl; congruence. Qed.

Lemma expand_bc_lo : forall a hi, length hi <> 1 ->
  expand_index_pointers [a] hi = Ok (flat_map (fun h => zrange a h) hi).
Proof.
  intros a hi H.
  assert (E : expand_index_pointers [a] hi = expand_index_pointers (repeat a (length hi)) hi).
  { unfold expand_index_pointers. rewrite repeat_length.
    apply Nat.eqb_neq in H. cbn [length hd]. rewrite H. reflexivity. }
  rewrite E, expand_main by apply repeat_length.
  f_equal. apply (flat_map_combine_repeat_l (fun p => zrange (fst p) (snd p))).
Qed.

Lemma expand_bc_hi : forall lo b, length lo <> 1 ->
  expand_index_pointers lo [b] = Ok (flat_map (fun l => zrange l b) lo).
Proof.
  intros lo b H.
  assert (E : expand_index_pointers lo [b] = expand_index_pointers lo (repeat b (length lo))).
  { unfold expand_index_pointers. rewrite repeat_length.
    apply Nat.eqb_neq in H. cbn [length hd Nat.eqb]. rewrite H. reflexivity. }
  rewrite E, expand_main by (symmetry; apply repeat_length).
  f_equal. apply (flat_map_combine_repeat_r (fun p => zrange (fst p) (snd p))).
Qed.

Lemma expand_mismatch : forall lo hi,
  length lo <> 1 -> length hi <> 1 -> length lo <> length hi ->
  expand_index_pointers lo hi = Err ValueErr.
Proof.
  intros lo hi H1 H2 H3. unfold expand_index_pointers.
  apply Nat.eqb_neq in H1, H2. rewrite H1, H2.
  apply Nat.eqb_neq in H3. rewrite H3. reflexivity.
Qed.

(* ---- natural-number pointers *)

Lemma map_add_seq : forall a n s, map (fun k => a + k) (seq s n) = seq (a + s) n.
Proof.
  induction n as [|n IH]; intros s; simpl; [reflexivity|]. f_equal.
  rewrite IH. f_equal. lia.
Qed.

Lemma zrange_nat : forall a b, map Z.to_nat (zrange (Z.of_nat a) (Z.of_nat b)) = seq a (b - a).
Proof.
  intros a b. unfold zrange. rewrite map_map.
  replace (Z.to_nat (Z.of_nat b - Z.of_nat a)) with (b - a) by lia.
  rewrite (map_ext _ (fun k => a + k)) by (intros k; lia).
  rewrite map_add_seq. f_equal. lia.
Qed.

Lemma expand_nat_spec : forall lo hi, length lo = length hi ->
  expand_nat lo hi = flat_map (fun p => seq (fst p) (snd p - fst p)) (combine lo hi).
Proof.
  intros lo hi H. unfold expand_nat. rewrite expand_main by (rewrite !map_length; exact H).
  clear H. revert hi. induction lo as [|a lo IH]; intros [|b hi]; simpl; try reflexivity.
  rewrite map_app, zrange_nat. f_equal. apply IH.
Qed.
