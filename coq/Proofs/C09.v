(* C09 — proofs.  The model of Model/C09.v instantiated with exact real arithmetic. *)
From Coq Require Import List ZArith Bool Arith Lia Reals Lra Sorted.
Import ListNotations.
From PP Require Import Model.C09.

Local Open Scope R_scope.

(* ------------------------------ the real instance ------------------------------ *)
Definition Rleb (x y : R) : bool := if Rle_dec x y then true else false.
Definition Rltb (x y : R) : bool := if Rlt_dec x y then true else false.
Definition Reqb (x y : R) : bool := if Req_EM_T x y then true else false.

Definition ROps : numops R := {|
  n_zero := 0; n_one := 1; n_milli := 1 / 1000; n_tenth := 1 / 10;
  n_add := Rplus; n_sub := Rminus; n_mul := Rmult;
  n_leb := Rleb; n_ltb := Rltb; n_eqb := Reqb; n_abs := Rabs |}.

Lemma Rleb_true x y : Rleb x y = true <-> x <= y.
Proof. unfold Rleb; destruct (Rle_dec x y); split; intros; auto; discriminate. Qed.
Lemma Rleb_false x y : Rleb x y = false <-> y < x.
Proof. unfold Rleb; destruct (Rle_dec x y); split; intros; auto; try discriminate; lra. Qed.
Lemma Rltb_true x y : Rltb x y = true <-> x < y.
Proof. unfold Rltb; destruct (Rlt_dec x y); split; intros; auto; discriminate. Qed.
Lemma Rltb_false x y : Rltb x y = false <-> y <= x.
Proof. unfold Rltb; destruct (Rlt_dec x y); split; intros; auto; try discriminate; lra. Qed.
Lemma Reqb_true x y : Reqb x y = true <-> x = y.
Proof. unfold Reqb; destruct (Req_EM_T x y); split; intros; auto; discriminate. Qed.

(* abbreviations for the instantiated model *)
Notation cfgR := (cfg R).
Notation stateR := (state R).
Notation iscloseR := (isclose R ROps).
Notation finalR := (final_time_reached R ROps).
Notation computeR := (compute_time_step R ROps).
Notation driveR := (drive R ROps).

Ltac rops := cbn [n_zero n_one n_milli n_tenth n_add n_sub n_mul n_leb n_ltb n_eqb n_abs ROps].

(* ------------------------------ lists ------------------------------ *)
Lemma last_nth_R (l : list R) (d : R) : last l d = nth (length l - 1) l d.
Proof.
  induction l as [|a l IH]; [reflexivity|].
  destruct l as [|b l]; [reflexivity|].
  change (last (a :: b :: l) d) with (last (b :: l) d). rewrite IH.
  cbn [length]. replace (S (S (length l)) - 1)%nat with (S (length l)) by lia.
  cbn [nth]. replace (S (length l) - 1)%nat with (length l) by lia. reflexivity.
Qed.

Lemma sget_nat (sched : list R) (j : nat) :
  (j < length sched)%nat -> sget R sched (Z.of_nat j) = Some (nth j sched 0).
Proof.
  intros H. unfold sget.
  destruct (Z.of_nat j <? 0)%Z eqn:E; [apply Z.ltb_lt in E; lia|].
  rewrite Nat2Z.id. apply nth_error_nth'. exact H.
Qed.

(* ------------------------------ the setting ------------------------------ *)
Section Run.
  Variable c : cfgR.
  Variable sched : list R.

  Definition s (j : nat) : R := nth j sched 0.
  Definition n : nat := (length sched - 1)%nat.           (* index of the final time *)
  Definition tol (b : R) : R := atol c + rtol c * Rabs b.

  (* validity: what __init__ enforces for constant_dt=False (used part), plus the explicit
     extra guards 0 < dt_min and non-negative tolerances *)
  Hypothesis Hconst : constant c = false.
  Hypothesis Hmin : 0 < dt_min c.
  Hypothesis Hminmax : dt_min c <= dt_max c.
  Hypothesis Hrtol : 0 <= rtol c.
  Hypothesis Hatol : 0 <= atol c.
  Hypothesis Hlen : (2 <= length sched)%nat.
  Hypothesis Hnn : 0 <= s 0.
  (* consecutive scheduled times are further apart than the isclose tolerance *)
  Hypothesis Hsep : forall j, (S j <= n)%nat -> s j + tol (s (S j)) < s (S j).

  Lemma n_pos : (1 <= n)%nat. Proof. unfold n; lia. Qed.
  Lemma final_is_sn : time_final R ROps sched = s n.
  Proof. unfold time_final; rops. apply last_nth_R. Qed.

  Lemma tol_nonneg b : 0 <= tol b.
  Proof.
    unfold tol. pose proof (Rabs_pos b) as Hb.
    pose proof (Rmult_le_pos _ _ Hrtol Hb). lra.
  Qed.

  Lemma tol_mono a b : 0 <= a -> a <= b -> tol a <= tol b.
  Proof.
    intros Ha Hab. unfold tol. rewrite !Rabs_pos_eq by lra.
    pose proof (Rmult_le_compat_l _ _ _ Hrtol Hab). lra.
  Qed.

  Lemma s_step j : (S j <= n)%nat -> s j < s (S j).
  Proof. intros H. pose proof (Hsep j H). pose proof (tol_nonneg (s (S j))). lra. Qed.

  Lemma s_mono_le j k : (j <= k)%nat -> (k <= n)%nat -> s j <= s k.
  Proof.
    induction k as [|k IH]; intros Hjk Hk.
    - replace j with 0%nat by lia. lra.
    - destruct (Nat.eq_dec j (S k)) as [->|Hne]; [lra|].
      pose proof (s_step k Hk). assert (s j <= s k) by (apply IH; lia). lra.
  Qed.

  Lemma s_mono j k : (j < k)%nat -> (k <= n)%nat -> s j < s k.
  Proof.
    intros Hjk Hk. destruct k as [|k]; [lia|].
    pose proof (s_step k Hk). assert (s j <= s k) by (apply s_mono_le; lia). lra.
  Qed.

  Lemma s_nonneg j : (j <= n)%nat -> 0 <= s j.
  Proof. intros H. pose proof (s_mono_le 0 j ltac:(lia) H). lra. Qed.

  Lemma isclose_iff a b : iscloseR c a b = true <-> Rabs (a - b) <= tol b.
  Proof.
    unfold isclose, tol; rops. rewrite orb_true_iff, Rleb_true, Reqb_true. split.
    - intros [H|H]; [exact H|]. subst. rewrite Rminus_diag_eq by reflexivity.
      rewrite Rabs_R0. apply tol_nonneg.
    - intros H; left; exact H.
  Qed.

  Lemma isclose_refl a : iscloseR c a a = true.
  Proof.
    apply isclose_iff. rewrite Rminus_diag_eq by reflexivity. rewrite Rabs_R0.
    apply tol_nonneg.
  Qed.

  (* L2: a time within tolerance of s j is still before s (j+1) *)
  Lemma close_before_next t j :
    (S j <= n)%nat -> iscloseR c t (s j) = true -> t < s (S j).
  Proof.
    intros Hj H. apply isclose_iff in H.
    pose proof (Hsep j Hj) as Hs.
    pose proof (tol_mono (s j) (s (S j)) (s_nonneg j ltac:(lia))
                  (Rlt_le _ _ (s_step j Hj))) as Hm.
    revert H. unfold Rabs. destruct (Rcase_abs (t - s j)); intros; lra.
  Qed.

  (* L3: a time not beyond s j is not within tolerance of any later scheduled time *)
  Lemma not_close_later t j k :
    (j < k)%nat -> (k <= n)%nat -> t <= s j -> iscloseR c t (s k) = false.
  Proof.
    intros Hjk Hk Ht. destruct (iscloseR c t (s k)) eqn:E; [|reflexivity].
    apply isclose_iff in E. destruct k as [|k]; [lia|].
    pose proof (Hsep k Hk) as Hs.
    assert (s j <= s k) by (apply s_mono_le; lia).
    revert E. unfold Rabs. destruct (Rcase_abs (t - s (S k))); intros; lra.
  Qed.

  Lemma sget_s j : (j <= n)%nat -> sget R sched (Z.of_nat j) = Some (s j).
  Proof. intros H. apply sget_nat. unfold n in H. lia. Qed.

  Lemma final_iff x :
    finalR c sched x = true <-> (s n < time x \/ iscloseR c (time x) (s n) = true).
  Proof.
    unfold final_time_reached. rewrite final_is_sn; rops.
    rewrite orb_true_iff, Rltb_true. tauto.
  Qed.

  Lemma final_false x :
    finalR c sched x = false -> time x <= s n /\ iscloseR c (time x) (s n) = false.
  Proof.
    intros H. split.
    - destruct (Rle_dec (time x) (s n)); [assumption|].
      assert (finalR c sched x = true) by (apply final_iff; left; lra). congruence.
    - destruct (iscloseR c (time x) (s n)) eqn:E; [|reflexivity].
      assert (finalR c sched x = true) by (apply final_iff; right; exact E). congruence.
  Qed.

  (* ------------------------------ the invariant ------------------------------ *)
  (* [j] is the index of the scheduled time the pending step is aimed at *)
  Definition Inv (x : stateR) (j : nat) : Prop :=
    (1 <= j <= n)%nat /\
    idx x = (if about x then Z.of_nat j + 1 else Z.of_nat j)%Z /\
    0 < dt x /\
    time x + dt x <= s j /\
    (about x = true -> time x + dt x = s j) /\
    dt x <= dt_max c /\
    (about x = true \/ dt_min c <= dt x).

  (* ------------------------------ clamps ------------------------------ *)
  Lemma clamp_spec (y : stateR) :
    let y' := correct_max R ROps c (correct_min R ROps c y) in
    time y' = time y /\ tidx y' = tidx y /\ idx y' = idx y /\ recomp y' = recomp y /\
    about y' = about y /\ dt_min c <= dt y' <= dt_max c.
  Proof.
    unfold correct_max, correct_min, set_dt; rops.
    destruct (Rltb (dt y) (dt_min c)) eqn:E1; cbn [dt time tidx idx recomp about].
    - destruct (Rltb (dt_max c) (dt_min c)) eqn:E2; cbn [dt time tidx idx recomp about];
        [apply Rltb_true in E2|apply Rltb_false in E2]; repeat split; lra.
    - apply Rltb_false in E1.
      destruct (Rltb (dt_max c) (dt y)) eqn:E2; cbn [dt time tidx idx recomp about];
        [apply Rltb_true in E2|apply Rltb_false in E2]; repeat split; lra.
  Qed.

  (* ------------------------------ schedule correction ------------------------------ *)
  (* From a state aimed at s j (not yet flagged), not beyond it, and (when j is the final
     index) not within tolerance of it: the correction succeeds and re-establishes the
     invariant, aimed at s j or — when the clock is within tolerance of s j — at s (j+1). *)
  Lemma correct_schedule_spec (y : stateR) (j : nat) :
    (1 <= j <= n)%nat -> idx y = Z.of_nat j -> time y <= s j ->
    (j = n -> iscloseR c (time y) (s n) = false) ->
    dt_min c <= dt y <= dt_max c ->
    exists y' j',
      correct_schedule R ROps c sched y = (y', None) /\
      time y' = time y /\ tidx y' = tidx y /\ recomp y' = recomp y /\
      Inv y' j' /\
      ((j' = j /\ time y < s j) \/
       (j' = S j /\ (S j <= n)%nat /\ iscloseR c (time y) (s j) = true)).
  Proof.
    intros Hj Hidx Hty Hlast Hdt.
    unfold correct_schedule. rewrite Hidx, (sget_s j) by lia.
    cbn [time dt tidx idx recomp about].
    assert (Hlen' : (Z.of_nat (length sched) - 1 = Z.of_nat n)%Z) by (unfold n; lia).
    rewrite Hlen'.
    destruct ((Z.of_nat j <? Z.of_nat n)%Z && iscloseR c (time y) (s j)) eqn:Eskip.
    - (* skip forward: already (within tolerance) at s j *)
      apply andb_true_iff in Eskip. destruct Eskip as [Ejn Ecl].
      apply Z.ltb_lt in Ejn. assert (Hj1 : (S j <= n)%nat) by lia.
      replace (Z.of_nat j + 1)%Z with (Z.of_nat (S j)) by lia.
      rewrite (sget_s (S j)) by lia.
      pose proof (close_before_next _ _ Hj1 Ecl) as Hbefore.
      pose proof (not_close_later (time y) j (S j) ltac:(lia) Hj1 Hty) as Hnc.
      rops. destruct (Rltb (s (S j)) (time y + dt y)) eqn:Eover.
      + apply Rltb_true in Eover. rewrite Hnc.
        eexists _, (S j). split; [reflexivity|].
        unfold Inv; cbn [time dt tidx idx recomp about]. repeat split; try lia; try lra.
        right. repeat split; auto.
      + apply Rltb_false in Eover.
        eexists _, (S j). split; [reflexivity|].
        unfold Inv; cbn [time dt tidx idx recomp about]. repeat split; try lia; try lra;
          try discriminate.
        right. repeat split; auto.
    - (* no skip *)
      assert (Hnc : iscloseR c (time y) (s j) = false).
      { apply andb_false_iff in Eskip. destruct Eskip as [E|E]; [|exact E].
        apply Z.ltb_ge in E. assert (j = n) by lia. subst j. apply Hlast; reflexivity. }
      assert (Hlt : time y < s j).
      { destruct (Req_dec (time y) (s j)) as [Heq|Hne]; [|lra].
        rewrite Heq, isclose_refl in Hnc. discriminate. }
      rops. destruct (Rltb (s j) (time y + dt y)) eqn:Eover.
      + apply Rltb_true in Eover. rewrite Hnc.
        eexists _, j. split; [reflexivity|].
        unfold Inv; cbn [time dt tidx idx recomp about]. repeat split; try lia; try lra.
        left; split; [reflexivity|lra].
      + apply Rltb_false in Eover.
        eexists _, j. split; [reflexivity|].
        unfold Inv; cbn [time dt tidx idx recomp about]. repeat split; try lia; try lra;
          try discriminate.
        left; split; [reflexivity|lra].
  Qed.

  (* ------------------------------ after the adaptation ------------------------------ *)
  Definition advance (j j' : nat) (t : R) : Prop :=
    j' = j \/ (j' = S j /\ (S j <= n)%nat /\ iscloseR c t (s j) = true).

  (* converged step: y0 is the state after increase_time and the iteration-based
     adaptation (clock advanced by the pending dt, cursor untouched) *)
  Lemma after_adapt_converged x j (y0 : stateR) :
    Inv x j -> time y0 = time x + dt x -> idx y0 = idx x ->
    time y0 <= s n -> iscloseR c (time y0) (s n) = false ->
    exists y' j',
      correct_schedule R ROps c sched (correct_max R ROps c (correct_min R ROps c y0))
        = (y', None) /\
      time y' = time y0 /\ tidx y' = tidx y0 /\ recomp y' = recomp y0 /\
      Inv y' j' /\ advance j j' (time y0).
  Proof.
    intros (Hj & Hidx & Hdt & Hle & Hab & Hmax & Hlow) Ht Hi Hfin Hncl.
    destruct (clamp_spec y0) as (Ct & Cti & Ci & Cr & Ca & Cdt).
    set (y := correct_max R ROps c (correct_min R ROps c y0)) in *.
    destruct (about x) eqn:Eab.
    - (* the pending step was aimed exactly at s j: the clock is s j now *)
      specialize (Hab eq_refl).
      assert (Hy0 : time y0 = s j) by lra.
      assert (Hjn : (S j <= n)%nat).
      { destruct (Nat.eq_dec j n) as [->|]; [|lia].
        rewrite Hy0, isclose_refl in Hncl. discriminate. }
      destruct (correct_schedule_spec y (S j)) as (y' & j' & E & Et & Eti & Er & EI & Ej).
      + lia.
      + rewrite Ci, Hi, Hidx. lia.
      + rewrite Ct, Hy0. apply Rlt_le, s_step; lia.
      + intros _. rewrite Ct. exact Hncl.
      + exact Cdt.
      + exists y', j'. split; [exact E|]. split; [congruence|]. split; [congruence|].
        split; [congruence|]. split; [exact EI|].
        destruct Ej as [[-> _]|(_ & Hn2 & Hcl)].
        * right. repeat split; auto. rewrite Hy0. apply isclose_refl.
        * rewrite Ct, Hy0 in Hcl.
          rewrite (not_close_later (s j) j (S j)) in Hcl by (try lia; lra). discriminate.
    - destruct (correct_schedule_spec y j) as (y' & j' & E & Et & Eti & Er & EI & Ej).
      + lia.
      + rewrite Ci, Hi, Hidx. reflexivity.
      + rewrite Ct. lra.
      + intros _. rewrite Ct. exact Hncl.
      + exact Cdt.
      + exists y', j'. split; [exact E|]. split; [congruence|]. split; [congruence|].
        split; [congruence|]. split; [exact EI|].
        destruct Ej as [[-> _]|(-> & Hn2 & Hcl)]; [left; reflexivity|].
        right. rewrite Ct in Hcl. repeat split; auto.
  Qed.

  (* failed step: y0 is the state after the rewind (clock back at the accepted time,
     cursor stepped back if the step had been flagged) *)
  Lemma after_adapt_failed x j (y0 : stateR) :
    Inv x j -> time y0 = time x -> idx y0 = Z.of_nat j ->
    iscloseR c (time x) (s n) = false ->
    exists y' j',
      correct_schedule R ROps c sched (correct_max R ROps c (correct_min R ROps c y0))
        = (y', None) /\
      time y' = time y0 /\ tidx y' = tidx y0 /\ recomp y' = recomp y0 /\
      Inv y' j' /\ advance j j' (time y0).
  Proof.
    intros (Hj & Hidx & Hdt & Hle & Hab & Hmax & Hlow) Ht Hi Hncl.
    destruct (clamp_spec y0) as (Ct & Cti & Ci & Cr & Ca & Cdt).
    set (y := correct_max R ROps c (correct_min R ROps c y0)) in *.
    destruct (correct_schedule_spec y j) as (y' & j' & E & Et & Eti & Er & EI & Ej).
    - lia.
    - rewrite Ci. exact Hi.
    - rewrite Ct, Ht. lra.
    - intros _. rewrite Ct, Ht. exact Hncl.
    - exact Cdt.
    - exists y', j'. split; [exact E|]. split; [congruence|]. split; [congruence|].
        split; [congruence|]. split; [exact EI|].
      destruct Ej as [[-> _]|(-> & Hn2 & Hcl)]; [left; reflexivity|].
      right. rewrite Ct in Hcl. repeat split; auto.
  Qed.

  (* ------------------------------ one event of the time loop ------------------------------ *)
  Definition stepped (x : stateR) : stateR := increase_time_index R (increase_time R ROps x).

  Lemma stepped_fields x :
    time (stepped x) = time x + dt x /\ dt (stepped x) = dt x /\ idx (stepped x) = idx x /\
    about (stepped x) = about x /\ recomp (stepped x) = recomp x /\
    tidx (stepped x) = (tidx x + 1)%Z.
  Proof. unfold stepped, increase_time_index, increase_time; rops; cbn. repeat split. Qed.

  Lemma converged_step x j k :
    Inv x j -> finalR c sched (stepped x) = false ->
    exists x2 j',
      computeR c sched (stepped x) (Some k) false = (x2, ODt (dt x2)) /\
      time x2 = time x + dt x /\ tidx x2 = (tidx x + 1)%Z /\ recomp x2 = 0%Z /\
      Inv x2 j' /\ advance j j' (time x2).
  Proof.
    intros HI Hfin.
    destruct (stepped_fields x) as (St & Sd & Si & Sa & Sr & Sti).
    destruct (final_false _ Hfin) as [Hle Hncl].
    unfold compute_time_step. cbn [negb andb]. rewrite Hfin, Hconst.
    unfold adapt_iterations.
    set (z := {| time := time (stepped x); dt := dt (stepped x); tidx := tidx (stepped x);
                 idx := idx (stepped x); recomp := 0; about := about (stepped x) |}).
    assert (Hz : forall d, time (set_dt R z d) = time x + dt x /\ idx (set_dt R z d) = idx x
                          /\ tidx (set_dt R z d) = (tidx x + 1)%Z
                          /\ recomp (set_dt R z d) = 0%Z).
    { intros d. unfold set_dt, z; cbn [time dt tidx idx recomp about].
      rewrite St, Si, Sti. repeat split. }
    assert (Hz0 : time z = time x + dt x /\ idx z = idx x /\ tidx z = (tidx x + 1)%Z
                  /\ recomp z = 0%Z).
    { unfold z; cbn [time dt tidx idx recomp about]. rewrite St, Si, Sti. repeat split. }
    assert (Hgen : forall y0 : stateR,
               time y0 = time x + dt x -> idx y0 = idx x -> tidx y0 = (tidx x + 1)%Z ->
               recomp y0 = 0%Z ->
               exists x2 j',
                 (let (s2, e2) := correct_schedule R ROps c sched
                                    (correct_max R ROps c (correct_min R ROps c y0)) in
                  match e2 with Some e => (s2, OErr e) | None => (s2, ODt (dt s2)) end)
                 = (x2, ODt (dt x2)) /\
                 time x2 = time x + dt x /\ tidx x2 = (tidx x + 1)%Z /\ recomp x2 = 0%Z /\
                 Inv x2 j' /\ advance j j' (time x2)).
    { intros y0 H1 H2 H3 H4.
      destruct (after_adapt_converged x j y0 HI H1 H2) as (y' & j' & E & Et & Eti & Er & EI & Ej).
      - rewrite H1, <- St. exact Hle.
      - rewrite H1, <- St. exact Hncl.
      - exists y', j'. rewrite E. split; [reflexivity|]. split; [congruence|].
        split; [congruence|]. split; [congruence|]. split; [exact EI|].
        rewrite Et. exact Ej. }
    destruct (k <=? iter_low c)%Z.
    - destruct (Hz (n_mul R ROps (dt z) (over c))) as (A & B & C & D).
      apply Hgen; assumption.
    - destruct (iter_upp c <=? k)%Z.
      + destruct (Hz (n_mul R ROps (dt z) (under c))) as (A & B & C & D).
        apply Hgen; assumption.
      + destruct Hz0 as (A & B & C & D). apply Hgen; assumption.
  Qed.

  (* what a failed attempt does, for ANY state (no invariant needed) *)
  Lemma failed_step_errors (x1 : stateR) :
    ((recomp_max c <= recomp x1)%Z ->
       computeR c sched x1 None true = (x1, OErr E_recomp_exhausted)) /\
    ((recomp x1 < recomp_max c)%Z -> dt x1 = dt_min c ->
       computeR c sched x1 None true = (x1, OErr E_dt_at_min)).
  Proof.
    unfold compute_time_step. cbn [negb andb]. rewrite Hconst. unfold adapt_recomputation.
    split.
    - intros H. destruct (recomp x1 <? recomp_max c)%Z eqn:E; [apply Z.ltb_lt in E; lia|].
      reflexivity.
    - intros H Hd. destruct (recomp x1 <? recomp_max c)%Z eqn:E; [|apply Z.ltb_ge in E; lia].
      rops. rewrite (proj2 (Reqb_true _ _) Hd). reflexivity.
  Qed.

  Lemma failed_step x j :
    Inv x j -> finalR c sched x = false ->
    (exists e, computeR c sched (stepped x) None true = (stepped x, OErr e) /\
               ((e = E_recomp_exhausted /\ (recomp_max c <= recomp x)%Z) \/
                (e = E_dt_at_min /\ (recomp x < recomp_max c)%Z /\ dt x = dt_min c)))
    \/
    (exists x2 j',
      computeR c sched (stepped x) None true = (x2, ODt (dt x2)) /\
      (recomp x < recomp_max c)%Z /\ dt x <> dt_min c /\
      time x2 = time x /\ tidx x2 = tidx x /\ recomp x2 = (recomp x + 1)%Z /\
      Inv x2 j' /\ advance j j' (time x2)).
  Proof.
    intros HI Hfin.
    destruct (stepped_fields x) as (St & Sd & Si & Sa & Sr & Sti).
    destruct (final_false _ Hfin) as [Hle Hncl].
    destruct (failed_step_errors (stepped x)) as [Hex Hmn]. rewrite Sr, Sd in *.
    destruct (Z_lt_le_dec (recomp x) (recomp_max c)) as [Hlt|Hge].
    2:{ left. exists E_recomp_exhausted. split; [apply Hex; exact Hge|]. left; auto. }
    destruct (Req_dec (dt x) (dt_min c)) as [Heq|Hne].
    { left. exists E_dt_at_min. split; [apply Hmn; assumption|]. right; auto. }
    right.
    unfold compute_time_step. cbn [negb andb]. rewrite Hconst. unfold adapt_recomputation.
    rewrite Sr. destruct (recomp x <? recomp_max c)%Z eqn:E; [|apply Z.ltb_ge in E; lia].
    rops. destruct (Reqb (dt (stepped x)) (dt_min c)) eqn:Eq.
    { apply Reqb_true in Eq. rewrite Sd in Eq. contradiction. }
    set (y0 := {| time := time (stepped x) - dt (stepped x); dt := _; tidx := _; idx := _;
                  recomp := _; about := _ |}).
    destruct (after_adapt_failed x j y0 HI) as (y' & j' & E' & Et & Eti & Er & EI & Ej).
    - unfold y0; cbn [time dt tidx idx recomp about]. rewrite St, Sd. lra.
    - unfold y0; cbn [time dt tidx idx recomp about]. rewrite Sa, Si.
      destruct HI as (_ & Hidx & _). rewrite Hidx. destruct (about x); lia.
    - exact Hncl.
    - assert (T1 : time y0 = time x).
      { unfold y0; cbn [time dt tidx idx recomp about]. rewrite St, Sd. lra. }
      assert (T2 : tidx y0 = tidx x).
      { unfold y0; cbn [time dt tidx idx recomp about]. rewrite Sti. lia. }
      assert (T3 : recomp y0 = (recomp x + 1)%Z).
      { unfold y0; cbn [time dt tidx idx recomp about]. try rewrite Sr. reflexivity. }
      exists y', j'. rewrite E'. split; [reflexivity|]. split; [exact Hlt|].
      split; [exact Hne|]. split; [congruence|]. split; [congruence|].
      split; [congruence|]. split; [exact EI|]. rewrite Et. exact Ej.
  Qed.

  (* ------------------------------ the shape of every run ------------------------------ *)
  Notation trace := (list (event * stateR * out R)).

  (* [Run x j tr st]: from a loop-head state x aimed at s j, the loop produces the trace tr
     and ends with st.  Every constructor corresponds to one path through [drive]. *)
  Inductive Run : stateR -> nat -> trace -> stop -> Prop :=
  | R_finished x j :
      Inv x j -> finalR c sched x = true -> Run x j [] Finished
  | R_out x j :
      Inv x j -> finalR c sched x = false -> Run x j [] OutOfEvents
  | R_conv_last x j k :
      Inv x j -> finalR c sched x = false -> finalR c sched (stepped x) = true ->
      Run x j [(Converged k, stepped x, ONone)] Finished
  | R_conv x j k x2 j' tr st :
      Inv x j -> finalR c sched x = false ->
      time x2 = time x + dt x -> advance j j' (time x2) ->
      Run x2 j' tr st ->
      Run x j ((Converged k, x2, ODt (dt x2)) :: tr) st
  | R_fail_err x j e :
      Inv x j -> finalR c sched x = false ->
      (e = E_recomp_exhausted /\ (recomp_max c <= recomp x)%Z) \/
      (e = E_dt_at_min /\ (recomp x < recomp_max c)%Z /\ dt x = dt_min c) ->
      Run x j [(Failed, stepped x, OErr e)] (Raised e)
  | R_fail x j x2 j' tr st :
      Inv x j -> finalR c sched x = false ->
      (recomp x < recomp_max c)%Z -> dt x <> dt_min c ->
      time x2 = time x -> advance j j' (time x2) ->
      Run x2 j' tr st ->
      Run x j ((Failed, x2, ODt (dt x2)) :: tr) st.

  Lemma drive_final x evs :
    finalR c sched x = true -> driveR c sched x evs = ([], Finished).
  Proof. intros H. destruct evs; cbn [drive]; rewrite H; reflexivity. Qed.

  Lemma drive_Run evs : forall x j,
    Inv x j -> Run x j (fst (driveR c sched x evs)) (snd (driveR c sched x evs)).
  Proof.
    induction evs as [|ev r IH]; intros x j HI.
    - cbn [drive]. destruct (finalR c sched x) eqn:Hf; cbn [fst snd].
      + apply R_finished; assumption.
      + apply R_out; assumption.
    - cbn [drive]. destruct (finalR c sched x) eqn:Hf; cbn [fst snd].
      { apply R_finished; assumption. }
      rewrite Hconst. fold (stepped x).
      destruct ev as [k|].
      + destruct (finalR c sched (stepped x)) eqn:Hf1.
        * (* the accepted time is the final time: compute_time_step answers None *)
          assert (E : computeR c sched (stepped x) (Some k) false = (stepped x, ONone)).
          { unfold compute_time_step. cbn [negb andb]. rewrite Hf1. reflexivity. }
          rewrite E. rewrite (drive_final _ r Hf1). cbn [fst snd].
          apply R_conv_last; assumption.
        * destruct (converged_step x j k HI Hf1)
            as (x2 & j' & E & Et & _ & _ & HI2 & Hadv).
          rewrite E. specialize (IH x2 j' HI2).
          destruct (driveR c sched x2 r) as [tr st]. cbn [fst snd] in *.
          eapply R_conv; eassumption.
      + destruct (failed_step x j HI Hf) as [(e & E & He)|(x2 & j' & E & H1 & H2 & Et & _ & _ & HI2 & Hadv)].
        * rewrite E. cbn [fst snd]. apply R_fail_err; assumption.
        * rewrite E. specialize (IH x2 j' HI2).
          destruct (driveR c sched x2 r) as [tr st]. cbn [fst snd] in *.
          eapply R_fail; eassumption.
  Qed.

  Lemma Run_Inv x j tr st : Run x j tr st -> Inv x j.
  Proof. destruct 1; assumption. Qed.

  Definition dt_ok (x : stateR) : Prop :=
    dt_min c <= dt x <= dt_max c \/ (about x = true /\ 0 < dt x <= dt_max c).

  Lemma Inv_dt_ok x j : Inv x j -> dt_ok x.
  Proof.
    intros (_ & _ & Hdt & _ & _ & Hmax & [Hab|Hlow]); unfold dt_ok.
    - right. repeat split; auto.
    - left. split; assumption.
  Qed.

  Definition raise_ok (e : err) : Prop := e = E_recomp_exhausted \/ e = E_dt_at_min.

  (* (1) accepted times strictly increase (Sorted form; StronglySorted below) *)
  Lemma Run_sorted x j tr st :
    Run x j tr st -> Sorted Rlt (time x :: accepted R tr).
  Proof.
    induction 1 as [x j HI Hf|x j HI Hf|x j k HI Hf Hf1|x j k x2 j' tr st HI Hf Ht Hadv HR IH
                   |x j e HI Hf He|x j x2 j' tr st HI Hf Hrc Hne Ht Hadv HR IH];
      cbn [accepted].
    - repeat constructor.
    - repeat constructor.
    - destruct (stepped_fields x) as (St & _). destruct HI as (_ & _ & Hdt & _).
      repeat constructor. rewrite St. lra.
    - destruct HI as (_ & _ & Hdt & _).
      constructor; [exact IH|]. constructor. rewrite Ht. lra.
    - repeat constructor.
    - rewrite <- Ht. exact IH.
  Qed.

  (* (2) no accepted time exceeds the final time *)
  Lemma Run_below_final x j tr st :
    Run x j tr st -> Forall (fun t => t <= s n) (accepted R tr).
  Proof.
    induction 1 as [x j HI Hf|x j HI Hf|x j k HI Hf Hf1|x j k x2 j' tr st HI Hf Ht Hadv HR IH
                   |x j e HI Hf He|x j x2 j' tr st HI Hf Hrc Hne Ht Hadv HR IH];
      cbn [accepted]; try (constructor; fail); try exact IH.
    - destruct (stepped_fields x) as (St & _). destruct HI as (Hj & _ & _ & Hle & _).
      constructor; [|constructor]. rewrite St.
      pose proof (s_mono_le j n ltac:(lia) ltac:(lia)). lra.
    - destruct HI as (Hj & _ & _ & Hle & _).
      constructor; [|exact IH]. rewrite Ht.
      pose proof (s_mono_le j n ltac:(lia) ltac:(lia)). lra.
  Qed.

  (* a loop-head/accepted time not beyond s j at which the loop stops is within tolerance of
     the FINAL scheduled time, and then j is the final index *)
  Lemma stop_means_last t j :
    (1 <= j <= n)%nat -> t <= s j ->
    (s n < t \/ iscloseR c t (s n) = true) -> j = n /\ iscloseR c t (s n) = true.
  Proof.
    intros Hj Ht [Hgt|Hcl].
    - pose proof (s_mono_le j n ltac:(lia) ltac:(lia)). lra.
    - destruct (Nat.eq_dec j n) as [->|Hne]; [split; [reflexivity|exact Hcl]|].
      rewrite (not_close_later t j n) in Hcl by (try lia; assumption). discriminate.
  Qed.

  (* (3) when the loop finishes, every scheduled time from the current target on is
     within tolerance of the current or a later accepted time *)
  Lemma Run_hits x j tr st :
    Run x j tr st -> st = Finished ->
    forall i, (j <= i <= n)%nat ->
      exists t, In t (time x :: accepted R tr) /\ iscloseR c t (s i) = true.
  Proof.
    induction 1 as [x j HI Hf|x j HI Hf|x j k HI Hf Hf1|x j k x2 j' tr st HI Hf Ht Hadv HR IH
                   |x j e HI Hf He|x j x2 j' tr st HI Hf Hrc Hne Ht Hadv HR IH];
      intros Hst i Hi; try discriminate; cbn [accepted].
    - destruct HI as (Hj & _ & Hdt & Hle & _).
      apply final_iff in Hf.
      destruct (stop_means_last (time x) j Hj ltac:(lra) Hf) as [-> Hcl].
      replace i with n by lia. exists (time x). split; [left; reflexivity|exact Hcl].
    - destruct (stepped_fields x) as (St & _).
      destruct HI as (Hj & _ & Hdt & Hle & _).
      apply final_iff in Hf1.
      destruct (stop_means_last (time (stepped x)) j Hj ltac:(lra) Hf1) as [-> Hcl].
      replace i with n by lia. exists (time (stepped x)).
      split; [right; left; reflexivity|exact Hcl].
    - specialize (IH Hst).
      destruct Hadv as [->|(-> & Hn & Hcl)].
      + destruct (IH i Hi) as (t & Hin & Ht'). exists t. split; [right; exact Hin|exact Ht'].
      + destruct (Nat.eq_dec i j) as [->|Hne].
        * exists (time x2). split; [right; left; reflexivity|exact Hcl].
        * destruct (IH i ltac:(lia)) as (t & Hin & Ht').
          exists t. split; [right; exact Hin|exact Ht'].
    - specialize (IH Hst). rewrite <- Ht.
      destruct Hadv as [->|(-> & Hn & Hcl)].
      + exact (IH i Hi).
      + destruct (Nat.eq_dec i j) as [->|Hne'].
        * exists (time x2). split; [left; reflexivity|exact Hcl].
        * exact (IH i ltac:(lia)).
  Qed.

  (* (4) every time step announced by compute_time_step is within bounds or shortened *)
  Lemma Run_dt_ok x j tr st :
    Run x j tr st ->
    forall ev x' o, In (ev, x', o) tr -> (forall e, o <> OErr e) -> dt_ok x'.
  Proof.
    induction 1 as [x j HI Hf|x j HI Hf|x j k HI Hf Hf1|x j k x2 j' tr st HI Hf Ht Hadv HR IH
                   |x j e HI Hf He|x j x2 j' tr st HI Hf Hrc Hne Ht Hadv HR IH];
      intros ev x' o Hin Hno; cbn [In] in Hin.
    - contradiction.
    - contradiction.
    - destruct Hin as [Heq|[]]. inversion Heq; subst.
      destruct (stepped_fields x) as (_ & Sd & _ & Sa & _).
      pose proof (Inv_dt_ok x j HI) as Hok. unfold dt_ok in *. rewrite Sd, Sa. exact Hok.
    - destruct Hin as [Heq|Hin]; [|eapply IH; eassumption].
      inversion Heq; subst. eapply Inv_dt_ok, Run_Inv; eassumption.
    - destruct Hin as [Heq|[]]. inversion Heq; subst. exfalso. eapply Hno; reflexivity.
    - destruct Hin as [Heq|Hin]; [|eapply IH; eassumption].
      inversion Heq; subst. eapply Inv_dt_ok, Run_Inv; eassumption.
  Qed.

  Lemma last_cons_default (a : R) l d : last (a :: l) d = last l a.
  Proof.
    revert a d. induction l as [|b l IH]; intros a d; [reflexivity|].
    change (last (a :: b :: l) d) with (last (b :: l) d).
    rewrite (IH b d), (IH b a). reflexivity.
  Qed.

  (* (5) a failed step puts the clock back to the last accepted time, or raises (and then
     it is the last entry of the trace) *)
  Lemma Run_rewind x j tr st :
    Run x j tr st ->
    forall pre x' o post, tr = pre ++ (Failed, x', o) :: post ->
      time x' = last (accepted R pre) (time x) \/
      (exists e, o = OErr e /\ raise_ok e /\ post = [] /\ st = Raised e).
  Proof.
    induction 1 as [x j HI Hf|x j HI Hf|x j k HI Hf Hf1|x j k x2 j' tr st HI Hf Ht Hadv HR IH
                   |x j e HI Hf He|x j x2 j' tr st HI Hf Hrc Hne Ht Hadv HR IH];
      intros pre x' o post Heq.
    - destruct pre; discriminate.
    - destruct pre; discriminate.
    - destruct pre as [|p pre]; [discriminate|]. destruct pre; discriminate.
    - destruct pre as [|p pre]; [discriminate|].
      cbn [app] in Heq. inversion Heq; subst p tr.
      destruct (IH _ _ _ _ eq_refl) as [H1|H1]; [left|right; exact H1].
      cbn [accepted]. rewrite last_cons_default. exact H1.
    - destruct pre as [|p pre].
      + cbn [app] in Heq. inversion Heq; subst. right. exists e.
        repeat split; auto. destruct He as [[-> _]|[-> _]]; [left|right]; reflexivity.
      + destruct pre; discriminate.
    - destruct pre as [|p pre].
      + cbn [app] in Heq. inversion Heq; subst. left. cbn [accepted last]. exact Ht.
      + cbn [app] in Heq. inversion Heq; subst p tr.
        destruct (IH _ _ _ _ eq_refl) as [H1|H1]; [left|right; exact H1].
        cbn [accepted]. rewrite <- Ht. exact H1.
  Qed.

  (* (6) nothing raises except an exhausted / pointless recomputation *)
  Lemma Run_errors x j tr st :
    Run x j tr st ->
    (forall ev x' e, In (ev, x', OErr e) tr -> ev = Failed /\ raise_ok e) /\
    (forall e, st = Raised e -> raise_ok e).
  Proof.
    induction 1 as [x j HI Hf|x j HI Hf|x j k HI Hf Hf1|x j k x2 j' tr st HI Hf Ht Hadv HR IH
                   |x j e HI Hf He|x j x2 j' tr st HI Hf Hrc Hne Ht Hadv HR IH];
      (split; [intros ev x' e' Hin; cbn [In] in Hin|intros e' Hst; try discriminate]).
    - contradiction.
    - contradiction.
    - destruct Hin as [Heq|[]]; inversion Heq.
    - destruct Hin as [Heq|Hin]; [inversion Heq|]. eapply (proj1 IH); eassumption.
    - apply (proj2 IH); assumption.
    - destruct Hin as [Heq|[]]; inversion Heq; subst. split; [reflexivity|].
      destruct He as [[-> _]|[-> _]]; [left|right]; reflexivity.
    - inversion Hst; subst. destruct He as [[-> _]|[-> _]]; [left|right]; reflexivity.
    - destruct Hin as [Heq|Hin]; [inversion Heq|]. eapply (proj1 IH); eassumption.
    - apply (proj2 IH); assumption.
  Qed.
End Run.

(* ------------------------------ the constructor ------------------------------ *)
Lemma construct_ok (a : args R) (sched : list R) (c : cfgR) :
  construct R ROps a sched = inl c -> a_constant a = false ->
  constant c = false /\ dt_init c = a_dt_init a /\ rtol c = a_rtol a /\ atol c = a_atol a /\
  (2 <= length sched)%nat /\ 0 <= nth 0 sched 0 /\ 0 < dt_init c /\
  dt_min c <= dt_init c /\ dt_init c <= dt_max c /\
  iter_low c = a_iter_low a /\ iter_upp c = a_iter_upp a /\ iter_max c = a_iter_max a /\
  under c = a_under a /\ over c = a_over a /\ recomp_factor c = a_recomp_factor a /\
  recomp_max c = a_recomp_max a /\
  (0 <= iter_low c <= iter_upp c)%Z /\ (iter_upp c <= iter_max c)%Z /\
  under c < 1 /\ 1 < over c /\ dt_min c * over c <= dt_max c /\
  dt_min c <= dt_max c * under c /\ recomp_factor c < 1 /\ (0 < recomp_max c)%Z.
Proof.
  unfold construct. intros H Hc. rewrite Hc in H. cbv zeta in H. revert H. rops.
  destruct (length sched <? 2)%nat eqn:E1; [discriminate|].
  destruct (existsb (fun t => Rltb t 0) sched) eqn:E2; [discriminate|].
  destruct (negb (strictly_increasing R ROps sched)) eqn:E3; [discriminate|].
  destruct (Rleb (a_dt_init a) 0) eqn:E4; [discriminate|].
  destruct (Rltb (last sched 0) (a_dt_init a)) eqn:E5; [discriminate|].
  set (mm := resolve_min_max R ROps a (last sched 0)).
  destruct (Rltb (a_dt_init a) (fst mm)) eqn:E6; [discriminate|].
  destruct (Rltb (snd mm) (a_dt_init a)) eqn:E7; [discriminate|].
  destruct (a_iter_max a <=? 0)%Z eqn:E8; [discriminate|].
  destruct (a_iter_upp a <? a_iter_low a)%Z eqn:E9; [discriminate|].
  destruct (a_iter_max a <? a_iter_upp a)%Z eqn:E10; [discriminate|].
  destruct (a_iter_low a <? 0)%Z eqn:E11; [discriminate|].
  destruct (Rleb 1 (a_under a)) eqn:E12; [discriminate|].
  destruct (Rleb (a_over a) 1) eqn:E13; [discriminate|].
  destruct (Rltb (snd mm) (fst mm * a_over a)) eqn:E14; [discriminate|].
  destruct (Rltb (snd mm * a_under a) (fst mm)) eqn:E15; [discriminate|].
  destruct (Rleb 1 (a_recomp_factor a)) eqn:E16; [discriminate|].
  destruct (a_recomp_max a <=? 0)%Z eqn:E17; [discriminate|].
  intros H. injection H as <-. cbn [constant dt_init rtol atol dt_min dt_max iter_low iter_upp
    iter_max under over recomp_factor recomp_max].
  apply Nat.ltb_ge in E1. apply Rleb_false in E4. apply Rltb_false in E6, E7, E14, E15.
  apply Rleb_false in E12, E13, E16.
  apply Z.leb_gt in E8, E17. apply Z.ltb_ge in E9, E10, E11.
  repeat split; auto; try lia; try lra.
  destruct sched as [|t0 r]; [cbn in E1; lia|]. cbn [nth].
  cbn [existsb] in E2. apply orb_false_iff in E2. destruct E2 as [E2 _].
  apply Rltb_false in E2. exact E2.
Qed.

(* consecutive scheduled times are further apart than the isclose tolerance *)
Definition well_separated (rtol atol : R) (sched : list R) : Prop :=
  forall j, (S j < length sched)%nat ->
    nth j sched 0 + (atol + rtol * Rabs (nth (S j) sched 0)) < nth (S j) sched 0.

Lemma Rlt_Transitive : Relations_1.Transitive Rlt.
Proof. intros x y z; apply Rlt_trans. Qed.

Lemma In_nth_exists (l : list R) (x : R) :
  In x l -> exists i, (i < length l)%nat /\ nth i l 0 = x.
Proof. intros H. destruct (In_nth l x 0 H) as (i & Hi & E). exists i; auto. Qed.

(* ------------------------------ the main theorem ------------------------------ *)
Theorem main_theorem :
  forall (a : args R) (sched : list R) (evs : list event)
         (c : cfgR) (tr : list (event * stateR * out R)) (st : stop),
    simulate R ROps a sched evs = inl (c, (tr, st)) ->
    a_constant a = false ->
    0 < dt_min c -> 0 <= a_rtol a -> 0 <= a_atol a ->
    well_separated (a_rtol a) (a_atol a) sched ->
    a_dt_init a <= nth 1 sched 0 - nth 0 sched 0 ->
    let t0 := nth 0 sched 0 in
    let acc := t0 :: accepted R tr in
    StronglySorted Rlt acc /\
    Forall (fun t => t <= last sched 0) acc /\
    (st = Finished ->
       forall sj, In sj sched -> exists t, In t acc /\ iscloseR c t sj = true) /\
    (forall ev x o, In (ev, x, o) tr -> (forall e, o <> OErr e) ->
       dt_min c <= dt x <= dt_max c \/ (about x = true /\ 0 < dt x <= dt_max c)) /\
    (forall pre x o post, tr = pre ++ (Failed, x, o) :: post ->
       time x = last (accepted R pre) t0 \/
       (exists e, o = OErr e /\ (e = E_recomp_exhausted \/ e = E_dt_at_min) /\
                  post = [] /\ st = Raised e)) /\
    (forall ev x e, In (ev, x, OErr e) tr ->
       ev = Failed /\ (e = E_recomp_exhausted \/ e = E_dt_at_min)) /\
    (forall e, st = Raised e -> e = E_recomp_exhausted \/ e = E_dt_at_min).
Proof.
  intros a sched evs c tr st Hsim Hc Hmin Hrt Hat Hsep Hinit t0 acc.
  unfold simulate in Hsim.
  destruct (construct R ROps a sched) as [c'|e] eqn:Ec; [|discriminate].
  injection Hsim as -> Hd.
  destruct (construct_ok a sched c Ec Hc)
    as (Kc & Kdt & Krt & Kat & Klen & Knn & Kpos & Klo & Khi & _).
  assert (Hminmax : dt_min c <= dt_max c) by lra.
  assert (Hrtol : 0 <= rtol c) by (rewrite Krt; exact Hrt).
  assert (Hatol : 0 <= atol c) by (rewrite Kat; exact Hat).
  assert (Hnn : 0 <= s sched 0) by exact Knn.
  assert (Hsep' : forall j, (S j <= n sched)%nat ->
                     s sched j + tol c (s sched (S j)) < s sched (S j)).
  { intros j Hj. unfold s, tol. rewrite Krt, Kat. apply Hsep. unfold n in Hj. lia. }
  set (x0 := init_state R ROps c sched).
  assert (Ht0 : time x0 = t0).
  { unfold x0, init_state, t0; cbn [time]; rops. destruct sched; reflexivity. }
  assert (HI : Inv c sched x0 1).
  { unfold Inv, x0, init_state; cbn [time dt idx about]; rops.
    assert (Hhd : hd 0 sched = nth 0 sched 0) by (destruct sched; reflexivity).
    rewrite Hhd. unfold s, n. rewrite Kdt in *.
    repeat split; try lia; try lra; try discriminate. }
  pose proof (drive_Run c sched Kc Hmin Hminmax Hrtol Hatol Klen Hnn Hsep' evs x0 1 HI) as HR.
  fold x0 in Hd. rewrite Hd in HR. cbn [fst snd] in HR.
  assert (Hlast : last sched 0 = s sched (n sched)) by apply last_nth_R.
  split; [|split; [|split; [|split; [|split; [|split]]]]].
  - apply Sorted_StronglySorted; [exact Rlt_Transitive|].
    unfold acc. rewrite <- Ht0.
    eapply Run_sorted; eassumption.
  - unfold acc. constructor.
    + rewrite Hlast. unfold t0. apply (s_mono_le c sched Hrtol Hatol Klen Hsep' 0 (n sched)); lia.
    + rewrite Hlast. eapply Run_below_final; eassumption.
  - intros Hst sj Hin.
    destruct (In_nth_exists sched sj Hin) as (i & Hi & <-).
    destruct i as [|i].
    + exists t0. split; [left; reflexivity|].
      apply (isclose_refl c Hrtol Hatol).
    + unfold acc. rewrite <- Ht0.
      eapply (Run_hits c sched Hrtol Hatol Klen Hsep' x0 1 tr st HR Hst (S i)).
      unfold n. lia.
  - intros ev x o Hin Hno.
    exact (Run_dt_ok c sched x0 1 tr st HR ev x o Hin Hno).
  - intros pre x o post Heq. rewrite <- Ht0.
    exact (Run_rewind c sched x0 1 tr st HR pre x o post Heq).
  - intros ev x e Hin.
    exact (proj1 (Run_errors c sched x0 1 tr st HR) ev x e Hin).
  - intros e Hst.
    exact (proj2 (Run_errors c sched x0 1 tr st HR) e Hst).
Qed.

(* ------------------------------ per-call facts for ANY state ------------------------------ *)
Lemma clamp_frame (c : cfgR) (y : stateR) :
  let y' := correct_max R ROps c (correct_min R ROps c y) in
  time y' = time y /\ tidx y' = tidx y /\ recomp y' = recomp y.
Proof.
  unfold correct_max, correct_min, set_dt; rops.
  destruct (Rltb (dt y) (dt_min c)); cbn [dt time tidx idx recomp about];
    match goal with |- context[Rltb ?a ?b] => destruct (Rltb a b) end;
    cbn [dt time tidx idx recomp about]; repeat split.
Qed.

Lemma correct_schedule_frame (c : cfgR) sched (y y' : stateR) e :
  correct_schedule R ROps c sched y = (y', e) ->
  time y' = time y /\ tidx y' = tidx y /\ recomp y' = recomp y /\
  (e = None \/ e = Some E_index).
Proof.
  unfold correct_schedule.
  destruct (sget R sched (idx y)) as [st0|].
  2:{ intros H; inversion H; subst; repeat split; auto. }
  cbn [time dt tidx idx recomp about].
  destruct ((idx y <? Z.of_nat (length sched) - 1)%Z && iscloseR c (time y) st0).
  - destruct (sget R sched (idx y + 1)) as [st1|].
    2:{ intros H; inversion H; subst; cbn; repeat split; auto. }
    rops. destruct (Rltb st1 (time y + dt y)).
    + destruct (iscloseR c (time y) st1); intros H; inversion H; subst; cbn;
        repeat split; auto.
    + intros H; inversion H; subst; cbn; repeat split; auto.
  - rops. destruct (Rltb st0 (time y + dt y)).
    + destruct (iscloseR c (time y) st0); intros H; inversion H; subst; cbn;
        repeat split; auto.
    + intros H; inversion H; subst; cbn; repeat split; auto.
Qed.

(* A failed attempt from ANY state of a non-constant manager: it raises exactly when the
   counter of consecutive recomputations has reached recomp_max, or when dt == dt_min; in
   both cases the state is untouched.  Otherwise the clock is put back by exactly the step
   just taken, the time index is decremented and the counter incremented. *)
Theorem failed_attempt (c : cfgR) sched (x : stateR) :
  constant c = false ->
  ((recomp_max c <= recomp x)%Z ->
     computeR c sched x None true = (x, OErr E_recomp_exhausted)) /\
  ((recomp x < recomp_max c)%Z -> dt x = dt_min c ->
     computeR c sched x None true = (x, OErr E_dt_at_min)) /\
  ((recomp x < recomp_max c)%Z -> dt x <> dt_min c ->
     forall x' o, computeR c sched x None true = (x', o) ->
       time x' = time x - dt x /\ tidx x' = (tidx x - 1)%Z /\
       recomp x' = (recomp x + 1)%Z /\ (o = ODt (dt x') \/ o = OErr E_index)).
Proof.
  intros Hc.
  split; [|split].
  { intros H. unfold compute_time_step. cbn [negb andb]. rewrite Hc.
    unfold adapt_recomputation.
    destruct (recomp x <? recomp_max c)%Z eqn:E; [apply Z.ltb_lt in E; lia|]. reflexivity. }
  { intros H Hd. unfold compute_time_step. cbn [negb andb]. rewrite Hc.
    unfold adapt_recomputation.
    destruct (recomp x <? recomp_max c)%Z eqn:E; [|apply Z.ltb_ge in E; lia].
    rops. rewrite (proj2 (Reqb_true _ _) Hd). reflexivity. }
  intros Hlt Hne x' o.
  unfold compute_time_step. cbn [negb andb]. rewrite Hc. unfold adapt_recomputation.
  destruct (recomp x <? recomp_max c)%Z eqn:E; [|apply Z.ltb_ge in E; lia].
  rops. destruct (Reqb (dt x) (dt_min c)) eqn:Eq; [apply Reqb_true in Eq; contradiction|].
  set (y0 := {| time := time x - dt x; dt := _; tidx := _; idx := _; recomp := _;
                about := _ |}).
  destruct (clamp_frame c y0) as (C1 & C2 & C3).
  destruct (correct_schedule R ROps c sched (correct_max R ROps c (correct_min R ROps c y0)))
    as [s2 e2] eqn:Ecs.
  destruct (correct_schedule_frame _ _ _ _ _ Ecs) as (F1 & F2 & F3 & F4).
  assert (T : time s2 = time x - dt x /\ tidx s2 = (tidx x - 1)%Z /\
              recomp s2 = (recomp x + 1)%Z).
  { rewrite F1, F2, F3, C1, C2, C3. unfold y0; cbn. repeat split. }
  destruct F4 as [->| ->]; intros H; inversion H; subst; destruct T as (T1 & T2 & T3);
    repeat split; auto.
Qed.

(* A converged step from ANY state of a non-constant manager: once the final time is
   reached the answer is None and nothing changes; otherwise the clock and the time index
   are not touched and the recomputation counter is reset. *)
Theorem converged_attempt (c : cfgR) sched (x : stateR) (k : Z) :
  constant c = false ->
  (finalR c sched x = true -> computeR c sched x (Some k) false = (x, ONone)) /\
  (finalR c sched x = false ->
     forall x' o, computeR c sched x (Some k) false = (x', o) ->
       time x' = time x /\ tidx x' = tidx x /\ recomp x' = 0%Z /\
       (o = ODt (dt x') \/ o = OErr E_index)).
Proof.
  intros Hc. unfold compute_time_step. cbn [negb andb]. split; intros Hf; rewrite Hf.
  - reflexivity.
  - rewrite Hc. intros x' o. unfold adapt_iterations.
    set (z := {| time := time x; dt := dt x; tidx := tidx x; idx := idx x; recomp := 0;
                 about := about x |}).
    assert (G : forall y0 : stateR,
               time y0 = time x -> tidx y0 = tidx x -> recomp y0 = 0%Z ->
               (let (s2, e2) := correct_schedule R ROps c sched
                                  (correct_max R ROps c (correct_min R ROps c y0)) in
                match e2 with Some e => (s2, OErr e) | None => (s2, ODt (dt s2)) end)
               = (x', o) ->
               time x' = time x /\ tidx x' = tidx x /\ recomp x' = 0%Z /\
               (o = ODt (dt x') \/ o = OErr E_index)).
    { intros y0 A1 A2 A3.
      destruct (clamp_frame c y0) as (C1 & C2 & C3).
      destruct (correct_schedule R ROps c sched
                  (correct_max R ROps c (correct_min R ROps c y0))) as [s2 e2] eqn:Ecs.
      destruct (correct_schedule_frame _ _ _ _ _ Ecs) as (F1 & F2 & F3 & F4).
      destruct F4 as [->| ->]; intros H; inversion H; subst;
        repeat split; auto; congruence. }
    destruct (k <=? iter_low c)%Z; [apply G; reflexivity|].
    destruct (iter_upp c <=? k)%Z; apply G; reflexivity.
Qed.

(* deciding comparisons of concrete reals (for the non-vacuity examples) *)
Ltac rdec :=
  repeat match goal with
  | |- context[Rltb ?x ?y] =>
      first [rewrite (proj2 (Rltb_true x y)) by lra | rewrite (proj2 (Rltb_false x y)) by lra]
  | |- context[Rleb ?x ?y] =>
      first [rewrite (proj2 (Rleb_true x y)) by lra | rewrite (proj2 (Rleb_false x y)) by lra]
  end.
