(* C13 — the residual of the captured MPSA local systems is linear in the field. *)
From Coq Require Import List ZArith Bool Arith Lia Reals Lra.
Import ListNotations.
From PP Require Import Model.C11 Model.C13 Model.C13_local Proofs.C11 Proofs.C13.
Local Open Scope R_scope.

Lemma gstarV_lin s (c1 c2 : coefV R) nd col :
  gstarV R (rcadd (rcscale s c1) c2) nd col = s * gstarV R c1 nd col + gstarV R c2 nd col.
Proof.
  unfold gstarV.
  destruct c1 as [[[b1 b2] b3] [[[[a11 a12] a13] [[a21 a22] a23]] [[a31 a32] a33]]].
  destruct c2 as [[[d1 d2] d3] [[[[e11 e12] e13] [[e21 e22] e23]] [[e31 e32] e33]]].
  destruct ((col mod (nd * nd)) / nd)%nat as [|[|i]];
    destruct ((col mod (nd * nd)) mod nd)%nat as [|[|j]];
    unfold cadd, cscale, vadd3, vscale3, rowA, comp; cbn [fst snd]; ro; ring.
Qed.

Lemma gstarV_zero nd col : gstarV R rczero nd col = 0.
Proof.
  unfold gstarV, czero, zm, z3, rowA, comp; cbn [fst snd].
  destruct ((col mod (nd * nd)) / nd)%nat as [|[|i]];
    destruct ((col mod (nd * nd)) mod nd)%nat as [|[|j]]; reflexivity.
Qed.

Section Local.
  Variables (I : instV R) (LA : coo R) (nd : nat).

  Lemma stress_of_lin s c1 c2 r :
    rstress_of I (rcadd (rcscale s c1) c2) r = s * rstress_of I c1 r + rstress_of I c2 r.
  Proof.
    unfold stress_of. ro.
    rewrite (row_apply_ext (ST I) r _ _ (ucellV_lin I s c1 c2)).
    rewrite (row_apply_ext (BS I) r _ _ (bdataV_lin I s c1 c2)).
    rewrite !row_apply_lin2. ring.
  Qed.

  Lemma res_localV_lin s c1 c2 r :
    res_localV R RO I LA nd (rcadd (rcscale s c1) c2) r
    = s * res_localV R RO I LA nd c1 r + res_localV R RO I LA nd c2 r.
  Proof.
    unfold res_localV. ro.
    rewrite (row_apply_ext LA r _ _ (fun col => gstarV_lin s c1 c2 nd col)).
    rewrite row_apply_lin2, stress_of_lin. ring.
  Qed.

  Lemma res_localV_zero r : res_localV R RO I LA nd rczero r = 0.
  Proof.
    unfold res_localV, stress_of. ro.
    rewrite (row_apply_ext LA r _ (fun _ => 0) (fun col => gstarV_zero nd col)).
    rewrite (row_apply_ext (ST I) r _ (fun _ => 0) (ucellV_zero I)).
    rewrite (row_apply_ext (BS I) r _ (fun _ => 0) (bdataV_zero I)).
    rewrite !row_apply_zero. ring.
  Qed.

  Lemma local_rows_linear_extensionV :
    forall (r : nat) (eps : nat -> R) (terms : list (R * nat)),
      (forall st, In st terms -> Rabs (res_localV R RO I LA nd (rbasisV (snd st)) r) <= eps (snd st)) ->
      Rabs (rrow_apply LA r (gstarV R (rcomb terms) nd) - rstress_of I (rcomb terms) r)
      <= bound_of eps terms.
  Proof.
    intros. apply (comb_bound_gen (fun c r => res_localV R RO I LA nd c r) res_localV_lin res_localV_zero).
    assumption.
  Qed.
End Local.
