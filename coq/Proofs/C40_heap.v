(* C40 — copies and restrictions hold only freshly allocated arrays. *)
From Coq Require Import List Arith Bool Lia.
Import ListNotations.
From PP Require Import Model.C40_heap.

(* every array of o was allocated before s *)
Definition older (s : nat) (o : obj) : Prop := Forall (fun i => i < s) (ids o).
(* every array of o was allocated at or after s and before s' *)
Definition fresh_in (s s' : nat) (o : obj) : Prop := Forall (fun i => s <= i < s') (ids o).
Definition disjoint (a b : obj) : Prop := forall i, In i (ids a) -> ~ In i (ids b).

Lemma fresh_disjoint : forall s s' a b, older s a -> fresh_in s s' b -> disjoint a b.
Proof.
  intros s s' a b Ha Hb i Hia Hib. unfold older, fresh_in in *.
  rewrite Forall_forall in Ha, Hb. specialize (Ha _ Hia). specialize (Hb _ Hib). lia.
Qed.

Lemma seq_bounds : forall s k, Forall (fun i => s <= i < s + k) (seq s k).
Proof. intros s k. apply Forall_forall. intros i Hi. apply in_seq in Hi. lia. Qed.

Lemma copy4h_fresh : forall s t, let (c, s') := copy4h s t in
  fresh_in s s' c /\ NoDup (ids c) /\ length (o_fields c) = length (o_fields t) /\ s < s'.
Proof.
  intros s t. unfold copy4h, fresh_in, ids; cbn [o_values o_fields].
  set (k := length (o_fields t)). repeat split.
  - constructor; [lia|]. eapply Forall_impl; [|apply seq_bounds]. cbn. intros; lia.
  - constructor; [|apply seq_NoDup]. intros H. apply in_seq in H. lia.
  - apply seq_length.
  - lia.
Qed.

Lemma restrict4h_fresh : forall s t, let (r, s') := restrict4h s t in
  fresh_in s s' r /\ NoDup (ids r) /\ length (o_fields r) = length (o_fields t) /\ s < s'.
Proof.
  intros s t. unfold restrict4h, copy4h, fresh_in, ids; cbn [o_values o_fields].
  rewrite seq_length. set (k := length (o_fields t)). repeat split.
  - constructor; [lia|]. eapply Forall_impl; [|apply seq_bounds]. cbn. intros; lia.
  - constructor; [|apply seq_NoDup]. intros H. apply in_seq in H. lia.
  - apply seq_length.
  - lia.
Qed.

(* writing one array of a heap changes only what is read through the same id *)
Definition write {V} (hp : nat -> V) (i : nat) (v : V) : nat -> V :=
  fun j => if Nat.eqb i j then v else hp j.

Lemma write_other : forall {V} (hp : nat -> V) i v j, i <> j -> write hp i v j = hp j.
Proof. intros V hp i v j H. unfold write. apply Nat.eqb_neq in H. now rewrite H. Qed.

(* THE STATEMENT.  Let t be any fourth-order tensor object whose arrays exist (allocated
   before s).  Its copy c and its restriction r hold pairwise distinct arrays none of which
   is an array of t; so an in-place write to any array of c (or r) leaves every array of t
   as it was, and a write to any array of t leaves every array of c (r) as it was.  The same
   for second-order tensors; rotate rebinds `values` to a new array. *)
Lemma independence_lemma : forall s t, older s t ->
  (let (c, s') := copy4h s t in
     NoDup (ids c) /\ disjoint t c /\ disjoint c t /\
     forall {V} (hp : nat -> V) v,
       (forall i j, In i (ids c) -> In j (ids t) -> write hp i v j = hp j) /\
       (forall i j, In i (ids t) -> In j (ids c) -> write hp i v j = hp j)) /\
  (let (r, s') := restrict4h s t in
     NoDup (ids r) /\ disjoint t r /\ disjoint r t /\
     forall {V} (hp : nat -> V) v,
       (forall i j, In i (ids r) -> In j (ids t) -> write hp i v j = hp j) /\
       (forall i j, In i (ids t) -> In j (ids r) -> write hp i v j = hp j)) /\
  (let (c, s') := copy2h s t in disjoint t c /\ disjoint c t) /\
  (let (r, s') := restrict2h s t in disjoint t r /\ disjoint r t) /\
  (let (t', s') := rotateh s t in ~ In (o_values t') (ids t) /\ o_fields t' = o_fields t).
Proof.
  intros s t Ht.
  assert (G : forall o s', fresh_in s s' o -> NoDup (ids o) ->
            NoDup (ids o) /\ disjoint t o /\ disjoint o t /\
            forall (V : Type) (hp : nat -> V) (v : V),
              (forall i j, In i (ids o) -> In j (ids t) -> write hp i v j = hp j) /\
              (forall i j, In i (ids t) -> In j (ids o) -> write hp i v j = hp j)).
  { intros o s' Hf Hn. pose proof (fresh_disjoint s s' t o Ht Hf) as D.
    assert (D' : disjoint o t) by (intros i Hi Hj; exact (D i Hj Hi)).
    repeat split; auto.
    - intros i j Hi Hj. apply write_other. intros ->. exact (D j Hj Hi).
    - intros i j Hi Hj. apply write_other. intros ->. exact (D j Hi Hj). }
  split; [|split; [|split; [split|split; [split|split]]]].
  - pose proof (copy4h_fresh s t) as H. destruct (copy4h s t) as [c s'].
    destruct H as (Hf & Hn & _). exact (G c s' Hf Hn).
  - pose proof (restrict4h_fresh s t) as H. destruct (restrict4h s t) as [r s'].
    destruct H as (Hf & Hn & _). exact (G r s' Hf Hn).
  - cbn. unfold older, ids in *. rewrite Forall_forall in Ht.
    intros i Hi [<-|[]]. specialize (Ht _ Hi). cbn in Ht. lia.
  - cbn. unfold older, ids in *. rewrite Forall_forall in Ht.
    intros i [<-|[]] Hi. specialize (Ht _ Hi). cbn in Ht. lia.
  - cbn. unfold older, ids in *. rewrite Forall_forall in Ht.
    intros i Hi [<-|[]]. specialize (Ht _ Hi). cbn in Ht. lia.
  - cbn. unfold older, ids in *. rewrite Forall_forall in Ht.
    intros i [<-|[]] Hi. specialize (Ht _ Hi). cbn in Ht. lia.
  - cbn. unfold older in Ht. rewrite Forall_forall in Ht. intros H. specialize (Ht _ H). lia.
  - reflexivity.
Qed.
