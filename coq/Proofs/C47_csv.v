(* C47 — proofs: csv round trips of 3-D and 2-D fracture networks. *)
From Coq Require Import List ZArith Bool Arith Lia Permutation.
Import ListNotations.
From PP Require Import Model.C47 Proofs.C47.

(* ------------------------------------------------------------------------------ *)
(* 3-D                                                                            *)
(* ------------------------------------------------------------------------------ *)
Section Csv3.
  Variable V : Type.
  Variable print : V -> str.
  Variable parse : str -> option V.
  Variable sortp : list (P3 V) -> list (P3 V).
  Variable accept : list (P3 V) -> bool.

  (* str(x) of a number: parses back to x, is not empty and does not start with '#' *)
  Hypothesis parse_print : forall v, parse (print v) = Some v.
  Hypothesis print_head : forall v, exists c r, print v = c :: r /\ c <> HASH.

  Lemma parse_all3_print vs : parse_all3 V parse (map print vs) = Some vs.
  Proof.
    induction vs as [|v vs IH]; [reflexivity|].
    cbn [map parse_all3]. rewrite parse_print, IH. reflexivity.
  Qed.

  Definition coords (f : list (P3 V)) : list V :=
    flat_map (fun p => [fst (fst p); snd (fst p); snd p]) f.

  Lemma row_of_frac_coords f : row_of_frac V print f = map print (coords f).
  Proof.
    induction f as [|p f IH]; [reflexivity|].
    unfold row_of_frac, coords in *. cbn [flat_map map app]. rewrite IH. reflexivity.
  Qed.

  Lemma triples_coords f : triples V (coords f) = f.
  Proof.
    induction f as [|[[a b] c] f IH]; [reflexivity|].
    unfold coords in *. cbn [flat_map app fst snd triples]. rewrite IH. reflexivity.
  Qed.

  Lemma length_coords f : length (coords f) = length f * 3.
  Proof.
    induction f as [|p f IH]; [reflexivity|].
    unfold coords in *. cbn [flat_map app length]. rewrite IH. lia.
  Qed.

  Lemma first_char_row vs :
    vs <> [] -> exists c, first_char (map print vs) = Some c /\ Z.eqb c HASH = false.
  Proof.
    destruct vs as [|v vs]; [contradiction|]. intros _.
    destruct (print_head v) as (c & r & E & Hc). exists c. cbn [map first_char]. rewrite E.
    split; [reflexivity|]. apply Z.eqb_neq. exact Hc.
  Qed.

  Lemma read_one f rest :
    3 <= length f ->
    read_fracs V parse sortp accept (row_of_frac V print f :: rest)
    = if accept (sortp f) then
        match read_fracs V parse sortp accept rest with
        | Ok fs => Ok (sortp f :: fs)
        | Err e => Err e
        end
      else Err AssertErr.
  Proof.
    intro Hlen. rewrite row_of_frac_coords.
    assert (Hne : coords f <> []).
    { intro E. apply (f_equal (@length V)) in E. rewrite length_coords in E. cbn in E. lia. }
    destruct (first_char_row (coords f) Hne) as (c & Hc & Hh).
    cbn [read_fracs]. rewrite Hc, Hh.
    destruct (map print (coords f)) eqn:Em.
    { destruct (coords f); [contradiction|discriminate]. }
    rewrite <- Em. rewrite parse_all3_print. rewrite length_coords, Nat.mod_mul by lia.
    cbn [Nat.eqb negb]. rewrite triples_coords.
    replace (length f <? 3) with false by (symmetry; apply Nat.ltb_ge; exact Hlen).
    reflexivity.
  Qed.

  Lemma read_fracs_ok net :
    Forall (fun f => 3 <= length f) net ->
    Forall (fun f => accept (sortp f) = true) net ->
    read_fracs V parse sortp accept (map (row_of_frac V print) net) = Ok (map sortp net).
  Proof.
    intros H3 Ha. induction net as [|f net IH]; [reflexivity|].
    inversion H3; inversion Ha; subst. cbn [map]. rewrite read_one by assumption.
    rewrite H6, IH by assumption. reflexivity.
  Qed.

  Lemma read_fracs_reject net1 f net2 :
    Forall (fun f => 3 <= length f) (net1 ++ f :: net2) ->
    Forall (fun f => accept (sortp f) = true) net1 ->
    accept (sortp f) = false ->
    read_fracs V parse sortp accept (map (row_of_frac V print) (net1 ++ f :: net2))
    = Err AssertErr.
  Proof.
    intros H3 Ha Hf. induction net1 as [|g net1 IH].
    - cbn [app map]. inversion H3; subst. rewrite read_one by assumption. rewrite Hf. reflexivity.
    - cbn [app map]. inversion H3; inversion Ha; subst.
      rewrite read_one by assumption. rewrite H6, IH by assumption. reflexivity.
  Qed.

  Definition has_dom (d : option (list V)) : bool :=
    match d with Some _ => true | None => false end.

  Theorem csv3_roundtrip net dom :
    Forall (fun f => 3 <= length f) net ->
    Forall (fun f => accept (sortp f) = true) net ->
    match dom with Some b => length b = 6 | None => net <> [] end ->
    from_csv3 V parse sortp accept (has_dom dom) (to_csv3 V print net dom)
    = Ok (dom, map sortp net).
  Proof.
    intros H3 Ha Hd. unfold from_csv3, to_csv3. destruct dom as [b|]; cbn [has_dom app].
    - destruct (first_char_row b) as (c & Hc & Hh).
      { intro E; subst b; discriminate. }
      cbn [read_domain]. rewrite Hc, Hh, parse_all3_print.
      replace (length b <? 6) with false by (symmetry; apply Nat.ltb_ge; lia).
      rewrite read_fracs_ok by assumption.
      rewrite firstn_all2 by lia. reflexivity.
    - rewrite read_fracs_ok by assumption.
      destruct net; [contradiction|]. reflexivity.
  Qed.

  Theorem csv3_rejects net1 f net2 dom :
    Forall (fun f => 3 <= length f) (net1 ++ f :: net2) ->
    Forall (fun f => accept (sortp f) = true) net1 ->
    accept (sortp f) = false ->
    match dom with Some b => length b = 6 | None => True end ->
    from_csv3 V parse sortp accept (has_dom dom) (to_csv3 V print (net1 ++ f :: net2) dom)
    = Err AssertErr.
  Proof.
    intros H3 Ha Hf Hd. unfold from_csv3, to_csv3. destruct dom as [b|]; cbn [has_dom app].
    - destruct (first_char_row b) as (c & Hc & Hh).
      { intro E; subst b; discriminate. }
      cbn [read_domain]. rewrite Hc, Hh, parse_all3_print.
      replace (length b <? 6) with false by (symmetry; apply Nat.ltb_ge; lia).
      rewrite read_fracs_reject by assumption. reflexivity.
    - rewrite read_fracs_reject by assumption. reflexivity.
  Qed.

  (* with sort_points a permutation: same vertex sets, fracture by fracture *)
  Theorem csv3_same_fractures net dom :
    (forall f, Permutation (sortp f) f) ->
    Forall (fun f => 3 <= length f) net ->
    Forall (fun f => accept (sortp f) = true) net ->
    match dom with Some b => length b = 6 | None => net <> [] end ->
    exists net',
      from_csv3 V parse sortp accept (has_dom dom) (to_csv3 V print net dom) = Ok (dom, net')
      /\ Forall2 (fun f' f => Permutation f' f) net' net.
  Proof.
    intros Hp H3 Ha Hd. exists (map sortp net). split; [apply csv3_roundtrip; assumption|].
    clear -Hp. induction net; constructor; [apply Hp|assumption].
  Qed.
End Csv3.

(* ------------------------------------------------------------------------------ *)
(* 2-D                                                                            *)
(* ------------------------------------------------------------------------------ *)
Lemma sel_all {A} (keep : list bool) (l : list A) :
  length keep = length l -> Forall (fun b => b = true) keep -> sel keep l = l.
Proof.
  revert l. induction keep as [|b keep IH]; intros [|a l] Hl Hk; try discriminate; [reflexivity|].
  inversion Hk; subst. unfold sel in *. cbn [combine filter fst map snd]. f_equal.
  apply IH; [cbn in Hl; lia|assumption].
Qed.

Lemma match_nonempty {A B} (l : list A) (x y : B) :
  l <> [] -> match l with [] => x | _ :: _ => y end = y.
Proof. destruct l; [contradiction|reflexivity]. Qed.

Lemma map_combine_snd {B C} (g : B -> C) (es : list B) k :
  map (fun x : nat * B => g (snd x)) (combine (seq k (length es)) es) = map g es.
Proof.
  revert k. induction es as [|e es IH]; intro k; [reflexivity|].
  cbn [length seq combine map snd]. f_equal. apply IH.
Qed.

Lemma map_combine_fst {B C} (g : nat -> C) (es : list B) k :
  map (fun x : nat * B => g (fst x)) (combine (seq k (length es)) es) = map g (seq k (length es)).
Proof.
  revert k. induction es as [|e es IH]; intro k; [reflexivity|].
  cbn [length seq combine map fst]. f_equal. apply IH.
Qed.

Section Csv2.
  Variable V : Type.
  Variable veqb : V -> V -> bool.
  Variable print : V -> str.
  Variable printi : nat -> str.
  Variable parse : str -> V.
  Variable toint : V -> Z.
  Variable v0 : V.
  Variable uniq : list (P2 V) -> list (P2 V) * list nat.

  Notation P2 := (P2 V).
  Notation p0 := (p0 V v0).
  Notation peqb := (peqb V veqb).

  (* coordinates of distinct points differ by more than the tolerances: "close" is "equal" *)
  Hypothesis veqb_spec : forall a b, veqb a b = true <-> a = b.
  Hypothesis parse_print : forall v, parse (print v) = v.
  Hypothesis parse_printi : forall k, toint (parse (printi k)) = Z.of_nat k.
  (* uniquify_point_set: old_2_new maps every point to a representative with the same
     coordinates *)
  Hypothesis uniq_ok : forall l,
      length (snd (uniq l)) = length l /\
      forall i, i < length l ->
                nth i (snd (uniq l)) 0 < length (fst (uniq l)) /\
                nth (nth i (snd (uniq l)) 0) (fst (uniq l)) p0 = nth i l p0.

  Lemma peqb_spec a b : peqb a b = true <-> a = b.
  Proof.
    unfold C47.peqb. destruct a as [a1 a2], b as [b1 b2]. cbn [fst snd].
    rewrite andb_true_iff, !veqb_spec. split; [intros [-> ->]; reflexivity|].
    intro E; injection E as -> ->; split; reflexivity.
  Qed.

  Lemma find_close_some p l i k :
    find_close V veqb p l i = Some k -> i <= k /\ k - i < length l /\ nth (k - i) l p0 = p.
  Proof.
    revert i. induction l as [|x l IH]; intros i H; [discriminate|].
    cbn [find_close] in H. destruct (peqb p x) eqn:E.
    - injection H as <-. apply peqb_spec in E. subst x.
      rewrite Nat.sub_diag. cbn. repeat split; lia.
    - apply IH in H as (H1 & H2 & H3). replace (k - i) with (S (k - S i)) by lia.
      cbn [length nth]. repeat split; [lia|lia|exact H3].
  Qed.

  Lemma add_pt_spec pl p :
    let r := add_pt V veqb pl p in
    (exists ext, fst r = pl ++ ext) /\ snd r < length (fst r) /\ nth (snd r) (fst r) p0 = p.
  Proof.
    unfold add_pt. destruct (find_close V veqb p pl 0) as [k|] eqn:E; cbn [fst snd].
    - apply find_close_some in E as (_ & H2 & H3). rewrite Nat.sub_0_r in *.
      split; [exists []; rewrite app_nil_r; reflexivity|]. split; assumption.
    - split; [exists [p]; reflexivity|]. rewrite app_length. cbn [length].
      split; [lia|]. rewrite app_nth2 by lia. rewrite Nat.sub_diag. reflexivity.
  Qed.

  Definition frac_at (pl : list P2) (e : nat * nat) : P2 * P2 :=
    (nth (fst e) pl p0, nth (snd e) pl p0).

  Lemma frac_at_ext pl ext e :
    fst e < length pl -> snd e < length pl -> frac_at (pl ++ ext) e = frac_at pl e.
  Proof. intros H1 H2. unfold frac_at. rewrite !app_nth1 by assumption. reflexivity. Qed.

  Lemma build_aux_spec fr : forall pl,
    let r := build_aux V veqb pl fr in
    (exists ext, fst r = pl ++ ext) /\
    map (frac_at (fst r)) (snd r) = fr /\
    Forall (fun e => fst e < length (fst r) /\ snd e < length (fst r)) (snd r).
  Proof.
    induction fr as [|[a b] fr IH]; intro pl; cbn [build_aux].
    - cbn [fst snd map]. split; [exists []; rewrite app_nil_r; reflexivity|]. split; constructor.
    - pose proof (add_pt_spec pl a) as Ha. destruct (add_pt V veqb pl a) as [pl1 ia].
      cbn [fst snd] in Ha. destruct Ha as ([e1 E1] & Hia & Hna).
      pose proof (add_pt_spec pl1 b) as Hb. destruct (add_pt V veqb pl1 b) as [pl2 ib].
      cbn [fst snd] in Hb. destruct Hb as ([e2 E2] & Hib & Hnb).
      specialize (IH pl2). destruct (build_aux V veqb pl2 fr) as [pl3 es].
      cbn [fst snd] in *. destruct IH as ([e3 E3] & Hmap & Hall).
      assert (Hia2 : ia < length pl2) by (rewrite E2, app_length; lia).
      split; [exists (e1 ++ e2 ++ e3); rewrite E3, E2, E1, <- !app_assoc; reflexivity|].
      split.
      + cbn [map]. f_equal; [|exact Hmap].
        rewrite E3. rewrite frac_at_ext by assumption.
        unfold frac_at. cbn [fst snd]. rewrite Hnb. rewrite E2, app_nth1 by assumption.
        rewrite Hna. reflexivity.
      + constructor; [|exact Hall]. cbn [fst snd]. rewrite E3, app_length. lia.
  Qed.

  Lemma fracs_of_build fr : fracs_of V v0 (build V veqb fr) = fr.
  Proof.
    unfold build, fracs_of. pose proof (build_aux_spec fr []) as H.
    destruct (build_aux V veqb [] fr) as [pl es]. cbn [fst snd pts edges] in *.
    destruct H as (_ & H & _). exact H.
  Qed.

  Lemma length_edges_build fr : length (edges (build V veqb fr)) = length fr.
  Proof. rewrite <- (fracs_of_build fr) at 2. unfold fracs_of. rewrite map_length. reflexivity. Qed.

  (* ---- what is written and how it parses ---- *)
  Definition quad (f : P2 * P2) : list V := [fst (fst f); snd (fst f); fst (snd f); snd (snd f)].

  Lemma rows2_parse n i es :
    map (map parse) (rows2 V print printi v0 n i es)
    = map (fun ke => parse (printi (fst ke)) :: quad (frac_at (pts n) (snd ke)))
          (combine (seq i (length es)) es).
  Proof.
    revert i. induction es as [|[s e] es IH]; intro i; [reflexivity|].
    cbn [rows2 length seq combine map fst snd]. rewrite !parse_print, IH. reflexivity.
  Qed.

  Lemma pairs_quads (fr : list (P2 * P2)) :
    pairs V (concat (map quad fr)) = flat_map (fun f => [fst f; snd f]) fr.
  Proof.
    induction fr as [|[[a b] [c d]] fr IH]; [reflexivity|].
    cbn [map concat quad fst snd app pairs flat_map]. rewrite IH. reflexivity.
  Qed.

  Lemma odd_quads (fr : list (P2 * P2)) : Nat.odd (length (concat (map quad fr))) = false.
  Proof.
    induction fr as [|f fr IH]; [reflexivity|].
    cbn [map concat quad app length]. exact IH.
  Qed.

  Lemma nth_flat (fr : list (P2 * P2)) i :
    i < length fr ->
    nth (2 * i) (flat_map (fun f => [fst f; snd f]) fr) p0 = fst (nth i fr (p0, p0)) /\
    nth (2 * i + 1) (flat_map (fun f => [fst f; snd f]) fr) p0 = snd (nth i fr (p0, p0)).
  Proof.
    revert i. induction fr as [|f fr IH]; intros i Hi; [cbn in Hi; lia|].
    destruct i as [|i].
    - cbn. split; reflexivity.
    - cbn [length] in Hi. replace (2 * S i) with (S (S (2 * i))) by lia.
      replace (S (S (2 * i)) + 1) with (S (S (2 * i + 1))) by lia.
      cbn [flat_map app nth]. apply IH. lia.
  Qed.

  Lemma length_flat (fr : list (P2 * P2)) :
    length (flat_map (fun f => [fst f; snd f]) fr) = 2 * length fr.
  Proof. induction fr as [|f fr IH]; [reflexivity|]. cbn [flat_map app length]. rewrite IH. lia. Qed.

  Theorem csv2_roundtrip (fracs : list (P2 * P2)) (with_header : bool) :
    Forall (fun f => fst f <> snd f) fracs ->
    from_csv2 V veqb parse toint v0 uniq (if with_header then 1 else 0)
              (to_csv2 V print printi v0 with_header (build V veqb fracs))
    = Ok (build V veqb fracs, map Z.of_nat (seq 0 (length fracs))).
  Proof.
    intro Hd. destruct fracs as [|f0 fracs']; [destruct with_header; reflexivity|].
    assert (Hpos : 0 < length (f0 :: fracs')) by (cbn; lia).
    remember (f0 :: fracs') as fracs eqn:Efr. clear Efr f0 fracs'.
    set (net := build V veqb fracs).
    assert (Hskip : skipn (if with_header then 1 else 0) (to_csv2 V print printi v0 with_header net)
                    = rows2 V print printi v0 net 0 (edges net)).
    { unfold to_csv2. destruct with_header; reflexivity. }
    unfold from_csv2. rewrite Hskip, rows2_parse.
    pose proof (fracs_of_build fracs) as Hfr. fold net in Hfr. unfold fracs_of in Hfr.
    pose proof (length_edges_build fracs) as Hlen. fold net in Hlen.
    set (data := map _ (combine (seq 0 (length (edges net))) (edges net))).
    assert (Hdata_len : length data = length fracs).
    { unfold data. rewrite map_length, combine_length, seq_length. lia. }
    assert (Hcoords : concat (map (@tl V) data) = concat (map quad fracs)).
    { unfold data. rewrite map_map. cbn [tl]. f_equal. rewrite <- Hfr. rewrite map_map.
      exact (map_combine_snd (fun e => quad (frac_at (pts net) e)) (edges net) 0). }
    assert (Hids : map (fun r => hd v0 r) data = map (fun k => parse (printi k)) (seq 0 (length fracs))).
    { unfold data. rewrite map_map. cbn [hd]. rewrite <- Hlen.
      exact (map_combine_fst (fun k => parse (printi k)) (edges net) 0). }
    rewrite (match_nonempty data).
    2:{ intro E. rewrite E in Hdata_len. cbn in Hdata_len. lia. }
    rewrite Hcoords, odd_quads, pairs_quads, Hids, Hdata_len.
    set (ptl := flat_map (fun f => [fst f; snd f]) fracs).
    pose proof (uniq_ok ptl) as [Hol Hon]. destruct (uniq ptl) as [upts o2n].
    cbn [fst snd] in *.
    assert (Hptl : length ptl = 2 * length fracs) by apply length_flat.
    set (e0 := map (fun i => (2 * i, 2 * i + 1)) (seq 0 (length fracs))).
    replace (forallb _ e0) with true.
    2:{ symmetry. apply forallb_forall. intros e He. unfold e0 in He.
        apply in_map_iff in He as (i & <- & Hi). apply in_seq in Hi. cbn [fst snd].
        apply andb_true_iff. split; apply Nat.ltb_lt; lia. }
    set (e1 := map (fun e => (nth (fst e) o2n 0, nth (snd e) o2n 0)) e0).
    (* what the i-th remapped edge points at *)
    assert (He1 : forall i, i < length fracs ->
              let e := (nth (2 * i) o2n 0, nth (2 * i + 1) o2n 0) in
              fst e < length upts /\ snd e < length upts /\
              (nth (fst e) upts p0, nth (snd e) upts p0) = nth i fracs (p0, p0)).
    { intros i Hi. cbn [fst snd].
      destruct (Hon (2 * i)) as [Ha1 Ha2]; [lia|]. destruct (Hon (2 * i + 1)) as [Hb1 Hb2]; [lia|].
      destruct (nth_flat fracs i Hi) as [Hf Hs]. fold ptl in Hf, Hs.
      repeat split; try assumption. rewrite Ha2, Hb2, Hf, Hs.
      destruct (nth i fracs (p0, p0)); reflexivity. }
    assert (He1map : e1 = map (fun i => (nth (2 * i) o2n 0, nth (2 * i + 1) o2n 0))
                             (seq 0 (length fracs))).
    { unfold e1, e0. rewrite map_map. reflexivity. }
    assert (Hkeep : Forall (fun b => b = true) (map (fun e => negb (fst e =? snd e)) e1)).
    { rewrite He1map, map_map. apply Forall_forall. intros b Hb.
      apply in_map_iff in Hb as (i & <- & Hi). apply in_seq in Hi. cbn [fst snd].
      apply negb_true_iff. apply Nat.eqb_neq. intro E.
      destruct (He1 i) as (_ & _ & H); [lia|]. cbn [fst snd] in H. rewrite E in H.
      rewrite Forall_forall in Hd. apply (Hd (nth i fracs (p0, p0))).
      - apply nth_In. lia.
      - rewrite <- H. reflexivity. }
    rewrite !sel_all; try exact Hkeep;
      try (unfold e1, e0; rewrite !map_length, ?seq_length; reflexivity).
    replace (forallb _ e1) with true.
    2:{ symmetry. apply forallb_forall. intros e He. rewrite He1map in He.
        apply in_map_iff in He as (i & <- & Hi). apply in_seq in Hi.
        destruct (He1 i) as (H1 & H2 & _); [lia|]. cbn [fst snd] in *.
        apply andb_true_iff. split; apply Nat.ltb_lt; assumption. }
    assert (Hfr' : map (fun e => (nth (fst e) upts p0, nth (snd e) upts p0)) e1 = fracs).
    { rewrite He1map, map_map. cbn [fst snd].
      rewrite <- (tabulate fracs (p0, p0)) at 2.
      apply map_ext_in. intros i Hi. apply in_seq in Hi.
      destruct (He1 i) as (_ & _ & H); [lia|]. exact H. }
    rewrite Hfr'.
    replace (existsb _ fracs) with false.
    2:{ symmetry. apply not_true_is_false. intro Hex. apply existsb_exists in Hex as (f & Hf & Hp).
        apply peqb_spec in Hp. rewrite Forall_forall in Hd. exact (Hd f Hf Hp). }
    f_equal. f_equal. rewrite map_map. apply map_ext. intro k. apply parse_printi.
  Qed.
End Csv2.

(* the 2-D round trip in the property's words: same fractures, same order, ids 0..n-1 *)
Theorem csv2_same_fractures :
  forall (V : Type) (veqb : V -> V -> bool) (print : V -> str) (printi : nat -> str)
         (parse : str -> V) (toint : V -> Z) (v0 : V)
         (uniq : list (P2 V) -> list (P2 V) * list nat),
    (forall a b : V, veqb a b = true <-> a = b) ->
    (forall v : V, parse (print v) = v) ->
    (forall k : nat, toint (parse (printi k)) = Z.of_nat k) ->
    (forall l : list (P2 V),
        length (snd (uniq l)) = length l /\
        (forall i : nat, i < length l ->
           nth i (snd (uniq l)) 0 < length (fst (uniq l)) /\
           nth (nth i (snd (uniq l)) 0) (fst (uniq l)) (p0 V v0) = nth i l (p0 V v0))) ->
    forall (fracs : list (P2 V * P2 V)) (with_header : bool),
      Forall (fun f => fst f <> snd f) fracs ->
      exists net' ids,
        from_csv2 V veqb parse toint v0 uniq (if with_header then 1 else 0)
                  (to_csv2 V print printi v0 with_header (build V veqb fracs)) = Ok (net', ids)
        /\ fracs_of V v0 net' = fracs
        /\ ids = map Z.of_nat (seq 0 (length fracs)).
Proof.
  intros V veqb print printi parse toint v0 uniq H1 H2 H3 H4 fracs wh Hd.
  exists (build V veqb fracs), (map Z.of_nat (seq 0 (length fracs))).
  split; [apply csv2_roundtrip; assumption|]. split; [|reflexivity].
  apply fracs_of_build. exact H1.
Qed.

(* concrete instances used by the non-vacuity examples of Props/C47.v *)
Definition ex_print (_ : unit) (v : Z) : str := [v + 48]%Z.
Definition ex_parse (s : str) : option Z :=
  match s with [c] => if ((48 <=? c) && (c <=? 57))%Z then Some (c - 48)%Z else None | _ => None end.
Definition ex_pr (v : Z) : str := [48; v]%Z.
Definition ex_pri (k : nat) : str := [Z.of_nat k].
Definition ex_pa (s : str) : Z := match s with [_; v] => v | [k] => k | _ => 0%Z end.
Definition ex_uniq (l : list (Z * Z)) := (l, seq 0 (length l)).

(* ---- polyline format (partial): the rows of ONE polyline are paired consecutively ---- *)
Lemma combine_seq_succ a n : combine (seq a n) (seq (S a) n) = map (fun i => (i, S i)) (seq a n).
Proof.
  revert a. induction n as [|n IH]; intro a; [reflexivity|].
  cbn [seq combine map]. f_equal. apply IH.
Qed.

Lemma poly_edges_single (fi : Z) (n : nat) :
  2 <= n ->
  poly_edges (repeat fi n) fi = Ok (map (fun i => (i, S i)) (seq 0 (n - 1))).
Proof.
  intro Hn. unfold poly_edges. rewrite repeat_length.
  assert (Hall : filter (fun i => Z.eqb (nth i (repeat fi n) 0%Z) fi) (seq 0 n) = seq 0 n).
  { clear Hn.
    assert (H : forall i, In i (seq 0 n) -> Z.eqb (nth i (repeat fi n) 0%Z) fi = true).
    { intros i Hi. apply Z.eqb_eq. apply (repeat_spec n fi). apply nth_In.
      rewrite repeat_length. apply in_seq in Hi. lia. }
    induction (seq 0 n) as [|x l IH]; [reflexivity|].
    cbn [filter]. rewrite (H x (or_introl eq_refl)). f_equal. apply IH.
    intros i Hi. apply H. right. exact Hi. }
  rewrite Hall.
  destruct n as [|[|[|n]]]; try lia; [reflexivity|].
  cbn [seq].
  assert (Hlast : last (0 :: 1 :: 2 :: seq 3 n) 0 = S (S n)).
  { change (0 :: 1 :: 2 :: seq 3 n) with (seq 0 (S (S (S n)))).
    rewrite seq_S. rewrite last_last. reflexivity. }
  rewrite Hlast. rewrite !seq_length, Nat.eqb_refl.
  replace (S (S n) - 0) with (S (S n)) by lia. replace (S (S (S n)) - 1) with (S (S n)) by lia.
  f_equal. apply combine_seq_succ.
Qed.
