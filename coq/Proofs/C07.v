(* C07 — proofs: block elimination, permuted-inverse algebra, the permutation cache, and the
   row / column partitions produced by the bookkeeping of assemble_schur_complement_system. *)
From Coq Require Import List ZArith Bool Arith Lia Sorted Permutation.
Import ListNotations.
From PP Require Import Model.C05 Proofs.C05 Model.C06 Proofs.C06 Model.C07.

(* ------------------------------------------------------------------------------------ *)
(* (1) block elimination over commutative groups *)
Record cgroup (T : Type) := {
  gadd : T -> T -> T;
  gopp : T -> T;
  gzero : T;
  gassoc : forall a b c, gadd a (gadd b c) = gadd (gadd a b) c;
  gcomm : forall a b, gadd a b = gadd b a;
  gzero_l : forall a, gadd gzero a = a;
  gopp_r : forall a, gadd a (gopp a) = gzero
}.
Arguments gadd {T}. Arguments gopp {T}. Arguments gzero {T}.

Section Group.
  Context {T : Type} (G : cgroup T).
  Local Notation "a + b" := (gadd G a b).
  Local Notation "- a" := (gopp G a).

  Lemma g_solve a b c : a + b = c <-> b = c + - a.
  Proof.
    split; intro H.
    - rewrite <- H. rewrite (gcomm _ G a b), <- (gassoc _ G), (gopp_r _ G), (gcomm _ G b).
      rewrite (gzero_l _ G). reflexivity.
    - rewrite H. rewrite (gcomm _ G c), (gassoc _ G), (gopp_r _ G), (gzero_l _ G). reflexivity.
  Qed.

  Lemma g_swap a u w : a + (u + w) = u + (a + w).
  Proof. rewrite !(gassoc _ G), (gcomm _ G a u). reflexivity. Qed.
End Group.

Section Additive.
  Context {T U : Type} (G : cgroup T) (H : cgroup U) (f : T -> U).
  Hypothesis f_add : forall a b, f (gadd G a b) = gadd H (f a) (f b).

  Lemma add_zero : f (gzero G) = gzero H.
  Proof.
    assert (E : gadd H (f (gzero G)) (f (gzero G)) = f (gzero G)).
    { rewrite <- f_add, (gzero_l _ G). reflexivity. }
    apply (g_solve H) in E. rewrite E. apply (gopp_r _ H).
  Qed.

  Lemma add_opp a : f (gopp G a) = gopp H (f a).
  Proof.
    assert (E : gadd H (f a) (f (gopp G a)) = gzero H).
    { rewrite <- f_add, (gopp_r _ G). apply add_zero. }
    apply (g_solve H) in E. rewrite E. apply (gzero_l _ H).
  Qed.
End Additive.

Section BlockElimination.
  Context {P S : Type} (GP : cgroup P) (GS : cgroup S).
  Variables (App : P -> P) (Aps : S -> P) (Asp : P -> S) (Ass : S -> S) (inv : S -> S).
  Hypothesis Aps_add : forall a b, Aps (gadd GS a b) = gadd GP (Aps a) (Aps b).
  Hypothesis Ass_add : forall a b, Ass (gadd GS a b) = gadd GS (Ass a) (Ass b).
  Hypothesis inv_l : forall y, inv (Ass y) = y.      (* inv_A_ss * A_ss = I *)
  Hypothesis inv_r : forall y, Ass (inv y) = y.      (* A_ss * inv_A_ss = I *)
  Variables (bp : P) (bs : S).

  (* [[A_pp A_ps] [A_sp A_ss]] [x_p x_s] = [b_p b_s] *)
  Definition block_system (xp : P) (xs : S) : Prop :=
    gadd GP (App xp) (Aps xs) = bp /\ gadd GS (Asp xp) (Ass xs) = bs.

  (* S x_p = rhs_S  with  S = A_pp - A_ps * inv_A_ss * A_sp,
     rhs_S = b_p - A_ps * inv_A_ss * b_s  (assemble_schur_complement_system) *)
  Definition reduced_system (xp : P) : Prop :=
    gadd GP (App xp) (gopp GP (Aps (inv (Asp xp)))) = gadd GP bp (gopp GP (Aps (inv bs))).

  (* x_s = inv_A_ss * (b_s - A_sp * x_p)  (expand_schur_complement_solution) *)
  Definition expand (xp : P) : S := inv (gadd GS bs (gopp GS (Asp xp))).

  Lemma inv_add a b : inv (gadd GS a b) = gadd GS (inv a) (inv b).
  Proof. rewrite <- (inv_r a) at 1. rewrite <- (inv_r b) at 1. rewrite <- Ass_add. apply inv_l. Qed.

  Theorem schur_equivalence xp xs :
    block_system xp xs <-> reduced_system xp /\ xs = expand xp.
  Proof.
    unfold block_system, reduced_system, expand.
    assert (E2 : gadd GS (Asp xp) (Ass xs) = bs <-> xs = inv (gadd GS bs (gopp GS (Asp xp)))).
    { rewrite (g_solve GS). split; intro H.
      - rewrite <- H. symmetry. apply inv_l.
      - rewrite H. apply inv_r. }
    assert (K : forall a b, Aps (inv (gadd GS a (gopp GS b))) =
                            gadd GP (Aps (inv a)) (gopp GP (Aps (inv b)))).
    { intros a b. rewrite inv_add, Aps_add. f_equal.
      rewrite (add_opp GS GS inv inv_add). apply (add_opp GS GP Aps Aps_add). }
    split.
    - intros [H1 H2]. apply E2 in H2. split; auto. subst xs. rewrite K in H1.
      rewrite (g_swap GP) in H1. apply (g_solve GP) in H1. exact H1.
    - intros [H1 H2]. split; [|apply E2; exact H2]. subst xs. rewrite K.
      rewrite (g_swap GP). apply (g_solve GP). exact H1.
  Qed.
End BlockElimination.

(* ------------------------------------------------------------------------------------ *)
(* (3) A^-1 = Q B^-1 P when P A Q = B (invert_permuted_block_diag_matrix) *)
Section PermutedInverse.
  Context {X Y : Type}.
  Variables (A : X -> Y) (Pm : Y -> Y) (Qm : X -> X) (B : X -> Y) (Binv : Y -> X).
  Variables (Pinv : Y -> Y) (Qinv : X -> X).
  Hypothesis PAQ : forall x, Pm (A (Qm x)) = B x.
  Hypothesis P_l : forall y, Pinv (Pm y) = y.
  Hypothesis Q_r : forall x, Qm (Qinv x) = x.
  Hypothesis B_r : forall y, B (Binv y) = y.
  Hypothesis B_l : forall x, Binv (B x) = x.

  Theorem permuted_inverse :
    (forall y, A (Qm (Binv (Pm y))) = y) /\ (forall x, Qm (Binv (Pm (A x))) = x).
  Proof.
    split.
    - intro y. rewrite <- (P_l (A (Qm (Binv (Pm y))))). rewrite PAQ, B_r. apply P_l.
    - intro x. rewrite <- (Q_r x) at 1. rewrite PAQ, B_l. apply Q_r.
  Qed.
End PermutedInverse.

(* ------------------------------------------------------------------------------------ *)
(* (4) the permutation cache of the default inverter (as repaired) *)
Section CacheProofs.
  Variables Pat Perm : Type.
  Variable pat_eqb : Pat -> Pat -> bool.
  Variable genperm : Pat -> Perm.
  Hypothesis pat_eqb_true : forall a b, pat_eqb a b = true -> a = b.

  Definition coherent (c : cache Pat Perm) : Prop :=
    match c with None => True | Some (p, pm) => pm = genperm p end.

  Lemma inverter_perm_ok c p :
    coherent c ->
    coherent (fst (inverter_perm Pat Perm pat_eqb genperm c p)) /\
    snd (inverter_perm Pat Perm pat_eqb genperm c p) = genperm p.
  Proof.
    unfold inverter_perm. destruct c as [[p0 pm]|]; cbn.
    - intro H. destruct (pat_eqb p0 p) eqn:E; cbn; auto.
      apply pat_eqb_true in E. subst. auto.
    - auto.
  Qed.

  Theorem cache_always_current : forall ps c,
    coherent c -> snd (inverter_run Pat Perm pat_eqb genperm c ps) = map genperm ps.
  Proof.
    induction ps as [|p r IH]; intros c Hc; cbn [inverter_run]; auto.
    destruct (inverter_perm_ok c p Hc) as [H1 H2].
    destruct (inverter_perm Pat Perm pat_eqb genperm c p) as [c' pm]. cbn [fst snd] in *.
    specialize (IH c' H1). destruct (inverter_run Pat Perm pat_eqb genperm c' r) as [c'' pms].
    cbn [snd] in *. subst. reflexivity.
  Qed.
End CacheProofs.

(* ------------------------------------------------------------------------------------ *)
(* (2) rows: kept ++ excluded rows of a primary equation partition its rows *)
Lemma sort_sorted_id : forall l, StronglySorted le l -> sort l = l.
Proof.
  induction 1 as [|x r Hs IH Hf]; cbn; auto. rewrite IH.
  destruct r as [|y t]; cbn; auto. inversion Hf as [|? ? Hxy _]. subst.
  apply Nat.leb_le in Hxy. rewrite Hxy. reflexivity.
Qed.

Lemma seq_sorted_le a n : StronglySorted le (seq a n).
Proof.
  revert a. induction n as [|n IH]; intro a; cbn; constructor; auto.
  apply Forall_forall. intros x Hx. apply in_seq in Hx. lia.
Qed.

Lemma dedup_cons2 x y r :
  dedup_sorted (x :: y :: r) =
  if Nat.eqb x y then dedup_sorted (y :: r) else x :: dedup_sorted (y :: r).
Proof. reflexivity. Qed.

Lemma dedup_seq : forall n a, dedup_sorted (seq a n) = seq a n.
Proof.
  induction n as [|n IH]; intro a; auto.
  specialize (IH (S a)). destruct n as [|n]; [reflexivity|].
  change (seq a (S (S n))) with (a :: S a :: seq (S (S a)) n).
  change (seq (S a) (S n)) with (S a :: seq (S (S a)) n) in IH.
  rewrite dedup_cons2, IH.
  replace (Nat.eqb a (S a)) with false by (symmetry; apply Nat.eqb_neq; lia).
  reflexivity.
Qed.

Lemma np_unique_seq n : np_unique (seq 0 n) = seq 0 n.
Proof. unfold np_unique. rewrite (sort_sorted_id _ (seq_sorted_le 0 n)). apply dedup_seq. Qed.

Lemma memb_In' x l : memb x l = true <-> In x l.
Proof. apply memb_In. Qed.

Lemma drop_positions_seq idx : forall n a,
  drop_positions (seq a n) a idx = filter (fun i => negb (memb i idx)) (seq a n).
Proof.
  induction n as [|n IH]; intro a; cbn; auto.
  rewrite IH. destruct (memb a idx); reflexivity.
Qed.

(* rows of [0, n) that are not kept *)
Definition excl_rows (n : nat) (idx : list nat) : list nat :=
  filter (fun i => negb (memb i idx)) (seq 0 n).

Lemma np_delete_seq n idx :
  Forall (fun i => i < n) idx -> np_delete (seq 0 n) idx = Some (excl_rows n idx).
Proof.
  intro H. unfold np_delete. rewrite seq_length.
  assert (E : existsb (fun i => n <=? i) idx = false).
  { apply not_true_is_false. intro Hx. apply existsb_exists in Hx.
    destruct Hx as [i [Hi Hle]]. apply Nat.leb_le in Hle.
    rewrite Forall_forall in H. apply H in Hi. lia. }
  rewrite E. rewrite drop_positions_seq. reflexivity.
Qed.

Lemma kept_excl_perm n idx :
  NoDup idx -> Forall (fun i => i < n) idx ->
  Permutation (idx ++ excl_rows n idx) (seq 0 n).
Proof.
  intros Hnd Hb. apply NoDup_Permutation.
  - apply NoDup_app'; auto.
    + apply NoDup_filter. apply seq_NoDup.
    + intros x Hx Hy. apply filter_In in Hy. destruct Hy as [_ Hy].
      apply negb_true_iff in Hy. apply memb_In in Hx. congruence.
  - apply seq_NoDup.
  - intro x. rewrite in_app_iff, in_seq. unfold excl_rows. rewrite filter_In, in_seq. split.
    + intros [Hx|[Hx _]]; [|lia]. rewrite Forall_forall in Hb. apply Hb in Hx. lia.
    + intro Hx. destruct (memb x idx) eqn:E; [left; apply memb_In; auto|right].
      split; [lia|]. try rewrite E. reflexivity.
Qed.

(* the model's complement of one restricted equation *)
Lemma complement_one es name idx r img n :
  dget (comp es) name = Some img -> img <> [] -> concat (map snd img) = seq 0 n ->
  Forall (fun i => i < n) idx ->
  complement es ((name, Some idx) :: r) =
  match complement es r with
  | inr e => inr e
  | inl c => inl ((name, Some (excl_rows n idx)) :: c)
  end.
Proof.
  intros Hi Hne Hw Hb. cbn [complement]. rewrite Hi.
  destruct (map snd img) as [|v vs] eqn:Em.
  - destruct img; [contradiction|discriminate].
  - rewrite Hw, np_unique_seq, (np_delete_seq n idx Hb). reflexivity.
Qed.

(* ---------------- the row lists of a split, as specifications ---------------- *)
(* excluded rows of the primary equations and rows of the secondary equations, global *)
Fixpoint excl_from (es : est) (a : eqarg) (eqs : list (nat * nat)) (off : nat) : list nat :=
  match eqs with
  | [] => []
  | (name, _) :: r =>
      (match kept a name with
       | Some (Some _) => map (Nat.add off) (excl_rows (esize es name) (local_rows es a name))
       | _ => []
       end) ++ excl_from es a r (off + esize es name)
  end.

Fixpoint sec_from (es : est) (a : eqarg) (eqs : list (nat * nat)) (off : nat) : list nat :=
  match eqs with
  | [] => []
  | (name, _) :: r =>
      (match kept a name with
       | None => seq off (esize es name)
       | Some _ => []
       end) ++ sec_from es a r (off + esize es name)
  end.

(* primary rows (C06's rows_spec) and secondary rows in the order the code stacks them *)
Definition prim_rows (es : est) (a : eqarg) : list nat := rows_spec es a.
Definition sec_rows (es : est) (a : eqarg) : list nat :=
  excl_from es a (equations es) 0 ++ sec_from es a (equations es) 0.

Lemma perm_interleave {A} (a1 a2 b1 b2 c1 c2 : list A) :
  Permutation ((a1 ++ a2) ++ (b1 ++ b2) ++ (c1 ++ c2)) ((a1 ++ b1 ++ c1) ++ (a2 ++ b2 ++ c2)).
Proof.
  rewrite <- !app_assoc. apply Permutation_app_head.
  eapply perm_trans; [apply Permutation_app_swap_app|]. apply Permutation_app_head.
  eapply perm_trans; [apply Permutation_app_head; apply Permutation_app_swap_app|].
  apply Permutation_app_swap_app.
Qed.

Lemma SS_lt_NoDup' l : StronglySorted lt l -> NoDup l.
Proof. apply SS_lt_NoDup. Qed.

Lemma rows_partition es a : EInv es ->
  forall l off, (forall kv, In kv l -> In (fst kv) (map fst (equations es))) ->
  Permutation (rows_from es a l off ++ excl_from es a l off ++ sec_from es a l off)
              (seq off (length (flat_map (fun kv => seq 0 (esize es (fst kv))) l))).
Proof.
  intro HI. induction l as [|[name op] r IH]; intros off Hin.
  - cbn. constructor.
  - cbn [rows_from excl_from sec_from flat_map fst].
    eapply perm_trans; [apply perm_interleave|].
    rewrite app_length, seq_length, seq_app.
    apply Permutation_app; [|apply IH; intros; apply Hin; right; auto].
    destruct (local_rows_bound es a name HI (Hin (name, op) (or_introl eq_refl))) as [Hs Hb].
    unfold local_rows in *. destruct (kept a name) as [[gs|]|].
    + rewrite app_nil_r, <- map_app.
      replace (seq off (esize es name)) with (map (Nat.add off) (seq 0 (esize es name)))
        by (rewrite map_add_seq; f_equal; lia).
      apply Permutation_map. apply kept_excl_perm; auto. apply SS_lt_NoDup. exact Hs.
    + cbn [app]. rewrite app_nil_r. rewrite map_add_seq, Nat.add_0_r. apply Permutation_refl.
    + cbn [map app]. apply Permutation_refl.
Qed.

(* primary rows ++ secondary rows: every row of the full system exactly once *)
Theorem split_rows_permutation es a :
  EInv es ->
  Permutation (prim_rows es a ++ sec_rows es a)
              (seq 0 (length (flat_map (fun kv => seq 0 (esize es (fst kv))) (equations es)))).
Proof.
  intro HI. unfold prim_rows, sec_rows, rows_spec.
  apply (rows_partition es a HI (equations es) 0).
  intros kv H. apply in_map. exact H.
Qed.

(* what _gridbased_equation_complement returns for an accepted argument *)
Definition excl_spec (es : est) (a : eqarg) : list (nat * rowsel) :=
  flat_map (fun kv => match kept a (fst kv) with
                      | Some (Some _) =>
                          [(fst kv, Some (excl_rows (esize es (fst kv)) (local_rows es a (fst kv))))]
                      | Some None => [(fst kv, None)]
                      | None => []
                      end) (equations es).

(* no restricted primary equation is defined on no grids at all (np.hstack([]) raises) *)
Definition restricted_nonempty (es : est) (a : eqarg) : Prop :=
  forall name gs, In name (map fst (equations es)) -> kept a name = Some (Some gs) ->
                  img_of es name <> [].

Theorem complement_spec es a :
  EInv es -> restricted_nonempty es a ->
  complement es (blocks_spec es a) = inl (excl_spec es a).
Proof.
  intros HI Hne. unfold blocks_spec, excl_spec.
  assert (H : forall l : list (nat * nat),
    (forall kv, In kv l -> In (fst kv) (map fst (equations es))) ->
    complement es (flat_map (fun kv => match kept a (fst kv) with
                                       | Some m => [(fst kv, sel_of es (fst kv) m)]
                                       | None => [] end) l) =
    inl (flat_map (fun kv => match kept a (fst kv) with
                      | Some (Some _) =>
                          [(fst kv, Some (excl_rows (esize es (fst kv)) (local_rows es a (fst kv))))]
                      | Some None => [(fst kv, None)]
                      | None => []
                      end) l)).
  { induction l as [|[name op] r IH]; intro Hin; [reflexivity|].
    cbn [flat_map fst]. specialize (IH (fun kv Hk => Hin kv (or_intror Hk))).
    assert (Hn : In name (map fst (equations es))) by (apply (Hin (name, op)); left; auto).
    destruct (kept a name) as [[gs|]|] eqn:Ek.
    - cbn [app sel_of].
      destruct (ei_comp es HI name Hn) as [img [Hi [n Hw]]].
      destruct (local_rows_bound es a name HI Hn) as [_ Hb].
      assert (Esz : esize es name = n).
      { unfold esize, img_of. rewrite Hi, Hw, seq_length. reflexivity. }
      unfold local_rows in *. rewrite Ek in *. rewrite Esz in *.
      rewrite (complement_one es name _ _ img n Hi); auto.
      + rewrite IH. reflexivity.
      + pose proof (Hne name gs Hn Ek) as Hx. unfold img_of in Hx. rewrite Hi in Hx. exact Hx.
    - cbn [app sel_of complement]. rewrite IH. reflexivity.
    - cbn [app]. exact IH. }
  apply H. intros kv Hk. apply in_map. exact Hk.
Qed.

(* ------------------------------------------------------------------------------------ *)
(* (2) columns: primary ++ secondary columns are all dofs exactly once *)
Lemma parse_ids s ids : parse s (Some (map ById ids)) = ids.
Proof. cbn. induction ids as [|i r IH]; cbn; congruence. Qed.

Lemma proj_cols_perm g s ids :
  Inv g s -> (forall id, In id ids -> In id (block_ids s)) ->
  exists cols, @proj_cols s ids = inl cols /\
               Permutation cols (concat (map (block_of s) ids)).
Proof.
  intros HI Hreg. unfold proj_cols. destruct ids as [|i r].
  - cbn. exists []. split; auto.
  - destruct (projection_ok g s (Some (map ById (i :: r))) HI eq_refl) as [cols [H1 [_ [H3 _]]]].
    { rewrite parse_ids. exact Hreg. }
    rewrite H1. exists cols. split; auto. rewrite parse_ids in H3. exact H3.
Qed.

Lemma Permutation_concat_map {A B} (f : A -> list B) l l' :
  Permutation l l' -> Permutation (concat (map f l)) (concat (map f l')).
Proof.
  induction 1; cbn; auto.
  - apply Permutation_app_head; auto.
  - rewrite !app_assoc. apply Permutation_app_tail. apply Permutation_app_comm.
  - eapply perm_trans; eauto.
Qed.

Theorem split_cols_permutation g s P :
  Inv g s -> NoDup P -> (forall id, In id P -> In id (block_ids s)) ->
  let Sv := filter (fun id => negb (memb id P)) (map vid (vars s)) in
  exists cp cs, @proj_cols s P = inl cp /\ @proj_cols s Sv = inl cs /\
                Permutation (cp ++ cs) (seq 0 (num_dofs s)).
Proof.
  intros HI Hnd Hreg Sv.
  destruct (layout g s HI) as [Hb [_ [Hio [Hndb [_ [Hcov _]]]]]].
  assert (Hall : forall id, In id (map vid (vars s)) <-> In id (block_ids s)).
  { intro id. rewrite Hb, !in_map_iff. split; intros [v [E Hv]]; exists v; split; auto;
      apply Hio; auto. }
  assert (HSreg : forall id, In id Sv -> In id (block_ids s)).
  { intros id H. apply filter_In in H. apply Hall. tauto. }
  destruct (proj_cols_perm g s P HI Hreg) as [cp [H1 Hp1]].
  destruct (proj_cols_perm g s Sv HI HSreg) as [cs [H2 Hp2]].
  exists cp, cs. split; auto. split; auto.
  rewrite <- Hcov.
  eapply perm_trans; [apply Permutation_app; eassumption|].
  rewrite <- concat_app, <- map_app. apply Permutation_concat_map.
  apply NoDup_Permutation; auto.
  - apply NoDup_app'; auto.
    + apply NoDup_filter. pose proof (inv_sorted g s HI) as Hs. apply SS_lt_NoDup. exact Hs.
    + intros x Hx Hy. apply filter_In in Hy. destruct Hy as [_ Hy].
      apply negb_true_iff in Hy. apply memb_In in Hx. congruence.
  - intro x. rewrite in_app_iff. split.
    + intros [Hx|Hx]; auto.
    + intro Hx. destruct (memb x P) eqn:E; [left; apply memb_In; auto|right].
      apply filter_In. split; [apply Hall; auto|]. try rewrite E. reflexivity.
Qed.

(* ------------------------------------------------------------------------------------ *)
(* (2) consequence: a vector that satisfies every row of the blocks, the rows and columns
   being permutations of those of the full system, satisfies every row of the full system *)
Section Original.
  Variable T : Type.
  Variables (tadd : T -> T -> T) (tzero : T).
  Hypothesis tassoc : forall a b c, tadd a (tadd b c) = tadd (tadd a b) c.
  Hypothesis tcomm : forall a b, tadd a b = tadd b a.
  Hypothesis tzero_l : forall a, tadd tzero a = a.

  Definition tsum (f : nat -> T) (l : list nat) : T := fold_right (fun c acc => tadd (f c) acc) tzero l.

  Lemma tsum_app f l1 l2 : tsum f (l1 ++ l2) = tadd (tsum f l1) (tsum f l2).
  Proof.
    unfold tsum. induction l1 as [|x r IH]; cbn; [rewrite tzero_l; reflexivity|].
    rewrite IH. apply tassoc.
  Qed.

  Lemma tsum_perm f l l' : Permutation l l' -> tsum f l = tsum f l'.
  Proof.
    unfold tsum. induction 1; cbn; auto.
    - congruence.
    - rewrite !tassoc. f_equal. apply tcomm.
    - congruence.
  Qed.

  (* term i c = A[i, c] * X[c] *)
  Theorem original_system_solved (term : nat -> nat -> T) (b : nat -> T)
          (rows_p rows_s cols_p cols_s : list nat) (n N : nat) :
    Permutation (rows_p ++ rows_s) (seq 0 n) ->
    Permutation (cols_p ++ cols_s) (seq 0 N) ->
    (forall i, In i (rows_p ++ rows_s) ->
       tadd (tsum (term i) cols_p) (tsum (term i) cols_s) = b i) ->
    forall i, i < n -> tsum (term i) (seq 0 N) = b i.
  Proof.
    intros Hr Hc Hblk i Hi.
    rewrite <- (tsum_perm (term i) _ _ Hc), tsum_app. apply Hblk.
    apply (Permutation_in _ (Permutation_sym Hr)). apply in_seq. lia.
  Qed.
End Original.

(* ------------------------------------------------------------------------------------ *)
(* statements over histories, as used in Props/C07.v *)
Lemma thm_rows_partition (V : Type) (vzero : V) (vopp : V -> V) (eval : nat -> list (@prow V))
      g s ops a :
  let es := efinal vzero vopp eval g s ops in
  Permutation (prim_rows es a ++ sec_rows es a)
              (seq 0 (length (flat_map (fun kv => seq 0 (esize es (fst kv))) (equations es)))).
Proof. intro es. apply split_rows_permutation. apply efinal_EInv. Qed.

Lemma thm_complement (V : Type) (vzero : V) (vopp : V -> V) (eval : nat -> list (@prow V))
      g s ops a :
  let es := efinal vzero vopp eval g s ops in
  restricted_nonempty es a ->
  complement es (blocks_spec es a) = inl (excl_spec es a).
Proof. intro es. apply complement_spec. apply efinal_EInv. Qed.

Lemma thm_cols_partition g vops P :
  Forall (wf_op g) vops ->
  let s := final g vops in
  NoDup P -> (forall id, In id P -> In id (block_ids s)) ->
  let Sv := filter (fun id => negb (memb id P)) (map vid (vars s)) in
  exists cp cs, @proj_cols s P = inl cp /\ @proj_cols s Sv = inl cs /\
                Permutation (cp ++ cs) (seq 0 (num_dofs s)).
Proof. intros Hw s. apply (split_cols_permutation g). apply final_Inv. exact Hw. Qed.

Lemma thm_cache (Pat Perm : Type) (pat_eqb : Pat -> Pat -> bool) (genperm : Pat -> Perm) :
  (forall a b, pat_eqb a b = true -> a = b) ->
  forall ps, snd (inverter_run Pat Perm pat_eqb genperm None ps) = map genperm ps.
Proof. intros H ps. apply (cache_always_current Pat Perm pat_eqb genperm H). exact I. Qed.
