(* C37 — the slicer model of invert_permuted_block_diag_matrix, entry by entry:
   to_block_form A rp cp has entries A[rp_i][cp_j]; from_block_form Bi rp cp has entries
   Bi[k][i] at (cp_k, rp_i); hence it inverts A whenever Bi inverts the block form, for
   ALL permutations rp, cp (no inverse index list needed). *)
From Coq Require Import List Arith Bool Lia Ring Permutation.
Import ListNotations.
From PP Require Import Lib.Dense Proofs.C37_dense Model.C37.

Definition is_perm (n : nat) (p : list nat) : Prop :=
  length p = n /\ NoDup p /\ Forall (fun x => x < n) p.

Lemma is_perm_Permutation : forall n p, is_perm n p -> Permutation p (seq 0 n).
Proof.
  intros n p [L [ND F]]. apply NoDup_Permutation_bis; [exact ND|rewrite seq_length; lia|].
  intros x Hx. apply in_seq. rewrite Forall_forall in F. specialize (F x Hx). lia.
Qed.

Lemma is_perm_surj : forall n p a, is_perm n p -> a < n -> exists i, i < n /\ nth i p 0 = a.
Proof.
  intros n p a HP Ha. pose proof (is_perm_Permutation n p HP) as P.
  assert (Hin : In a p) by (apply (Permutation_in a (Permutation_sym P)); apply in_seq; lia).
  destruct (In_nth p a 0 Hin) as [i [Hi E]]. destruct HP as [L _]. exists i. split; [lia|exact E].
Qed.

Lemma is_perm_inj : forall n p i j, is_perm n p -> i < n -> j < n -> nth i p 0 = nth j p 0 -> i = j.
Proof.
  intros n p i j [L [ND _]] Hi Hj E. rewrite NoDup_nth in ND. apply ND; [lia|lia|exact E].
Qed.

Lemma is_perm_lt : forall n p i, is_perm n p -> i < n -> nth i p 0 < n.
Proof.
  intros n p i [L [_ F]] Hi. rewrite Forall_forall in F. apply F. apply nth_In. lia.
Qed.

Lemma is_permb_sound : forall n p, is_permb n p = true -> is_perm n p.
Proof.
  intros n p H. unfold is_permb in H. apply andb_true_iff in H. destruct H as [L S].
  apply Nat.eqb_eq in L. rewrite forallb_forall in S.
  assert (I : incl (seq 0 n) p).
  { intros x Hx. specialize (S x Hx). unfold memb in S. apply existsb_exists in S.
    destruct S as [y [Hy E]]. apply Nat.eqb_eq in E. subst. exact Hy. }
  assert (ND : NoDup p).
  { apply NoDup_incl_NoDup with (l := seq 0 n) (l' := p) in I; [| apply seq_NoDup | rewrite seq_length; lia ]. exact I. }
  split; [exact L|]. split; [exact ND|].
  apply Forall_forall. intros x Hx.
  assert (I2 : incl p (seq 0 n)).
  { apply NoDup_length_incl; [apply seq_NoDup|rewrite seq_length; lia|exact I]. }
  apply I2 in Hx. apply in_seq in Hx. lia.
Qed.

Lemma nth_map_seq : forall {E} (F : nat -> E) n i d, i < n -> nth i (map F (seq 0 n)) d = F i.
Proof.
  intros E F n i d H. rewrite (nth_indep _ d (F 0)) by (rewrite map_length, seq_length; lia).
  rewrite (map_nth F). rewrite seq_nth by lia. reflexivity.
Qed.

Lemma nth_map_in : forall {X E} (F : X -> E) l i d dx, i < length l -> nth i (map F l) d = F (nth i l dx).
Proof.
  intros X E F l i d dx H. rewrite (nth_indep _ d (F dx)) by (rewrite map_length; lia). apply map_nth.
Qed.

(* ---------------------------------------------------------------- updates *)

Lemma upd_length : forall {E} (l : list E) p v, length (upd l p v) = length l.
Proof. induction l as [|x l IH]; intros [|p] v; simpl; auto. Qed.

Lemma nth_upd_same : forall {E} (l : list E) p v d, p < length l -> nth p (upd l p v) d = v.
Proof. induction l as [|x l IH]; intros [|p] v d H; simpl in *; try lia; [reflexivity|]. apply IH. lia. Qed.

Lemma nth_upd_other : forall {E} (l : list E) p q v d, p <> q -> nth q (upd l p v) d = nth q l d.
Proof.
  induction l as [|x l IH]; intros [|p] [|q] v d H; simpl; try reflexivity; try lia.
  apply IH. lia.
Qed.

Section Slicer.
  Variable T : Type.
  Variables (zero one : T) (add mul sub : T -> T -> T) (opp : T -> T).
  Hypothesis Rth : ring_theory zero one add mul sub opp eq.
  Add Ring Tring2 : Rth.

  Notation mget := (mget zero).
  Notation mm n := (mat_mul zero add mul n).
  Notation I n := (identity zero one n).
  Notation width := (width T).
  Notation sumT := (sum_list zero add).
  Notation tr n := (transpose zero n).

  Definition nn (n : nat) (X : list (list T)) : Prop := length X = n /\ width n X.

  (* ---------------------------------------------------------------- entries *)

  Lemma nth_nil_any : forall i : nat, nth i (@nil T) zero = zero.
  Proof. destruct i; reflexivity. Qed.

  Lemma mget_transpose : forall n M i j, i < n -> mget (tr n M) i j = mget M j i.
  Proof.
    intros n M i j Hi. unfold Dense.mget, Dense.transpose.
    rewrite nth_map_seq by exact Hi.
    destruct (le_lt_dec (length M) j) as [H|H].
    - rewrite nth_overflow by (rewrite map_length; exact H).
      rewrite (nth_overflow M) by exact H. symmetry. apply nth_nil_any.
    - apply (nth_map_in (fun r => nth i r zero) M j zero []). exact H.
  Qed.

  Lemma transpose_shape : forall n M, length (tr n M) = n /\ width (length M) (tr n M).
  Proof.
    intros n M. unfold Dense.transpose. split; [rewrite map_length, seq_length; reflexivity|].
    apply Forall_forall. intros r Hr. apply in_map_iff in Hr. destruct Hr as [j [E _]]. subst. apply map_length.
  Qed.

  Lemma mget_select : forall A p w i j, i < length p -> nth i p 0 < length A ->
    mget (select_rows zero A p w) i j = mget A (nth i p 0) j.
  Proof.
    intros A p w i j Hi Hp. unfold Dense.mget, select_rows.
    rewrite (nth_map_in _ p i [] 0) by exact Hi.
    rewrite (nth_indep A (zeros zero w) []) by exact Hp. reflexivity.
  Qed.

  (* rows scattered through a duplicate-free index list *)
  Lemma scatter_untouched : forall (p : list nat) (A base : list (list T)) q d,
    ~ In q p -> nth q (fold_left (fun out ia => upd out (fst ia) (snd ia)) (combine p A) base) d = nth q base d.
  Proof.
    induction p as [|x p IH]; intros A base q d H; [reflexivity|].
    destruct A as [|a A]; [reflexivity|]. cbn [combine fold_left fst snd].
    rewrite IH by (intros Hin; apply H; right; exact Hin).
    apply nth_upd_other. intros E. apply H. left. exact E.
  Qed.

  Lemma scatter_nth : forall (p : list nat) (A base : list (list T)) i d,
    NoDup p -> Forall (fun x => x < length base) p -> i < length p -> i < length A ->
    nth (nth i p 0) (fold_left (fun out ia => upd out (fst ia) (snd ia)) (combine p A) base) d = nth i A d.
  Proof.
    induction p as [|x p IH]; intros A base i d ND F Hi HA; [simpl in Hi; lia|].
    destruct A as [|a A]; [simpl in HA; lia|]. cbn [combine fold_left fst snd].
    inversion ND as [|? ? Hx ND']; subst. inversion F as [|? ? Fx F']; subst.
    destruct i as [|i].
    - cbn [nth]. rewrite scatter_untouched by exact Hx. apply nth_upd_same. exact Fx.
    - cbn [nth]. apply IH; [exact ND'|rewrite upd_length; exact F'|simpl in Hi; lia|simpl in HA; lia].
  Qed.

  Lemma scatter_length : forall (p : list nat) (A base : list (list T)),
    length (fold_left (fun out ia => upd out (fst ia) (snd ia)) (combine p A) base) = length base.
  Proof.
    induction p as [|x p IH]; intros A base; [reflexivity|]. destruct A as [|a A]; [reflexivity|].
    cbn [combine fold_left fst snd]. rewrite IH. apply upd_length.
  Qed.

  Lemma upd_width : forall w (l : list (list T)) p v, width w l -> length v = w -> width w (upd l p v).
  Proof.
    intros w. induction l as [|x l IH]; intros [|p] v W L; simpl; try exact W.
    - destruct (width_cons T _ _ _ W) as [Hx Wl]. constructor; assumption.
    - destruct (width_cons T _ _ _ W) as [Hx Wl]. constructor; [assumption|apply IH; assumption].
  Qed.

  Lemma scatter_width : forall w (p : list nat) (A base : list (list T)),
    width w base -> width w A ->
    width w (fold_left (fun out ia => upd out (fst ia) (snd ia)) (combine p A) base).
  Proof.
    intros w. induction p as [|x p IH]; intros A base WB WA; [exact WB|]. destruct A as [|a A]; [exact WB|].
    cbn [combine fold_left fst snd]. destruct (width_cons T _ _ _ WA) as [Ha WA']. apply IH; [apply upd_width; assumption|assumption].
  Qed.

  Lemma scatter_rows_shape : forall A p n, width n A -> nn n (scatter_rows zero A p n n).
  Proof.
    intros A p n W. unfold scatter_rows. split.
    - rewrite scatter_length, repeat_length. reflexivity.
    - apply scatter_width; [|exact W]. apply Forall_forall. intros r Hr. apply repeat_spec in Hr. subst.
      apply repeat_length.
  Qed.

  Lemma mget_scatter : forall A p n i j, is_perm n p -> length A = n -> i < n ->
    mget (scatter_rows zero A p n n) (nth i p 0) j = mget A i j.
  Proof.
    intros A p n i j [L [ND F]] LA Hi. unfold Dense.mget, scatter_rows.
    rewrite scatter_nth; [reflexivity|exact ND| |lia|lia].
    rewrite repeat_length. exact F.
  Qed.

  (* entries of the block form: B[i][j] = A[rp_i][cp_j] *)
  Lemma mget_block_form : forall n A rp cp i j, is_perm n rp -> is_perm n cp -> length A = n ->
    i < n -> j < n -> mget (to_block_form zero n A rp cp) i j = mget A (nth i rp 0) (nth j cp 0).
  Proof.
    intros n A rp cp i j HR HC LA Hi Hj. unfold to_block_form.
    pose proof (is_perm_lt n rp i HR Hi) as Hri. pose proof (is_perm_lt n cp j HC Hj) as Hcj.
    destruct HR as [LR _]. destruct HC as [LC _].
    rewrite mget_select; [|lia|rewrite (proj1 (transpose_shape n _)); exact Hri].
    rewrite mget_transpose by exact Hri.
    rewrite mget_select; [|lia|rewrite (proj1 (transpose_shape n A)); exact Hcj].
    apply mget_transpose. exact Hcj.
  Qed.

  (* entries of the mapped-back inverse: invA[cp_k][rp_i] = Bi[k][i] *)
  Lemma mget_from_block_form : forall n Bi rp cp k i, is_perm n rp -> is_perm n cp -> nn n Bi ->
    k < n -> i < n ->
    mget (from_block_form zero n Bi rp cp) (nth k cp 0) (nth i rp 0) = mget Bi k i.
  Proof.
    intros n Bi rp cp k i HR HC [LB WB] Hk Hi. unfold from_block_form.
    rewrite mget_scatter; [|exact HC|apply (proj1 (transpose_shape n _))|exact Hk].
    rewrite mget_transpose by exact Hk.
    rewrite mget_scatter; [|exact HR|apply (proj1 (transpose_shape n Bi))|exact Hi].
    apply mget_transpose. exact Hi.
  Qed.

  Lemma from_block_form_shape : forall n Bi rp cp, nn n Bi -> nn n (from_block_form zero n Bi rp cp).
  Proof.
    intros n Bi rp cp [LB WB]. unfold from_block_form. apply scatter_rows_shape.
    pose proof (transpose_shape n (scatter_rows zero (tr n Bi) rp n n)) as [_ W].
    assert (E : length (scatter_rows zero (tr n Bi) rp n n) = n).
    { apply scatter_rows_shape. pose proof (transpose_shape n Bi) as [_ W2]. rewrite LB in W2. exact W2. }
    rewrite E in W. exact W.
  Qed.

  (* ---------------------------------------------------------------- products, entrywise *)

  Lemma nth_vadd : forall u v j, j < length u -> j < length v ->
    nth j (vadd add u v) zero = add (nth j u zero) (nth j v zero).
  Proof.
    induction u as [|x u IH]; intros [|y v] j H1 H2; simpl in *; try lia.
    destruct j; [reflexivity|]. apply IH; lia.
  Qed.

  Lemma nth_vscale : forall a r j, j < length r -> nth j (vscale mul a r) zero = mul a (nth j r zero).
  Proof.
    intros a r j H. unfold Dense.vscale. apply (nth_map_in (mul a) r j zero zero). exact H.
  Qed.

  Lemma nth_vecmat : forall p M r j, width p M -> length r = length M -> j < p ->
    nth j (vecmat zero add mul p r M) zero
    = sumT (map (fun k => mul (nth k r zero) (mget M k j)) (seq 0 (length M))).
  Proof.
    intros p. induction M as [|row M IH]; intros r j W L Hj.
    - destruct r; [|simpl in L; lia]. cbn. unfold Dense.zeros. apply nth_repeat.
    - destruct r as [|a r]; [simpl in L; lia|].
      destruct (width_cons T _ _ _ W) as [Hr WM].
      cbn [Dense.vecmat length seq map Dense.sum_list fold_right].
      rewrite nth_vadd; [|rewrite vscale_length; lia|rewrite vecmat_length by exact WM; exact Hj].
      rewrite nth_vscale by lia. rewrite IH by (auto; simpl in L; lia).
      f_equal. rewrite <- seq_shift, map_map. reflexivity.
  Qed.

  Lemma mget_mm : forall p A B i j, width p B -> i < length A -> length (nth i A []) = length B -> j < p ->
    mget (mat_mul zero add mul p A B) i j
    = sumT (map (fun k => mul (mget A i k) (mget B k j)) (seq 0 (length B))).
  Proof.
    intros p A B i j W Hi L Hj. unfold Dense.mget at 1. unfold Dense.mat_mul.
    rewrite (nth_map_in _ A i [] []) by exact Hi. apply nth_vecmat; assumption.
  Qed.

  Lemma mget_identity : forall n i j, i < n -> j < n ->
    mget (I n) i j = if Nat.eqb i j then one else zero.
  Proof.
    intros n i j Hi Hj. unfold Dense.mget, Dense.identity.
    rewrite nth_map_seq by exact Hi. unfold Dense.unit_row. rewrite nth_map_seq by exact Hj. reflexivity.
  Qed.

  Lemma sum_perm : forall l l' : list T, Permutation l l' -> sumT l = sumT l'.
  Proof.
    intros l l' P. induction P; cbn [Dense.sum_list fold_right] in *.
    - reflexivity.
    - f_equal. exact IHP.
    - ring.
    - etransitivity; eassumption.
  Qed.

  (* sum over k < n of f(p_k) = sum over j < n of f(j) for a permutation p *)
  Lemma sum_reindex : forall n p (f : nat -> T), is_perm n p ->
    sumT (map (fun k => f (nth k p 0)) (seq 0 n)) = sumT (map f (seq 0 n)).
  Proof.
    intros n p f HP. pose proof (is_perm_Permutation n p HP) as P. destruct HP as [L _].
    rewrite <- (map_map (fun k => nth k p 0) f). rewrite <- L at 1. rewrite map_seq_nth.
    apply sum_perm. apply Permutation_map. exact P.
  Qed.

  Lemma mat_ext : forall n X Y, nn n X -> nn n Y ->
    (forall i j, i < n -> j < n -> mget X i j = mget Y i j) -> X = Y.
  Proof.
    intros n X Y [LX WX] [LY WY] H. apply nth_ext with (d := []) (d' := []); [lia|].
    intros i Hi. rewrite LX in Hi. unfold width, C37_dense.width in WX, WY. rewrite Forall_forall in WX, WY.
    assert (L1 : length (nth i X []) = n) by (apply WX; apply nth_In; lia).
    assert (L2 : length (nth i Y []) = n) by (apply WY; apply nth_In; lia).
    apply nth_ext with (d := zero) (d' := zero); [lia|]. intros j Hj. rewrite L1 in Hj. apply H; assumption.
  Qed.

  (* ---------------------------------------------------------------- the theorem *)

  (* invert_permuted_block_diag_matrix at dense level: for all permutations rp, cp, if Bi is
     a two-sided inverse of the block form A[rp,:][:,cp], the mapped-back matrix is a
     two-sided inverse of A *)
  Theorem permuted_inverse : forall n A Bi rp cp,
    nn n A -> nn n Bi -> is_perm n rp -> is_perm n cp ->
    mm n (to_block_form zero n A rp cp) Bi = I n ->
    mm n Bi (to_block_form zero n A rp cp) = I n ->
    mm n A (from_block_form zero n Bi rp cp) = I n /\
    mm n (from_block_form zero n Bi rp cp) A = I n.
  Proof.
    intros n A Bi rp cp [LA WA] [LB WB] HR HC E1 E2.
    set (B := to_block_form zero n A rp cp) in *.
    set (X := from_block_form zero n Bi rp cp).
    assert (SX : nn n X) by (apply from_block_form_shape; split; assumption).
    destruct SX as [LX WX].
    assert (LBf : length B = n).
    { unfold B, to_block_form, select_rows. rewrite map_length. apply HR. }
    assert (rowA : forall i, i < n -> length (nth i A []) = n).
    { intros i Hi. unfold C37_dense.width in WA. rewrite Forall_forall in WA. apply WA. apply nth_In. lia. }
    assert (rowX : forall i, i < n -> length (nth i X []) = n).
    { intros i Hi. unfold C37_dense.width in WX. rewrite Forall_forall in WX. apply WX. apply nth_In. lia. }
    assert (rowB : forall i, i < n -> length (nth i Bi []) = n).
    { intros i Hi. unfold C37_dense.width in WB. rewrite Forall_forall in WB. apply WB. apply nth_In. lia. }
    assert (rowBf : forall i, i < n -> length (nth i B []) = n).
    { intros i Hi. unfold B, to_block_form, select_rows.
      rewrite (nth_map_in _ rp i [] 0) by (destruct HR as [L _]; lia).
      rewrite (nth_indep _ (zeros zero n) []) by (rewrite (proj1 (transpose_shape n _)); apply (is_perm_lt n rp i HR Hi)).
      pose proof (transpose_shape n (select_rows zero (tr n A) cp n)) as [L1 W1].
      assert (Hl : length (select_rows zero (tr n A) cp n) = n) by (unfold select_rows; rewrite map_length; apply HC).
      rewrite Hl in W1. unfold C37_dense.width in W1. rewrite Forall_forall in W1. apply W1. apply nth_In.
      rewrite L1. apply (is_perm_lt n rp i HR Hi). }
    split.
    - apply (mat_ext n).
      + split; [unfold Dense.mat_mul; rewrite map_length; exact LA|apply width_mat_mul; exact WX].
      + split; [apply identity_length|apply width_identity].
      + intros a b Ha Hb.
        destruct (is_perm_surj n rp a HR Ha) as [i [Hi Ea]]. destruct (is_perm_surj n rp b HR Hb) as [i' [Hi' Eb]].
        rewrite mget_mm by (auto; try lia; rewrite LX; apply rowA; exact Ha). rewrite LX.
        rewrite <- (sum_reindex n cp (fun j => mul (mget A a j) (mget X j b)) HC).
        transitivity (sumT (map (fun k => mul (mget B i k) (mget Bi k i')) (seq 0 n))).
        * f_equal. apply map_ext_in. intros k Hk. apply in_seq in Hk. f_equal.
          -- unfold B. rewrite mget_block_form by (auto; lia). rewrite Ea. reflexivity.
          -- unfold X. rewrite <- Eb. apply mget_from_block_form; auto; try lia. split; assumption.
        * rewrite <- LB at 1. rewrite <- (mget_mm n B Bi i i') by (auto; try lia; rewrite LB; apply rowBf; exact Hi).
          rewrite E1. rewrite !mget_identity by lia. subst a b.
          destruct (Nat.eqb_spec i i') as [E|E].
          -- subst. rewrite Nat.eqb_refl. reflexivity.
          -- destruct (Nat.eqb_spec (nth i rp 0) (nth i' rp 0)) as [E'|E']; [|reflexivity].
             exfalso. apply E. apply (is_perm_inj n rp); assumption.
    - apply (mat_ext n).
      + split; [unfold Dense.mat_mul; rewrite map_length; exact LX|apply width_mat_mul; exact WA].
      + split; [apply identity_length|apply width_identity].
      + intros a b Ha Hb.
        destruct (is_perm_surj n cp a HC Ha) as [k [Hk Ea]]. destruct (is_perm_surj n cp b HC Hb) as [k' [Hk' Eb]].
        rewrite mget_mm by (auto; try lia; rewrite LA; apply rowX; exact Ha). rewrite LA.
        rewrite <- (sum_reindex n rp (fun j => mul (mget X a j) (mget A j b)) HR).
        transitivity (sumT (map (fun i => mul (mget Bi k i) (mget B i k')) (seq 0 n))).
        * f_equal. apply map_ext_in. intros i Hi. apply in_seq in Hi. f_equal.
          -- unfold X. rewrite <- Ea. apply mget_from_block_form; auto; try lia. split; assumption.
          -- unfold B. rewrite mget_block_form by (auto; lia). rewrite Eb. reflexivity.
        * rewrite <- LBf at 1. rewrite <- (mget_mm n Bi B k k'); [|  | lia | rewrite LBf; apply rowB; exact Hk | lia].
          2:{ apply Forall_forall. intros r Hr. destruct (In_nth B r [] Hr) as [q [Hq Eq]]. subst r.
              apply rowBf. lia. }
          rewrite E2. rewrite !mget_identity by lia. subst a b.
          destruct (Nat.eqb_spec k k') as [E|E].
          -- subst. rewrite Nat.eqb_refl. reflexivity.
          -- destruct (Nat.eqb_spec (nth k cp 0) (nth k' cp 0)) as [E'|E']; [|reflexivity].
             exfalso. apply E. apply (is_perm_inj n cp); assumption.
  Qed.
End Slicer.
