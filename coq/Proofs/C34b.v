(* C34 (second part) — proofs for ismember_columns and intersect_sets. *)
From Coq Require Import List ZArith Bool Arith Lia Permutation Sorted.
Import ListNotations.
From PP Require Model.C34 Proofs.C34.
From PP Require Import Model.C46 Proofs.C46 Model.C34b.

(* ---------- generic list facts ---------- *)
Lemma nth_map_d {A B} (f : A -> B) (l : list A) i (da : A) (db : B) :
  i < length l -> nth i (map f l) db = f (nth i l da).
Proof.
  intros H. rewrite (nth_indep _ db (f da)) by (rewrite map_length; exact H). apply map_nth.
Qed.

Lemma Forall2_map_r {A B} (R : A -> B -> Prop) (G : A -> B) : forall l,
    (forall x, In x l -> R x (G x)) -> Forall2 R l (map G l).
Proof.
  induction l as [|x r IH]; intros H; cbn [map]; constructor.
  - apply H. now left.
  - apply IH. intros y Hy. apply H. now right.
Qed.

Lemma filter_ext_in' {A} (f g : A -> bool) : forall l,
    (forall x, In x l -> f x = g x) -> filter f l = filter g l.
Proof.
  induction l as [|x r IH]; intros H; [reflexivity|]. cbn [filter].
  rewrite (H x) by now left. rewrite IH; [reflexivity|]. intros y Hy. apply H. now right.
Qed.

Lemma bool_eq_of_iff (b1 b2 : bool) : (b1 = true <-> b2 = true) -> b1 = b2.
Proof. destruct b1, b2; intros [H1 H2]; try reflexivity; [symmetry; now apply H1|now apply H2]. Qed.

Lemma existsb_eqb_In i l : existsb (Nat.eqb i) l = true <-> In i l.
Proof.
  rewrite existsb_exists. split.
  - intros [x [Hx E]]. apply Nat.eqb_eq in E. subst. exact Hx.
  - intros H. exists i. split; [exact H|apply Nat.eqb_refl].
Qed.

(* ---------- ismember_columns ---------- *)
Lemma idx_inj (u : list coord) x y :
  In x u -> In y u -> index_of x u = index_of y u -> x = y.
Proof.
  intros Hx Hy E. rewrite <- (nth_index_of x u [] Hx), <- (nth_index_of y u [] Hy), E.
  reflexivity.
Qed.

Lemma existsb_idx (u : list coord) x : In x u -> forall l, (forall y, In y l -> In y u) ->
    existsb (Nat.eqb (index_of x u)) (map (fun y => index_of y u) l) = existsb (ceqb x) l.
Proof.
  intros Hx. induction l as [|y r IH]; intros Hsub; [reflexivity|]. cbn [map existsb].
  rewrite IH by (intros z Hz; apply Hsub; now right). f_equal.
  destruct (ceqb x y) eqn:E.
  - apply ceqb_spec in E. subst. apply Nat.eqb_refl.
  - apply Nat.eqb_neq. intros E2. apply ceqb_false in E. apply E.
    apply (idx_inj u); [exact Hx|apply Hsub; now left|exact E2].
Qed.

Lemma ssl_spec v : forall l, StronglySorted le l -> In v l ->
    ssl l v < length l /\ nth (ssl l v) l 0 = v.
Proof.
  induction l as [|x r IH]; intros Hs Hin; [contradiction|].
  inversion Hs as [|? ? Hr Hx]; subst. cbn [ssl].
  destruct (Nat.ltb_spec x v) as [Hlt|Hge].
  - destruct Hin as [->|Hin]; [lia|]. destruct (IH Hr Hin) as [H1 H2].
    cbn [length nth]. split; [lia|exact H2].
  - cbn [length nth]. split; [lia|]. destruct Hin as [->|Hin]; [reflexivity|].
    rewrite Forall_forall in Hx. specialize (Hx v Hin). lia.
Qed.

Definition sort_contract (ind_b sort_ind : list nat) : Prop :=
  Permutation sort_ind (seq 0 (length ind_b)) /\
  StronglySorted le (map (fun j => nth j ind_b 0) sort_ind).

Theorem ismember_correct srt (a b : list coord) sort_ind :
  let A := map (normc srt) a in
  let B := map (normc srt) b in
  sort_contract (ind_b_of srt a b) sort_ind ->
  fst (ismember_with srt a b sort_ind) = map (fun x => existsb (ceqb x) B) A /\
  Forall2 (fun x k => k < length b /\ nth k B [] = x)
          (filter (fun x => existsb (ceqb x) B) A) (snd (ismember_with srt a b sort_ind)).
Proof.
  intros A B [Hperm Hsorted]. unfold ismember_with, ind_b_of in *. fold A B in Hperm, Hsorted |- *.
  set (u := uniq (A ++ B)) in *.
  set (idx := fun x : coord => index_of x u) in *.
  assert (HA : forall x, In x A -> In x u)
    by (intros x Hx; apply uniq_In, in_or_app; now left).
  assert (HB : forall x, In x B -> In x u)
    by (intros x Hx; apply uniq_In, in_or_app; now right).
  assert (Hmem : forall x, In x A ->
                 existsb (Nat.eqb (idx x)) (map idx B) = existsb (ceqb x) B).
  { intros x Hx. apply existsb_idx; [apply HA, Hx|exact HB]. }
  cbn [fst snd]. split.
  - rewrite map_map. apply map_ext_in. exact Hmem.
  - rewrite (map_map idx (fun k => existsb (Nat.eqb k) (map idx B)) A).
    rewrite (mask_map_map idx (fun x => existsb (Nat.eqb (idx x)) (map idx B)) A).
    rewrite (filter_ext_in' _ (fun x => existsb (ceqb x) B) A Hmem).
    rewrite !map_map. apply Forall2_map_r. intros x Hx.
    apply filter_In in Hx. destruct Hx as [HxA HxB].
    apply existsb_exists in HxB. destruct HxB as [y [HyB E]]. apply ceqb_spec in E. subst y.
    set (key := fun j => nth j (map idx B) 0) in *.
    set (sorted := map key sort_ind) in *.
    assert (Hlen : length (map idx B) = length b) by (unfold B; rewrite !map_length; reflexivity).
    assert (Hkey : forall j, j < length b -> key j = idx (nth j B [])).
    { intros j Hj. unfold key. apply nth_map_d. unfold B. rewrite map_length. exact Hj. }
    assert (Hin : In (idx x) sorted).
    { destruct (In_nth B x [] HyB) as [j [Hj Ej]].
      assert (Hjb : j < length b) by (unfold B in Hj; rewrite map_length in Hj; exact Hj).
      unfold sorted. apply in_map_iff. exists j. split; [rewrite (Hkey j Hjb), Ej; reflexivity|].
      apply (Permutation_in _ (Permutation_sym Hperm)). apply in_seq. rewrite Hlen. lia. }
    destruct (ssl_spec (idx x) sorted Hsorted Hin) as [Hp Hv].
    unfold sorted in Hp. rewrite map_length in Hp.
    set (k := nth (ssl sorted (idx x)) sort_ind 0) in *.
    assert (Hk : k < length b).
    { assert (In k sort_ind) by (apply nth_In, Hp).
      apply (Permutation_in _ Hperm) in H. apply in_seq in H. rewrite Hlen in H. lia. }
    split; [exact Hk|].
    assert (Hv' : key k = idx x).
    { rewrite <- Hv. unfold k, sorted. symmetry. apply (nth_map_d key sort_ind _ 0 0 Hp). }
    clear Hv. rename Hv' into Hv. rewrite (Hkey k Hk) in Hv.
    apply (idx_inj u); [|apply HB, HyB|exact Hv].
    apply HB, nth_In. unfold B. rewrite map_length. exact Hk.
Qed.

(* the stable argsort of the model satisfies the contract *)
Lemma sorted_map_le (f : nat -> nat) : forall l,
    StronglySorted (fun a b => (Z.of_nat (f a) <= Z.of_nat (f b))%Z) l ->
    StronglySorted le (map f l).
Proof.
  induction l as [|a r IH]; intros Hs; cbn [map]; [constructor|].
  inversion Hs as [|? ? Hr Ha]; subst. constructor; [apply IH, Hr|].
  rewrite Forall_forall in *. intros y Hy. apply in_map_iff in Hy. destruct Hy as [x [<- Hx]].
  specialize (Ha x Hx). cbn in Ha. lia.
Qed.

Theorem stable_sort_contract srt a b :
  sort_contract (ind_b_of srt a b) (stable_sort_ind srt a b).
Proof.
  unfold sort_contract, stable_sort_ind. split.
  - apply Proofs.C34.argsort_perm.
  - apply sorted_map_le. apply Proofs.C34.argsort_sorted.
Qed.

(* ---------- np.unique of an index vector ---------- *)
Lemma uins_In x z : forall l, In z (uins x l) <-> z = x \/ In z l.
Proof.
  induction l as [|y r IH]; cbn [uins In]; [intuition|].
  destruct (Nat.ltb_spec x y); [cbn [In]; intuition|].
  destruct (Nat.eqb_spec x y) as [->|Hn]; cbn [In]; [intuition|]. rewrite IH. intuition.
Qed.

Lemma usort_In z : forall l, In z (usort l) <-> In z l.
Proof.
  induction l as [|x r IH]; cbn [usort In]; [tauto|]. rewrite uins_In, IH. intuition.
Qed.

Lemma uins_sorted x : forall l, StronglySorted lt l -> StronglySorted lt (uins x l).
Proof.
  induction l as [|y r IH]; intros Hs; cbn [uins]; [repeat constructor|].
  inversion Hs as [|? ? Hr Hy]; subst.
  destruct (Nat.ltb_spec x y) as [Hlt|Hge].
  - constructor; [exact Hs|]. constructor; [exact Hlt|].
    rewrite Forall_forall in *. intros z Hz. specialize (Hy z Hz). lia.
  - destruct (Nat.eqb_spec x y) as [->|Hn]; [exact Hs|].
    constructor; [apply IH, Hr|]. rewrite Forall_forall in *. intros z Hz.
    apply uins_In in Hz. destruct Hz as [->|Hz]; [lia|apply Hy, Hz].
Qed.

Lemma usort_sorted : forall l, StronglySorted lt (usort l).
Proof. induction l as [|x r IH]; cbn [usort]; [constructor|]. apply uins_sorted, IH. Qed.

(* ---------- intersect_sets ---------- *)
Lemma find_within_In tol2 p : forall b j,
    In j (find_within tol2 p b) <-> j < length b /\ within tol2 p (nth j b []) = true.
Proof.
  induction b as [|q r IH]; intros j; cbn [find_within length].
  - split; [contradiction|]. intros [H _]. lia.
  - rewrite in_app_iff, in_map_iff. destruct j as [|j]; cbn [nth].
    + split.
      * intros [H|[x [E _]]]; [|discriminate]. destruct (within tol2 p q); [split; [lia|reflexivity]|contradiction].
      * intros [_ H]. left. rewrite H. now left.
    + split.
      * intros [H|[x [E Hx]]].
        -- destruct (within tol2 p q); [destruct H as [H|[]]; discriminate|contradiction].
        -- injection E as ->. apply IH in Hx. split; [lia|apply Hx].
      * intros [Hj Hw]. right. exists j. split; [reflexivity|]. apply IH. split; [lia|exact Hw].
Qed.

Lemma find_within_NoDup tol2 p : forall b, NoDup (find_within tol2 p b).
Proof.
  induction b as [|q r IH]; cbn [find_within]; [constructor|].
  assert (Hm : NoDup (map S (find_within tol2 p r))).
  { apply FinFun.Injective_map_NoDup; [intros x y E; lia|exact IH]. }
  destruct (within tol2 p q); cbn [app]; [|exact Hm]. constructor; [|exact Hm].
  intros H. apply in_map_iff in H. destruct H as [x [E _]]. discriminate.
Qed.

(* contract of the ball query: one duplicate-free list per column of a, containing
   exactly the columns of b within the tolerance *)
Definition query_contract (tol2 : Z) (query : list coord -> list coord -> list (list nat))
           (a b : list coord) : Prop :=
  length (query a b) = length a /\
  forall i, i < length a ->
    NoDup (nth i (query a b) []) /\
    forall j, In j (nth i (query a b) []) <->
              j < length b /\ within tol2 (nth i a []) (nth j b []) = true.

Theorem bf_query_contract tol2 a b : query_contract tol2 (bf_query tol2) a b.
Proof.
  unfold query_contract, bf_query. split; [apply map_length|]. intros i Hi.
  rewrite (nth_map_d (fun p => find_within tol2 p b) a i [] [] Hi).
  split; [apply find_within_NoDup|apply find_within_In].
Qed.

Lemma existsb_within_b tol2 p b :
  existsb (within tol2 p) b = true <->
  exists j, j < length b /\ within tol2 p (nth j b []) = true.
Proof.
  rewrite existsb_exists. split.
  - intros [q [Hq Hw]]. destruct (In_nth b q [] Hq) as [j [Hj E]]. exists j. rewrite E. tauto.
  - intros [j [Hj Hw]]. exists (nth j b []). split; [apply nth_In, Hj|exact Hw].
Qed.

Theorem intersect_correct tol2 query (a b : list coord) :
  query_contract tol2 query a b ->
  match intersect query a b with
  | (ia, ib, a_in_b, inter) =>
      inter = query a b /\
      a_in_b = map (fun p => existsb (within tol2 p) b) a /\
      StronglySorted lt ia /\
      (forall i, In i ia <->
                 i < length a /\ existsb (within tol2 (nth i a [])) b = true) /\
      StronglySorted lt ib /\
      (forall j, In j ib <->
                 j < length b /\ existsb (fun p => within tol2 p (nth j b [])) a = true)
  end.
Proof.
  intros [Hlen Hq]. unfold intersect. set (inter := query a b) in *.
  set (ia0 := flat_map (fun i => match nth i inter [] with [] => [] | _ :: _ => [i] end)
                       (seq 0 (length inter))).
  assert (Hia : forall i, In i ia0 <->
                          i < length a /\ existsb (within tol2 (nth i a [])) b = true).
  { intros i. unfold ia0. rewrite in_flat_map. split.
    - intros [x [Hx Hi]]. apply in_seq in Hx. rewrite Hlen in Hx.
      destruct (nth x inter []) as [|j l] eqn:E; [contradiction|].
      destruct Hi as [<-|[]]. split; [lia|]. apply existsb_within_b.
      exists j. apply (proj2 (Hq x ltac:(lia))). rewrite E. now left.
    - intros [Hi Hw]. apply existsb_within_b in Hw. destruct Hw as [j Hj].
      exists i. split; [apply in_seq; rewrite Hlen; lia|].
      apply (proj2 (Hq i Hi)) in Hj. destruct (nth i inter []); [contradiction|now left]. }
  split; [reflexivity|]. split.
  { apply (map_seq_nth (fun p => existsb (within tol2 p) b) a). intros i Hi.
    apply bool_eq_of_iff. rewrite existsb_eqb_In, Hia. tauto. }
  split; [apply usort_sorted|]. split.
  { intros i. rewrite usort_In. apply Hia. }
  split; [apply usort_sorted|].
  intros j. rewrite usort_In, in_concat. split.
  - intros [l [Hl Hj]]. destruct (In_nth inter l [] Hl) as [i [Hi E]]. rewrite Hlen in Hi.
    subst l. apply (proj2 (Hq i Hi)) in Hj. split; [apply Hj|].
    apply existsb_exists. exists (nth i a []). split; [apply nth_In, Hi|apply Hj].
  - intros [Hj Hw]. apply existsb_exists in Hw. destruct Hw as [p [Hp Hw]].
    destruct (In_nth a p [] Hp) as [i [Hi E]]. subst p.
    exists (nth i inter []). split; [apply nth_In; rewrite Hlen; exact Hi|].
    apply (proj2 (Hq i Hi)). split; assumption.
Qed.

(* well-separated guard: columns of b more than 2*tol apart => at most one match each *)
Lemma dist2_parallelogram (p : coord) : forall q q',
    length p = length q -> length p = length q' ->
    (Model.C34.dist2 q q' <= 2 * Model.C34.dist2 p q + 2 * Model.C34.dist2 p q')%Z.
Proof.
  induction p as [|x r IH]; intros [|y s] [|y' s'] H1 H2; cbn [length] in *; try discriminate;
    cbn [Model.C34.dist2]; try lia.
  specialize (IH s s' ltac:(lia) ltac:(lia)).
  assert (((y - y') * (y - y') <= 2 * ((x - y) * (x - y)) + 2 * ((x - y') * (x - y')))%Z).
  { pose proof (Z.square_nonneg ((x - y) + (x - y'))).
    replace ((y - y') * (y - y'))%Z
      with (2 * ((x - y) * (x - y)) + 2 * ((x - y') * (x - y'))
            - ((x - y) + (x - y')) * ((x - y) + (x - y')))%Z by ring. lia. }
  lia.
Qed.

Theorem intersect_single_match tol2 query (a b : list coord) d :
  query_contract tol2 query a b ->
  Forall (fun c => length c = d) a -> Forall (fun c => length c = d) b ->
  (forall j j', j < length b -> j' < length b -> j <> j' ->
                (tol2 * tol2 < Model.C34.dist2 (nth j b []) (nth j' b []))%Z) ->
  forall i, i < length a -> length (nth i (query a b) []) <= 1.
Proof.
  intros [Hlen Hq] Ha Hb Hsep i Hi. destruct (Hq i Hi) as [Hnd Hin].
  destruct (nth i (query a b) []) as [|j [|j' l]] eqn:E; cbn [length]; try lia.
  exfalso.
  assert (Hj : In j (j :: j' :: l)) by now left.
  assert (Hj' : In j' (j :: j' :: l)) by (right; now left).
  apply Hin in Hj. apply Hin in Hj'. destruct Hj as [Hjb Hw], Hj' as [Hjb' Hw'].
  assert (Hne : j <> j').
  { inversion Hnd as [|? ? Hx _]; subst. intros ->. apply Hx. now left. }
  specialize (Hsep j j' Hjb Hjb' Hne). unfold within in Hw, Hw'.
  apply Z.leb_le in Hw, Hw'.
  rewrite Forall_forall in Ha, Hb.
  pose proof (dist2_parallelogram (nth i a []) (nth j b []) (nth j' b [])) as Hp.
  rewrite (Ha _ (nth_In a [] Hi)), (Hb _ (nth_In b [] Hjb)), (Hb _ (nth_In b [] Hjb')) in Hp.
  specialize (Hp eq_refl eq_refl). lia.
Qed.
