(* C29 — proofs, part 3: completeness of the two coarse filters (bounding boxes, side
   test), candidate pairs, ends of a collinear overlap. *)
From Coq Require Import List QArith Qabs Bool Arith ZArith Lia Lqa Permutation Sorted.
Import ListNotations.
From PP Require Import Model.C28 Proofs.C28 Model.C29 Proofs.C29 Proofs.C29_main.
Open Scope Q_scope.

(* ------------------------------------------------------------------ bounding boxes *)
Lemma on_seg_x_bounds : forall p s e, on_seg p s e ->
  qmin (fst s) (fst e) <= fst p /\ fst p <= qmax (fst s) (fst e).
Proof.
  intros p s e [t [T0 [T1 [Hx _]]]].
  destruct (qmin_cases (fst s) (fst e)) as [[L ->]|[L ->]];
    destruct (qmax_cases (fst s) (fst e)) as [[L' ->]|[L' ->]]; rewrite Hx; split; nra.
Qed.

Lemma on_seg_y_bounds : forall p s e, on_seg p s e ->
  qmin (snd s) (snd e) <= snd p /\ snd p <= qmax (snd s) (snd e).
Proof.
  intros p s e [t [T0 [T1 [_ Hy]]]].
  destruct (qmin_cases (snd s) (snd e)) as [[L ->]|[L ->]];
    destruct (qmax_cases (snd s) (snd e)) as [[L' ->]|[L' ->]]; rewrite Hy; split; nra.
Qed.

Lemma widen_bounds : forall tol lo hi, 0 < tol ->
  fst (widen tol lo hi) <= lo /\ hi <= snd (widen tol lo hi).
Proof.
  intros tol lo hi T. unfold widen. destruct (qltb (hi - lo) tol); cbn [fst snd]; split; lra.
Qed.

Lemma common_overlap : forall tol g g' p, 0 < tol ->
  common p (sS g) (sE g) (sS g') (sE g') -> overlap (bbox tol g) (bbox tol g') = true.
Proof.
  intros tol g g' p T [O1 O2].
  destruct (on_seg_x_bounds _ _ _ O1) as [X1 X1']. destruct (on_seg_y_bounds _ _ _ O1) as [Y1 Y1'].
  destruct (on_seg_x_bounds _ _ _ O2) as [X2 X2']. destruct (on_seg_y_bounds _ _ _ O2) as [Y2 Y2'].
  unfold overlap, bbox. cbn [fst snd].
  destruct (widen_bounds tol (qmin (fst (sS g)) (fst (sE g))) (qmax (fst (sS g)) (fst (sE g))) T) as [A1 A2].
  destruct (widen_bounds tol (qmin (snd (sS g)) (snd (sE g))) (qmax (snd (sS g)) (snd (sE g))) T) as [B1 B2].
  destruct (widen_bounds tol (qmin (fst (sS g')) (fst (sE g'))) (qmax (fst (sS g')) (fst (sE g'))) T) as [C1 C2].
  destruct (widen_bounds tol (qmin (snd (sS g')) (snd (sE g'))) (qmax (snd (sS g')) (snd (sE g'))) T) as [D1 D2].
  repeat (apply andb_true_iff; split); apply Qle_bool_iff; lra.
Qed.

(* ------------------------------------------------------------------ candidate pairs *)
Definition gs_of (tol : Q) (isegs : list (nat * seg)) (ig : nat * seg) : bool :=
  qltb (tol * tol) (sumsq (map (fun jg => sub2 (sS (snd jg)) (sS (snd ig))) (others tol isegs ig))).
Definition ge_of (tol : Q) (isegs : list (nat * seg)) (ig : nat * seg) : bool :=
  qltb (tol * tol) (sumsq (map (fun jg => sub2 (sE (snd jg)) (sS (snd ig))) (others tol isegs ig))).

Lemma cand_iff : forall tol segs ig jg,
  In (ig, jg) (cand_pairs tol segs) <->
  In ig (indexed segs) /\ In jg (indexed segs) /\ (fst ig < fst jg)%nat /\
  overlap (bbox tol (snd ig)) (bbox tol (snd jg)) = true /\
  relevant tol (snd ig) (gs_of tol (indexed segs) ig) (ge_of tol (indexed segs) ig) (snd jg) = true.
Proof.
  intros tol segs ig jg. unfold cand_pairs. rewrite in_flat_map. split.
  - intros [ig' [Hi H]]. unfold cands_of in H. apply in_map_iff in H.
    destruct H as [jg' [E H]]. inversion E; subst ig' jg'. apply filter_In in H.
    destruct H as [H R]. unfold others in H. apply filter_In in H. destruct H as [Hj H].
    apply andb_true_iff in H. destruct H as [L O]. apply Nat.ltb_lt in L.
    repeat split; assumption.
  - intros [Hi [Hj [L [O R]]]]. exists ig. split; [exact Hi|]. unfold cands_of.
    apply in_map_iff. exists jg. split; [reflexivity|]. apply filter_In. split; [|exact R].
    unfold others. apply filter_In. split; [exact Hj|]. apply andb_true_iff.
    split; [apply Nat.ltb_lt; exact L|exact O].
Qed.

Lemma in_others : forall tol isegs ig jg, In jg isegs -> (fst ig < fst jg)%nat ->
  overlap (bbox tol (snd ig)) (bbox tol (snd jg)) = true -> In jg (others tol isegs ig).
Proof.
  intros tol isegs ig jg Hj L O. unfold others. apply filter_In. split; [exact Hj|].
  apply andb_true_iff. split; [apply Nat.ltb_lt; exact L|exact O].
Qed.

(* ------------------------------------------------------------------ the side test *)
Lemma nfac_pos : forall tol v, 0 < tol -> 0 < nfac tol v.
Proof.
  intros tol v T. unfold nfac. destruct (qltb (nrm2 v) (tol * tol)) eqn:E; [lra|].
  apply qltb_false in E. assert (0 < tol * tol) by (apply Qmult_lt_0_compat; assumption). lra.
Qed.

Lemma msign_zero : forall tol u v, 0 < tol -> cross2 u v == 0 -> msign tol u v = Eq.
Proof.
  intros tol u v T Z. unfold msign.
  assert (H : qltb (cross2 u v * cross2 u v) (tol * tol * (nfac tol u * nfac tol v)) = true).
  { apply qltb_true. pose proof (nfac_pos tol u T). pose proof (nfac_pos tol v T).
    assert (cross2 u v * cross2 u v == 0) by (rewrite Z; ring).
    assert (0 < tol * tol) by (apply Qmult_lt_0_compat; assumption).
    assert (0 < nfac tol u * nfac tol v) by (apply Qmult_lt_0_compat; assumption).
    assert (0 < tol * tol * (nfac tol u * nfac tol v)) by (apply Qmult_lt_0_compat; assumption).
    lra. }
  rewrite H. reflexivity.
Qed.

Lemma msign_lt : forall tol u v, msign tol u v = Lt -> cross2 u v < 0.
Proof.
  intros tol u v H. unfold msign in H. destruct (qltb _ _); [discriminate|].
  apply Qlt_alt. exact H.
Qed.

Lemma msign_gt : forall tol u v, msign tol u v = Gt -> 0 < cross2 u v.
Proof.
  intros tol u v H. unfold msign in H. destruct (qltb _ _); [discriminate|].
  apply Qgt_alt in H. exact H.
Qed.

Definition mvec (gi : seg) : pt2 := sub2 (sE gi) (sS gi).
(* signed areas of the other's end points with respect to the main's line *)
Definition c1_of (gi gj : seg) : Q := cross2 (mvec gi) (sub2 (sS gj) (sS gi)).
Definition c2_of (gi gj : seg) : Q := cross2 (mvec gi) (sub2 (sE gj) (sS gi)).

Lemma cross_lin : forall gi gj a b, a + b == 1 ->
  cross2 (mvec gi) (sub2 (lin2 a (sS gj) b (sE gj)) (sS gi)) == a * c1_of gi gj + b * c2_of gi gj.
Proof.
  intros gi gj a b H. unfold c1_of, c2_of, cross2, mvec, sub2, lin2. cbn [fst snd].
  setoid_replace (a * fst (sS gj) + b * fst (sE gj) - fst (sS gi))
    with (a * (fst (sS gj) - fst (sS gi)) + b * (fst (sE gj) - fst (sS gi)))
    by (assert (E : fst (sS gi) == (a + b) * fst (sS gi)) by (rewrite H; ring); rewrite E at 1; ring).
  setoid_replace (a * snd (sS gj) + b * snd (sE gj) - snd (sS gi))
    with (a * (snd (sS gj) - snd (sS gi)) + b * (snd (sE gj) - snd (sS gi)))
    by (assert (E : snd (sS gi) == (a + b) * snd (sS gi)) by (rewrite H; ring); rewrite E at 1; ring).
  ring.
Qed.

(* the two cross products the side filter looks at, as combinations of c1, c2 *)
Lemma ws_cross : forall gi gj (gs : bool),
  cross2 (mvec gi) (if gs then sub2 (sS gj) (sS gi)
                    else sub2 (lin2 (1 # 2) (sS gj) (1 # 2) (sE gj)) (sS gi))
  == if gs then c1_of gi gj else (1 # 2) * c1_of gi gj + (1 # 2) * c2_of gi gj.
Proof.
  intros gi gj [|]; [reflexivity|]. apply cross_lin. reflexivity.
Qed.

Lemma we_cross : forall gi gj (ge : bool),
  cross2 (mvec gi) (if ge then sub2 (sE gj) (sS gi)
                    else sub2 (lin2 (3 # 10) (sS gj) (7 # 10) (sE gj)) (sS gi))
  == if ge then c2_of gi gj else (3 # 10) * c1_of gi gj + (7 # 10) * c2_of gi gj.
Proof.
  intros gi gj [|]; [reflexivity|]. apply cross_lin. reflexivity.
Qed.

(* collinear others are never filtered out *)
Lemma collinear_relevant : forall tol gi gs ge gj, 0 < tol ->
  c1_of gi gj == 0 -> c2_of gi gj == 0 -> relevant tol gi gs ge gj = true.
Proof.
  intros tol gi gs ge gj T Z1 Z2. unfold relevant. fold (mvec gi).
  rewrite (msign_zero tol (mvec gi)); [reflexivity|exact T|].
  rewrite ws_cross. destruct gs; [exact Z1|rewrite Z1, Z2; ring].
Qed.

(* a rejected other: both cross products the filter looked at have the same strict sign *)
Lemma relevant_false : forall tol gi gs ge gj, relevant tol gi gs ge gj = false ->
  let a := if gs then c1_of gi gj else (1 # 2) * c1_of gi gj + (1 # 2) * c2_of gi gj in
  let b := if ge then c2_of gi gj else (3 # 10) * c1_of gi gj + (7 # 10) * c2_of gi gj in
  (a < 0 /\ b < 0) \/ (0 < a /\ 0 < b).
Proof.
  intros tol gi gs ge gj H a b. unfold relevant in H. fold (mvec gi) in H.
  apply negb_false_iff in H.
  pose proof (ws_cross gi gj gs) as Ea. pose proof (we_cross gi gj ge) as Eb.
  fold a in Ea. fold b in Eb.
  destruct (msign tol (mvec gi) _) eqn:M1 in H; destruct (msign tol (mvec gi) _) eqn:M2 in H;
    cbn in H; try discriminate.
  - left. apply msign_lt in M1, M2. rewrite Ea in M1. rewrite Eb in M2. tauto.
  - right. apply msign_gt in M1, M2. rewrite Ea in M1. rewrite Eb in M2. tauto.
Qed.

(* the signed area of a point of the other segment; zero on the main's line *)
Lemma cross_on_other : forall gi gj p u, at_par (sS gj) (sE gj) p u ->
  cross2 (mvec gi) (sub2 p (sS gi)) == (1 - u) * c1_of gi gj + u * c2_of gi gj.
Proof.
  intros gi gj p u [Hx Hy]. unfold c1_of, c2_of, cross2, mvec, sub2. cbn [fst snd].
  rewrite Hx, Hy. ring.
Qed.

Lemma cross_on_main : forall gi p t, at_par (sS gi) (sE gi) p t ->
  cross2 (mvec gi) (sub2 p (sS gi)) == 0.
Proof.
  intros gi p t [Hx Hy]. unfold cross2, mvec, sub2. cbn [fst snd]. rewrite Hx, Hy. ring.
Qed.

Lemma peq_c1_zero : forall gi gj, peq (sS gj) (sS gi) -> c1_of gi gj == 0.
Proof.
  intros gi gj [H1 H2]. unfold c1_of, cross2, mvec, sub2. cbn [fst snd]. rewrite H1, H2. ring.
Qed.

Lemma peq_c2_zero : forall gi gj, peq (sE gj) (sS gi) -> c2_of gi gj == 0.
Proof.
  intros gi gj [H1 H2]. unfold c2_of, cross2, mvec, sub2. cbn [fst snd]. rewrite H1, H2. ring.
Qed.

Lemma at_par_0 : forall s e p, at_par s e p 0 -> peq p s.
Proof. intros s e p [Hx Hy]. split; [rewrite Hx|rewrite Hy]; ring. Qed.

Lemma at_par_1 : forall s e p, at_par s e p 1 -> peq p e.
Proof. intros s e p [Hx Hy]. split; [rewrite Hx|rewrite Hy]; ring. Qed.

Lemma at_par_eq : forall s e p t t', t == t' -> at_par s e p t -> at_par s e p t'.
Proof. intros s e p t t' E [Hx Hy]. split; [rewrite Hx|rewrite Hy]; rewrite E; reflexivity. Qed.

(* completeness of the side filter: a rejected pair has no common point, except a common
   end point in the two branches taken when all others start (end) at the main's start *)
Lemma side_filter_complete : forall tol gi gj (gs ge : bool) p,
  (gs = false -> peq (sS gj) (sS gi)) -> (ge = false -> peq (sE gj) (sS gi)) ->
  ~ peq (sS gj) (sE gj) ->
  relevant tol gi gs ge gj = false ->
  common p (sS gi) (sE gi) (sS gj) (sE gj) ->
  peq p (sS gi) /\ (peq p (sS gj) \/ peq p (sE gj)).
Proof.
  intros tol gi gj gs ge p Hs He Nj R [[t [_ [_ [Ptx Pty]]]] [u [U0 [U1 [Pux Puy]]]]].
  pose proof (cross_on_other gi gj p u (conj Pux Puy)) as E1.
  rewrite (cross_on_main gi p t (conj Ptx Pty)) in E1.
  pose proof (relevant_false tol gi gs ge gj R) as S. cbv zeta in S.
  destruct gs; destruct ge.
  - exfalso. destruct S as [[A B]|[A B]]; nra.
  - pose proof (peq_c2_zero gi gj (He eq_refl)) as Z2.
    assert (Eu : u == 1) by (destruct S as [[A B]|[A B]]; nra).
    pose proof (at_par_1 _ _ _ (at_par_eq _ _ _ _ _ Eu (conj Pux Puy))) as Pe.
    split; [eapply peq_trans; [exact Pe|apply He; reflexivity]|right; exact Pe].
  - pose proof (peq_c1_zero gi gj (Hs eq_refl)) as Z1.
    assert (Eu : u == 0) by (destruct S as [[A B]|[A B]]; nra).
    pose proof (at_par_0 _ _ _ (at_par_eq _ _ _ _ _ Eu (conj Pux Puy))) as Ps.
    split; [eapply peq_trans; [exact Ps|apply Hs; reflexivity]|left; exact Ps].
  - exfalso. apply Nj. eapply peq_trans; [apply Hs; reflexivity|apply peq_sym; apply He; reflexivity].
Qed.
