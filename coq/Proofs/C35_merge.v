(* C35 — merge_matrices: line replacement semantics. *)
From Coq Require Import List ZArith Bool Arith Lia Permutation.
Import ListNotations.
From PP Require Import Lib.Csr Model.C35 Proofs.C35 Proofs.C35_csr Proofs.C35_zero.

(* ================================================================ storage = its lines *)

Lemma skipn_add : forall {E} (l : list E) a b, skipn a (skipn b l) = skipn (b + a) l.
Proof.
  intros E l a b. revert l. induction b as [|b IH]; intros l; [reflexivity|].
  destruct l as [|x l]; [destruct a; reflexivity|]. simpl. apply IH.
Qed.

Lemma recon_entries : forall {E} ip (l : list E), monotone ip = true -> ip <> [] ->
  last ip 0 = length l -> skipn (hd 0 ip) l = concat (rows_of ip l).
Proof.
  induction ip as [|a ip IH]; intros l M Hne Hl; [congruence|].
  destruct ip as [|b r].
  - simpl in *. subst a. apply skipn_all.
  - assert (Hb : b <= last (a :: b :: r) 0) by (apply (mono_last (a :: b :: r) M 1); simpl; lia).
    change (monotone (a :: b :: r)) with ((a <=? b) && monotone (b :: r)) in M.
    apply andb_true_iff in M. destruct M as [M1 M2]. apply Nat.leb_le in M1.
    change (last (a :: b :: r) 0) with (last (b :: r) 0) in *.
    change (rows_of (a :: b :: r) l) with (seg a b l :: rows_of (b :: r) l).
    cbn [concat hd]. rewrite <- (IH l M2 ltac:(discriminate) Hl). cbn [hd].
    unfold seg. replace (skipn b l) with (skipn (b - a) (skipn a l))
      by (rewrite skipn_add; f_equal; lia).
    symmetry. apply firstn_skipn.
Qed.

Lemma recon_ptr : forall {E} ip (l : list E), monotone ip = true -> ip <> [] ->
  last ip 0 = length l -> ip = hd 0 ip :: cumsumN (hd 0 ip) (map (@length E) (rows_of ip l)).
Proof.
  induction ip as [|a ip IH]; intros l M Hne Hl; [congruence|].
  destruct ip as [|b r]; [reflexivity|].
  assert (Hb : b <= last (a :: b :: r) 0) by (apply (mono_last (a :: b :: r) M 1); simpl; lia).
  change (monotone (a :: b :: r)) with ((a <=? b) && monotone (b :: r)) in M.
  apply andb_true_iff in M. destruct M as [M1 M2]. apply Nat.leb_le in M1.
  change (last (a :: b :: r) 0) with (last (b :: r) 0) in *.
  change (rows_of (a :: b :: r) l) with (seg a b l :: rows_of (b :: r) l).
  cbn [map cumsumN hd]. rewrite seg_length by lia.
  replace (a + (b - a)) with b by lia.
  f_equal. apply (IH l M2 ltac:(discriminate) Hl).
Qed.

(* a matrix stored as the concatenation of its lines *)
Record repr (A : csr) (R : list (list (nat * Z))) : Prop := {
  rp_entries : entries A = concat R;
  rp_ptr : indptr A = 0 :: cumsumN 0 (map (@length _) R);
  rp_data : length (data A) = length (indices A) }.

Lemma wf_repr : forall A, wfP A -> repr A (rows A).
Proof.
  intros A W.
  assert (Hne : indptr A <> []) by (pose proof (wf_len A W); destruct (indptr A); [discriminate|congruence]).
  assert (Hl : last (indptr A) 0 = length (entries A)) by (rewrite (entries_length A W); apply (wf_last A W)).
  pose proof (wf_hd A W) as Hh.
  assert (Hh0 : hd 0 (indptr A) = 0) by (destruct (indptr A); [congruence|exact Hh]).
  constructor.
  - pose proof (recon_entries (indptr A) (entries A) (wf_mono A W) Hne Hl) as H.
    rewrite Hh0 in H. exact H.
  - pose proof (recon_ptr (indptr A) (entries A) (wf_mono A W) Hne Hl) as H.
    rewrite Hh0 in H. exact H.
  - apply (wf_data A W).
Qed.

Lemma repr_rows : forall A R, repr A R -> rows A = R.
Proof.
  intros A R [He Hp _]. unfold rows. rewrite He, Hp.
  apply (rows_of_concat R [] 0). reflexivity.
Qed.

Lemma nth_ptr_succ : forall lens i a, i < length lens ->
  nth (S i) (a :: cumsumN a lens) 0 = nth i (a :: cumsumN a lens) 0 + nth i lens 0.
Proof.
  induction lens as [|x lens IH]; intros i a H; simpl in H; [lia|].
  destruct i; [reflexivity|].
  change (nth (S (S i)) (a :: cumsumN a (x :: lens)) 0) with (nth (S i) ((a + x) :: cumsumN (a + x) lens) 0).
  change (nth (S i) (a :: cumsumN a (x :: lens)) 0) with (nth i ((a + x) :: cumsumN (a + x) lens) 0).
  cbn [nth]. apply IH. lia.
Qed.

(* ================================================================ masks *)

Lemma mask_app : forall {E} (b1 b2 : list bool) (l1 l2 : list E), length b1 = length l1 ->
  mask (b1 ++ b2) (l1 ++ l2) = mask b1 l1 ++ mask b2 l2.
Proof.
  induction b1 as [|b b1 IH]; intros b2 [|x l1] l2 H; simpl in H; try discriminate; [reflexivity|].
  simpl. destruct b; simpl; rewrite IH by lia; reflexivity.
Qed.

Lemma mask_true : forall {E} (l : list E), mask (repeat true (length l)) l = l.
Proof. induction l; simpl; congruence. Qed.

Lemma mask_false : forall {E} (l : list E), mask (repeat false (length l)) l = [].
Proof. induction l; simpl; auto. Qed.

Lemma mask_blocks : forall {E} (idx : list nat) (f : nat -> bool) (row : nat -> list E),
  mask (concat (map (fun i => repeat (f i) (length (row i))) idx)) (concat (map row idx))
  = concat (map (fun i => if f i then row i else []) idx).
Proof.
  induction idx as [|i idx IH]; intros f row; [reflexivity|].
  cbn [map concat]. rewrite mask_app by apply repeat_length. rewrite IH.
  destruct (f i); [rewrite mask_true|rewrite mask_false]; reflexivity.
Qed.

Lemma mask_combine : forall {A B} (k : list bool) (a : list A) (b : list B),
  combine (mask k a) (mask k b) = mask k (combine a b).
Proof.
  induction k as [|x k IH]; intros [|u a] [|v b]; simpl; try reflexivity;
    destruct x; simpl; try rewrite IH; try reflexivity;
    destruct (mask k a); reflexivity.
Qed.

(* ================================================================ scatter, values determined by the position *)

Lemma scatter_fun_nth : forall {V} pos (base : list V) (g : nat -> V) j d,
  nth j (scatter base pos (map g pos)) d
  = if existsb (Nat.eqb j) pos && (j <? length base) then g j else nth j base d.
Proof.
  induction pos as [|p pos IH]; intros base g j d; [reflexivity|].
  cbn [map scatter existsb]. rewrite IH, upd_length, upd_nth.
  destruct (j <? length base); rewrite ?andb_false_r, ?andb_true_r; [|reflexivity].
  destruct (existsb (Nat.eqb j) pos); rewrite ?orb_true_r; [reflexivity|].
  rewrite orb_false_r. destruct (j =? p) eqn:E; [|reflexivity].
  apply Nat.eqb_eq in E. subst. reflexivity.
Qed.

Lemma existsb_map_S : forall i L, existsb (Nat.eqb (S i)) (map S L) = existsb (Nat.eqb i) L.
Proof. induction L as [|l L IH]; [reflexivity|]. cbn [map existsb]. rewrite IH. reflexivity. Qed.

Lemma existsb_0_map_S : forall L, existsb (Nat.eqb 0) (map S L) = false.
Proof. induction L as [|l L IH]; [reflexivity|]. cbn [map existsb]. rewrite IH. reflexivity. Qed.

(* zeros with g(l) written at position l+1 for the lines l of L *)
Lemma scatter_lines : forall L (g : nat -> nat) n, Forall (fun l => l < n) L ->
  scatter (repeat 0 (S n)) (map S L) (map g L)
  = 0 :: map (fun i => if existsb (Nat.eqb i) L then g i else 0) (seq 0 n).
Proof.
  intros L g n H.
  replace (map g L) with (map (fun j => g (pred j)) (map S L)) by (rewrite map_map; reflexivity).
  match goal with |- ?X = _ => rewrite (list_eq_map_seq X 0) end.
  rewrite scatter_length, repeat_length. cbn [seq map]. f_equal.
  - rewrite scatter_fun_nth, existsb_0_map_S. reflexivity.
  - rewrite <- seq_shift, map_map. apply map_ext_in. intros i Hi. apply in_seq in Hi.
    rewrite scatter_fun_nth, existsb_map_S, repeat_length.
    replace (S i <? S n) with true by (symmetry; apply Nat.ltb_lt; lia).
    rewrite andb_true_r. cbn [pred].
    destruct (existsb (Nat.eqb i) L); [reflexivity|]. apply nth_repeat.
Qed.

(* ================================================================ cumulative sums *)

Lemma map2_map : forall {A B C X} (f : A -> B -> C) (u : X -> A) (v : X -> B) l,
  map2 f (map u l) (map v l) = map (fun x => f (u x) (v x)) l.
Proof. induction l; simpl; congruence. Qed.

Lemma cumsum_sub : forall (l : list nat) (u v : nat -> nat) a b, b <= a -> (forall i, v i <= u i) ->
  map2 Nat.sub (cumsumN a (map u l)) (cumsumN b (map v l)) = cumsumN (a - b) (map (fun i => u i - v i) l).
Proof.
  induction l as [|x l IH]; intros u v a b Hab H; [reflexivity|].
  cbn [map cumsumN map2]. specialize (H x) as Hx.
  rewrite IH by (try lia; exact H). f_equal; [lia|]. f_equal. lia.
Qed.

Lemma cumsum_add : forall (l : list nat) (u v : nat -> nat) a b,
  map2 Nat.add (cumsumN a (map u l)) (cumsumN b (map v l)) = cumsumN (a + b) (map (fun i => u i + v i) l).
Proof.
  induction l as [|x l IH]; intros u v a b; [reflexivity|].
  cbn [map cumsumN map2]. rewrite IH. f_equal; [lia|]. f_equal. lia.
Qed.

Lemma diffN_ptr : forall lens a, diffN (a :: cumsumN a lens) = lens.
Proof.
  induction lens as [|x lens IH]; intros a; [reflexivity|].
  change (diffN (a :: cumsumN a (x :: lens))) with ((a + x - a) :: diffN ((a + x) :: cumsumN (a + x) lens)).
  rewrite IH. f_equal. lia.
Qed.

(* ================================================================ np.insert *)

Section Insert.
  Context {E : Type}.

  Definition emit (p : nat) (pvs : list (nat * E)) : list E :=
    map snd (filter (fun pv => fst pv =? p) pvs).

  Lemma emit_app : forall p a b, emit p (a ++ b) = emit p a ++ emit p b.
  Proof. intros. unfold emit. rewrite filter_app, map_app. reflexivity. Qed.

  Lemma emit_none : forall p pvs, Forall (fun pv => fst pv <> p) pvs -> emit p pvs = [].
  Proof.
    intros p pvs H. unfold emit. induction H as [|pv l Hpv _ IH]; [reflexivity|].
    cbn [filter]. apply Nat.eqb_neq in Hpv. rewrite Hpv. exact IH.
  Qed.

  Lemma emit_here : forall p (vs : list E), emit p (map (pair p) vs) = vs.
  Proof.
    intros p vs. unfold emit. induction vs as [|v vs IH]; [reflexivity|].
    cbn [map filter fst]. rewrite Nat.eqb_refl. cbn [map snd]. f_equal. exact IH.
  Qed.

  (* no value wants a position in [q, q + length r): the elements pass unchanged *)
  Lemma insert_skip : forall (r arr : list E) q pvs,
    Forall (fun pv => fst pv < q \/ q + length r <= fst pv) pvs ->
    insert_at q (r ++ arr) pvs = r ++ insert_at (q + length r) arr pvs.
  Proof.
    induction r as [|x r IH]; intros arr q pvs H.
    - simpl. f_equal. lia.
    - cbn [app insert_at length]. fold (emit q pvs). rewrite emit_none.
      + cbn [app]. f_equal. rewrite IH.
        * f_equal. f_equal. lia.
        * eapply Forall_impl; [|exact H]. intros pv Hp. cbn [length] in Hp. lia.
      + eapply Forall_impl; [|exact H]. intros pv Hp. cbn [length] in Hp. lia.
  Qed.

  Lemma insert_end : forall p (stale : list (nat * E)) pre,
    Forall (fun pv => fst pv < p) stale ->
    insert_at p [] (stale ++ map (pair p) pre) = pre.
  Proof.
    intros p stale pre H. cbn [insert_at]. rewrite filter_app, map_app.
    replace (filter (fun pv : nat * E => p <=? fst pv) stale) with (@nil (nat * E)).
    2:{ symmetry. induction H as [|pv l Hpv _ IH]; [reflexivity|]. cbn [filter].
        replace (p <=? fst pv) with false by (symmetry; apply Nat.leb_gt; exact Hpv). exact IH. }
    cbn [map app]. induction pre as [|v pre IH]; [reflexivity|].
    cbn [map filter fst]. rewrite Nat.leb_refl. cbn [map snd]. f_equal. exact IH.
  Qed.
End Insert.

(* ================================================================ inserting the lines of B *)

(* strictly increasing, first element at least i *)
Fixpoint incr_from (i : nat) (L : list nat) : Prop :=
  match L with [] => True | l :: Ls => i <= l /\ incr_from (S l) Ls end.

Lemma incr_from_weaken : forall L i j, i <= j -> incr_from j L -> incr_from i L.
Proof. destruct L as [|l L]; intros i j H [H1 H2] || intros; simpl in *; auto. split; [lia|assumption]. Qed.

Lemma incr_from_ge : forall L i, incr_from i L -> Forall (fun l => i <= l) L.
Proof.
  induction L as [|l L IH]; intros i H; [constructor|]. destruct H as [H1 H2].
  constructor; [exact H1|]. apply IH. apply (incr_from_weaken L i (S l)); [lia|exact H2].
Qed.

Fixpoint assoc {V} (i : nat) (l : list (nat * V)) : option V :=
  match l with
  | [] => None
  | kv :: r => if fst kv =? i then Some (snd kv) else assoc i r
  end.

Lemma assoc_notin : forall {V} L (Bs : list V) i, Forall (fun l => l <> i) L -> assoc i (combine L Bs) = None.
Proof.
  induction L as [|l L IH]; intros [|b Bs] i H; try reflexivity.
  inversion H as [|l' L' Hl HL]; subst. cbn [combine assoc fst].
  apply Nat.eqb_neq in Hl. rewrite Hl. apply IH. exact HL.
Qed.

Lemma assoc_flag : forall {V} L (Bs : list V) i, length Bs = length L ->
  match assoc i (combine L Bs) with Some _ => existsb (Nat.eqb i) L = true
                                   | None => existsb (Nat.eqb i) L = false end.
Proof.
  induction L as [|l L IH]; intros [|b Bs] i H; simpl in H; try discriminate; [reflexivity|].
  cbn [combine assoc fst existsb]. rewrite (Nat.eqb_sym i l).
  destruct (l =? i); [reflexivity|]. cbn [orb]. apply IH. lia.
Qed.

Section InsertLines.
  Context {E : Type}.

  (* (position, value) pairs of the inserted lines, line by line *)
  Fixpoint PV (p : nat) (rs : list (list E)) (i : nat) (L : list nat) (Bs : list (list E))
    : list (nat * E) :=
    match rs with
    | [] => []
    | r :: rs' =>
        match L, Bs with
        | l :: Ls, b :: Bs' =>
            if i =? l then map (pair p) b ++ PV (p + length r) rs' (S i) Ls Bs'
            else PV (p + length r) rs' (S i) L Bs
        | _, _ => PV (p + length r) rs' (S i) L Bs
        end
    end.

  (* the lines after the insertion *)
  Fixpoint rows2 (rs : list (list E)) (i : nat) (L : list nat) (Bs : list (list E))
    : list (list E) :=
    match rs with
    | [] => []
    | r :: rs' =>
        match L, Bs with
        | l :: Ls, b :: Bs' =>
            if i =? l then (b ++ r) :: rows2 rs' (S i) Ls Bs' else r :: rows2 rs' (S i) L Bs
        | _, _ => r :: rows2 rs' (S i) L Bs
        end
    end.

  Lemma PV_ge : forall rs p i L Bs, Forall (fun pv => p <= fst pv) (PV p rs i L Bs).
  Proof.
    induction rs as [|r rs IH]; intros p i L Bs; [constructor|].
    assert (G : Forall (fun pv : nat * E => p <= fst pv) (PV (p + length r) rs (S i) L Bs)).
    { eapply Forall_impl; [|apply IH]. intros pv H. simpl in H. lia. }
    cbn [PV]. destruct L as [|l Ls]; [exact G|]. destruct Bs as [|b Bs']; [exact G|].
    destruct (i =? l); [|exact G].
    apply Forall_app. split.
    - apply Forall_forall. intros pv Hin. apply in_map_iff in Hin. destruct Hin as [v [<- _]]. simpl. lia.
    - eapply Forall_impl; [|apply IH]. intros pv H. simpl in H. lia.
  Qed.

  (* walking over a non-empty line: the values waiting at p come out first *)
  Lemma insert_walk : forall x (r arr : list E) p stale pre Q,
    Forall (fun pv => fst pv < p) stale -> Forall (fun pv => p + S (length r) <= fst pv) Q ->
    insert_at p ((x :: r) ++ arr) (stale ++ map (pair p) pre ++ Q)
    = pre ++ (x :: r) ++ insert_at (p + S (length r)) arr ((stale ++ map (pair p) pre) ++ Q).
  Proof.
    intros x r arr p stale pre Q Hs HQ.
    cbn [app insert_at]. fold (emit p (stale ++ map (pair p) pre ++ Q)).
    rewrite !emit_app, emit_here, emit_none, emit_none, app_nil_r.
    - cbn [app]. f_equal. f_equal. rewrite insert_skip.
      + f_equal. rewrite <- app_assoc. f_equal. lia.
      + apply Forall_app. split; [eapply Forall_impl; [|exact Hs]; intros pv H; simpl in H; lia|].
        apply Forall_app. split.
        * apply Forall_forall. intros pv Hin. apply in_map_iff in Hin. destruct Hin as [v [<- _]]. simpl. lia.
        * eapply Forall_impl; [|exact HQ]. intros pv H. simpl in H. lia.
    - eapply Forall_impl; [|exact HQ]. intros pv H. simpl in H. lia.
    - eapply Forall_impl; [|exact Hs]. intros pv H. simpl in H. lia.
  Qed.

  Lemma ins_core : forall rs p i L Bs stale pre,
    Forall (fun pv => fst pv < p) stale ->
    insert_at p (concat rs) (stale ++ map (pair p) pre ++ PV p rs i L Bs)
    = pre ++ concat (rows2 rs i L Bs).
  Proof.
    induction rs as [|r rs IH]; intros p i L Bs stale pre Hs.
    - cbn [concat PV rows2]. rewrite !app_nil_r. apply insert_end. exact Hs.
    - (* the two shapes: line i receives b (hit) or nothing (miss) *)
      assert (Miss : insert_at p (concat (r :: rs)) (stale ++ map (pair p) pre ++ PV (p + length r) rs (S i) L Bs)
                     = pre ++ concat (r :: rows2 rs (S i) L Bs)).
      { cbn [concat]. destruct r as [|x r].
        - cbn [app length]. rewrite Nat.add_0_r. apply IH. exact Hs.
        - change (length (x :: r)) with (S (length r)).
          rewrite insert_walk; [|exact Hs|apply PV_ge].
          pose proof (IH (p + S (length r)) (S i) L Bs (stale ++ map (pair p) pre) []) as H.
          cbn [map app] in H. rewrite H; [reflexivity|].
          apply Forall_app. split; [eapply Forall_impl; [|exact Hs]; intros pv Hp; simpl in Hp; lia|].
          apply Forall_forall. intros pv Hin. apply in_map_iff in Hin. destruct Hin as [v [<- _]]. simpl. lia. }
      cbn [PV rows2]. destruct L as [|l Ls]; [exact Miss|]. destruct Bs as [|b Bs']; [exact Miss|].
      destruct (i =? l); [|exact Miss].
      rewrite (app_assoc (map (pair p) pre) (map (pair p) b)), <- map_app. cbn [concat].
      destruct r as [|x r].
      + cbn [app length]. rewrite Nat.add_0_r, app_nil_r. rewrite IH by exact Hs.
        rewrite <- app_assoc. reflexivity.
      + change (length (x :: r)) with (S (length r)).
        rewrite insert_walk; [|exact Hs|apply PV_ge].
        pose proof (IH (p + S (length r)) (S i) Ls Bs' (stale ++ map (pair p) (pre ++ b)) []) as H.
        cbn [map app] in H. rewrite H.
        * rewrite <- !app_assoc. reflexivity.
        * apply Forall_app. split; [eapply Forall_impl; [|exact Hs]; intros pv Hp; simpl in Hp; lia|].
          apply Forall_forall. intros pv Hin. apply in_map_iff in Hin. destruct Hin as [v [<- _]]. simpl. lia.
  Qed.

  Lemma PV_nil_L : forall rs p i Bs, PV p rs i [] Bs = [].
  Proof. induction rs as [|r rs IH]; intros; [reflexivity|]. cbn [PV]. apply IH. Qed.

  Lemma PV_nil_B : forall rs p i L, PV p rs i L [] = [].
  Proof. induction rs as [|r rs IH]; intros; [reflexivity|]. cbn [PV]. destruct L; apply IH. Qed.

  Lemma map2_ext_in : forall {A B C} (f g : A -> B -> C) (a : list A) (b : list B),
    (forall x, In x a -> forall y, f x y = g x y) -> map2 f a b = map2 g a b.
  Proof.
    induction a as [|x a IH]; intros [|y b] H; try reflexivity. cbn [map2]. f_equal.
    - apply H. left. reflexivity.
    - apply IH. intros x' Hx'. apply H. right. exact Hx'.
  Qed.

  (* the pairs, written with the start positions read off the index pointer of the lines *)
  Lemma PV_spec : forall rs i p L Bs, incr_from i L -> Forall (fun l => l < i + length rs) L ->
    PV p rs i L Bs
    = concat (map2 (fun l b => map (pair (nth (l - i) (p :: cumsumN p (map (@length E) rs)) 0)) b) L Bs).
  Proof.
    induction rs as [|r rs IH]; intros i p L Bs Hi Hb.
    - destruct L as [|l Ls]; [reflexivity|]. exfalso. destruct Hi as [H1 _].
      inversion Hb; subst. simpl in *. lia.
    - destruct L as [|l Ls]; [rewrite PV_nil_L; reflexivity|].
      destruct Bs as [|b Bs']; [rewrite PV_nil_B; reflexivity|].
      destruct Hi as [H1 H2]. inversion Hb as [|l' L' Hl HLs]; subst.
      assert (Shift : forall k, S i <= k ->
                nth (k - i) (p :: cumsumN p (map (@length E) (r :: rs))) 0
                = nth (k - S i) ((p + length r) :: cumsumN (p + length r) (map (@length E) rs)) 0).
      { intros k Hk. replace (k - i) with (S (k - S i)) by lia. reflexivity. }
      cbn [PV]. destruct (i =? l) eqn:Eq.
      + apply Nat.eqb_eq in Eq. subst l. cbn [map2 concat]. rewrite Nat.sub_diag.
        replace (nth 0 (p :: cumsumN p (map (@length E) (r :: rs))) 0) with p by reflexivity. f_equal.
        assert (I2 : Forall (fun k => k < S i + length rs) Ls).
        { pose proof (incr_from_ge Ls (S i) H2) as G.
          eapply Forall_impl; [|exact HLs]. intros k Hk. cbn [length] in Hk. lia. }
        rewrite (IH (S i) (p + length r) Ls Bs' H2 I2).
        f_equal. apply map2_ext_in. intros k Hk y.
        pose proof (incr_from_ge Ls (S i) H2) as G. rewrite Forall_forall in G.
        rewrite Shift by (apply G; exact Hk). reflexivity.
      + apply Nat.eqb_neq in Eq.
        assert (I1 : incr_from (S i) (l :: Ls)) by (split; [lia|exact H2]).
        assert (I2 : Forall (fun k => k < S i + length rs) (l :: Ls)).
        { constructor; [cbn [length] in Hl; lia|].
          eapply Forall_impl; [|exact HLs]. intros k Hk. cbn [length] in Hk. lia. }
        rewrite (IH (S i) (p + length r) (l :: Ls) (b :: Bs') I1 I2).
        f_equal. apply map2_ext_in. intros k Hk y.
        assert (S i <= k).
        { destruct Hk as [<-|Hk]; [lia|].
          pose proof (incr_from_ge Ls (S l) H2) as G. rewrite Forall_forall in G. specialize (G k Hk). lia. }
        rewrite Shift by assumption. reflexivity.
  Qed.

  Lemma rows2_spec : forall rs i L Bs, incr_from i L -> length Bs = length L ->
    rows2 rs i L Bs
    = map (fun kr => match assoc (fst kr) (combine L Bs) with Some b => b ++ snd kr | None => snd kr end)
          (combine (seq i (length rs)) rs).
  Proof.
    induction rs as [|r rs IH]; intros i L Bs Hi Hlen; [reflexivity|].
    assert (Miss : assoc i (combine L Bs) = None -> incr_from (S i) L ->
                   r :: rows2 rs (S i) L Bs
                   = map (fun kr => match assoc (fst kr) (combine L Bs) with Some b => b ++ snd kr | None => snd kr end)
                         (combine (seq i (length (r :: rs))) (r :: rs))).
    { intros Hn Hi'. cbn [length seq combine map fst snd]. rewrite Hn. f_equal. apply IH; assumption. }
    cbn [rows2]. destruct L as [|l Ls]; [apply Miss; [reflexivity|exact I]|].
    destruct Bs as [|b Bs']; [discriminate|].
    destruct Hi as [H1 H2]. cbn [length] in Hlen.
    destruct (i =? l) eqn:Eq.
    - apply Nat.eqb_eq in Eq. subst l.
      cbn [length seq combine map fst snd assoc]. rewrite Nat.eqb_refl. f_equal.
      rewrite (IH (S i) Ls Bs' H2) by lia. apply map_ext_in. intros [k rr] Hin.
      apply in_combine_l in Hin. apply in_seq in Hin. cbn [fst snd].
      replace (i =? k) with false by (symmetry; apply Nat.eqb_neq; lia). reflexivity.
    - apply Nat.eqb_neq in Eq. apply Miss.
      + cbn [combine assoc fst]. replace (l =? i) with false by (symmetry; apply Nat.eqb_neq; lia).
        apply assoc_notin. pose proof (incr_from_ge Ls (S l) H2) as G.
        eapply Forall_impl; [|exact G]. intros k Hk. simpl in Hk. lia.
      + split; [lia|exact H2].
  Qed.
End InsertLines.

(* ================================================================ helpers for the assembly *)

Lemma filter_combine_len : forall {A B} (f : nat -> bool) pos (va : list A) (vb : list B),
  length va = length vb ->
  length (filter (fun pv => f (fst pv)) (combine pos va))
  = length (filter (fun pv => f (fst pv)) (combine pos vb)).
Proof.
  induction pos as [|p pos IH]; intros [|x va] [|y vb] H; simpl in H; try discriminate; try reflexivity.
  cbn [combine filter fst]. destruct (f p); cbn [length]; rewrite (IH va vb) by lia; reflexivity.
Qed.

Lemma filter_combine3 : forall {A B} (f : nat -> bool) pos (va : list A) (vb : list B),
  length va = length vb ->
  combine (map snd (filter (fun pv => f (fst pv)) (combine pos va)))
          (map snd (filter (fun pv => f (fst pv)) (combine pos vb)))
  = map snd (filter (fun pv => f (fst pv)) (combine pos (combine va vb))).
Proof.
  induction pos as [|p pos IH]; intros [|x va] [|y vb] H; simpl in H; try discriminate; try reflexivity.
  cbn [combine filter fst]. destruct (f p); cbn [map snd combine]; rewrite (IH va vb) by lia; reflexivity.
Qed.

Lemma insert_combine : forall {A B} (a : list A) (b : list B) p pos va vb,
  length a = length b -> length va = length vb ->
  combine (insert_at p a (combine pos va)) (insert_at p b (combine pos vb))
  = insert_at p (combine a b) (combine pos (combine va vb)).
Proof.
  induction a as [|x a IH]; intros [|y b] p pos va vb Hab Hv; simpl in Hab; try discriminate.
  - cbn [insert_at combine]. apply (filter_combine3 (fun q => p <=? q)). exact Hv.
  - cbn [insert_at combine]. rewrite combine_app'.
    + rewrite (filter_combine3 (fun q => q =? p)) by exact Hv. cbn [combine].
      rewrite IH by (try lia; exact Hv). reflexivity.
    + rewrite !map_length. apply (filter_combine_len (fun q => q =? p)). exact Hv.
Qed.

Lemma mask_length_eq : forall {A B} (k : list bool) (a : list A) (b : list B),
  length a = length b -> length (mask k a) = length (mask k b).
Proof.
  induction k as [|x k IH]; intros a b Hab; [destruct a, b; reflexivity|].
  destruct a as [|u a], b as [|v b]; simpl in Hab; try discriminate; [destruct x; reflexivity|].
  simpl. destruct x; simpl; rewrite (IH a b) by lia; reflexivity.
Qed.

Lemma combine_repeat : forall {V} (s : nat) (b : list V), combine (repeat s (length b)) b = map (pair s) b.
Proof. induction b; simpl; congruence. Qed.

(* np.repeat(starts, lengths) paired with the concatenated lines *)
Lemma combine_repeat_concat : forall {V} (starts : list nat) (Bs : list (list V)),
  length starts = length Bs ->
  combine (flat_map (fun pc => repeat (fst pc) (snd pc)) (combine starts (map (@length V) Bs))) (concat Bs)
  = concat (map2 (fun s b => map (pair s) b) starts Bs).
Proof.
  induction starts as [|s starts IH]; intros [|b Bs] H; simpl in H; try discriminate; [reflexivity|].
  cbn [map combine flat_map fst snd concat map2].
  rewrite combine_app' by apply repeat_length. rewrite combine_repeat, IH by lia. reflexivity.
Qed.

Lemma map2_map_l : forall {A B C X} (f : A -> B -> C) (u : X -> A) l b,
  map2 f (map u l) b = map2 (fun x y => f (u x) y) l b.
Proof. induction l as [|x l IH]; intros [|y b]; simpl; try reflexivity. f_equal. apply IH. Qed.

Lemma cumsumN_length : forall l a, length (cumsumN a l) = length l.
Proof. induction l; intros; simpl; auto. Qed.

Lemma map_const : forall {A B} (c : B) (l : list A), map (fun _ => c) l = repeat c (length l).
Proof. induction l; simpl; congruence. Qed.

Definition brow {V} (L : list nat) (Bs : list (list V)) (i : nat) : list V :=
  match assoc i (combine L Bs) with Some b => b | None => [] end.

Lemma brow_lines : forall {V} L (Bs : list (list V)) i, incr_from i L -> length Bs = length L ->
  map (brow L Bs) L = Bs.
Proof.
  induction L as [|l L IH]; intros [|b Bs] i Hi Hl; simpl in Hl; try discriminate; [reflexivity|].
  destruct Hi as [H1 H2]. cbn [map]. f_equal.
  - unfold brow. cbn [combine assoc fst snd]. rewrite Nat.eqb_refl. reflexivity.
  - rewrite <- (IH Bs (S l) H2) at 2 by lia. apply map_ext_in. intros k Hk.
    pose proof (incr_from_ge L (S l) H2) as G. rewrite Forall_forall in G. specialize (G k Hk).
    unfold brow. cbn [combine assoc fst]. replace (l =? k) with false by (symmetry; apply Nat.eqb_neq; lia).
    reflexivity.
Qed.

Lemma combine_seq_map : forall {V} (F : nat -> V) l, combine l (map F l) = map (fun i => (i, F i)) l.
Proof. induction l; simpl; congruence. Qed.

(* ================================================================ the sorted case *)

Section Sorted.
  Variables (A B1 : csr) (Bs : list (list (nat * Z))) (L : list nat).
  Hypothesis WA : wfP A.
  Hypothesis RB : repr B1 Bs.
  Hypothesis HL : incr_from 0 L.
  Hypothesis HLn : Forall (fun l => l < nmaj A) L.
  Hypothesis HBL : length Bs = length L.

  Let n := nmaj A.
  Let ip := indptr A.
  Let row (i : nat) := nth i (rows A) [].
  Let flag (i : nat) := existsb (Nat.eqb i) L.
  Let g (i : nat) := nth (S i) ip 0 - nth i ip 0.
  Let R1 (i : nat) : list (nat * Z) := if flag i then [] else row i.
  Let R2 (i : nat) : list (nat * Z) :=
    match assoc i (combine L Bs) with Some b => b ++ R1 i | None => R1 i end.

  Lemma g_len : forall i, i < n -> g i = length (row i).
  Proof.
    intros i Hi. unfold g, row, rows, ip. destruct (line_bounds A i WA Hi) as [H1 H2].
    rewrite rows_of_nth by (rewrite (wf_len A WA); fold n; lia).
    rewrite seg_length by lia. reflexivity.
  Qed.

  Lemma ip_form : ip = 0 :: cumsumN 0 (map g (seq 0 n)).
  Proof.
    unfold ip. rewrite (rp_ptr A _ (wf_repr A WA)). f_equal. f_equal.
    rewrite (list_eq_map_seq (rows A) []) at 1. rewrite (rows_length A WA), map_map. fold n.
    apply map_ext_in. intros i Hi. apply in_seq in Hi. symmetry. apply g_len. lia.
  Qed.

  Lemma entries_form : entries A = concat (map row (seq 0 n)).
  Proof.
    rewrite (rp_entries A _ (wf_repr A WA)). f_equal.
    rewrite (list_eq_map_seq (rows A) []) at 1. rewrite (rows_length A WA). reflexivity.
  Qed.

  Lemma ip_length : length ip = S n.
  Proof. unfold ip, n. apply (wf_len A WA). Qed.

  (* indptr after the removal *)
  Lemma ip1_form :
    map2 Nat.sub ip
      (cumsumN 0 (scatter (repeat 0 (length ip)) (map S L)
                          (map2 Nat.sub (gather 0 ip (map S L)) (gather 0 ip L))))
    = 0 :: cumsumN 0 (map (fun i => length (R1 i)) (seq 0 n)).
  Proof.
    unfold gather. rewrite map_map, map2_map.
    change (fun x : nat => nth (S x) ip 0 - nth x ip 0) with g.
    rewrite ip_length, (scatter_lines L g n HLn).
    change (cumsumN 0 (0 :: ?X)) with (0 :: cumsumN 0 X).
    rewrite ip_form at 1. cbn [map2]. f_equal.
    rewrite (cumsum_sub (seq 0 n) g (fun i => if existsb (Nat.eqb i) L then g i else 0) 0 0).
    - f_equal. apply map_ext_in. intros i Hi. apply in_seq in Hi.
      unfold R1, flag. destruct (existsb (Nat.eqb i) L); [simpl; lia|].
      rewrite g_len by lia. lia.
    - lia.
    - intros i. destruct (existsb (Nat.eqb i) L); lia.
  Qed.

  (* the boolean mask of the kept entries *)
  Lemma keep_form :
    scatter (repeat true (length (data A))) (array_ind A L) (repeat false (length (array_ind A L)))
    = concat (map (fun i => repeat (negb (flag i)) (length (row i))) (seq 0 n)).
  Proof.
    set (K := scatter _ _ _).
    assert (HK : length K = length (data A)) by (unfold K; rewrite scatter_length; apply repeat_length).
    assert (Hne : indptr A <> []) by (pose proof (wf_len A WA); destruct (indptr A); [discriminate|congruence]).
    assert (Hlast : last (indptr A) 0 = length K) by (rewrite HK, (wf_data A WA); apply (wf_last A WA)).
    pose proof (recon_entries (indptr A) K (wf_mono A WA) Hne Hlast) as Rc.
    assert (Hh0 : hd 0 (indptr A) = 0) by (pose proof (wf_hd A WA); destruct (indptr A); [congruence|assumption]).
    rewrite Hh0 in Rc. cbn [skipn] in Rc. rewrite Rc. f_equal.
    rewrite (list_eq_map_seq (rows_of (indptr A) K) []).
    rewrite rows_of_length, (wf_len A WA). replace (S (nmaj A) - 1) with n by (unfold n; lia).
    apply map_ext_in. intros i Hi. apply in_seq in Hi.
    destruct (line_bounds A i WA ltac:(unfold n in Hi; lia)) as [H1 H2].
    rewrite (entries_length A WA) in H2.
    rewrite rows_of_nth by (rewrite (wf_len A WA); unfold n in Hi; lia).
    rewrite (seg_pointwise (repeat true (length (data A))) K _ _ (fun _ => negb (flag i)) true).
    - rewrite map_const, seg_length by (rewrite ?repeat_length, ?(wf_data A WA); lia).
      rewrite <- g_len by lia. reflexivity.
    - lia.
    - rewrite repeat_length, (wf_data A WA). lia.
    - rewrite repeat_length. exact HK.
    - intros k Hk. unfold K. rewrite scatter_const_nth, repeat_length.
      rewrite (position_in_lines A L i k WA HLn ltac:(unfold n in Hi; lia) Hk).
      replace (k <? length (data A)) with true by (symmetry; apply Nat.ltb_lt; rewrite (wf_data A WA); lia).
      rewrite andb_true_r. fold (flag i). destruct (flag i); [reflexivity|].
      rewrite nth_repeat. reflexivity.
  Qed.

  Lemma kept_entries :
    mask (scatter (repeat true (length (data A))) (array_ind A L) (repeat false (length (array_ind A L))))
         (entries A)
    = concat (map R1 (seq 0 n)).
  Proof.
    rewrite keep_form, entries_form, mask_blocks. f_equal. apply map_ext. intros i.
    unfold R1. destruct (flag i); reflexivity.
  Qed.

  Lemma blens_form : diffN (indptr B1) = map (fun l => length (brow L Bs l)) L.
  Proof.
    rewrite (rp_ptr B1 Bs RB), diffN_ptr. rewrite <- (brow_lines L Bs 0 HL HBL) at 1.
    rewrite map_map. reflexivity.
  Qed.

  Lemma R2_length : forall i, length (R2 i) = length (R1 i) + (if flag i then length (brow L Bs i) else 0).
  Proof.
    intros i. unfold R2, brow, flag. pose proof (assoc_flag L Bs i HBL) as F.
    destruct (assoc i (combine L Bs)); rewrite F; [rewrite app_length; lia|lia].
  Qed.

  (* the final index pointer *)
  Lemma ipF_form : forall ip1, ip1 = 0 :: cumsumN 0 (map (fun i => length (R1 i)) (seq 0 n)) ->
    map2 Nat.add ip1 (cumsumN 0 (scatter (repeat 0 (length ip1)) (map S L) (diffN (indptr B1))))
    = 0 :: cumsumN 0 (map (@length _) (map R2 (seq 0 n))).
  Proof.
    intros ip1 ->. cbn [length]. rewrite cumsumN_length, map_length, seq_length.
    rewrite blens_form, (scatter_lines L (fun l => length (brow L Bs l)) n HLn).
    change (cumsumN 0 (0 :: ?X)) with (0 :: cumsumN 0 X). cbn [map2]. f_equal.
    rewrite cumsum_add, map_map. f_equal. apply map_ext. intros i. rewrite R2_length. reflexivity.
  Qed.

  (* the inserted (position, entry) pairs *)
  Lemma pairs_form : forall ip1, ip1 = 0 :: cumsumN 0 (map (fun i => length (R1 i)) (seq 0 n)) ->
    combine (flat_map (fun pc => repeat (fst pc) (snd pc)) (combine (gather 0 ip1 L) (diffN (indptr B1))))
            (entries B1)
    = PV 0 (map R1 (seq 0 n)) 0 L Bs.
  Proof.
    intros ip1 E1. rewrite (rp_entries B1 Bs RB), (rp_ptr B1 Bs RB), diffN_ptr.
    rewrite combine_repeat_concat by (unfold gather; rewrite map_length; symmetry; exact HBL).
    unfold gather. rewrite map2_map_l.
    rewrite PV_spec; [|exact HL|rewrite map_length, seq_length; exact HLn].
    f_equal. apply map2_ext_in. intros l Hl y. rewrite Nat.sub_0_r, map_map, E1. reflexivity.
  Qed.

  Lemma R2_final : forall i, R2 i = match assoc i (combine L Bs) with Some b => b | None => row i end.
  Proof.
    intros i. unfold R2, R1, flag. pose proof (assoc_flag L Bs i HBL) as F.
    destruct (assoc i (combine L Bs)); rewrite F; [apply app_nil_r|reflexivity].
  Qed.

  Theorem merge_sorted_rows :
    rows (merge_sorted A B1 L)
    = map (fun i => match assoc i (combine L Bs) with Some b => b | None => nth i (rows A) [] end)
          (seq 0 (nmaj A)).
  Proof.
    unfold rows at 1, entries at 1, merge_sorted. cbn [indptr indices data].
    fold ip. fold (array_ind A L).
    set (ip1 := map2 Nat.sub ip _).
    assert (E1 : ip1 = 0 :: cumsumN 0 (map (fun i => length (R1 i)) (seq 0 n))) by apply ip1_form.
    rewrite (ipF_form ip1 E1).
    unfold np_insert. rewrite insert_combine.
    2:{ apply mask_length_eq. symmetry. apply (wf_data A WA). }
    2:{ symmetry. apply (rp_data B1 Bs RB). }
    rewrite mask_combine. fold (entries A). fold (entries B1).
    change (expand_nat (gather 0 ip L) (gather 0 ip (map S L))) with (array_ind A L).
    rewrite kept_entries, (pairs_form ip1 E1).
    pose proof (ins_core (map R1 (seq 0 n)) 0 0 L Bs [] [] ltac:(constructor)) as I.
    cbn [map app] in I. rewrite I.
    rewrite rows2_spec by (try exact HL; exact HBL).
    rewrite map_length, seq_length, combine_seq_map.
    assert (Hm : map (fun kr : nat * list (nat * Z) =>
                        match assoc (fst kr) (combine L Bs) with Some b => b ++ snd kr | None => snd kr end)
                     (map (fun i => (i, R1 i)) (seq 0 n)) = map R2 (seq 0 n))
      by (rewrite map_map; reflexivity).
    rewrite Hm.
    pose proof (rows_of_concat (map R2 (seq 0 n)) [] 0 eq_refl) as Hr. cbn [app] in Hr. rewrite Hr.
    apply map_ext. intros i. apply R2_final.
  Qed.
End Sorted.

(* ================================================================ sorting the lines *)
From Coq Require Import Sorted.

Definition kle (p q : nat * nat) : Prop := fst p <= fst q.

Lemma ins_key_perm : forall p l, Permutation (ins_key p l) (p :: l).
Proof.
  induction l as [|q r IH]; [apply Permutation_refl|]. cbn [ins_key].
  destruct (fst p <=? fst q); [apply Permutation_refl|].
  eapply Permutation_trans; [apply perm_skip; exact IH|apply perm_swap].
Qed.

Lemma sort_keys_perm : forall l, Permutation (sort_keys l) l.
Proof.
  induction l as [|p l IH]; [apply Permutation_refl|]. cbn [sort_keys fold_right].
  eapply Permutation_trans; [apply ins_key_perm|apply perm_skip; exact IH].
Qed.

Lemma Forall_perm : forall {X} (P : X -> Prop) l l', Permutation l l' -> Forall P l -> Forall P l'.
Proof.
  intros X P l l' Hp H. apply Forall_forall. intros x Hx. rewrite Forall_forall in H. apply H.
  apply (Permutation_in x (Permutation_sym Hp)). exact Hx.
Qed.

Lemma ins_key_sorted : forall p l, StronglySorted kle l -> StronglySorted kle (ins_key p l).
Proof.
  induction l as [|q r IH]; intros H; [repeat constructor|]. cbn [ins_key].
  inversion H as [|q' r' Hr Hq]; subst.
  destruct (fst p <=? fst q) eqn:E.
  - apply Nat.leb_le in E. constructor; [exact H|]. constructor; [exact E|].
    eapply Forall_impl; [|exact Hq]. intros x Hx. unfold kle in *. lia.
  - apply Nat.leb_gt in E. constructor; [apply IH; exact Hr|].
    apply (Forall_perm _ (p :: r)); [apply Permutation_sym, ins_key_perm|].
    constructor; [unfold kle; lia|exact Hq].
Qed.

Lemma sort_keys_sorted : forall l, StronglySorted kle (sort_keys l).
Proof. induction l as [|p l IH]; [constructor|]. cbn [sort_keys fold_right]. apply ins_key_sorted. exact IH. Qed.

Lemma sorted_incr : forall (l : list nat) i, StronglySorted le l -> NoDup l -> Forall (fun x => i <= x) l ->
  incr_from i l.
Proof.
  induction l as [|a l IH]; intros i Hs Hn Hi; [exact I|].
  inversion Hs as [|a' l' Hs' Ha]; subst. inversion Hn as [|a' l' Hna Hn']; subst.
  inversion Hi as [|a' l' Hia _]; subst. split; [exact Hia|].
  apply IH; [exact Hs'|exact Hn'|]. apply Forall_forall. intros x Hx.
  rewrite Forall_forall in Ha. specialize (Ha x Hx). assert (x <> a) by (intros ->; contradiction). lia.
Qed.

Lemma sorted_map_fst : forall l, StronglySorted kle l -> StronglySorted le (map fst l).
Proof.
  induction 1 as [|p l Hs IH Hp]; [constructor|]. cbn [map]. constructor; [exact IH|].
  apply Forall_forall. intros x Hx. apply in_map_iff in Hx. destruct Hx as [q [<- Hq]].
  rewrite Forall_forall in Hp. apply Hp. exact Hq.
Qed.

Lemma monotone_incr : forall (l : list nat) i, monotone l = true -> NoDup l ->
  match l with [] => True | a :: _ => i <= a end -> incr_from i l.
Proof.
  induction l as [|a l IH]; intros i M Hn Hi; [exact I|]. split; [exact Hi|].
  destruct l as [|b r]; [exact I|].
  change (monotone (a :: b :: r)) with ((a <=? b) && monotone (b :: r)) in M.
  apply andb_true_iff in M. destruct M as [M1 M2]. apply Nat.leb_le in M1.
  inversion Hn as [|a' l' Hna Hn']; subst.
  apply IH; [exact M2|exact Hn'|]. assert (a <> b) by (intros ->; apply Hna; left; reflexivity). lia.
Qed.

Lemma nodupb_iff : forall l, nodupb l = true <-> NoDup l.
Proof.
  induction l as [|x l IH]; [split; [constructor|reflexivity]|]. cbn [nodupb]. split.
  - intros H. apply andb_true_iff in H. destruct H as [H1 H2]. constructor; [|apply IH; exact H2].
    intros Hin. apply negb_true_iff in H1.
    assert (existsb (Nat.eqb x) l = true) by (apply existsb_exists; exists x; split; [exact Hin|apply Nat.eqb_refl]).
    congruence.
  - intros H. inversion H as [|x' l' Hx Hl]; subst. apply andb_true_iff. split; [|apply IH; exact Hl].
    apply negb_true_iff. destruct (existsb (Nat.eqb x) l) eqn:E; [|reflexivity].
    apply existsb_exists in E. destruct E as [y [Hy Heq]]. apply Nat.eqb_eq in Heq. subst. contradiction.
Qed.

(* looking a line up does not depend on the order of an association list with distinct keys *)
Lemma assoc_in : forall {V} (l : list (nat * V)) i v, NoDup (map fst l) -> In (i, v) l -> assoc i l = Some v.
Proof.
  induction l as [|[k w] l IH]; intros i v Hn Hin; [contradiction|].
  cbn [map fst] in Hn. inversion Hn as [|k' l' Hk Hl]; subst. cbn [assoc fst snd].
  destruct Hin as [Heq|Hin].
  - inversion Heq; subst. rewrite Nat.eqb_refl. reflexivity.
  - destruct (k =? i) eqn:E; [|apply IH; assumption].
    apply Nat.eqb_eq in E. subst. exfalso. apply Hk. apply in_map_iff. exists (i, v). split; [reflexivity|exact Hin].
Qed.

Lemma assoc_some_in : forall {V} (l : list (nat * V)) i v, assoc i l = Some v -> In (i, v) l.
Proof.
  induction l as [|[k w] l IH]; intros i v H; [discriminate|]. cbn [assoc fst snd] in H.
  destruct (k =? i) eqn:E; [|right; apply IH; exact H].
  apply Nat.eqb_eq in E. inversion H; subst. left. reflexivity.
Qed.

Lemma assoc_perm : forall {V} (l l' : list (nat * V)) i, NoDup (map fst l) -> Permutation l l' ->
  assoc i l = assoc i l'.
Proof.
  intros V l l' i Hn Hp.
  assert (Hn' : NoDup (map fst l')) by (apply (Permutation_NoDup (Permutation_map fst Hp)); exact Hn).
  destruct (assoc i l) as [v|] eqn:E.
  - symmetry. apply assoc_in; [exact Hn'|]. apply (Permutation_in _ Hp). apply assoc_some_in. exact E.
  - destruct (assoc i l') as [v|] eqn:E'; [|reflexivity].
    apply assoc_some_in in E'. apply (Permutation_in _ (Permutation_sym Hp)) in E'.
    rewrite (assoc_in l i v Hn E') in E. discriminate.
Qed.

Lemma assoc_map : forall {V W} (f : V -> W) L (Bs : list V) i,
  assoc i (combine L (map f Bs)) = option_map f (assoc i (combine L Bs)).
Proof.
  induction L as [|l L IH]; intros [|b Bs] i; try reflexivity. cbn [map combine assoc fst snd].
  destruct (l =? i); [reflexivity|apply IH].
Qed.

Lemma combine_map_same' : forall {X Y} (f : X -> Y) l, combine (map f l) l = map (fun x => (f x, x)) l.
Proof. induction l; simpl; congruence. Qed.

Lemma combine_positions_gen : forall {X Y} (a : list X) (b pre : list Y) dy, length a = length b ->
  combine a b = map (fun kp => (fst kp, nth (snd kp) (pre ++ b) dy)) (combine a (seq (length pre) (length a))).
Proof.
  induction a as [|x a IH]; intros [|y b] pre dy H; simpl in H; try discriminate; [reflexivity|].
  cbn [length seq combine map fst snd]. f_equal.
  - f_equal. rewrite app_nth2, Nat.sub_diag by lia. reflexivity.
  - specialize (IH b (pre ++ [y]) dy). rewrite app_length, <- app_assoc in IH. cbn [length app] in IH.
    replace (length pre + 1) with (S (length pre)) in IH by lia. apply IH. lia.
Qed.

Lemma combine_positions : forall {X Y} (a : list X) (b : list Y) dy, length a = length b ->
  combine a b = map (fun kp => (fst kp, nth (snd kp) b dy)) (combine a (seq 0 (length a))).
Proof. intros X Y a b dy H. apply (combine_positions_gen a b [] dy H). Qed.

Lemma slice_repr : forall B ind, wf B = true -> Forall (fun i => i < nmaj B) ind ->
  exists S, slice_sparse_matrix B ind = Ok S /\ repr S (map (fun i => nth i (rows B) []) ind).
Proof.
  intros B ind Hwf H. pose proof (wf_wfP B Hwf) as W.
  unfold slice_sparse_matrix. rewrite (proj2 (lines_ok_Forall B ind) H). cbn [negb].
  eexists. split; [reflexivity|]. constructor.
  - unfold entries. cbn [indices data]. rewrite gather_combine by (symmetry; apply (wf_data B W)).
    fold (entries B). apply sliced_entries; assumption.
  - cbn [indptr]. rewrite sliced_lengths by assumption. reflexivity.
  - cbn [indices data]. unfold gather. rewrite !map_length. reflexivity.
Qed.

(* ================================================================ merge_matrices *)

Definition merged_line {V} (lines : list nat) (Bs : list V) (old : nat -> V) (i : nat) : V :=
  match assoc i (combine lines Bs) with Some b => b | None => old i end.

Theorem merge_rows : forall A B lines,
  wf A = true -> wf B = true -> nmin A = nmin B -> length lines = nmaj B ->
  NoDup lines -> Forall (fun l => l < nmaj A) lines ->
  exists C, merge_matrices A B lines = Ok C /\ nmaj C = nmaj A /\ nmin C = nmin A /\
    rows C = map (merged_line lines (rows B) (fun i => nth i (rows A) [])) (seq 0 (nmaj A)).
Proof.
  intros A B lines HA HB Hmin Hlen Hnd Hrange.
  pose proof (wf_wfP A HA) as WA. pose proof (wf_wfP B HB) as WB.
  unfold merge_matrices.
  rewrite (proj2 (Nat.eqb_eq _ _) Hmin), (proj2 (Nat.eqb_eq _ _) Hlen), (proj2 (nodupb_iff lines) Hnd).
  cbn [negb].
  destruct (monotone lines) eqn:M.
  - (* already increasing *)
    rewrite (proj2 (lines_ok_Forall A lines) Hrange). cbn [negb].
    eexists. split; [reflexivity|]. split; [reflexivity|]. split; [reflexivity|].
    apply (merge_sorted_rows A B (rows B) lines WA (wf_repr B WB)).
    + apply monotone_incr; [exact M|exact Hnd|destruct lines; [exact I|lia]].
    + exact Hrange.
    + rewrite (rows_length B WB). symmetry. exact Hlen.
  - (* sort the lines, and the lines of B with them *)
    set (ks := combine lines (seq 0 (length lines))).
    set (sp := sort_keys ks).
    assert (Hperm : Permutation sp ks) by apply sort_keys_perm.
    assert (Hinv : Forall (fun kp => fst kp = nth (snd kp) lines 0 /\ snd kp < length lines) ks).
    { unfold ks. rewrite (list_eq_map_seq lines 0) at 1. rewrite combine_map_same'.
      apply Forall_forall. intros kp Hin. apply in_map_iff in Hin. destruct Hin as [j [<- Hj]].
      apply in_seq in Hj. cbn [fst snd]. split; [reflexivity|lia]. }
    assert (Hinv' : Forall (fun kp => fst kp = nth (snd kp) lines 0 /\ snd kp < length lines) sp)
      by (apply (Forall_perm _ ks); [apply Permutation_sym; exact Hperm|exact Hinv]).
    assert (Hsig : argsort lines = map snd sp) by reflexivity.
    assert (Hl1 : gather 0 lines (argsort lines) = map fst sp).
    { rewrite Hsig. unfold gather. rewrite map_map. apply map_ext_in. intros kp Hin.
      rewrite Forall_forall in Hinv'. symmetry. apply (Hinv' kp Hin). }
    assert (Hfst : map fst ks = lines).
    { unfold ks. rewrite (list_eq_map_seq lines 0) at 1. rewrite combine_map_same', map_map. cbn [fst].
      symmetry. apply list_eq_map_seq. }
    assert (Hp1 : Permutation (map fst sp) lines) by (rewrite <- Hfst; apply Permutation_map; exact Hperm).
    assert (Hsrange : Forall (fun s => s < nmaj B) (argsort lines)).
    { rewrite Hsig. apply Forall_forall. intros s Hs. apply in_map_iff in Hs. destruct Hs as [kp [<- Hin]].
      rewrite Forall_forall in Hinv'. rewrite <- Hlen. apply (Hinv' kp Hin). }
    destruct (slice_repr B (argsort lines) HB Hsrange) as [B1 [Es RB1]].
    rewrite Es, Hl1.
    assert (Hr1 : Forall (fun l => l < nmaj A) (map fst sp))
      by (apply (Forall_perm _ lines); [apply Permutation_sym; exact Hp1|exact Hrange]).
    rewrite (proj2 (lines_ok_Forall A (map fst sp)) Hr1). cbn [negb].
    eexists. split; [reflexivity|]. split; [reflexivity|]. split; [reflexivity|].
    assert (Hnd1 : NoDup (map fst sp)) by (apply (Permutation_NoDup (Permutation_sym Hp1)); exact Hnd).
    rewrite (merge_sorted_rows A B1 _ (map fst sp) WA RB1).
    + apply map_ext. intros i. unfold merged_line.
      (* both association lists are images of the (key, position) pairs *)
      set (f := fun kp : nat * nat => (fst kp, nth (snd kp) (rows B) [])).
      assert (E1 : combine (map fst sp) (map (fun s => nth s (rows B) []) (argsort lines)) = map f sp).
      { rewrite Hsig, map_map. apply combine_map_same. }
      assert (E2 : combine lines (rows B) = map f ks).
      { unfold ks, f. apply combine_positions. rewrite (rows_length B WB). exact Hlen. }
      rewrite E1, E2. rewrite (assoc_perm (map f sp) (map f ks) i); [reflexivity| |].
      * rewrite map_map. unfold f. cbn [fst]. exact Hnd1.
      * apply Permutation_map. exact Hperm.
    + apply sorted_incr; [apply sorted_map_fst; apply sort_keys_sorted|exact Hnd1|].
      apply Forall_forall. intros x _. lia.
    + exact Hr1.
    + rewrite Hsig, !map_length. reflexivity.
Qed.

(* densely: A[lines, :] = B (csr) / A[:, lines] = B (csc) *)
Theorem merge_dense : forall A B lines,
  wf A = true -> wf B = true -> nmin A = nmin B -> length lines = nmaj B ->
  NoDup lines -> Forall (fun l => l < nmaj A) lines ->
  exists C, merge_matrices A B lines = Ok C /\
    to_dense C = map (merged_line lines (to_dense B) (fun i => nth i (to_dense A) [])) (seq 0 (nmaj A)).
Proof.
  intros A B lines HA HB Hmin Hlen Hnd Hrange. pose proof (wf_wfP A HA) as WA.
  destruct (merge_rows A B lines HA HB Hmin Hlen Hnd Hrange) as [C [E [_ [Hm Hr]]]].
  exists C. split; [exact E|]. unfold to_dense at 1. rewrite Hr, Hm, map_map.
  apply map_ext_in. intros i Hi. apply in_seq in Hi. unfold merged_line, to_dense.
  rewrite assoc_map. destruct (assoc i (combine lines (rows B))); cbn [option_map].
  - rewrite Hmin. reflexivity.
  - rewrite (nth_indep _ [] (dense_row (nmin A) [])) by (rewrite map_length, (rows_length A WA); lia).
    symmetry. apply (map_nth (dense_row (nmin A))).
Qed.

Lemma merge_shape_mismatch : forall A B lines, nmin A <> nmin B -> merge_matrices A B lines = Err ValueErr.
Proof. intros A B lines H. unfold merge_matrices. apply Nat.eqb_neq in H. rewrite H. reflexivity. Qed.

Lemma merge_count_mismatch : forall A B lines, nmin A = nmin B -> length lines <> nmaj B ->
  merge_matrices A B lines = Err ValueErr.
Proof.
  intros A B lines H1 H2. unfold merge_matrices. rewrite (proj2 (Nat.eqb_eq _ _) H1).
  apply Nat.eqb_neq in H2. rewrite H2. reflexivity.
Qed.

Lemma merge_duplicate : forall A B lines, nmin A = nmin B -> length lines = nmaj B -> ~ NoDup lines ->
  merge_matrices A B lines = Err ValueErr.
Proof.
  intros A B lines H1 H2 H3. unfold merge_matrices.
  rewrite (proj2 (Nat.eqb_eq _ _) H1), (proj2 (Nat.eqb_eq _ _) H2). cbn [negb].
  destruct (nodupb lines) eqn:E; [|reflexivity]. exfalso. apply H3. apply nodupb_iff. exact E.
Qed.
