(* C19 (2-D legacy branch) — proofs about PP.Model.C19_fb. *)
From Coq Require Import List ZArith QArith Qabs Qfield Bool Arith Lia Lqa Permutation.
Import ListNotations.
From PP Require Import Model.C19 Model.C19_fb Proofs.C19.
Open Scope Q_scope.

(* e' is the face e traversed in the cell's true sense of rotation (same two nodes, possibly
   swapped, sign +1) *)
Definition reoriented (e e' : sface) : Prop :=
  sign_ok e /\ snd e' = 1%Z /\
  ((f_start e' = f_start e /\ f_end e' = f_end e) \/ (f_start e' = f_end e /\ f_end e' = f_start e)).

Lemma subnormal_reoriented t e e' : reoriented e e' ->
  (subnormal t e == subvol 1 t e' \/ subnormal t e == - subvol 1 t e') /\
  px (fcenter e') == px (fcenter e) /\ py (fcenter e') == py (fcenter e).
Proof.
  intros (Hs & H1 & Hp).
  destruct e as [[[p1 p2] [q1 q2]] s], e' as [[[a1 a2] [b1 b2]] s']. cbn [snd] in H1. subst s'.
  unfold sign_ok in Hs. cbn [snd] in Hs.
  unfold f_start, f_end in Hp. cbn [fst snd] in Hp.
  destruct Hp as [[E1 E2]|[E1 E2]]; injection E1 as -> ->; injection E2 as -> ->;
    destruct Hs as [-> | ->];
    unfold subvol, subnormal, fcenter, tangent, f_start, f_end, f_sgn, cross, psub, padd, pscale, px, py;
    cbn [fst snd inject_Z]; (split; [|split; ring]); [left|right|right|left]; ring.
Qed.

Lemma subabs_reoriented t e e' : reoriented e e' -> 0 <= subvol 1 t e' ->
  subabs t e == subvol 1 t e'.
Proof.
  intros Hr Hpos. destruct (subnormal_reoriented t e e' Hr) as [[E|E] _]; unfold subabs; rewrite E.
  - apply Qabs_pos. exact Hpos.
  - rewrite Qabs_opp. apply Qabs_pos. exact Hpos.
Qed.

(* the legacy volume and centre of a cell that is star-shaped w.r.t. t are the oriented ones of
   the correctly traversed loop *)
Lemma legacy_star_sums t es es' : Forall2 reoriented es es' ->
  (forall e', In e' es' -> 0 <= subvol 1 t e') ->
  sumQ (map (subabs t) es) == sumQ (map (subvol 1 t) es') /\
  sumQ (map (fun e => subabs t e * ((px t + 2 * px (fcenter e)) / 3)) es)
    == sumQ (map (fun e => subvol 1 t e * ((px t + 2 * px (fcenter e)) / 3)) es') /\
  sumQ (map (fun e => subabs t e * ((py t + 2 * py (fcenter e)) / 3)) es)
    == sumQ (map (fun e => subvol 1 t e * ((py t + 2 * py (fcenter e)) / 3)) es').
Proof.
  induction 1 as [|e e' es es' Hr HF IH]; intro Hpos.
  - cbn. repeat split; reflexivity.
  - assert (0 <= subvol 1 t e') as Hp by (apply Hpos; left; reflexivity).
    destruct IH as (I1 & I2 & I3); [intros; apply Hpos; right; assumption|].
    pose proof (subabs_reoriented t e e' Hr Hp) as Ea.
    destruct (subnormal_reoriented t e e' Hr) as (_ & Cx & Cy).
    cbn [map]. rewrite !sumQ_cons, I1, I2, I3, Ea, Cx, Cy. repeat split; reflexivity.
Qed.

Lemma legacy_star t es es' : Forall2 reoriented es es' ->
  (forall e', In e' es' -> 0 <= subvol 1 t e') ->
  fb_volume t es == cell_volume 1 t es' /\
  px (fb_moment t es) == px (cell_moment 1 t es') /\
  py (fb_moment t es) == py (cell_moment 1 t es').
Proof.
  intros HF Hpos. destruct (legacy_star_sums t es es' HF Hpos) as (H1 & H2 & H3).
  split; [exact H1|]. split; [exact H2|exact H3].
Qed.

Lemma legacy_star_area t es es' : Forall2 reoriented es es' ->
  (forall e', In e' es' -> 0 <= subvol 1 t e') -> signs_ok es' -> closed es' ->
  fb_volume t es == shoelace 1 es'.
Proof.
  intros HF Hpos Hs Hc. destruct (legacy_star t es es' HF Hpos) as (H & _).
  rewrite H. apply volume_shoelace; assumption.
Qed.

Lemma legacy_star_center t es es' : Forall2 reoriented es es' ->
  (forall e', In e' es' -> 0 <= subvol 1 t e') ->
  px (fb_center t es) == px (cell_center 1 t es') /\ py (fb_center t es) == py (cell_center 1 t es').
Proof.
  intros HF Hpos. destruct (legacy_star t es es' HF Hpos) as (H1 & H2 & H3).
  change (px (fb_center t es)) with (px (fb_moment t es) / fb_volume t es).
  change (py (fb_center t es)) with (py (fb_moment t es) / fb_volume t es).
  change (px (cell_center 1 t es')) with (px (cell_moment 1 t es') / cell_volume 1 t es').
  change (py (cell_center 1 t es')) with (py (cell_moment 1 t es') / cell_volume 1 t es').
  rewrite H1, H2, H3. split; reflexivity.
Qed.

(* legacy volumes are sums of absolute values *)
Lemma fb_volume_nonneg t es : 0 <= fb_volume t es.
Proof.
  unfold fb_volume. apply sumQ_nonneg. intros x Hx. apply in_map_iff in Hx.
  destruct Hx as (e & <- & _). apply Qabs_nonneg.
Qed.

(* the flip decision of an entry makes sign * normal point from the temporary centre to the face *)
Lemma flip_entry_outward sigma t e :
  let n := fnormal sigma e in
  let n' := if flip_entry sigma t e then (- px n, - py n) else n in
  0 <= f_sgn e * dot (psub (fcenter e) t) n'.
Proof.
  cbn zeta. unfold flip_entry.
  destruct (Qlt_le_dec (f_sgn e * dot (psub (fcenter e) t) (fnormal sigma e)) 0) as [L|L]; [|exact L].
  set (h := psub (fcenter e) t) in *. set (n := fnormal sigma e) in *.
  assert (dot h (- px n, - py n) == - dot h n) as E by (unfold dot, px, py; cbn [fst snd]; ring).
  rewrite E. assert (f_sgn e * - dot h n == - (f_sgn e * dot h n)) as E2 by ring. rewrite E2. lra.
Qed.

(* which branch returns what *)
Lemma geometry2f_branches g :
  match geometry2f g with
  | (BOriented, r) => geometry2 g = GOk r
  | (BLegacySameNormal, r) =>
      oriented1 g = true /\ ~ plane_sum g == 0 /\ geometry2 g = GFallback /\
      r = legacy g (qsign (plane_sum g))
  | (BLegacyGeneralNormal, r) =>
      (oriented1 g = false \/ plane_sum g == 0) /\ r = legacy g (general_normal (g_nodes g))
  end.
Proof.
  unfold geometry2f. destruct (oriented1 g) eqn:EO; cbn [andb].
  - destruct (Qeq_bool (plane_sum g) 0) eqn:ES; cbn [negb].
    + split; [right; apply Qeq_bool_iff; exact ES|reflexivity].
    + destruct (geometry2 g) eqn:EG; [reflexivity|].
      split; [reflexivity|]. split; [intro H; apply Qeq_bool_iff in H; congruence|]. split; reflexivity.
  - split; [left; reflexivity|reflexivity].
Qed.
