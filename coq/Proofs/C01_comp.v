(* C01 — composition: linear maps (sparse left product, slicing), l2_norm blocks, and
   the induction over expression trees. *)
From Coq Require Import Reals ZArith List Lra Lia FunctionalExtensionality Arith.
From Coquelicot Require Import Coquelicot.
From PP Require Import Model.C01 Model.C01R Proofs.C01 Proofs.C01_fun.
Import ListNotations.
Open Scope R_scope.

(* ------------------------------------------------------------------ A @ x (one row) *)
Lemma lin_fst (row : list (nat * R)) (f : nat -> dual (T:=R)) :
  fst (lin_dual ROps row f) = lin_plain ROps row (fun j => fst (f j)).
Proof.
  unfold lin_dual, lin_plain. induction row as [|[j a] row IH]; cbn [fold_right fst snd].
  - reflexivity.
  - rewrite IH. reflexivity.
Qed.

Lemma lin_plain_ext (row : list (nat * R)) (f g : nat -> R) :
  (forall j, f j = g j) -> lin_plain ROps row f = lin_plain ROps row g.
Proof.
  intros H. unfold lin_plain. induction row as [|[j a] row IH]; cbn [fold_right fst snd].
  - reflexivity.
  - rewrite IH, H. reflexivity.
Qed.

Lemma rule_lin (row : list (nat * R)) (U : nat -> R -> R) (dU : nat -> R) (t : R) :
  (forall j, In j (map fst row) -> is_derive (U j) t (dU j)) ->
  is_derive (fun s => lin_plain ROps row (fun j => U j s)) t
            (snd (lin_dual ROps row (fun j => (U j t, dU j)))).
Proof.
  unfold lin_dual, lin_plain. induction row as [|[j a] row IH]; intros H; cbn [fold_right fst snd map] in *.
  - apply @is_derive_const.
  - apply dplus.
    + apply dscal. apply H. left. reflexivity.
    + apply IH. intros k Hk. apply H. right. exact Hk.
Qed.

(* ------------------------------------------------------------------ l2_norm (one block) *)
Lemma sumsq_nonneg (l : list R) : 0 <= sumsq ROps l.
Proof.
  unfold sumsq. induction l as [|a l IH]; simpl in *.
  - lra.
  - pose proof (Rle_0_sqr a) as Ha. unfold Rsqr in Ha. lra.
Qed.

Lemma l2_tol_pos : 0 < l2_tol ROps.
Proof. unfold l2_tol; simpl. lra. Qed.

Lemma rule_sumsq (js : list nat) (U : nat -> R -> R) (dU : nat -> R) (t : R) :
  (forall j, In j js -> is_derive (U j) t (dU j)) ->
  is_derive (fun s => sumsq ROps (map (fun j => U j s) js)) t
            (2 * fold_right (fun j acc => U j t * dU j + acc) 0 js).
Proof.
  unfold sumsq. induction js as [|j js IH]; intros H; simpl.
  - eapply is_derive_eq. apply @is_derive_const. unfold zero; simpl. ring.
  - eapply is_derive_eq.
    + apply dplus.
      * apply (rule_mul_ad (U j) (U j) t (dU j) (dU j)); apply H; left; reflexivity.
      * apply IH. intros k Hk. apply H. right. exact Hk.
    + unf. ring.
Qed.

Lemma l2_fac_sum (js : list nat) (U : nat -> R -> R) (dU : nat -> R) (t nrm : R) :
  nrm <> 0 ->
  fold_right (fun (a : dual (T:=R)) acc => fst a / nrm * snd a + acc) 0
             (map (fun j => (U j t, dU j)) js)
  = fold_right (fun j acc => U j t * dU j + acc) 0 js / nrm.
Proof.
  intros Hn. induction js as [|j js IH]; simpl.
  - field. exact Hn.
  - rewrite IH. field. exact Hn.
Qed.

Lemma rule_l2 (js : list nat) (U : nat -> R -> R) (dU : nat -> R) (t : R) :
  (forall j, In j js -> is_derive (U j) t (dU j)) ->
  l2_tol ROps < l2_val ROps (map (fun j => U j t) js) ->
  is_derive (fun s => l2_val ROps (map (fun j => U j s) js)) t
            (snd (l2_dual ROps (map (fun j => (U j t, dU j)) js))).
Proof.
  intros H Htol.
  pose proof l2_tol_pos as Hpos.
  unfold l2_dual. rewrite map_map. cbn [fst snd].
  replace (map (fun j => fst (U j t, dU j)) js) with (map (fun j => U j t) js)
    by (apply map_ext; reflexivity).
  set (nrm := l2_val ROps (map (fun j => U j t) js)) in *.
  assert (Hn : 0 < nrm) by lra.
  assert (Hss : 0 < sumsq ROps (map (fun j => U j t) js)).
  { destruct (sumsq_nonneg (map (fun j => U j t) js)) as [Hlt|Heq]; [exact Hlt|].
    exfalso. unfold nrm, l2_val in Hn. simpl in Hn. rewrite <- Heq in Hn.
    rewrite sqrt_0 in Hn. lra. }
  replace (oltb ROps (l2_tol ROps) nrm) with true
    by (symmetry; apply ltbR_true; exact Htol).
  change (fun (a : dual (T:=R)) (acc : R) =>
            oadd ROps (omul ROps (odiv ROps (fst a) nrm) (snd a)) acc)
    with (fun (a : dual (T:=R)) acc => fst a / nrm * snd a + acc).
  change (@o0 R ROps) with 0.
  rewrite l2_fac_sum by lra.
  eapply is_derive_eq.
  - unfold l2_val. apply (is_derive_sqrt (fun s => sumsq ROps (map (fun j => U j s) js))).
    + apply rule_sumsq. exact H.
    + exact Hss.
  - fold nrm. change (sqrt (sumsq ROps (map (fun j => U j t) js))) with nrm.
    field. lra.
Qed.

(* ------------------------------------------------------------------ smooth domain *)
Definition psmooth (a : R) (p : pexp R) : Prop :=
  match p with
  | PZ n => a <> 0 \/ (1 <= n)%Z
  | PR _ => 0 < a
  end.

(* entry i of the tree e is evaluated inside the smooth domain of every rule used *)
Fixpoint smooth (e : expr R) (x : env (T:=R)) (i : nat) : Prop :=
  match e with
  | Var _ => True
  | Neg e | AddK e _ | RAddK e _ | SubK e _ | RSubK e _ | MulK e _ | RMulK e _ =>
      smooth e x i
  | Add e1 e2 | Sub e1 e2 | Mul e1 e2 => smooth e1 x i /\ smooth e2 x i
  | Div e1 e2 => smooth e1 x i /\ smooth e2 x i /\ eval_plain ROps e2 x i <> 0
  | RDiv e1 e2 => smooth e1 x i /\ smooth e2 x i /\ eval_plain ROps e1 x i <> 0
  | Pow e1 e2 => smooth e1 x i /\ smooth e2 x i /\ 0 < eval_plain ROps e1 x i
  | RPow e1 e2 => smooth e1 x i /\ smooth e2 x i /\ 0 < eval_plain ROps e2 x i
  | DivK e c => smooth e x i /\ cget ROps c i <> 0
  | RDivK e _ => smooth e x i /\ eval_plain ROps e x i <> 0
  | PowK e p => smooth e x i /\ psmooth (eval_plain ROps e x i) (pget p i)
  | RPowK e c => smooth e x i /\ 0 < cget ROps c i
  | MatMul A e => forall j, In j (map fst (nth i A [])) -> smooth e x j
  | Slice idx e => smooth e x (nth i idx 0%nat)
  | Fun f e => smooth e x i /\ fsmooth f (eval_plain ROps e x i)
  | L2 dim e =>
      if Nat.eqb dim 1 then smooth e x i /\ eval_plain ROps e x i <> 0
      else (forall j, In j (map (fun k => Nat.add (Nat.mul i dim) k) (seq 0 dim)) ->
                      smooth e x j)
           /\ l2_tol ROps < l2_val ROps (block dim i (eval_plain ROps e x))
  | Max e1 e2 =>
      smooth e1 x i /\ smooth e2 x i /\ eval_plain ROps e1 x i <> eval_plain ROps e2 x i
  | MaxKR e c => smooth e x i /\ eval_plain ROps e x i <> cget ROps c i
  | MaxKL c e => smooth e x i /\ cget ROps c i <> eval_plain ROps e x i
  end.

(* ------------------------------------------------------------------ values *)
Lemma fst_d_max (a b : dual (T:=R)) :
  fst (d_max ROps a b) = max_plain ROps (fst a) (fst b).
Proof. unfold d_max, max_plain. destruct (oltb ROps (fst a) (fst b)); reflexivity. Qed.

Ltac vstep :=
  cbn [d_add_ad d_add_k d_neg d_sub_ad d_sub_k d_rsub_k d_mul_s d_mul_a d_mul_ad
       d_powz_k d_powr_k d_pow_k d_pow_ad d_rpow_k d_div_s d_div_a d_div_ad d_rdiv_s
       d_rdiv_a d_rdiv_ad d_rpow_ad d_fun cget pow_plain fst snd].
Ltac vfin :=
  unf; try reflexivity; try (rewrite ?pz_m1; unfold Rdiv; ring).

Theorem value_thm (e : expr R) : forall (x v : env (T:=R)) (i : nat),
  fst (eval_ad ROps e x v i) = eval_plain ROps e x i.
Proof.
  induction e; intros x v i; cbn [eval_ad eval_plain].
  - (* Var *) reflexivity.
  - (* Neg *) vstep. rewrite IHe. vfin.
  - (* Add *) vstep. rewrite IHe1, IHe2. vfin.
  - (* Sub *) vstep. rewrite IHe1, IHe2. vfin.
  - (* Mul *) vstep. rewrite IHe1, IHe2. vfin.
  - (* Div *) vstep. rewrite IHe1, IHe2. vfin.
  - (* Pow *) vstep. rewrite IHe1, IHe2. vfin.
  - (* RDiv *) vstep. rewrite IHe1, IHe2. vfin.
  - (* RPow *) vstep. rewrite IHe1, IHe2. vfin.
  - (* AddK *) vstep. rewrite IHe. vfin.
  - (* RAddK *) vstep. rewrite IHe. vfin.
  - (* SubK *) vstep. rewrite IHe. vfin.
  - (* RSubK *) vstep. rewrite IHe. vfin.
  - (* MulK *) destruct c; vstep; rewrite IHe; vfin.
  - (* RMulK *) destruct c; vstep; rewrite IHe; vfin.
  - (* DivK *) destruct c; vstep; rewrite IHe; vfin.
  - (* RDivK *) destruct c; vstep; rewrite IHe; vfin.
  - (* PowK *) destruct (pget p i); vstep; rewrite IHe; vfin.
  - (* RPowK *) vstep. rewrite IHe. vfin.
  - (* MatMul *) rewrite lin_fst. apply lin_plain_ext. intros j. apply IHe.
  - (* Slice *) apply IHe.
  - (* Fun *) vstep. rewrite IHe. reflexivity.
  - (* L2 *) destruct (Nat.eqb dim 1).
    + vstep. rewrite IHe. reflexivity.
    + unfold l2_dual, block. cbn [fst]. rewrite map_map. f_equal.
      apply map_ext. intros k. apply IHe.
  - (* Max *) rewrite fst_d_max, IHe1, IHe2. reflexivity.
  - (* MaxKR *) rewrite fst_d_max, IHe. reflexivity.
  - (* MaxKL *) rewrite fst_d_max, IHe. reflexivity.
Qed.

(* ------------------------------------------------------------------ Jacobians *)
Lemma shift0 (x v : env (T:=R)) : shift x v 0 = x.
Proof. extensionality k; extensionality i. unfold shift. ring. Qed.

Lemma ad_pair (e : expr R) (x v : env (T:=R)) (i : nat) :
  eval_ad ROps e x v i
  = (eval_plain ROps e (shift x v 0) i, snd (eval_ad ROps e x v i)).
Proof. rewrite shift0, <- (value_thm e x v i). apply surjective_pairing. Qed.

Lemma var_rule (x v : env (T:=R)) (k i : nat) :
  is_derive (fun t => shift x v t k i) 0 (v k i).
Proof. unfold shift. auto_derive. exact I. ring. Qed.

Theorem jacobian_thm (e : expr R) : forall (x v : env (T:=R)) (i : nat),
  smooth e x i ->
  is_derive (fun t => eval_plain ROps e (shift x v t) i) 0 (snd (eval_ad ROps e x v i)).
Proof.
  induction e; intros x v i Hs; cbn [eval_ad eval_plain smooth] in *.
  - (* Var *) apply var_rule.
  - (* Neg *) rewrite (ad_pair e).
    exact (rule_neg _ 0 _ (IHe x v i Hs)).
  - (* Add *) destruct Hs as [H1 H2]. rewrite (ad_pair e1), (ad_pair e2).
    exact (rule_add_ad _ _ 0 _ _ (IHe1 x v i H1) (IHe2 x v i H2)).
  - (* Sub *) destruct Hs as [H1 H2]. rewrite (ad_pair e1), (ad_pair e2).
    exact (rule_sub_ad _ _ 0 _ _ (IHe1 x v i H1) (IHe2 x v i H2)).
  - (* Mul *) destruct Hs as [H1 H2]. rewrite (ad_pair e1), (ad_pair e2).
    exact (rule_mul_ad _ _ 0 _ _ (IHe1 x v i H1) (IHe2 x v i H2)).
  - (* Div *) destruct Hs as [H1 [H2 H3]]. rewrite (ad_pair e1), (ad_pair e2).
    apply (rule_div_ad _ _ 0 _ _ (IHe1 x v i H1) (IHe2 x v i H2)).
    rewrite shift0. exact H3.
  - (* Pow *) destruct Hs as [H1 [H2 H3]]. rewrite (ad_pair e1), (ad_pair e2).
    apply (rule_pow_ad _ _ 0 _ _ (IHe1 x v i H1) (IHe2 x v i H2)).
    rewrite shift0. exact H3.
  - (* RDiv *) destruct Hs as [H1 [H2 H3]]. rewrite (ad_pair e1), (ad_pair e2).
    unfold d_rdiv_ad.
    apply (rule_div_ad _ _ 0 _ _ (IHe2 x v i H2) (IHe1 x v i H1)).
    rewrite shift0. exact H3.
  - (* RPow *) destruct Hs as [H1 [H2 H3]]. rewrite (ad_pair e1), (ad_pair e2).
    unfold d_rpow_ad.
    apply (rule_pow_ad _ _ 0 _ _ (IHe2 x v i H2) (IHe1 x v i H1)).
    rewrite shift0. exact H3.
  - (* AddK *) rewrite (ad_pair e). exact (rule_add_k _ 0 _ (IHe x v i Hs) _).
  - (* RAddK *) rewrite (ad_pair e). exact (rule_radd_k _ 0 _ (IHe x v i Hs) _).
  - (* SubK *) rewrite (ad_pair e). exact (rule_sub_k _ 0 _ (IHe x v i Hs) _).
  - (* RSubK *) rewrite (ad_pair e). exact (rule_rsub_k _ 0 _ (IHe x v i Hs) _).
  - (* MulK *) rewrite (ad_pair e). destruct c; cbn [cget].
    + exact (rule_mul_s _ 0 _ (IHe x v i Hs) _).
    + exact (rule_mul_a _ 0 _ (IHe x v i Hs) _).
  - (* RMulK *) rewrite (ad_pair e). destruct c; cbn [cget].
    + exact (rule_rmul_s _ 0 _ (IHe x v i Hs) _).
    + exact (rule_rmul_a _ 0 _ (IHe x v i Hs) _).
  - (* DivK *) destruct Hs as [H1 H2]. rewrite (ad_pair e). destruct c; cbn [cget].
    + exact (rule_div_s _ 0 _ (IHe x v i H1) _).
    + exact (rule_div_a _ 0 _ (IHe x v i H1) _).
  - (* RDivK *) destruct Hs as [H1 H2]. rewrite (ad_pair e). destruct c; cbn [cget].
    + apply (rule_rdiv_s _ 0 _ (IHe x v i H1)). rewrite shift0. exact H2.
    + apply (rule_rdiv_a _ 0 _ (IHe x v i H1)). rewrite shift0. exact H2.
  - (* PowK *) destruct Hs as [H1 H2]. rewrite (ad_pair e).
    destruct (pget p i); cbn [d_pow_k pow_plain psmooth] in *.
    + apply (rule_powz_k _ 0 _ (IHe x v i H1)). rewrite shift0. exact H2.
    + apply (rule_powr_k _ 0 _ (IHe x v i H1)). rewrite shift0. exact H2.
  - (* RPowK *) destruct Hs as [H1 H2]. rewrite (ad_pair e).
    exact (rule_rpow_k _ 0 _ (IHe x v i H1) _).
  - (* MatMul *)
    replace (eval_ad ROps e x v)
      with (fun j => (eval_plain ROps e (shift x v 0) j, snd (eval_ad ROps e x v j)))
      by (extensionality j; symmetry; apply ad_pair).
    apply (rule_lin (nth i A []) (fun j s => eval_plain ROps e (shift x v s) j)
                    (fun j => snd (eval_ad ROps e x v j)) 0).
    intros j Hj. apply IHe. apply Hs. exact Hj.
  - (* Slice *) apply IHe. exact Hs.
  - (* Fun *) destruct Hs as [H1 H2]. rewrite (ad_pair e).
    apply (rule_fun f _ 0 _ (IHe x v i H1)). rewrite shift0. exact H2.
  - (* L2 *) destruct (Nat.eqb dim 1).
    + destruct Hs as [H1 H2]. rewrite (ad_pair e).
      apply (rule_fun Fabs _ 0 _ (IHe x v i H1)). rewrite shift0. exact H2.
    + destruct Hs as [H1 H2]. unfold block in *.
      replace (eval_ad ROps e x v)
        with (fun j => (eval_plain ROps e (shift x v 0) j, snd (eval_ad ROps e x v j)))
        by (extensionality j; symmetry; apply ad_pair).
      rewrite <- (map_map (fun k => Nat.add (Nat.mul i dim) k)
                          (fun j => (eval_plain ROps e (shift x v 0) j,
                                     snd (eval_ad ROps e x v j)))).
      assert (E : forall s,
                 map (fun k => eval_plain ROps e (shift x v s) (Nat.add (Nat.mul i dim) k))
                     (seq 0 dim)
                 = map (fun j => eval_plain ROps e (shift x v s) j)
                       (map (fun k => Nat.add (Nat.mul i dim) k) (seq 0 dim)))
        by (intros s; rewrite map_map; reflexivity).
      apply (is_derive_ext
               (fun s => l2_val ROps
                           (map (fun j => eval_plain ROps e (shift x v s) j)
                                (map (fun k => Nat.add (Nat.mul i dim) k) (seq 0 dim))))).
      { intros s. rewrite E. reflexivity. }
      apply (rule_l2 _ (fun j s => eval_plain ROps e (shift x v s) j)
                     (fun j => snd (eval_ad ROps e x v j)) 0).
      * intros j Hj. apply IHe. apply H1. exact Hj.
      * cbv beta. rewrite shift0. rewrite map_map. exact H2.
  - (* Max *) destruct Hs as [H1 [H2 H3]]. rewrite (ad_pair e1), (ad_pair e2).
    apply (rule_max _ _ 0 _ _ (IHe1 x v i H1) (IHe2 x v i H2)).
    rewrite shift0. exact H3.
  - (* MaxKR *) destruct Hs as [H1 H2]. rewrite (ad_pair e).
    apply (rule_max _ (fun _ => cget ROps c i) 0 _ 0 (IHe x v i H1)).
    + apply @is_derive_const.
    + rewrite shift0. exact H2.
  - (* MaxKL *) destruct Hs as [H1 H2]. rewrite (ad_pair e).
    apply (rule_max (fun _ => cget ROps c i) (fun t => eval_plain ROps e (shift x v t) i)
                    0 0 (snd (eval_ad ROps e x v i))).
    + apply @is_derive_const.
    + exact (IHe x v i H1).
    + rewrite shift0. exact H2.
Qed.
