(* C23 — lemmas and proofs about PP.Model.C23. *)
From Coq Require Import List ZArith QArith Qabs Bool Arith Lia Lqa Sorted.
Import ListNotations.
From PP Require Import Model.C23.
Close Scope Q_scope.

(* ------------------------------------------------------------------------------------ *)
(* generic list helpers *)
Lemma nth_flat_map_const {A B} (f : A -> list B) (l : list A) (n : nat) (d : B) (da : A) :
  (forall a, In a l -> length (f a) = n) ->
  forall k i, k < length l -> i < n ->
  nth (k * n + i) (flat_map f l) d = nth i (f (nth k l da)) d.
Proof.
  induction l as [|a t IH]; intros H k i Hk Hi; cbn in Hk; [lia|].
  cbn [flat_map]. destruct k as [|k].
  - cbn [Nat.mul Nat.add nth]. apply app_nth1. rewrite H by (left; reflexivity). exact Hi.
  - rewrite app_nth2 by (rewrite H by (left; reflexivity); cbn; lia).
    rewrite H by (left; reflexivity). cbn [nth].
    replace (S k * n + i - n) with (k * n + i) by (cbn; lia).
    apply IH; [intros a' Ha'; apply H; right; exact Ha'|lia|exact Hi].
Qed.

Lemma flat_map_length_const {A B} (f : A -> list B) (l : list A) (n : nat) :
  (forall y, In y l -> length (f y) = n) -> length (flat_map f l) = length l * n.
Proof.
  induction l as [|a t IH]; intros H; cbn [flat_map length]; [reflexivity|].
  rewrite app_length, H by (left; reflexivity).
  rewrite IH by (intros y Hy; apply H; right; exact Hy). cbn. reflexivity.
Qed.

Lemma nth_map_lt {A B} (f : A -> B) (l : list A) (i : nat) (da : A) (db : B) :
  i < length l -> nth i (map f l) db = f (nth i l da).
Proof.
  intros H. rewrite nth_indep with (d' := f da) by (rewrite map_length; exact H).
  apply map_nth.
Qed.

Lemma nth_map_seq {A} (f : nat -> A) (s n c : nat) (d : A) :
  c < n -> nth c (map f (seq s n)) d = f (s + c).
Proof.
  intros H. rewrite nth_indep with (d' := f 0) by (rewrite map_length, seq_length; exact H).
  rewrite map_nth. rewrite seq_nth by exact H. reflexivity.
Qed.

(* ------------------------------------------------------------------------------------ *)
(* rationals *)
Open Scope Q_scope.

Lemma Zpos_of_nat (r : nat) : (1 <= r)%nat -> Z.pos (Pos.of_nat r) = Z.of_nat r.
Proof.
  intros H. rewrite <- positive_nat_Z. rewrite Nat2Pos.id by lia. reflexivity.
Qed.

Lemma theta_div (r i : nat) : (1 <= r)%nat ->
  theta r i == inject_Z (Z.of_nat i) / inject_Z (Z.of_nat r).
Proof.
  intros H. unfold theta. rewrite Qmake_Qdiv. rewrite (Zpos_of_nat r H). reflexivity.
Qed.

Lemma inject_nat_pos (r : nat) : (1 <= r)%nat -> 0 < inject_Z (Z.of_nat r).
Proof. intros H. replace 0 with (inject_Z 0) by reflexivity. rewrite <- Zlt_Qlt. lia. Qed.

Lemma theta_0 r : theta r 0 == 0.
Proof. unfold theta. reflexivity. Qed.

Lemma theta_r r : (1 <= r)%nat -> theta r r == 1.
Proof.
  intros H. rewrite (theta_div r r H). pose proof (inject_nat_pos r H). field. lra.
Qed.

Lemma theta_step r i : (1 <= r)%nat ->
  theta r (S i) - theta r i == 1 / inject_Z (Z.of_nat r).
Proof.
  intros H. rewrite !(theta_div r _ H). pose proof (inject_nat_pos r H).
  rewrite Nat2Z.inj_succ. unfold Z.succ. rewrite inject_Z_plus.
  change (inject_Z 1) with 1. field. lra.
Qed.

Lemma theta_range r i : (1 <= r)%nat -> (i <= r)%nat -> 0 <= theta r i <= 1.
Proof.
  intros H Hi. rewrite (theta_div r i H). pose proof (inject_nat_pos r H) as Hp.
  assert (0 <= inject_Z (Z.of_nat i)) as H0.
  { replace 0 with (inject_Z 0) by reflexivity. rewrite <- Zle_Qle. lia. }
  assert (inject_Z (Z.of_nat i) <= inject_Z (Z.of_nat r)) as H1.
  { rewrite <- Zle_Qle. lia. }
  split.
  - apply Qle_shift_div_l; [exact Hp|]. lra.
  - apply Qle_shift_div_r; [exact Hp|]. lra.
Qed.

Lemma lerp_0 a b : lerp 0 a b == a.
Proof. unfold lerp. ring. Qed.
Lemma lerp_1 a b : lerp 1 a b == b.
Proof. unfold lerp. ring. Qed.
Lemma lerp_diff t s a b : lerp t a b - lerp s a b == (t - s) * (b - a).
Proof. unfold lerp. ring. Qed.

Global Instance lerp_compat : Proper (Qeq ==> Qeq ==> Qeq ==> Qeq) lerp.
Proof. intros t t' Ht a a' Ha b b' Hb. unfold lerp. rewrite Ht, Ha, Hb. reflexivity. Qed.

(* vectors *)
Definition vscale (s : Q) (a : v3) : v3 := let '(a1, a2, a3) := a in (s * a1, s * a2, s * a3).
Definition vadd : v3 -> v3 -> v3 := vmap2 Qplus.
Definition vsum (l : list v3) : v3 := fold_right vadd vzero l.

(* p is the convex combination (1-t) a + t b with 0 <= t <= 1 *)
Definition between (a b p : v3) : Prop := exists t, 0 <= t <= 1 /\ veq p (vlerp t a b).

Lemma veq_refl a : veq a a.
Proof. destruct a as [[a1 a2] a3]. cbn. repeat split; reflexivity. Qed.

Lemma vlerp_t0 t a b : t == 0 -> veq (vlerp t a b) a.
Proof.
  intros H. destruct a as [[a1 a2] a3], b as [[b1 b2] b3]. cbn.
  rewrite !H. repeat split; apply lerp_0.
Qed.

Lemma vlerp_t1 t a b : t == 1 -> veq (vlerp t a b) b.
Proof.
  intros H. destruct a as [[a1 a2] a3], b as [[b1 b2] b3]. cbn.
  rewrite !H. repeat split; apply lerp_1.
Qed.

Lemma vlerp_diff t s a b d : t - s == d ->
  veq (vsub (vlerp t a b) (vlerp s a b)) (vscale d (vsub b a)).
Proof.
  intros H. destruct a as [[a1 a2] a3], b as [[b1 b2] b3]. cbn.
  rewrite <- H. repeat split; apply lerp_diff.
Qed.

(* ------------------------------------------------------------------------------------ *)
(* A. refine_grid_1d: the children of a cell *)
Lemma children_length r a b : length (children r a b) = r.
Proof. unfold children. rewrite map_length, seq_length. reflexivity. Qed.

Lemma children_nth r a b i : (i < r)%nat ->
  nth i (children r a b) (vzero, vzero) = (vlerp (theta r i) a b, vlerp (theta r (S i)) a b).
Proof.
  intros H. unfold children.
  apply (nth_map_seq (fun i => (vlerp (theta r i) a b, vlerp (theta r (S i)) a b)) 0 r i _ H).
Qed.

Theorem refine_1d_children (r : nat) (a b : v3) :
  (1 <= r)%nat ->
  length (children r a b) = r /\
  (* tiling: starts at a, ends at b, consecutive children share their end point *)
  veq (fst (nth 0 (children r a b) (vzero, vzero))) a /\
  veq (snd (nth (r - 1) (children r a b) (vzero, vzero))) b /\
  (forall i, (S i < r)%nat ->
     snd (nth i (children r a b) (vzero, vzero)) = fst (nth (S i) (children r a b) (vzero, vzero))) /\
  (* every child is 1/r of the parent (as a vector: same direction, length / r) *)
  (forall i, (i < r)%nat ->
     let ch := nth i (children r a b) (vzero, vzero) in
     veq (vsub (snd ch) (fst ch)) (vscale (1 / inject_Z (Z.of_nat r)) (vsub b a))) /\
  (* nesting: both end points of every child are convex combinations of a and b *)
  (forall i, (i < r)%nat ->
     let ch := nth i (children r a b) (vzero, vzero) in
     between a b (fst ch) /\ between a b (snd ch)).
Proof.
  intros Hr. split; [apply children_length|]. split; [|split; [|split; [|split]]].
  - rewrite children_nth by lia. cbn [fst]. apply vlerp_t0, theta_0.
  - rewrite children_nth by lia. cbn [snd]. apply vlerp_t1.
    replace (S (r - 1)) with r by lia. apply theta_r, Hr.
  - intros i Hi. rewrite !children_nth by lia. reflexivity.
  - intros i Hi ch. unfold ch. rewrite children_nth by exact Hi. cbn [fst snd].
    apply vlerp_diff, theta_step, Hr.
  - intros i Hi ch. unfold ch. rewrite children_nth by exact Hi. cbn [fst snd]. split.
    + exists (theta r i). split; [apply theta_range; lia|apply veq_refl].
    + exists (theta r (S i)). split; [apply theta_range; lia|apply veq_refl].
Qed.

(* the refined grid is the concatenation of the children; the cell map j -> j / r *)
Theorem refine_1d_cells (nodes : list v3) (cells : list (nat * nat)) (r : nat) :
  (1 <= r)%nat ->
  length (refine_spec nodes cells r) = (length cells * r)%nat /\
  (forall k i, (k < length cells)%nat -> (i < r)%nat ->
     nth (k * r + i) (refine_spec nodes cells r) (vzero, vzero)
     = nth i (children r (nth (fst (nth k cells (0, 0)%nat)) nodes vzero)
                         (nth (snd (nth k cells (0, 0)%nat)) nodes vzero)) (vzero, vzero) /\
     parent_1d r (k * r + i) = k) /\
  (forall j, (j < length cells * r)%nat -> (parent_1d r j < length cells)%nat).
Proof.
  intros Hr. unfold refine_spec. split; [|split].
  - apply flat_map_length_const. intros; apply children_length.
  - intros k i Hk Hi. split.
    + rewrite (nth_flat_map_const _ cells r (vzero, vzero) (0, 0)%nat); auto.
      intros; apply children_length.
    + unfold parent_1d. rewrite Nat.div_add_l by lia. rewrite Nat.div_small by exact Hi. lia.
  - intros j Hj. unfold parent_1d. apply Nat.div_lt_upper_bound; lia.
Qed.

(* ------------------------------------------------------------------------------------ *)
(* B. remesh_1d *)
Definition mtheta (m i : nat) : Q := (Z.of_nat i # Pos.of_nat (m - 1)).

Lemma remesh_nth start en m i : (i < m)%nat ->
  nth i (remesh_nodes start en m) vzero = vlerp (theta (m - 1) i) en start.
Proof.
  intros H. unfold remesh_nodes.
  apply (nth_map_seq (fun i => vlerp (Z.of_nat i # Pos.of_nat (m - 1)) en start) 0 m i _ H).
Qed.

Theorem remesh_1d_nodes (start en : v3) (m : nat) :
  (2 <= m)%nat ->
  length (remesh_nodes start en m) = m /\
  (* the new grid spans exactly the old domain *)
  veq (nth 0 (remesh_nodes start en m) vzero) en /\
  veq (nth (m - 1) (remesh_nodes start en m) vzero) start /\
  (* equal cells: every cell vector is 1/(m-1) of the domain vector *)
  (forall i, (S i < m)%nat ->
     veq (vsub (nth (S i) (remesh_nodes start en m) vzero) (nth i (remesh_nodes start en m) vzero))
         (vscale (1 / inject_Z (Z.of_nat (m - 1))) (vsub start en))) /\
  (* all nodes inside the old domain *)
  (forall i, (i < m)%nat -> between en start (nth i (remesh_nodes start en m) vzero)).
Proof.
  intros Hm. split; [unfold remesh_nodes; rewrite map_length, seq_length; reflexivity|].
  split; [|split; [|split]].
  - rewrite remesh_nth by lia. apply vlerp_t0, theta_0.
  - rewrite remesh_nth by lia. apply vlerp_t1, theta_r. lia.
  - intros i Hi. rewrite !remesh_nth by lia. apply vlerp_diff, theta_step. lia.
  - intros i Hi. rewrite remesh_nth by lia. exists (theta (m - 1) i).
    split; [apply theta_range; lia|apply veq_refl].
Qed.

(* ------------------------------------------------------------------------------------ *)
(* E. extrude_grid *)
Close Scope Q_scope.

Lemma cell_map_shape nc layers :
  length (cell_map nc layers) = nc /\
  forall c, c < nc -> length (nth c (cell_map nc layers) []) = layers /\
    forall k, k < layers -> nth k (nth c (cell_map nc layers) []) 0 = c + k * nc.
Proof.
  unfold cell_map. split; [rewrite map_length, seq_length; reflexivity|].
  intros c Hc.
  rewrite (nth_map_seq (fun c => map (fun k => c + k * nc) (seq 0 layers)) 0 nc c [] Hc).
  split; [rewrite map_length, seq_length; reflexivity|].
  intros k Hk. apply (nth_map_seq (fun k => 0 + c + k * nc) 0 layers k 0 Hk).
Qed.

(* every new cell belongs to exactly one row (parent) of the cell map *)
Theorem extrude_cell_map (nc layers : nat) :
  length (cell_map nc layers) = nc /\
  (forall c, c < nc -> length (nth c (cell_map nc layers) []) = layers) /\
  (forall c k, c < nc -> k < layers ->
     nth k (nth c (cell_map nc layers) []) 0 = c + k * nc /\ c + k * nc < nc * layers) /\
  (forall j, j < nc * layers ->
     j mod nc < nc /\ j / nc < layers /\
     nth (j / nc) (nth (j mod nc) (cell_map nc layers) []) 0 = j /\
     forall c k, c < nc -> k < layers -> c + k * nc = j -> c = j mod nc /\ k = j / nc).
Proof.
  destruct (cell_map_shape nc layers) as [H1 H2].
  split; [exact H1|]. split; [intros c Hc; apply (H2 c Hc)|]. split.
  - intros c k Hc Hk. split; [apply (H2 c Hc), Hk|]. nia.
  - intros j Hj. assert (nc <> 0) as Hn by lia.
    pose proof (Nat.mod_upper_bound j nc Hn) as Hm.
    assert (j / nc < layers) as Hd by (apply Nat.div_lt_upper_bound; lia).
    split; [exact Hm|]. split; [exact Hd|]. split.
    + destruct (H2 (j mod nc) Hm) as [_ H3]. rewrite (H3 (j / nc) Hd).
      pose proof (Nat.div_mod j nc Hn). lia.
    + intros c k Hc Hk E. subst j. split.
      * rewrite Nat.mod_add by exact Hn. rewrite Nat.mod_small by exact Hc. reflexivity.
      * rewrite Nat.div_add by exact Hn. rewrite Nat.div_small by exact Hc. lia.
Qed.

Open Scope Q_scope.

(* telescoping sum of the layer heights for monotone z *)
Fixpoint increasing (z : list Q) : Prop :=
  match z with
  | a :: ((b :: _) as t) => a <= b /\ increasing t
  | _ => True
  end.
Fixpoint decreasing (z : list Q) : Prop :=
  match z with
  | a :: ((b :: _) as t) => b <= a /\ decreasing t
  | _ => True
  end.

Lemma sum_heights_inc z : increasing z -> sumQ (layer_heights z) == last z 0 - hd 0 z.
Proof.
  induction z as [|a t IH]; [intros _; cbn; ring|].
  destruct t as [|b t']; [intros _; cbn; ring|].
  intros [Hab Ht]. specialize (IH Ht).
  change (layer_heights (a :: b :: t')) with (Qabs (b - a) :: layer_heights (b :: t')).
  cbn [sumQ fold_right]. fold (sumQ (layer_heights (b :: t'))). rewrite IH.
  rewrite Qabs_pos by lra. change (last (a :: b :: t') 0) with (last (b :: t') 0).
  cbn [hd]. ring.
Qed.

Lemma sum_heights_dec z : decreasing z -> sumQ (layer_heights z) == hd 0 z - last z 0.
Proof.
  induction z as [|a t IH]; [intros _; cbn; ring|].
  destruct t as [|b t']; [intros _; cbn; ring|].
  intros [Hab Ht]. specialize (IH Ht).
  change (layer_heights (a :: b :: t')) with (Qabs (b - a) :: layer_heights (b :: t')).
  cbn [sumQ fold_right]. fold (sumQ (layer_heights (b :: t'))). rewrite IH.
  rewrite Qabs_neg by lra. change (last (a :: b :: t') 0) with (last (b :: t') 0).
  cbn [hd]. ring.
Qed.

Lemma sumQ_scale v l : sumQ (map (Qmult v) l) == v * sumQ l.
Proof.
  induction l as [|x t IH]; cbn [map sumQ fold_right]; [ring|].
  fold (sumQ (map (Qmult v) t)). fold (sumQ t). rewrite IH. ring.
Qed.

Lemma last_hd_inc z : increasing z -> hd 0 z <= last z 0.
Proof.
  induction z as [|a t IH]; [intros _; cbn; lra|].
  destruct t as [|b t']; [intros _; cbn; lra|].
  intros [Hab Ht]. specialize (IH Ht). change (last (a :: b :: t') 0) with (last (b :: t') 0).
  cbn [hd] in *. lra.
Qed.

Lemma last_hd_dec z : decreasing z -> last z 0 <= hd 0 z.
Proof.
  induction z as [|a t IH]; [intros _; cbn; lra|].
  destruct t as [|b t']; [intros _; cbn; lra|].
  intros [Hab Ht]. specialize (IH Ht). change (last (a :: b :: t') 0) with (last (b :: t') 0).
  cbn [hd] in *. lra.
Qed.

(* children of a cell of measure v have measures v*|dz_k|; they sum to v * height *)
Theorem extrude_measure (v : Q) (z : list Q) :
  increasing z \/ decreasing z ->
  sumQ (map (Qmult v) (layer_heights z)) == v * Qabs (last z 0 - hd 0 z) /\
  length (layer_heights z) = (length z - 1)%nat.
Proof.
  intros H. split.
  - rewrite sumQ_scale. destruct H as [H|H].
    + rewrite (sum_heights_inc z H). pose proof (last_hd_inc z H). rewrite Qabs_pos by lra. reflexivity.
    + rewrite (sum_heights_dec z H). pose proof (last_hd_dec z H). rewrite Qabs_neg by lra. ring.
  - unfold layer_heights. rewrite map_length. clear H v.
    induction z as [|a t IH]; [reflexivity|]. destruct t as [|b t']; [reflexivity|].
    change (consecutive (a :: b :: t')) with ((a, b) :: consecutive (b :: t')).
    cbn [length] in *. lia.
Qed.

Lemma forallb_Qle0 z : forallb (fun x => Qle_bool 0 x) z = true <-> Forall (fun x => 0 <= x) z.
Proof.
  rewrite forallb_forall, Forall_forall. split; intros H x Hx; specialize (H x Hx);
    apply Qle_bool_iff; exact H.
Qed.
Lemma forallb_Qge0 z : forallb (fun x => Qle_bool x 0) z = true <-> Forall (fun x => x <= 0) z.
Proof.
  rewrite forallb_forall, Forall_forall. split; intros H x Hx; specialize (H x Hx);
    apply Qle_bool_iff; exact H.
Qed.

(* the guard, and the node layers: node i of layer k keeps its xy and gets z[k] *)
Theorem extrude_guard_and_nodes (nodes : list v3) (nc : nat) (z : list Q) :
  ((Forall (fun x => 0 <= x) z \/ Forall (fun x => x <= 0) z) ->
     extrude_grid nodes nc z = Ok (extrude_nodes nodes z, cell_map nc (length z - 1))) /\
  (~ (Forall (fun x => 0 <= x) z \/ Forall (fun x => x <= 0) z) ->
     extrude_grid nodes nc z = Err ValueErr) /\
  length (extrude_nodes nodes z) = (length z * length nodes)%nat /\
  (forall k i, (k < length z)%nat -> (i < length nodes)%nat ->
     nth (k * length nodes + i) (extrude_nodes nodes z) vzero
     = (fst (fst (nth i nodes vzero)), snd (fst (nth i nodes vzero)), nth k z 0)).
Proof.
  unfold extrude_grid, sign_ok. split; [|split; [|split]].
  - intros [H|H].
    + apply forallb_Qle0 in H. rewrite H. reflexivity.
    + apply forallb_Qge0 in H. rewrite H, orb_true_r. reflexivity.
  - intros H. destruct (forallb (fun x => Qle_bool 0 x) z) eqn:E1.
    + exfalso. apply H. left. apply forallb_Qle0, E1.
    + destruct (forallb (fun x => Qle_bool x 0) z) eqn:E2; [|reflexivity].
      exfalso. apply H. right. apply forallb_Qge0, E2.
  - unfold extrude_nodes. apply flat_map_length_const. intros; apply map_length.
  - intros k i Hk Hi. unfold extrude_nodes.
    rewrite (nth_flat_map_const _ z (length nodes) vzero 0) by (auto; intros; apply map_length).
    rewrite (nth_map_lt _ nodes i vzero vzero Hi).
    destruct (nth i nodes vzero) as [[x y] w]. reflexivity.
Qed.

(* ------------------------------------------------------------------------------------ *)
(* D. structured_refinement, 1-D *)
Close Scope Q_scope.

Definition first_inside (coarse : list (Q * Q)) (k : nat) (x : Q) : Prop :=
  inside1 (nth k coarse (0, 0)%Q) x = true /\
  forall k', k' < k -> inside1 (nth k' coarse (0, 0)%Q) x = false.

Lemma sr_loop_spec coarse : forall test cols left,
  sr_loop coarse test = (cols, left) ->
  length cols = length coarse /\
  (forall k j, k < length coarse ->
     (In j (nth k cols []) <-> exists x, In (j, x) test /\ first_inside coarse k x)) /\
  (forall p, In p left <-> In p test /\
     forall k, k < length coarse -> inside1 (nth k coarse (0, 0)%Q) (snd p) = false).
Proof.
  induction coarse as [|c t IH]; intros test cols left H; cbn [sr_loop] in H.
  - inversion H; subst. split; [reflexivity|]. split.
    + intros k j Hk. cbn in Hk. lia.
    + intros p. split; [intros Hp; split; [exact Hp|intros k Hk; cbn in Hk; lia]|tauto].
  - destruct (sr_loop t (filter (fun p => negb (inside1 c (snd p))) test)) as [cols' left'] eqn:E.
    inversion H; subst; clear H. destruct (IH _ _ _ E) as [H1 [H2 H3]].
    split; [cbn; rewrite H1; reflexivity|]. split.
    + intros k j Hk. destruct k as [|k].
      * cbn [nth]. rewrite in_map_iff. split.
        -- intros [[j' x] [Ej Hin]]. cbn in Ej. subst j'. apply filter_In in Hin.
           destruct Hin as [Hin Hc]. exists x. split; [exact Hin|]. split; [exact Hc|].
           intros k' Hk'. lia.
        -- intros [x [Hin [Hc _]]]. exists (j, x). split; [reflexivity|].
           apply filter_In. split; [exact Hin|exact Hc].
      * cbn [nth]. cbn [length] in Hk. rewrite (H2 k j) by lia. split.
        -- intros [x [Hin [Hc Hf]]]. apply filter_In in Hin. destruct Hin as [Hin Hn].
           cbn [snd] in Hn. apply negb_true_iff in Hn.
           exists x. split; [exact Hin|]. split; [exact Hc|].
           intros k' Hk'. destruct k' as [|k']; [exact Hn|]. apply Hf. lia.
        -- intros [x [Hin [Hc Hf]]]. exists x. split.
           ++ apply filter_In. split; [exact Hin|]. cbn [snd]. apply negb_true_iff.
              apply (Hf 0). lia.
           ++ split; [exact Hc|]. intros k' Hk'. apply (Hf (S k')). lia.
    + intros p. rewrite H3, filter_In. split.
      * intros [[Hin Hn] Hf]. split; [exact Hin|]. intros k Hk. destruct k as [|k].
        -- apply negb_true_iff, Hn.
        -- apply Hf. cbn [length] in Hk. lia.
      * intros [Hin Hf]. split; [split; [exact Hin|]|].
        -- apply negb_true_iff. apply (Hf 0). cbn; lia.
        -- intros k Hk. apply (Hf (S k)). cbn; lia.
Qed.

Lemma in_combine_seq {A} (l : list A) (d : A) j x :
  In (j, x) (combine (seq 0 (length l)) l) <-> j < length l /\ x = nth j l d.
Proof.
  split.
  - intros H. apply (In_nth _ _ (0, d)) in H. destruct H as [n [Hn E]].
    rewrite combine_length, seq_length, Nat.min_id in Hn.
    rewrite combine_nth in E by (rewrite seq_length; reflexivity).
    rewrite seq_nth in E by exact Hn. inversion E; subst. split; [exact Hn|reflexivity].
  - intros [Hj ->].
    replace (j, nth j l d) with (nth j (combine (seq 0 (length l)) l) (0, d)).
    + apply nth_In. rewrite combine_length, seq_length, Nat.min_id. exact Hj.
    + rewrite combine_nth by (rewrite seq_length; reflexivity). rewrite seq_nth by exact Hj. reflexivity.
Qed.

Theorem structured_refinement_1d_spec (coarse : list (Q * Q)) (centres : list Q) :
  (* result: one column per coarse cell; fine cell j sits in column k exactly when k is the
     first coarse cell with lo < centre_j <= hi; hence in exactly one column *)
  (forall cols, structured_refinement_1d coarse centres = Ok cols ->
     length cols = length coarse /\
     (forall k j, k < length coarse ->
        (In j (nth k cols []) <-> j < length centres /\ first_inside coarse k (nth j centres 0%Q))) /\
     (forall j, j < length centres -> exists k, k < length coarse /\ In j (nth k cols []) /\
        forall k', k' < length coarse -> In j (nth k' cols []) -> k' = k)) /\
  (* the assertion fails exactly when there are too few fine cells or some fine centre lies
     in no coarse cell *)
  (structured_refinement_1d coarse centres = Err AssertErr <->
     length centres <= length coarse \/
     exists j, j < length centres /\
       forall k, k < length coarse -> inside1 (nth k coarse (0, 0)%Q) (nth j centres 0%Q) = false) /\
  (forall e, structured_refinement_1d coarse centres = Err e -> e = AssertErr).
Proof.
  unfold structured_refinement_1d.
  destruct (length centres <=? length coarse) eqn:El.
  { apply Nat.leb_le in El. split; [intros cols H; discriminate|]. split.
    - split; [intros _; left; exact El|reflexivity].
    - intros e H; inversion H; reflexivity. }
  apply Nat.leb_gt in El.
  destruct (sr_loop coarse (combine (seq 0 (length centres)) centres)) as [cols left] eqn:E.
  destruct (sr_loop_spec _ _ _ _ E) as [H1 [H2 H3]].
  assert (Hcol : forall k j, k < length coarse ->
     (In j (nth k cols []) <-> j < length centres /\ first_inside coarse k (nth j centres 0%Q))).
  { intros k j Hk. rewrite (H2 k j Hk). split.
    - intros [x [Hin Hf]]. apply (in_combine_seq centres 0%Q) in Hin. destruct Hin as [Hj ->].
      split; assumption.
    - intros [Hj Hf]. exists (nth j centres 0%Q). split; [|exact Hf].
      apply (in_combine_seq centres 0%Q). split; [exact Hj|reflexivity]. }
  destruct left as [|p left'].
  - split; [|split].
    + intros cols' H; inversion H; subst cols'; clear H. split; [exact H1|]. split; [exact Hcol|].
      intros j Hj.
      (* j is not left over, so some coarse cell contains its centre: take the first *)
      assert (Hex : exists k, k < length coarse /\
                inside1 (nth k coarse (0, 0)%Q) (nth j centres 0%Q) = true).
      { destruct (existsb (fun k => inside1 (nth k coarse (0, 0)%Q) (nth j centres 0%Q))
                          (seq 0 (length coarse))) eqn:Ex.
        - apply existsb_exists in Ex. destruct Ex as [k [Hk Hi]]. apply in_seq in Hk.
          exists k. split; [lia|exact Hi].
        - exfalso. assert (In (j, nth j centres 0%Q) []) as Hn; [|inversion Hn].
          apply H3. split; [apply (in_combine_seq centres 0%Q); split; [exact Hj|reflexivity]|].
          intros k Hk. cbn [snd].
          destruct (inside1 (nth k coarse (0, 0)%Q) (nth j centres 0%Q)) eqn:Ei; [|reflexivity].
          assert (existsb (fun k => inside1 (nth k coarse (0, 0)%Q) (nth j centres 0%Q))
                          (seq 0 (length coarse)) = true) as Ht.
          { apply existsb_exists. exists k. split; [apply in_seq; lia|exact Ei]. }
          congruence. }
      destruct Hex as [k0 [Hk0 Hi0]].
      assert (Hfirst : exists k, k <= k0 /\ first_inside coarse k (nth j centres 0%Q)).
      { clear Hk0. induction k0 as [k0 IHk] using lt_wf_ind.
        destruct (existsb (fun k' => inside1 (nth k' coarse (0, 0)%Q) (nth j centres 0%Q))
                          (seq 0 k0)) eqn:Ex.
        - apply existsb_exists in Ex. destruct Ex as [k' [Hk' Hi']]. apply in_seq in Hk'.
          destruct (IHk k' ltac:(lia) Hi') as [k [Hle Hf]]. exists k. split; [lia|exact Hf].
        - exists k0. split; [lia|]. split; [exact Hi0|]. intros k' Hk'.
          destruct (inside1 (nth k' coarse (0, 0)%Q) (nth j centres 0%Q)) eqn:Ei; [|reflexivity].
          assert (existsb (fun k' => inside1 (nth k' coarse (0, 0)%Q) (nth j centres 0%Q))
                          (seq 0 k0) = true) as Ht.
          { apply existsb_exists. exists k'. split; [apply in_seq; lia|exact Ei]. }
          congruence. }
      destruct Hfirst as [k [Hle Hf]]. exists k. split; [lia|]. split.
      * apply Hcol; [lia|]. split; assumption.
      * intros k' Hk' Hin. apply Hcol in Hin; [|exact Hk']. destruct Hin as [_ [Hi' Hf']].
        destruct Hf as [Hi Hf].
        destruct (lt_eq_lt_dec k' k) as [[Hlt|Heq]|Hgt]; [|exact Heq|].
        -- rewrite (Hf k' Hlt) in Hi'. discriminate.
        -- rewrite (Hf' k Hgt) in Hi. discriminate.
    + split; [intros H; discriminate|]. intros [Hl|[j [Hj Hn]]]; [lia|]. exfalso.
      assert (In (j, nth j centres 0%Q) []) as Hin; [|inversion Hin].
      apply H3. split; [apply (in_combine_seq centres 0%Q); split; [exact Hj|reflexivity]|].
      intros k Hk. apply Hn, Hk.
    + intros e H; discriminate.
  - split; [intros cols' H; discriminate|]. split.
    + split; [|reflexivity]. intros _. right. destruct p as [j x].
      assert (In (j, x) ((j, x) :: left')) as Hin by (left; reflexivity).
      apply H3 in Hin. destruct Hin as [Hin Hn].
      apply (in_combine_seq centres 0%Q) in Hin. destruct Hin as [Hj ->].
      exists j. split; [exact Hj|]. intros k Hk. apply (Hn k Hk).
    + intros e H; inversion H; reflexivity.
Qed.

(* ------------------------------------------------------------------------------------ *)
(* C. refine_triangle_grid *)
Definition joins (p : nat * nat) (u v : nat) : Prop := p = (u, v) \/ p = (v, u).

Lemma common_node_spec p q x y z :
  x <> y -> y <> z -> x <> z -> joins p x y -> joins q y z -> common_node p q = y.
Proof.
  intros Hxy Hyz Hxz [-> | ->] [-> | ->]; unfold common_node; cbn [fst snd sortn fold_right insn];
    repeat match goal with
           | |- context [?u <=? ?v] => destruct (Nat.leb_spec u v); cbn [insn]
           end;
    cbn [first_dup];
    repeat match goal with
           | |- context [?u =? ?v] => destruct (Nat.eqb_spec u v)
           end; cbn [hd]; try reflexivity; try lia.
Qed.

Lemma joins_sym p u v : joins p u v -> joins p v u.
Proof. intros [H|H]; [right|left]; exact H. Qed.

Definition centres (nodes : list v3) (fn : list (nat * nat)) : list v3 :=
  map (fun f => vmid (nth (fst f) nodes vzero) (nth (snd f) nodes vzero)) fn.

Lemma new_nodes_corner nodes fn n :
  n < length nodes -> nth n (nodes ++ centres nodes fn) vzero = nth n nodes vzero.
Proof. intros H. apply app_nth1, H. Qed.

Lemma new_nodes_mid nodes fn f :
  f < length fn ->
  nth (length nodes + f) (nodes ++ centres nodes fn) vzero
  = vmid (nth (fst (nth f fn (0, 0))) nodes vzero) (nth (snd (nth f fn (0, 0))) nodes vzero).
Proof.
  intros H. rewrite app_nth2 by lia. replace (length nodes + f - length nodes) with f by lia.
  unfold centres. rewrite (nth_map_lt _ fn f (0, 0) vzero H). reflexivity.
Qed.

Open Scope Q_scope.

(* a point of the closed parent triangle used by the refinement: a vertex or an edge
   midpoint (convex combinations with weights in {0, 1/2, 1}) *)
Definition vertex_or_midpoint (A B C P : v3) : Prop :=
  veq P A \/ veq P B \/ veq P C \/ veq P (vmid A B) \/ veq P (vmid B C) \/ veq P (vmid C A).

Lemma vmid_comm A B : veq (vmid A B) (vmid B A).
Proof.
  destruct A as [[a1 a2] a3], B as [[b1 b2] b3]. cbn. repeat split; field.
Qed.

Definition quarter (A B C : v3) (t : v3 * v3 * v3) : Prop :=
  let '(P, Q, R) := t in
  4 * area2 P Q R == area2 A B C /\
  vertex_or_midpoint A B C P /\ vertex_or_midpoint A B C Q /\ vertex_or_midpoint A B C R.

Lemma vom_A A B C : vertex_or_midpoint A B C A.
Proof. left. apply veq_refl. Qed.
Lemma vom_B A B C : vertex_or_midpoint A B C B.
Proof. right; left. apply veq_refl. Qed.
Lemma vom_C A B C : vertex_or_midpoint A B C C.
Proof. right; right; left. apply veq_refl. Qed.
Lemma vom_AB A B C : vertex_or_midpoint A B C (vmid A B).
Proof. right; right; right; left. apply veq_refl. Qed.
Lemma vom_BA A B C : vertex_or_midpoint A B C (vmid B A).
Proof. right; right; right; left. apply vmid_comm. Qed.
Lemma vom_BC A B C : vertex_or_midpoint A B C (vmid B C).
Proof. right; right; right; right; left. apply veq_refl. Qed.
Lemma vom_CB A B C : vertex_or_midpoint A B C (vmid C B).
Proof. right; right; right; right; left. apply vmid_comm. Qed.
Lemma vom_CA A B C : vertex_or_midpoint A B C (vmid C A).
Proof. right; right; right; right; right. apply veq_refl. Qed.
Lemma vom_AC A B C : vertex_or_midpoint A B C (vmid A C).
Proof. right; right; right; right; right. apply vmid_comm. Qed.

Global Hint Resolve vom_A vom_B vom_C vom_AB vom_BA vom_BC vom_CB vom_CA vom_AC : vom.

Theorem refine_triangle_cell (nodes : list v3) (fn : list (nat * nat)) (f0 f1 f2 a b c : nat) :
  a <> b -> b <> c -> a <> c ->
  (a < length nodes)%nat -> (b < length nodes)%nat -> (c < length nodes)%nat ->
  (f0 < length fn)%nat -> (f1 < length fn)%nat -> (f2 < length fn)%nat ->
  joins (nth f0 fn (0, 0)%nat) a b -> joins (nth f1 fn (0, 0)%nat) b c ->
  joins (nth f2 fn (0, 0)%nat) c a ->
  let x := nodes ++ centres nodes fn in
  let A := nth a nodes vzero in let B := nth b nodes vzero in let C := nth c nodes vzero in
  let ch := refine_tri_cell fn (length nodes) (f0, f1, f2) in
  length ch = 4%nat /\ Forall (fun t => quarter A B C (tri_pts x t)) ch.
Proof.
  intros Hab Hbc Hac Ha Hb Hc H0 H1 H2 J0 J1 J2 x A B C ch.
  split; [reflexivity|].
  unfold ch, refine_tri_cell.
  rewrite (common_node_spec _ _ c b a (not_eq_sym Hbc) (not_eq_sym Hab) (not_eq_sym Hac)
             (joins_sym _ _ _ J1) (joins_sym _ _ _ J0)).
  rewrite (common_node_spec _ _ a c b Hac (not_eq_sym Hbc) Hab
             (joins_sym _ _ _ J2) (joins_sym _ _ _ J1)).
  rewrite (common_node_spec _ _ b a c (not_eq_sym Hab) Hac Hbc
             (joins_sym _ _ _ J0) (joins_sym _ _ _ J2)).
  apply Forall_cons; [|apply Forall_cons; [|apply Forall_cons; [|apply Forall_cons; [|apply Forall_nil]]]];
    unfold quarter, tri_pts, x;
    rewrite ?new_nodes_mid by assumption; rewrite ?new_nodes_corner by assumption;
    fold A B C;
    destruct J0 as [E0|E0], J1 as [E1|E1], J2 as [E2|E2]; rewrite ?E0, ?E1, ?E2;
    cbn [fst snd]; fold A B C;
    (split; [|split; [|split]]; auto with vom);
    destruct A as [[a1 a2] a3], B as [[b1 b2] b3], C as [[c1 c2] c3]; cbn; field.
Qed.

Close Scope Q_scope.

(* the global structure: four consecutive children per cell, parent = j / 4 *)
Theorem refine_triangle_structure (nodes : list v3) (fn : list (nat * nat)) (cf : list tri) :
  let '(x, tris, parent) := refine_triangle_grid nodes fn cf in
  x = nodes ++ centres nodes fn /\
  length tris = length cf * 4 /\ length parent = length cf * 4 /\
  (forall k i, k < length cf -> i < 4 ->
     nth (k * 4 + i) tris (0, 0, 0) = nth i (refine_tri_cell fn (length nodes) (nth k cf (0, 0, 0))) (0, 0, 0) /\
     nth (k * 4 + i) parent 0 = k) /\
  (forall j, j < length cf * 4 -> nth j parent 0 = j / 4 /\ j / 4 < length cf).
Proof.
  unfold refine_triangle_grid. split; [reflexivity|].
  assert (Hl1 : forall c, In c cf -> length (refine_tri_cell fn (length nodes) c) = 4).
  { intros [[f0 f1] f2] _. reflexivity. }
  assert (Hl2 : forall k, In k (seq 0 (length cf)) -> length (repeat k 4) = 4).
  { intros; apply repeat_length. }
  assert (Hnth : forall k i, k < length cf -> i < 4 ->
     nth (k * 4 + i) (flat_map (fun k => repeat k 4) (seq 0 (length cf))) 0 = k).
  { intros k i Hk Hi.
    rewrite (nth_flat_map_const _ (seq 0 (length cf)) 4 0 0 Hl2) by (rewrite ?seq_length; assumption).
    rewrite seq_nth by exact Hk. cbn [Nat.add].
    destruct i as [|[|[|[|i]]]]; cbn; try reflexivity. lia. }
  split; [apply flat_map_length_const, Hl1|].
  split; [rewrite (flat_map_length_const _ _ 4 Hl2), seq_length; reflexivity|].
  split.
  - intros k i Hk Hi. split; [|apply Hnth; assumption].
    apply (nth_flat_map_const _ cf 4 (0, 0, 0) (0, 0, 0) Hl1); assumption.
  - intros j Hj. assert (j / 4 < length cf) as Hd by (apply Nat.div_lt_upper_bound; lia).
    split; [|exact Hd].
    pose proof (Nat.div_mod j 4 ltac:(lia)) as E. pose proof (Nat.mod_upper_bound j 4 ltac:(lia)) as Hm.
    rewrite E at 1. rewrite (Nat.mul_comm 4). apply Hnth; assumption.
Qed.
