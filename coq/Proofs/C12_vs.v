(* C12 — vector-source matrix of Tpfa.discretize: hydrostatic consistency.
   For a constant vector source g and the pressure p = g.x + b (first vsd components), the
   pressure flux and the vector-source flux cancel on every face, on ANY grid. *)
From Coq Require Import List ZArith Bool Arith Lia Reals Lra.
Import ListNotations.
From PP Require Import Model.C12 Proofs.C12.

Local Open Scope R_scope.

Notation rvector_source := (vector_source R 0 1 Rplus Rminus Rmult Rdiv IZR).
Notation rbpvs := (bound_pressure_vector_source R 0 Rminus).

Lemma lsum_app {A} (g : A -> R) l1 l2 : lsum g (l1 ++ l2) = lsum g l1 + lsum g l2.
Proof. induction l1 as [|a l IH]; cbn [app]; [rewrite lsum_nil; lra | rewrite !lsum_cons, IH; lra]. Qed.

Lemma lsum_flat_map {A B} (h : A -> list B) (g : B -> R) l :
  lsum g (flat_map h l) = lsum (fun a => lsum g (h a)) l.
Proof.
  induction l as [|a l IH]; [reflexivity|]. cbn [flat_map]. rewrite lsum_app, lsum_cons, IH. reflexivity.
Qed.

(* g.v over the first n components *)
Definition gdot (n : nat) (g : nat -> R) (v : vec R) : R :=
  lsum (fun k => g k * vnth R v k) (seq 0 n).

Lemma vnth_vsub x y k : vnth R (rvsub x y) k = vnth R x k - vnth R y k.
Proof.
  destruct x as [[x1 x2] x3], y as [[y1 y2] y3]. unfold vnth, vsub, vx, vy, vz. cbn [fst snd].
  destruct k as [|[|k]]; reflexivity.
Qed.

Lemma gdot_vsub n g x y : gdot n g (rvsub x y) = gdot n g x - gdot n g y.
Proof.
  unfold gdot. induction (seq 0 n) as [|k l IH]; [rewrite !lsum_nil; lra|].
  rewrite !lsum_cons, IH, vnth_vsub. lra.
Qed.

Section VS.
  Variable I : input R.
  Variable n : nat.                 (* vector_source_dim *)
  Variable g : nat -> R.            (* constant vector source, component k *)
  Variable gv : nat -> R.           (* the cell-wise vector, index c * n + k *)
  Hypothesis gv_const : forall c k, (k < n)%nat -> gv (c * n + k)%nat = g k.

  Lemma row_apply_vs f :
    row_apply (rvector_source I n) gv f =
    lsum (fun e => rt_flux I f * IZR (ts e) * gdot n g (rdvec I e)) (on_face I f).
  Proof.
    unfold row_apply, vector_source, on_face. rewrite lsum_flat_map, <- lsum_filter.
    apply lsum_ext. intros e _. rewrite lsum_map. unfold mrow, mcol, mval. cbn [fst snd].
    destruct (Nat.eqb_spec (tf e) f) as [->|_].
    - unfold gdot. rewrite <- lsum_scal. apply lsum_ext. intros k Hk. apply in_seq in Hk.
      rewrite gv_const by lia. ring.
    - apply lsum_zero. reflexivity.
  Qed.

  Definition hydro (b : R) (x : vec R) : R := gdot n g x + b.

  Theorem hydrostatic_interior b f c1 c2 s bv :
    interior I f c1 c2 s ->
    face_flux I (fun c => hydro b (ccen I c)) bv f + row_apply (rvector_source I n) gv f = 0.
  Proof.
    intros [H [Hb Hn]]. unfold face_flux.
    rewrite row_apply_flux, row_apply_vs, H, row_apply_bflux_notin by exact Hb.
    rewrite !lsum_cons, !lsum_nil. unfold dvec, hydro. rewrite !gdot_vsub.
    unfold tc, ts, tg, geo. cbn [fst snd]. rewrite opp_IZR. ring.
  Qed.

  Theorem hydrostatic_dirichlet b f c s bv :
    boundary I f c s -> neu' R I f = false -> dir' R I f = true ->
    bv f = hydro b (fcen I f) ->
    face_flux I (fun c => hydro b (ccen I c)) bv f + row_apply (rvector_source I n) gv f = 0.
  Proof.
    intros Hbd Hn Hd Hv. pose proof (bsgn_boundary I _ _ _ Hbd) as Hsg.
    destruct Hbd as [[H Hg] [Hin Hnd]]. unfold face_flux.
    rewrite row_apply_flux, row_apply_vs, H, (row_apply_bflux_in I bv f Hnd Hin), Hsg, Hv.
    rewrite !lsum_cons, !lsum_nil. unfold dvec, hydro, t_flux, t_b. rewrite Hn, Hd, !gdot_vsub.
    unfold tc, ts, tg, geo. cbn [fst snd]. ring.
  Qed.

  Theorem hydrostatic_neumann b f c s bv :
    boundary I f c s -> neu' R I f = true -> bv f = 0 ->
    face_flux I (fun c => hydro b (ccen I c)) bv f + row_apply (rvector_source I n) gv f = 0.
  Proof.
    intros Hbd Hn Hv. pose proof (bsgn_boundary I _ _ _ Hbd) as Hsg.
    destruct Hbd as [[H Hg] [Hin Hnd]]. unfold face_flux.
    rewrite row_apply_flux, row_apply_vs, H, (row_apply_bflux_in I bv f Hnd Hin), Hsg, Hv.
    rewrite !lsum_cons, !lsum_nil. unfold t_flux. rewrite Hn. ring.
  Qed.
End VS.
