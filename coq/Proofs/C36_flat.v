(* C36 — the flat (indptr / indices / data) arithmetic of _slice_matrix yields exactly the
   rows of the row-level model [slice_csr]. *)
From Coq Require Import List ZArith Bool Arith Lia Permutation Sorted.
Import ListNotations.
From PP Require Import Lib.Csr Model.C36 Model.C36_flat Proofs.C36.
From PP Require Model.C35 Proofs.C35_csr.

(* ---------------- scatter: small algebra ---------------- *)
Lemma scatter_S {E} (z : E) : forall ps out cs,
    scatter (z :: out) (map S ps) cs = z :: scatter out ps cs.
Proof.
  induction ps as [|p ps IH]; intros out cs; [reflexivity|].
  destruct cs as [|c cs]; [reflexivity|]. cbn [map scatter upd]. apply IH.
Qed.

Lemma upd_map {E F} (f : E -> F) : forall l i v, map f (upd l i v) = upd (map f l) i (f v).
Proof. induction l as [|a r IH]; intros [|i] v; cbn; try reflexivity. f_equal. apply IH. Qed.

Lemma scatter_map {E F} (f : E -> F) : forall idx out vals,
    map f (scatter out idx vals) = scatter (map f out) idx (map f vals).
Proof.
  induction idx as [|i idx IH]; intros out vals; [reflexivity|].
  destruct vals as [|v vals]; [reflexivity|]. cbn [scatter map]. rewrite IH, upd_map. reflexivity.
Qed.

Lemma upd_comm {E} : forall (l : list E) a b x y, a <> b ->
    upd (upd l a x) b y = upd (upd l b y) a x.
Proof.
  induction l as [|h t IH]; intros [|a] [|b] x y Hab; cbn; try reflexivity; try lia.
  f_equal. apply IH. lia.
Qed.

(* scatter over a list of (index, value) pairs *)
Fixpoint scatterp {E} (out : list E) (l : list (nat * E)) : list E :=
  match l with [] => out | (i, v) :: r => scatterp (upd out i v) r end.

Lemma scatter_scatterp {E} : forall idx (out vals : list E),
    length idx = length vals -> scatter out idx vals = scatterp out (combine idx vals).
Proof.
  induction idx as [|i idx IH]; intros out [|v vals] H; try discriminate; [reflexivity|].
  cbn [scatter combine scatterp]. apply IH. cbn in H. lia.
Qed.

Lemma scatterp_perm {E} (l l' : list (nat * E)) :
  Permutation l l' -> NoDup (map fst l) -> forall out, scatterp out l = scatterp out l'.
Proof.
  induction 1 as [|[i v] l l' HP IH|[i v] [j w] l|l l' l'' H1 IH1 H2 IH2]; intros Hnd out.
  - reflexivity.
  - cbn. apply IH. inversion Hnd; assumption.
  - cbn. rewrite upd_comm; [reflexivity|]. cbn in Hnd. inversion Hnd as [|? ? Hn _]; subst.
    intros ->. apply Hn. left. reflexivity.
  - rewrite IH1 by exact Hnd. apply IH2.
    eapply Permutation_NoDup; [apply Permutation_map; exact H1|exact Hnd].
Qed.

(* ---------------- writes at strictly increasing positions keep the concatenation order *)
Lemma concat_all_nil {E} (l : list (list E)) : Forall (fun r => r = []) l -> concat l = [].
Proof. induction 1 as [|a r Ha _ IH]; cbn; [reflexivity|]. rewrite Ha, IH. reflexivity. Qed.

Lemma upd_app_r {E} : forall (pre suf : list E) p v, length pre <= p ->
    upd (pre ++ suf) p v = pre ++ upd suf (p - length pre) v.
Proof.
  induction pre as [|a pre IH]; intros suf p v H; cbn [app length].
  - rewrite Nat.sub_0_r. reflexivity.
  - destruct p as [|p]; [cbn in H; lia|]. cbn [upd]. f_equal. cbn. apply IH. cbn in H. lia.
Qed.

Lemma upd_split {E} : forall (suf : list E) q v, q < length suf ->
    upd suf q v = firstn q suf ++ v :: skipn (S q) suf.
Proof.
  induction suf as [|a suf IH]; intros [|q] v H; cbn in H; try lia; cbn; [reflexivity|].
  f_equal. apply IH. lia.
Qed.

Lemma Forall_firstn' {A} (P : A -> Prop) : forall n l, Forall P l -> Forall P (firstn n l).
Proof.
  induction n as [|n IH]; intros l H; [constructor|]. destruct l; [constructor|].
  inversion H; subst. cbn. constructor; auto.
Qed.

Lemma Forall_skipn' {A} (P : A -> Prop) : forall n l, Forall P l -> Forall P (skipn n l).
Proof.
  induction n as [|n IH]; intros l H; [exact H|]. destruct l; [constructor|].
  inversion H; subst. cbn. auto.
Qed.

Lemma concat_scatter_sorted {E} : forall ps (vs : list (list E)) pre suf,
    length ps = length vs -> StronglySorted lt ps ->
    Forall (fun p => length pre <= p < length pre + length suf) ps ->
    Forall (fun r => r = []) suf ->
    concat (scatter (pre ++ suf) ps vs) = concat pre ++ concat vs.
Proof.
  induction ps as [|p ps IH]; intros vs pre suf Hl Hs Hb He.
  - destruct vs; [|discriminate]. cbn. rewrite concat_app, (concat_all_nil suf He), !app_nil_r. reflexivity.
  - destruct vs as [|v vs]; [discriminate|]. cbn [scatter].
    inversion Hb as [|? ? [Hp1 Hp2] Hb']; subst. inversion Hs as [|? ? Hs' Hlt]; subst.
    rewrite upd_app_r by exact Hp1. rewrite upd_split by lia.
    set (q := p - length pre).
    replace (pre ++ firstn q suf ++ v :: skipn (S q) suf)
      with ((pre ++ firstn q suf ++ [v]) ++ skipn (S q) suf)
      by (rewrite <- !app_assoc; reflexivity).
    assert (Hf : length (firstn q suf) = q) by (rewrite firstn_length; unfold q; lia).
    rewrite IH.
    + rewrite !concat_app. cbn [concat].
      rewrite (concat_all_nil (firstn q suf)) by (apply Forall_firstn'; exact He).
      rewrite app_nil_r, app_nil_l. rewrite <- app_assoc. reflexivity.
    + cbn in Hl. lia.
    + exact Hs'.
    + rewrite !app_length, Hf, skipn_length. cbn [length].
      rewrite Forall_forall in *. intros r Hr. specialize (Hb' r Hr). specialize (Hlt r Hr).
      unfold q. lia.
    + apply Forall_skipn'. exact He.
Qed.

(* ---------------- argsort ---------------- *)
Section Sort.
  Variable key : nat -> nat.
  Notation klt := (fun a b => key a < key b).

  Lemma ins_perm k l : Permutation (ins_by key k l) (k :: l).
  Proof.
    induction l as [|a r IH]; cbn [ins_by]; [apply Permutation_refl|].
    destruct (key k <? key a); [apply Permutation_refl|].
    eapply perm_trans; [apply perm_skip; exact IH|apply perm_swap].
  Qed.

  Lemma ins_sorted k l :
    StronglySorted klt l -> Forall (fun a => key a <> key k) l -> StronglySorted klt (ins_by key k l).
  Proof.
    induction l as [|a r IH]; intros Hs Hd; cbn [ins_by].
    - repeat constructor.
    - inversion Hs as [|? ? Hs' Hlt]; subst. inversion Hd as [|? ? Ha Hd']; subst.
      destruct (key k <? key a) eqn:Hc.
      + apply Nat.ltb_lt in Hc. constructor; [exact Hs|]. constructor; [exact Hc|].
        rewrite Forall_forall in *. intros x Hx. specialize (Hlt x Hx). cbn in *. lia.
      + apply Nat.ltb_ge in Hc. constructor; [apply IH; assumption|].
        eapply Permutation_Forall; [apply Permutation_sym, ins_perm|].
        constructor; [cbn; lia|exact Hlt].
  Qed.

  Lemma fold_ins_perm : forall l acc,
      Permutation (fold_left (fun acc k => ins_by key k acc) l acc) (l ++ acc).
  Proof.
    induction l as [|k l IH]; intros acc; cbn [fold_left app]; [apply Permutation_refl|].
    eapply perm_trans; [apply IH|].
    eapply perm_trans; [apply Permutation_app_head, ins_perm|].
    apply Permutation_sym, Permutation_middle.
  Qed.

  Lemma fold_ins_sorted : forall l acc,
      NoDup (map key (l ++ acc)) -> StronglySorted klt acc ->
      StronglySorted klt (fold_left (fun acc k => ins_by key k acc) l acc).
  Proof.
    induction l as [|k l IH]; intros acc Hnd Hs; cbn [fold_left]; [exact Hs|].
    apply IH.
    - eapply Permutation_NoDup; [|exact Hnd]. apply Permutation_map. cbn [app].
      eapply perm_trans; [apply Permutation_middle|].
      apply Permutation_app_head, Permutation_sym, ins_perm.
    - apply ins_sorted; [exact Hs|]. cbn [app map] in Hnd. inversion Hnd as [|? ? Hn _]; subst.
      apply Forall_forall. intros a Ha Heq. apply Hn. rewrite <- Heq.
      apply in_map. apply in_or_app. right. exact Ha.
  Qed.
End Sort.

Lemma map_nth_seq_self {A} (d : A) (l : list A) : map (fun i => nth i l d) (seq 0 (length l)) = l.
Proof.
  apply (nth_ext _ _ d d).
  - rewrite map_length, seq_length. reflexivity.
  - intros i Hi. rewrite map_length, seq_length in Hi. rewrite nth_map_seq by lia. reflexivity.
Qed.

Lemma argsort_perm keys : Permutation (argsort keys) (seq 0 (length keys)).
Proof. unfold argsort. rewrite <- (app_nil_r (seq 0 (length keys))) at 2. apply fold_ins_perm. Qed.

Lemma argsort_sorted keys :
  NoDup keys ->
  StronglySorted lt (map (fun k => nth k keys 0) (argsort keys)).
Proof.
  intros Hnd.
  assert (H : StronglySorted (fun a b => nth a keys 0 < nth b keys 0) (argsort keys)).
  { unfold argsort. apply fold_ins_sorted; [|constructor].
    rewrite app_nil_r, map_nth_seq_self. exact Hnd. }
  induction H as [|a l Hs IH Hf]; cbn; constructor; [exact IH|].
  apply Forall_forall. intros x Hx. apply in_map_iff in Hx. destruct Hx as [b [<- Hb]].
  rewrite Forall_forall in Hf. auto.
Qed.

(* ---------------- the theorem ---------------- *)
Lemma cumsum_from_N : forall l a, cumsum_from a l = C35.cumsumN a l.
Proof. induction l as [|x l IH]; intros a; cbn; [reflexivity|]. rewrite IH. reflexivity. Qed.

Lemma take_seq_seg {E} (d : E) l a n : a + n <= length l -> take d l (seq a n) = seg a (a + n) l.
Proof. apply (C35_csr.gather_seq d l n a). Qed.

Lemma take_flat_map {E X} (d : E) l (f : X -> list nat) xs :
  take d l (flat_map f xs) = concat (map (fun x => take d l (f x)) xs).
Proof. apply (C35_csr.gather_flat_map d l f xs). Qed.

Theorem slice_matrix_flat_rows s A :
  wf_slicer s -> NoDup (rng s) -> wf A = true -> nmaj A = dsize s ->
  rows (slice_matrix_flat s A)
  = scatter (repeat [] (rsize s)) (rng s) (map (fun d => nth d (rows A) []) (dom s)) /\
  nmaj (slice_matrix_flat s A) = rsize s /\ nmin (slice_matrix_flat s A) = nmin A.
Proof.
  intros [Hl [Hd [Hr _]]] Hnd Hwf Hn. split; [|split; reflexivity].
  pose proof (C35_csr.wf_wfP A Hwf) as W.
  set (ks := argsort (rng s)).
  set (ip := indptr A).
  set (cnt := fun k => nth (S (nth k (dom s) 0)) ip 0 - nth (nth k (dom s) 0) ip 0).
  set (rowk := fun k => nth (nth k (dom s) 0) (rows A) []).
  assert (Hperm : Permutation ks (seq 0 (length (rng s)))) by apply argsort_perm.
  assert (Hks : forall k, In k ks -> k < length (rng s)).
  { intros k Hk. eapply Permutation_in in Hk; [|exact Hperm]. apply in_seq in Hk. lia. }
  assert (Hdk : forall k, In k ks -> nth k (dom s) 0 < nmaj A).
  { intros k Hk. rewrite Hn. rewrite Forall_forall in Hd. apply Hd, nth_In. rewrite Hl. auto. }
  (* a stored row = a segment of the entry list *)
  assert (Hrow : forall k, In k ks ->
            rowk k = seg (nth (nth k (dom s) 0) ip 0) (nth (nth k (dom s) 0) ip 0 + cnt k) (entries A)
            /\ length (rowk k) = cnt k
            /\ nth (nth k (dom s) 0) ip 0 + cnt k <= length (entries A)).
  { intros k Hk. specialize (Hdk k Hk).
    destruct (C35_csr.line_bounds A _ W Hdk) as [B1 B2]. fold ip in B1, B2.
    assert (Hsum : nth (nth k (dom s) 0) ip 0 + cnt k = nth (S (nth k (dom s) 0)) ip 0)
      by (unfold cnt; lia).
    unfold rowk, rows. rewrite C35_csr.rows_of_nth by (rewrite (C35_csr.wf_len A W); lia).
    fold ip. rewrite Hsum. split; [reflexivity|]. split; [|exact B2].
    rewrite C35_csr.seg_length by assumption. unfold cnt. reflexivity. }
  (* the permuted scatter equals the scatter in the given order *)
  set (Rs := scatter (repeat [] (rsize s)) (map (fun k => nth k (rng s) 0) ks) (map rowk ks)).
  assert (HRs : Rs = scatter (repeat [] (rsize s)) (rng s) (map (fun d => nth d (rows A) []) (dom s))).
  { assert (Hc : forall l, combine (map (fun k => nth k (rng s) 0) l) (map rowk l)
                           = map (fun k => (nth k (rng s) 0, rowk k)) l).
    { induction l as [|a l IHl]; cbn; [reflexivity|]. rewrite IHl. reflexivity. }
    assert (Hrhs : combine (rng s) (map (fun d => nth d (rows A) []) (dom s))
                   = map (fun k => (nth k (rng s) 0, rowk k)) (seq 0 (length (rng s)))).
    { rewrite <- Hc. rewrite map_nth_seq_self. f_equal.
      unfold rowk. rewrite <- Hl.
      rewrite <- (map_map (fun k => nth k (dom s) 0) (fun d => nth d (rows A) [])).
      rewrite map_nth_seq_self. reflexivity. }
    unfold Rs. rewrite scatter_scatterp by (rewrite !map_length; reflexivity).
    rewrite (scatter_scatterp (rng s)) by (rewrite map_length; auto).
    rewrite Hrhs, Hc. apply scatterp_perm.
    - apply Permutation_map. exact Hperm.
    - rewrite map_map. cbn [fst]. eapply Permutation_NoDup.
      + apply Permutation_map, Permutation_sym. exact Hperm.
      + rewrite map_nth_seq_self. exact Hnd. }
  rewrite <- HRs.
  (* the flat result is  0 :: cumsum (map length Rs)  over  concat Rs *)
  unfold rows.
  set (sub := flat_map (fun k => seq (nth (nth k (dom s) 0) ip 0) (cnt k)) ks).
  assert (Hip : indptr (slice_matrix_flat s A)
                = cumsum_from 0 (scatter (repeat 0 (S (rsize s)))
                                         (map (fun k => S (nth k (rng s) 0)) ks) (map cnt ks)))
    by reflexivity.
  assert (Hent : entries (slice_matrix_flat s A) = concat (map rowk ks)).
  { change (entries (slice_matrix_flat s A))
      with (combine (take 0 (indices A) sub) (take 0%Z (data A) sub)).
    transitivity (take (0, 0%Z) (entries A) sub).
    - unfold take, entries. generalize sub.
      intros l. induction l as [|a l IHl]; cbn; [reflexivity|]. rewrite IHl. f_equal.
      symmetry. apply combine_nth. symmetry. apply (C35_csr.wf_data A W).
    - unfold sub. rewrite take_flat_map. f_equal. apply map_ext_in. intros k Hk.
      destruct (Hrow k Hk) as [E1 [_ E3]]. rewrite E1. apply take_seq_seg. exact E3. }
  rewrite Hip.
  rewrite Hent.
  replace (map (fun k => S (nth k (rng s) 0)) ks) with (map S (map (fun k => nth k (rng s) 0) ks))
    by (rewrite map_map; reflexivity).
  change (repeat 0 (S (rsize s))) with (0 :: repeat 0 (rsize s)). rewrite scatter_S.
  cbn [cumsum_from]. rewrite cumsum_from_N.
  assert (Hlen : scatter (repeat 0 (rsize s)) (map (fun k => nth k (rng s) 0) ks) (map cnt ks)
                 = map (@length _) Rs).
  { assert (Hrep : forall n, map (@length (nat * Z)) (repeat [] n) = repeat 0 n).
    { induction n as [|n IHn]; cbn; [reflexivity|]. rewrite IHn. reflexivity. }
    unfold Rs. rewrite scatter_map, map_map, Hrep. f_equal.
    apply map_ext_in. intros k Hk. destruct (Hrow k Hk) as [_ [E2 _]]. symmetry. exact E2. }
  rewrite Hlen.
  assert (Hcat : concat (map rowk ks) = concat Rs).
  { unfold Rs. symmetry.
    apply (concat_scatter_sorted (map (fun k => nth k (rng s) 0) ks) (map rowk ks) [] (repeat [] (rsize s))).
    - rewrite !map_length. reflexivity.
    - apply argsort_sorted. exact Hnd.
    - apply Forall_forall. intros p Hp. apply in_map_iff in Hp. destruct Hp as [k [<- Hk]].
      cbn [length]. rewrite repeat_length. rewrite Forall_forall in Hr. split; [lia|].
      apply Hr, nth_In. auto.
    - apply Forall_forall. intros r Hr'. apply repeat_spec in Hr'. exact Hr'. }
  rewrite Hcat. apply (C35_csr.rows_of_concat Rs [] 0). reflexivity.
Qed.

(* the row-level model of Model/C36.v is what the flat arithmetic computes *)
Theorem slice_matrix_flat_refines s A :
  wf_slicer s -> onto s = false -> NoDup (rng s) -> wf A = true -> nmaj A = dsize s ->
  slice_csr s (rows A) = Ok (rows (slice_matrix_flat s A)) /\
  nmaj (slice_matrix_flat s A) = rsize s /\ nmin (slice_matrix_flat s A) = nmin A.
Proof.
  intros Hwf Hon Hnd HA Hn.
  destruct (slice_matrix_flat_rows s A Hwf Hnd HA Hn) as [Hrows Hdims]. split; [|exact Hdims].
  destruct Hwf as [Hl [Hd [Hr Ho]]]. unfold slice_csr, crow.
  pose proof (C35_csr.rows_length A (C35_csr.wf_wfP A HA)) as Hlen.
  rewrite (gather_all _ (rows A) (dom s) []).
  2:{ apply Forall_forall. intros i Hi. rewrite Forall_forall in Hd. specialize (Hd i Hi).
      rewrite Hlen, Hn. exact Hd. }
  rewrite Hon, (forallb_ltb _ _ Hr). cbn [negb]. rewrite Hl, Nat.eqb_refl. cbn [negb].
  rewrite (has_dup_false _ Hnd). rewrite Hrows. reflexivity.
Qed.
