(* C14 — gluing of sub-discretisations and partial updates, over the reals.
   The local discretisation matrices are arbitrary (local row, global column) -> R
   functions; the kernel's locality is a hypothesis. *)
From Coq Require Import List Arith Bool Lia Reals Lra.
Import ListNotations.
From PP Require Import Model.C14.
Local Open Scope R_scope.

Definition lmat := nat -> nat -> R.
Definition part := (subproblem * lmat)%type.

Definition sumR (l : list R) : R := fold_right Rplus 0 l.

(* (face_map . zero_rows_outside(F)(D))[f, c]: local rows k whose global face l2g[k] is f
   and lies in F *)
Definition contrib_from (s : nat) (l2g F : list nat) (D : lmat) (f c : nat) : R :=
  sumR (map (fun kg => if Nat.eqb (snd kg) f && memb (snd kg) F then D (fst kg) c else 0)
            (combine (seq s (length l2g)) l2g)).

Definition contrib (p : part) : lmat :=
  contrib_from 0 (l2g_faces (fst p)) (faces_in_subgrid (fst p)) (snd p).

(* the loop over the subproblems; in the shortcut branch (all faces in this subgrid) the
   local result is added without the identity mappings, otherwise through face_map *)
Definition step (nf : nat) (acc : lmat) (p : part) : lmat :=
  if takes_shortcut nf (fst p) then fun f c => acc f c + contrib p f c
  else fun f c => acc f c + contrib p f c.

(* the loop before the repair: the shortcut REPLACED the running sum *)
Definition step_unrepaired (nf : nat) (acc : lmat) (p : part) : lmat :=
  if takes_shortcut nf (fst p) then contrib p else fun f c => acc f c + contrib p f c.

Definition assemble_unrepaired (nf : nat) (ps : list part) : lmat :=
  fun f c => fold_left (step_unrepaired nf) ps (fun _ _ => 0) f c
             / INR (nth f (num_face_repetitions (map fst ps)) 0%nat).

Definition assemble (nf : nat) (ps : list part) : lmat :=
  fun f c => fold_left (step nf) ps (fun _ _ => 0) f c
             / INR (nth f (num_face_repetitions (map fst ps)) 0%nat).

(* mapping the active-grid result to the full grid, zeroing the rows outside the active
   faces, then storing: update mode replaces the rows of the active faces only *)
Definition to_global (ext_faces active : list nat) (A : lmat) : lmat :=
  contrib_from 0 ext_faces active A.

Definition stored (update : bool) (old glob : lmat) (active : list nat) : lmat :=
  fun f c => if update then (if memb f active then glob f c else old f c) else glob f c.

(* ================================================================ lemmas *)

Lemma memb_In : forall x l, memb x l = true <-> In x l.
Proof.
  intros x l. unfold memb. rewrite existsb_exists. split.
  - intros [y [Hy E]]. apply Nat.eqb_eq in E. subst. exact Hy.
  - intros H. exists x. split; [exact H|apply Nat.eqb_refl].
Qed.

Lemma nodupb_NoDup : forall l, nodupb l = true -> NoDup l.
Proof.
  induction l as [|x l IH]; intros H; [constructor|].
  cbn [nodupb] in H. apply andb_true_iff in H. destruct H as [H1 H2].
  constructor; [|apply IH; exact H2].
  intros Hin. apply memb_In in Hin. rewrite Hin in H1. discriminate.
Qed.

Lemma contrib_from_zero : forall l2g s F D f c, ~ In f l2g -> contrib_from s l2g F D f c = 0.
Proof.
  induction l2g as [|g l IH]; intros s F D f c H; [reflexivity|].
  unfold contrib_from in *. cbn [length seq combine map sumR fold_right fst snd].
  destruct (Nat.eqb_spec g f) as [E|E]; [exfalso; apply H; left; exact E|].
  cbn [andb]. fold (sumR (map (fun kg => if Nat.eqb (snd kg) f && memb (snd kg) F then D (fst kg) c else 0)
                          (combine (seq (S s) (length l)) l))).
  rewrite (IH (S s) F D f c); [lra|]. intros Hin. apply H. right. exact Hin.
Qed.

(* one subproblem contributes the global row on its own faces and nothing elsewhere *)
Lemma contrib_from_spec : forall (G : lmat) l2g s F D f c, NoDup l2g ->
  (forall j, (j < length l2g)%nat -> In (nth j l2g 0%nat) F -> D (s + j)%nat c = G (nth j l2g 0%nat) c) ->
  contrib_from s l2g F D f c = if memb f l2g && memb f F then G f c else 0.
Proof.
  intros G. induction l2g as [|g l IH]; intros s F D f c ND L; [reflexivity|].
  inversion ND as [|? ? Hg ND']; subst.
  unfold contrib_from. cbn [length seq combine map sumR fold_right fst snd].
  fold (sumR (map (fun kg => if Nat.eqb (snd kg) f && memb (snd kg) F then D (fst kg) c else 0)
               (combine (seq (S s) (length l)) l))).
  change (sumR (map (fun kg => if Nat.eqb (snd kg) f && memb (snd kg) F then D (fst kg) c else 0)
               (combine (seq (S s) (length l)) l))) with (contrib_from (S s) l F D f c).
  destruct (Nat.eqb_spec g f) as [E|E].
  - subst g. rewrite contrib_from_zero by exact Hg.
    assert (M : memb f (f :: l) = true) by (apply memb_In; left; reflexivity). rewrite M.
    cbn [andb]. destruct (memb f F) eqn:MF; [|lra].
    specialize (L 0%nat ltac:(simpl; lia)). cbn [nth] in L. rewrite Nat.add_0_r in L.
    rewrite L by (apply memb_In; exact MF). lra.
  - cbn [andb]. rewrite (IH (S s) F D f c ND').
    + assert (M : memb f (g :: l) = memb f l).
      { unfold memb. cbn [existsb]. destruct (Nat.eqb_spec f g); [congruence|reflexivity]. }
      rewrite M. lra.
    + intros j Hj Hin. specialize (L (S j) ltac:(simpl; lia)). cbn [nth] in L.
      replace (S s + j)%nat with (s + S j)%nat by lia. apply L. exact Hin.
Qed.

Lemma bincount_nth : forall l f, nth f (bincount l) 0%nat = count_occ Nat.eq_dec l f.
Proof.
  intros l f. unfold bincount. set (m := fold_right Nat.max 0%nat l).
  assert (Hmax : forall x, In x l -> (x <= m)%nat).
  { unfold m. clear. induction l as [|y l IH]; intros x H; [contradiction|].
    cbn [fold_right]. destruct H as [H|H]; [subst; lia|]. specialize (IH x H). lia. }
  destruct (le_lt_dec (S m) f) as [H|H].
  - rewrite nth_overflow by (rewrite map_length, seq_length; exact H).
    symmetry. apply count_occ_not_In. intros Hin. specialize (Hmax f Hin). lia.
  - rewrite (nth_indep _ 0%nat ((fun f0 => count_occ Nat.eq_dec l f0) 0%nat))
      by (rewrite map_length, seq_length; exact H).
    rewrite map_nth. rewrite seq_nth by exact H. reflexivity.
Qed.

Lemma count_occ_concat : forall (ls : list (list nat)) f,
  count_occ Nat.eq_dec (concat ls) f = fold_right plus 0%nat (map (fun l => count_occ Nat.eq_dec l f) ls).
Proof.
  induction ls as [|l ls IH]; intros f; [reflexivity|].
  cbn [concat map fold_right]. rewrite count_occ_app, IH. reflexivity.
Qed.

Lemma count_occ_nodup : forall l f, NoDup l ->
  count_occ Nat.eq_dec l f = if memb f l then 1%nat else 0%nat.
Proof.
  intros l f ND. destruct (memb f l) eqn:M.
  - apply memb_In in M. apply NoDup_count_occ' with (decA := Nat.eq_dec) in M; assumption.
  - apply count_occ_not_In. intros Hin. apply memb_In in Hin. congruence.
Qed.

(* ================================================================ theorems *)

Section Glue.
  Variable G : lmat.          (* the one-piece discretisation *)
  Variable nf : nat.

  (* locality of the kernel: on the faces a subproblem is responsible for, its local
     discretisation (columns mapped to the global numbering) equals the global one *)
  Definition local_ok (p : part) : Prop :=
    forall k c, (k < length (l2g_faces (fst p)))%nat ->
      In (nth k (l2g_faces (fst p)) 0%nat) (faces_in_subgrid (fst p)) ->
      snd p k c = G (nth k (l2g_faces (fst p)) 0%nat) c.

  Definition part_ok (p : part) : Prop :=
    NoDup (l2g_faces (fst p)) /\ NoDup (faces_in_subgrid (fst p)) /\
    (forall f, In f (faces_in_subgrid (fst p)) -> In f (l2g_faces (fst p))).

  Lemma contrib_spec : forall p f c, part_ok p -> local_ok p ->
    contrib p f c = if memb f (faces_in_subgrid (fst p)) then G f c else 0.
  Proof.
    intros p f c [ND [_ SUB]] L. unfold contrib.
    rewrite (contrib_from_spec G) by (auto; intros j Hj Hin; apply L; assumption).
    destruct (memb f (faces_in_subgrid (fst p))) eqn:MF; [|rewrite andb_false_r; reflexivity].
    apply memb_In in MF. apply SUB in MF. apply memb_In in MF. rewrite MF. reflexivity.
  Qed.

  Definition hits (f : nat) (ps : list part) : nat :=
    fold_right plus 0%nat (map (fun p => if memb f (faces_in_subgrid (fst p)) then 1%nat else 0%nat) ps).

  Lemma fold_additive : forall ps acc f c,
    Forall part_ok ps -> Forall local_ok ps ->
    fold_left (step nf) ps acc f c = acc f c + INR (hits f ps) * G f c.
  Proof.
    induction ps as [|p ps IH]; intros acc f c OK LO.
    - cbn. lra.
    - inversion OK as [|? ? OK1 OK2]; subst. inversion LO as [|? ? LO1 LO2]; subst.
      cbn [fold_left]. rewrite IH by assumption.
      assert (E : step nf acc p f c = acc f c + contrib p f c).
      { unfold step. destruct (takes_shortcut nf (fst p)); reflexivity. }
      rewrite E, contrib_spec by assumption. cbn [hits map fold_right].
      fold (hits f ps). destruct (memb f (faces_in_subgrid (fst p))).
      + rewrite plus_INR. cbn [INR]. lra.
      + cbn [plus]. lra.
  Qed.

  Lemma reps_hits : forall ps f, Forall part_ok ps ->
    nth f (num_face_repetitions (map fst ps)) 0%nat = hits f ps.
  Proof.
    intros ps f OK. unfold num_face_repetitions. rewrite bincount_nth, count_occ_concat.
    unfold hits. rewrite !map_map. induction OK as [|p ps [_ [ND _]] OK IH]; [reflexivity|].
    cbn [map fold_right]. rewrite IH. f_equal. apply count_occ_nodup. exact ND.
  Qed.

  (* the glued matrix equals the one-piece discretisation on every face, for any number
     of subproblems and any overlap multiplicities *)
  Theorem split_sum : forall ps,
    Forall part_ok ps -> Forall local_ok ps ->
    (forall f, (f < nf)%nat -> exists p, In p ps /\ In f (faces_in_subgrid (fst p))) ->
    forall f c, (f < nf)%nat -> assemble nf ps f c = G f c.
  Proof.
    intros ps OK LO COV f c Hf. unfold assemble.
    rewrite fold_additive by assumption. rewrite reps_hits by assumption.
    assert (H : (0 < hits f ps)%nat).
    { destruct (COV f Hf) as [p [Hp Hin]]. clear - Hp Hin. induction ps as [|q ps IH]; [contradiction|].
      cbn [hits map fold_right]. destruct Hp as [Hp|Hp].
      - subst q. apply memb_In in Hin. rewrite Hin. lia.
      - specialize (IH Hp). unfold hits in IH. lia. }
    assert (HR : INR (hits f ps) <> 0) by (apply not_0_INR; lia).
    field. exact HR.
  Qed.
End Glue.

(* partial update: the rows of the targeted (active) faces become the rows of the
   one-piece discretisation; in update mode all other rows are untouched, otherwise zero *)
Theorem partial_update : forall (G old A : lmat) (ext_faces active : list nat) (update : bool),
  NoDup ext_faces -> (forall f, In f active -> In f ext_faces) ->
  (forall k c, (k < length ext_faces)%nat -> In (nth k ext_faces 0%nat) active ->
     A k c = G (nth k ext_faces 0%nat) c) ->
  forall f c,
    (In f active -> stored update old (to_global ext_faces active A) active f c = G f c) /\
    (~ In f active -> stored true old (to_global ext_faces active A) active f c = old f c) /\
    (~ In f active -> stored false old (to_global ext_faces active A) active f c = 0).
Proof.
  intros G old A ext active update ND SUB L f c.
  assert (E : to_global ext active A f c = if memb f ext && memb f active then G f c else 0).
  { unfold to_global. apply contrib_from_spec; [exact ND|]. intros j Hj Hin. apply L; assumption. }
  repeat split.
  - intros Hin. unfold stored. assert (M : memb f active = true) by (apply memb_In; exact Hin).
    assert (M2 : memb f ext = true) by (apply memb_In; apply SUB; exact Hin).
    rewrite E, M, M2. destruct update; reflexivity.
  - intros Hn. unfold stored. destruct (memb f active) eqn:M; [apply memb_In in M; contradiction|reflexivity].
  - intros Hn. unfold stored. rewrite E.
    destruct (memb f active) eqn:M; [apply memb_In in M; contradiction|]. rewrite andb_false_r. reflexivity.
Qed.

(* before the repair: the shortcut taken by a later subproblem discarded what was
   accumulated before it *)
Lemma shortcut_overwrites : exists (nf : nat) (ps : list part) (f c : nat),
  Forall (part_ok) ps /\ (f < nf)%nat /\
  assemble_unrepaired nf ps f c <> (fun _ _ => 1) f c /\
  Forall (local_ok (fun _ _ => 1)) ps.
Proof.
  exists 1%nat, [(mksub [0%nat] [] [] [0%nat], fun _ _ => 1); (mksub [0%nat] [] [] [0%nat], fun _ _ => 1)], 0%nat, 0%nat.
  assert (OK : part_ok (mksub [0%nat] [] [] [0%nat], fun _ _ => 1)).
  { unfold part_ok. cbn [fst faces_in_subgrid l2g_faces]. repeat split.
    - constructor; [intros H; inversion H|constructor].
    - constructor; [intros H; inversion H|constructor].
    - auto. }
  split; [|split; [|split]].
  - constructor; [exact OK|constructor; [exact OK|constructor]].
  - lia.
  - unfold assemble_unrepaired. cbn. lra.
  - repeat constructor; intros k c _ _; reflexivity.
Qed.

(* the boolean certificate evaluated on every real family of subproblems (the tie)
   implies the structural hypotheses of [split_sum] *)
Lemma subset_In : forall a b, subset a b = true -> forall f, In f a -> In f b.
Proof.
  intros a b H f Hin. unfold subset in H. rewrite forallb_forall in H.
  apply memb_In. apply H. exact Hin.
Qed.

Lemma family_ok_sound : forall (nf : nat) (ps : list part),
  family_ok nf (map fst ps) = true ->
  Forall part_ok ps /\
  (forall f, (f < nf)%nat -> exists p, In p ps /\ In f (faces_in_subgrid (fst p))).
Proof.
  intros nf ps H. unfold family_ok in H.
  apply andb_true_iff in H. destruct H as [H1 H2].
  rewrite forallb_forall in H1, H2. split.
  - apply Forall_forall. intros p Hp.
    specialize (H1 (fst p) (in_map fst ps p Hp)).
    apply andb_true_iff in H1. destruct H1 as [H1 S]. apply andb_true_iff in H1. destruct H1 as [N1 N2].
    unfold part_ok. repeat split; [apply nodupb_NoDup; exact N1|apply nodupb_NoDup; exact N2|].
    apply subset_In. exact S.
  - intros f Hf. specialize (H2 f ltac:(apply in_seq; lia)).
    apply existsb_exists in H2. destruct H2 as [s [Hs M]].
    apply in_map_iff in Hs. destruct Hs as [p [E Hp]]. subst s.
    exists p. split; [exact Hp|apply memb_In; exact M].
Qed.
