(* C13 — proofs about the MPSA-W interaction-region model and the matrix-level residuals
   (PP.Model.C13) at the reals. *)
From Coq Require Import List ZArith Bool Arith Lia Reals Lra.
Import ListNotations.
From PP Require Import Model.C11 Model.C13 Proofs.C11.

Local Open Scope R_scope.

Notation rsumn := (sumn R RO).
Notation rtrace := (trace R RO).
Notation rhooke := (hooke R RO).
Notation rhookeS := (hookeS R RO).
Notation rhookeW := (hookeW R RO).
Notation rmulmvf := (mulmvf R RO).
Notation rvsubf := (vsubf R RO).
Notation rwavg := (wavg R RO).
Notation rtractionW := (tractionW R RO).
Notation rtractionS := (tractionS R RO).
Notation rsubdisp := (subdisp R RO).
Notation rlocal_systemV := (local_systemV R RO).
Notation rulin := (ulin R RO).
Notation rkeep_asym := (keep_asym R).

Notation rufield := (ufield R RO).
Notation rexactT := (exactT R RO).
Notation rucellV := (ucellV R RO).
Notation rbdataV := (bdataV R RO).
Notation rstress_of := (stress_of R RO).
Notation rdisp_of := (disp_of R RO).
Notation rexactT_row := (exactT_row R RO).
Notation rexactU_row := (exactU_row R RO).
Notation rres_T := (res_T R RO).
Notation rres_U := (res_U R RO).
Notation rcadd := (cadd R RO).
Notation rcscale := (cscale R RO).
Notation rczero := (czero R RO).
Notation rbasisV := (basisV R RO).
Notation rcomb := (comb R RO).

(* ====================== finite sums ====================== *)
Lemma sumn_ext n (f g : nat -> R) : (forall j, (j < n)%nat -> f j = g j) -> rsumn n f = rsumn n g.
Proof.
  induction n as [|n IH]; intros H; [reflexivity|]. cbn [sumn]; ro.
  rewrite IH by (intros; apply H; lia). rewrite H by lia. reflexivity.
Qed.

Lemma sumn_minus n (f g : nat -> R) : rsumn n (fun j => f j - g j) = rsumn n f - rsumn n g.
Proof. induction n as [|n IH]; cbn [sumn]; ro; [ring|]. rewrite IH. ring. Qed.

Lemma sumn_scal_r n (f : nat -> R) (c : R) : rsumn n (fun j => f j * c) = rsumn n f * c.
Proof. induction n as [|n IH]; cbn [sumn]; ro; [ring|]. rewrite IH. ring. Qed.

Lemma sumn_zero n (f : nat -> R) : (forall j, (j < n)%nat -> f j = 0) -> rsumn n f = 0.
Proof.
  induction n as [|n IH]; intros H; [reflexivity|]. cbn [sumn]; ro.
  rewrite IH by (intros; apply H; lia). rewrite H by lia. ring.
Qed.

Lemma mulmvf_ext d (G A : nat -> nat -> R) (n : nat -> R) i :
  (forall j, (j < d)%nat -> G i j = A i j) -> rmulmvf d G n i = rmulmvf d A n i.
Proof. intros H. unfold mulmvf. apply sumn_ext. intros j Hj. ro. rewrite H by assumption. reflexivity. Qed.

Lemma mulmvf_vsubf d (A : nat -> nat -> R) (x y : nat -> R) i :
  rmulmvf d A (rvsubf x y) i = rmulmvf d A x i - rmulmvf d A y i.
Proof.
  unfold mulmvf, vsubf. rewrite <- sumn_minus. apply sumn_ext. intros j _. ro. ring.
Qed.

(* ====================== Hooke's law, weak symmetry ====================== *)
Lemma trace_ext d (G A : nat -> nat -> R) :
  (forall i j, (i < d)%nat -> (j < d)%nat -> G i j = A i j) -> rtrace d G = rtrace d A.
Proof. intros H. unfold trace. apply sumn_ext. intros l Hl. apply H; assumption. Qed.

Lemma wavg_pointwise d m (w : nat -> R) (G : nat -> nat -> nat -> R) (A : nat -> nat -> R) :
  rsumn m w = 1 ->
  (forall k i j, (k < m)%nat -> (i < d)%nat -> (j < d)%nat -> G k i j = A i j) ->
  forall i j, (i < d)%nat -> (j < d)%nat -> rwavg m w G i j = A i j.
Proof.
  intros Hw HG i j Hi Hj. unfold wavg.
  rewrite (sumn_ext m _ (fun k => w k * A i j)).
  - rewrite sumn_scal_r, Hw. ring.
  - intros k Hk. ro. rewrite HG by assumption. reflexivity.
Qed.

Lemma hookeW_pointwise d mu la (G Gavg A : nat -> nat -> R) :
  (forall i j, (i < d)%nat -> (j < d)%nat -> G i j = A i j) ->
  (forall i j, (i < d)%nat -> (j < d)%nat -> Gavg i j = A i j) ->
  forall i j, (i < d)%nat -> (j < d)%nat -> rhookeW d mu la true G Gavg i j = rhooke d mu la A i j.
Proof.
  intros HG HA i j Hi Hj. unfold hookeW, hookeS, hookeA, hooke.
  rewrite (trace_ext d G A HG). rewrite (HG i j Hi Hj).
  destruct (i =? j)%nat eqn:E; ro.
  - apply Nat.eqb_eq in E. subst j. ring.
  - rewrite (HA j i Hj Hi). ring.
Qed.

Lemma hooke_zero d mu la (A : nat -> nat -> R) :
  (forall i j, (i < d)%nat -> (j < d)%nat -> A i j = 0) ->
  forall i j, (i < d)%nat -> (j < d)%nat -> rhooke d mu la A i j = 0.
Proof.
  intros HA i j Hi Hj. unfold hooke, trace.
  rewrite (sumn_zero d (fun l => A l l)) by (intros; apply HA; assumption).
  rewrite (HA i j), (HA j i) by assumption. ro. ring.
Qed.

Lemma hooke_skew d mu la (A : nat -> nat -> R) :
  (forall i j, (i < d)%nat -> (j < d)%nat -> A j i = - A i j) ->
  forall i j, (i < d)%nat -> (j < d)%nat -> rhooke d mu la A i j = 0.
Proof.
  intros HA i j Hi Hj. unfold hooke, trace.
  rewrite (sumn_zero d (fun l => A l l)).
  - rewrite (HA i j) by assumption. ro. ring.
  - intros l Hl. pose proof (HA l l Hl Hl). lra.
Qed.

(* ====================== Part A: the interaction region ====================== *)
Definition cell_okV (d : nat) (mu la : R) (b : nat -> R) (A : nat -> nat -> R) (c : subcellV R) : Prop :=
  sv_mu c = mu /\ sv_la c = la /\ forall i, (i < d)%nat -> sv_u c i = rulin d b A (sv_x c) i.

Definition face_okV (d m : nat) (mu la : R) (b : nat -> R) (A : nat -> nat -> R)
           (sf : subfaceV R) : Prop :=
  match sf with
  | InteriorV k1 k2 _ _ => (k1 < m)%nat /\ (k2 < m)%nat
  | DirichletV k _ xc uD => (k < m)%nat /\ forall i, (i < d)%nat -> uD i = rulin d b A xc i
  | NeumannV k n t => (k < m)%nat /\ forall i, (i < d)%nat -> t i = rmulmvf d (rhooke d mu la A) n i
  end.

Lemma tractionW_pointwise d m w cells mu la (G : nat -> nat -> nat -> R) (A : nat -> nat -> R) k n i :
  rsumn m w = 1 -> sv_mu (cells k) = mu -> sv_la (cells k) = la ->
  (forall k i j, (k < m)%nat -> (i < d)%nat -> (j < d)%nat -> G k i j = A i j) ->
  (k < m)%nat -> (i < d)%nat ->
  rtractionW d m w cells true G k n i = rmulmvf d (rhooke d mu la A) n i.
Proof.
  intros Hw Hmu Hla HG Hk Hi. unfold tractionW. rewrite Hmu, Hla. apply mulmvf_ext.
  intros j Hj. apply hookeW_pointwise; try assumption.
  - intros; apply HG; assumption.
  - apply (wavg_pointwise d m w G A Hw HG).
Qed.

Lemma linear_solves_local :
  forall (d m : nat) (w : nat -> R) (cells : nat -> subcellV R) (faces : list (subfaceV R))
         (mu la : R) (b : nat -> R) (A : nat -> nat -> R),
    rsumn m w = 1 ->
    (forall k, (k < m)%nat -> cell_okV d mu la b A (cells k)) ->
    Forall (face_okV d m mu la b A) faces ->
    rkeep_asym m faces = true ->
    forall e, In e (rlocal_systemV d m w cells (rkeep_asym m faces) faces) ->
              elhs e (fun _ => A) = erhs e.
Proof.
  intros d m w cells faces mu la b A Hw Hc Hf Hadm e He. rewrite Hadm in He.
  unfold local_systemV in He. apply in_flat_map in He. destruct He as [sf [Hsf He]].
  rewrite Forall_forall in Hf. specialize (Hf sf Hsf).
  destruct sf as [k1 k2 n xc | k n xc uD | k n t]; cbn [face_eqsV face_okV] in *.
  - destruct Hf as [Hk1 Hk2].
    destruct (Hc k1 Hk1) as [Hmu1 [Hla1 Hu1]]. destruct (Hc k2 Hk2) as [Hmu2 [Hla2 Hu2]].
    apply in_app_or in He. destruct He as [He | He]; apply in_map_iff in He;
      destruct He as [i [He Hi]]; apply in_seq in Hi; subst e; cbn [elhs erhs]; ro.
    + unfold tractionS. rewrite Hmu1, Hla1, Hmu2, Hla2. ring.
    + rewrite !mulmvf_vsubf. rewrite Hu1, Hu2 by lia. unfold ulin; ro. ring.
  - destruct Hf as [Hk HuD]. destruct (Hc k Hk) as [Hmu [Hla Hu]].
    apply in_map_iff in He. destruct He as [i [He Hi]]. apply in_seq in Hi. subst e.
    cbn [elhs erhs]; ro. rewrite mulmvf_vsubf, Hu, HuD by lia. unfold ulin; ro. ring.
  - destruct Hf as [Hk Ht]. destruct (Hc k Hk) as [Hmu [Hla Hu]].
    apply in_map_iff in He. destruct He as [i [He Hi]]. apply in_seq in Hi. subst e.
    cbn [elhs erhs]. rewrite Ht by lia.
    apply (tractionW_pointwise d m w cells mu la (fun _ => A) A); auto; lia.
Qed.

Lemma unique_exact :
  forall (d m : nat) (w : nat -> R) (cells : nat -> subcellV R) (faces : list (subfaceV R))
         (mu la : R) (b : nat -> R) (A : nat -> nat -> R)
         (Inv : list R -> nat -> nat -> nat -> R),
    rsumn m w = 1 ->
    (forall k, (k < m)%nat -> cell_okV d mu la b A (cells k)) ->
    Forall (face_okV d m mu la b A) faces ->
    rkeep_asym m faces = true ->
    let sys := rlocal_systemV d m w cells (rkeep_asym m faces) faces in
    (forall G k i j, (k < m)%nat -> (i < d)%nat -> (j < d)%nat ->
                     Inv (lhs_allV R sys G) k i j = G k i j) ->
    let Gc := Inv (rhs_allV R sys) in
    (forall k i j, (k < m)%nat -> (i < d)%nat -> (j < d)%nat -> Gc k i j = A i j) /\
    (forall k n i, (k < m)%nat -> (i < d)%nat ->
                   rtractionW d m w cells true Gc k n i = rmulmvf d (rhooke d mu la A) n i) /\
    (forall k x i, (k < m)%nat -> (i < d)%nat -> rsubdisp d cells Gc k x i = rulin d b A x i).
Proof.
  intros d m w cells faces mu la b A Inv Hw Hc Hf Hadm sys Hinv Gc.
  assert (HG : forall k i j, (k < m)%nat -> (i < d)%nat -> (j < d)%nat -> Gc k i j = A i j).
  { intros k i j Hk Hi Hj. unfold Gc.
    assert (E : rhs_allV R sys = lhs_allV R sys (fun _ => A)).
    { unfold rhs_allV, lhs_allV. apply map_ext_in. intros e He. symmetry.
      eapply linear_solves_local; eassumption. }
    rewrite E. apply (Hinv (fun _ => A)); assumption. }
  split; [exact HG|]. split.
  - intros k n i Hk Hi. destruct (Hc k Hk) as [Hmu [Hla Hu]].
    apply (tractionW_pointwise d m w cells mu la Gc A); assumption.
  - intros k x i Hk Hi. destruct (Hc k Hk) as [Hmu [Hla Hu]]. unfold subdisp.
    rewrite (mulmvf_ext d (Gc k) A) by (intros; apply HG; assumption).
    rewrite mulmvf_vsubf, Hu by assumption. unfold ulin; ro. ring.
Qed.

(* translations: u = b everywhere, Dirichlet data b, zero Neumann traction *)
Definition zeroA : nat -> nat -> R := fun _ _ => 0.
Definition cell_transl (d : nat) (mu la : R) (b : nat -> R) (c : subcellV R) : Prop :=
  sv_mu c = mu /\ sv_la c = la /\ forall i, (i < d)%nat -> sv_u c i = b i.
Definition face_transl (d m : nat) (b : nat -> R) (sf : subfaceV R) : Prop :=
  match sf with
  | InteriorV k1 k2 _ _ => (k1 < m)%nat /\ (k2 < m)%nat
  | DirichletV k _ _ uD => (k < m)%nat /\ forall i, (i < d)%nat -> uD i = b i
  | NeumannV k _ t => (k < m)%nat /\ forall i, (i < d)%nat -> t i = 0
  end.

Lemma mulmvf_zero d (S : nat -> nat -> R) (n : nat -> R) i :
  (forall j, (j < d)%nat -> S i j = 0) -> rmulmvf d S n i = 0.
Proof. intros H. unfold mulmvf. apply sumn_zero. intros j Hj. ro. rewrite H by assumption. ring. Qed.

Lemma translation_zero :
  forall (d m : nat) (w : nat -> R) (cells : nat -> subcellV R) (faces : list (subfaceV R))
         (mu la : R) (b : nat -> R) (Inv : list R -> nat -> nat -> nat -> R),
    rsumn m w = 1 ->
    (forall k, (k < m)%nat -> cell_transl d mu la b (cells k)) ->
    Forall (face_transl d m b) faces ->
    rkeep_asym m faces = true ->
    let sys := rlocal_systemV d m w cells (rkeep_asym m faces) faces in
    (forall G k i j, (k < m)%nat -> (i < d)%nat -> (j < d)%nat ->
                     Inv (lhs_allV R sys G) k i j = G k i j) ->
    let Gc := Inv (rhs_allV R sys) in
    forall k n i, (k < m)%nat -> (i < d)%nat -> rtractionW d m w cells true Gc k n i = 0.
Proof.
  intros d m w cells faces mu la b Inv Hw Hc Hf Hadm sys Hinv Gc k n i Hk Hi.
  assert (Hc' : forall k, (k < m)%nat -> cell_okV d mu la b zeroA (cells k)).
  { intros k' Hk'. destruct (Hc k' Hk') as [H1 [H2 H3]]. repeat split; try assumption.
    intros i' Hi'. unfold ulin; ro. rewrite mulmvf_zero by reflexivity. rewrite H3 by assumption. ring. }
  assert (Hf' : Forall (face_okV d m mu la b zeroA) faces).
  { eapply Forall_impl; [|exact Hf]. intros [k1 k2 n' xc | k' n' xc uD | k' n' t] H;
      cbn [face_transl face_okV] in *; [exact H | |].
    - destruct H as [H1 H2]. split; [exact H1|]. intros i' Hi'. unfold ulin; ro.
      rewrite mulmvf_zero by reflexivity. rewrite H2 by assumption. ring.
    - destruct H as [H1 H2]. split; [exact H1|]. intros i' Hi'. rewrite H2 by assumption.
      symmetry. apply mulmvf_zero. intros j Hj. apply hooke_zero; auto. }
  destruct (unique_exact d m w cells faces mu la b zeroA Inv Hw Hc' Hf' Hadm Hinv) as [_ [HT _]].
  fold sys in HT. fold Gc in HT. rewrite HT by assumption.
  apply mulmvf_zero. intros j Hj. apply hooke_zero; auto.
Qed.

(* rigid rotations: skew gradient, zero traction *)
Lemma rotation_zero :
  forall (d m : nat) (w : nat -> R) (cells : nat -> subcellV R) (faces : list (subfaceV R))
         (mu la : R) (b : nat -> R) (A : nat -> nat -> R)
         (Inv : list R -> nat -> nat -> nat -> R),
    (forall i j, (i < d)%nat -> (j < d)%nat -> A j i = - A i j) ->
    rsumn m w = 1 ->
    (forall k, (k < m)%nat -> cell_okV d mu la b A (cells k)) ->
    Forall (face_okV d m mu la b A) faces ->
    rkeep_asym m faces = true ->
    let sys := rlocal_systemV d m w cells (rkeep_asym m faces) faces in
    (forall G k i j, (k < m)%nat -> (i < d)%nat -> (j < d)%nat ->
                     Inv (lhs_allV R sys G) k i j = G k i j) ->
    let Gc := Inv (rhs_allV R sys) in
    forall k n i, (k < m)%nat -> (i < d)%nat -> rtractionW d m w cells true Gc k n i = 0.
Proof.
  intros d m w cells faces mu la b A Inv Hskew Hw Hc Hf Hadm sys Hinv Gc k n i Hk Hi.
  destruct (unique_exact d m w cells faces mu la b A Inv Hw Hc Hf Hadm Hinv) as [_ [HT _]].
  fold sys in HT. fold Gc in HT. rewrite HT by assumption.
  apply mulmvf_zero. intros j Hj. apply hooke_skew; auto.
Qed.

(* ====================== Part B: matrix level ====================== *)
Lemma row_apply_zero (M : coo R) r : rrow_apply M r (fun _ => 0) = 0.
Proof.
  induction M as [|t M IH]; [reflexivity|]. cbn [row_apply fold_right].
  fold (rrow_apply M r (fun _ => 0)). rewrite IH. destruct (fst (fst t) =? r)%nat; ro; ring.
Qed.

Lemma row_apply_lin2 (M : coo R) r (s : R) (x y : nat -> R) :
  rrow_apply M r (fun k => s * x k + y k) = s * rrow_apply M r x + rrow_apply M r y.
Proof.
  induction M as [|t M IH]; [cbn; ro; ring|]. cbn [row_apply fold_right].
  fold (rrow_apply M r (fun k => s * x k + y k)). fold (rrow_apply M r x). fold (rrow_apply M r y).
  rewrite IH. destruct (fst (fst t) =? r)%nat; ro; ring.
Qed.

Ltac dcoef c :=
  let b1 := fresh "b" in let b2 := fresh "b" in let b3 := fresh "b" in
  destruct c as [[[b1 b2] b3] [[[[? ?] ?] [[? ?] ?]] [[? ?] ?]]].

Lemma ufield_lin s (c1 c2 : coefV R) (x : vec3 R) i :
  comp R (rufield (rcadd (rcscale s c1) c2) x) i
  = s * comp R (rufield c1 x) i + comp R (rufield c2 x) i.
Proof.
  dcoef c1. dcoef c2. destruct x as [[x1 x2] x3].
  destruct i as [|[|i]]; unfold ufield, cadd, cscale, vadd3, vscale3, mulmv3, dot3, comp;
    cbn [fst snd]; ro; ring.
Qed.

Lemma ufield_zero (x : vec3 R) i : comp R (rufield rczero x) i = 0.
Proof.
  destruct x as [[x1 x2] x3].
  destruct i as [|[|i]]; unfold ufield, czero, zm, z3, vadd3, mulmv3, dot3, comp;
    cbn [fst snd]; ro; ring.
Qed.

Section MatrixLevel.
  Variable I : instV R.

  Lemma exactT_lin s (c1 c2 : coefV R) f i :
    comp R (rexactT I (rcadd (rcscale s c1) c2) f) i
    = s * comp R (rexactT I c1 f) i + comp R (rexactT I c2 f) i.
  Proof.
    dcoef c1. dcoef c2. unfold exactT. destruct (normalV I f) as [[n1 n2] n3].
    destruct i as [|[|i]]; unfold cadd, cscale, vadd3, vscale3, sigma3, mulmv3, dot3, comp;
      cbn [fst snd]; ro; ring.
  Qed.

  Lemma exactT_zero f i : comp R (rexactT I rczero f) i = 0.
  Proof.
    unfold exactT. destruct (normalV I f) as [[n1 n2] n3].
    destruct i as [|[|i]]; unfold czero, zm, z3, sigma3, mulmv3, dot3, comp;
      cbn [fst snd]; ro; ring.
  Qed.

  Lemma ucellV_lin s c1 c2 col :
    rucellV I (rcadd (rcscale s c1) c2) col = s * rucellV I c1 col + rucellV I c2 col.
  Proof. unfold ucellV. apply ufield_lin. Qed.

  Lemma bdataV_lin s c1 c2 col :
    rbdataV I (rcadd (rcscale s c1) c2) col = s * rbdataV I c1 col + rbdataV I c2 col.
  Proof.
    unfold bdataV. destruct (btypeV I (col / ndV I)).
    - ro. ring.
    - apply ufield_lin.
    - rewrite exactT_lin. ro. ring.
  Qed.

  Lemma res_T_lin s c1 c2 r :
    rres_T I (rcadd (rcscale s c1) c2) r = s * rres_T I c1 r + rres_T I c2 r.
  Proof.
    unfold res_T, stress_of, exactT_row. ro.
    rewrite (row_apply_ext (ST I) r _ _ (ucellV_lin s c1 c2)).
    rewrite (row_apply_ext (BS I) r _ _ (bdataV_lin s c1 c2)).
    rewrite !row_apply_lin2, exactT_lin. ring.
  Qed.

  Lemma res_U_lin s c1 c2 r :
    rres_U I (rcadd (rcscale s c1) c2) r = s * rres_U I c1 r + rres_U I c2 r.
  Proof.
    unfold res_U, disp_of, exactU_row. ro.
    rewrite (row_apply_ext (BDC I) r _ _ (ucellV_lin s c1 c2)).
    rewrite (row_apply_ext (BDF I) r _ _ (bdataV_lin s c1 c2)).
    rewrite !row_apply_lin2, ufield_lin. ring.
  Qed.

  Lemma ucellV_zero col : rucellV I rczero col = 0.
  Proof. unfold ucellV. apply ufield_zero. Qed.
  Lemma bdataV_zero col : rbdataV I rczero col = 0.
  Proof.
    unfold bdataV. destruct (btypeV I (col / ndV I)); [reflexivity | apply ufield_zero |].
    rewrite exactT_zero. ro. ring.
  Qed.

  Lemma res_T_zero r : rres_T I rczero r = 0.
  Proof.
    unfold res_T, stress_of, exactT_row. ro.
    rewrite (row_apply_ext (ST I) r _ (fun _ => 0) ucellV_zero).
    rewrite (row_apply_ext (BS I) r _ (fun _ => 0) bdataV_zero).
    rewrite !row_apply_zero, exactT_zero. ring.
  Qed.

  Lemma res_U_zero r : rres_U I rczero r = 0.
  Proof.
    unfold res_U, disp_of, exactU_row. ro.
    rewrite (row_apply_ext (BDC I) r _ (fun _ => 0) ucellV_zero).
    rewrite (row_apply_ext (BDF I) r _ (fun _ => 0) bdataV_zero).
    rewrite !row_apply_zero, ufield_zero. ring.
  Qed.

  (* sum_t |s_t| eps_t over the terms of a combination *)
  Definition bound_of (eps : nat -> R) (terms : list (R * nat)) : R :=
    fold_right (fun st acc => Rabs (fst st) * eps (snd st) + acc) 0 terms.

  Lemma comb_bound_gen (res : coefV R -> nat -> R) :
    (forall s c1 c2 r, res (rcadd (rcscale s c1) c2) r = s * res c1 r + res c2 r) ->
    (forall r, res rczero r = 0) ->
    forall (r : nat) (eps : nat -> R) (terms : list (R * nat)),
      (forall st, In st terms -> Rabs (res (rbasisV (snd st)) r) <= eps (snd st)) ->
      Rabs (res (rcomb terms) r) <= bound_of eps terms.
  Proof.
    intros Hlin Hzero r eps terms. induction terms as [|[s t] terms IH]; intros H.
    - cbn [comb fold_right bound_of]. rewrite Hzero, Rabs_R0. lra.
    - cbn [comb fold_right bound_of fst snd]. fold (rcomb terms). fold (bound_of eps terms).
      rewrite Hlin.
      pose proof (Rabs_triang (s * res (rbasisV t) r) (res (rcomb terms) r)) as T.
      rewrite Rabs_mult in T.
      pose proof (H (s, t) (or_introl eq_refl)) as H0. cbn [snd] in H0.
      pose proof (Rmult_le_compat_l _ _ _ (Rabs_pos s) H0).
      assert (IH' := IH (fun st Hst => H st (or_intror Hst))). lra.
  Qed.

  Lemma linear_extension_traction :
    forall (r : nat) (eps : nat -> R) (terms : list (R * nat)),
      (forall st, In st terms -> Rabs (rres_T I (rbasisV (snd st)) r) <= eps (snd st)) ->
      Rabs (rstress_of I (rcomb terms) r - rexactT_row I (rcomb terms) r) <= bound_of eps terms.
  Proof. intros. apply (comb_bound_gen (rres_T I) res_T_lin res_T_zero); assumption. Qed.

  Lemma linear_extension_displacement :
    forall (r : nat) (eps : nat -> R) (terms : list (R * nat)),
      (forall st, In st terms -> Rabs (rres_U I (rbasisV (snd st)) r) <= eps (snd st)) ->
      Rabs (rdisp_of I (rcomb terms) r - rexactU_row I (rcomb terms) r) <= bound_of eps terms.
  Proof. intros. apply (comb_bound_gen (rres_U I) res_U_lin res_U_zero); assumption. Qed.
End MatrixLevel.

(* every linear field is such a combination: all twelve coefficients in 3-D ... *)
Definition terms3 (b : vec3 R) (A : mat3 R) : list (R * nat) :=
  let '(b1, b2, b3) := b in
  let '((a11, a12, a13), (a21, a22, a23), (a31, a32, a33)) := A in
  [(b1, 0); (b2, 1); (b3, 2); (a11, 3); (a12, 4); (a13, 5); (a21, 6); (a22, 7); (a23, 8);
   (a31, 9); (a32, 10); (a33, 11)]%nat.
(* ... and the six in-plane ones in 2-D *)
Definition terms2 (b1 b2 a11 a12 a21 a22 : R) : list (R * nat) :=
  [(b1, 0); (b2, 1); (a11, 3); (a12, 4); (a21, 6); (a22, 7)]%nat.

Lemma comb_terms3 (b : vec3 R) (A : mat3 R) : rcomb (terms3 b A) = (b, A).
Proof.
  destruct b as [[b1 b2] b3]. destruct A as [[[[a11 a12] a13] [[a21 a22] a23]] [[a31 a32] a33]].
  unfold terms3, comb, basisV, cadd, cscale, czero, zm, z3, unit3, vadd3, vscale3.
  cbn [fold_right fst snd Nat.ltb Nat.leb Nat.sub Nat.div Nat.modulo Nat.divmod]; ro.
  repeat f_equal; ring.
Qed.

Lemma comb_terms2 (b1 b2 a11 a12 a21 a22 : R) :
  rcomb (terms2 b1 b2 a11 a12 a21 a22)
  = ((b1, b2, 0), ((a11, a12, 0), (a21, a22, 0), (0, 0, 0))).
Proof.
  unfold terms2, comb, basisV, cadd, cscale, czero, zm, z3, unit3, vadd3, vscale3.
  cbn [fold_right fst snd Nat.ltb Nat.leb Nat.sub Nat.div Nat.modulo Nat.divmod]; ro.
  repeat f_equal; ring.
Qed.

(* ====================== non-vacuity witness ====================== *)
(* Interaction region at the boundary vertex (1,0) of a 2 x 1 Cartesian grid (mu = 1,
   lambda = 2, equal sub-cell volumes): two sub-cells, one interior, one Dirichlet and one
   Neumann sub-face; u = b + A x with a non-symmetric A. *)
Definition vec2 (a b : R) : nat -> R := fun i => match i with O => a | S O => b | _ => 0 end.
Definition mat2 (a b c d : R) : nat -> nat -> R :=
  fun i j => match i, j with
             | O, O => a | O, S O => b | S O, O => c | S O, S O => d | _, _ => 0
             end.
Definition exbV := vec2 1 (-2).
Definition exAV := mat2 1 2 (-1) 3.
Definition exw : nat -> R := fun _ => 1/2.
Definition excellsV : nat -> subcellV R :=
  fun k => match k with
           | O => {| sv_x := vec2 (1/2) (1/2); sv_u := rulin 2 exbV exAV (vec2 (1/2) (1/2));
                     sv_mu := 1; sv_la := 2 |}
           | _ => {| sv_x := vec2 (3/2) (1/2); sv_u := rulin 2 exbV exAV (vec2 (3/2) (1/2));
                     sv_mu := 1; sv_la := 2 |}
           end.
Definition exfacesV : list (subfaceV R) :=
  [ InteriorV 0 1 (vec2 (1/2) 0) (vec2 1 (1/2));
    DirichletV 0 (vec2 0 (-1/2)) (vec2 (1/2) 0) (rulin 2 exbV exAV (vec2 (1/2) 0));
    NeumannV 1 (vec2 0 (-1/2)) (rmulmvf 2 (rhooke 2 1 2 exAV) (vec2 0 (-1/2))) ].
Definition exInvM : list (list R) :=
  [[2/7; 0; 6/7; 0; 0; 4/7; 0; -1/7];
   [0; 0; 0; 0; -2; 0; 0; 0];
   [0; 1; 0; 1; 0; 0; 0; 0];
   [0; 0; 0; 0; 0; -2; 0; 0];
   [-2/7; 0; 8/7; 0; 0; -4/7; 0; 1/7];
   [0; 0; 0; -1; 0; 0; -2; 0];
   [0; -1; 0; 1; 0; 0; 0; 0];
   [1/7; 0; -4/7; 0; 0; 2/7; 0; -4/7]].
Definition exInvV (r : list R) : nat -> nat -> nat -> R :=
  fun k i j => rdotl (nth (k * 4 + i * 2 + j) exInvM []) r.

Lemma example_regionV :
  rsumn 2 exw = 1 /\
  (forall k, (k < 2)%nat -> cell_okV 2 1 2 exbV exAV (excellsV k)) /\
  Forall (face_okV 2 2 1 2 exbV exAV) exfacesV /\
  rkeep_asym 2 exfacesV = true /\
  (forall G k i j, (k < 2)%nat -> (i < 2)%nat -> (j < 2)%nat ->
     exInvV (lhs_allV R (rlocal_systemV 2 2 exw excellsV (rkeep_asym 2 exfacesV) exfacesV) G) k i j
     = G k i j) /\
  exAV 0%nat 1%nat <> exAV 1%nat 0%nat.
Proof.
  split; [unfold exw; cbn; ro; lra|].
  split; [intros k Hk; destruct k as [|[|k]]; [| |lia]; repeat split; reflexivity|].
  split; [repeat constructor; intros; reflexivity|].
  split; [reflexivity|].
  split.
  - intros G k i j Hk Hi Hj.
    destruct k as [|[|k]]; [| |lia]; destruct i as [|[|i]]; try lia; destruct j as [|[|j]]; try lia;
      unfold exInvV, exInvM, lhs_allV, local_systemV, exfacesV, keep_asym;
      cbn [filter is_neuV length Nat.leb flat_map face_eqsV app map seq elhs nth Nat.add Nat.mul dotl];
      unfold tractionS, tractionW, mulmvf, hookeW, hookeS, hookeA, trace, wavg, vsubf, delta, excellsV,
             exw, vec2;
      cbn [sumn sv_x sv_u sv_mu sv_la Nat.eqb]; ro; field.
  - unfold exAV, mat2. lra.
Qed.

Lemma bound_displacement :
  forall (d m : nat) (w : nat -> R) (cells : nat -> subcellV R) (faces : list (subfaceV R))
         (mu la : R) (b : nat -> R) (A : nat -> nat -> R)
         (Inv : list R -> nat -> nat -> nat -> R),
    rsumn m w = 1 ->
    (forall k, (k < m)%nat -> cell_okV d mu la b A (cells k)) ->
    Forall (face_okV d m mu la b A) faces ->
    rkeep_asym m faces = true ->
    let sys := rlocal_systemV d m w cells (rkeep_asym m faces) faces in
    (forall G k i j, (k < m)%nat -> (i < d)%nat -> (j < d)%nat ->
                     Inv (lhs_allV R sys G) k i j = G k i j) ->
    forall k x i, (k < m)%nat -> (i < d)%nat ->
                  rsubdisp d cells (Inv (rhs_allV R sys)) k x i = rulin d b A x i.
Proof.
  intros d m w cells faces mu la b A Inv Hw Hc Hf Hadm sys Hinv.
  exact (proj2 (proj2 (unique_exact d m w cells faces mu la b A Inv Hw Hc Hf Hadm Hinv))).
Qed.

(* ====================== the left-inverse guard is needed ====================== *)
(* A valid corner region (two triangles of the grid of corpus/C13/singular_local_system.json,
   lengths in units of 1/64): the two cell centres (28,7), (6,29) and the centres (35,0),
   (2,33) of the two Dirichlet boundary faces lie on the line x + y = 35.  All data
   hypotheses of unique_exact hold, but gradients with rows orthogonal to (1,-1) are
   invisible to every local equation: the local system has no left inverse. *)
Definition sgw : nat -> R := fun _ => 1/2.
Definition sgcells : nat -> subcellV R :=
  fun k => match k with
           | O => {| sv_x := vec2 28 7; sv_u := rulin 2 exbV exAV (vec2 28 7); sv_mu := 1; sv_la := 2 |}
           | _ => {| sv_x := vec2 6 29; sv_u := rulin 2 exbV exAV (vec2 6 29); sv_mu := 1; sv_la := 2 |}
           end.
Definition sgfaces : list (subfaceV R) :=
  [ InteriorV 0 1 (vec2 11 (-6)) (vec2 6 (19/3));
    DirichletV 1 (vec2 (-17) 0) (vec2 2 33) (rulin 2 exbV exAV (vec2 2 33));
    DirichletV 0 (vec2 (1/2) (-33/2)) (vec2 35 0) (rulin 2 exbV exAV (vec2 35 0)) ].
Definition sgG1 : nat -> nat -> nat -> R := fun _ => mat2 1 1 0 0.
Definition sgG0 : nat -> nat -> nat -> R := fun _ _ _ => 0.

Lemma unique_exact_refuted :
  rsumn 2 sgw = 1 /\
  (forall k, (k < 2)%nat -> cell_okV 2 1 2 exbV exAV (sgcells k)) /\
  Forall (face_okV 2 2 1 2 exbV exAV) sgfaces /\
  rkeep_asym 2 sgfaces = true /\
  let sys := rlocal_systemV 2 2 sgw sgcells (rkeep_asym 2 sgfaces) sgfaces in
  sgG1 0%nat 0%nat 0%nat <> sgG0 0%nat 0%nat 0%nat /\
  lhs_allV R sys sgG1 = lhs_allV R sys sgG0 /\
  forall Inv : list R -> nat -> nat -> nat -> R,
    ~ (forall G k i j, (k < 2)%nat -> (i < 2)%nat -> (j < 2)%nat ->
                       Inv (lhs_allV R sys G) k i j = G k i j).
Proof.
  split; [unfold sgw; cbn; ro; lra|].
  split; [intros k Hk; destruct k as [|[|k]]; [| |lia]; repeat split; reflexivity|].
  split; [repeat constructor; intros; reflexivity|].
  split; [reflexivity|].
  assert (E : lhs_allV R (rlocal_systemV 2 2 sgw sgcells (rkeep_asym 2 sgfaces) sgfaces) sgG1
              = lhs_allV R (rlocal_systemV 2 2 sgw sgcells (rkeep_asym 2 sgfaces) sgfaces) sgG0).
  { unfold lhs_allV, local_systemV, sgfaces, keep_asym.
    cbn [filter is_neuV length Nat.leb flat_map face_eqsV app map seq elhs].
    unfold tractionS, mulmvf, hookeS, trace, vsubf, delta, sgcells, sgG1, sgG0, mat2, vec2.
    cbn [sumn sv_x sv_u sv_mu sv_la Nat.eqb]; ro.
    repeat (match goal with |- (_ :: _) = (_ :: _) => apply f_equal2; [lra|] end). reflexivity. }
  intros sys. split; [unfold sgG1, sgG0, mat2; lra|]. split; [exact E|].
  intros Inv H.
  pose proof (H sgG1 0%nat 0%nat 0%nat ltac:(lia) ltac:(lia) ltac:(lia)) as H1.
  pose proof (H sgG0 0%nat 0%nat 0%nat ltac:(lia) ltac:(lia) ltac:(lia)) as H0.
  unfold sys in H1, H0. rewrite E in H1. rewrite H1 in H0. unfold sgG1, sgG0, mat2 in H0. lra.
Qed.
