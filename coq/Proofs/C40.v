(* C40 — proofs about the model PP.Model.C40 (material tensors), for ANY commutative ring
   (ring_theory over Leibniz equality; instances: R, Z, ...). *)
From Coq Require Import List ZArith Bool Ring Lia.
Import ListNotations.
From PP Require Import Model.C40.

(* ------------------------------------------------------------------------------------ *)
(* cell selection (any element type)                                                      *)
(* ------------------------------------------------------------------------------------ *)
Definition wrap (n c : Z) : Z := if (c <? 0)%Z then (c + n)%Z else c.
Definition in_range (n c : Z) : Prop := (- n <= c < n)%Z.

Lemma take_cells_spec : forall {A} (l : list A) cells r,
  take_cells l cells = Ok r ->
  Forall2 (fun c x => in_range (Z.of_nat (length l)) c /\
                      nth_error l (Z.to_nat (wrap (Z.of_nat (length l)) c)) = Some x) cells r.
Proof.
  intros A l. induction cells as [|c cs IH]; intros r H; cbn in H.
  - injection H as <-. constructor.
  - fold (wrap (Z.of_nat (length l)) c) in H.
    set (n := Z.of_nat (length l)) in *.
    destruct ((wrap n c <? 0)%Z || (n <=? wrap n c)%Z) eqn:E; [discriminate|].
    apply orb_false_iff in E as [E1 E2]. apply Z.ltb_ge in E1. apply Z.leb_gt in E2.
    destruct (nth_error l (Z.to_nat (wrap n c))) as [x|] eqn:Ex;
      destruct (take_cells l cs) as [xs|e] eqn:Et; try discriminate.
    injection H as <-. constructor; [|now apply IH].
    split; [|exact Ex]. unfold in_range, wrap in *. destruct (c <? 0)%Z eqn:Ec.
    + apply Z.ltb_lt in Ec. lia.
    + apply Z.ltb_ge in Ec. lia.
Qed.

Lemma take_cells_total : forall {A} (l : list A) cells,
  Forall (in_range (Z.of_nat (length l))) cells -> exists r, take_cells l cells = Ok r.
Proof.
  intros A l. induction cells as [|c cs IH]; intros H; [eexists; reflexivity|].
  inversion H as [|? ? Hc Hcs]; subst. destruct (IH Hcs) as [r Hr]. cbn.
  fold (wrap (Z.of_nat (length l)) c). set (n := Z.of_nat (length l)) in *.
  assert (0 <= wrap n c < n)%Z as Hw.
  { unfold in_range, wrap in *. destruct (c <? 0)%Z eqn:Ec.
    - apply Z.ltb_lt in Ec. lia.
    - apply Z.ltb_ge in Ec. lia. }
  replace ((wrap n c <? 0)%Z || (n <=? wrap n c)%Z) with false.
  2:{ symmetry. apply orb_false_iff. split; [apply Z.ltb_ge|apply Z.leb_gt]; lia. }
  destruct (nth_error l (Z.to_nat (wrap n c))) as [x|] eqn:Ex.
  - rewrite Hr. eauto.
  - apply nth_error_None in Ex. subst n. lia.
Qed.

Lemma take_cells_error : forall {A} (l : list A) cells e,
  take_cells l cells = Err e ->
  e = IndexErr /\ Exists (fun c => ~ in_range (Z.of_nat (length l)) c) cells.
Proof.
  intros A l cells e H. split.
  - revert H. induction cells as [|c cs IH]; cbn; [discriminate|].
    destruct (_ || _); [now intros [= <-]|].
    destruct (nth_error l _); destruct (take_cells l cs); try discriminate;
      intros [= <-]; auto.
  - destruct (Forall_Exists_dec (in_range (Z.of_nat (length l)))
               (fun c => ltac:(unfold in_range;
                  destruct (Z_le_dec (- Z.of_nat (length l)) c);
                  destruct (Z_lt_dec c (Z.of_nat (length l))); [left; lia|right; lia..])) cells)
      as [Hall|Hex]; [|exact Hex].
    destruct (take_cells_total l cells Hall) as [r Hr]. congruence.
Qed.

Lemma take_cells_map : forall {A B} (f : A -> B) l cells,
  take_cells (map f l) cells =
  match take_cells l cells with Ok r => Ok (map f r) | Err e => Err e end.
Proof.
  intros A B f l. induction cells as [|c cs IH]; cbn; [reflexivity|].
  rewrite map_length. destruct (_ || _); [reflexivity|].
  rewrite nth_error_map, IH.
  destruct (nth_error l _); destruct (take_cells l cs); reflexivity.
Qed.

Lemma nth_error_combine : forall {A B} (a : list A) (b : list B) k,
  nth_error (combine a b) k =
  match nth_error a k, nth_error b k with Some x, Some y => Some (x, y) | _, _ => None end.
Proof.
  induction a as [|x a IH]; intros b k; destruct b as [|y b], k as [|k]; cbn; try reflexivity.
  - now destruct (nth_error a k).
  - apply IH.
Qed.

Lemma take_cells_combine : forall {A B} (a : list A) (b : list B) cells ra rb,
  length a = length b ->
  take_cells a cells = Ok ra -> take_cells b cells = Ok rb ->
  take_cells (combine a b) cells = Ok (combine ra rb).
Proof.
  intros A B a b cells ra rb Hl. revert ra rb.
  induction cells as [|c cs IH]; intros ra rb Ha Hb; cbn in *.
  - injection Ha as <-. injection Hb as <-. reflexivity.
  - rewrite combine_length, <- Hl, Nat.min_id. rewrite <- Hl in Hb.
    destruct (_ || _); [discriminate|].
    rewrite nth_error_combine.
    destruct (nth_error a _) as [x|]; destruct (take_cells a cs) as [xs|]; try discriminate.
    destruct (nth_error b _) as [y|]; destruct (take_cells b cs) as [ys|]; try discriminate.
    injection Ha as <-. injection Hb as <-. rewrite (IH xs ys eq_refl eq_refl). reflexivity.
Qed.

Lemma Forall2_len : forall {A B} (P : A -> B -> Prop) l m, Forall2 P l m -> length l = length m.
Proof. induction 1; cbn; congruence. Qed.

Lemma map_nth_seq : forall {A} (l : list A) d,
  map (fun c => nth c l d) (seq 0 (length l)) = l.
Proof.
  intros A l d. apply nth_ext with (d := d) (d' := d).
  - now rewrite map_length, seq_length.
  - intros k Hk. rewrite map_length, seq_length in Hk.
    rewrite (nth_indep _ d (nth 0 l d)) by (now rewrite map_length, seq_length).
    rewrite (map_nth (fun c => nth c l d)), seq_nth by assumption. reflexivity.
Qed.

(* ------------------------------------------------------------------------------------ *)
(* tensors over a commutative ring                                                        *)
(* ------------------------------------------------------------------------------------ *)
Section RingProofs.
  Variable T : Type.
  Variables (rO rI : T) (radd rmul rsub : T -> T -> T) (ropp : T -> T).
  Hypothesis Rth : ring_theory rO rI radd rmul rsub ropp eq.
  Add Ring Tring : Rth.
  Variable neg : T -> bool.     (* the test x < 0; nothing is assumed about it *)

  Definition rops : numops T :=
    {| zero := rO; one := rI; add := radd; mul := rmul; sub := rsub; isneg := neg |}.
  Notation ops := rops.

  Definition sym33 (m : m33 T) : Prop := forall i j, get m i j = get m j i.

  (* what the constructor stores for cell c *)
  Definition cell_matrix (kxx kyy kzz kxy kxz kyz : list T) (c : nat) : m33 T :=
    ((nthT ops kxx c, nthT ops kxy c, nthT ops kxz c),
     (nthT ops kxy c, nthT ops kyy c, nthT ops kyz c),
     (nthT ops kxz c, nthT ops kyz c, nthT ops kzz c)).

  Definition dflt (o : option (list T)) (d : list T) : list T :=
    match o with Some a => a | None => d end.

  Lemma second_order_layout : forall kxx kyy kzz kxy kxz kyz t,
    second_order ops kxx kyy kzz kxy kxz kyz = Ok t ->
    let z := map (rmul rO) kxx in
    t = map (cell_matrix kxx (dflt kyy kxx) (dflt kzz kxx) (dflt kxy z) (dflt kxz z)
                         (dflt kyz z)) (seq 0 (length kxx)).
  Proof.
    intros kxx kyy kzz kxy kxz kyz t H. unfold second_order in H.
    destruct (any_neg ops kxx); [discriminate|].
    destruct (any_neg ops (cellwise _ _)); [discriminate|].
    destruct (any_neg ops (cellwise _ _)); [discriminate|].
    injection H as <-. reflexivity.
  Qed.

  Lemma second_order_symmetric : forall kxx kyy kzz kxy kxz kyz t,
    second_order ops kxx kyy kzz kxy kxz kyz = Ok t ->
    length t = length kxx /\ Forall sym33 t.
  Proof.
    intros kxx kyy kzz kxy kxz kyz t H. rewrite (second_order_layout _ _ _ _ _ _ _ H).
    split; [now rewrite map_length, seq_length|].
    apply Forall_forall. intros m Hm. apply in_map_iff in Hm as (c & <- & _).
    intros i j; destruct i, j; reflexivity.
  Qed.

  (* the constructor raises exactly when one of its three tests finds a negative value *)
  Lemma second_order_error : forall kxx kyy kzz kxy kxz kyz e,
    second_order ops kxx kyy kzz kxy kxz kyz = Err e -> e = ValueErr.
  Proof.
    intros kxx kyy kzz kxy kxz kyz e H. unfold second_order in H.
    destruct (any_neg ops kxx); [now injection H|].
    destruct (any_neg ops (cellwise _ _)); [now injection H|].
    destruct (any_neg ops (cellwise _ _)); [now injection H|discriminate].
  Qed.

  (* ---------------- rotation ---------------- *)
  Ltac open_m m :=
    let a := fresh m "00" in let b := fresh m "01" in let c := fresh m "02" in
    let d := fresh m "10" in let e := fresh m "11" in let f := fresh m "12" in
    let g := fresh m "20" in let h := fresh m "21" in let k := fresh m "22" in
    destruct m as [[[[a b] c] [[d e] f]] [[g h] k]].

  (* the two tensordot calls compute  R * K^T * R^T  (= R K R^T for symmetric K) *)
  Lemma rot1_formula : forall R K,
    rot1 ops R K = mmul ops (mmul ops R (transpose K)) (transpose R).
  Proof.
    intros R K. open_m R. open_m K.
    unfold rot1, mmul, transpose, build, sum3; cbn.
    repeat (f_equal; try ring).
  Qed.

  Lemma transpose_sym : forall K, sym33 K -> transpose K = K.
  Proof.
    intros K H. pose proof (H I0 I1) as H01. pose proof (H I0 I2) as H02.
    pose proof (H I1 I2) as H12. open_m K. cbn in *. unfold transpose, build; cbn.
    now rewrite H01, H02, H12.
  Qed.

  Lemma rot1_symmetric : forall R K, sym33 K -> sym33 (rot1 ops R K).
  Proof.
    intros R K H. pose proof (H I0 I1) as H01. pose proof (H I0 I2) as H02.
    pose proof (H I1 I2) as H12. open_m R. open_m K. cbn in *. subst.
    intros i j; destruct i, j; unfold rot1, build, sum3; cbn; ring.
  Qed.

  Definition orthogonal (R : m33 T) : Prop := mmul ops (transpose R) R = ident ops.

  (* adjugate (transposed cofactor matrix) *)
  Definition adj (m : m33 T) : m33 T :=
    let g := get m in
    let mn a b c d := rsub (rmul (g a c) (g b d)) (rmul (g a d) (g b c)) in
    ((mn I1 I2 I1 I2, rsub rO (mn I0 I2 I1 I2), mn I0 I1 I1 I2),
     (rsub rO (mn I1 I2 I0 I2), mn I0 I2 I0 I2, rsub rO (mn I0 I1 I0 I2)),
     (mn I1 I2 I0 I1, rsub rO (mn I0 I2 I0 I1), mn I0 I1 I0 I1)).

  Ltac mat_eq := unfold adj, mmul, transpose, ident, build, sum3; cbn; repeat (f_equal; try ring).

  Lemma inv2_trace_adj : forall M, inv2 ops M = trace ops (adj M).
  Proof. intros M. open_m M. unfold inv2, trace, adj; cbn. ring. Qed.

  Lemma inv2_transpose : forall M, inv2 ops (transpose M) = inv2 ops M.
  Proof. intros M. open_m M. unfold inv2, transpose, build; cbn. ring. Qed.

  Lemma adj_mmul : forall A B, adj (mmul ops A B) = mmul ops (adj B) (adj A).
  Proof. intros A B. open_m A. open_m B. mat_eq. Qed.

  Lemma trace_cyc : forall A B, trace ops (mmul ops A B) = trace ops (mmul ops B A).
  Proof. intros A B. open_m A. open_m B. unfold trace, mmul, build, sum3; cbn. ring. Qed.

  Lemma mmul_assoc : forall A B C, mmul ops (mmul ops A B) C = mmul ops A (mmul ops B C).
  Proof. intros A B C. open_m A. open_m B. open_m C. mat_eq. Qed.

  Lemma adj_ident : adj (ident ops) = ident ops.
  Proof. mat_eq. Qed.

  Lemma mmul_ident_r : forall A, mmul ops A (ident ops) = A.
  Proof. intros A. open_m A. mat_eq. Qed.

  Lemma trace_rot_id : forall R K,
    trace ops (rot1 ops R K) = trace ops (mmul ops (mmul ops (transpose R) R) (transpose K)).
  Proof.
    intros R K. open_m R. open_m K. unfold trace, rot1, mmul, transpose, build, sum3; cbn. ring.
  Qed.

  Lemma det_rot_id : forall R K,
    det ops (rot1 ops R K) = rmul (det ops (mmul ops (transpose R) R)) (det ops K).
  Proof.
    intros R K. open_m R. open_m K. unfold det, rot1, mmul, transpose, build, sum3; cbn. ring.
  Qed.

  Lemma rot_invariants : forall R K, orthogonal R ->
    trace ops (rot1 ops R K) = trace ops K /\
    det ops (rot1 ops R K) = det ops K /\
    inv2 ops (rot1 ops R K) = inv2 ops K.
  Proof.
    intros R K H. unfold orthogonal in H. repeat split.
    - rewrite trace_rot_id, H. open_m K. unfold trace, mmul, transpose, ident, build, sum3; cbn.
      ring.
    - rewrite det_rot_id, H. open_m K. unfold det, ident, build; cbn. ring.
    - rewrite rot1_formula, inv2_trace_adj, !adj_mmul, trace_cyc, mmul_assoc.
      rewrite <- adj_mmul, H, adj_ident, mmul_ident_r, <- inv2_trace_adj.
      apply inv2_transpose.
  Qed.

  (* characteristic polynomial det(lam*I - M) in terms of the three invariants *)
  Lemma charpoly_invariants : forall lam M,
    det ops (lam_minus ops lam M) =
    rsub (radd (rsub (rmul lam (rmul lam lam)) (rmul (trace ops M) (rmul lam lam)))
               (rmul (inv2 ops M) lam)) (det ops M).
  Proof.
    intros lam M. open_m M. unfold det, trace, inv2, lam_minus, build; cbn. ring.
  Qed.

  Lemma rot_charpoly : forall R K lam, orthogonal R ->
    det ops (lam_minus ops lam (rot1 ops R K)) = det ops (lam_minus ops lam K).
  Proof.
    intros R K lam H. rewrite !charpoly_invariants.
    destruct (rot_invariants R K H) as (-> & -> & ->). reflexivity.
  Qed.

  Lemma rotate_cells : forall R t,
    length (rotate ops R t) = length t /\
    forall c d, nth c (rotate ops R t) (rot1 ops R d) = rot1 ops R (nth c t d).
  Proof.
    intros R t. unfold rotate. split; [apply map_length|]. intros c d. apply map_nth.
  Qed.
End RingProofs.

(* ------------------------------------------------------------------------------------ *)
(* copy, restriction, fourth-order tensor                                                 *)
(* ------------------------------------------------------------------------------------ *)
Section RingProofs2.
  Variable T : Type.
  Variables (rO rI : T) (radd rmul rsub : T -> T -> T) (ropp : T -> T).
  Hypothesis Rth : ring_theory rO rI radd rmul rsub ropp eq.
  Add Ring Tring2 : Rth.
  Variable neg : T -> bool.
  Notation ops := (rops T rO rI radd rmul rsub neg).

  Lemma nthT_map_seq : forall (f : nat -> T) n c, c < n ->
    nthT ops (map f (seq 0 n)) c = f c.
  Proof.
    intros f n c H. unfold nthT.
    rewrite (nth_indep _ (zero ops) (f 0)) by (now rewrite map_length, seq_length).
    rewrite map_nth, seq_nth by assumption. reflexivity.
  Qed.

  Lemma existsb_cellwise_ext : forall n (f g : nat -> T),
    (forall c, c < n -> f c = g c) ->
    any_neg ops (cellwise n f) = any_neg ops (cellwise n g).
  Proof.
    intros n f g H. unfold any_neg, cellwise. f_equal. apply map_ext_in.
    intros c Hc. apply in_seq in Hc. apply H. lia.
  Qed.

  (* the constructor only looks at the first Nc entries of its arrays *)
  Lemma second_order_ext : forall kxx yy zz xy xz yz yy' zz' xy' xz' yz',
    (forall c, c < length kxx ->
       nthT ops yy c = nthT ops yy' c /\ nthT ops zz c = nthT ops zz' c /\
       nthT ops xy c = nthT ops xy' c /\ nthT ops xz c = nthT ops xz' c /\
       nthT ops yz c = nthT ops yz' c) ->
    second_order ops kxx (Some yy) (Some zz) (Some xy) (Some xz) (Some yz) =
    second_order ops kxx (Some yy') (Some zz') (Some xy') (Some xz') (Some yz').
  Proof.
    intros kxx yy zz xy xz yz yy' zz' xy' xz' yz' H. unfold second_order.
    destruct (any_neg ops kxx); [reflexivity|].
    match goal with
    | |- (if any_neg ops (cellwise ?n ?f) then _ else _) =
         (if any_neg ops (cellwise ?n ?g) then _ else _) =>
        replace (cellwise n f) with (cellwise n g)
    end.
    2:{ apply map_ext_in; intros c Hc; apply in_seq in Hc.
        destruct (H c ltac:(lia)) as (E1 & E2 & E3 & E4 & E5).
        rewrite ?E1, ?E2, ?E3, ?E4, ?E5. reflexivity. }
    match goal with |- (if ?b then _ else _) = _ => destruct b; [reflexivity|] end.
    match goal with
    | |- (if any_neg ops (cellwise ?n ?f) then _ else _) =
         (if any_neg ops (cellwise ?n ?g) then _ else _) =>
        replace (cellwise n f) with (cellwise n g)
    end.
    2:{ apply map_ext_in; intros c Hc; apply in_seq in Hc.
        destruct (H c ltac:(lia)) as (E1 & E2 & E3 & E4 & E5).
        rewrite ?E1, ?E2, ?E3, ?E4, ?E5. reflexivity. }
    match goal with |- (if ?b then _ else _) = _ => destruct b; [reflexivity|] end.
    f_equal. apply map_ext_in; intros c Hc; apply in_seq in Hc.
    destruct (H c ltac:(lia)) as (E1 & E2 & E3 & E4 & E5).
        rewrite ?E1, ?E2, ?E3, ?E4, ?E5. reflexivity.
  Qed.

  (* a tensor produced by the constructor passes the constructor's tests again and is
     re-built identically: copy returns an equal tensor (value equality; independence of
     the arrays is checked by the tie) *)
  Lemma copy_of_constructed : forall kxx kyy kzz kxy kxz kyz t,
    second_order ops kxx kyy kzz kxy kxz kyz = Ok t -> copy2 ops t = Ok t.
  Proof.
    intros kxx kyy kzz kxy kxz kyz t H.
    pose proof (second_order_layout T rO rI radd rmul rsub neg _ _ _ _ _ _ _ H) as Ht.
    cbv zeta in Ht.
    set (z := map (rmul rO) kxx) in *.
    set (yy := dflt T kyy kxx) in *. set (zz := dflt T kzz kxx) in *.
    set (xy := dflt T kxy z) in *. set (xz := dflt T kxz z) in *. set (yz := dflt T kyz z) in *.
    rewrite <- H.
    change (second_order ops kxx kyy kzz kxy kxz kyz)
      with (second_order ops kxx (Some yy) (Some zz) (Some xy) (Some xz) (Some yz)).
    unfold copy2.
    assert (G : forall (i j : idx) c, c < length kxx ->
              nthT ops (map (fun m => get m i j) t) c =
              get (cell_matrix T rO rI radd rmul rsub neg kxx yy zz xy xz yz c) i j).
    { intros i j c Hc. rewrite Ht, map_map. now rewrite nthT_map_seq. }
    assert (Hxx : map (fun m => get m I0 I0) t = kxx).
    { rewrite Ht, map_map. cbn. unfold nthT. apply map_nth_seq. }
    rewrite Hxx. apply second_order_ext. intros c Hc. rewrite !G by assumption.
    repeat split; reflexivity.
  Qed.

  (* restriction of a constructed tensor selects exactly the given cells *)
  Lemma restrict_of_constructed : forall kxx kyy kzz kxy kxz kyz t cells,
    second_order ops kxx kyy kzz kxy kxz kyz = Ok t ->
    restrict2 ops t cells = take_cells t cells.
  Proof.
    intros. unfold restrict2. now rewrite (copy_of_constructed _ _ _ _ _ _ _ H).
  Qed.

  (* ---------------- fourth order ---------------- *)
  Definition delta (i j : idx) : T :=
    match i, j with I0, I0 | I1, I1 | I2, I2 => rI | _, _ => rO end.
  Definition n_of (i : idx) : nat := match i with I0 => 0 | I1 => 1 | I2 => 2 end.

  (* the 9x9 matrix of a cell is the isotropic stiffness tensor
       C_ijkl = lmbda d_ij d_kl + mu (d_ik d_jl + d_il d_jk),  row 3i+j, column 3k+l *)
  Lemma stiff_cell_formula : forall mu la i j k l,
    entry ops (stiff_cell ops mu la) (3 * n_of i + n_of j) (3 * n_of k + n_of l) =
    radd (rmul la (rmul (delta i j) (delta k l)))
         (rmul mu (radd (rmul (delta i k) (delta j l)) (rmul (delta i l) (delta j k)))).
  Proof.
    intros mu la i j k l. destruct i, j, k, l; cbn; ring.
  Qed.

  Lemma stiff_cell_symmetric : forall mu la p q, p < 9 -> q < 9 ->
    entry ops (stiff_cell ops mu la) p q = entry ops (stiff_cell ops mu la) q p.
  Proof.
    intros mu la p q Hp Hq.
    do 9 (destruct p as [|p]; [do 9 (destruct q as [|q]; [reflexivity|]); lia|]). lia.
  Qed.

  Lemma stiff_cell_shape : forall mu la,
    length (stiff_cell ops mu la) = 9 /\ Forall (fun r => length r = 9) (stiff_cell ops mu la).
  Proof. intros. split; [reflexivity|]. repeat constructor. Qed.

  Lemma fourth_order_spec : forall mu la,
    (length mu = length la ->
       fourth_order ops mu la =
       Ok {| t_mu := mu; t_lmbda := la;
             t_values := map (fun ml => stiff_cell ops (fst ml) (snd ml)) (combine mu la) |}) /\
    (length mu <> length la -> fourth_order ops mu la = Err ValueErr).
  Proof.
    intros mu la. unfold fourth_order. split; intros H.
    - now rewrite H, Nat.eqb_refl.
    - apply Nat.eqb_neq in H. now rewrite H.
  Qed.

  Lemma copy4_of_constructed : forall mu la t,
    fourth_order ops mu la = Ok t -> copy4 ops t = Ok t.
  Proof.
    intros mu la t H. unfold fourth_order in H.
    destruct (Nat.eqb (length mu) (length la)) eqn:E; [|discriminate]. cbn in H.
    injection H as <-. unfold copy4, fourth_order. cbn. rewrite E. reflexivity.
  Qed.

  (* restriction commutes with construction: the restricted tensor is the tensor of the
     selected mu / lmbda values *)
  Lemma restrict4_of_constructed : forall mu la t cells t',
    fourth_order ops mu la = Ok t -> restrict4 ops t cells = Ok t' ->
    take_cells mu cells = Ok (t_mu t') /\ take_cells la cells = Ok (t_lmbda t') /\
    take_cells (t_values t) cells = Ok (t_values t') /\
    fourth_order ops (t_mu t') (t_lmbda t') = Ok t'.
  Proof.
    intros mu la t cells t' H Hr. unfold restrict4 in Hr.
    rewrite (copy4_of_constructed _ _ _ H) in Hr.
    unfold fourth_order in H.
    destruct (Nat.eqb (length mu) (length la)) eqn:E; [|discriminate]. cbn in H.
    apply Nat.eqb_eq in E. injection H as <-. cbn in Hr.
    destruct (take_cells mu cells) as [m|] eqn:Em; [|discriminate].
    destruct (take_cells la cells) as [l|] eqn:El; [|discriminate].
    rewrite take_cells_map, (take_cells_combine mu la cells m l E Em El) in Hr.
    injection Hr as <-. cbn. repeat split.
    - now rewrite take_cells_map, (take_cells_combine mu la cells m l E Em El).
    - unfold fourth_order.
      assert (length m = length l) as ->.
      { apply take_cells_spec in Em. apply take_cells_spec in El.
        apply Forall2_len in Em. apply Forall2_len in El. congruence. }
      now rewrite Nat.eqb_refl.
  Qed.

  Lemma restrict4_error : forall mu la t cells e,
    fourth_order ops mu la = Ok t -> restrict4 ops t cells = Err e ->
    e = IndexErr /\ Exists (fun c => ~ in_range (Z.of_nat (length mu)) c) cells.
  Proof.
    intros mu la t cells e H Hr. unfold restrict4 in Hr.
    rewrite (copy4_of_constructed _ _ _ H) in Hr.
    unfold fourth_order in H.
    destruct (Nat.eqb (length mu) (length la)) eqn:E; [|discriminate]. cbn in H.
    apply Nat.eqb_eq in E. injection H as <-. cbn in Hr.
    destruct (take_cells mu cells) as [m|e1] eqn:Em.
    - exfalso.
      destruct (take_cells la cells) as [l|e2] eqn:El.
      + rewrite take_cells_map, (take_cells_combine mu la cells m l E Em El) in Hr. discriminate.
      + apply take_cells_error in El as [_ Hex]. rewrite <- E in Hex.
        apply take_cells_spec in Em. clear -Em Hex.
        induction Em; inversion Hex; subst; tauto.
    - injection Hr as <-. now apply take_cells_error.
  Qed.
End RingProofs2.

(* ------------------------------------------------------------------------------------ *)
(* fourth-order tensor with other_fields (any number type)                                *)
(* ------------------------------------------------------------------------------------ *)
Section Extra.
  Context {T : Type} (ops : numops T).

  Lemma take_all_spec : forall (fields : list (list T)) cells fs,
    take_all fields cells = Ok fs ->
    Forall2 (fun f f' => take_cells f cells = Ok f') fields fs.
  Proof.
    induction fields as [|f r IH]; intros cells fs H; cbn in H.
    - injection H as <-. constructor.
    - destruct (take_cells f cells) as [f'|] eqn:Ef; [|discriminate].
      destruct (take_all r cells) as [r'|] eqn:Er; [|discriminate].
      injection H as <-. constructor; auto.
  Qed.

  Lemma copy4x_of_constructed : forall mu la mats fields t,
    fourth_order_x ops mu la mats fields = Ok t -> copy4x ops t = Ok t.
  Proof.
    intros mu la mats fields t H. unfold fourth_order_x in H.
    destruct (Nat.eqb (length mu) (length la)) eqn:E; [|discriminate]. cbn in H.
    injection H as <-. unfold copy4x, fourth_order_x. cbn. rewrite E. reflexivity.
  Qed.

  (* copy keeps, and restriction selects the requested cells of, EVERY constitutive
     parameter (mu, lmbda and each extra field) and of the values *)
  Lemma restrict4x_of_constructed : forall mu la mats fields t cells t',
    fourth_order_x ops mu la mats fields = Ok t -> restrict4x ops t cells = Ok t' ->
    take_cells mu cells = Ok (x_mu t') /\ take_cells la cells = Ok (x_lmbda t') /\
    Forall2 (fun f f' => take_cells f cells = Ok f') fields (x_fields t') /\
    take_cells (x_values t) cells = Ok (x_values t') /\ x_mats t' = mats.
  Proof.
    intros mu la mats fields t cells t' H Hr. unfold restrict4x in Hr.
    rewrite (copy4x_of_constructed _ _ _ _ _ H) in Hr.
    unfold fourth_order_x in H.
    destruct (Nat.eqb (length mu) (length la)); [|discriminate]. cbn in H.
    injection H as <-. cbn in Hr.
    destruct (take_cells mu cells) as [m|]; [|discriminate].
    destruct (take_cells la cells) as [l|]; [|discriminate].
    destruct (take_all fields cells) as [fs|] eqn:Ef; [|discriminate].
    match type of Hr with match ?X with _ => _ end = _ => destruct X as [v|] eqn:Ev end;
      [|discriminate].
    injection Hr as <-. cbn. repeat split; auto. now apply take_all_spec.
  Qed.
End Extra.

(* ------------------------------------------------------------------------------------ *)
(* the statements of Props/C40.v                                                          *)
(* ------------------------------------------------------------------------------------ *)
Lemma C40_second_order_symmetric_l :
  forall (T : Type) (rO rI : T) (radd rmul rsub : T -> T -> T) (neg : T -> bool)
         (kxx : list T) (kyy kzz kxy kxz kyz : option (list T)),
    let ops := rops T rO rI radd rmul rsub neg in
    (forall t, second_order ops kxx kyy kzz kxy kxz kyz = Ok t ->
       length t = length kxx /\ Forall (sym33 T) t /\
       let z := map (rmul rO) kxx in
       t = map (cell_matrix T rO rI radd rmul rsub neg kxx (dflt T kyy kxx) (dflt T kzz kxx)
                            (dflt T kxy z) (dflt T kxz z) (dflt T kyz z))
               (seq 0 (length kxx))) /\
    (forall e, second_order ops kxx kyy kzz kxy kxz kyz = Err e -> e = ValueErr).
Proof.
  intros T rO rI radd rmul rsub neg kxx kyy kzz kxy kxz kyz ops. split.
  - intros t H. destruct (second_order_symmetric T rO rI radd rmul rsub neg _ _ _ _ _ _ _ H).
    repeat split; auto. exact (second_order_layout T rO rI radd rmul rsub neg _ _ _ _ _ _ _ H).
  - exact (second_order_error T rO rI radd rmul rsub neg kxx kyy kzz kxy kxz kyz).
Qed.

Lemma C40_rotate_similarity_l :
  forall (T : Type) (rO rI : T) (radd rmul rsub : T -> T -> T) (ropp : T -> T),
    ring_theory rO rI radd rmul rsub ropp eq ->
  forall (neg : T -> bool) (R K : m33 T),
    let ops := rops T rO rI radd rmul rsub neg in
    rot1 ops R K = mmul ops (mmul ops R (transpose K)) (transpose R) /\
    (sym33 T K -> rot1 ops R K = mmul ops (mmul ops R K) (transpose R) /\
                  sym33 T (rot1 ops R K)) /\
    (orthogonal T rO rI radd rmul rsub neg R ->
       trace ops (rot1 ops R K) = trace ops K /\
       det ops (rot1 ops R K) = det ops K /\
       inv2 ops (rot1 ops R K) = inv2 ops K /\
       forall lam, det ops (lam_minus ops lam (rot1 ops R K)) = det ops (lam_minus ops lam K)).
Proof.
  intros T rO rI radd rmul rsub ropp Rth neg R K ops.
  pose proof (rot1_formula T rO rI radd rmul rsub ropp Rth neg R K) as F.
  split; [exact F|]. split.
  - intros S. split.
    + unfold ops. rewrite F. now rewrite (transpose_sym T K S).
    + exact (rot1_symmetric T rO rI radd rmul rsub ropp Rth neg R K S).
  - intros O. destruct (rot_invariants T rO rI radd rmul rsub ropp Rth neg R K O) as (A & B & C).
    repeat split; auto.
    intros lam. exact (rot_charpoly T rO rI radd rmul rsub ropp Rth neg R K lam O).
Qed.

Lemma C40_restrict_selects_l :
  forall (T : Type) (rO rI : T) (radd rmul rsub : T -> T -> T) (neg : T -> bool)
         kxx kyy kzz kxy kxz kyz (t : list (m33 T)) (cells : list Z),
    let ops := rops T rO rI radd rmul rsub neg in
    let n := Z.of_nat (length t) in
    second_order ops kxx kyy kzz kxy kxz kyz = Ok t ->
    (forall r, restrict2 ops t cells = Ok r ->
       Forall2 (fun c x => in_range n c /\ nth_error t (Z.to_nat (wrap n c)) = Some x) cells r) /\
    (Forall (in_range n) cells -> exists r, restrict2 ops t cells = Ok r) /\
    (forall e, restrict2 ops t cells = Err e ->
       e = IndexErr /\ Exists (fun c => ~ in_range n c) cells).
Proof.
  intros T rO rI radd rmul rsub neg kxx kyy kzz kxy kxz kyz t cells ops n H.
  unfold ops. rewrite (restrict_of_constructed T rO rI radd rmul rsub neg _ _ _ _ _ _ _ cells H).
  repeat split.
  - intros r Hr. exact (take_cells_spec t cells r Hr).
  - exact (take_cells_total t cells).
  - apply take_cells_error in H0. tauto.
  - apply take_cells_error in H0. tauto.
Qed.

Lemma C40_copy_equal_l :
  forall (T : Type) (rO rI : T) (radd rmul rsub : T -> T -> T) (neg : T -> bool)
         kxx kyy kzz kxy kxz kyz (t : list (m33 T)) mu la (t4 : @tensor4 T),
    let ops := rops T rO rI radd rmul rsub neg in
    (second_order ops kxx kyy kzz kxy kxz kyz = Ok t -> copy2 ops t = Ok t) /\
    (fourth_order ops mu la = Ok t4 -> copy4 ops t4 = Ok t4).
Proof.
  intros. split.
  - exact (copy_of_constructed T rO rI radd rmul rsub neg _ _ _ _ _ _ t).
  - exact (copy4_of_constructed T rO rI radd rmul rsub neg mu la t4).
Qed.

Lemma C40_fourth_order_symmetric_l :
  forall (T : Type) (rO rI : T) (radd rmul rsub : T -> T -> T) (ropp : T -> T),
    ring_theory rO rI radd rmul rsub ropp eq ->
  forall (neg : T -> bool),
    let ops := rops T rO rI radd rmul rsub neg in
    (forall mu la : list T,
       (length mu = length la ->
          fourth_order ops mu la =
          Ok {| t_mu := mu; t_lmbda := la;
                t_values := map (fun ml => stiff_cell ops (fst ml) (snd ml)) (combine mu la) |}) /\
       (length mu <> length la -> fourth_order ops mu la = Err ValueErr)) /\
    (forall (mu la : T) i j k l,
       entry ops (stiff_cell ops mu la) (3 * n_of i + n_of j) (3 * n_of k + n_of l) =
       radd (rmul la (rmul (delta T rO rI i j) (delta T rO rI k l)))
            (rmul mu (radd (rmul (delta T rO rI i k) (delta T rO rI j l))
                           (rmul (delta T rO rI i l) (delta T rO rI j k))))) /\
    (forall (mu la : T),
       length (stiff_cell ops mu la) = 9 /\
       Forall (fun r => length r = 9) (stiff_cell ops mu la) /\
       forall p q, p < 9 -> q < 9 ->
         entry ops (stiff_cell ops mu la) p q = entry ops (stiff_cell ops mu la) q p).
Proof.
  intros T rO rI radd rmul rsub ropp Rth neg ops. repeat split.
  - apply (fourth_order_spec T rO rI radd rmul rsub neg mu la).
  - apply (fourth_order_spec T rO rI radd rmul rsub neg mu la).
  - intros. exact (stiff_cell_formula T rO rI radd rmul rsub ropp Rth neg mu la i j k l).
  - apply (stiff_cell_shape T rO rI radd rmul rsub neg mu la).
  - exact (stiff_cell_symmetric T rO rI radd rmul rsub neg mu la).
Qed.

Lemma C40_restrict_fourth_order_l :
  forall (T : Type) (rO rI : T) (radd rmul rsub : T -> T -> T) (neg : T -> bool)
         (mu la : list T) (t : @tensor4 T) (cells : list Z),
    let ops := rops T rO rI radd rmul rsub neg in
    fourth_order ops mu la = Ok t ->
    (forall t', restrict4 ops t cells = Ok t' ->
       take_cells mu cells = Ok (t_mu t') /\ take_cells la cells = Ok (t_lmbda t') /\
       take_cells (t_values t) cells = Ok (t_values t') /\
       fourth_order ops (t_mu t') (t_lmbda t') = Ok t') /\
    (forall e, restrict4 ops t cells = Err e ->
       e = IndexErr /\ Exists (fun c => ~ in_range (Z.of_nat (length mu)) c) cells).
Proof.
  intros T rO rI radd rmul rsub neg mu la t cells ops H. split.
  - intros t' Hr. exact (restrict4_of_constructed T rO rI radd rmul rsub neg mu la t cells t' H Hr).
  - intros e Hr. exact (restrict4_error T rO rI radd rmul rsub neg mu la t cells e H Hr).
Qed.

Lemma other_fields_l :
  forall (T : Type) (ops : numops T) (mu la : list T) (mats : list (list (list T)))
         (fields : list (list T)) (t : @tensor4x T) (cells : list Z),
    fourth_order_x ops mu la mats fields = Ok t ->
    copy4x ops t = Ok t /\
    (forall t', restrict4x ops t cells = Ok t' ->
       take_cells mu cells = Ok (x_mu t') /\ take_cells la cells = Ok (x_lmbda t') /\
       Forall2 (fun f f' => take_cells f cells = Ok f') fields (x_fields t') /\
       take_cells (x_values t) cells = Ok (x_values t') /\ x_mats t' = mats).
Proof.
  intros T ops mu la mats fields t cells H. split.
  - exact (copy4x_of_constructed ops mu la mats fields t H).
  - intros t' Hr. exact (restrict4x_of_constructed ops mu la mats fields t cells t' H Hr).
Qed.
