(* C40 — proofs about the model PP.Model.C40 (material tensors), for ANY commutative ring
   (ring_theory over Leibniz equality; instances: R, Z, ...). *)
From Coq Require Import List ZArith Bool Ring Lia.
Import ListNotations.
From PP Require Import Model.C40.

(* ------------------------------------------------------------------------------------ *)
(* cell selection (any element type)                                                      *)
(* ------------------------------------------------------------------------------------ *)
Definition wrap (n c : Z) : Z := if (c <? 0)%Z then (c + n)%Z else c.
Definition in_range (n c : Z) : Prop := (- n <= c < n)%Z.

Lemma take_cells_spec : forall {A} (l : list A) cells r,
  take_cells l cells = Ok r ->
  Forall2 (fun c x => in_range (Z.of_nat (length l)) c /\
                      nth_error l (Z.to_nat (wrap (Z.of_nat (length l)) c)) = Some x) cells r.
Proof.
  intros A l. induction cells as [|c cs IH]; intros r H; cbn in H.
  - injection H as <-. constructor.
  - fold (wrap (Z.of_nat (length l)) c) in H.
    set (n := Z.of_nat (length l)) in *.
    destruct ((wrap n c <? 0)%Z || (n <=? wrap n c)%Z) eqn:E; [discriminate|].
    apply orb_false_iff in E as [E1 E2]. apply Z.ltb_ge in E1. apply Z.leb_gt in E2.
    destruct (nth_error l (Z.to_nat (wrap n c))) as [x|] eqn:Ex;
      destruct (take_cells l cs) as [xs|e] eqn:Et; try discriminate.
    injection H as <-. constructor; [|now apply IH].
    split; [|exact Ex]. unfold in_range, wrap in *. destruct (c <? 0)%Z eqn:Ec.
    + apply Z.ltb_lt in Ec. lia.
    + apply Z.ltb_ge in Ec. lia.
Qed.

Lemma take_cells_total : forall {A} (l : list A) cells,
  Forall (in_range (Z.of_nat (length l))) cells -> exists r, take_cells l cells = Ok r.
Proof.
  intros A l. induction cells as [|c cs IH]; intros H; [eexists; reflexivity|].
  inversion H as [|? ? Hc Hcs]; subst. destruct (IH Hcs) as [r Hr]. cbn.
  fold (wrap (Z.of_nat (length l)) c). set (n := Z.of_nat (length l)) in *.
  assert (0 <= wrap n c < n)%Z as Hw.
  { unfold in_range, wrap in *. destruct (c <? 0)%Z eqn:Ec.
    - apply Z.ltb_lt in Ec. lia.
    - apply Z.ltb_ge in Ec. lia. }
  replace ((wrap n c <? 0)%Z || (n <=? wrap n c)%Z) with false.
  2:{ symmetry. apply orb_false_iff. split; [apply Z.ltb_ge|apply Z.leb_gt]; lia. }
  destruct (nth_error l (Z.to_nat (wrap n c))) as [x|] eqn:Ex.
  - rewrite Hr. eauto.
  - apply nth_error_None in Ex. subst n. lia.
Qed.

Lemma take_cells_error : forall {A} (l : list A) cells e,
  take_cells l cells = Err e ->
  e = IndexErr /\ Exists (fun c => ~ in_range (Z.of_nat (length l)) c) cells.
Proof.
  intros A l cells e H. split.
  - revert H. induction cells as [|c cs IH]; cbn; [discriminate|].
    destruct (_ || _); [now intros [= <-]|].
    destruct (nth_error l _); destruct (take_cells l cs); try discriminate;
      intros [= <-]; auto.
  - destruct (Forall_Exists_dec (in_range (Z.of_nat (length l)))
               (fun c => ltac:(unfold in_range;
                  destruct (Z_le_dec (- Z.of_nat (length l)) c);
                  destruct (Z_lt_dec c (Z.of_nat (length l))); [left; lia|right; lia..])) cells)
      as [Hall|Hex]; [|exact Hex].
    destruct (take_cells_total l cells Hall) as [r Hr]. congruence.
Qed.

Lemma take_cells_map : forall {A B} (f : A -> B) l cells,
  take_cells (map f l) cells =
  match take_cells l cells with Ok r => Ok (map f r) | Err e => Err e end.
Proof.
  intros A B f l. induction cells as [|c cs IH]; cbn; [reflexivity|].
  rewrite map_length. destruct (_ || _); [reflexivity|].
  rewrite nth_error_map, IH.
  destruct (nth_error l _); destruct (take_cells l cs); reflexivity.
Qed.

Lemma nth_error_combine : forall {A B} (a : list A) (b : list B) k,
  nth_error (combine a b) k =
  match nth_error a k, nth_error b k with Some x, Some y => Some (x, y) | _, _ => None end.
Proof.
  induction a as [|x a IH]; intros b k; destruct b as [|y b], k as [|k]; cbn; try reflexivity.
  - now destruct (nth_error a k).
  - apply IH.
Qed.

Lemma take_cells_combine : forall {A B} (a : list A) (b : list B) cells ra rb,
  length a = length b ->
  take_cells a cells = Ok ra -> take_cells b cells = Ok rb ->
  take_cells (combine a b) cells = Ok (combine ra rb).
Proof.
  intros A B a b cells ra rb Hl. revert ra rb.
  induction cells as [|c cs IH]; intros ra rb Ha Hb; cbn in *.
  - injection Ha as <-. injection Hb as <-. reflexivity.
  - rewrite combine_length, <- Hl, Nat.min_id. rewrite <- Hl in Hb.
    destruct (_ || _); [discriminate|].
    rewrite nth_error_combine.
    destruct (nth_error a _) as [x|]; destruct (take_cells a cs) as [xs|]; try discriminate.
    destruct (nth_error b _) as [y|]; destruct (take_cells b cs) as [ys|]; try discriminate.
    injection Ha as <-. injection Hb as <-. rewrite (IH xs ys eq_refl eq_refl). reflexivity.
Qed.

Lemma map_nth_seq : forall {A} (l : list A) d,
  map (fun c => nth c l d) (seq 0 (length l)) = l.
Proof.
  intros A l d. apply nth_ext with (d := d) (d' := d).
  - now rewrite map_length, seq_length.
  - intros k Hk. rewrite map_length, seq_length in Hk.
    rewrite (nth_indep _ d (nth 0 l d)) by (now rewrite map_length, seq_length).
    rewrite (map_nth (fun c => nth c l d)), seq_nth by assumption. reflexivity.
Qed.

(* ------------------------------------------------------------------------------------ *)
(* tensors over a commutative ring                                                        *)
(* ------------------------------------------------------------------------------------ *)
Section RingProofs.
  Variable T : Type.
  Variables (rO rI : T) (radd rmul rsub : T -> T -> T) (ropp : T -> T).
  Hypothesis Rth : ring_theory rO rI radd rmul rsub ropp eq.
  Add Ring Tring : Rth.
  Variable neg : T -> bool.     (* the test x < 0; nothing is assumed about it *)

  Definition rops : numops T :=
    {| zero := rO; one := rI; add := radd; mul := rmul; sub := rsub; isneg := neg |}.
  Notation ops := rops.

  Definition sym33 (m : m33 T) : Prop := forall i j, get m i j = get m j i.

  (* what the constructor stores for cell c *)
  Definition cell_matrix (kxx kyy kzz kxy kxz kyz : list T) (c : nat) : m33 T :=
    ((nthT ops kxx c, nthT ops kxy c, nthT ops kxz c),
     (nthT ops kxy c, nthT ops kyy c, nthT ops kyz c),
     (nthT ops kxz c, nthT ops kyz c, nthT ops kzz c)).

  Definition dflt (o : option (list T)) (d : list T) : list T :=
    match o with Some a => a | None => d end.

  Lemma second_order_layout : forall kxx kyy kzz kxy kxz kyz t,
    second_order ops kxx kyy kzz kxy kxz kyz = Ok t ->
    let z := map (rmul rO) kxx in
    t = map (cell_matrix kxx (dflt kyy kxx) (dflt kzz kxx) (dflt kxy z) (dflt kxz z)
                         (dflt kyz z)) (seq 0 (length kxx)).
  Proof.
    intros kxx kyy kzz kxy kxz kyz t H. unfold second_order in H.
    destruct (any_neg ops kxx); [discriminate|].
    destruct (any_neg ops (cellwise _ _)); [discriminate|].
    destruct (any_neg ops (cellwise _ _)); [discriminate|].
    injection H as <-. reflexivity.
  Qed.

  Lemma second_order_symmetric : forall kxx kyy kzz kxy kxz kyz t,
    second_order ops kxx kyy kzz kxy kxz kyz = Ok t ->
    length t = length kxx /\ Forall sym33 t.
  Proof.
    intros kxx kyy kzz kxy kxz kyz t H. rewrite (second_order_layout _ _ _ _ _ _ _ H).
    split; [now rewrite map_length, seq_length|].
    apply Forall_forall. intros m Hm. apply in_map_iff in Hm as (c & <- & _).
    intros i j; destruct i, j; reflexivity.
  Qed.

  (* the constructor raises exactly when one of its three tests finds a negative value *)
  Lemma second_order_error : forall kxx kyy kzz kxy kxz kyz e,
    second_order ops kxx kyy kzz kxy kxz kyz = Err e -> e = ValueErr.
  Proof.
    intros kxx kyy kzz kxy kxz kyz e H. unfold second_order in H.
    destruct (any_neg ops kxx); [now injection H|].
    destruct (any_neg ops (cellwise _ _)); [now injection H|].
    destruct (any_neg ops (cellwise _ _)); [now injection H|discriminate].
  Qed.

  (* ---------------- rotation ---------------- *)
  Ltac open_m m :=
    let a := fresh m "00" in let b := fresh m "01" in let c := fresh m "02" in
    let d := fresh m "10" in let e := fresh m "11" in let f := fresh m "12" in
    let g := fresh m "20" in let h := fresh m "21" in let k := fresh m "22" in
    destruct m as [[[[a b] c] [[d e] f]] [[g h] k]].

  (* the two tensordot calls compute  R * K^T * R^T  (= R K R^T for symmetric K) *)
  Lemma rot1_formula : forall R K,
    rot1 ops R K = mmul ops (mmul ops R (transpose K)) (transpose R).
  Proof.
    intros R K. open_m R. open_m K.
    unfold rot1, mmul, transpose, build, sum3; cbn.
    repeat (f_equal; try ring).
  Qed.

  Lemma transpose_sym : forall K, sym33 K -> transpose K = K.
  Proof.
    intros K H. pose proof (H I0 I1) as H01. pose proof (H I0 I2) as H02.
    pose proof (H I1 I2) as H12. open_m K. cbn in *. unfold transpose, build; cbn.
    now rewrite H01, H02, H12.
  Qed.

  Lemma rot1_symmetric : forall R K, sym33 K -> sym33 (rot1 ops R K).
  Proof.
    intros R K H. pose proof (H I0 I1) as H01. pose proof (H I0 I2) as H02.
    pose proof (H I1 I2) as H12. open_m R. open_m K. cbn in *. subst.
    intros i j; destruct i, j; unfold rot1, build, sum3; cbn; ring.
  Qed.

  Definition orthogonal (R : m33 T) : Prop := mmul ops (transpose R) R = ident ops.

  (* adjugate (transposed cofactor matrix) *)
  Definition adj (m : m33 T) : m33 T :=
    let g := get m in
    let mn a b c d := rsub (rmul (g a c) (g b d)) (rmul (g a d) (g b c)) in
    ((mn I1 I2 I1 I2, rsub rO (mn I0 I2 I1 I2), mn I0 I1 I1 I2),
     (rsub rO (mn I1 I2 I0 I2), mn I0 I2 I0 I2, rsub rO (mn I0 I1 I0 I2)),
     (mn I1 I2 I0 I1, rsub rO (mn I0 I2 I0 I1), mn I0 I1 I0 I1)).

  Ltac mat_eq := unfold adj, mmul, transpose, ident, build, sum3; cbn; repeat (f_equal; try ring).

  Lemma inv2_trace_adj : forall M, inv2 ops M = trace ops (adj M).
  Proof. intros M. open_m M. unfold inv2, trace, adj; cbn. ring. Qed.

  Lemma inv2_transpose : forall M, inv2 ops (transpose M) = inv2 ops M.
  Proof. intros M. open_m M. unfold inv2, transpose, build; cbn. ring. Qed.

  Lemma adj_mmul : forall A B, adj (mmul ops A B) = mmul ops (adj B) (adj A).
  Proof. intros A B. open_m A. open_m B. mat_eq. Qed.

  Lemma trace_cyc : forall A B, trace ops (mmul ops A B) = trace ops (mmul ops B A).
  Proof. intros A B. open_m A. open_m B. unfold trace, mmul, build, sum3; cbn. ring. Qed.

  Lemma mmul_assoc : forall A B C, mmul ops (mmul ops A B) C = mmul ops A (mmul ops B C).
  Proof. intros A B C. open_m A. open_m B. open_m C. mat_eq. Qed.

  Lemma adj_ident : adj (ident ops) = ident ops.
  Proof. mat_eq. Qed.

  Lemma mmul_ident_r : forall A, mmul ops A (ident ops) = A.
  Proof. intros A. open_m A. mat_eq. Qed.

  Lemma trace_rot_id : forall R K,
    trace ops (rot1 ops R K) = trace ops (mmul ops (mmul ops (transpose R) R) (transpose K)).
  Proof.
    intros R K. open_m R. open_m K. unfold trace, rot1, mmul, transpose, build, sum3; cbn. ring.
  Qed.

  Lemma det_rot_id : forall R K,
    det ops (rot1 ops R K) = rmul (det ops (mmul ops (transpose R) R)) (det ops K).
  Proof.
    intros R K. open_m R. open_m K. unfold det, rot1, mmul, transpose, build, sum3; cbn. ring.
  Qed.

  Lemma rot_invariants : forall R K, orthogonal R ->
    trace ops (rot1 ops R K) = trace ops K /\
    det ops (rot1 ops R K) = det ops K /\
    inv2 ops (rot1 ops R K) = inv2 ops K.
  Proof.
    intros R K H. unfold orthogonal in H. repeat split.
    - rewrite trace_rot_id, H. open_m K. unfold trace, mmul, transpose, ident, build, sum3; cbn.
      ring.
    - rewrite det_rot_id, H. open_m K. unfold det, ident, build; cbn. ring.
    - rewrite rot1_formula, inv2_trace_adj, !adj_mmul, trace_cyc, mmul_assoc.
      rewrite <- adj_mmul, H, adj_ident, mmul_ident_r, <- inv2_trace_adj.
      apply inv2_transpose.
  Qed.

  (* characteristic polynomial det(lam*I - M) in terms of the three invariants *)
  Lemma charpoly_invariants : forall lam M,
    det ops (lam_minus ops lam M) =
    rsub (radd (rsub (rmul lam (rmul lam lam)) (rmul (trace ops M) (rmul lam lam)))
               (rmul (inv2 ops M) lam)) (det ops M).
  Proof.
    intros lam M. open_m M. unfold det, trace, inv2, lam_minus, build; cbn. ring.
  Qed.

  Lemma rot_charpoly : forall R K lam, orthogonal R ->
    det ops (lam_minus ops lam (rot1 ops R K)) = det ops (lam_minus ops lam K).
  Proof.
    intros R K lam H. rewrite !charpoly_invariants.
    destruct (rot_invariants R K H) as (-> & -> & ->). reflexivity.
  Qed.

  Lemma rotate_cells : forall R t,
    length (rotate ops R t) = length t /\
    forall c d, nth c (rotate ops R t) (rot1 ops R d) = rot1 ops R (nth c t d).
  Proof.
    intros R t. unfold rotate. split; [apply map_length|]. intros c d. apply map_nth.
  Qed.
End RingProofs.
