(* C35 — block_diag_index (both call forms): closed forms. *)
From Coq Require Import List ZArith Bool Arith Lia.
Import ListNotations.
From PP Require Import Lib.Csr Model.C35 Proofs.C35 Proofs.C35_rl Proofs.C35_csr.

(* ================================================================ block_diag_index(m) *)

(* block after block: the block's index range, once per row of the block *)
Fixpoint bdi1_spec (off : nat) (m : list nat) : list nat :=
  match m with
  | [] => []
  | s :: r => concat (repeat (seq off s) s) ++ bdi1_spec (off + s) r
  end.

Definition sumN (l : list nat) : nat := fold_right Nat.add 0 l.

Definition bdi_body (idxb idxi n : list nat) (i : list nat) (ib : nat) : list nat :=
  assign_slice i (nth ib idxi 0)
    (concat (repeat (seq (nth ib idxb 0) (nth (S ib) idxb 0 - nth ib idxb 0)) (nth (S ib) n 0))).

Lemma fold_left_map' : forall {A B C} (f : A -> B -> A) (g : C -> B) l a,
  fold_left f (map g l) a = fold_left (fun a x => f a (g x)) l a.
Proof. induction l; intros; simpl; auto. Qed.

Lemma fold_left_ext : forall {A B} (f g : A -> B -> A) l a, (forall a x, f a x = g a x) ->
  fold_left f l a = fold_left g l a.
Proof. induction l as [|x l IH]; intros a H; simpl; [reflexivity|]. rewrite H. apply IH. exact H. Qed.

Lemma concat_repeat_length : forall {E} (l : list E) k, length (concat (repeat l k)) = k * length l.
Proof. induction k; simpl; [reflexivity|]. rewrite app_length, IHk. reflexivity. Qed.

Lemma assign_slice_next : forall {E} (done v : list E) d T,
  assign_slice (done ++ repeat d (length v + T)) (length done) v = (done ++ v) ++ repeat d T.
Proof.
  intros E done v d T. unfold assign_slice.
  rewrite firstn_app, firstn_all, Nat.sub_diag. cbn [firstn]. rewrite app_nil_r.
  rewrite skipn_app, skipn_all2 by lia. cbn [app].
  replace (length done + length v - length done) with (length v) by lia.
  rewrite repeat_app, skipn_app, skipn_all2 by (rewrite repeat_length; lia).
  rewrite repeat_length, Nat.sub_diag. cbn [skipn app]. rewrite <- app_assoc. reflexivity.
Qed.

Lemma bdi1_gen : forall m off pos done x, length done = pos ->
  fold_left (bdi_body (off :: cumsumN off m) (pos :: cumsumN pos (map (fun s => s * s) m)) (x :: m))
            (seq 0 (length m)) (done ++ repeat 0 (sumN (map (fun s => s * s) m)))
  = done ++ bdi1_spec off m.
Proof.
  induction m as [|s r IH]; intros off pos done x Hd.
  - cbn. reflexivity.
  - cbn [length seq fold_left map cumsumN sumN fold_right bdi1_spec].
    unfold bdi_body at 2. cbn [nth].
    replace (off + s - off) with s by lia.
    assert (Hv : length (concat (repeat (seq off s) s)) = s * s)
      by (rewrite concat_repeat_length, seq_length; reflexivity).
    subst pos.
    replace (repeat 0 (s * s + fold_right Nat.add 0 (map (fun s0 => s0 * s0) r)))
      with (repeat 0 (length (concat (repeat (seq off s) s)) + sumN (map (fun s0 => s0 * s0) r)))
      by (rewrite Hv; reflexivity).
    rewrite assign_slice_next.
    rewrite <- seq_shift, fold_left_map'.
    rewrite (fold_left_ext _ (bdi_body ((off + s) :: cumsumN (off + s) r)
                                        ((length done + s * s) :: cumsumN (length done + s * s) (map (fun s0 => s0 * s0) r))
                                        (s :: r))) by (intros; reflexivity).
    rewrite IH by (rewrite app_length, Hv; reflexivity).
    rewrite <- app_assoc. reflexivity.
Qed.

Lemma last_cumsumN : forall l a d, last (a :: cumsumN a l) d = a + sumN l.
Proof.
  induction l as [|x l IH]; intros a d; [simpl; lia|].
  change (last (a :: cumsumN a (x :: l)) d) with (last ((a + x) :: cumsumN (a + x) l) d).
  rewrite IH. simpl. lia.
Qed.

Theorem bdi1_closed_form : forall m, block_diag_index1 m = bdi1_spec 0 m.
Proof.
  intros m. unfold block_diag_index1.
  change (cumsumN 0 (0 :: m)) with (0 :: cumsumN 0 m).
  change (cumsumN 0 (map (fun s => s * s) (0 :: m))) with (0 :: cumsumN 0 (map (fun s => s * s) m)).
  rewrite last_cumsumN. cbn [length Nat.add]. replace (S (length m) - 1) with (length m) by lia.
  apply (bdi1_gen m 0 0 [] 0). reflexivity.
Qed.

(* ================================================================ block_diag_index(m, n) *)

(* rows: for every block its row range, once per column of the block *)
Fixpoint bdi2_i (off : Z) (mn : list (Z * Z)) : list Z :=
  match mn with
  | [] => []
  | ab :: r => concat (repeat (zrange off (off + fst ab)) (Z.to_nat (snd ab))) ++ bdi2_i (off + fst ab) r
  end.

(* columns: for every block and every column of it, the column number once per row *)
Fixpoint bdi2_j (coff : Z) (mn : list (Z * Z)) : list Z :=
  match mn with
  | [] => []
  | ab :: r => flat_map (fun c => repeat (coff + Z.of_nat c)%Z (Z.to_nat (fst ab))) (seq 0 (Z.to_nat (snd ab)))
               ++ bdi2_j (coff + snd ab) r
  end.

Definition repZ {T} (ac : T * Z) : list T := repeat (fst ac) (Z.to_nat (snd ac)).

Fixpoint offs (acc : Z) (m : list Z) : list Z :=
  match m with [] => [] | a :: r => acc :: offs (acc + a)%Z r end.

Lemma p1_offs : forall m acc, removelast (acc :: cumsum_acc acc m) = offs acc m.
Proof.
  induction m as [|a r IH]; intros acc; [reflexivity|].
  change (cumsum_acc acc (a :: r)) with ((acc + a)%Z :: cumsum_acc (acc + a)%Z r).
  change (removelast (acc :: (acc + a)%Z :: cumsum_acc (acc + a)%Z r))
    with (acc :: removelast ((acc + a)%Z :: cumsum_acc (acc + a)%Z r)).
  rewrite IH. reflexivity.
Qed.

Lemma offs_length : forall m acc, length (offs acc m) = length m.
Proof. induction m; intros; simpl; auto. Qed.

Lemma cumsum_acc_length : forall m acc, length (cumsum_acc acc m) = length m.
Proof. induction m; intros; simpl; auto. Qed.

Lemma flat_rep_length : forall {S T} (A : list S) (B : list T) n, length A = length B ->
  length (flat_map repZ (combine A n)) = length (flat_map repZ (combine B n)).
Proof.
  induction A as [|a A IH]; intros [|b B] n H; simpl in H; try discriminate; [reflexivity|].
  destruct n as [|c n]; [reflexivity|]. cbn [combine flat_map]. rewrite !app_length.
  unfold repZ at 1 3. cbn [fst snd]. rewrite !repeat_length, (IH B n) by lia. reflexivity.
Qed.

Lemma combine_repeat2 : forall {S T} (x : S) (y : T) k, combine (repeat x k) (repeat y k) = repeat (x, y) k.
Proof. induction k; simpl; congruence. Qed.

Lemma flat_map_repeat : forall {S T} (f : S -> list T) x k, flat_map f (repeat x k) = concat (repeat (f x) k).
Proof. induction k; simpl; congruence. Qed.

Lemma rows_part : forall m n acc, length m = length n ->
  flat_map (fun p => zrange (fst p) (snd p))
    (combine (flat_map repZ (combine (offs acc m) n))
             (map (fun x => (x + 1)%Z) (flat_map repZ (combine (map (fun x => (x - 1)%Z) (cumsum_acc acc m)) n))))
  = bdi2_i acc (combine m n).
Proof.
  induction m as [|a r IH]; intros [|b n] acc H; simpl in H; try discriminate; [reflexivity|].
  cbn [offs cumsum_acc map combine flat_map bdi2_i fst snd].
  rewrite map_app. unfold repZ at 1 3. cbn [fst snd]. rewrite map_repeat'.
  rewrite combine_app' by (rewrite !repeat_length; reflexivity).
  rewrite combine_repeat2, flat_map_app, flat_map_repeat. cbn [fst snd].
  replace (acc + a - 1 + 1)%Z with (acc + a)%Z by lia.
  f_equal. apply IH. lia.
Qed.

Lemma sumZ_to_nat : forall n, Forall (fun c => 0 <= c)%Z n ->
  Z.to_nat (sumZ n) = fold_right Nat.add 0 (map Z.to_nat n) /\ (0 <= sumZ n)%Z.
Proof.
  induction 1 as [|c n Hc _ [IH1 IH2]]; [split; [reflexivity|simpl; lia]|].
  simpl. split; [rewrite <- IH1; lia|lia].
Qed.

Lemma flat_rep_mn_length : forall m n, length m = length n ->
  length (flat_map (@repZ Z) (combine m n)) = fold_right Nat.add 0 (map Z.to_nat n).
Proof.
  induction m as [|a r IH]; intros [|b n] H; simpl in H; try discriminate; [reflexivity|].
  cbn [combine flat_map map fold_right]. rewrite app_length. unfold repZ at 1. cbn [fst snd].
  rewrite repeat_length, IH by lia. reflexivity.
Qed.

Lemma cols_part : forall m n c, length m = length n -> Forall (fun x => 0 <= x)%Z n ->
  flat_map (@repZ Z) (combine (map Z.of_nat (seq c (fold_right Nat.add 0 (map Z.to_nat n))))
                              (flat_map (@repZ Z) (combine m n)))
  = bdi2_j (Z.of_nat c) (combine m n).
Proof.
  induction m as [|a r IH]; intros [|b n] c H Hn; simpl in H; try discriminate.
  - reflexivity.
  - inversion Hn as [|b' n' Hb Hn']; subst.
    cbn [map fold_right combine flat_map bdi2_j fst snd].
    rewrite seq_app, map_app. unfold repZ at 2. cbn [fst snd].
    rewrite combine_app' by (rewrite map_length, seq_length, repeat_length; reflexivity).
    rewrite flat_map_app. f_equal.
    + (* the columns of this block *)
      generalize (Z.to_nat b). intros k.
      replace (seq c k) with (map (fun j => c + j) (seq 0 k)) by (rewrite map_add_seq; f_equal; lia).
      rewrite map_map.
      assert (G : forall l, flat_map (@repZ Z) (combine (map (fun x => Z.of_nat (c + x)) l) (repeat a (length l)))
                           = flat_map (fun c0 => repeat (Z.of_nat c + Z.of_nat c0)%Z (Z.to_nat a)) l).
      { induction l as [|x l IHl]; [reflexivity|]. cbn [length repeat map combine flat_map].
        rewrite IHl. unfold repZ at 1. cbn [fst snd]. f_equal. f_equal. lia. }
      rewrite <- (seq_length k 0) at 2. apply G.
    + rewrite (IH n (c + Z.to_nat b)) by (try lia; exact Hn').
      f_equal. lia.
Qed.

Theorem bdi2_closed_form : forall m n, length m = length n ->
  Forall (fun x => 0 <= x)%Z n ->
  block_diag_index2 m n = Ok (bdi2_i 0 (combine m n), bdi2_j 0 (combine m n)).
Proof.
  intros m n Hl Hn. unfold block_diag_index2, cumsum.
  change (cumsum_acc 0 (0%Z :: m)) with (0%Z :: cumsum_acc 0 m). cbn [tl].
  rewrite p1_offs.
  rewrite (rldecode_spec Z (offs 0 m) n) by (rewrite offs_length; lia).
  rewrite (rldecode_spec Z (map (fun x => (x - 1)%Z) (cumsum_acc 0 m)) n)
    by (rewrite map_length, cumsum_acc_length; lia).
  fold (@repZ Z).
  rewrite expand_main.
  2:{ rewrite map_length. apply flat_rep_length. rewrite offs_length, map_length, cumsum_acc_length. reflexivity. }
  rewrite (rows_part m n 0 Hl).
  rewrite (rldecode_spec Z m n) by lia. fold (@repZ Z).
  destruct (sumZ_to_nat n Hn) as [Hs _]. rewrite Hs.
  rewrite rldecode_spec by (rewrite map_length, seq_length, (flat_rep_mn_length m n Hl); lia).
  fold (@repZ Z). rewrite (cols_part m n 0 Hl Hn). reflexivity.
Qed.
