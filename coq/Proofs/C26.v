(* C26 — lemmas and proofs about PP.Model.C26 (mortar projection bookkeeping). *)
From Coq Require Import List QArith Bool Arith Lia Lqa Permutation.
Import ListNotations.
From PP Require Import Model.C33 Proofs.C33 Model.C26.
Open Scope Q_scope.

(* sum of the entries of column j lying in the rows selected by p (p = one mortar side) *)
Definition csum (p : nat -> bool) (a : mat) (j : nat) : Q :=
  qsum (map ewt (filter (fun e => p (erow e) && Nat.eqb (ecol e) j) a)).
(* sum of the entries of row i lying in the columns selected by p *)
Definition rsum (p : nat -> bool) (a : mat) (i : nat) : Q :=
  qsum (map ewt (filter (fun e => Nat.eqb (erow e) i && p (ecol e)) a)).

Lemma csum_app : forall p a b j, csum p (a ++ b) j == csum p a j + csum p b j.
Proof. intros. unfold csum. rewrite filter_app, map_app, qsum_app. reflexivity. Qed.

(* ---------------- transposes ---------------- *)
Lemma row_sum_mtrans : forall a i, row_sum (mtrans a) i == col_sum a i.
Proof.
  intros a i. unfold row_sum, col_sum, mtrans. induction a as [|e a IH]; cbn [map filter].
  - reflexivity.
  - unfold erow at 1. cbn [fst snd]. destruct (ecol e =? i)%nat; cbn [map].
    + rewrite !qsum_cons, IH. unfold ewt at 1. cbn [snd]. reflexivity.
    + exact IH.
Qed.

Lemma col_sum_mtrans : forall a j, col_sum (mtrans a) j == row_sum a j.
Proof.
  intros a i. unfold row_sum, col_sum, mtrans. induction a as [|e a IH]; cbn [map filter].
  - reflexivity.
  - unfold ecol at 1. cbn [fst snd]. destruct (erow e =? i)%nat; cbn [map].
    + rewrite !qsum_cons, IH. unfold ewt at 1. cbn [snd]. reflexivity.
    + exact IH.
Qed.

Lemma rsum_mtrans : forall p a i, rsum p (mtrans a) i == csum p a i.
Proof.
  intros p a i. unfold rsum, csum, mtrans, erow, ecol, ewt.
  induction a as [|e a IH]; cbn [map filter fst snd].
  - reflexivity.
  - rewrite (andb_comm (snd (fst e) =? i)%nat (p (fst (fst e)))).
    destruct (p (fst (fst e)) && (snd (fst e) =? i)%nat); cbn [map fst snd].
    + rewrite !qsum_cons, IH. reflexivity.
    + exact IH.
Qed.

(* the four mortar-to-grid maps are the transposes of the grid-to-mortar maps of the other
   scaling *)
Definition transposes_ok (s : mstate) : Prop :=
  m2p_int s = mtrans (p2m_avg s) /\ m2p_avg s = mtrans (p2m_int s) /\
  m2s_int s = mtrans (s2m_avg s) /\ m2s_avg s = mtrans (s2m_int s).

Lemma init_transposes : forall sg np ns ps fdi s,
    init_projections sg np ns ps fdi = inr s -> transposes_ok s.
Proof.
  intros sg np ns ps fdi s H. unfold init_projections in H.
  destruct (if (length sg =? 2)%nat then _ else _) as [e|ts]; [discriminate|].
  destruct (negb _); [discriminate|]. inversion H; subst s. clear H.
  unfold transposes_ok, set_projections. cbn. repeat split; reflexivity.
Qed.

Lemma update_mortar_with_transposes : forall ba bi sd s s',
    update_mortar_with ba bi sd s = inr s' -> transposes_ok s'.
Proof.
  intros ba bi sd s s' H. unfold update_mortar_with in H.
  destruct (check_mappings _); [|discriminate]. inversion H; subst s'.
  unfold transposes_ok, set_projections. cbn. repeat split; reflexivity.
Qed.

Lemma update_secondary_with_transposes : forall ba bi ns s s',
    transposes_ok s -> update_secondary_with ba bi ns s = inr s' -> transposes_ok s'.
Proof.
  intros ba bi ns s s' [T1 [T2 [T3 T4]]] H. unfold update_secondary_with in H.
  destruct (check_mappings _); [|discriminate]. inversion H; subst s'.
  unfold transposes_ok, set_projections. cbn. repeat split; auto.
Qed.

Lemma step_transposes : forall nrm tol s o s',
    transposes_ok s -> step nrm tol s o = inr s' -> transposes_ok s'.
Proof.
  intros nrm tol s o s' T H. destruct o as [news|g|news|blocks nsec]; cbn [step] in H.
  - unfold update_mortar in H.
    destruct (mortar_blocks nrm tol Averaged (sides s) news); [discriminate|].
    destruct (mortar_blocks nrm tol Integrated (sides s) news); [discriminate|].
    eapply update_mortar_with_transposes; eauto.
  - unfold update_secondary in H.
    destruct (secondary_blocks nrm tol Averaged (sides s) g); [discriminate|].
    destruct (secondary_blocks nrm tol Integrated (sides s) g); [discriminate|].
    eapply update_secondary_with_transposes; eauto.
  - unfold update_mortar_k in H. eapply update_mortar_with_transposes; eauto.
  - unfold update_secondary_k in H. eapply update_secondary_with_transposes; eauto.
Qed.

Fixpoint last_state (s : mstate) (l : list (merr + mstate)) : merr + mstate :=
  match l with
  | [] => inr s
  | inl e :: _ => inl e
  | inr s' :: r => last_state s' r
  end.

Lemma run_transposes : forall nrm tol ops s s',
    transposes_ok s -> last_state s (run nrm tol s ops) = inr s' -> transposes_ok s'.
Proof.
  induction ops as [|o r IH]; intros s s' T H; cbn [run last_state] in H.
  - inversion H; subst; exact T.
  - destruct (step nrm tol s o) as [e|s1] eqn:E; cbn [last_state] in H; [discriminate|].
    eapply IH; [|exact H]. eapply step_transposes; eauto.
Qed.

(* ---------------- summing duplicates keeps every sum ---------------- *)
Definition wsum (p : entry -> bool) (a : mat) : Q := qsum (map ewt (filter p a)).
Definition key_respecting (p : entry -> bool) : Prop :=
  forall e1 e2, erow e1 = erow e2 -> ecol e1 = ecol e2 -> p e1 = p e2.

Lemma minsert_wsum : forall p e l, key_respecting p ->
    wsum p (minsert e l) == wsum p (e :: l).
Proof.
  intros p e l Hp. unfold wsum. induction l as [|y r IH]; cbn [minsert].
  - reflexivity.
  - destruct ((erow e =? erow y)%nat && (ecol e =? ecol y)%nat) eqn:K.
    + apply andb_prop in K. destruct K as [K1 K2].
      apply Nat.eqb_eq in K1. apply Nat.eqb_eq in K2.
      assert (E1 : p (erow y, ecol y, Qred (ewt e + ewt y)) = p y) by (apply Hp; reflexivity).
      assert (E2 : p e = p y) by (apply Hp; assumption).
      cbn [filter]. rewrite E1, E2. destruct (p y); cbn [map].
      * rewrite !qsum_cons. unfold ewt at 1. cbn [snd]. rewrite Qred_correct. ring.
      * reflexivity.
    + destruct ((erow e <? erow y)%nat || ((erow e =? erow y)%nat && (ecol e <? ecol y)%nat)).
      * reflexivity.
      * cbn [filter]. cbn [filter] in IH.
        destruct (p y); destruct (p e); cbn [map] in *; rewrite ?qsum_cons in *; rewrite IH; ring.
Qed.

Lemma mcompress_wsum : forall p a, key_respecting p -> wsum p (mcompress a) == wsum p a.
Proof.
  intros p a Hp. induction a as [|e a IH]; cbn [mcompress fold_right].
  - reflexivity.
  - fold (mcompress a). rewrite (minsert_wsum p e _ Hp). unfold wsum in *. cbn [filter].
    destruct (p e); cbn [map]; rewrite ?qsum_cons, IH; reflexivity.
Qed.

(* the stored product has the same row sums and per-side column sums as mmul *)
Lemma mprod_row_sum : forall a b i, row_sum (mprod a b) i == row_sum (mmul a b) i.
Proof.
  intros. apply (mcompress_wsum (fun e => Nat.eqb (erow e) i)).
  intros e1 e2 H1 H2. rewrite H1. reflexivity.
Qed.

Lemma mprod_csum : forall p a b j, csum p (mprod a b) j == csum p (mmul a b) j.
Proof.
  intros. apply (mcompress_wsum (fun e => p (erow e) && Nat.eqb (ecol e) j)).
  intros e1 e2 H1 H2. rewrite H1, H2. reflexivity.
Qed.

(* ---------------- products ---------------- *)
Lemma row_sum_scaled_block : forall (x : entry) (l : mat) i,
    row_sum (map (fun y => (erow x, ecol y, ewt x * ewt y)) l) i ==
    if (erow x =? i)%nat then ewt x * qsum (map ewt l) else 0.
Proof.
  intros x l i. unfold row_sum. induction l as [|y l IH]; cbn [map filter].
  - destruct (erow x =? i)%nat; rewrite ?qsum_nil; try reflexivity. ring.
  - unfold erow at 1. cbn [fst]. fold (erow x).
    destruct (erow x =? i)%nat eqn:E; cbn [map].
    + rewrite !qsum_cons. rewrite IH. unfold ewt at 1. cbn [snd]. ring.
    + exact IH.
Qed.

(* (A*B) 1 = A (B 1) *)
Lemma mmul_row_sum : forall a b i,
    row_sum (mmul a b) i ==
    qsum (map (fun x => ewt x * row_sum b (ecol x)) (filter (fun x => Nat.eqb (erow x) i) a)).
Proof.
  intros a b i. induction a as [|x a IH]; cbn [mmul flat_map filter].
  - reflexivity.
  - fold (mmul a b). rewrite row_sum_app, IH, row_sum_scaled_block.
    destruct (erow x =? i)%nat; cbn [map].
    + rewrite qsum_cons. reflexivity.
    + lra.
Qed.

(* left multiplication by a matrix keeps unit row sums: averaged maps stay averaged *)
Lemma mmul_unit_rows : forall a b i,
    (forall x, In x a -> erow x = i -> row_sum b (ecol x) == 1) ->
    row_sum (mmul a b) i == row_sum a i.
Proof.
  intros a b i H. rewrite mmul_row_sum. unfold row_sum at 2.
  apply qsum_map_ext. intros x Hx. apply filter_In in Hx. destruct Hx as [Hin Hr].
  apply Nat.eqb_eq in Hr. rewrite (H x Hin Hr). ring.
Qed.

Lemma csum_scaled_block : forall p (x : entry) (l : mat) j,
    csum p (map (fun y => (erow x, ecol y, ewt x * ewt y)) l) j ==
    if p (erow x) then ewt x * qsum (map ewt (filter (fun y => Nat.eqb (ecol y) j) l)) else 0.
Proof.
  intros p x l j. unfold csum, erow, ecol, ewt. destruct (p (fst (fst x))) eqn:E.
  - induction l as [|y l IH]; cbn [map filter fst snd].
    + rewrite qsum_nil. ring.
    + rewrite E. cbn [andb].
      destruct (snd (fst y) =? j)%nat; cbn [map fst snd].
      * rewrite !qsum_cons, IH. ring.
      * exact IH.
  - induction l as [|y l IH]; cbn [map filter fst snd].
    + reflexivity.
    + rewrite E. cbn [andb]. exact IH.
Qed.

Lemma qsum_map_add : forall (A : Type) (f g : A -> Q) l,
    qsum (map (fun y => f y + g y) l) == qsum (map f l) + qsum (map g l).
Proof.
  induction l as [|y l IH]; cbn [map].
  - rewrite qsum_nil. lra.
  - rewrite !qsum_cons, IH. lra.
Qed.

Lemma csum_cons : forall (p : nat -> bool) (x : entry) (a : mat) (k : nat),
    csum p (x :: a) k ==
    (if p (erow x) && Nat.eqb (ecol x) k then ewt x else 0) + csum p a k.
Proof.
  intros. unfold csum. cbn [filter].
  destruct (p (erow x) && Nat.eqb (ecol x) k); cbn [map].
  - rewrite qsum_cons. reflexivity.
  - lra.
Qed.

Lemma single_piece : forall (p : nat -> bool) (x : entry) (b : mat) (j : nat),
    (if p (erow x)
     then ewt x * qsum (map ewt (filter (fun y => Nat.eqb (ecol y) j)
                                        (filter (fun y => Nat.eqb (erow y) (ecol x)) b)))
     else 0) ==
    qsum (map (fun y => ewt y * (if p (erow x) && Nat.eqb (ecol x) (erow y) then ewt x else 0))
              (filter (fun y => Nat.eqb (ecol y) j) b)).
Proof.
  intros p x b j. destruct (p (erow x)) eqn:E; cbn [andb].
  - induction b as [|y b IH]; cbn [filter map].
    + rewrite qsum_nil. ring.
    + rewrite (Nat.eqb_sym (erow y) (ecol x)).
      destruct (ecol x =? erow y)%nat eqn:Er; cbn [filter].
      * destruct (ecol y =? j)%nat eqn:Ej; cbn [map].
        -- rewrite !qsum_cons, <- IH, Er. ring.
        -- exact IH.
      * destruct (ecol y =? j)%nat eqn:Ej; cbn [map].
        -- rewrite qsum_cons, <- IH, Er. ring.
        -- exact IH.
  - induction (filter (fun y => (ecol y =? j)%nat) b) as [|y l IH]; cbn [map].
    + reflexivity.
    + rewrite qsum_cons, <- IH. ring.
Qed.

(* 1_p^T (A*B) = (1_p^T A) B *)
Lemma mmul_csum : forall p a b j,
    csum p (mmul a b) j ==
    qsum (map (fun y => ewt y * csum p a (erow y)) (filter (fun y => Nat.eqb (ecol y) j) b)).
Proof.
  intros p a b j. induction a as [|x a IH]; cbn [mmul flat_map].
  - unfold csum at 1. cbn [filter map]. rewrite qsum_nil.
    induction (filter (fun y => (ecol y =? j)%nat) b) as [|y l IHl]; cbn [map].
    + reflexivity.
    + rewrite qsum_cons, <- IHl. unfold csum. cbn [filter map]. rewrite qsum_nil. ring.
  - fold (mmul a b). rewrite csum_app, IH, csum_scaled_block, single_piece.
    rewrite <- qsum_map_add. apply qsum_map_ext. intros y _. rewrite csum_cons. ring.
Qed.

(* left multiplication by M maps the column sums over the rows p of the product to the
   column sums over the rows q of the factor, when M's column sums over p are the
   indicator of q: integrated maps stay integrated, side by side *)
Lemma mmul_side_cols : forall (p q : nat -> bool) (a b : mat) (j : nat),
    (forall y, In y b -> ecol y = j ->
       csum p a (erow y) == if q (erow y) then 1 else 0) ->
    csum p (mmul a b) j == csum q b j.
Proof.
  intros p q a b j H. rewrite mmul_csum. unfold csum at 2.
  induction b as [|y b IH]; cbn [filter map].
  - reflexivity.
  - assert (IH' := IH (fun y' Hy' => H y' (or_intror Hy'))). clear IH.
    destruct (ecol y =? j)%nat eqn:Ej.
    + apply Nat.eqb_eq in Ej. cbn [map]. rewrite qsum_cons, IH'.
      rewrite (H y (or_introl eq_refl) Ej).
      destruct (q (erow y)); cbn [andb map].
      * rewrite qsum_cons. ring.
      * ring.
    + rewrite andb_false_r. exact IH'.
Qed.

(* ---------------- the blocks: match_1d weights (C33) ---------------- *)
Lemma match_cells_sums : forall nrm tol new old lo hi,
    0 < nrm -> tessellates new lo hi -> tessellates old lo hi ->
    (forall m, match_cells nrm tol Averaged new old = inr m ->
       forall i, (i < length new)%nat -> ~ degenerate (nth i new (0, 0)) -> row_sum m i == 1) /\
    (forall m, match_cells nrm tol Integrated new old = inr m ->
       forall j, (j < length old)%nat -> ~ degenerate (nth j old (0, 0)) -> col_sum m j == 1).
Proof.
  intros nrm tol new old lo hi Hn T1 T2. split; intros m H; unfold match_cells in H;
    destruct (lt_outer nrm 0 new old) as [|isect] eqn:E; try discriminate.
  - assert (Hm : m = scale_entries (fun i => cell_vol nrm (nth i new (0, 0)))
                       (fun j => cell_vol nrm (nth j old (0, 0))) tol Averaged isect) by congruence.
    subst m. destruct (cells_partition _ _ _ _ _ _ T1 T2 E) as [R _].
    intros i Hi Hd. rewrite scale_avg_row. apply unit_quotient; [apply R; exact Hi|].
    apply cell_vol_nonzero; assumption.
  - assert (Hm : m = scale_entries (fun i => cell_vol nrm (nth i new (0, 0)))
                       (fun j => cell_vol nrm (nth j old (0, 0))) tol Integrated isect) by congruence.
    subst m. destruct (cells_partition _ _ _ _ _ _ T1 T2 E) as [_ [C _]].
    intros j Hj Hd. rewrite scale_int_col. apply unit_quotient; [apply C; exact Hj|].
    apply cell_vol_nonzero; assumption.
Qed.

(* the only exception of match_1d inside the updates: zero-length cells at one point *)
Lemma match_cells_error : forall nrm tol sc new old e,
    match_cells nrm tol sc new old = inl e ->
    e = MIndexErr /\ exists a b, In a new /\ In b old /\ degenerate a /\ degenerate b.
Proof.
  intros nrm tol sc new old e H. unfold match_cells in H.
  destruct (lt_outer nrm 0 new old) as [e0|] eqn:E; [|discriminate].
  inversion H; subst e. split; [reflexivity|].
  apply lt_outer_err in E. destruct E as [a [b [H1 [H2 H3]]]].
  apply seg_overlap_err in H3. exists a, b. tauto.
Qed.

Lemma history_transposes : forall nrm tol sg np ns ps fdi ops s0 s',
    init_projections sg np ns ps fdi = inr s0 ->
    last_state s0 (run nrm tol s0 ops) = inr s' -> transposes_ok s'.
Proof.
  intros. eapply run_transposes; [eapply init_transposes|]; eauto.
Qed.

Lemma transpose_sums : forall (p : nat -> bool) (a : mat) (k : nat),
    row_sum (mtrans a) k == col_sum a k /\ col_sum (mtrans a) k == row_sum a k /\
    rsum p (mtrans a) k == csum p a k.
Proof.
  intros. split; [apply row_sum_mtrans | split; [apply col_sum_mtrans | apply rsum_mtrans]].
Qed.

Lemma mprod_unit_rows : forall a b i,
    (forall x, In x a -> erow x = i -> row_sum b (ecol x) == 1) ->
    row_sum (mprod a b) i == row_sum a i.
Proof. intros. rewrite mprod_row_sum. apply mmul_unit_rows. assumption. Qed.

Lemma mprod_side_cols : forall (p q : nat -> bool) (a b : mat) (j : nat),
    (forall y, In y b -> ecol y = j ->
       csum p a (erow y) == if q (erow y) then 1 else 0) ->
    csum p (mprod a b) j == csum q b j.
Proof. intros. rewrite mprod_csum. apply mmul_side_cols. assumption. Qed.

(* 2-D blocks: weights of match_2d from overlap areas satisfying the C33 area contract *)
Lemma kmatch_sums : forall tol b,
    (forall i, (i < length (kb_vnew b))%nat -> ~ nth i (kb_vnew b) 0 == 0 ->
       row_sum (kb_isect b) i == nth i (kb_vnew b) 0 ->
       row_sum (kmatch tol Averaged b) i == 1) /\
    (forall j, (j < length (kb_vold b))%nat -> ~ nth j (kb_vold b) 0 == 0 ->
       col_sum (kb_isect b) j == nth j (kb_vold b) 0 ->
       col_sum (kmatch tol Integrated b) j == 1).
Proof.
  intros tol b. split.
  - intros i _ Hz Hs. unfold kmatch. rewrite scale_avg_row. apply unit_quotient; assumption.
  - intros j _ Hz Hs. unfold kmatch. rewrite scale_int_col. apply unit_quotient; assumption.
Qed.

(* ---------------- project_to_side_grids ---------------- *)
Lemma map_shift_seq : forall off n a, map (fun r => (r + off)%nat) (seq a n) = seq (a + off) n.
Proof.
  induction n as [|n IH]; intros a; cbn [seq map]; [reflexivity|].
  rewrite (IH (S a)). reflexivity.
Qed.

Definition total_cells (gs : list (list cell)) : nat :=
  fold_right (fun g acc => (length g + acc)%nat) 0%nat gs.

(* the side restrictions pick every mortar cell exactly once, side after side: their columns,
   concatenated, are 0, 1, ..., num_cells-1; row r of side k is its r-th cell; all weights 1 *)
Lemma proj_blocks_partition : forall gs counter,
    map ecol (concat (proj_blocks counter gs)) = seq counter (total_cells gs) /\
    Forall (fun e => ewt e = 1) (concat (proj_blocks counter gs)) /\
    map (map erow) (proj_blocks counter gs) = map (fun g => seq 0 (length g)) gs.
Proof.
  induction gs as [|g rest IH]; intros counter; cbn [proj_blocks concat map total_cells fold_right].
  - repeat split; constructor.
  - destruct (IH (counter + length g)%nat) as [I1 [I2 I3]]. repeat split.
    + rewrite map_app, I1, map_map. unfold ecol. cbn [fst snd].
      rewrite (map_shift_seq counter (length g) 0). cbn [Nat.add].
      fold (total_cells rest). rewrite seq_app. reflexivity.
    + apply Forall_app. split; [|exact I2]. apply Forall_forall. intros e He.
      apply in_map_iff in He. destruct He as [r [<- _]]. reflexivity.
    + rewrite I3, map_map. unfold erow. cbn [fst]. rewrite map_id. reflexivity.
Qed.

Lemma project_to_side_grids_partition : forall s,
    map ecol (concat (project_to_side_grids s)) = seq 0 (n_mortar s) /\
    Forall (fun e => ewt e = 1) (concat (project_to_side_grids s)) /\
    map (map erow) (project_to_side_grids s) = map (fun g => seq 0 (length g)) (sides s).
Proof. intros s. apply (proj_blocks_partition (sides s) 0). Qed.
